(* DSessionProofs.v — properties of the controller's event handlers (Model/DSession.v) that hold
   for EVERY event sequence and EVERY scheduler state: restart budget (C10), stop conditions (C11),
   worker ids (C12), one crash report per death (C03). *)
From XV Require Import Base Worker Ctl SchedLoad SchedSteal SchedScope SchedEach Sched DSession NoHook.
Open Scope nat_scope.

(* ---------- a small logic for the D monad ---------- *)
Section Spec.
  Variable R : dstate -> dstate -> Prop.       (* relation between pre- and post-state *)
  Variable Q : out -> Prop.                    (* what every output satisfies *)
  Hypothesis R_refl : forall d, R d d.
  Hypothesis R_trans : forall a b c, R a b -> R b c -> R a c.

  (* running m from d0 ends in an R-related state and outputs only Q things *)
  Definition from {A} (d0 : dstate) (m : D A) : Prop :=
    forall d' o r, m d0 = (d', o, r) -> R d0 d' /\ Forall Q o.
  Definition dspec {A} (m : D A) : Prop := forall d0, from d0 m.

  Lemma f_ret {A} d0 (a : A) : from d0 (ret a).
  Proof. intros d' o r H. inversion H; subst. split; [apply R_refl|constructor]. Qed.
  Lemma f_raise {A} d0 e : from d0 (@raise dstate A e).
  Proof. intros d' o r H. inversion H; subst. split; [apply R_refl|constructor]. Qed.
  Lemma f_massert d0 b : from d0 (@massert dstate b).
  Proof. destruct b; [apply f_ret|apply f_raise]. Qed.
  Lemma f_of_opt {A} d0 (x : option A) e : from d0 (@of_opt dstate A x e).
  Proof. destruct x; [apply f_ret|apply f_raise]. Qed.
  Lemma f_emit d0 o : Q o -> from d0 (@emit dstate o).
  Proof. intros Ho d' o' r H. inversion H; subst. split; [apply R_refl|constructor; [exact Ho|constructor]]. Qed.
  Lemma f_put d0 d1 : R d0 d1 -> from d0 (put d1).
  Proof. intros Hr d' o r H. inversion H; subst. split; [exact Hr|constructor]. Qed.
  Lemma f_bind {A B} d0 (m : D A) (f : A -> D B) :
    from d0 m -> (forall a d1, R d0 d1 -> from d1 (f a)) -> from d0 (mbind m f).
  Proof.
    intros Hm Hf d' o r H. unfold mbind in H.
    destruct (m d0) as [[d1 o1] r1] eqn:E1. destruct (Hm _ _ _ E1) as (R1 & Q1).
    destruct r1 as [a|e].
    - destruct (f a d1) as [[d2 o2] r2] eqn:E2. destruct (Hf a d1 R1 _ _ _ E2) as (R2 & Q2).
      inversion H; subst. split; [eapply R_trans; eauto|apply Forall_app; auto].
    - inversion H; subst. auto.
  Qed.
  (* reading the state: the continuation is checked at the state actually read *)
  Lemma f_get {B} d0 (k : dstate -> D B) : from d0 (k d0) -> from d0 (mbind get k).
  Proof.
    intros Hk d' o r H. unfold mbind, get in H.
    destruct (k d0 d0) as [[d2 o2] r2] eqn:E2. inversion H; subst. apply (Hk _ _ _ E2).
  Qed.
  Lemma f_mfor {A} (l : list A) (f : A -> D unit) : (forall a, dspec (f a)) -> dspec (mfor l f).
  Proof.
    intros Hf. induction l as [|x l IH]; intros d0; cbn [mfor]; [apply f_ret|].
    apply f_bind; [apply Hf|intros _ d1 _; apply IH].
  Qed.
  Lemma dspec_bind {A B} (m : D A) (f : A -> D B) : dspec m -> (forall a, dspec (f a)) -> dspec (mbind m f).
  Proof. intros Hm Hf d0. apply f_bind; [apply Hm|intros a d1 _; apply Hf]. Qed.
End Spec.

(* ---------- facts about the building blocks ---------- *)
Lemma d_sched_op_frame op d d' o r :
  d_sched_op op d = (d', o, r) ->
  (exists st, d' = d_set_sched d st) /\ Forall not_hook o.
Proof.
  unfold d_sched_op. destruct (s_step (d_sched d) op) as [[st o1] r1] eqn:E. intros H; inversion H; subst.
  split; [eexists; reflexivity|]. eapply s_step_no_hook; eauto.
Qed.

Definition is_spawn (o : out) : bool := match o with OHook (HSpawn _ _) => true | _ => false end.
Definition is_crashreport (o : out) : bool := match o with OHook (HCrashReport _ _) => true | _ => false end.
Definition count (f : out -> bool) (l : list out) : nat := length (filter f l).

Lemma count_app f a b : count f (a ++ b) = count f a + count f b.
Proof. unfold count. rewrite filter_app, app_length. reflexivity. Qed.
Lemma count_cons f x l : count f (x :: l) = (if f x then 1 else 0) + count f l.
Proof. unfold count. cbn. destruct (f x); reflexivity. Qed.
Lemma count_nil f : count f [] = 0. Proof. reflexivity. Qed.
Arguments count : simpl never.
Ltac cnt := repeat (progress (rewrite ?app_nil_r, ?count_app, ?count_cons, ?count_nil)); cbn [is_spawn is_crashreport app].

Lemma count_zero f l : Forall (fun o => f o = false) l -> count f l = 0.
Proof. unfold count. induction 1 as [|x l Hx Hl IH]; cbn; [reflexivity|]. rewrite Hx. exact IH. Qed.

Lemma not_hook_not_spawn o : not_hook o -> is_spawn o = false.
Proof. destruct o as [h| | |]; cbn; [contradiction|auto..]. Qed.
Lemma not_hook_not_crashreport o : not_hook o -> is_crashreport o = false.
Proof. destruct o as [h| | |]; cbn; [contradiction|auto..]. Qed.

(* the fields the restart bookkeeping depends on *)
Definition same_budget (d d' : dstate) : Prop :=
  d_failed_nodes d' = d_failed_nodes d /\ d_max_restart d' = d_max_restart d /\ d_next_gw d' = d_next_gw d.
Lemma same_budget_refl d : same_budget d d. Proof. repeat split. Qed.
Lemma same_budget_trans a b c : same_budget a b -> same_budget b c -> same_budget a c.
Proof. intros (A1 & A2 & A3) (B1 & B2 & B3). repeat split; congruence. Qed.

Definition quiet_out (o : out) : Prop := is_spawn o = false /\ is_crashreport o = false.
Definition quiet {A} (m : D A) : Prop := dspec same_budget quiet_out m.
Notation qfrom := (from same_budget quiet_out).

(* goal-directed decomposition of a handler *)
Ltac q1 :=
  first
    [ apply (f_ret _ _ same_budget_refl) | apply (f_raise _ _ same_budget_refl)
    | apply (f_massert _ _ same_budget_refl) | apply (f_of_opt _ _ same_budget_refl)
    | apply (f_emit _ _ same_budget_refl); split; reflexivity
    | apply f_put; repeat split; fail
    | match goal with |- from _ _ _ (mbind get _) => apply f_get end
    | match goal with |- from _ _ _ (mbind _ _) => apply (f_bind _ _ same_budget_trans); [|intros ? ? ?] end
    | progress cbv zeta
    | match goal with
      | |- from _ _ _ (match ?x with _ => _ end) => destruct x
      | |- from _ _ _ (if ?x then _ else _) => destruct x
      | H : quiet ?m |- from _ _ _ ?m => apply H
      end ].
Ltac qs := repeat q1.

Lemma quiet_sched_op op : quiet (d_sched_op op).
Proof.
  intros d d' o r H. destruct (d_sched_op_frame _ _ _ _ _ H) as ((st & ->) & Hn). split.
  - repeat split.
  - eapply Forall_impl; [|exact Hn]. intros x Hx. split; [apply not_hook_not_spawn|apply not_hook_not_crashreport]; exact Hx.
Qed.

Lemma quiet_node_flags n : quiet (node_flags d_nt n).
Proof. intros d0. unfold node_flags. qs. Qed.

Lemma quiet_node_send n c : quiet (node_send d_nt n c).
Proof. intros d0. unfold node_send. qs; apply quiet_node_flags. Qed.

Lemma quiet_node_shutdown n : quiet (d_node_shutdown n).
Proof.
  intros d0. unfold d_node_shutdown, node_shutdown. qs; try apply quiet_node_flags; try apply quiet_node_send.
Qed.

Lemma quiet_triggershutdown : quiet d_triggershutdown.
Proof.
  intros d0. unfold d_triggershutdown. qs.
  apply (f_mfor _ _ same_budget_refl same_budget_trans). intros n. apply quiet_node_shutdown.
Qed.

Lemma quiet_active_remove n : quiet (d_active_remove n).
Proof. intros d0. unfold d_active_remove. qs. Qed.

Lemma quiet_handlefailures f : quiet (d_handlefailures f).
Proof. intros d0. unfold d_handlefailures. qs. Qed.

Lemma quiet_hook h : is_spawn (OHook h) = false -> is_crashreport (OHook h) = false -> quiet (hook h).
Proof. intros Hh Hc d0. unfold hook. apply (f_emit _ _ same_budget_refl). split; assumption. Qed.

(* every handler except the two death paths leaves the restart bookkeeping alone and spawns nothing *)
Definition death_event (ev : cevent) : bool :=
  match ev with QErrorDown _ => true | QFinished _ SKKbd => true | _ => false end.

Ltac qh := qs; try apply quiet_sched_op; try apply quiet_node_shutdown; try apply quiet_active_remove;
           try apply quiet_handlefailures; try (apply quiet_hook; reflexivity).

Lemma quiet_handle ev : death_event ev = false -> quiet (d_handle ev).
Proof.
  destruct ev as [n|n ids|n key fl|n i|n i|n i k oc|n i ms|n ixs| |n|n sk|n]; cbn [death_event d_handle]; intros Hd d0;
    try discriminate; unfold hook; try (qh; fail).
  unfold d_worker_workerfinished, hook. destruct sk; try discriminate; qh.
Qed.

(* ---------- decomposition of binds ---------- *)
Lemma mbind_inv {S A B} (m : M S A) (f : A -> M S B) s s' o r :
  mbind m f s = (s', o, r) ->
  (exists s1 o1 a o2, m s = (s1, o1, Ok a) /\ f a s1 = (s', o2, r) /\ o = o1 ++ o2) \/
  (exists e, m s = (s', o, Err e) /\ r = Err e).
Proof.
  unfold mbind. destruct (m s) as [[s1 o1] [a|e]].
  - destruct (f a s1) as [[s2 o2] r2] eqn:E. intros H; inversion H; subst. left. exists s1, o1, a, o2. auto.
  - intros H; inversion H; subst. right. exists e. auto.
Qed.

Lemma quiet_counts {A} (m : D A) d d' o r :
  quiet m -> m d = (d', o, r) -> same_budget d d' /\ count is_spawn o = 0 /\ count is_crashreport o = 0.
Proof.
  intros Hq H. destruct (Hq _ _ _ _ H) as (Hb & Hf). split; [exact Hb|].
  split; apply count_zero; eapply Forall_impl; try exact Hf; intros x (X1 & X2); assumption.
Qed.

(* ---------- the death path ---------- *)
Lemma clone_spec n d d' o r :
  d_clone_node n d = (d', o, r) ->
  d_failed_nodes d' = d_failed_nodes d /\ d_max_restart d' = d_max_restart d /\
  count is_crashreport o = 0 /\
  ((r = Ok tt /\ count is_spawn o = 1 /\ d_next_gw d' = S (d_next_gw d) /\
    exists sp, forall x, In x o -> is_spawn x = true -> x = OHook (HSpawn (d_next_gw d) sp)) \/
   (r <> Ok tt /\ count is_spawn o = 0 /\ d_next_gw d' = d_next_gw d)).
Proof.
  unfold d_clone_node, mbind, get, of_opt, hook, emit, put, ret, raise.
  destruct (aget n (d_nt d)) as [f|] eqn:Ef.
  2:{ intros H; inversion H; subst. repeat split; auto. right. repeat split; auto. discriminate. }
  unfold d_sched_op. cbn [s_step]. intros H. inversion H; subst. cbn [app d_failed_nodes d_max_restart d_next_gw d_set_active d_set_next_gw d_set_sched].
  repeat split; auto. left. repeat split; auto.
  exists (n_spec f). intros x [<-|[]] _. reflexivity.
Qed.

(* the try: remove_node / except KeyError / else: handle_crashitem block *)
Definition try_block (n : nat) : D unit :=
  fun d =>
     let '(d1, o1, r) := d_sched_op (SRemove n) d in
     match r with
     | Err EKey => (d1, o1, Ok tt)
     | Err e => (d1, o1, Err e)
     | Ok None => (d1, o1, Ok tt)
     | Ok (Some item) =>
         let '(d2, o2, r2) := d_handle_crashitem item n d1 in (d2, o1 ++ o2, r2)
     end.

Lemma handle_crashitem_spec item n d d' o r :
  d_handle_crashitem item n d = (d', o, r) ->
  same_budget d d' /\ count is_spawn o = 0 /\ count is_crashreport o <= 1.
Proof.
  unfold d_handle_crashitem, hook, emit, mbind, get, ret, put.
  destruct (d_requeue d) as [|k] eqn:Ek.
  - intros H; inversion H; subst. cnt. repeat split; auto.
  - destruct (d_sched_op (SPending item) (d_set_requeue d k)) as [[dx ox] rx] eqn:E1.
    destruct (quiet_counts _ _ _ _ _ (quiet_sched_op _) E1) as ((X1 & X2 & X3) & Y1 & Y2).
    cbn in X1, X2, X3.
    destruct rx; intros H; inversion H; subst; cnt; rewrite ?Y1, ?Y2; repeat split; auto; lia.
Qed.

Lemma try_block_spec n d d' o r :
  try_block n d = (d', o, r) ->
  same_budget d d' /\ count is_spawn o = 0 /\ count is_crashreport o <= 1.
Proof.
  unfold try_block. destruct (d_sched_op (SRemove n) d) as [[d1 o1] r1] eqn:E1.
  destruct (quiet_counts _ _ _ _ _ (quiet_sched_op _) E1) as (B & Y1 & Y2).
  destruct r1 as [[item|]|e].
  - destruct (d_handle_crashitem item n d1) as [[d2 o2] r2] eqn:E2. intros H; inversion H; subst.
    destruct (handle_crashitem_spec _ _ _ _ _ _ E2) as (B2 & Z1 & Z2).
    cnt. rewrite Y1, Y2, Z1. split; [eapply same_budget_trans; eauto|]. split; lia.
  - intros H; inversion H; subst. rewrite Y1, Y2. repeat split; try apply B; lia.
  - destruct e; intros H; inversion H; subst; rewrite Y1, Y2; repeat split; try apply B; lia.
Qed.

Definition budget_allows (d : dstate) : bool :=
  match d_max_restart d with
  | Some m => negb (m <? d_failed_nodes d + 1)%Z
  | None => true
  end.

Lemma errordown_unfold n :
  d_worker_errordown n =
  (hook (HNodeDown n true) ;;; try_block n ;;;
   d <- get ;;
   let failed := (d_failed_nodes d + 1)%Z in
   put (d_set_failed_nodes d failed) ;;;
   (match d_max_restart d with
    | Some m =>
        if (m <? failed)%Z then hook (HSummary (m =? 0)%Z) ;;; d_triggershutdown
        else (d2 <- get ;; put (d_set_shuttingdown d2 false)) ;;; d_clone_node n
    | None => (d2 <- get ;; put (d_set_shuttingdown d2 false)) ;;; d_clone_node n
    end) ;;;
   d_active_remove n).
Proof. reflexivity. Qed.

(* one death: at most one replacement, only within the budget; the failure count goes up by one;
   at most one 'crashed while running' report *)
Lemma errordown_spec n d d' o r :
  d_worker_errordown n d = (d', o, r) ->
  d_max_restart d' = d_max_restart d /\
  (d_failed_nodes d' = d_failed_nodes d \/ d_failed_nodes d' = (d_failed_nodes d + 1)%Z) /\
  count is_crashreport o <= 1 /\
  ((count is_spawn o = 0 /\ d_next_gw d' = d_next_gw d) \/
   (count is_spawn o = 1 /\ d_next_gw d' = S (d_next_gw d) /\ budget_allows d = true /\
    d_failed_nodes d' = (d_failed_nodes d + 1)%Z /\
    exists sp, forall x, In x o -> is_spawn x = true -> x = OHook (HSpawn (d_next_gw d) sp))).
Proof.
  rewrite errordown_unfold. intros H.
  apply mbind_inv in H. destruct H as [(d0 & o0 & [] & oR & H0 & H & ->)|(e & H0 & _)]; [|inversion H0].
  unfold hook, emit in H0. injection H0 as Ed Eo. subst d0 o0.
  apply mbind_inv in H. destruct H as [(d1 & o1 & [] & oR2 & H1 & H & ->)|(e & H1 & ->)].
  2:{ destruct (try_block_spec _ _ _ _ _ H1) as ((B1 & B2 & B3) & Y1 & Y2). cnt.
      rewrite Y1. split; [auto|]. split; [left; auto|]. split; [lia|]. left. auto. }
  destruct (try_block_spec _ _ _ _ _ H1) as ((B1 & B2 & B3) & Y1 & Y2).
  apply mbind_inv in H. destruct H as [(dg & og & dd & oR3 & Hg & H & ->)|(e & Hg & _)]; [|inversion Hg].
  unfold get in Hg. injection Hg as Eg1 Eg2 Eg3. subst dg og dd. cbv zeta in H.
  apply mbind_inv in H. destruct H as [(dp & op & [] & oR4 & Hp & H & ->)|(e & Hp & _)]; [|inversion Hp].
  unfold put in Hp. injection Hp as Ep1 Ep2. subst dp op.
  set (d3 := d_set_failed_nodes d1 (d_failed_nodes d1 + 1)%Z) in *.
  assert (F3 : d_failed_nodes d3 = (d_failed_nodes d + 1)%Z) by (cbn; rewrite B1; reflexivity).
  assert (M3 : d_max_restart d3 = d_max_restart d) by exact B2.
  assert (G3 : d_next_gw d3 = d_next_gw d) by exact B3.
  apply mbind_inv in H.
  (* the budget decision, as a separate fact about its outcome *)
  assert (DEC : forall d4 o4 r4,
     (match d_max_restart d1 with
      | Some m =>
          if (m <? d_failed_nodes d1 + 1)%Z then hook (HSummary (m =? 0)%Z) ;;; d_triggershutdown
          else (d2 <- get ;; put (d_set_shuttingdown d2 false)) ;;; d_clone_node n
      | None => (d2 <- get ;; put (d_set_shuttingdown d2 false)) ;;; d_clone_node n
      end) d3 = (d4, o4, r4) ->
     d_failed_nodes d4 = d_failed_nodes d3 /\ d_max_restart d4 = d_max_restart d3 /\
     count is_crashreport o4 = 0 /\
     ((count is_spawn o4 = 0 /\ d_next_gw d4 = d_next_gw d3) \/
      (r4 = Ok tt /\ count is_spawn o4 = 1 /\ d_next_gw d4 = S (d_next_gw d3) /\ budget_allows d = true /\
       exists sp, forall x, In x o4 -> is_spawn x = true -> x = OHook (HSpawn (d_next_gw d3) sp)))).
  { intros d4 o4 r4 HD.
    assert (CL : forall dq oq rq, ((d2 <- get ;; put (d_set_shuttingdown d2 false)) ;;; d_clone_node n) d3 = (dq, oq, rq) ->
                 budget_allows d = true ->
                 d_failed_nodes dq = d_failed_nodes d3 /\ d_max_restart dq = d_max_restart d3 /\
                 count is_crashreport oq = 0 /\
                 ((count is_spawn oq = 0 /\ d_next_gw dq = d_next_gw d3) \/
                  (rq = Ok tt /\ count is_spawn oq = 1 /\ d_next_gw dq = S (d_next_gw d3) /\ budget_allows d = true /\
                   exists sp, forall x, In x oq -> is_spawn x = true -> x = OHook (HSpawn (d_next_gw d3) sp)))).
    { intros dq oq rq HC BA.
      apply mbind_inv in HC. destruct HC as [(da & oa & [] & ob & Ha & Hb & ->)|(e & Ha & _)].
      2:{ unfold mbind, get, put in Ha. inversion Ha. }
      unfold mbind, get, put in Ha. inversion Ha; subst. clear Ha.
      destruct (clone_spec _ _ _ _ _ Hb) as (K1 & K2 & K3 & K4). cbn [app].
      split; [exact K1|]. split; [exact K2|]. split; [exact K3|].
      destruct K4 as [(-> & K5 & K6 & sp & K7)|(K5 & K6 & K7)]; [right|left].
      - split; [reflexivity|]. split; [exact K5|]. split; [exact K6|]. split; [exact BA|]. exists sp. exact K7.
      - split; [exact K6|exact K7]. }
    destruct (d_max_restart d1) as [m|] eqn:Em.
    - destruct (m <? d_failed_nodes d1 + 1)%Z eqn:Elt.
      + assert (QQ : quiet (hook (HSummary (m =? 0)%Z) ;;; d_triggershutdown)).
        { apply (dspec_bind _ _ same_budget_trans); [apply quiet_hook; reflexivity|intros _; apply quiet_triggershutdown]. }
        destruct (quiet_counts _ _ _ _ _ QQ HD) as ((X1 & X2 & X3) & Y3 & Y4).
        split; [exact X1|]. split; [exact X2|]. split; [exact Y4|]. left. auto.
      + apply CL; [exact HD|]. unfold budget_allows. rewrite <- B2, <- B1, Elt. reflexivity.
    - apply CL; [exact HD|]. unfold budget_allows. rewrite <- B2. reflexivity. }
  destruct H as [(d4 & o4 & [] & o5 & HD & HA & ->)|(e & HD & ->)].
  - destruct (DEC _ _ _ HD) as (D1 & D2 & D3 & D4).
    destruct (quiet_counts _ _ _ _ _ (quiet_active_remove n) HA) as ((A1 & A2 & A3) & Y5 & Y6).
    cnt. rewrite Y1, D3, Y6, Y5.
    split; [congruence|]. split; [right; congruence|]. split; [lia|].
    destruct D4 as [(S0 & G0)|(_ & S1 & G1 & BA & sp & SP)]; [left|right].
    + rewrite S0. split; [lia|congruence].
    + rewrite S1. repeat split; try lia; try congruence.
      exists sp. intros x Hin Hx.
      assert (Hin4 : In x o4).
      { destruct Hin as [<-|Hin]; [discriminate|].
        apply in_app_or in Hin. destruct Hin as [Hin|Hin].
        - exfalso. clear -Hin Hx Y1. unfold count in Y1. induction o1 as [|y l IH]; [contradiction|].
          cbn in Y1. destruct Hin as [->|Hin]; [rewrite Hx in Y1; discriminate|].
          destruct (is_spawn y); [discriminate|]. auto.
        - cbn [app] in Hin. apply in_app_or in Hin. destruct Hin as [Hin|Hin]; [exact Hin|].
          exfalso. clear -Hin Hx Y5. unfold count in Y5. induction o5 as [|y l IH]; [contradiction|].
          cbn in Y5. destruct Hin as [->|Hin]; [rewrite Hx in Y5; discriminate|].
          destruct (is_spawn y); [discriminate|]. auto. }
      rewrite (SP x Hin4 Hx). rewrite G3. reflexivity.
  - destruct (DEC _ _ _ HD) as (D1 & D2 & D3 & D4).
    cnt. rewrite Y1, D3.
    split; [congruence|]. split; [right; congruence|]. split; [lia|].
    destruct D4 as [(S0 & G0)|(E4 & _)]; [|discriminate]. left. rewrite S0. split; [lia|congruence].
Qed.

(* ---------- one iteration of the controller loop ---------- *)
Definition step_rel (d d' : dstate) (o : list out) : Prop :=
  d_max_restart d' = d_max_restart d /\
  (d_failed_nodes d <= d_failed_nodes d')%Z /\
  count is_crashreport o <= 1 /\
  ((count is_spawn o = 0 /\ d_next_gw d' = d_next_gw d) \/
   (count is_spawn o = 1 /\ d_next_gw d' = S (d_next_gw d) /\ budget_allows d = true /\
    d_failed_nodes d' = (d_failed_nodes d + 1)%Z /\
    exists sp, forall x, In x o -> is_spawn x = true -> x = OHook (HSpawn (d_next_gw d) sp))).

Lemma quiet_step {A} (m : D A) d d' o r : quiet m -> m d = (d', o, r) -> step_rel d d' o.
Proof.
  intros Hq H. destruct (quiet_counts _ _ _ _ _ Hq H) as ((X1 & X2 & X3) & Y1 & Y2).
  unfold step_rel. rewrite Y1, Y2, X1, X2, X3. repeat split; auto; try lia.
Qed.

Lemma not_spawn_in l x : count is_spawn l = 0 -> In x l -> is_spawn x = true -> False.
Proof.
  unfold count. induction l as [|y l IH]; [intros _ []|]. cbn. intros Hc [->|Hin] Hx.
  - rewrite Hx in Hc. discriminate.
  - destruct (is_spawn y); [discriminate|]. eauto.
Qed.

(* a quiet computation before and after something that satisfies step_rel *)
Lemma step_rel_quiet_l {A B} (m : D A) (f : A -> D B) d d' o r :
  quiet m -> (forall a d1 d2 o2 r2, f a d1 = (d2, o2, r2) -> step_rel d1 d2 o2) ->
  mbind m f d = (d', o, r) -> step_rel d d' o.
Proof.
  intros Hq Hf H. apply mbind_inv in H. destruct H as [(d1 & o1 & a & o2 & H1 & H2 & ->)|(e & H1 & ->)].
  - destruct (quiet_counts _ _ _ _ _ Hq H1) as ((X1 & X2 & X3) & Y1 & Y2).
    destruct (Hf _ _ _ _ _ H2) as (S1 & S2 & S3 & S4). unfold step_rel. cnt. rewrite Y1, Y2.
    split; [congruence|]. split; [lia|]. split; [lia|].
    destruct S4 as [(C0 & G0)|(C1 & G1 & BA & F1 & sp & SP)]; [left|right].
    + split; [lia|congruence].
    + split; [lia|]. split; [congruence|]. split.
      { unfold budget_allows in *. rewrite <- X2, <- X1. exact BA. }
      split; [congruence|]. exists sp. intros x Hin Hx. apply in_app_or in Hin. destruct Hin as [Hin|Hin].
      * exfalso. eapply not_spawn_in; eauto.
      * rewrite (SP x Hin Hx). congruence.
  - eapply quiet_step; eauto.
Qed.

Lemma step_rel_quiet_r {A B} (m : D A) (f : A -> D B) d d' o r :
  (forall d1 o1 r1, m d = (d1, o1, r1) -> step_rel d d1 o1) -> (forall a, quiet (f a)) ->
  mbind m f d = (d', o, r) -> step_rel d d' o.
Proof.
  intros Hm Hq H. apply mbind_inv in H. destruct H as [(d1 & o1 & a & o2 & H1 & H2 & ->)|(e & H1 & ->)].
  - destruct (quiet_counts _ _ _ _ _ (Hq a) H2) as ((X1 & X2 & X3) & Y1 & Y2).
    destruct (Hm _ _ _ H1) as (S1 & S2 & S3 & S4). unfold step_rel. cnt. rewrite Y1, Y2.
    split; [congruence|]. split; [lia|]. split; [lia|].
    destruct S4 as [(C0 & G0)|(C1 & G1 & BA & F1 & sp & SP)]; [left|right].
    + split; [lia|congruence].
    + split; [lia|]. split; [congruence|]. split; [exact BA|]. split; [congruence|].
      exists sp. intros x Hin Hx. apply in_app_or in Hin. destruct Hin as [Hin|Hin].
      * apply SP; assumption.
      * exfalso. eapply not_spawn_in; eauto.
  - apply (Hm _ _ _ H1).
Qed.

Lemma errordown_step n d d' o r : d_worker_errordown n d = (d', o, r) -> step_rel d d' o.
Proof.
  intros H. destruct (errordown_spec _ _ _ _ _ H) as (E1 & E2 & E3 & E4). unfold step_rel.
  split; [exact E1|]. split; [destruct E2; lia|]. split; [exact E3|].
  destruct E4 as [E4|(C1 & G1 & BA & F1 & SP)]; [left; exact E4|right; auto].
Qed.

Lemma handle_step ev d d' o r : d_handle ev d = (d', o, r) -> step_rel d d' o.
Proof.
  destruct (death_event ev) eqn:Ed.
  - destruct ev as [| | | | | | | | | |n sk|n]; try discriminate.
    + destruct sk; try discriminate. cbn [d_handle]. unfold d_worker_workerfinished.
      intros H.
      apply (step_rel_quiet_l _ _ _ _ _ _ (quiet_hook (HNodeDown n false) eq_refl eq_refl)) in H; [exact H|].
      intros _ d1 d2 o2 r2 H2.
      assert (Q1 : quiet (d0 <- get ;; put (d_set_shouldstop d0 true))) by (intros d0; qs).
      apply (step_rel_quiet_l _ _ _ _ _ _ Q1) in H2; [exact H2|].
      intros _ d3 d4 o4 r4 H4.
      apply (step_rel_quiet_l _ _ _ _ _ _ quiet_triggershutdown) in H4; [exact H4|].
      intros _ d5 d6 o6 r6 H6. eapply errordown_step; eauto.
    + cbn [d_handle]. apply errordown_step.
  - intros H. eapply quiet_step; [apply quiet_handle; exact Ed|exact H].
Qed.

Lemma loop_once_step ev d d' o r : d_loop_once ev d = (d', o, r) -> step_rel d d' o.
Proof.
  unfold d_loop_once. intros H.
  assert (QT : forall u : unit, quiet ((d0 <- get ;; if s_tests_finished (d_sched d0) then d_triggershutdown else ret tt) ;;;
                     (d0 <- get ;; if d_shouldstop d0 then d_triggershutdown else ret tt))).
  { intros _. apply (dspec_bind _ _ same_budget_trans).
    - intros d0. qs. apply quiet_triggershutdown.
    - intros _ d0. qs. apply quiet_triggershutdown. }
  apply (step_rel_quiet_r _ _ _ _ _ _ (fun d1 o1 r1 H1 => handle_step _ _ _ _ _ H1) QT) in H. exact H.
Qed.

(* ---------- runs of the controller loop over arbitrary event sequences ---------- *)
Fixpoint d_run (evs : list cevent) (d : dstate) : dstate * list out * result unit :=
  match evs with
  | [] => (d, [], Ok tt)
  | ev :: rest =>
      let '(d1, o1, r1) := d_loop_once ev d in
      match r1 with
      | Err e => (d1, o1, Err e)
      | Ok _ => let '(d2, o2, r2) := d_run rest d1 in (d2, o1 ++ o2, r2)
      end
  end.

Definition remaining (d : dstate) : Z :=
  match d_max_restart d with Some m => Z.max 0 (m - d_failed_nodes d) | None => 0 end.

Lemma step_rel_remaining d d' o m :
  d_max_restart d = Some m -> step_rel d d' o ->
  (Z.of_nat (count is_spawn o) <= remaining d - remaining d')%Z /\ d_max_restart d' = Some m.
Proof.
  intros Hm (S1 & S2 & S3 & S4). split; [|congruence]. unfold remaining. rewrite S1, Hm.
  destruct S4 as [(C0 & _)|(C1 & _ & BA & F1 & _)].
  - rewrite C0. cbn. lia.
  - rewrite C1. unfold budget_allows in BA. rewrite Hm in BA.
    apply negb_true_iff, Z.ltb_ge in BA. rewrite F1. cbn. lia.
Qed.

(* C10: the number of replacement workers started never exceeds the budget *)
Theorem restart_bound evs d d' o r m :
  d_run evs d = (d', o, r) -> d_max_restart d = Some m ->
  (Z.of_nat (count is_spawn o) <= remaining d)%Z.
Proof.
  revert d d' o r. induction evs as [|ev rest IH]; intros d d' o r H Hm; cbn [d_run] in H.
  - inversion H; subst. unfold remaining. rewrite Hm, count_nil. lia.
  - destruct (d_loop_once ev d) as [[d1 o1] r1] eqn:E1.
    destruct (step_rel_remaining _ _ _ _ Hm (loop_once_step _ _ _ _ _ E1)) as (R1 & M1).
    destruct r1 as [[]|e].
    + destruct (d_run rest d1) as [[d2 o2] r2] eqn:E2. inversion H; subst.
      specialize (IH _ _ _ _ E2 M1). cnt. unfold remaining in *. rewrite Hm, M1 in *. lia.
    + inversion H; subst. unfold remaining in *. rewrite Hm, M1 in *. lia.
Qed.

Corollary restart_bound_from_start evs d d' o r m :
  d_run evs d = (d', o, r) -> d_max_restart d = Some m -> d_failed_nodes d = 0%Z ->
  (Z.of_nat (count is_spawn o) <= Z.max 0 m)%Z.
Proof.
  intros H Hm Hf. pose proof (restart_bound _ _ _ _ _ _ H Hm) as B. unfold remaining in B.
  rewrite Hm, Hf in B. replace (m - 0)%Z with m in B by lia. exact B.
Qed.

(* with a zero (or negative) budget no replacement is ever started *)
Corollary restart_disabled evs d d' o r m :
  d_run evs d = (d', o, r) -> d_max_restart d = Some m -> (m <= 0)%Z -> (0 <= d_failed_nodes d)%Z ->
  count is_spawn o = 0.
Proof.
  intros H Hm Hle Hf. pose proof (restart_bound _ _ _ _ _ _ H Hm) as B. unfold remaining in B.
  rewrite Hm in B. lia.
Qed.

(* C12: replacement ids are fresh, consecutive and never reused *)
Fixpoint spawn_ids (o : list out) : list nat :=
  match o with
  | [] => []
  | OHook (HSpawn id _) :: r => id :: spawn_ids r
  | _ :: r => spawn_ids r
  end.

Lemma spawn_ids_app a b : spawn_ids (a ++ b) = spawn_ids a ++ spawn_ids b.
Proof.
  induction a as [|x a IH]; [reflexivity|]. destruct x as [[]| | |]; cbn; rewrite ?IH; reflexivity.
Qed.

Lemma spawn_ids_length o : length (spawn_ids o) = count is_spawn o.
Proof.
  induction o as [|x o IH]; [reflexivity|]. rewrite count_cons.
  destruct x as [[]| | |]; cbn; rewrite ?IH; reflexivity.
Qed.

Lemma spawn_ids_all o id :
  (exists sp, forall x, In x o -> is_spawn x = true -> x = OHook (HSpawn id sp)) ->
  forall j, In j (spawn_ids o) -> j = id.
Proof.
  intros (sp & SP). induction o as [|x o IH]; [intros j []|].
  intros j Hj. destruct x as [[]| | |]; cbn in Hj;
    try (apply IH; [intros y Hy; apply SP; right; exact Hy|exact Hj]).
  destruct Hj as [<-|Hj].
  - assert (E : OHook (HSpawn newid spec) = OHook (HSpawn id sp)) by (apply SP; [left; reflexivity|reflexivity]).
    inversion E; reflexivity.
  - apply IH; [intros y Hy; apply SP; right; exact Hy|exact Hj].
Qed.

Lemma step_spawn_ids d d' o :
  step_rel d d' o -> spawn_ids o = seq (d_next_gw d) (count is_spawn o) /\
                     d_next_gw d' = d_next_gw d + count is_spawn o.
Proof.
  intros (_ & _ & _ & S4). destruct S4 as [(C0 & G0)|(C1 & G1 & _ & _ & SP)].
  - rewrite C0. split; [|lia]. pose proof (spawn_ids_length o) as L. rewrite C0 in L.
    destruct (spawn_ids o); [reflexivity|discriminate].
  - rewrite C1. split; [|lia]. pose proof (spawn_ids_length o) as L. rewrite C1 in L.
    destruct (spawn_ids o) as [|j [|? ?]] eqn:E; try discriminate. cbn.
    rewrite (spawn_ids_all o (d_next_gw d) SP j); [reflexivity|]. rewrite E. left. reflexivity.
Qed.

Theorem run_spawn_ids evs d d' o r :
  d_run evs d = (d', o, r) ->
  spawn_ids o = seq (d_next_gw d) (count is_spawn o) /\ d_next_gw d' = d_next_gw d + count is_spawn o.
Proof.
  revert d d' o r. induction evs as [|ev rest IH]; intros d d' o r H; cbn [d_run] in H.
  - inversion H; subst. rewrite count_nil. cbn. split; [reflexivity|lia].
  - destruct (d_loop_once ev d) as [[d1 o1] r1] eqn:E1.
    destruct (step_spawn_ids _ _ _ (loop_once_step _ _ _ _ _ E1)) as (I1 & G1).
    destruct r1 as [[]|e].
    + destruct (d_run rest d1) as [[d2 o2] r2] eqn:E2. inversion H; subst.
      destruct (IH _ _ _ _ E2) as (I2 & G2). rewrite spawn_ids_app, I1, I2, G1. cnt.
      rewrite seq_app. split; [reflexivity|lia].
    + inversion H; subst. auto.
Qed.

Corollary spawn_ids_distinct_and_fresh evs d d' o r :
  d_run evs d = (d', o, r) ->
  NoDup (spawn_ids o) /\ forall j, In j (spawn_ids o) -> d_next_gw d <= j.
Proof.
  intros H. destruct (run_spawn_ids _ _ _ _ _ H) as (I & _). rewrite I. split; [apply seq_NoDup|].
  intros j Hj. apply in_seq in Hj. lia.
Qed.

(* C03 (controller side): one death notice produces at most one 'crashed while running' report *)
Theorem one_crash_report_per_event ev d d' o r :
  d_loop_once ev d = (d', o, r) -> count is_crashreport o <= 1.
Proof. intros H. destruct (loop_once_step _ _ _ _ _ H) as (_ & _ & C & _). exact C. Qed.

Theorem no_crash_report_without_death ev d d' o r :
  death_event ev = false -> d_loop_once ev d = (d', o, r) -> count is_crashreport o = 0.
Proof.
  intros Hd H. unfold d_loop_once in H.
  assert (Q : quiet (d_handle ev ;;;
                     (d0 <- get ;; if s_tests_finished (d_sched d0) then d_triggershutdown else ret tt) ;;;
                     (d0 <- get ;; if d_shouldstop d0 then d_triggershutdown else ret tt))).
  { apply (dspec_bind _ _ same_budget_trans); [apply quiet_handle; exact Hd|intros _].
    apply (dspec_bind _ _ same_budget_trans); [intros d0; qs; apply quiet_triggershutdown|].
    intros _ d0. qs. apply quiet_triggershutdown. }
  destruct (quiet_counts _ _ _ _ _ Q H) as (_ & _ & Y). exact Y.
Qed.
