(* SystemCorollariesColl.v — Part G: C09 at system level.
   The invariant of CollectionProofs.v (K9: once the reference collection is fixed, collection is
   completed and EVERY collection registered with the scheduler equals the reference — ids and
   order) holds in every reachable state of the whole system, for load, worksteal and the scope
   family, every schedule, crashes included; together with K11 (positions are only sent to a worker
   whose registered collection is the reference) this is what makes dispatch by position sound. *)
From XV Require Import Base Worker Ctl SchedLoad SchedSteal SchedScope SchedEach Sched DSession System
  NoHook DSessionProofs ShutdownOnce StopProofs FifoProofs SystemCorollaries.
From XV Require CollectionProofs.
Open Scope nat_scope.

Definition s_agree (st : sstate) : Prop :=
  match st with
  | StL s => CollectionProofs.l_agree s
  | StW s => CollectionProofs.ws_agree s
  | StC s => CollectionProofs.sc_agree s
  | StE _ => True
  end.

Lemma s_agree_set_nt st v : s_agree (s_set_nt st v) <-> s_agree st.
Proof.
  destruct st as [s|s|s|s]; cbn [s_agree s_set_nt]; try tauto; split;
    first [apply CollectionProofs.l_agree_core|apply CollectionProofs.ws_agree_core|apply CollectionProofs.sc_agree_core];
    reflexivity.
Qed.

Lemma lift_agree {S A B} (I : S -> Prop) (wrap : S -> sstate) (f : A -> B) (m : M S A) s st' o r :
  (forall x, s_agree (wrap x) = I x) ->
  (forall s' o r, m s = (s', o, r) -> I s -> I s') ->
  lift wrap f (m s) = (st', o, r) -> I s -> s_agree st'.
Proof.
  intros Hw Hm H Hi. unfold lift in H. destruct (m s) as [[s1 o1] r1] eqn:E. inversion H; subst.
  rewrite Hw. eapply Hm; [reflexivity|exact Hi].
Qed.

Lemma node_shutdown_agree {S} (nt_of : S -> ntable) set_nt (I : S -> Prop) n s s' o r :
  (forall s v, I (set_nt s v) <-> I s) ->
  node_shutdown nt_of set_nt n s = (s', o, r) -> I s -> I s'.
Proof.
  intros Hs H Hi. destruct (node_shutdown_frame _ _ _ _ _ _ _ H) as [->|(v & ->)]; [exact Hi|apply Hs; exact Hi].
Qed.

Theorem s_step_agree st op st' o r : s_step st op = (st', o, r) -> s_agree st -> s_agree st'.
Proof.
  destruct op; cbn [s_step]; intros H Hi.
  - (* SNew *) inversion H; subst. apply s_agree_set_nt. exact Hi.
  - (* SAddNode *)
    destruct st as [s|s|s|s]; cbn [s_agree] in *;
      try (unfold lift in H; destruct (e_add_node n s) as [[? ?] ?]; inversion H; subst; exact I);
      (eapply lift_agree; [| |exact H|exact Hi]; [intros; reflexivity|intros s' o' r' E]).
    + eapply CollectionProofs.l_agree_add_node; exact E.
    + eapply CollectionProofs.ws_agree_add_node; exact E.
    + eapply CollectionProofs.sc_agree_add_node; exact E.
  - (* SAddColl *)
    destruct st as [s|s|s|s]; cbn [s_agree] in *;
      try (unfold lift in H; destruct (e_add_node_collection n coll s) as [[? ?] ?]; inversion H; subst; exact I);
      (eapply lift_agree; [| |exact H|exact Hi]; [intros; reflexivity|intros s' o' r' E]).
    + eapply CollectionProofs.l_agree_add_node_collection; exact E.
    + eapply CollectionProofs.ws_agree_add_node_collection; exact E.
    + eapply CollectionProofs.sc_agree_add_node_collection; exact E.
  - (* SSchedule *)
    destruct st as [s|s|s|s]; cbn [s_agree] in *;
      try (unfold lift in H; destruct (e_schedule s) as [[? ?] ?]; inversion H; subst; exact I);
      (eapply lift_agree; [| |exact H|exact Hi]; [intros; reflexivity|intros s' o' r' E]).
    + eapply CollectionProofs.l_agree_schedule; exact E.
    + eapply CollectionProofs.ws_agree_schedule; exact E.
    + eapply CollectionProofs.sc_agree_schedule; exact E.
  - (* SComplete *)
    destruct st as [s|s|s|s]; cbn [s_agree] in *;
      try (unfold lift in H; destruct (e_mark_test_complete n idx s) as [[? ?] ?]; inversion H; subst; exact I);
      (eapply lift_agree; [| |exact H|exact Hi]; [intros; reflexivity|intros s' o' r' E]).
    + eapply CollectionProofs.l_agree_mark_test_complete; exact E.
    + eapply CollectionProofs.ws_agree_mark_test_complete; exact E.
    + eapply CollectionProofs.sc_agree_mark_test_complete; exact E.
  - (* SPending *)
    destruct st as [s|s|s|s]; cbn [s_agree] in *; try (inversion H; subst; exact Hi);
      (eapply lift_agree; [| |exact H|exact Hi]; [intros; reflexivity|intros s' o' r' E]).
    + eapply CollectionProofs.l_agree_mark_test_pending; exact E.
    + eapply CollectionProofs.ws_agree_mark_test_pending; exact E.
  - (* SUnsched *)
    destruct st as [s|s|s|s]; cbn [s_agree] in *; try (inversion H; subst; exact Hi).
    eapply lift_agree; [| |exact H|exact Hi]; [intros; reflexivity|intros s' o' r' E].
    eapply CollectionProofs.ws_agree_remove_pending; exact E.
  - (* SRemove *)
    destruct st as [s|s|s|s]; cbn [s_agree] in *;
      try (unfold lift in H; destruct (e_remove_node n s) as [[? ?] ?]; inversion H; subst; exact I);
      (eapply lift_agree; [| |exact H|exact Hi]; [intros; reflexivity|intros s' o' r' E]).
    + eapply CollectionProofs.l_agree_remove_node; exact E.
    + eapply CollectionProofs.ws_agree_remove_node; exact E.
    + eapply CollectionProofs.sc_agree_remove_node; exact E.
  - (* SFlags *)
    destruct (aget n (s_nt st)); inversion H; subst; [apply s_agree_set_nt|]; exact Hi.
  - (* SShutdown *)
    destruct st as [s|s|s|s]; cbn [s_agree] in *;
      try (unfold lift in H; destruct (node_shutdown e_nt e_set_nt n s) as [[? ?] ?]; inversion H; subst; exact I);
      (eapply lift_agree; [| |exact H|exact Hi]; [intros; reflexivity|intros s' o' r' E]);
      (eapply node_shutdown_agree; [|exact E]); intros s0 v.
    + exact (s_agree_set_nt (StL s0) v).
    + exact (s_agree_set_nt (StW s0) v).
    + exact (s_agree_set_nt (StC s0) v).
Qed.

(* ---- the controller ---- *)
Definition AG (d d' : dstate) (o : list out) : Prop := s_agree (d_sched d) -> s_agree (d_sched d').
Lemma AG_refl : rrefl AG. Proof. intros d H. exact H. Qed.
Lemma AG_trans : rtrans AG. Proof. intros a b c o1 o2 A B H. exact (B (A H)). Qed.
#[local] Hint Resolve AG_refl AG_trans : sdrel.

Lemma ag_sched_op op d0 : ShutdownOnce.from AG d0 (d_sched_op op).
Proof.
  intros d' o r H. unfold d_sched_op in H. destruct (s_step (d_sched d0) op) as [[st o1] r1] eqn:E.
  inversion H; subst. unfold AG. cbn [d_sched d_set_sched]. eapply s_step_agree; exact E.
Qed.
Lemma ag_node_shutdown n d0 : ShutdownOnce.from AG d0 (d_node_shutdown n).
Proof.
  intros d' o r H. destruct (node_shutdown_frame _ _ _ _ _ _ _ H) as [->|(v & ->)]; [intros X; exact X|].
  unfold AG, d_set_nt. cbn [d_sched d_set_sched]. apply s_agree_set_nt.
Qed.

Ltac ag_rel := unfold AG; cbn; rewrite ?s_agree_set_nt; solve [auto].
Create HintDb agdb.
#[local] Hint Resolve ag_sched_op ag_node_shutdown : agdb.
Ltac ag1 :=
  first
    [ apply ShutdownOnce.f_ret; rr | apply ShutdownOnce.f_raise; rr | apply f_massert; rr | apply ShutdownOnce.f_of_opt; rr
    | apply f_getv; rr
    | apply ShutdownOnce.f_put; ag_rel
    | apply ShutdownOnce.f_emit; ag_rel
    | apply ShutdownOnce.f_mfor; [rr | rr | intros ? ?]
    | match goal with
      | |- ShutdownOnce.from _ _ (mbind get _) => apply ShutdownOnce.f_get
      | |- ShutdownOnce.from _ _ (mbind (ret _) _) => apply f_ret_bind
      | |- ShutdownOnce.from _ _ (mbind (of_opt _ _) _) => apply f_of_opt_bind; [rr | intros ? ?]
      | |- ShutdownOnce.from _ _ (mbind (massert _) _) => apply f_massert_bind; [rr | intros ?]
      | |- ShutdownOnce.from _ _ (mbind _ _) => apply ShutdownOnce.f_bind; [rr | | intros ? ?]
      end
    | progress cbv zeta
    | match goal with
      | |- ShutdownOnce.from _ _ (match ?x with _ => _ end) => destruct x eqn:?
      | |- ShutdownOnce.from _ _ (let '(_, _) := ?x in _) => destruct x eqn:?
      end
    | solve [eauto with agdb] ].
Ltac ag := repeat ag1.

Lemma ag_triggershutdown d0 : ShutdownOnce.from AG d0 d_triggershutdown.
Proof. unfold d_triggershutdown. ag. Qed.
#[local] Hint Resolve ag_triggershutdown : agdb.
Lemma ag_active_remove n d0 : ShutdownOnce.from AG d0 (d_active_remove n).
Proof. unfold d_active_remove. ag. Qed.
#[local] Hint Resolve ag_active_remove : agdb.
Lemma ag_handlefailures f d0 : ShutdownOnce.from AG d0 (d_handlefailures f).
Proof. unfold d_handlefailures. ag. Qed.
#[local] Hint Resolve ag_handlefailures : agdb.
Lemma ag_handle_crashitem item n d0 : ShutdownOnce.from AG d0 (d_handle_crashitem item n).
Proof. unfold d_handle_crashitem, hook. ag. Qed.
#[local] Hint Resolve ag_handle_crashitem : agdb.
Lemma ag_clone n d0 : ShutdownOnce.from AG d0 (d_clone_node n).
Proof. unfold d_clone_node, hook. ag. Qed.
#[local] Hint Resolve ag_clone : agdb.
Lemma ag_try_block n d0 : ShutdownOnce.from AG d0 (try_block n).
Proof.
  intros d' o r H. unfold try_block in H.
  destruct (d_sched_op (SRemove n) d0) as [[d1 o1] r1] eqn:E1.
  pose proof (ag_sched_op _ d0 _ _ _ E1) as R1.
  destruct r1 as [[item|]|e].
  - destruct (d_handle_crashitem item n d1) as [[d2 o2] r2] eqn:E2. inversion H; subst.
    eapply AG_trans; [exact R1|exact (ag_handle_crashitem _ _ _ _ _ _ E2)].
  - inversion H; subst. exact R1.
  - destruct e; inversion H; subst; exact R1.
Qed.
#[local] Hint Resolve ag_try_block : agdb.
Lemma ag_errordown n d0 : ShutdownOnce.from AG d0 (d_worker_errordown n).
Proof. rewrite errordown_unfold. unfold hook. ag. Qed.
#[local] Hint Resolve ag_errordown : agdb.
Lemma ag_handle ev d0 : ShutdownOnce.from AG d0 (d_handle ev).
Proof.
  destruct ev as [n|n ids|n key fl|n i|n i|n i k oc|n i ms|n ixs| |n|n sk|n]; cbn [d_handle]; unfold hook; try (ag; fail).
  unfold d_worker_workerfinished, hook. destruct sk; ag.
Qed.
#[local] Hint Resolve ag_handle : agdb.
Lemma ag_loop_once ev d0 : ShutdownOnce.from AG d0 (d_loop_once ev).
Proof. unfold d_loop_once. ag. Qed.
Lemma ag_no_active d0 : ShutdownOnce.from AG d0 d_no_active.
Proof. unfold d_no_active. ag. Qed.
Lemma ag_process_from_remote n m d0 : ShutdownOnce.from AG d0 (process_from_remote n m).
Proof.
  unfold process_from_remote. apply ShutdownOnce.f_get. apply f_of_opt_bind; [rr|]. intros f Hf. cbv zeta.
  destruct m as [e|ids|sk|i ms|[|]| | |]; try destruct e; ag.
Qed.

Lemma cmove_AG k d d' o : cmove k d d' o -> AG d d' o.
Proof.
  intros [ev d0 d1 o1 r H|d0 d1 o1 r H|n m d0 d1 o1 r H|n f d0 Hf].
  - exact (ag_loop_once ev d0 _ _ _ H).
  - exact (ag_no_active d0 _ _ _ H).
  - exact (ag_process_from_remote n m d0 _ _ _ H).
  - unfold AG, d_set_nt. cbn [d_sched d_set_sched]. apply s_agree_set_nt.
Qed.

Lemma s_agree_init c : s_agree (d_sched (y_d (sys_init c))).
Proof.
  cbn [sys_init y_d d_sched]. apply s_agree_set_nt. destruct (c_mode c); cbn [s_init s_agree].
  - apply CollectionProofs.l_agree_init.
  - apply CollectionProofs.ws_agree_init.
  - apply CollectionProofs.sc_agree_init.
  - exact I.
Qed.

(* ---- C09: the collection invariant holds in every reachable state of the system ---- *)
Theorem sys_collections_agree c ls s outs wevs :
  sys_exec c (sys_init c) ls = (s, outs, wevs) -> s_agree (d_sched (y_d s)).
Proof.
  intros H. exact (sys_exec_lift AG AG_refl AG_trans cmove_AG _ _ _ _ _ _ H (s_agree_init c)).
Qed.

(* the reference collection and the registered collections of a scheduler state *)
Definition s_ref (st : sstate) : option (list string) :=
  match st with StL s => l_coll s | StW s => ws_coll s | StC s => sc_coll s | StE _ => None end.
Definition s_registered (st : sstate) : amap (list string) :=
  match st with StL s => l_n2c s | StW s => ws_n2c s | StC s => sc_reg s | StE s => e_n2c s end.

(* unfolded: in every reachable state, once the reference collection is fixed every worker's
   registered collection IS the reference (same ids, same order) *)
Corollary sys_registered_is_reference c ls s outs wevs ref n coll :
  sys_exec c (sys_init c) ls = (s, outs, wevs) ->
  s_ref (d_sched (y_d s)) = Some ref -> aget n (s_registered (d_sched (y_d s))) = Some coll ->
  coll = ref.
Proof.
  intros H Hr Hg. pose proof (sys_collections_agree _ _ _ _ _ H) as A.
  destruct (d_sched (y_d s)) as [t|t|t|t]; cbn [s_agree s_ref s_registered] in *.
  - eapply CollectionProofs.l_agree_aget; eassumption.
  - eapply CollectionProofs.ws_agree_aget; eassumption.
  - eapply CollectionProofs.sc_agree_aget; eassumption.
  - discriminate.
Qed.


(* ====================================================================================== *)
(* G3: the registered collection of worker n is what worker n collected (c_coll c n)        *)
(* ====================================================================================== *)
Lemma In_aset_inv {V} k (v : V) n x m : In (k, v) (aset n x m) -> (k = n /\ v = x) \/ In (k, v) m.
Proof.
  induction m as [|[k' v'] m IH]; cbn.
  - intros [E|[]]. inversion E. left. auto.
  - destruct (Nat.eqb n k') eqn:E.
    + apply Nat.eqb_eq in E. subst k'. intros [E1|Hin]; [inversion E1; left; auto|right; right; exact Hin].
    + intros [E1|Hin]; [right; left; exact E1|]. destruct (IH Hin) as [X|X]; [left; exact X|right; right; exact X].
Qed.
Lemma In_adel_inv {V} k (v : V) n m : In (k, v) (adel n m) -> In (k, v) m.
Proof.
  induction m as [|[k' v'] m IH]; cbn; [intros []|].
  destruct (Nat.eqb n k'); [intros H; right; exact H|]. intros [E|Hin]; [left; exact E|right; apply IH; exact Hin].
Qed.

(* every registered collection of the new state was registered before, or is the pair (n0, ids0) *)
Definition regR {S} (reg : S -> amap (list string)) (n0 : nat) (ids0 : list string) (s s' : S) (o : list out) : Prop :=
  forall k v, In (k, v) (reg s') -> In (k, v) (reg s) \/ (k = n0 /\ v = ids0).
Lemma regR_refl {S} (reg : S -> amap (list string)) n0 ids0 : rrefl (regR reg n0 ids0).
Proof. intros s k v H. left. exact H. Qed.
Lemma regR_trans {S} (reg : S -> amap (list string)) n0 ids0 : rtrans (regR reg n0 ids0).
Proof. intros a b c o1 o2 A B k v H. destruct (B k v H) as [X|X]; [apply A; exact X|right; exact X]. Qed.
#[local] Hint Resolve regR_refl regR_trans : sdrel.

Lemma rg_node_send {S} (reg : S -> amap (list string)) (nt_of : S -> ntable) n0 ids0 n c :
  spec (regR reg n0 ids0) (node_send nt_of n c).
Proof.
  intros s0 s' o r H. destruct (node_send_out _ _ _ _ _ _ _ H) as (-> & _). apply regR_refl.
Qed.
Lemma rg_node_shutdown {S} (reg : S -> amap (list string)) (nt_of : S -> ntable) set_nt n0 ids0 n :
  (forall s v, reg (set_nt s v) = reg s) -> spec (regR reg n0 ids0) (node_shutdown nt_of set_nt n).
Proof.
  intros Hs s0 s' o r H. destruct (node_shutdown_frame _ _ _ _ _ _ _ H) as [->|(v & ->)]; [apply regR_refl|].
  intros k x Hin. rewrite Hs in Hin. left. exact Hin.
Qed.

Ltac rg_put :=
  unfold regR; cbn; intros ? ? HinX;
  first [ left; exact HinX
        | apply In_adel_inv in HinX; left; exact HinX
        | apply In_aset_inv in HinX; destruct HinX as [(? & ?)|?]; [|left; assumption]; subst;
          try match goal with E : coll_eqb _ _ = true |- _ => apply CollectionProofs.K1_coll_eqb_eq in E; subst end;
          right; split; reflexivity ].
Create HintDb rgdb.
Ltac rg1 :=
  first
    [ apply ShutdownOnce.f_ret; rr | apply ShutdownOnce.f_raise; rr | apply f_massert; rr | apply ShutdownOnce.f_of_opt; rr
    | apply f_getv; rr
    | apply ShutdownOnce.f_put; rg_put
    | apply ShutdownOnce.f_emit; unfold regR; intros ? ? HinX; left; exact HinX
    | apply ShutdownOnce.f_mfor; [rr | rr | intros ? ?]
    | apply rg_node_send
    | apply rg_node_shutdown; intros; reflexivity
    | apply f_flags; rr
    | match goal with
      | |- ShutdownOnce.from _ _ (mbind get _) => apply ShutdownOnce.f_get
      | |- ShutdownOnce.from _ _ (mbind (ret _) _) => apply f_ret_bind
      | |- ShutdownOnce.from _ _ (mbind (of_opt _ _) _) => apply f_of_opt_bind; [rr | intros ? ?]
      | |- ShutdownOnce.from _ _ (mbind (massert _) _) => apply f_massert_bind; [rr | intros ?]
      | |- ShutdownOnce.from _ _ (mbind (node_flags _ _) _) => apply f_flags_bind; [rr | intros ? ?]
      | |- ShutdownOnce.from _ _ (mbind (node_shutting_down _ _) _) => apply f_nsd_bind; [rr | intros ? ?]
      | |- ShutdownOnce.from _ _ (mbind _ _) => apply ShutdownOnce.f_bind; [rr | | intros ? ?]
      end
    | progress cbv zeta
    | match goal with
      | |- ShutdownOnce.from _ _ (match ?x with _ => _ end) => destruct x eqn:?
      | |- ShutdownOnce.from _ _ (let '(_, _) := ?x in _) => destruct x eqn:?
      end
    | solve [eauto with rgdb] ].
Ltac rg := repeat rg1.

Notation lrg := (regR l_n2c).
Notation wrg := (regR ws_n2c).
Notation crg := (regR sc_reg).
Notation erg := (regR e_n2c).

(* ---- load ---- *)
Lemma rg_l_send_tests a b n num s0 : ShutdownOnce.from (lrg a b) s0 (l_send_tests n num).
Proof. unfold l_send_tests. rg. Qed.
#[local] Hint Resolve rg_l_send_tests : rgdb.
Lemma rg_l_check_schedule a b n d s0 : ShutdownOnce.from (lrg a b) s0 (l_check_schedule n d).
Proof. unfold l_check_schedule. rg. Qed.
#[local] Hint Resolve rg_l_check_schedule : rgdb.
Lemma rg_l_round_robin a b fuel all cur s0 : ShutdownOnce.from (lrg a b) s0 (l_round_robin fuel all cur).
Proof.
  revert cur s0. induction fuel as [|f IH]; intros cur s0; cbn [l_round_robin]; [rg|].
  destruct cur as [|n r]; [destruct all as [|n r]; [rg|]|];
    (apply ShutdownOnce.f_bind; [rr|apply rg_l_send_tests|intros _ s1; apply IH]).
Qed.
#[local] Hint Resolve rg_l_round_robin : rgdb.
Lemma rg_l_same a b s0 : ShutdownOnce.from (lrg a b) s0 l_same_collection.
Proof. unfold l_same_collection. rg. Qed.
#[local] Hint Resolve rg_l_same : rgdb.
Lemma rg_l_schedule a b s0 : ShutdownOnce.from (lrg a b) s0 l_schedule.
Proof. unfold l_schedule. rg. Qed.
Lemma rg_l_add_node a b n s0 : ShutdownOnce.from (lrg a b) s0 (l_add_node n).
Proof. unfold l_add_node. rg. Qed.
Lemma rg_l_add_coll n c s0 : ShutdownOnce.from (lrg n c) s0 (l_add_node_collection n c).
Proof. unfold l_add_node_collection. rg. Qed.
Lemma rg_l_complete a b n i d s0 : ShutdownOnce.from (lrg a b) s0 (l_mark_test_complete n i d).
Proof. unfold l_mark_test_complete. rg. Qed.
Lemma rg_l_pending a b it s0 : ShutdownOnce.from (lrg a b) s0 (l_mark_test_pending it).
Proof. unfold l_mark_test_pending. rg. Qed.
Lemma rg_l_remove a b n s0 : ShutdownOnce.from (lrg a b) s0 (l_remove_node n).
Proof. unfold l_remove_node. rg. Qed.

(* ---- worksteal ---- *)
Lemma rg_ws_send_tests a b n num s0 : ShutdownOnce.from (wrg a b) s0 (ws_send_tests n num).
Proof. unfold ws_send_tests. rg. Qed.
#[local] Hint Resolve rg_ws_send_tests : rgdb.
Lemma rg_ws_distribute a b idle s0 : ShutdownOnce.from (wrg a b) s0 (ws_distribute idle).
Proof.
  revert s0. induction idle as [|n r IH]; intros s0; cbn [ws_distribute]; [rg|].
  apply ShutdownOnce.f_get. cbv zeta. apply ShutdownOnce.f_bind; [rr|apply rg_ws_send_tests|intros _ s1; apply IH].
Qed.
#[local] Hint Resolve rg_ws_distribute : rgdb.
Lemma rg_ws_check a b s0 : ShutdownOnce.from (wrg a b) s0 ws_check_schedule.
Proof. unfold ws_check_schedule. rg. Qed.
#[local] Hint Resolve rg_ws_check : rgdb.
Lemma rg_ws_add_node a b n s0 : ShutdownOnce.from (wrg a b) s0 (ws_add_node n).
Proof. unfold ws_add_node. rg. Qed.
Lemma rg_ws_add_coll n c s0 : ShutdownOnce.from (wrg n c) s0 (ws_add_node_collection n c).
Proof. unfold ws_add_node_collection. rg. Qed.
Lemma rg_ws_complete a b n i s0 : ShutdownOnce.from (wrg a b) s0 (ws_mark_test_complete n i).
Proof. unfold ws_mark_test_complete. rg. Qed.
Lemma rg_ws_pending a b it s0 : ShutdownOnce.from (wrg a b) s0 (ws_mark_test_pending it).
Proof. unfold ws_mark_test_pending. rg. Qed.
Lemma rg_ws_unsched a b n ixs s0 : ShutdownOnce.from (wrg a b) s0 (ws_remove_pending_tests_from_node n ixs).
Proof. unfold ws_remove_pending_tests_from_node. rg. Qed.
Lemma rg_ws_remove a b n s0 : ShutdownOnce.from (wrg a b) s0 (ws_remove_node n).
Proof. unfold ws_remove_node. rg. Qed.
Lemma rg_ws_same a b s0 : ShutdownOnce.from (wrg a b) s0 ws_same_collection.
Proof. unfold ws_same_collection. rg. Qed.
#[local] Hint Resolve rg_ws_same : rgdb.
Lemma rg_ws_schedule a b s0 : ShutdownOnce.from (wrg a b) s0 ws_schedule.
Proof. unfold ws_schedule. rg. Qed.

(* ---- scope family ---- *)
Lemma rg_sc_add_node a b n s0 : ShutdownOnce.from (crg a b) s0 (sc_add_node n).
Proof. unfold sc_add_node. rg. Qed.
Lemma rg_sc_assign a b n s0 : ShutdownOnce.from (crg a b) s0 (sc_assign_work_unit n).
Proof. unfold sc_assign_work_unit. rg. Qed.
#[local] Hint Resolve rg_sc_assign : rgdb.
Lemma rg_sc_top_up a b fuel n s0 : ShutdownOnce.from (crg a b) s0 (sc_top_up fuel n).
Proof. revert s0. induction fuel as [|f IH]; intros s0; cbn [sc_top_up]; rg. Qed.
#[local] Hint Resolve rg_sc_top_up : rgdb.
Lemma rg_sc_reschedule a b n s0 : ShutdownOnce.from (crg a b) s0 (sc_reschedule n).
Proof. unfold sc_reschedule. rg. Qed.
#[local] Hint Resolve rg_sc_reschedule : rgdb.
Lemma rg_sc_remove a b n s0 : ShutdownOnce.from (crg a b) s0 (sc_remove_node n).
Proof. unfold sc_remove_node. rg. Qed.
Lemma rg_sc_add_coll n c s0 : ShutdownOnce.from (crg n c) s0 (sc_add_node_collection n c).
Proof. unfold sc_add_node_collection. rg. Qed.
Lemma rg_sc_complete a b n i s0 : ShutdownOnce.from (crg a b) s0 (sc_mark_test_complete n i).
Proof. unfold sc_mark_test_complete. rg. Qed.
Lemma rg_sc_same a b s0 : ShutdownOnce.from (crg a b) s0 sc_same_collection.
Proof. unfold sc_same_collection. rg. Qed.
#[local] Hint Resolve rg_sc_same : rgdb.
Lemma rg_sc_pop_extra a b k s0 : ShutdownOnce.from (crg a b) s0 (sc_pop_extra k).
Proof. revert s0. induction k as [|k IH]; intros s0; cbn [sc_pop_extra]; rg. Qed.
#[local] Hint Resolve rg_sc_pop_extra : rgdb.
Lemma rg_sc_schedule a b s0 : ShutdownOnce.from (crg a b) s0 sc_schedule.
Proof. unfold sc_schedule. rg. Qed.

(* ---- each ---- *)
Lemma rg_e_add_node a b n s0 : ShutdownOnce.from (erg a b) s0 (e_add_node n).
Proof. unfold e_add_node. rg. Qed.
Lemma rg_e_inherit n c dead s0 : ShutdownOnce.from (erg n c) s0 (e_inherit n c dead).
Proof. revert s0. induction dead as [|[d p] r IH]; intros s0; cbn [e_inherit]; rg. Qed.
#[local] Hint Resolve rg_e_inherit : rgdb.
Lemma rg_e_add_coll n c s0 : ShutdownOnce.from (erg n c) s0 (e_add_node_collection n c).
Proof. unfold e_add_node_collection. rg. Qed.
Lemma rg_e_complete a b n i s0 : ShutdownOnce.from (erg a b) s0 (e_mark_test_complete n i).
Proof. unfold e_mark_test_complete. rg. Qed.
Lemma rg_e_remove a b n s0 : ShutdownOnce.from (erg a b) s0 (e_remove_node n).
Proof. unfold e_remove_node. rg. Qed.
Lemma rg_e_schedule_node a b n s0 : ShutdownOnce.from (erg a b) s0 (e_schedule_node n).
Proof. unfold e_schedule_node. rg. Qed.
#[local] Hint Resolve rg_e_schedule_node : rgdb.
Lemma rg_e_schedule a b s0 : ShutdownOnce.from (erg a b) s0 e_schedule.
Proof. unfold e_schedule. rg. Qed.


(* ---- the scheduler interface ---- *)
Lemma s_registered_set_nt st v : s_registered (s_set_nt st v) = s_registered st.
Proof. destruct st; reflexivity. Qed.

Lemma lift_reg {S A B} (reg : S -> amap (list string)) (wrap : S -> sstate) (f : A -> B) (m : M S A)
      n0 ids0 s st' o r :
  (forall x, s_registered (wrap x) = reg x) -> ShutdownOnce.from (regR reg n0 ids0) s m ->
  lift wrap f (m s) = (st', o, r) ->
  forall k v, In (k, v) (s_registered st') -> In (k, v) (reg s) \/ (k = n0 /\ v = ids0).
Proof.
  intros Hw Hm H. unfold lift in H. destruct (m s) as [[s1 o1] r1] eqn:E. inversion H; subst.
  intros k v Hin. rewrite Hw in Hin. exact (Hm _ _ _ E k v Hin).
Qed.

Section Registered.
Variable c : config.

Definition reg_ok (st : sstate) : Prop := forall k v, In (k, v) (s_registered st) -> v = c_coll c k.

Lemma reg_ok_from st st' n0 :
  reg_ok st ->
  (forall k v, In (k, v) (s_registered st') -> In (k, v) (s_registered st) \/ (k = n0 /\ v = c_coll c n0)) ->
  reg_ok st'.
Proof. intros Hi H k v Hin. destruct (H k v Hin) as [X|(-> & ->)]; [apply Hi; exact X|reflexivity]. Qed.

Ltac lifted_reg H lem := (eapply lift_reg; [| |exact H]); [intros; reflexivity|apply lem].

Theorem s_step_reg st op st' o r :
  (forall n ids, op = SAddColl n ids -> ids = c_coll c n) ->
  s_step st op = (st', o, r) -> reg_ok st -> reg_ok st'.
Proof.
  intros Hop H Hi.
  destruct op; cbn [s_step] in H.
  - inversion H; subst. intros k v Hin. rewrite s_registered_set_nt in Hin. apply Hi. exact Hin.
  - apply (reg_ok_from st st' 0 Hi). destruct st as [s|s|s|s]; cbn [s_registered].
    + lifted_reg H rg_l_add_node. + lifted_reg H rg_ws_add_node.
    + lifted_reg H rg_sc_add_node. + lifted_reg H rg_e_add_node.
  - apply (reg_ok_from st st' n Hi). rewrite <- (Hop n coll eq_refl). destruct st as [s|s|s|s]; cbn [s_registered].
    + lifted_reg H rg_l_add_coll. + lifted_reg H rg_ws_add_coll.
    + lifted_reg H rg_sc_add_coll. + lifted_reg H rg_e_add_coll.
  - apply (reg_ok_from st st' 0 Hi). destruct st as [s|s|s|s]; cbn [s_registered].
    + lifted_reg H rg_l_schedule. + lifted_reg H rg_ws_schedule.
    + lifted_reg H rg_sc_schedule. + lifted_reg H rg_e_schedule.
  - apply (reg_ok_from st st' 0 Hi). destruct st as [s|s|s|s]; cbn [s_registered].
    + lifted_reg H rg_l_complete. + lifted_reg H rg_ws_complete.
    + lifted_reg H rg_sc_complete. + lifted_reg H rg_e_complete.
  - destruct st as [s|s|s|s]; try (inversion H; subst; exact Hi);
      apply (reg_ok_from _ st' 0 Hi); cbn [s_registered].
    + lifted_reg H rg_l_pending. + lifted_reg H rg_ws_pending.
  - destruct st as [s|s|s|s]; try (inversion H; subst; exact Hi).
    apply (reg_ok_from _ st' 0 Hi); cbn [s_registered]. lifted_reg H rg_ws_unsched.
  - apply (reg_ok_from st st' 0 Hi). destruct st as [s|s|s|s]; cbn [s_registered].
    + lifted_reg H rg_l_remove. + lifted_reg H rg_ws_remove.
    + lifted_reg H rg_sc_remove. + lifted_reg H rg_e_remove.
  - destruct (aget n (s_nt st)); inversion H; subst; [|exact Hi].
    intros k v Hin. rewrite s_registered_set_nt in Hin. apply Hi. exact Hin.
  - apply (reg_ok_from st st' 0 Hi). destruct st as [s|s|s|s]; cbn [s_registered];
      (eapply lift_reg; [| |exact H]; [intros; reflexivity|]); apply rg_node_shutdown; intros; reflexivity.
Qed.

(* ---- the controller ---- *)
Definition RGD (d d' : dstate) (o : list out) : Prop := reg_ok (d_sched d) -> reg_ok (d_sched d').
Lemma RGD_refl : rrefl RGD. Proof. intros d H. exact H. Qed.
Lemma RGD_trans : rtrans RGD. Proof. intros a b x o1 o2 A B H. exact (B (A H)). Qed.
Hint Resolve RGD_refl RGD_trans : sdrel.

Lemma rgd_sched_op op d0 :
  (forall n ids, op = SAddColl n ids -> ids = c_coll c n) -> ShutdownOnce.from RGD d0 (d_sched_op op).
Proof.
  intros Hop d' o r H. unfold d_sched_op in H. destruct (s_step (d_sched d0) op) as [[st o1] r1] eqn:E.
  inversion H; subst. unfold RGD. cbn [d_sched d_set_sched]. eapply s_step_reg; eassumption.
Qed.
Lemma rgd_node_shutdown n d0 : ShutdownOnce.from RGD d0 (d_node_shutdown n).
Proof.
  intros d' o r H. destruct (node_shutdown_frame _ _ _ _ _ _ _ H) as [->|(v & ->)]; [intros X; exact X|].
  unfold RGD, d_set_nt. cbn [d_sched d_set_sched]. intros Hi k x Hin. rewrite s_registered_set_nt in Hin. apply Hi. exact Hin.
Qed.

Ltac rgd_rel := unfold RGD, reg_ok; cbn; rewrite ?s_registered_set_nt; solve [auto].
Create HintDb rgddb.
Hint Resolve rgd_node_shutdown : rgddb.
Hint Extern 1 (ShutdownOnce.from RGD _ (d_sched_op _)) => (apply rgd_sched_op; intros; discriminate) : rgddb.
Ltac rgd1 :=
  first
    [ apply ShutdownOnce.f_ret; rr | apply ShutdownOnce.f_raise; rr | apply f_massert; rr | apply ShutdownOnce.f_of_opt; rr
    | apply f_getv; rr
    | apply ShutdownOnce.f_put; rgd_rel
    | apply ShutdownOnce.f_emit; rgd_rel
    | apply ShutdownOnce.f_mfor; [rr | rr | intros ? ?]
    | match goal with
      | |- ShutdownOnce.from _ _ (mbind get _) => apply ShutdownOnce.f_get
      | |- ShutdownOnce.from _ _ (mbind (ret _) _) => apply f_ret_bind
      | |- ShutdownOnce.from _ _ (mbind (of_opt _ _) _) => apply f_of_opt_bind; [rr | intros ? ?]
      | |- ShutdownOnce.from _ _ (mbind (massert _) _) => apply f_massert_bind; [rr | intros ?]
      | |- ShutdownOnce.from _ _ (mbind _ _) => apply ShutdownOnce.f_bind; [rr | | intros ? ?]
      end
    | progress cbv zeta
    | match goal with
      | |- ShutdownOnce.from _ _ (match ?x with _ => _ end) => destruct x eqn:?
      | |- ShutdownOnce.from _ _ (let '(_, _) := ?x in _) => destruct x eqn:?
      end
    | solve [eauto with rgddb] ].
Ltac rgd := repeat rgd1.

Lemma rgd_triggershutdown d0 : ShutdownOnce.from RGD d0 d_triggershutdown.
Proof. unfold d_triggershutdown. rgd. Qed.
Hint Resolve rgd_triggershutdown : rgddb.
Lemma rgd_active_remove n d0 : ShutdownOnce.from RGD d0 (d_active_remove n).
Proof. unfold d_active_remove. rgd. Qed.
Hint Resolve rgd_active_remove : rgddb.
Lemma rgd_handlefailures f d0 : ShutdownOnce.from RGD d0 (d_handlefailures f).
Proof. unfold d_handlefailures. rgd. Qed.
Hint Resolve rgd_handlefailures : rgddb.
Lemma rgd_handle_crashitem item n d0 : ShutdownOnce.from RGD d0 (d_handle_crashitem item n).
Proof. unfold d_handle_crashitem, hook. rgd. Qed.
Hint Resolve rgd_handle_crashitem : rgddb.
Lemma rgd_clone n d0 : ShutdownOnce.from RGD d0 (d_clone_node n).
Proof. unfold d_clone_node, hook. rgd. Qed.
Hint Resolve rgd_clone : rgddb.
Lemma rgd_try_block n d0 : ShutdownOnce.from RGD d0 (try_block n).
Proof.
  intros d' o r H. unfold try_block in H.
  destruct (d_sched_op (SRemove n) d0) as [[d1 o1] r1] eqn:E1.
  assert (R1 : RGD d0 d1 o1) by (eapply (rgd_sched_op (SRemove n)); [intros; discriminate|exact E1]).
  destruct r1 as [[item|]|e].
  - destruct (d_handle_crashitem item n d1) as [[d2 o2] r2] eqn:E2. inversion H; subst.
    eapply RGD_trans; [exact R1|exact (rgd_handle_crashitem _ _ _ _ _ _ E2)].
  - inversion H; subst. exact R1.
  - destruct e; inversion H; subst; exact R1.
Qed.
Hint Resolve rgd_try_block : rgddb.
Lemma rgd_errordown n d0 : ShutdownOnce.from RGD d0 (d_worker_errordown n).
Proof. rewrite errordown_unfold. unfold hook. rgd. Qed.
Hint Resolve rgd_errordown : rgddb.

Definition ev_ok (ev : cevent) : Prop := forall n ids, ev = QCollFinish n ids -> ids = c_coll c n.

Lemma rgd_handle ev d0 : ev_ok ev -> ShutdownOnce.from RGD d0 (d_handle ev).
Proof.
  intros Hev.
  destruct ev as [n|n ids|n key fl|n i|n i|n i k oc|n i ms|n ixs| |n|n sk|n]; cbn [d_handle]; unfold hook; try (rgd; fail).
  - (* collectionfinish: the one place where a collection is registered *)
    assert (A : forall d, ShutdownOnce.from RGD d (d_sched_op (SAddColl n ids))).
    { intros d. apply rgd_sched_op. intros n' ids' E. inversion E; subst. apply Hev. reflexivity. }
    rgd.
  - unfold d_worker_workerfinished, hook. destruct sk; rgd.
Qed.
Lemma rgd_loop_once ev d0 : ev_ok ev -> ShutdownOnce.from RGD d0 (d_loop_once ev).
Proof. intros Hev. unfold d_loop_once. pose proof (fun d => rgd_handle ev d Hev). rgd. Qed.
Lemma rgd_no_active d0 : ShutdownOnce.from RGD d0 d_no_active.
Proof. unfold d_no_active. rgd. Qed.
Lemma rgd_process_from_remote n m d0 : ShutdownOnce.from RGD d0 (process_from_remote n m).
Proof.
  unfold process_from_remote. apply ShutdownOnce.f_get. apply f_of_opt_bind; [rr|]. intros f Hf. cbv zeta.
  destruct m as [e|ids|sk|i ms|[|]| | |]; try destruct e; rgd.
Qed.

End Registered.


(* ---- the system: collectionfinish messages carry the collection of the worker that sent them ---- *)
Section RegisteredSys.
Variable c : config.

Definition wire_ok (s : sys) : Prop :=
  forall n ids, In (UCollFinish ids) (alist_get [] n (y_up s)) -> ids = c_coll c n.
Definition CI (s : sys) : Prop :=
  Forall (ev_ok c) (y_evq s) /\ wire_ok s /\ reg_ok c (d_sched (y_d s)).

Lemma up_collfinish n evs ids : In (UCollFinish ids) (map (up_of_wevent c n) evs) -> ids = c_coll c n.
Proof.
  induction evs as [|e evs IH]; [intros []|]. cbn [map]. intros [E|Hin]; [|exact (IH Hin)].
  destruct e as [| |k0 f0| |i0|i0 k0 [| | |]|i0|i0|ixs0|b0]; cbn in E; try discriminate. inversion E. reflexivity.
Qed.

Lemma wire_ok_ext s s' : y_up s' = y_up s -> wire_ok s -> wire_ok s'.
Proof. intros E H n ids. rewrite E. apply H. Qed.

Lemma wire_ok_append s s' n0 msgs :
  (forall n, alist_get [] n (y_up s') = if Nat.eqb n n0 then alist_get [] n0 (y_up s) ++ msgs else alist_get [] n (y_up s)) ->
  (forall ids, In (UCollFinish ids) msgs -> ids = c_coll c n0) ->
  wire_ok s -> wire_ok s'.
Proof.
  intros E Hm H n ids Hin. rewrite E in Hin. destruct (Nat.eqb n n0) eqn:En; [|apply H; exact Hin].
  apply Nat.eqb_eq in En. subst n. apply in_app_or in Hin. destruct Hin as [Hin|Hin]; [apply H; exact Hin|apply Hm; exact Hin].
Qed.

Lemma alist_get_aset {V} (dflt : V) k n v (m : amap V) :
  alist_get dflt k (aset n v m) = if Nat.eqb k n then v else alist_get dflt k m.
Proof.
  destruct (Nat.eqb k n) eqn:E.
  - apply Nat.eqb_eq in E. subst k. apply alist_get_aset_eq.
  - apply Nat.eqb_neq in E. apply alist_get_aset_neq. exact E.
Qed.

Lemma wire_ok_apply_outs outs : forall s, wire_ok s -> wire_ok (apply_outs s outs).
Proof.
  induction outs as [|x outs IH]; intros s H; [exact H|].
  destruct x as [h|n cmd| |]; cbn [apply_outs]; try (apply IH; exact H).
  - destruct h; try (apply IH; exact H). apply IH. intros n ids. cbn [y_up]. rewrite alist_get_aset.
    destruct (Nat.eqb n newid); [intros []|apply H].
  - destruct (mem_nat n (y_dead s)); apply IH; [exact H|]. eapply wire_ok_ext; [|exact H]. reflexivity.
Qed.

Lemma pfr_collfinish n m d d' outs evs :
  process_from_remote n m d = (d', outs, Ok evs) ->
  forall kk idd, In (QCollFinish kk idd) evs -> kk = n /\ m = UCollFinish idd.
Proof.
  unfold process_from_remote, mbind, get, of_opt, ret, raise, put.
  destruct (aget n (d_nt d)) as [f|]; [|discriminate].
  destruct m as [e|ids0|sk|i ms|dec| | |]; destruct (n_down f); cbn;
    try (intros H; inversion H; subst; intros kk idd Hin; cbn in Hin; intuition (try discriminate; try congruence); fail).
  - destruct e; cbn; intros H; inversion H; subst; intros kk idd Hin; cbn in Hin; intuition (try discriminate; try congruence).
  - destruct (d_node_shutdown n d) as [[d1 o1] [[]|e]]; [|discriminate].
    destruct (aget n (d_nt d1)); cbn; intros H; inversion H; subst; intros kk idd Hin; cbn in Hin;
      intuition (try discriminate; try congruence).
Qed.

Lemma reg_ok_crash cfg s n : reg_ok c (d_sched (y_d s)) -> reg_ok c (d_sched (y_d (crash_worker cfg s n))).
Proof.
  intros H. unfold crash_worker. cbn [y_d]. destruct (c_strict cfg); [|exact H].
  destruct (aget n (d_nt (y_d s))); [|exact H]. unfold d_set_nt. cbn [d_sched d_set_sched].
  intros k v Hin. rewrite s_registered_set_nt in Hin. apply H. exact Hin.
Qed.

Lemma CI_crash s n : CI s -> CI (crash_worker c s n).
Proof.
  intros (A & B & C). split; [exact A|]. split; [|apply reg_ok_crash; exact C].
  eapply (wire_ok_append s _ n [UEnd]); [| |exact B].
  - intros k. unfold crash_worker. cbn [y_up]. apply alist_get_aset.
  - intros ids [E|[]]. discriminate.
Qed.

Lemma CI_push s n w' evs : CI s -> CI (push_up (set_w s n w') n (map (up_of_wevent c n) evs)).
Proof.
  intros (A & B & C). split; [exact A|]. split; [|exact C].
  eapply (wire_ok_append s _ n); [| |exact B].
  - intros k. unfold push_up, set_w. cbn [y_up]. apply alist_get_aset.
  - intros ids. apply up_collfinish.
Qed.

Lemma CI_close s n : CI s -> CI (close_if_dead s n).
Proof.
  intros (A & B & C). destruct (close_if_dead_frame s n) as (E1 & E2 & _).
  split; [rewrite E1; exact A|]. split; [eapply wire_ok_ext; [exact E2|exact B]|].
  unfold close_if_dead. destruct (mem_nat n (y_dead s)); [|exact C].
  destruct (aget n (d_nt (y_d s))) as [f|]; [|exact C]. destruct (n_down f); [|exact C].
  cbn [set_d y_d]. unfold d_set_nt. cbn [d_sched d_set_sched].
  intros k v Hin. rewrite s_registered_set_nt in Hin. apply C. exact Hin.
Qed.

Lemma CI_ctl0 s0 d' outs rr :
  Forall (ev_ok c) (y_evq s0) -> wire_ok s0 -> reg_ok c (d_sched d') ->
  CI (set_result (apply_outs (set_d s0 d') outs) rr).
Proof.
  intros A B C. destruct (apply_outs_frame outs (set_d s0 d')) as (F1 & F2 & _).
  split; [cbn [set_result y_evq]; rewrite F1; exact A|]. split.
  - intros n ids. cbn [set_result y_up]. apply wire_ok_apply_outs. exact B.
  - cbn [set_result y_d]. rewrite F2. exact C.
Qed.
Lemma CI_ctl s q d' outs rr :
  Forall (ev_ok c) q -> wire_ok s -> reg_ok c (d_sched d') ->
  CI (set_result (apply_outs (set_d (set_evq s q) d') outs) rr).
Proof. intros A B C. apply CI_ctl0; [exact A|eapply wire_ok_ext; [|exact B]; reflexivity|exact C]. Qed.

Lemma set_result_None_id s : y_result s = None -> set_result s None = s.
Proof. destruct s; cbn; intros ->; reflexivity. Qed.

Theorem CI_step s l s' o w : CI s -> sys_step c s l = Some (s', o, w) -> CI s'.
Proof.
  intros X H. pose proof X as (A & B & C). unfold sys_step in H. destruct (y_result s) eqn:Eres; [discriminate|].
  destruct l as [n|n|n|n| |n].
  - destruct (mem_nat n (y_dead s)); [discriminate|].
    destruct (aget n (y_down s)) as [[|cmd rest]|]; try discriminate.
    destruct (aget n (y_w s)); [|discriminate]. inversion H; subst. split; [exact A|]. split; [exact B|exact C].
  - destruct (mem_nat n (y_dead s)); [discriminate|].
    destruct (aget n (y_w s)) as [w0|]; [|discriminate].
    destruct (negb (wcb w0)); [discriminate|].
    destruct (recv_step (c_oracle c n) w0) as [w1 evs]. inversion H; subst. apply CI_push. exact X.
  - destruct (mem_nat n (y_dead s)); [discriminate|].
    destruct (aget n (y_w s)) as [w0|]; [|discriminate].
    destruct (dies_now c n w0); [inversion H; subst; apply CI_crash; exact X|].
    destruct (main_step (c_oracle c n) w0) as [[w1 evs]|]; [|discriminate]. inversion H; subst. apply CI_push. exact X.
  - destruct (aget n (y_up s)) as [[|m rest]|] eqn:Eup; try discriminate. cbn [y_d] in H.
    destruct (process_from_remote n m (y_d s)) as [[d' outs] r] eqn:E.
    pose proof (rgd_process_from_remote c n m (y_d s) _ _ _ E C) as C'.
    assert (Em : alist_get [] n (y_up s) = m :: rest) by (unfold alist_get; rewrite Eup; reflexivity).
    set (s1 := {| y_d := y_d s; y_evq := y_evq s; y_down := y_down s; y_up := aset n rest (y_up s);
                  y_w := y_w s; y_dead := y_dead s; y_result := None |}) in *.
    assert (B1 : wire_ok s1).
    { intros k ids. unfold s1. cbn [y_up]. rewrite alist_get_aset. destruct (Nat.eqb k n) eqn:Ek; [|apply B].
      apply Nat.eqb_eq in Ek. subst k. intros Hin. apply B. rewrite Em. right. exact Hin. }
    destruct (apply_outs_frame outs (set_d s1 d')) as (F1 & F2 & _).
    destruct r as [evs|e]; inversion H; subst; clear H.
    + apply CI_close. split; [|split].
      * cbn [set_evq y_evq]. rewrite F1. cbn [set_d y_evq s1]. apply Forall_app. split; [exact A|].
        apply Forall_forall. intros ev Hev k ids ->. destruct (pfr_collfinish _ _ _ _ _ _ E _ _ Hev) as (-> & ->).
        apply B. rewrite Em. left. reflexivity.
      * intros k ids. cbn [set_evq y_up]. apply wire_ok_apply_outs. eapply wire_ok_ext; [|exact B1]. reflexivity.
      * cbn [set_evq y_d]. rewrite F2. exact C'.
    + split; [|split].
      * cbn [set_result y_evq]. rewrite F1. exact A.
      * intros k ids. cbn [set_result y_up]. apply wire_ok_apply_outs. eapply wire_ok_ext; [|exact B1]. reflexivity.
      * cbn [set_result y_d]. rewrite F2. exact C'.
  - destruct (d_active (y_d s)) as [|a act] eqn:Ea.
    + destruct (d_no_active (y_d s)) as [[d' outs] r] eqn:E. inversion H; subst.
      apply CI_ctl0; [exact A|exact B|]. exact (rgd_no_active c _ _ _ _ E C).
    + destruct (y_evq s) as [|ev q] eqn:Eq; [discriminate|]. inversion A as [|ev' q' Hev Aq]; subst.
      destruct (d_loop_once ev (y_d s)) as [[d' outs] r] eqn:E.
      pose proof (rgd_loop_once c ev (y_d s) Hev _ _ _ E C) as C'.
      destruct r as [u|e].
      * destruct (d_session_finished d'); [inversion H; subst; apply CI_ctl; assumption|].
        destruct (d_active d') as [|a' act'] eqn:Ea'.
        { destruct (d_no_active d') as [[d2 outs2] r2] eqn:E2. inversion H; subst.
          pose proof (rgd_no_active c _ _ _ _ E2 C') as C2.
          destruct (apply_outs_frame outs (set_d (set_evq s q) d')) as (F1 & F2 & _).
          destruct (apply_outs_frame outs2 (set_d (apply_outs (set_d (set_evq s q) d') outs) d2)) as (G1 & G2 & _).
          split; [|split].
          - cbn [set_result y_evq]. rewrite G1. cbn [set_d y_evq]. rewrite F1. exact Aq.
          - intros k ids. cbn [set_result y_up]. apply wire_ok_apply_outs. cbn [set_d y_up]. apply wire_ok_apply_outs. exact B.
          - cbn [set_result y_d]. rewrite G2. exact C2. }
        inversion H; subst.
        match goal with |- CI ?x => rewrite <- (set_result_None_id x) by (rewrite y_result_apply_outs; exact Eres) end.
        apply CI_ctl; assumption.
      * inversion H; subst. apply CI_ctl; assumption.
  - destruct (mem_nat n (y_dead s)); [discriminate|].
    destruct (aget n (y_w s)) as [w0|]; [|discriminate].
    destruct (wph w0); try discriminate; inversion H; subst; apply CI_crash; exact X.
Qed.

Lemma CI_init : CI (sys_init c).
Proof.
  split; [constructor|]. split.
  - intros n ids. cbn [sys_init y_up]. rewrite alist_get_map_nil. intros [].
  - cbn [sys_init y_d d_sched]. intros k v Hin. rewrite s_registered_set_nt in Hin.
    destruct (c_mode c); cbn in Hin; destruct Hin.
Qed.

Theorem CI_exec ls : forall s s' o w, CI s -> sys_exec c s ls = (s', o, w) -> CI s'.
Proof.
  induction ls as [|l ls IH]; intros s s' o w X H; cbn [sys_exec] in H; [inversion H; subst; exact X|].
  destruct (sys_step c s l) as [[[s1 o1] w1]|] eqn:E; [|eapply IH; eassumption].
  destruct (sys_exec c s1 ls) as [[s2 o2] w2] eqn:E2. inversion H; subst.
  eapply IH; [eapply CI_step; eassumption|exact E2].
Qed.

(* ---- C09, system form: in every reachable state, once the reference collection is fixed, every
        worker registered with the scheduler COLLECTED exactly the reference (same ids, same
        order); its registered collection is the one it reported ---- *)
Theorem sys_registered_collected ls s outs wevs ref n coll :
  sys_exec c (sys_init c) ls = (s, outs, wevs) ->
  s_ref (d_sched (y_d s)) = Some ref -> aget n (s_registered (d_sched (y_d s))) = Some coll ->
  coll = ref /\ c_coll c n = ref.
Proof.
  intros H Hr Hg. pose proof (sys_registered_is_reference _ _ _ _ _ _ _ _ H Hr Hg) as E1.
  destruct (CI_exec _ _ _ _ _ CI_init H) as (_ & _ & R). split; [exact E1|].
  rewrite <- (R n coll (CollectionProofs.aget_In _ _ _ Hg)). exact E1.
Qed.

(* also before the reference is fixed, and in each mode: what is registered for n is what n collected *)
Theorem sys_registered_reported ls s outs wevs n coll :
  sys_exec c (sys_init c) ls = (s, outs, wevs) ->
  aget n (s_registered (d_sched (y_d s))) = Some coll -> coll = c_coll c n.
Proof.
  intros H Hg. destruct (CI_exec _ _ _ _ _ CI_init H) as (_ & _ & R).
  exact (R n coll (CollectionProofs.aget_In _ _ _ Hg)).
Qed.
End RegisteredSys.

Print Assumptions s_step_agree.
Print Assumptions sys_collections_agree.
Print Assumptions sys_registered_is_reference.
Print Assumptions s_step_reg.
Print Assumptions CI_step.
Print Assumptions sys_registered_collected.
Print Assumptions sys_registered_reported.

(* ====================================================================================== *)
(* Non-vacuity                                                                             *)
(* ====================================================================================== *)
(* the budget-1 session of SystemCorollaries.v (load, worker 1 and its replacement die): at the
   end the reference is the six collected ids and the three workers that reported a collection
   are registered with it; the theorem, instantiated for worker 2 (the replacement) *)
Example xc_collections :
  let c := xc_cfg MLoad (Some 1%Z) 0%Z 0 xc_crash in
  let '(s, o, w) := sys_exec c (sys_init c) (rounds 80 xc_round) in
  s_ref (d_sched (y_d s)) = Some (c_coll c 0) /\
  akeys (s_registered (d_sched (y_d s))) = [0; 1; 2] /\
  (forall coll, aget 2 (s_registered (d_sched (y_d s))) = Some coll -> coll = c_coll c 0 /\ c_coll c 2 = c_coll c 0).
Proof.
  cbv zeta.
  destruct (sys_exec (xc_cfg MLoad (Some 1%Z) 0%Z 0 xc_crash) (sys_init (xc_cfg MLoad (Some 1%Z) 0%Z 0 xc_crash))
              (rounds 80 xc_round)) as [[s o] w] eqn:E.
  assert (F : s_ref (d_sched (y_d s)) = Some (c_coll (xc_cfg MLoad (Some 1%Z) 0%Z 0 xc_crash) 0) /\
              akeys (s_registered (d_sched (y_d s))) = [0; 1; 2]).
  { vm_compute in E. inversion E; subst. vm_compute. split; reflexivity. }
  destruct F as (F1 & F2). split; [exact F1|]. split; [exact F2|].
  intros coll Hg. exact (sys_registered_collected _ _ _ _ _ _ _ _ E F1 Hg).
Qed.
Print Assumptions xc_collections.
