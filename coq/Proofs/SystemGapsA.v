(* SystemGapsA.v — C16, "nothing after the shutdown", scheduler and controller level, all four
   schedulers.

   ShutdownOnce.v proves the guard "a worker whose _shutdown_sent flag is set at the START of an
   operation is sent no work by it" (g_rel / GD).  That says nothing about the order of the
   commands INSIDE the output of one operation (shutdown first, work afterwards?).  Here the guard is
   re-proved in its ordered form: for every worker, the commands an operation (one iteration of the
   controller loop, a receiver-thread step) puts on its channel are a legal continuation of its
   command stream:  [sd_ok (flag at the start) (commands to the worker)]  — nothing follows a
   shutdown command, and nothing at all is sent when the flag was already set.

   Same technique as ShutdownOnce.v (relations closed under the monad's constructors, one lemma per
   method); the relations:
     og_rel / oz_rel   node tables (ordered versions of g_rel / z_rel)
     OGK / OGD         controller states
   Main results:
     s_step_og_rel            every scheduler operation, schedule() under ShutdownOnce.guard_hyp
     ogd_loop_once_noschedule every controller iteration whose event is not a collectionfinish
     ogd_loop_once_late       collectionfinish while shutting down
     ogd_collfinish_guarded   collectionfinish, not shutting down, when guard_hyp holds after the
                              collection has been added
     ogk_process_from_remote, ogk_no_active   receiver thread, the no-active-node exit *)
From XV Require Import Base Worker Ctl SchedLoad SchedSteal SchedScope SchedEach Sched DSession NoHook
  DSessionProofs ShutdownOnce SystemCorollaries SystemCorollariesLoad.
Open Scope nat_scope.

(* ------------------------------------------------------------------------------------------ *)
(* the relations on node tables                                                                *)
(* ------------------------------------------------------------------------------------------ *)
Definition og_rel (nt nt' : ntable) (o : list out) : Prop :=
  nt_rel nt nt' o /\ forall n, sd_ok (flag nt n) (cmds_to n o).
(* frozen: table unchanged, no shutdown command, nothing at all for flagged nodes *)
Definition oz_rel (nt nt' : ntable) (o : list out) : Prop :=
  nt' = nt /\ (forall n, sd_count n o = 0) /\ (forall n, flag nt n = true -> cmds_to n o = []).

Lemma cmds_to_nil n : cmds_to n [] = []. Proof. reflexivity. Qed.

Lemma no_sd_ok cs : ~ In CShutdown cs -> sd_ok false cs.
Proof.
  induction cs as [|x r IH]; intros H; cbn [sd_ok]; [exact I|]. split; [reflexivity|].
  destruct x; cbn [is_shutdown]; try (apply IH; intros K; apply H; right; exact K).
  exfalso. apply H. left. reflexivity.
Qed.

Lemma sd_count_zero_notin n o : sd_count n o = 0 -> ~ In CShutdown (cmds_to n o).
Proof. intros Z Hin. apply sd_count_in in Hin. lia. Qed.

Lemma og_rel_refl nt : og_rel nt nt [].
Proof. split; [apply nt_rel_refl|intros n; exact I]. Qed.

Lemma og_rel_trans a b c o1 o2 : og_rel a b o1 -> og_rel b c o2 -> og_rel a c (o1 ++ o2).
Proof.
  intros (A1 & A2) (B1 & B2). split; [eapply nt_rel_trans; eauto|].
  intros n. rewrite Coupling.cmds_to_app. apply sd_ok_app; [apply A2|].
  specialize (B2 n). destruct A1 as (S1 & _). destruct (S1 n) as (F1 & F2 & F3).
  destruct (flag a n) eqn:Fa.
  - cbn [orb]. destruct (F1 eq_refl) as (Fb & _). rewrite Fb in B2. exact B2.
  - cbn [orb]. destruct (has_sd (cmds_to n o1)) eqn:Hs.
    + apply has_sd_in in Hs. apply sd_count_in in Hs.
      assert (E : sd_count n o1 = 1) by lia. destruct (F3 E) as (_ & Fb). rewrite Fb in B2. exact B2.
    + destruct (flag b n); [|exact B2]. apply sd_ok_true in B2. rewrite B2. exact I.
Qed.

Lemma oz_rel_refl nt : oz_rel nt nt [].
Proof. split; [reflexivity|split; intros; reflexivity]. Qed.
Lemma oz_rel_trans a b c o1 o2 : oz_rel a b o1 -> oz_rel b c o2 -> oz_rel a c (o1 ++ o2).
Proof.
  intros (-> & A2 & A3) (-> & B2 & B3). split; [reflexivity|]. split.
  - intros n. rewrite sd_count_app, A2, B2. reflexivity.
  - intros n F. rewrite Coupling.cmds_to_app, (A3 n F), (B3 n F). reflexivity.
Qed.
Lemma oz_og a b o : oz_rel a b o -> og_rel a b o.
Proof.
  intros (-> & Z1 & Z2). split.
  - split; [|intros m H; exact H]. intros n. rewrite Z1. repeat split; auto; try lia; discriminate.
  - intros n. destruct (flag a n) eqn:F; [rewrite (Z2 n F); exact I|].
    apply no_sd_ok. apply sd_count_zero_notin. apply Z1.
Qed.
Lemma oz_rel_emit nt x : (forall n, is_sd n x = false) -> (forall n, Coupling.cmd_to n x = []) -> oz_rel nt nt [x].
Proof.
  intros H1 H2. split; [reflexivity|]. split; intros n.
  - rewrite sd_count_one, H1. reflexivity.
  - intros _. unfold cmds_to, Coupling.cmds_to. cbn [flat_map]. rewrite H2. reflexivity.
Qed.
Lemma oz_rel_send nt n c : c <> CShutdown -> flag nt n = false -> oz_rel nt nt [OSend n c].
Proof.
  intros Hc Hf. split; [reflexivity|]. split; intros m.
  - rewrite sd_count_one. destruct c; try reflexivity. contradiction.
  - intros Fm. apply Coupling.cmds_to_one_neq. intros ->. congruence.
Qed.
Lemma og_rel_quiet nt o : (forall n, sd_count n o = 0 /\ cmds_to n o = []) -> og_rel nt nt o.
Proof.
  intros H. split; [split; [|intros m Hm; exact Hm]|].
  - intros n. rewrite (proj1 (H n)). repeat split; auto; try lia; discriminate.
  - intros n. rewrite (proj2 (H n)). exact I.
Qed.
Lemma og_rel_nil nt nt' : nt_rel nt nt' [] -> og_rel nt nt' [].
Proof. intros H. split; [exact H|intros; exact I]. Qed.

Section OGRel.
  Context {S : Type} (nt_of : S -> ntable) (set_nt : S -> ntable -> S).
  Hypothesis nt_set : forall s v, nt_of (set_nt s v) = v.

  Definition ogR (s s' : S) (o : list out) : Prop := og_rel (nt_of s) (nt_of s') o.
  Definition ozR (s s' : S) (o : list out) : Prop := oz_rel (nt_of s) (nt_of s') o.
  Lemma ogR_refl : rrefl ogR. Proof. intros s. apply og_rel_refl. Qed.
  Lemma ogR_trans : rtrans ogR. Proof. intros a b c o1 o2. apply og_rel_trans. Qed.
  Lemma ozR_refl : rrefl ozR. Proof. intros s. apply oz_rel_refl. Qed.
  Lemma ozR_trans : rtrans ozR. Proof. intros a b c o1 o2. apply oz_rel_trans. Qed.

  Lemma oz_og_from {A} s0 (m : M S A) : from ozR s0 m -> from ogR s0 m.
  Proof. intros H s' o r E. apply oz_og. exact (H _ _ _ E). Qed.

  Lemma oz_node_send n c s0 : c <> CShutdown -> flag (nt_of s0) n = false -> from ozR s0 (node_send nt_of n c).
  Proof.
    intros Hc Hf. unfold node_send. apply f_flags_bind; [apply ozR_refl|]. intros f Ef.
    destruct (n_closed f); [apply f_ret, ozR_refl|].
    apply f_emit. apply oz_rel_send; assumption.
  Qed.

  Lemma og_node_shutdown n s0 : from ogR s0 (node_shutdown nt_of set_nt n).
  Proof.
    intros s' o r H. split; [exact (sd_node_shutdown nt_of set_nt nt_set n s0 _ _ _ H)|].
    intros m. destruct (node_shutdown_out _ _ _ _ _ _ _ H) as (_ & [->| ->]); [exact I|].
    destruct (Nat.eq_dec m n) as [->|Hm].
    - rewrite Coupling.cmds_to_one_eq. cbn [sd_ok is_shutdown]. split; [|exact I].
      assert (C : sd_count n [OSend n CShutdown] <> 0).
      { rewrite sd_count_one. cbn [is_sd]. rewrite Nat.eqb_refl. discriminate. }
      destruct (node_shutdown_sent_only_if _ _ _ _ _ _ _ _ H C) as (_ & _ & _ & c & Ec & _ & Es & _).
      unfold flag. rewrite Ec. exact Es.
    - rewrite Coupling.cmds_to_one_neq by exact Hm. exact I.
  Qed.
End OGRel.
#[export] Hint Resolve ogR_refl ogR_trans ozR_refl ozR_trans : sdrel.

Create HintDb ogdb.
Ltac og_rel_now :=
  unfold ogR, ozR;
  first [ exact (og_rel_refl _) | exact (oz_rel_refl _)
        | apply oz_og, oz_rel_emit; intros ?; reflexivity
        | apply oz_rel_emit; intros ?; reflexivity ].
Ltac og1 :=
  first
    [ apply f_ret; rr | apply f_raise; rr | apply f_massert; rr | apply f_of_opt; rr
    | apply f_getv; rr
    | apply f_put; og_rel_now
    | apply f_emit; og_rel_now
    | apply f_mfor; [rr | rr | intros ? ?]
    | apply og_node_shutdown; intros; reflexivity
    | apply oz_node_send; [discriminate | pre]
    | apply oz_og_from, oz_node_send; [discriminate | pre]
    | apply f_flags; rr
    | match goal with
      | |- from _ _ (mbind get _) => apply f_get
      | |- from _ _ (mbind (ret _) _) => apply f_ret_bind
      | |- from _ _ (mbind (of_opt _ _) _) => apply f_of_opt_bind; [rr | intros ? ?]
      | |- from _ _ (mbind (massert _) _) => apply f_massert_bind; [rr | intros ?]
      | |- from _ _ (mbind (put _) _) => apply f_put_bind; [rr | og_rel_now | ]
      | |- from _ _ (mbind (node_flags _ _) _) => apply f_flags_bind; [rr | intros ? ?]
      | |- from _ _ (mbind (node_shutting_down _ _) _) => apply f_nsd_bind; [rr | intros ? ?]
      | |- from (ozR _) _ (mbind _ _) =>
          apply f_bind_r; [rr | | let H := fresh "Z" in intros ? ? ? H; destruct H as (H & _)]
      | |- from _ _ (mbind _ _) => apply f_bind; [rr | | intros ? ?]
      end
    | progress cbv zeta
    | match goal with
      | |- from _ _ (match ?x with _ => _ end) => destruct x eqn:?
      | |- from _ _ (let '(_, _) := ?x in _) => destruct x eqn:?
      end
    | solve [eauto with ogdb] ].
Ltac ogg := repeat og1.

Notation olg := (from (ogR l_nt)).
Notation olz := (from (ozR l_nt)).
Notation owg := (from (ogR ws_nt)).
Notation owz := (from (ozR ws_nt)).
Notation ocg := (from (ogR sc_nt)).
Notation ocz := (from (ozR sc_nt)).
Notation oeg := (from (ogR e_nt)).
Notation oez := (from (ozR e_nt)).

(* ---- load ---- *)
Lemma oz_l_send_tests n num s0 : flag (l_nt s0) n = false -> olz s0 (l_send_tests n num).
Proof. intros Hf. unfold l_send_tests. ogg. Qed.
#[export] Hint Extern 1 (from (ozR l_nt) _ (l_send_tests _ _)) => apply oz_l_send_tests; pre : ogdb.
#[export] Hint Extern 1 (from (ogR l_nt) _ (l_send_tests _ _)) => apply oz_og_from, oz_l_send_tests; pre : ogdb.
Lemma og_l_check_schedule n d s0 : olg s0 (l_check_schedule n d).
Proof. unfold l_check_schedule. ogg. Qed.
#[export] Hint Resolve og_l_check_schedule : ogdb.
Lemma og_l_add_node n s0 : olg s0 (l_add_node n).
Proof. unfold l_add_node. ogg. Qed.
#[export] Hint Resolve og_l_add_node : ogdb.
Lemma og_l_add_coll n c s0 : olg s0 (l_add_node_collection n c).
Proof. unfold l_add_node_collection. ogg. Qed.
#[export] Hint Resolve og_l_add_coll : ogdb.
Lemma og_l_complete n i d s0 : olg s0 (l_mark_test_complete n i d).
Proof. unfold l_mark_test_complete. ogg. Qed.
#[export] Hint Resolve og_l_complete : ogdb.
Lemma og_l_pending it s0 : olg s0 (l_mark_test_pending it).
Proof. unfold l_mark_test_pending. ogg. Qed.
#[export] Hint Resolve og_l_pending : ogdb.
Lemma og_l_remove n s0 : olg s0 (l_remove_node n).
Proof. unfold l_remove_node. ogg. Qed.
#[export] Hint Resolve og_l_remove : ogdb.

(* computations that leave the state alone and send nothing (the collection comparison) *)
Definition ostateless {S A} (m : M S A) (s0 : S) : Prop :=
  forall s' o r, m s0 = (s', o, r) -> s' = s0 /\ forall n, sd_count n o = 0 /\ cmds_to n o = [].

Lemma f_bind_ostateless {S A B} (nt_of : S -> ntable) s0 (m : M S A) (k : A -> M S B) :
  ostateless m s0 -> (forall a, from (ogR nt_of) s0 (k a)) -> from (ogR nt_of) s0 (mbind m k).
Proof.
  intros Hm Hk s' o r H. apply mbind_inv in H.
  destruct H as [(s1 & o1 & a & o2 & H1 & H2 & ->)|(e & H1 & ->)].
  - destruct (Hm _ _ _ H1) as (-> & Q). eapply ogR_trans; [apply og_rel_quiet; exact Q|exact (Hk a _ _ _ H2)].
  - destruct (Hm _ _ _ H1) as (-> & Q). apply og_rel_quiet. exact Q.
Qed.

Lemma ocolldiff_mfor {S} col first (others : list (nat * list string)) (s s' : S) o r :
  mfor others (fun p => if coll_eqb col (snd p) then ret tt else emit (OCollDiff first (fst p))) s = (s', o, r) ->
  s' = s /\ forall n, sd_count n o = 0 /\ cmds_to n o = [].
Proof.
  revert o r. induction others as [|p others IH]; cbn [mfor]; intros o r H.
  - inversion H; subst. split; [reflexivity|intros; split; reflexivity].
  - apply mbind_inv in H. destruct H as [(s1 & o1 & a & o2 & H1 & H2 & ->)|(e & H1 & ->)].
    + assert (E : s1 = s /\ forall n, sd_count n o1 = 0 /\ cmds_to n o1 = []).
      { destruct (coll_eqb col (snd p)); unfold ret, emit in H1; inversion H1; subst;
          (split; [reflexivity|intros; split; reflexivity]). }
      destruct E as (-> & Q1). destruct (IH _ _ H2) as (-> & Q2). split; [reflexivity|].
      intros n. rewrite sd_count_app, Coupling.cmds_to_app. destruct (Q1 n) as (A1 & A2), (Q2 n) as (B1 & B2).
      rewrite A1, A2, B1, B2. split; reflexivity.
    + destruct (coll_eqb col (snd p)); unfold ret, emit in H1; inversion H1.
Qed.

Lemma ostateless_l_same s0 : ostateless l_same_collection s0.
Proof.
  intros s' o r H. unfold l_same_collection in H. unfold mbind at 1 in H. unfold get in H.
  destruct (l_n2c s0) as [|[first col] others].
  - unfold raise in H. inversion H; subst. split; [reflexivity|intros; split; reflexivity].
  - destruct ((mfor others (fun p => if coll_eqb col (snd p) then ret tt else emit (OCollDiff first (fst p)));;;
               ret (forallb (fun p => coll_eqb col (snd p)) others)) s0) as [[sx ox] rx] eqn:E.
    inversion H; subst. clear H. apply mbind_inv in E.
    destruct E as [(s1 & o1 & a & o2 & H1 & H2 & ->)|(e & H1 & ->)].
    + unfold ret in H2. inversion H2; subst. rewrite app_nil_r. exact (ocolldiff_mfor _ _ _ _ _ _ _ H1).
    + exact (ocolldiff_mfor _ _ _ _ _ _ _ H1).
Qed.

Lemma oz_mfor_pre {S A} (nt_of : S -> ntable) (l : list A) (f : A -> M S unit) (P : ntable -> A -> Prop) s0 :
  (forall a s, In a l -> P (nt_of s) a -> from (ozR nt_of) s (f a)) ->
  (forall a, In a l -> P (nt_of s0) a) -> from (ozR nt_of) s0 (mfor l f).
Proof.
  revert s0. induction l as [|x l IH]; intros s0 Hf Hp; cbn [mfor]; [apply f_ret; rr|].
  apply f_bind_r; [rr|apply Hf; [left; reflexivity|apply Hp; left; reflexivity]|].
  intros _ s1 o1 (Z & _). apply IH.
  - intros a s Ha. apply Hf. right. exact Ha.
  - intros a Ha. unfold ntable in *. rewrite Z. apply Hp. right. exact Ha.
Qed.

Lemma oz_l_round_robin fuel all cur s0 :
  (forall n, In n all -> flag (l_nt s0) n = false) -> (forall n, In n cur -> flag (l_nt s0) n = false) ->
  olz s0 (l_round_robin fuel all cur).
Proof.
  revert cur s0. induction fuel as [|f IH]; intros cur s0 Ha Hc; cbn [l_round_robin]; [ogg|].
  destruct cur as [|n r]; [destruct all as [|n r]; [ogg|]|].
  - apply f_bind_r; [rr|apply oz_l_send_tests; apply Ha; left; reflexivity|].
    intros _ s1 o1 (Z & _). apply IH; intros m Hm; rewrite Z; apply Ha; [exact Hm|right; exact Hm].
  - apply f_bind_r; [rr|apply oz_l_send_tests; apply Hc; left; reflexivity|].
    intros _ s1 o1 (Z & _). apply IH; intros m Hm; rewrite Z; [apply Ha; exact Hm|apply Hc; right; exact Hm].
Qed.

Lemma og_l_schedule s0 :
  (l_coll s0 = None -> forall n, In n (l_nodes s0) -> flag (l_nt s0) n = false) -> olg s0 l_schedule.
Proof.
  intros Hyp. unfold l_schedule. apply f_get. apply f_massert_bind; [rr|intros Hc].
  destruct (l_coll s0) eqn:Ec; [ogg|]. specialize (Hyp eq_refl).
  apply f_bind_ostateless; [apply ostateless_l_same|intros same].
  destruct (negb same); [ogg|]. apply f_get. apply f_of_opt_bind; [rr|intros coll Hcoll].
  apply f_put_bind; [rr|og_rel_now|]. destruct coll as [|c0 cr]; [ogg|].
  apply f_get. cbv zeta. apply f_put_bind; [rr|og_rel_now|]. apply f_get. cbv zeta.
  apply f_bind; [rr| |intros; ogg].
  match goal with |- from _ _ (if ?x then _ else _) => destruct x end.
  - apply oz_og_from, oz_l_round_robin; exact Hyp.
  - match goal with |- from _ _ (if ?x then _ else _) => destruct x end; [ogg|]. cbv zeta.
    apply oz_og_from. apply (oz_mfor_pre l_nt _ _ (fun nt n => flag nt n = false)).
    + intros n s Hn Hf. apply oz_l_send_tests. exact Hf.
    + exact Hyp.
Qed.

(* ---- worksteal ---- *)
Lemma f_bind_ozg {S A B} (nt_of : S -> ntable) s0 (m : M S A) (k : A -> M S B) :
  from (ozR nt_of) s0 m -> (forall a s1, nt_of s1 = nt_of s0 -> from (ogR nt_of) s1 (k a)) ->
  from (ogR nt_of) s0 (mbind m k).
Proof.
  intros Hm Hk s' o r H. apply mbind_inv in H.
  destruct H as [(s1 & o1 & a & o2 & H1 & H2 & ->)|(e & H1 & ->)].
  - pose proof (Hm _ _ _ H1) as Z. eapply ogR_trans; [apply oz_og; exact Z|].
    exact (Hk a s1 (proj1 Z) _ _ _ H2).
  - apply oz_og. exact (Hm _ _ _ H1).
Qed.

Lemma oz_ws_send_tests n num s0 : flag (ws_nt s0) n = false -> owz s0 (ws_send_tests n num).
Proof. intros Hf. unfold ws_send_tests. ogg. Qed.
Lemma oz_ws_distribute idle s0 :
  (forall n, In n idle -> flag (ws_nt s0) n = false) -> owz s0 (ws_distribute idle).
Proof.
  revert s0. induction idle as [|n r IH]; intros s0 Hp; cbn [ws_distribute]; [ogg|].
  apply f_get. cbv zeta. apply f_bind_r; [rr|apply oz_ws_send_tests; apply Hp; left; reflexivity|].
  intros _ s1 o1 (Z & _). apply IH. intros m Hm. rewrite Z. apply Hp. right. exact Hm.
Qed.

Lemma og_ws_check s0 : owg s0 ws_check_schedule.
Proof.
  unfold ws_check_schedule. apply f_get. destruct (ws_coll s0); [|ogg]. cbv zeta.
  assert (Hidle : forall n, In n (ws_idle s0 (ws_up s0)) -> flag (ws_nt s0) n = false).
  { intros n Hn. unfold ws_idle in Hn. apply filter_In in Hn. apply ws_up_unflagged. apply Hn. }
  destruct (ws_idle s0 (ws_up s0)) as [|i0 idle] eqn:Ei; [ogg|].
  apply f_bind_ozg.
  { destruct (ws_pending s0); [ogg|]. apply oz_ws_distribute. exact Hidle. }
  intros _ s1 Z.
  assert (Hup : forall v, first_max s1 (ws_up s0) None = Some v -> flag (ws_nt s1) v = false).
  { intros v Hv. rewrite Z. apply ws_up_unflagged. destruct (first_max_in _ _ _ _ Hv) as [K|K]; [exact K|discriminate]. }
  ogg.
Qed.
#[export] Hint Resolve og_ws_check : ogdb.
Lemma og_ws_add_node n s0 : owg s0 (ws_add_node n).
Proof. unfold ws_add_node. ogg. Qed.
#[export] Hint Resolve og_ws_add_node : ogdb.
Lemma og_ws_add_coll n c s0 : owg s0 (ws_add_node_collection n c).
Proof. unfold ws_add_node_collection. ogg. Qed.
#[export] Hint Resolve og_ws_add_coll : ogdb.
Lemma og_ws_complete n i s0 : owg s0 (ws_mark_test_complete n i).
Proof. unfold ws_mark_test_complete. ogg. Qed.
#[export] Hint Resolve og_ws_complete : ogdb.
Lemma og_ws_pending it s0 : owg s0 (ws_mark_test_pending it).
Proof. unfold ws_mark_test_pending. ogg. Qed.
#[export] Hint Resolve og_ws_pending : ogdb.
Lemma og_ws_unsched n ixs s0 : owg s0 (ws_remove_pending_tests_from_node n ixs).
Proof. unfold ws_remove_pending_tests_from_node. ogg. Qed.
#[export] Hint Resolve og_ws_unsched : ogdb.
Lemma og_ws_remove n s0 : owg s0 (ws_remove_node n).
Proof. unfold ws_remove_node. ogg. Qed.
#[export] Hint Resolve og_ws_remove : ogdb.
Lemma og_ws_same s0 : owg s0 ws_same_collection.
Proof. unfold ws_same_collection. ogg. Qed.
#[export] Hint Resolve og_ws_same : ogdb.
Lemma og_ws_schedule s0 : owg s0 ws_schedule.
Proof. unfold ws_schedule. ogg. Qed.
#[export] Hint Resolve og_ws_schedule : ogdb.

(* ---- scope family ---- *)
#[export] Hint Extern 1 (flag _ _ = false) => congruence : ogdb.
Lemma oz_sc_assign n s0 : flag (sc_nt s0) n = false -> ocz s0 (sc_assign_work_unit n).
Proof. intros Hf. unfold sc_assign_work_unit. ogg. Qed.
#[export] Hint Extern 1 (from (ozR sc_nt) _ (sc_assign_work_unit _)) => apply oz_sc_assign; pre : ogdb.
Lemma oz_sc_top_up fuel n s0 : flag (sc_nt s0) n = false -> ocz s0 (sc_top_up fuel n).
Proof. revert s0. induction fuel as [|f IH]; intros s0 Hf; cbn [sc_top_up]; ogg. Qed.
#[export] Hint Extern 1 (from (ozR sc_nt) _ (sc_top_up _ _)) => apply oz_sc_top_up; pre : ogdb.
Lemma oz_sc_assign_topup n s0 :
  flag (sc_nt s0) n = false ->
  ocz s0 (sc_assign_work_unit n ;;; (s1 <- get ;; sc_top_up (length (sc_wq s1)) n)).
Proof. intros Hf. ogg. Qed.
Lemma og_sc_reschedule n s0 : ocg s0 (sc_reschedule n).
Proof.
  unfold sc_reschedule. apply f_nsd_bind; [rr|]. intros c Hc.
  destruct (shutting_down c) eqn:Esd; [ogg|]. apply f_get.
  destruct (sc_wq s0); [ogg|]. destruct (negb (ahas n (sc_reg s0))); [ogg|].
  apply f_of_opt_bind; [rr|]. intros wl Hw. destruct (2 <? pending_of wl); [ogg|].
  apply oz_og_from, oz_sc_assign_topup. eapply flag_of_sd; eassumption.
Qed.
#[export] Hint Resolve og_sc_reschedule : ogdb.
Lemma og_sc_add_node n s0 : ocg s0 (sc_add_node n).
Proof. unfold sc_add_node. ogg. Qed.
#[export] Hint Resolve og_sc_add_node : ogdb.
Lemma og_sc_remove n s0 : ocg s0 (sc_remove_node n).
Proof. unfold sc_remove_node. ogg. Qed.
#[export] Hint Resolve og_sc_remove : ogdb.
Lemma og_sc_add_coll n c s0 : ocg s0 (sc_add_node_collection n c).
Proof. unfold sc_add_node_collection. ogg. Qed.
#[export] Hint Resolve og_sc_add_coll : ogdb.
Lemma og_sc_complete n i s0 : ocg s0 (sc_mark_test_complete n i).
Proof. unfold sc_mark_test_complete. ogg. Qed.
#[export] Hint Resolve og_sc_complete : ogdb.
Lemma og_sc_pop_extra k s0 : ocg s0 (sc_pop_extra k).
Proof. revert s0. induction k as [|k IH]; intros s0; cbn [sc_pop_extra]; ogg. Qed.
#[export] Hint Resolve og_sc_pop_extra : ogdb.

(* ---- each: everything except schedule() sends no work at all ---- *)
Lemma og_e_add_node n s0 : oeg s0 (e_add_node n).
Proof. unfold e_add_node. ogg. Qed.
#[export] Hint Resolve og_e_add_node : ogdb.
Lemma og_e_inherit n c dead s0 : oeg s0 (e_inherit n c dead).
Proof. revert s0. induction dead as [|[d p] r IH]; intros s0; cbn [e_inherit]; ogg. Qed.
#[export] Hint Resolve og_e_inherit : ogdb.
Lemma og_e_add_coll n c s0 : oeg s0 (e_add_node_collection n c).
Proof. unfold e_add_node_collection. ogg. Qed.
#[export] Hint Resolve og_e_add_coll : ogdb.
Lemma og_e_complete n i s0 : oeg s0 (e_mark_test_complete n i).
Proof. unfold e_mark_test_complete. ogg. Qed.
#[export] Hint Resolve og_e_complete : ogdb.
Lemma og_e_remove n s0 : oeg s0 (e_remove_node n).
Proof. unfold e_remove_node. ogg. Qed.
#[export] Hint Resolve og_e_remove : ogdb.

(* ---- each: schedule(), with the invariant "flag set => started" ---- *)
Lemma oinv_node_send {S} (nt_of : S -> ntable) (I : S -> Prop) n c s0 :
  c <> CShutdown -> (I s0 -> flag (nt_of s0) n = false) ->
  from (with_inv I (ogR nt_of)) s0 (node_send nt_of n c).
Proof.
  intros Hc Hf s' o r H HI. destruct (node_send_out _ _ _ _ _ _ _ H) as (-> & _).
  split; [exact HI|]. apply oz_og. exact (oz_node_send nt_of n c s0 Hc (Hf HI) _ _ _ H).
Qed.

Notation oei keys := (from (with_inv (e_inv keys) (ogR e_nt))).

Lemma oei_refl keys : rrefl (with_inv (e_inv keys) (ogR e_nt)).
Proof. apply with_inv_refl, ogR_refl. Qed.
Lemma oei_trans keys : rtrans (with_inv (e_inv keys) (ogR e_nt)).
Proof. apply with_inv_trans, ogR_trans. Qed.
#[export] Hint Resolve oei_refl oei_trans : sdrel.

Lemma oei_mark_started keys n s0 :
  oei keys s0 (s1 <- get ;; put (e_set_started s1 (e_started s1 ++ [n]))).
Proof.
  apply f_get. apply f_put. intros HJ. split; [|apply og_rel_refl].
  intros m Hm Hf. cbn [e_started e_set_started]. rewrite mem_nat_app. rewrite (HJ m Hm Hf). reflexivity.
Qed.

Lemma oei_shutdown_started keys n s0 :
  oei keys s0 (node_shutdown e_nt e_set_nt n ;;; s1 <- get ;; put (e_set_started s1 (e_started s1 ++ [n]))).
Proof.
  intros s' o r H HJ. apply mbind_inv in H.
  destruct H as [(s1 & o1 & [] & o2 & H1 & H2 & ->)|(e & H1 & ->)].
  - pose proof (og_node_shutdown e_nt e_set_nt (fun _ _ => eq_refl) n s0 _ _ _ H1) as G1.
    unfold mbind, get, put in H2. inversion H2; subst. clear H2. rewrite app_nil_r.
    split; [|exact G1].
    intros m Hm Hf. cbn [e_started e_set_started e_nt] in *. rewrite mem_nat_app.
    destruct (Nat.eqb m n) eqn:E.
    + cbn. rewrite E. apply orb_true_r.
    + apply Nat.eqb_neq in E.
      rewrite (node_shutdown_flags e_nt e_set_nt n _ _ _ _ (fun _ _ => eq_refl) H1 m E) in Hf.
      assert (Es : e_started s1 = e_started s0).
      { destruct (node_shutdown_out _ _ _ _ _ _ _ H1) as ([->|(v & ->)] & _); reflexivity. }
      rewrite Es, (HJ m Hm Hf). reflexivity.
  - pose proof (og_node_shutdown e_nt e_set_nt (fun _ _ => eq_refl) n s0 _ _ _ H1) as G1.
    split; [|exact G1].
    assert (Es : s' = s0).
    { revert H1. unfold node_shutdown, node_send, node_flags, mbind, get, of_opt.
      destruct (aget n (e_nt s0)) as [f|] eqn:Ef; cbn [ret raise]; [|intros H; inversion H; auto].
      unfold ret. destruct (n_down f || n_sdsent f); [intros H; inversion H; auto|].
      rewrite Ef. destruct (n_closed f); unfold emit, put; intros H; inversion H. }
    subst s'. exact HJ.
Qed.

Lemma oei_schedule_node keys n s0 : In n keys -> oei keys s0 (e_schedule_node n).
Proof.
  intros Hin. unfold e_schedule_node. apply f_get.
  destruct (mem_nat n (e_started s0)) eqn:Em; [apply f_ret; rr|].
  apply f_of_opt_bind; [rr|]. intros pend Hp.
  assert (Hflag : e_inv keys s0 -> flag (e_nt s0) n = false).
  { intros HJ. destruct (flag (e_nt s0) n) eqn:F; [|reflexivity]. rewrite (HJ n Hin F) in Em. discriminate. }
  destruct pend as [|p pend]; [destruct (aget n (e_n2c s0)) as [coll|]|].
  - apply f_put_bind; [rr|intros HJ; split; [exact HJ|apply og_rel_refl]|].
    apply f_bind; [rr|apply oinv_node_send; [discriminate|exact Hflag]|].
    intros _ s1. apply oei_shutdown_started.
  - apply f_ret; rr.
  - apply f_bind; [rr|apply oinv_node_send; [discriminate|exact Hflag]|].
    intros _ s1. apply oei_mark_started.
Qed.

Lemma og_e_schedule_started s0 :
  (forall n, In n (e_nodes s0) -> flag (e_nt s0) n = true -> mem_nat n (e_started s0) = true) ->
  oeg s0 e_schedule.
Proof.
  intros Hyp s' o r H.
  assert (K : oei (akeys (e_n2p s0)) s0 e_schedule).
  { unfold e_schedule. apply f_get. apply f_massert_bind; [rr|intros _].
    apply f_mfor_in; [rr|rr|]. intros n Hn s. apply oei_schedule_node. exact Hn. }
  apply (K _ _ _ H). exact Hyp.
Qed.

(* ---- loadscope: the initial distribution ---- *)
Lemma ostateless_sc_same s0 : ostateless sc_same_collection s0.
Proof.
  intros s' o r H. unfold sc_same_collection in H. unfold mbind at 1 in H. unfold get in H.
  destruct (sc_reg s0) as [|[first col] others].
  - unfold raise in H. inversion H; subst. split; [reflexivity|intros; split; reflexivity].
  - destruct ((mfor others (fun p => if coll_eqb col (snd p) then ret tt else emit (OCollDiff first (fst p)));;;
               ret (forallb (fun p => coll_eqb col (snd p)) others)) s0) as [[sx ox] rx] eqn:E.
    inversion H; subst. clear H. apply mbind_inv in E.
    destruct E as [(s1 & o1 & a & o2 & H1 & H2 & ->)|(e & H1 & ->)].
    + unfold ret in H2. inversion H2; subst. rewrite app_nil_r. exact (ocolldiff_mfor _ _ _ _ _ _ _ H1).
    + exact (ocolldiff_mfor _ _ _ _ _ _ _ H1).
Qed.
Lemma og_sc_same s0 : ocg s0 sc_same_collection.
Proof. unfold sc_same_collection. ogg. Qed.
#[export] Hint Resolve og_sc_same : ogdb.

Lemma og_sc_schedule s0 :
  (sc_coll s0 = None -> sc_inv s0) -> ocg s0 sc_schedule.
Proof.
  intros Hyp. unfold sc_schedule. apply f_get. apply f_massert_bind; [rr|intros Hc].
  destruct (sc_coll s0) eqn:Ec; [ogg|]. specialize (Hyp eq_refl).
  apply f_bind_ostateless; [apply ostateless_sc_same|intros same].
  destruct (negb same); [ogg|]. apply f_get. apply f_of_opt_bind; [rr|intros coll Hcoll].
  apply f_put_bind; [rr|og_rel_now|]. destruct coll as [|c0 cr]; [ogg|].
  apply f_get. apply f_put_bind; [rr|og_rel_now|]. apply f_get.
  apply (f_bind_inv _ sc_inv); [rr|apply og_sc_pop_extra|exact Hyp|apply sc_pop_extra_inv|].
  intros _ s4 (ND4 & FL4). apply f_get. apply f_bind_ozg.
  - apply (oz_mfor_pre sc_nt _ _ (fun nt n => flag nt n = false)).
    + intros n s Hn Hf. apply oz_sc_assign. exact Hf.
    + exact FL4.
  - intros _ s5 _. ogg.
Qed.

(* ---- the scheduler interface ---- *)
Lemma lift_og {S A B} (nt_of : S -> ntable) (wrap : S -> sstate) (f : A -> B) (m : M S A) s st' o r :
  (forall x, s_nt (wrap x) = nt_of x) -> from (ogR nt_of) s m ->
  lift wrap f (m s) = (st', o, r) -> og_rel (nt_of s) (s_nt st') o.
Proof.
  intros Hw Hm H. unfold lift in H. destruct (m s) as [[s1 o1] r1] eqn:E.
  inversion H; subst. rewrite Hw. exact (Hm _ _ _ E).
Qed.

Ltac lifted_og H :=
  (eapply lift_og; [| |exact H]); [intros; reflexivity|]; eauto with ogdb.

(* every scheduler operation other than the creation of a WorkerController puts, on every
   worker's channel, a legal continuation of its command stream; schedule() needs guard_hyp *)
Theorem s_step_og_rel st op st' o r :
  is_new op = false -> (op = SSchedule -> guard_hyp st) ->
  s_step st op = (st', o, r) -> og_rel (s_nt st) (s_nt st') o.
Proof.
  destruct op; cbn [is_new s_step]; intros Hn Hg H; try discriminate.
  - destruct st; cbn [s_nt]; lifted_og H.
  - destruct st; cbn [s_nt]; lifted_og H.
  - specialize (Hg eq_refl). destruct st; cbn [s_nt guard_hyp] in *; (eapply lift_og; [| |exact H]);
      try (intros; reflexivity).
    + apply og_l_schedule. exact Hg.
    + apply og_ws_schedule.
    + apply og_sc_schedule. exact Hg.
    + apply og_e_schedule_started. exact Hg.
  - destruct st; cbn [s_nt]; lifted_og H.
  - destruct st; cbn [s_nt]; try (inversion H; subst; apply og_rel_refl); lifted_og H.
  - destruct st; cbn [s_nt]; try (inversion H; subst; apply og_rel_refl); lifted_og H.
  - destruct st; cbn [s_nt]; lifted_og H.
  - destruct (aget n (s_nt st)) as [c|] eqn:Ec; inversion H; subst; [|apply og_rel_refl].
    rewrite s_nt_set. split; [eapply nt_rel_keep; [exact Ec|reflexivity]|intros; exact I].
  - destruct st; cbn [s_nt]; (eapply lift_og; [| |exact H]); try (intros; reflexivity);
      apply og_node_shutdown; intros; reflexivity.
Qed.
Print Assumptions s_step_og_rel.

(* ------------------------------------------------------------------------------------------ *)
(* the controller                                                                              *)
(* ------------------------------------------------------------------------------------------ *)
Definition OGK (d d' : dstate) (o : list out) : Prop :=
  og_rel (d_nt d) (d_nt d') o /\ d_next_gw d' = d_next_gw d.
Definition OGD (d d' : dstate) (o : list out) : Prop :=
  fresh d -> fresh d' /\ sdflag_rel (d_nt d) (d_nt d') o /\
             (forall n, sd_ok (flag (d_nt d) n) (cmds_to n o)).

Lemma OGK_refl : rrefl OGK. Proof. intros d. split; [apply og_rel_refl|reflexivity]. Qed.
Lemma OGK_trans : rtrans OGK.
Proof. intros a b c o1 o2 (A1 & A2) (B1 & B2). split; [eapply og_rel_trans; eauto|congruence]. Qed.
Lemma OGD_refl : rrefl OGD.
Proof. intros d F. split; [exact F|]. split; [apply sdflag_refl|intros; exact I]. Qed.

Lemma sdflag_sd_ok_trans (a b : ntable) o1 o2 n :
  sdflag_rel a b o1 -> sd_ok (flag a n) (cmds_to n o1) -> sd_ok (flag b n) (cmds_to n o2) ->
  sd_ok (flag a n) (cmds_to n (o1 ++ o2)).
Proof.
  intros S1 A2 B2. rewrite Coupling.cmds_to_app. apply sd_ok_app; [exact A2|].
  destruct (S1 n) as (F1 & F2 & F3).
  destruct (flag a n) eqn:Fa.
  - cbn [orb]. destruct (F1 eq_refl) as (Fb & _). rewrite Fb in B2. exact B2.
  - cbn [orb]. destruct (has_sd (cmds_to n o1)) eqn:Hs.
    + apply has_sd_in in Hs. apply sd_count_in in Hs.
      assert (E : sd_count n o1 = 1) by lia. destruct (F3 E) as (_ & Fb). rewrite Fb in B2. exact B2.
    + destruct (flag b n); [|exact B2]. apply sd_ok_true in B2. rewrite B2. exact I.
Qed.

Lemma OGD_trans : rtrans OGD.
Proof.
  intros a b c o1 o2 HA HB F. destruct (HA F) as (Fb & S1 & W1). destruct (HB Fb) as (Fc & S2 & W2).
  split; [exact Fc|]. split; [eapply sdflag_trans; eauto|].
  intros n. eapply sdflag_sd_ok_trans; [exact S1|apply W1|apply W2].
Qed.
#[export] Hint Resolve OGK_refl OGK_trans OGD_refl OGD_trans : sdrel.

Lemma OGK_OGD d d' o : OGK d d' o -> OGD d d' o.
Proof.
  intros (((Hs & Hd) & Hw) & Hg) F. split; [|split; [exact Hs|exact Hw]].
  intros m Hm. apply Hd. apply F. rewrite <- Hg. exact Hm.
Qed.
Lemma ogk_ogd {A} d0 (m : D A) : from OGK d0 m -> from OGD d0 m.
Proof. intros H d' o r E. apply OGK_OGD. exact (H _ _ _ E). Qed.

Ltac solve_ogrel :=
  try apply OGK_OGD;
  split;
  [ first [ exact (og_rel_refl _)
          | apply oz_og, oz_rel_emit; intros ?; reflexivity
          | apply og_rel_nil; rewrite d_nt_set; eapply nt_rel_keep; [eassumption|reflexivity] ]
  | reflexivity ].

Create HintDb ogddb.
Ltac ogd1 :=
  first
    [ apply f_ret; rr | apply f_raise; rr | apply f_massert; rr | apply f_of_opt; rr
    | apply f_getv; rr
    | apply f_put; solve_ogrel
    | apply f_emit; solve_ogrel
    | apply f_mfor; [rr | rr | intros ? ?]
    | match goal with
      | |- from _ _ (mbind get _) => apply f_get
      | |- from _ _ (mbind (ret _) _) => apply f_ret_bind
      | |- from _ _ (mbind (of_opt _ _) _) => apply f_of_opt_bind; [rr | intros ? ?]
      | |- from _ _ (mbind (massert _) _) => apply f_massert_bind; [rr | intros ?]
      | |- from _ _ (mbind _ _) => apply f_bind; [rr | | intros ? ?]
      end
    | progress cbv zeta
    | match goal with
      | |- from _ _ (match ?x with _ => _ end) => destruct x eqn:?
      | |- from _ _ (let '(_, _) := ?x in _) => destruct x eqn:?
      end
    | solve [eauto with ogddb]
    | apply ogk_ogd; solve [eauto with ogddb] ].
Ltac ogd := repeat ogd1.

Lemma ogk_sched_op op d0 : is_new op = false -> op <> SSchedule -> from OGK d0 (d_sched_op op).
Proof.
  intros Hn Hs d' o r H. unfold d_sched_op in H.
  destruct (s_step (d_sched d0) op) as [[st o1] r1] eqn:E. inversion H; subst.
  split; [|reflexivity]. exact (s_step_og_rel _ _ _ _ _ Hn (fun E' => False_ind _ (Hs E')) E).
Qed.
Lemma ogk_sched_op_remove n d0 : from OGK d0 (d_sched_op (SRemove n)).
Proof. apply ogk_sched_op; [reflexivity|discriminate]. Qed.
Lemma ogk_sched_op_pending i d0 : from OGK d0 (d_sched_op (SPending i)).
Proof. apply ogk_sched_op; [reflexivity|discriminate]. Qed.
Lemma ogk_sched_op_addnode n d0 : from OGK d0 (d_sched_op (SAddNode n)).
Proof. apply ogk_sched_op; [reflexivity|discriminate]. Qed.
Lemma ogk_sched_op_addcoll n c d0 : from OGK d0 (d_sched_op (SAddColl n c)).
Proof. apply ogk_sched_op; [reflexivity|discriminate]. Qed.
Lemma ogk_sched_op_complete n i ms d0 : from OGK d0 (d_sched_op (SComplete n i ms)).
Proof. apply ogk_sched_op; [reflexivity|discriminate]. Qed.
Lemma ogk_sched_op_unsched n ixs d0 : from OGK d0 (d_sched_op (SUnsched n ixs)).
Proof. apply ogk_sched_op; [reflexivity|discriminate]. Qed.
#[export] Hint Resolve ogk_sched_op_remove ogk_sched_op_pending ogk_sched_op_addnode ogk_sched_op_addcoll
  ogk_sched_op_complete ogk_sched_op_unsched : ogddb.

Lemma ogk_node_shutdown n d0 : from OGK d0 (d_node_shutdown n).
Proof.
  intros d' o r H. split.
  - exact (og_node_shutdown d_nt d_set_nt d_nt_set n d0 _ _ _ H).
  - destruct (node_shutdown_frame _ _ _ _ _ _ _ H) as [->|(v & ->)]; reflexivity.
Qed.
#[export] Hint Resolve ogk_node_shutdown : ogddb.
Lemma ogk_triggershutdown d0 : from OGK d0 d_triggershutdown.
Proof. unfold d_triggershutdown. ogd. Qed.
#[export] Hint Resolve ogk_triggershutdown : ogddb.
Lemma ogk_active_remove n d0 : from OGK d0 (d_active_remove n).
Proof. unfold d_active_remove. ogd. Qed.
#[export] Hint Resolve ogk_active_remove : ogddb.
Lemma ogk_handlefailures f d0 : from OGK d0 (d_handlefailures f).
Proof. unfold d_handlefailures. ogd. Qed.
#[export] Hint Resolve ogk_handlefailures : ogddb.
Lemma ogk_handle_crashitem item n d0 : from OGK d0 (d_handle_crashitem item n).
Proof. unfold d_handle_crashitem, hook. ogd. Qed.
#[export] Hint Resolve ogk_handle_crashitem : ogddb.
Lemma ogk_try_block n d0 : from OGK d0 (try_block n).
Proof.
  intros d' o r H. unfold try_block in H.
  destruct (d_sched_op (SRemove n) d0) as [[d1 o1] r1] eqn:E1.
  pose proof (ogk_sched_op_remove n d0 _ _ _ E1) as R1.
  destruct r1 as [[item|]|e].
  - destruct (d_handle_crashitem item n d1) as [[d2 o2] r2] eqn:E2. inversion H; subst.
    eapply OGK_trans; [exact R1|exact (ogk_handle_crashitem _ _ _ _ _ _ E2)].
  - inversion H; subst. exact R1.
  - destruct e; inversion H; subst; exact R1.
Qed.
#[export] Hint Resolve ogk_try_block : ogddb.

Lemma ogd_clone n d0 : from OGD d0 (d_clone_node n).
Proof.
  intros d' o r H F. destruct (rd_clone n d0 _ _ _ H F) as (F' & Hs). split; [exact F'|]. split; [exact Hs|].
  intros m. revert H. unfold d_clone_node, mbind, get, of_opt, hook, emit, put, ret, raise.
  destruct (aget n (d_nt d0)) as [f|]; [|intros H; inversion H; exact I].
  unfold d_sched_op. cbn [s_step]. intros H. inversion H; subst. exact I.
Qed.
#[export] Hint Resolve ogd_clone : ogddb.
Lemma ogd_errordown n d0 : from OGD d0 (d_worker_errordown n).
Proof. rewrite errordown_unfold. unfold hook. ogd. Qed.
#[export] Hint Resolve ogd_errordown : ogddb.

Lemma ogd_handle ev d0 : calls_schedule ev = false -> from OGD d0 (d_handle ev).
Proof.
  destruct ev as [n|n ids|n key fl|n i|n i|n i k oc|n i ms|n ixs| |n|n sk|n]; cbn [calls_schedule d_handle];
    intros Hc; try discriminate; unfold hook; try (ogd; fail).
  unfold d_worker_workerfinished, hook. destruct sk; ogd.
Qed.

Lemma ogd_loop_tail (u : unit) d0 :
  from OGD d0 ((d <- get ;; if s_tests_finished (d_sched d) then d_triggershutdown else ret tt) ;;;
               (d <- get ;; if d_shouldstop d then d_triggershutdown else ret tt)).
Proof. ogd. Qed.

(* every iteration whose event is not a collectionfinish *)
Theorem ogd_loop_once_noschedule ev d0 : calls_schedule ev = false -> from OGD d0 (d_loop_once ev).
Proof.
  intros Hc. unfold d_loop_once. apply f_bind; [rr|apply ogd_handle; exact Hc|intros u d1; apply (ogd_loop_tail tt)].
Qed.

(* collectionfinish while the session is shutting down is ignored *)
Theorem ogd_loop_once_late ev d :
  d_shuttingdown d = true -> from OGD d (d_loop_once ev).
Proof.
  intros Hsd. unfold d_loop_once. apply f_bind; [rr| |intros u d1; apply (ogd_loop_tail tt)].
  destruct (calls_schedule ev) eqn:Ec; [|apply ogd_handle; exact Ec].
  destruct ev; try discriminate. cbn [d_handle]. apply f_get. rewrite Hsd. apply f_ret. rr.
Qed.

(* collectionfinish, not shutting down: the collection is added, and when the collection is then
   complete schedule() runs; it is enough that guard_hyp holds at that point *)
Lemma ogk_sched_op_schedule d0 : guard_hyp (d_sched d0) -> from OGK d0 (d_sched_op SSchedule).
Proof.
  intros Hg d' o r H. unfold d_sched_op in H.
  destruct (s_step (d_sched d0) SSchedule) as [[st o1] r1] eqn:E. inversion H; subst.
  split; [|reflexivity]. exact (s_step_og_rel _ SSchedule _ _ _ eq_refl (fun _ => Hg) E).
Qed.

Lemma f_emit_bind {S B} (R : S -> S -> list out -> Prop) s0 x (k : unit -> M S B) :
  rtrans R -> R s0 s0 [x] -> from R s0 (k tt) -> from R s0 (mbind (emit x) k).
Proof.
  intros Rt Hx Hk s' o r H. unfold mbind, emit in H.
  destruct (k tt s0) as [[s2 o2] r2] eqn:E. inversion H; subst.
  change (x :: o2) with ([x] ++ o2). eapply Rt; [exact Hx|exact (Hk _ _ _ E)].
Qed.

Lemma ogk_addcoll_schedule n ids d :
  (forall d1 o1 r1, d_sched_op (SAddColl n ids) d = (d1, o1, r1) -> guard_hyp (d_sched d1)) ->
  from OGK d (_ <- d_sched_op (SAddColl n ids) ;; d1 <- get ;;
              if s_collection_is_completed (d_sched d1) then (_ <- d_sched_op SSchedule ;; ret tt) else ret tt).
Proof.
  intros Hg d' o r H. apply mbind_inv in H.
  destruct H as [(d1 & o1 & a & o2 & H1 & H2 & ->)|(e & H1 & ->)].
  - pose proof (ogk_sched_op_addcoll n ids d _ _ _ H1) as K1. pose proof (Hg _ _ _ H1) as G1.
    eapply OGK_trans; [exact K1|].
    assert (F : from OGK d1 (d2 <- get ;; if s_collection_is_completed (d_sched d2)
                                          then (_ <- d_sched_op SSchedule ;; ret tt) else ret tt)).
    { apply f_get. destruct (s_collection_is_completed (d_sched d1)); [|apply f_ret; rr].
      apply f_bind; [rr|apply ogk_sched_op_schedule; exact G1|intros; apply f_ret; rr]. }
    exact (F _ _ _ H2).
  - exact (ogk_sched_op_addcoll n ids d _ _ _ H1).
Qed.

Theorem ogd_collfinish_guarded n ids d :
  (forall d1 o1 r1, d_sched_op (SAddColl n ids) d = (d1, o1, r1) -> guard_hyp (d_sched d1)) ->
  from OGD d (d_loop_once (QCollFinish n ids)).
Proof.
  intros Hg. unfold d_loop_once. apply f_bind; [rr| |intros u d1; apply (ogd_loop_tail tt)].
  cbn [d_handle]. apply f_get. destruct (d_shuttingdown d); [apply f_ret; rr|].
  destruct (negb (mem_nat n (s_nodes (d_sched d)))); [apply f_ret; rr|].
  unfold hook. apply f_emit_bind; [rr|solve_ogrel|].
  apply ogk_ogd. apply ogk_addcoll_schedule. exact Hg.
Qed.

(* the receiver thread and the no-active-node exit *)
Lemma ogk_process_from_remote n m d0 : from OGK d0 (process_from_remote n m).
Proof.
  unfold process_from_remote. apply f_get. apply f_of_opt_bind; [rr|]. intros f Hf. cbv zeta.
  destruct m as [e|ids|sk|i ms|[|]| | |]; try destruct e; ogd.
Qed.
Lemma ogk_no_active d0 : from OGK d0 d_no_active.
Proof. unfold d_no_active. ogd. Qed.

Print Assumptions ogd_loop_once_noschedule.
Print Assumptions ogd_loop_once_late.
Print Assumptions ogd_collfinish_guarded.
Print Assumptions ogk_process_from_remote.
