(* CrashTheorems.v -- part D of the crash coupling proof: the system invariant XInv of Model/System.v
   for --dist load WITH worker crashes (LCrash at any moment, c_crash_in) and replacement workers, proved
   for EVERY label, and the theorems derived from it.

   Hypotheses of the theorems: c_mode c = MLoad, no_garbled c, 0 < c_numnodes c.  Nothing else: any
   schedule, any c_crash_in, any restart budget, c_strict, c_requeue, --maxfail, stop requests, and any
   collections.
     crash_coupling_invariant      the book coupling for alive nodes, dead nodes awaiting their errordown
                                   (book = completions in flight ++ frozen holdings ++ lost) and handled ones
     crash_c17                     the only exception the controller can end with is "no active workers"
     crash_no_active_workers_needs_different_collection / crash_controller_never_raises
                                   ... and not even that one when all workers collect the same list
     crash_report_names_running_test   C03 (a)
   and non-vacuity examples (two crashes, lost indices, a reachable "no active workers"). *)
From XV Require Import Base Worker Ctl SchedLoad SchedSteal SchedScope SchedEach Sched DSession System
  NoHook DSessionProofs WorkerProofs LoadProofs FifoProofs ExactlyOnce Coupling CrashCoupling.
From Coq Require Import Permutation.
Open Scope nat_scope.

(* ====================================================================================== *)
(* D.1 one controller iteration seen from one node                                          *)
(* ====================================================================================== *)
Lemma bookmid'_eq ev n b : (forall k, ev = QErrorDown k -> k <> n) -> bookmid' ev n b = bookmid ev n b.
Proof.
  intros H. destruct ev; try reflexivity. cbn. destruct (Nat.eqb n n0) eqn:E; [|reflexivity].
  apply Nat.eqb_eq in E. subst. exfalso. exact (H n0 eq_refl eq_refl).
Qed.

(* an alive node *)
Lemma NI_ctl' ev ls ls' act act' (ss ss' : bool) n L' dn w vo :
  NRo (aget n (l_nt ls)) (cmds_to n vo) (aget n (l_nt ls')) ->
  bk ls' n = bookmid ev n (bk ls n) ++ flat_map cmd_inds (cmds_to n vo) ->
  (In n (l_nodes ls') -> In n (l_nodes ls) \/ ev_sig ev = Some (n, SgReady)) ->
  (In n (akeys (l_n2c ls')) -> In n (akeys (l_n2c ls)) \/ ev_sig ev = Some (n, SgCF)) ->
  (In n act -> In n act' \/ exists b, ev_sig ev = Some (n, SgFin b)) ->
  (forall m, ev_sig ev = Some (m, SgFin true) -> ss' = true) ->
  (ss = true -> ss' = true) ->
  NI ls act ss n (ev_sigs_for n ev ++ L') dn w ->
  NI ls' act' ss' n L' (dn ++ cmds_to n vo) w.
Proof.
  intros HNT HBK HNODES HN2C HACT HSTOP HSS [(f & Ef & Mk) Cp Ch Nd Nc Ac Fm Wx Fx].
  assert (Hsub : forall g, In g L' -> In g (ev_sigs_for n ev ++ L')) by (intros g Hg; apply in_or_app; right; exact Hg).
  assert (Ch' : chan_ok (prank (wph w)) L').
  { unfold ev_sigs_for in Ch. destruct (ev_sig ev) as [[m g]|]; [|exact Ch].
    destruct (Nat.eqb m n); [|exact Ch]. eapply chan_ok_tail. exact Ch. }
  constructor.
  - rewrite Ef in HNT.
    destruct (aget n (l_nt ls')) as [f'|] eqn:Ef'; [|destruct HNT]. cbn in HNT.
    exists f'. split; [reflexivity|]. rewrite flat_map_app, app_assoc. eapply NR_mark_ok; eauto.
  - rewrite HBK, flat_map_app.
    rewrite Cp, bookmid_sigs, <- !app_assoc. reflexivity.
  - exact Ch'.
  - intros Hin. destruct (HNODES Hin) as [Hold|Hev].
    + destruct (Nd Hold) as (A & B). split; [|exact B]. intros Hi. apply A. apply Hsub. exact Hi.
    + unfold ev_sigs_for in Ch. rewrite Hev, Nat.eqb_refl in Ch. cbn [app] in Ch.
      destruct (chan_ok_ready_head _ _ Ch) as (A & B). split; [exact A|].
      intros Ep. rewrite Ep in B. cbn in B. lia.
  - intros Hin. destruct (HN2C Hin) as [Hold|Hev].
    + destruct (Nc Hold) as (A & B). split; [|exact B]. intros Hi. apply A. apply Hsub. exact Hi.
    + unfold ev_sigs_for in Ch. rewrite Hev, Nat.eqb_refl in Ch. cbn [app] in Ch.
      exact (chan_ok_cf_head _ _ Ch).
  - intros Hn. destruct (in_dec Nat.eq_dec n act) as [Hin|Hni].
    + destruct (HACT Hin) as [X|(b & Hev)]; [contradiction|].
      unfold ev_sigs_for in Ch. rewrite Hev, Nat.eqb_refl in Ch. cbn [app] in Ch.
      destruct (chan_ok_fin_head _ _ _ Ch) as (A & B). split; [exact A|apply prank_4; exact B].
    + destruct (Ac Hni) as (A & B). split; [|exact B]. apply app_eq_nil in A. tauto.
  - intros [Hi|Hp]; apply Fm; [left; apply Hsub; exact Hi|right; exact Hp].
  - exact Wx.
  - intros Hfin. destruct (Fx Hfin) as [X|[X|[X|X]]].
    + left. exact X.
    + right. left. exact X.
    + apply in_app_or in X. destruct X as [X|X].
      * right. right. right. unfold ev_sigs_for in X. destruct (ev_sig ev) as [[m g]|] eqn:Eg; [|destruct X].
        destruct (Nat.eqb m n) eqn:Emn; [|destruct X]. destruct X as [->|[]].
        apply (HSTOP m). reflexivity.
      * right. right. left. exact X.
    + right. right. right. apply HSS. exact X.
Qed.

(* a dead node: what does not depend on how far its end marker has travelled *)
Record NDc (ls : lstate) (n : nat) (L : list sig) (w : wst) : Prop := {
  nd_chan : chan_ok (prank (wph w)) L;
  nd_nodes : In n (l_nodes ls) -> ~ In SgReady L /\ wph w <> PBoot;
  nd_n2c : In n (akeys (l_n2c ls)) -> ~ In SgCF L /\ 2 <= prank (wph w);
  nd_ph : wph w <> PExited;
}.

(* the book of a dead node whose errordown is still to come: the completions still in flight, what the
   dead worker held (frozen state), and what was lost on the wire down (at its death or sent since) *)
Definition NDcpl (ls : lstate) (n : nat) (L : list sig) (w : wst) : Prop :=
  exists lost, bk ls n = completes L ++ owed_w w ++ lost.

Lemma NDc_of_NI ls act ss n L dn w : NI ls act ss n L dn w -> wph w <> PExited -> NDc ls n L w.
Proof. intros [Fl Cp Ch Nd Nc Ac Fm Wx Fx] Hp. constructor; assumption. Qed.

Lemma NDcpl_of_NI ls act ss n L dn w : NI ls act ss n L dn w -> NDcpl ls n L w.
Proof. intros X. exists (flat_map cmd_inds dn). exact (ni_coupled _ _ _ _ _ _ _ X). Qed.

Lemma NDc_nofin ls n L w b : NDc ls n L w -> ~ In (SgFin b) L.
Proof.
  intros [Ch _ _ Hp] Hin. pose proof (chan_ok_in _ _ _ Ch Hin) as P. cbn in P. unfold prec in P.
  assert (H4 : 4 <= prank (wph w)) by lia. apply prank_4 in H4. contradiction.
Qed.

Lemma NDc_ctl ev ls ls' n L' w :
  (In n (l_nodes ls') -> In n (l_nodes ls) \/ ev_sig ev = Some (n, SgReady)) ->
  (In n (akeys (l_n2c ls')) -> In n (akeys (l_n2c ls)) \/ ev_sig ev = Some (n, SgCF)) ->
  NDc ls n (ev_sigs_for n ev ++ L') w -> NDc ls' n L' w.
Proof.
  intros HNODES HN2C [Ch Nd Nc Hp].
  assert (Hsub : forall g, In g L' -> In g (ev_sigs_for n ev ++ L')) by (intros g Hg; apply in_or_app; right; exact Hg).
  assert (Ch' : chan_ok (prank (wph w)) L').
  { unfold ev_sigs_for in Ch. destruct (ev_sig ev) as [[m g]|]; [|exact Ch].
    destruct (Nat.eqb m n); [|exact Ch]. eapply chan_ok_tail. exact Ch. }
  constructor.
  - exact Ch'.
  - intros Hin. destruct (HNODES Hin) as [Hold|Hev].
    + destruct (Nd Hold) as (A & B). split; [|exact B]. intros Hi. apply A. apply Hsub. exact Hi.
    + unfold ev_sigs_for in Ch. rewrite Hev, Nat.eqb_refl in Ch. cbn [app] in Ch.
      destruct (chan_ok_ready_head _ _ Ch) as (A & B). split; [exact A|].
      intros Ep. rewrite Ep in B. cbn in B. lia.
  - intros Hin. destruct (HN2C Hin) as [Hold|Hev].
    + destruct (Nc Hold) as (A & B). split; [|exact B]. intros Hi. apply A. apply Hsub. exact Hi.
    + unfold ev_sigs_for in Ch. rewrite Hev, Nat.eqb_refl in Ch. cbn [app] in Ch.
      exact (chan_ok_cf_head _ _ Ch).
  - exact Hp.
Qed.

Lemma NDcpl_ctl ev ls ls' n L' w x :
  bk ls' n = bookmid ev n (bk ls n) ++ x ->
  NDcpl ls n (ev_sigs_for n ev ++ L') w -> NDcpl ls' n L' w.
Proof.
  intros HBK (lost & Cp). exists (lost ++ x). rewrite HBK, Cp, bookmid_sigs, <- !app_assoc. reflexivity.
Qed.

Lemma NDc_ext ls ls' n L w :
  l_n2p ls' = l_n2p ls -> l_n2c ls' = l_n2c ls -> NDc ls n L w -> NDc ls' n L w.
Proof. intros Ep Ec [Ch Nd Nc Hp]. constructor; auto; [unfold l_nodes; rewrite Ep; exact Nd|rewrite Ec; exact Nc]. Qed.

Lemma NDcpl_ext ls ls' n L w : l_n2p ls' = l_n2p ls -> NDcpl ls n L w -> NDcpl ls' n L w.
Proof. intros Ep (lost & Cp). exists lost. unfold bk in *. rewrite Ep. exact Cp. Qed.

(* ====================================================================================== *)
(* D.2 applying the controller's outputs: dead workers get nothing, spawned ones start empty *)
(* ====================================================================================== *)
Lemma apply_outs_down outs : forall s,
  (forall id sp, In (OHook (HSpawn id sp)) outs -> cmds_to id outs = [] /\ alist_get [] id (y_down s) = []) ->
  forall k, alist_get [] k (y_down (apply_outs s outs)) =
            if mem_nat k (y_dead s) then alist_get [] k (y_down s) else alist_get [] k (y_down s) ++ cmds_to k outs.
Proof.
  induction outs as [|x outs IH]; intros s P k.
  - cbn. rewrite app_nil_r. destruct (mem_nat k (y_dead s)); reflexivity.
  - assert (P' : forall id sp, In (OHook (HSpawn id sp)) outs -> cmds_to id outs = []).
    { intros id sp Hin. destruct (P id sp (or_intror Hin)) as (A & _). cbn [cmds_to flat_map] in A.
      apply app_eq_nil in A. tauto. }
    destruct x as [h|n cm| |]; cbn [apply_outs].
    + assert (CC : cmds_to k (OHook h :: outs) = cmds_to k outs) by reflexivity. rewrite CC.
      destruct h; try (apply IH; intros id sp Hin; split; [eapply P'; eauto|apply (P id sp (or_intror Hin))]).
      rewrite IH; cbn [y_dead y_down].
      * destruct (Nat.eq_dec k newid) as [->|Hne].
        -- rewrite alist_get_aset_eq. destruct (P newid spec (or_introl eq_refl)) as (_ & B). rewrite B. reflexivity.
        -- rewrite alist_get_aset_neq by exact Hne. reflexivity.
      * intros id sp Hin. split; [eapply P'; eauto|].
        destruct (Nat.eq_dec id newid) as [->|Hne]; [apply alist_get_aset_eq|].
        rewrite alist_get_aset_neq by exact Hne. apply (P id sp (or_intror Hin)).
    + destruct (mem_nat n (y_dead s)) eqn:Ed.
      * rewrite IH; [|intros id sp Hin; split; [eapply P'; eauto|apply (P id sp (or_intror Hin))]].
        destruct (mem_nat k (y_dead s)) eqn:Ek; [reflexivity|].
        cbn [cmds_to flat_map cmd_to]. destruct (Nat.eqb n k) eqn:E; [|reflexivity].
        apply Nat.eqb_eq in E. subst. congruence.
      * rewrite IH; cbn [y_dead y_down].
        -- destruct (mem_nat k (y_dead s)) eqn:Ek.
           ++ destruct (Nat.eq_dec k n) as [->|Hne]; [congruence|]. rewrite alist_get_aset_neq by exact Hne. reflexivity.
           ++ cbn [cmds_to flat_map cmd_to]. destruct (Nat.eqb n k) eqn:E.
              ** apply Nat.eqb_eq in E. subst k. rewrite alist_get_aset_eq, <- app_assoc. reflexivity.
              ** apply Nat.eqb_neq in E. rewrite alist_get_aset_neq by congruence. reflexivity.
        -- intros id sp Hin. split; [eapply P'; eauto|].
           destruct (P id sp (or_intror Hin)) as (A & B).
           destruct (Nat.eq_dec id n) as [->|Hne].
           ++ exfalso. cbn [cmds_to flat_map cmd_to] in A. rewrite Nat.eqb_refl in A. discriminate.
           ++ rewrite alist_get_aset_neq by exact Hne. exact B.
    + apply IH. intros id sp Hin. split; [eapply P'; eauto|apply (P id sp (or_intror Hin))].
    + apply IH. intros id sp Hin. split; [eapply P'; eauto|apply (P id sp (or_intror Hin))].
Qed.

(* ====================================================================================== *)
(* D.3 the receiver thread of the controller                                               *)
(* ====================================================================================== *)
Definition ok_upx (collf : nat -> list string) (n : nat) (m : upmsg) : Prop :=
  match m with UEv e => ok_wev e | UCollFinish ids => ids = collf n | UComplete _ _ | UEnd => True | _ => False end.

Definition ev_node (ev : cevent) : option nat :=
  match ev with
  | QReady n | QCollFinish n _ | QComplete n _ _ | QFinished n _ | QErrorDown n => Some n
  | _ => None
  end.

Definition ok_evx (X0 : nat -> list string) (G : nat) (ev : cevent) : Prop :=
  match ev with
  | QUnscheduled _ _ | QInternalError _ | QFinished _ SKKbd => False
  | QCollFinish n ids => ids = X0 n
  | _ => True
  end /\
  match ev_node ev with Some m => m < G | None => True end.

Definition is_errd (n : nat) (ev : cevent) : bool := match ev with QErrorDown k => Nat.eqb k n | _ => false end.
Definition no_errd (n : nat) (q : list cevent) : Prop := forall ev, In ev q -> is_errd n ev = false.
Definition no_end (l : list upmsg) : Prop := ~ In UEnd l.

Lemma no_errd_app n a b : no_errd n (a ++ b) <-> no_errd n a /\ no_errd n b.
Proof.
  unfold no_errd. split.
  - intros H. split; intros ev Hin; apply H; apply in_or_app; auto.
  - intros (A & B) ev Hin. apply in_app_or in Hin. destruct Hin; auto.
Qed.
Lemma no_errd_nil n : no_errd n [].
Proof. intros ev []. Qed.

Definition upd_flag (ls : lstate) (n : nat) (f' : nctl) : lstate := l_set_nt ls (aset n f' (l_nt ls)).

Lemma d_set_nt_sched d ls n f' :
  d_sched d = StL ls -> d_sched (d_set_nt d (aset n f' (d_nt d))) = StL (upd_flag ls n f').
Proof. intros E. unfold d_set_nt, d_nt. rewrite E. reflexivity. Qed.

Lemma aget_upd_flag ls n f' m :
  aget m (l_nt (upd_flag ls n f')) = if Nat.eqb m n then Some f' else aget m (l_nt ls).
Proof. unfold upd_flag. cbn [l_nt l_set_nt]. apply LoadProofs.aget_aset. Qed.

(* changing the down/closed flags of a node does not concern the controller's invariant *)
Lemma DJ'_flag N X0 d ls n f f' :
  DJ' N X0 d ls -> aget n (l_nt ls) = Some f -> n_sdsent f' = n_sdsent f ->
  DJ' N X0 (d_set_nt d (aset n f' (d_nt d))) (upd_flag ls n f').
Proof.
  intros ([Els J Jb K1 RS K2 EX RQ AL FN] & Jss & Jemp & Jmis) Ef Hs.
  assert (KEY : forall m, aget m (l_nt (upd_flag ls n f')) <> None <-> aget m (l_nt ls) <> None).
  { intros m. rewrite aget_upd_flag. destruct (Nat.eqb m n) eqn:E; [|reflexivity].
    apply Nat.eqb_eq in E. subst m. rewrite Ef. split; intros; discriminate. }
  assert (SD : forall m g', aget m (l_nt (upd_flag ls n f')) = Some g' ->
                 exists g, aget m (l_nt ls) = Some g /\ n_sdsent g' = n_sdsent g).
  { intros m g'. rewrite aget_upd_flag. destruct (Nat.eqb m n) eqn:E.
    - apply Nat.eqb_eq in E. subst m. intros X. inv X. eauto.
    - intros X. eauto. }
  assert (SD' : forall m g, aget m (l_nt ls) = Some g ->
                 exists g', aget m (l_nt (upd_flag ls n f')) = Some g' /\ n_sdsent g' = n_sdsent g).
  { intros m g Eg. rewrite aget_upd_flag. destruct (Nat.eqb m n) eqn:E.
    - apply Nat.eqb_eq in E. subst m. exists f'. split; [reflexivity|]. congruence.
    - eauto. }
  unfold d_set_nt. split; [|split; [exact Jss|split; [exact Jemp|exact Jmis]]].
  constructor; cbn [d_set_sched d_sched d_next_gw d_shouldstop d_shuttingdown d_active d_requeue d_failed_nodes].
  - unfold d_nt. rewrite Els. reflexivity.
  - destruct J as [A1 A2 A3 A4 A5 A6 A7 A8 A9 A10 A11 A12]. constructor; auto.
    intros m. rewrite KEY. apply A2.
  - exact Jb.
  - intros Hc Hss Hex m g' Eg'. destruct (SD m g' Eg') as (g & Eg & E). rewrite E. eapply K1; eauto.
  - exact RS.
  - intros HS H1 H2. destruct (K2 HS H1 H2) as [(k & g & Hk & Eg & Hg)|X]; [left|right; exact X].
    destruct (SD' k g Eg) as (g' & Eg' & E). exists k, g'. split; [exact Hk|]. split; [exact Eg'|congruence].
  - exact EX.
  - exact RQ.
  - exact AL.
  - exact FN.
Qed.

Lemma NI_upd_flag ls act ss k L dn w n f f' :
  aget n (l_nt ls) = Some f -> n_sdsent f' = n_sdsent f ->
  NI ls act ss k L dn w -> NI (upd_flag ls n f') act ss k L dn w.
Proof.
  intros Ef Hs. apply NI_flags_ext; [|reflexivity|reflexivity].
  intros g Eg. rewrite aget_upd_flag. destruct (Nat.eqb k n) eqn:E.
  - apply Nat.eqb_eq in E. subst k. exists f'. split; [reflexivity|]. congruence.
  - eauto.
Qed.

Definition down_flag' (f : nctl) : nctl :=
  {| n_spec := n_spec f; n_down := true; n_sdsent := n_sdsent f; n_closed := n_closed f |}.

(* process_from_remote for a known node: never raises; queues the signal it read (when the node is
   still heard); the end marker of a node that is not down yet queues its errordown *)
Lemma pfr_eff' X0 G n m d ls f d' o r :
  d_sched d = StL ls -> aget n (l_nt ls) = Some f -> ok_upx X0 n m -> n < G ->
  (n_down f = true -> up_sig m = [] /\ m <> UEnd) ->
  process_from_remote n m d = (d', o, r) ->
  o = [] /\ exists evs, r = Ok evs /\
    (d' = d \/ (d' = d_set_nt d (aset n (down_flag' f) (d_nt d)) /\ n_down f = false /\
                (m = UEnd \/ exists b, m = UEv (EFinished b)))) /\
    (forall k, evq_sigs k evs = if Nat.eqb n k then up_sig m else []) /\
    Forall (ok_evx X0 G) evs /\
    (m = UEnd -> n_down f = false -> evs = [QErrorDown n] /\ d' <> d) /\
    (m <> UEnd -> forall k, no_errd k evs).
Proof.
  intros Els Ef Hm HnG Hdn H.
  assert (Ent : d_nt d = l_nt ls) by (unfold d_nt; rewrite Els; reflexivity).
  unfold process_from_remote in H. rewrite mbind_get, Ent, Ef in H. cbn [of_opt] in H. rewrite mbind_ret in H.
  assert (SG : forall (g : sig) k, (if Nat.eqb n k then [g] else []) ++ [] = if Nat.eqb n k then [g] else []).
  { intros g k. destruct (Nat.eqb n k); reflexivity. }
  assert (SN : forall k, @nil sig = if Nat.eqb n k then [] else []) by (intros k; destruct (Nat.eqb n k); reflexivity).
  assert (SAME : forall evs, (d, @nil out, Ok evs) = (d', o, r) -> m <> UEnd \/ n_down f = true ->
            (forall k, evq_sigs k evs = if Nat.eqb n k then up_sig m else []) -> Forall (ok_evx X0 G) evs ->
            (forall k, no_errd k evs) ->
            o = [] /\ exists evs, r = Ok evs /\
            (d' = d \/ (d' = d_set_nt d (aset n (down_flag' f) (d_nt d)) /\ n_down f = false /\
                        (m = UEnd \/ exists b, m = UEv (EFinished b)))) /\
            (forall k, evq_sigs k evs = if Nat.eqb n k then up_sig m else []) /\
            Forall (ok_evx X0 G) evs /\
            (m = UEnd -> n_down f = false -> evs = [QErrorDown n] /\ d' <> d) /\
            (m <> UEnd -> forall k, no_errd k evs)).
  { intros evs E Hne Hs Ho Hq. inv E. split; [reflexivity|]. exists evs.
    split; [reflexivity|]. split; [left; reflexivity|]. split; [exact Hs|]. split; [exact Ho|].
    split; [|intros _; exact Hq]. intros E1 E2. destruct Hne as [X|X]; [contradiction|congruence]. }
  destruct (n_down f) eqn:Edn.
  { (* a node that is down is not heard any more *)
    assert (H' : (d, @nil out, Ok (@nil cevent)) = (d', o, r)).
    { destruct m as [e|ids|sk|i ms|dec| | |]; exact H. }
    eapply SAME; [exact H'|right; reflexivity| |constructor|intros k; apply no_errd_nil].
    intros k. destruct (Hdn eq_refl) as (E0 & _). rewrite E0. destruct (Nat.eqb n k); reflexivity. }
  assert (NEQ : d_set_nt d (aset n (down_flag' f) (d_nt d)) <> d).
  { intros F. assert (X : aget n (d_nt (d_set_nt d (aset n (down_flag' f) (d_nt d)))) = Some (down_flag' f)).
    { rewrite d_nt_set. apply aget_aset_eq. }
    rewrite F, Ent, Ef in X. injection X as X. apply (f_equal n_down) in X. cbn in X. congruence. }
  assert (OK1 : forall ev, match ev with QUnscheduled _ _ | QInternalError _ | QFinished _ SKKbd => False
                                       | QCollFinish n0 ids0 => ids0 = X0 n0 | _ => True end ->
                match ev_node ev with Some m0 => m0 < G | None => True end -> Forall (ok_evx X0 G) [ev]).
  { intros ev A B. constructor; [split; assumption|constructor]. }
  assert (NE1 : forall ev, (forall k, is_errd k ev = false) -> forall k, no_errd k [ev]).
  { intros ev Hev k e [<-|[]]. apply Hev. }
  destruct m as [e|ids|sk|i ms|dec| | |]; cbn [ok_upx] in Hm; try contradiction.
  - destruct e as [| |ck cf| |li|ri rk roc|fi|ci|ux|stopreq]; cbn [ok_wev] in Hm; try contradiction; unfold ret in H.
    + eapply SAME; [exact H|left; discriminate| |apply OK1; cbn; auto|apply NE1; reflexivity]. intros k0. cbn. apply SG.
    + eapply SAME; [exact H|left; discriminate| |constructor|intros k; apply no_errd_nil]. intros k0. cbn. apply SN.
    + eapply SAME; [exact H|left; discriminate| |apply OK1; cbn; auto|apply NE1; reflexivity]. intros k0. cbn. apply SN.
    + eapply SAME; [exact H|left; discriminate| |constructor|intros k; apply no_errd_nil]. intros k0. cbn. apply SN.
    + eapply SAME; [exact H|left; discriminate| |apply OK1; cbn; auto|apply NE1; reflexivity]. intros k0. cbn. apply SN.
    + eapply SAME; [exact H|left; discriminate| |apply OK1; cbn; auto|apply NE1; reflexivity]. intros k0. cbn. apply SN.
    + eapply SAME; [exact H|left; discriminate| |apply OK1; cbn; auto|apply NE1; reflexivity]. intros k0. cbn. apply SN.
    + eapply SAME; [exact H|left; discriminate| |apply OK1; cbn; auto|apply NE1; reflexivity]. intros k0. cbn. apply SG.
    + rewrite mbind_put in H. unfold ret in H. inv H. split; [reflexivity|]. eexists. split; [reflexivity|].
      split. { right. rewrite Ent. split; [reflexivity|]. split; [reflexivity|]. right. eexists. reflexivity. }
      split. { intros k0. cbn. destruct stopreq; apply SG. }
      split. { apply OK1; [destruct stopreq; exact I|exact HnG]. }
      split; [intros F; discriminate|]. intros _. apply NE1. reflexivity.
  - unfold ret in H. eapply SAME; [exact H|left; discriminate| |apply OK1; cbn; auto|apply NE1; reflexivity]. intros k0. cbn. apply SG.
  - unfold ret in H. eapply SAME; [exact H|left; discriminate| |apply OK1; cbn; auto|apply NE1; reflexivity]. intros k0. cbn. apply SG.
  - (* the end marker *)
    rewrite mbind_put in H. unfold ret in H. inv H. split; [reflexivity|]. eexists. split; [reflexivity|].
    split. { right. rewrite Ent. split; [reflexivity|]. split; [reflexivity|]. left. reflexivity. }
    split. { intros k0. cbn. apply SN. }
    split. { apply OK1; [exact I|exact HnG]. }
    split; [|intros F; contradiction]. intros _ _. split; [reflexivity|]. rewrite <- Ent. exact NEQ.
Qed.

(* the part of the controller state that the token accounts look at *)
Definition dview_same (d d' : dstate) : Prop :=
  d_requeue d' = d_requeue d /\ d_active d' = d_active d /\
  forall ls, d_sched d = StL ls -> exists ls', d_sched d' = StL ls' /\ l_coll ls' = l_coll ls /\ tokens ls' = tokens ls.
Lemma dview_refl d : dview_same d d.
Proof. split; [reflexivity|]. split; [reflexivity|]. intros ls E. exists ls. auto. Qed.
Lemma dview_trans a b c : dview_same a b -> dview_same b c -> dview_same a c.
Proof.
  intros (A1 & A2 & A3) (B1 & B2 & B3). split; [congruence|]. split; [congruence|].
  intros ls E. destruct (A3 ls E) as (ls1 & E1 & C1 & T1). destruct (B3 ls1 E1) as (ls2 & E2 & C2 & T2).
  exists ls2. split; [exact E2|]. split; congruence.
Qed.
Lemma dview_set_nt d v : dview_same d (d_set_nt d v).
Proof.
  split; [reflexivity|]. split; [reflexivity|]. intros ls E. unfold d_set_nt. cbn [d_set_sched d_sched]. rewrite E.
  cbn [s_set_nt]. eexists. split; [reflexivity|]. split; reflexivity.
Qed.

(* ====================================================================================== *)
(* D.4 the system invariant                                                                *)
(* ====================================================================================== *)
(* how far the end marker of a dead worker has travelled *)
Inductive DeadSt (s : sys) (ls : lstate) (n : nat) (w : wst) : Prop :=
| DS_wire pre f :                       (* still on the wire: the worker is heard until it is read *)
    alist_get [] n (y_up s) = pre ++ [UEnd] -> no_end pre ->
    aget n (l_nt ls) = Some f -> n_down f = false ->
    no_errd n (y_evq s) -> In n (d_active (y_d s)) ->
    NDcpl ls n (sigs s n) w -> DeadSt s ls n w
| DS_queue q1 q2 :                      (* read: errordown is queued, behind every other event of the node *)
    alist_get [] n (y_up s) = [] ->
    y_evq s = q1 ++ QErrorDown n :: q2 -> evq_sigs n q2 = [] -> no_errd n q1 -> no_errd n q2 ->
    In n (d_active (y_d s)) ->
    NDcpl ls n (sigs s n) w -> DeadSt s ls n w
| DS_done :                             (* errordown handled: the node is gone from the controller *)
    alist_get [] n (y_up s) = [] -> no_errd n (y_evq s) -> evq_sigs n (y_evq s) = [] ->
    ~ In n (d_active (y_d s)) -> ~ In n (l_nodes ls) -> DeadSt s ls n w.

Record AL (s : sys) (ls : lstate) (n : nat) (w : wst) : Prop := {
  al_ni : NI ls (d_active (y_d s)) (d_shouldstop (y_d s)) n (sigs s n) (alist_get [] n (y_down s)) w;
  al_dn : Forall good_cmd (alist_get [] n (y_down s));
  al_noend : no_end (alist_get [] n (y_up s));
  al_noerr : no_errd n (y_evq s);
  al_open : closedb (l_nt ls) n = false;
  al_down : forall f, aget n (l_nt ls) = Some f -> n_down f = true ->
            flat_map up_sig (alist_get [] n (y_up s)) = [] /\ wph w = PExited;
}.

Record DD (s : sys) (ls : lstate) (n : nat) (w : wst) : Prop := {
  dd_c : NDc ls n (sigs s n) w;
  dd_st : DeadSt s ls n w;
  dd_dn : alist_get [] n (y_down s) = [];
}.

Definition NodeInv (s : sys) (ls : lstate) (n : nat) (w : wst) : Prop :=
  WInv w /\ Forall good_cmd (winbox w) /\ nogarb w /\
  (if mem_nat n (y_dead s) then DD s ls n w else AL s ls n w).

Lemma DeadSt_frame s s' ls n w :
  y_d s' = y_d s -> y_evq s' = y_evq s ->
  alist_get [] n (y_up s') = alist_get [] n (y_up s) ->
  DeadSt s ls n w -> DeadSt s' ls n w.
Proof.
  intros Ed Eq Eu H. pose proof (sigs_ext s s' n Eq Eu) as Es.
  destruct H as [pre f A B C D E F G|q1 q2 A B C D E F G|A B C D E].
  - eapply DS_wire; rewrite ?Eu, ?Eq, ?Ed, ?Es; eauto.
  - eapply DS_queue; rewrite ?Eu, ?Eq, ?Ed, ?Es; eauto.
  - eapply DS_done; rewrite ?Eu, ?Eq, ?Ed; eauto.
Qed.

Lemma NodeInv_frame s s' ls n w :
  y_d s' = y_d s -> y_evq s' = y_evq s -> y_dead s' = y_dead s ->
  alist_get [] n (y_up s') = alist_get [] n (y_up s) ->
  alist_get [] n (y_down s') = alist_get [] n (y_down s) ->
  NodeInv s ls n w -> NodeInv s' ls n w.
Proof.
  intros Ed Eq Edd Eu Edn (A & B & C & D). pose proof (sigs_ext s s' n Eq Eu) as Es.
  split; [exact A|]. split; [exact B|]. split; [exact C|]. rewrite Edd.
  destruct (mem_nat n (y_dead s)).
  - destruct D as [D1 D2 D3]. constructor; rewrite ?Es, ?Edn; auto. eapply DeadSt_frame; eauto.
  - destruct D as [D1 D2 D3 D4 D5 D6]. constructor; rewrite ?Es, ?Edn, ?Eu, ?Eq, ?Ed; auto.
Qed.

(* The crash coupling.  For every worker process that was ever started:
   - alive: the controller's book equals, in order, what the worker side still owes (as without crashes);
   - dead, errordown not handled yet (the node is still "active" for the controller): the book is
       completions still in flight ++ what the dead worker held when it died (its frozen state)
       ++ lost,  lost = what was on its wire down when it died or has been sent to it since;
   - dead, errordown handled: the node has no book any more.
   An id without a process has no book. *)
Definition CrashCoupled (s : sys) : Prop :=
  forall n,
    match aget n (y_w s) with
    | None => book s n = []
    | Some w =>
        if mem_nat n (y_dead s) then
          (In n (d_active (y_d s)) -> exists lost, book s n = completes (sigs s n) ++ owed_w w ++ lost) /\
          (~ In n (d_active (y_d s)) -> book s n = [])
        else book s n = owed s n
    end.


(* THE collection, once the scheduler has fixed it *)
Definition the_coll (s : sys) : option (list string) :=
  match d_sched (y_d s) with StL ls => l_coll ls | _ => None end.

Lemma CrashCoupled_ext s s' :
  y_w s' = y_w s -> y_dead s' = y_dead s -> y_evq s' = y_evq s -> y_up s' = y_up s -> y_down s' = y_down s ->
  d_sched (y_d s') = d_sched (y_d s) -> d_active (y_d s') = d_active (y_d s) ->
  CrashCoupled s -> CrashCoupled s'.
Proof.
  intros E1 E2 E3 E4 E5 E6 E7 H n. specialize (H n).
  assert (BK : book s' n = book s n) by (unfold book; rewrite E6; reflexivity).
  assert (SG : sigs s' n = sigs s n) by (unfold sigs; rewrite E3, E4; reflexivity).
  assert (OW : owed s' n = owed s n) by (unfold owed; rewrite SG, E1, E5; reflexivity).
  rewrite E1, E2, BK, SG, OW, E7. exact H.
Qed.

(* two states that differ at most in the result and in controller fields nothing below looks at *)
Definition VE (s0 s : sys) : Prop :=
  y_w s = y_w s0 /\ y_dead s = y_dead s0 /\ y_evq s = y_evq s0 /\ y_up s = y_up s0 /\ y_down s = y_down s0 /\
  d_sched (y_d s) = d_sched (y_d s0) /\ d_active (y_d s) = d_active (y_d s0) /\ d_requeue (y_d s) = d_requeue (y_d s0).
Lemma VE_refl s : VE s s.
Proof. unfold VE. auto 10. Qed.
Lemma CrashCoupled_VE s0 s : VE s0 s -> CrashCoupled s0 -> CrashCoupled s.
Proof. intros (A1 & A2 & A3 & A4 & A5 & A6 & A7 & _). apply CrashCoupled_ext; assumption. Qed.

Section Sys.
Variable c : config.
Notation N := (c_numnodes c).
Notation X0 := (c_coll c).
Hypothesis Hmode : c_mode c = MLoad.
Hypothesis Hng : no_garbled c.
Hypothesis Hpos : 0 < N.

Record XInv (s : sys) : Prop := {
  x_lo : forall m, m < d_next_gw (y_d s) -> aget m (y_w s) <> None;
  x_hi : forall m, d_next_gw (y_d s) <= m ->
         aget m (y_w s) = None /\ alist_get [] m (y_up s) = [] /\ alist_get [] m (y_down s) = [];
  x_dj : exists ls, DJ' N X0 (y_d s) ls /\ forall n w, aget n (y_w s) = Some w -> NodeInv s ls n w;
  x_evq : Forall (ok_evx X0 (d_next_gw (y_d s))) (y_evq s);
  x_up : forall n, Forall (ok_upx X0 n) (alist_get [] n (y_up s));
  x_act : y_result s = None -> d_active (y_d s) <> [];
  x_res : forall e, y_result s <> Some (RError e);
  x_dead : forall n, In n (y_dead s) -> n < d_next_gw (y_d s);
}.

Lemma worker_lt s n w : XInv s -> aget n (y_w s) = Some w -> n < d_next_gw (y_d s).
Proof.
  intros X E. destruct (Nat.lt_ge_cases n (d_next_gw (y_d s))) as [H|H]; [exact H|].
  destruct (x_hi _ X n H) as (F & _). congruence.
Qed.

(* ---- the initial state ---- *)
Lemma aget_init_nt' n : aget n (init_nt c) <> None <-> n < N.
Proof.
  unfold init_nt. rewrite aget_In_keys, (akeys_map_seq (fun n => {| n_spec := c_spec c n; n_down := false; n_sdsent := false; n_closed := false |})).
  rewrite in_seq. lia.
Qed.

Lemma aget_init_nt_fresh n f : aget n (init_nt c) = Some f -> fresh_flags f.
Proof.
  unfold init_nt. induction (seq 0 N) as [|k l IH]; cbn; [discriminate|].
  destruct (Nat.eqb n k); [intros E; inv E; repeat split|exact IH].
Qed.

Lemma XInv_init : XInv (sys_init c).
Proof.
  assert (YW : forall n w, aget n (y_w (sys_init c)) = Some w -> n < N /\ w = w_init).
  { intros n w Ew. cbn [sys_init y_w] in Ew. pose proof (aget_some_in _ _ _ Ew) as Hk.
    rewrite (akeys_map_seq (fun _ => w_init)) in Hk. apply in_seq in Hk.
    apply aget_map_const in Ew. split; [lia|exact Ew]. }
  constructor.
  - cbn [sys_init y_d d_next_gw y_w]. intros m Hm. apply aget_In_keys.
    rewrite (akeys_map_seq (fun _ => w_init)). apply in_seq. lia.
  - cbn [sys_init y_d d_next_gw y_w y_up y_down]. intros m Hm. split; [|split; apply alist_get_map_nil].
    apply aget_none_keys. rewrite (akeys_map_seq (fun _ => w_init)). rewrite in_seq. lia.
  - cbn [sys_init y_d d_sched]. rewrite Hmode. cbn [s_init s_set_nt].
    eexists. split.
    + split; [|split; [|split]].
      * constructor; cbn [d_sched d_next_gw d_shouldstop d_shuttingdown d_active d_requeue d_failed_nodes d_max_restart].
        -- reflexivity.
        -- constructor; cbn [l_set_nt l_init l_numnodes l_nt l_nodes l_n2p l_n2c l_pending l_chunk l_coll akeys map].
           ++ reflexivity.
           ++ apply aget_init_nt'.
           ++ intros n [].
           ++ constructor.
           ++ intros n [].
           ++ constructor.
           ++ intros X F. discriminate.
           ++ intros F. exfalso. apply F. reflexivity.
           ++ intros k ids [].
           ++ intros X _ C0. exfalso.
              unfold l_collection_is_completed in C0. cbn [l_set_nt l_init l_numnodes l_n2c length] in C0.
              apply Nat.leb_le in C0. lia.
           ++ intros _. split; reflexivity.
           ++ intros coll Ec. discriminate.
        -- intros _ n [].
        -- cbn [l_set_nt l_init l_nt]. intros _ _ _ n f Ef. apply (aget_init_nt_fresh n f Ef).
        -- discriminate.
        -- intros _ _ _. left. exists 0. cbn [l_set_nt l_init l_nt].
           destruct (aget 0 (init_nt c)) as [f|] eqn:Ef.
           ++ exists f. split; [apply in_seq; lia|]. split; [reflexivity|apply (aget_init_nt_fresh 0 f Ef)].
           ++ exfalso. apply (proj2 (aget_init_nt' 0)); [lia|exact Ef].
        -- unfold exhausted. cbn [d_max_restart d_failed_nodes]. destruct (c_max_restart c); [|discriminate].
           rewrite andb_false_r. discriminate.
        -- exact Logic.I.
        -- intros n Hn. apply in_seq in Hn. lia.
        -- lia.
      * cbn. discriminate.
      * cbn. discriminate.
      * intros C0. exfalso. unfold l_collection_is_completed in C0. cbn [l_set_nt l_init l_numnodes l_n2c length] in C0.
        apply Nat.leb_le in C0. lia.
    + intros n w Ew. destruct (YW n w Ew) as (HnN & ->).
      assert (Esg : sigs (sys_init c) n = []).
      { unfold sigs. cbn [sys_init y_evq y_up]. rewrite alist_get_map_nil. reflexivity. }
      split; [apply winv_init|]. split; [constructor|]. split; [exact Logic.I|].
      cbn [sys_init y_dead mem_nat existsb].
      constructor; rewrite ?Esg; cbn [sys_init y_down y_up y_evq y_d d_active d_shouldstop]; rewrite ?alist_get_map_nil.
      * constructor; cbn [l_set_nt l_init l_nt l_nodes l_n2p l_n2c akeys map w_init wph prank].
        -- destruct (aget n (init_nt c)) as [f|] eqn:Ef.
           ++ exists f. split; [reflexivity|]. cbn. rewrite (proj1 (aget_init_nt_fresh n f Ef)). apply mark_ok_nil.
           ++ exfalso. apply (proj2 (aget_init_nt' n)); [lia|exact Ef].
        -- reflexivity.
        -- apply chan_ok_nil.
        -- intros [].
        -- intros [].
        -- intros F. exfalso. apply F. apply in_seq. lia.
        -- intros [[]|F]; discriminate.
        -- apply WX_init.
        -- intros [F|(b & F)]; discriminate.
      * constructor.
      * intros [].
      * apply no_errd_nil.
      * unfold closedb. cbn [l_set_nt l_init l_nt]. destruct (aget n (init_nt c)) as [f|] eqn:Ef; [|reflexivity].
        apply (aget_init_nt_fresh n f Ef).
      * cbn [l_set_nt l_init l_nt]. intros f Ef Hd. destruct (aget_init_nt_fresh n f Ef) as (_ & F & _). congruence.
  - constructor.
  - intros n. cbn [sys_init y_up]. rewrite alist_get_map_nil. constructor.
  - intros _. cbn [sys_init y_d d_active]. destruct N; [lia|]. cbn. discriminate.
  - intros e. cbn. discriminate.
  - intros n [].
Qed.

(* ---- a step that does not concern node n ---- *)
Lemma sigs_evq_ext s s' n evs :
  y_evq s' = y_evq s ++ evs -> evq_sigs n evs = [] ->
  alist_get [] n (y_up s') = alist_get [] n (y_up s) -> sigs s' n = sigs s n.
Proof. intros E1 E2 E3. unfold sigs. rewrite E1, E3, evq_sigs_app, E2, app_nil_r. reflexivity. Qed.

Lemma NodeInv_other s s' ls ls' n w evs :
  l_n2p ls' = l_n2p ls -> l_n2c ls' = l_n2c ls -> aget n (l_nt ls') = aget n (l_nt ls) ->
  d_active (y_d s') = d_active (y_d s) -> d_shouldstop (y_d s') = d_shouldstop (y_d s) ->
  y_evq s' = y_evq s ++ evs -> evq_sigs n evs = [] -> no_errd n evs ->
  mem_nat n (y_dead s') = mem_nat n (y_dead s) ->
  alist_get [] n (y_up s') = alist_get [] n (y_up s) ->
  alist_get [] n (y_down s') = alist_get [] n (y_down s) ->
  NodeInv s ls n w -> NodeInv s' ls' n w.
Proof.
  intros Ep Ec Ef Ea Ess Eq Esg Hne Edd Eu Edn (A & B & C & D).
  pose proof (sigs_evq_ext s s' n evs Eq Esg Eu) as Es.
  split; [exact A|]. split; [exact B|]. split; [exact C|]. rewrite Edd.
  destruct (mem_nat n (y_dead s)).
  - destruct D as [D1 D2 D3]. constructor; rewrite ?Es, ?Edn; auto.
    + eapply NDc_ext; eauto.
    + destruct D2 as [pre f X1 X2 X3 X4 X5 X6 X7|q1 q2 X1 X2 X3 X4 X5 X6 X7|X1 X2 X3 X4 X5].
      * eapply DS_wire; rewrite ?Eu, ?Eq, ?Ea, ?Es, ?Ef; eauto.
        -- apply no_errd_app. auto.
        -- eapply NDcpl_ext; eauto.
      * eapply (DS_queue _ _ _ _ q1 (q2 ++ evs)); rewrite ?Eu, ?Eq, ?Ea, ?Es; eauto.
        -- rewrite X2, <- app_assoc. reflexivity.
        -- rewrite evq_sigs_app, X3, Esg. reflexivity.
        -- apply no_errd_app. auto.
        -- eapply NDcpl_ext; eauto.
      * eapply DS_done; rewrite ?Eu, ?Eq, ?Ea; eauto.
        -- apply no_errd_app. auto.
        -- rewrite evq_sigs_app, X3, Esg. reflexivity.
        -- unfold l_nodes. rewrite Ep. exact X5.
  - destruct D as [D1 D2 D3 D4 D5 D6]. constructor; rewrite ?Es, ?Edn, ?Eu, ?Ea, ?Ess; auto.
    + eapply NI_flags_ext; [| | |exact D1]; auto. intros f Hf. exists f. rewrite Ef. auto.
    + rewrite Eq. apply no_errd_app. auto.
    + unfold closedb in *. rewrite Ef. exact D5.
    + rewrite Ef. exact D6.
Qed.

Lemma alist_get_aset_other {V} (dflt : V) k n v m : n <> k -> alist_get dflt n (aset k v m) = alist_get dflt n m.
Proof. intros H. apply alist_get_aset_neq. exact H. Qed.

(* ---- LDeliver ---- *)
Lemma step_deliver s n0 cmd rest w0 :
  XInv s -> mem_nat n0 (y_dead s) = false ->
  aget n0 (y_down s) = Some (cmd :: rest) -> aget n0 (y_w s) = Some w0 ->
  XInv {| y_d := y_d s; y_evq := y_evq s; y_down := aset n0 rest (y_down s); y_up := y_up s;
          y_w := aset n0 (deliver w0 cmd) (y_w s); y_dead := y_dead s; y_result := y_result s |}.
Proof.
  intros X Hd Ed Ew. pose proof X as [Lo Hi (ls & DJd & NIs) Eq Eu Ea Er Edead].
  pose proof (worker_lt s n0 w0 X Ew) as HnG.
  set (s' := {| y_d := y_d s; y_evq := y_evq s; y_down := aset n0 rest (y_down s); y_up := y_up s;
          y_w := aset n0 (deliver w0 cmd) (y_w s); y_dead := y_dead s; y_result := y_result s |}).
  constructor; unfold s'; cbn [y_d y_evq y_down y_up y_w y_dead y_result].
  - intros m Hm. rewrite LoadProofs.aget_aset. destruct (Nat.eqb m n0); [discriminate|apply Lo; exact Hm].
  - intros m Hm. destruct (Hi m Hm) as (A & B & C). assert (m <> n0) by lia.
    rewrite aget_aset_neq, alist_get_aset_neq by assumption. auto.
  - exists ls. split; [exact DJd|]. intros n w Hw. destruct (Nat.eq_dec n n0) as [->|Hn].
    + rewrite aget_aset_eq in Hw. inv Hw. destruct (NIs n0 w0 Ew) as (A & B & C & D). rewrite Hd in D.
      destruct D as [D1 D2 D3 D4 D5 D6]. rewrite (alist_get_some [] _ _ _ Ed) in D1, D2.
      inversion D2 as [|c1 r1 Gc Gr]; subst.
      destruct (deliver_owed w0 cmd) as (_ & _ & Ep & _).
      split; [apply upd_recv_inv; exact A|]. split; [apply deliver_good; assumption|].
      split; [eapply nogarb_ph; [exact Ep|exact C]|]. cbn [y_dead]. rewrite Hd.
      constructor; cbn [y_d y_evq y_down y_up]; rewrite ?alist_get_aset_eq; auto.
      all: try (rewrite Ep; exact D6).
      apply NI_deliver. exact D1.
    + rewrite aget_aset_neq in Hw by exact Hn.
      apply (NodeInv_other s s' ls ls n w []); auto.
      * cbn. rewrite app_nil_r. reflexivity.
      * apply no_errd_nil.
      * cbn [s' y_down]. apply alist_get_aset_neq. exact Hn.
  - exact Eq.
  - exact Eu.
  - exact Ea.
  - exact Er.
  - exact Edead.
Qed.

(* ---- a worker step that pushes events onto its wire ---- *)
Lemma up_of_wevent_not_end n e : up_of_wevent c n e <> UEnd.
Proof. destruct e; cbn; try discriminate. destruct oc; discriminate. Qed.

Lemma step_push s n0 w0 w' evs :
  XInv s -> mem_nat n0 (y_dead s) = false -> aget n0 (y_w s) = Some w0 ->
  WInv w' -> Forall good_cmd (winbox w') -> nogarb w' ->
  Forall (fun e => is_garbled e = false) evs -> Forall ok_wev evs ->
  (forall ls, NI ls (d_active (y_d s)) (d_shouldstop (y_d s)) n0 (sigs s n0) (alist_get [] n0 (y_down s)) w0 ->
     NI ls (d_active (y_d s)) (d_shouldstop (y_d s)) n0 (sigs s n0 ++ flat_map we_sig evs) (alist_get [] n0 (y_down s)) w') ->
  (wph w0 = PExited -> wph w' = PExited /\ flat_map we_sig evs = []) ->
  XInv (push_up (set_w s n0 w') n0 (map (up_of_wevent c n0) evs)).
Proof.
  intros X Hd Ew Iw Gw NGw NGe Hok Hni Hex. pose proof X as [Lo Hi (ls & DJd & NIs) Eq Eu Ea Er Edead].
  pose proof (worker_lt s n0 w0 X Ew) as HnG.
  set (s' := push_up (set_w s n0 w') n0 (map (up_of_wevent c n0) evs)).
  assert (Sg : sigs s' n0 = sigs s n0 ++ flat_map we_sig evs).
  { unfold sigs, s'. cbn [push_up set_w y_evq y_up]. rewrite alist_get_aset_eq, flat_map_app, up_sigs_of_wevents, app_assoc. reflexivity. }
  constructor; unfold s'; cbn [push_up set_w y_d y_evq y_down y_up y_w y_dead y_result].
  - intros m Hm. rewrite LoadProofs.aget_aset. destruct (Nat.eqb m n0); [discriminate|apply Lo; exact Hm].
  - intros m Hm. destruct (Hi m Hm) as (A & B & C). assert (m <> n0) by lia.
    rewrite aget_aset_neq, alist_get_aset_neq by assumption. auto.
  - exists ls. split; [exact DJd|]. intros n w Hw. destruct (Nat.eq_dec n n0) as [->|Hn].
    + rewrite aget_aset_eq in Hw. inv Hw. destruct (NIs n0 w0 Ew) as (A & B & C & D). rewrite Hd in D.
      destruct D as [D1 D2 D3 D4 D5 D6].
      split; [exact Iw|]. split; [exact Gw|]. split; [exact NGw|]. cbn [push_up set_w y_dead]. rewrite Hd.
      constructor; fold s'; rewrite ?Sg; cbn [s' push_up set_w y_d y_evq y_down y_up]; rewrite ?alist_get_aset_eq; auto.
      * intros Hin. apply in_app_or in Hin. destruct Hin as [Hin|Hin]; [exact (D3 Hin)|].
        apply in_map_iff in Hin. destruct Hin as (e & He & _). exact (up_of_wevent_not_end n0 e He).
      * intros f Ef Hdn. destruct (D6 f Ef Hdn) as (X1 & X2). destruct (Hex X2) as (Y1 & Y2).
        split; [|exact Y1]. rewrite flat_map_app, up_sigs_of_wevents, X1, Y2. reflexivity.
    + rewrite aget_aset_neq in Hw by exact Hn.
      apply (NodeInv_other s s' ls ls n w []); auto.
      * cbn. rewrite app_nil_r. reflexivity.
      * apply no_errd_nil.
      * cbn [s' push_up set_w y_up]. apply alist_get_aset_neq. exact Hn.
  - exact Eq.
  - intros n. destruct (Nat.eq_dec n n0) as [->|Hn].
    + rewrite alist_get_aset_eq. apply Forall_app. split; [apply Eu|].
      apply Forall_forall. intros m Hm. apply in_map_iff in Hm. destruct Hm as (e & <- & He).
      rewrite Forall_forall in Hok, NGe. specialize (Hok e He). specialize (NGe e He).
      destruct e; cbn; auto. destruct oc; cbn; auto. discriminate.
    + rewrite alist_get_aset_neq by exact Hn. apply Eu.
  - exact Ea.
  - exact Er.
  - exact Edead.
Qed.

(* ---- a worker process dies (LCrash, or entering a test that kills it) ---- *)
Definition closed_flag (f : nctl) : nctl :=
  {| n_spec := n_spec f; n_down := n_down f; n_sdsent := n_sdsent f; n_closed := true |}.

Lemma mem_nat_cons n n0 l : mem_nat n (n0 :: l) = Nat.eqb n n0 || mem_nat n l.
Proof. reflexivity. Qed.

Lemma step_crash s n0 w0 :
  XInv s -> mem_nat n0 (y_dead s) = false -> aget n0 (y_w s) = Some w0 -> wph w0 <> PExited ->
  XInv (crash_worker c s n0).
Proof.
  intros X Hd Ew Hph. pose proof X as [Lo Hi (ls & DJd & NIs) Eq Eu Ea Er Edead].
  pose proof (worker_lt s n0 w0 X Ew) as HnG.
  pose proof DJd as ([Els J _ _ _ _ _ _ _ _] & _).
  destruct (aget n0 (l_nt ls)) as [f0|] eqn:Ef0; [|exfalso; apply (proj2 (lj_ntk' _ _ _ _ J n0) HnG); exact Ef0].
  set (s' := crash_worker c s n0).
  assert (DX : exists ls' f0', DJ' N X0 (y_d s') ls' /\ l_n2p ls' = l_n2p ls /\ l_n2c ls' = l_n2c ls /\
             (forall n, n <> n0 -> aget n (l_nt ls') = aget n (l_nt ls)) /\
             aget n0 (l_nt ls') = Some f0' /\ n_down f0' = n_down f0 /\ n_sdsent f0' = n_sdsent f0 /\
             d_active (y_d s') = d_active (y_d s) /\ d_shouldstop (y_d s') = d_shouldstop (y_d s) /\
             d_next_gw (y_d s') = d_next_gw (y_d s)).
  { unfold s', crash_worker. cbn [y_d]. destruct (c_strict c).
    - assert (Ent : d_nt (y_d s) = l_nt ls) by (unfold d_nt; rewrite Els; reflexivity).
      rewrite Ent, Ef0. exists (upd_flag ls n0 (closed_flag f0)), (closed_flag f0).
      split. { rewrite <- Ent. fold (closed_flag f0). apply (DJ'_flag N X0 _ ls n0 f0); auto. }
      split; [reflexivity|]. split; [reflexivity|].
      split. { intros n Hn. rewrite aget_upd_flag. apply Nat.eqb_neq in Hn. rewrite Hn. reflexivity. }
      split. { rewrite aget_upd_flag, Nat.eqb_refl. reflexivity. }
      split; [reflexivity|]. split; [reflexivity|]. split; [reflexivity|]. split; reflexivity.
    - exists ls, f0. split; [exact DJd|]. repeat (split; [reflexivity|]). 
      split; [exact Ef0|]. repeat (split; [reflexivity|]). reflexivity. }
  destruct DX as (ls' & f0' & DJ2 & Ep & Ec & Eoth & Ef0' & Edn0 & Esd0 & Eact & Ess & Egw).
  destruct (NIs n0 w0 Ew) as (A0 & B0 & C0 & D0). rewrite Hd in D0. destruct D0 as [D1 D2 D3 D4 D5 D6].
  assert (Sg0 : sigs s' n0 = sigs s n0).
  { unfold sigs, s', crash_worker. cbn [y_evq y_up]. rewrite alist_get_aset_eq, flat_map_app. cbn. rewrite app_nil_r. reflexivity. }
  constructor; rewrite ?Egw.
  - intros m Hm. unfold s', crash_worker. cbn [y_w]. apply Lo. exact Hm.
  - intros m Hm. destruct (Hi m Hm) as (A & B & C). assert (m <> n0) by lia.
    unfold s', crash_worker. cbn [y_w y_up y_down]. rewrite !alist_get_aset_neq by assumption. auto.
  - exists ls'. split; [exact DJ2|]. intros n w Hw. change (y_w s') with (y_w s) in Hw.
    destruct (Nat.eq_dec n n0) as [->|Hn].
    + assert (w = w0) by congruence. subst w.
      split; [exact A0|]. split; [exact B0|]. split; [exact C0|].
      change (y_dead s') with (n0 :: y_dead s). rewrite mem_nat_cons, Nat.eqb_refl. cbn [orb].
      constructor; rewrite ?Sg0.
      * eapply NDc_ext; [exact Ep|exact Ec|]. eapply NDc_of_NI; eauto.
      * eapply (DS_wire _ _ _ _ (alist_get [] n0 (y_up s)) f0'); rewrite ?Sg0, ?Eact.
        -- unfold s', crash_worker. cbn [y_up]. apply alist_get_aset_eq.
        -- exact D3.
        -- exact Ef0'.
        -- rewrite Edn0. apply not_true_false. intros F. destruct (D6 f0 Ef0 F) as (_ & P). contradiction.
        -- exact D4.
        -- destruct (in_dec Nat.eq_dec n0 (d_active (y_d s))) as [Hin|Hni]; [exact Hin|].
           destruct (ni_act _ _ _ _ _ _ _ D1 Hni) as (_ & P). contradiction.
        -- eapply NDcpl_ext; [exact Ep|]. eapply NDcpl_of_NI; eauto.
      * unfold s', crash_worker. cbn [y_down]. apply alist_get_aset_eq.
    + apply (NodeInv_other s s' ls ls' n w []); auto; try apply no_errd_nil.
      * unfold s', crash_worker. cbn [y_evq]. rewrite app_nil_r. reflexivity.
      * change (y_dead s') with (n0 :: y_dead s). rewrite mem_nat_cons. apply Nat.eqb_neq in Hn. rewrite Hn. reflexivity.
      * unfold s', crash_worker. cbn [y_up]. apply alist_get_aset_neq. exact Hn.
      * unfold s', crash_worker. cbn [y_down]. apply alist_get_aset_neq. exact Hn.
  - exact Eq.
  - intros n. unfold s', crash_worker. cbn [y_up]. destruct (Nat.eq_dec n n0) as [->|Hn].
    + rewrite alist_get_aset_eq. apply Forall_app. split; [apply Eu|]. repeat constructor.
    + rewrite alist_get_aset_neq by exact Hn. apply Eu.
  - rewrite Eact. exact Ea.
  - exact Er.
  - intros n [<-|Hn]; [exact HnG|apply Edead; exact Hn].
Qed.

(* ---- the channel of a dead worker is closed once its end marker has been read ---- *)
Lemma close_if_dead_XInv s n : XInv s -> XInv (close_if_dead s n).
Proof.
  intros X. unfold close_if_dead. destruct (mem_nat n (y_dead s)) eqn:Hd; [|exact X].
  destruct (aget n (d_nt (y_d s))) as [f|] eqn:Ef; [|exact X].
  destruct (n_down f) eqn:Edn; [|exact X].
  pose proof X as [Lo Hi (ls & DJd & NIs) Eq Eu Ea Er Edead].
  pose proof DJd as ([Els J _ _ _ _ _ _ _ _] & _).
  assert (Ent : d_nt (y_d s) = l_nt ls) by (unfold d_nt; rewrite Els; reflexivity).
  set (fc := {| n_spec := n_spec f; n_down := true; n_sdsent := n_sdsent f; n_closed := true |}).
  set (s' := set_d s (d_set_nt (y_d s) (aset n fc (d_nt (y_d s))))).
  assert (Ef' : aget n (l_nt ls) = Some f) by (rewrite <- Ent; exact Ef).
  constructor.
  - exact Lo.
  - exact Hi.
  - exists (upd_flag ls n fc). split; [apply (DJ'_flag N X0 _ ls n f); auto|].
    intros k w Hw. change (y_w s') with (y_w s) in Hw. destruct (Nat.eq_dec k n) as [->|Hk].
    + destruct (NIs n w Hw) as (A & B & C & D). split; [exact A|]. split; [exact B|]. split; [exact C|].
      change (y_dead s') with (y_dead s). rewrite Hd in *. destruct D as [D1 D2 D3].
      constructor.
      * change (sigs s' n) with (sigs s n). eapply NDc_ext; [| |exact D1]; reflexivity.
      * destruct D2 as [pre g X1 X2 X3 X4 X5 X6 X7|q1 q2 X1 X2 X3 X4 X5 X6 X7|X1 X2 X3 X4 X5].
        -- exfalso. congruence.
        -- eapply (DS_queue _ _ _ _ q1 q2); eauto.
        -- eapply DS_done; eauto.
      * exact D3.
    + apply (NodeInv_other s s' ls (upd_flag ls n fc) k w []); auto; try apply no_errd_nil.
      * rewrite aget_upd_flag. apply Nat.eqb_neq in Hk. rewrite Hk. reflexivity.
      * cbn. rewrite app_nil_r. reflexivity.
  - exact Eq.
  - exact Eu.
  - exact Ea.
  - exact Er.
  - exact Edead.
Qed.

(* ---- LRecv: the controller's receiver thread reads one message ---- *)
Lemma step_recv s n0 m rest d' outs r :
  XInv s -> aget n0 (y_up s) = Some (m :: rest) ->
  process_from_remote n0 m (y_d s) = (d', outs, r) ->
  outs = [] /\ exists evs, r = Ok evs /\
  XInv (set_evq (set_d {| y_d := y_d s; y_evq := y_evq s; y_down := y_down s; y_up := aset n0 rest (y_up s);
                          y_w := y_w s; y_dead := y_dead s; y_result := y_result s |} d') (y_evq s ++ evs)) /\
  dview_same (y_d s) d' /\
  (forall k, evq_sigs k (y_evq s ++ evs) ++ flat_map up_sig (alist_get [] k (aset n0 rest (y_up s))) = sigs s k).
Proof.
  intros X Eup Ep. pose proof X as [Lo Hi (ls & DJd & NIs) Eq Eu Ea Er Edead].
  pose proof DJd as ([Els J _ _ _ _ _ _ _ _] & _).
  pose proof (alist_get_some [] _ _ _ Eup) as Eup'.
  assert (HnG : n0 < d_next_gw (y_d s)).
  { destruct (Nat.lt_ge_cases n0 (d_next_gw (y_d s))) as [H|H]; [exact H|].
    destruct (Hi n0 H) as (_ & F & _). rewrite Eup' in F. discriminate. }
  destruct (aget n0 (y_w s)) as [w0|] eqn:Ew; [|exfalso; exact (Lo n0 HnG Ew)].
  destruct (aget n0 (l_nt ls)) as [f|] eqn:Ef; [|exfalso; apply (proj2 (lj_ntk' _ _ _ _ J n0) HnG); exact Ef].
  destruct (NIs n0 w0 Ew) as (A0 & B0 & C0 & D0).
  pose proof (Eu n0) as En. rewrite Eup' in En. inversion En as [|m1 r1 Gm Gr]; subst.
  assert (Hdn : n_down f = true -> up_sig m = [] /\ m <> UEnd).
  { intros Hd1. destruct (mem_nat n0 (y_dead s)).
    - destruct D0 as [_ D2 _]. destruct D2 as [pre g X1 X2 X3 X4 X5 X6 X7|q1 q2 X1 _ _ _ _ _ _|X1 _ _ _ _]; try congruence.
    - destruct D0 as [_ _ D3 _ _ D6]. destruct (D6 f Ef Hd1) as (Y1 & _). rewrite Eup' in Y1, D3.
      cbn [flat_map] in Y1. apply app_eq_nil in Y1. split; [tauto|]. intros ->. apply D3. left. reflexivity. }
  destruct (pfr_eff' X0 _ _ _ _ _ _ _ _ _ Els Ef Gm HnG Hdn Ep) as (-> & evs & -> & Hd' & Hsig & Hok & Hend & Hnoend).
  split; [reflexivity|]. exists evs. split; [reflexivity|].
  set (s' := set_evq (set_d {| y_d := y_d s; y_evq := y_evq s; y_down := y_down s; y_up := aset n0 rest (y_up s);
                          y_w := y_w s; y_dead := y_dead s; y_result := y_result s |} d') (y_evq s ++ evs)).
  assert (Ent : d_nt (y_d s) = l_nt ls) by (unfold d_nt; rewrite Els; reflexivity).
  assert (DX : exists lsA fA, DJ' N X0 d' lsA /\ l_n2p lsA = l_n2p ls /\ l_n2c lsA = l_n2c ls /\
             (forall k, k <> n0 -> aget k (l_nt lsA) = aget k (l_nt ls)) /\
             aget n0 (l_nt lsA) = Some fA /\ n_sdsent fA = n_sdsent f /\ n_closed fA = n_closed f /\
             (n_down fA = true -> n_down f = true \/ m = UEnd \/ exists b, m = UEv (EFinished b)) /\
             (n_down f = true -> n_down fA = true) /\
             d_active d' = d_active (y_d s) /\ d_shouldstop d' = d_shouldstop (y_d s) /\
             d_next_gw d' = d_next_gw (y_d s) /\ (d' = y_d s -> fA = f)).
  { destruct Hd' as [->|(-> & Hf & Hm)].
    - exists ls, f. split; [exact DJd|]. repeat (split; [reflexivity|]).
      split; [exact Ef|]. repeat (split; [reflexivity|]). split; [auto|]. split; [auto|]. repeat (split; [reflexivity|]). reflexivity.
    - exists (upd_flag ls n0 (down_flag' f)), (down_flag' f).
      split; [apply (DJ'_flag N X0 _ ls n0 f); auto|]. split; [reflexivity|]. split; [reflexivity|].
      split. { intros k Hk. rewrite aget_upd_flag. apply Nat.eqb_neq in Hk. rewrite Hk. reflexivity. }
      split. { rewrite aget_upd_flag, Nat.eqb_refl. reflexivity. }
      split; [reflexivity|]. split; [reflexivity|]. split; [intros _; right; exact Hm|]. split; [reflexivity|].
      split; [reflexivity|]. split; [reflexivity|]. split; [reflexivity|].
      intros F. exfalso.
      assert (Xq : aget n0 (d_nt (d_set_nt (y_d s) (aset n0 (down_flag' f) (d_nt (y_d s))))) = Some (down_flag' f)).
      { rewrite d_nt_set. apply aget_aset_eq. }
      rewrite F, Ent, Ef in Xq. injection Xq as Xq. apply (f_equal n_down) in Xq. cbn in Xq. congruence. }
  destruct DX as (lsA & fA & DJA & EpA & EcA & Eoth & EfA & EsdA & EclA & EdnA & EdnA' & Eact & Ess & Egw & Esame).
  assert (Esg : sigs s' n0 = sigs s n0).
  { unfold sigs, s'. cbn [set_evq set_d y_evq y_up]. rewrite alist_get_aset_eq, evq_sigs_app, Hsig, Nat.eqb_refl, Eup'.
    cbn [flat_map]. rewrite <- app_assoc. reflexivity. }
  assert (NE : forall k, k <> n0 -> no_errd k evs).
  { intros k Hk. destruct m; try (apply Hnoend; discriminate).
    destruct (n_down f) eqn:Edn; [destruct (Hdn eq_refl) as (_ & F); exfalso; apply F; reflexivity|].
    destruct (Hend eq_refl eq_refl) as (-> & _). intros ev [<-|[]]. cbn. apply Nat.eqb_neq. congruence. }
  assert (DV : dview_same (y_d s) d').
  { destruct Hd' as [->|(-> & _)]; [apply dview_refl|apply dview_set_nt]. }
  assert (SGS : forall k, evq_sigs k (y_evq s ++ evs) ++ flat_map up_sig (alist_get [] k (aset n0 rest (y_up s))) = sigs s k).
  { intros k. destruct (Nat.eq_dec k n0) as [->|Hk]; [exact Esg|].
    unfold sigs. rewrite evq_sigs_app, Hsig. apply Nat.eqb_neq in Hk. rewrite Nat.eqb_sym, Hk, app_nil_r.
    apply Nat.eqb_neq in Hk. rewrite alist_get_aset_neq by exact Hk. reflexivity. }
  split; [|split; [exact DV|exact SGS]].
  constructor; unfold s'; cbn [set_evq set_d y_d y_evq y_down y_up y_w y_dead y_result]; rewrite ?Egw.
  - exact Lo.
  - intros k Hk. destruct (Hi k Hk) as (A & B & C). assert (k <> n0) by lia.
    rewrite alist_get_aset_neq by assumption. auto.
  - exists lsA. split; [exact DJA|]. intros k w Hw. destruct (Nat.eq_dec k n0) as [->|Hk].
    + assert (w = w0) by congruence. subst w.
      split; [exact A0|]. split; [exact B0|]. split; [exact C0|]. cbn [set_evq set_d y_dead].
      destruct (mem_nat n0 (y_dead s)) eqn:Hdd; rewrite ?Hdd in D0.
      * (* a dead worker: its last messages, then its end marker *)
        destruct D0 as [D1 D2 D3]. constructor; fold s'; rewrite ?Esg.
        -- eapply NDc_ext; [exact EpA|exact EcA|exact D1].
        -- destruct D2 as [pre g X1 X2 X3 X4 X5 X6 X7|q1 q2 X1 _ _ _ _ _ _|X1 _ _ _ _]; try congruence.
           assert (g = f) by congruence. subst g. rewrite Eup' in X1.
           destruct pre as [|m' pre'].
           ++ cbn [app] in X1. inv X1. destruct (Hend eq_refl X4) as (-> & _).
              eapply (DS_queue _ _ _ _ (y_evq s) []); rewrite ?Esg.
              ** unfold s'. cbn [set_evq set_d y_up]. apply alist_get_aset_eq.
              ** reflexivity.
              ** reflexivity.
              ** exact X5.
              ** apply no_errd_nil.
              ** unfold s'. cbn [set_evq set_d y_d]. rewrite Eact. exact X6.
              ** eapply NDcpl_ext; [exact EpA|exact X7].
           ++ cbn [app] in X1. inv X1.
              assert (Hne : m' <> UEnd) by (intros ->; apply X2; left; reflexivity).
              assert (Edd : d' = y_d s).
              { destruct Hd' as [E|(_ & _ & [E|(b & E)])]; [exact E|contradiction|]. subst m'. exfalso.
                apply (NDc_nofin _ _ _ _ b D1). unfold sigs. rewrite Eup'. apply in_or_app. right. cbn. left. reflexivity. }
              rewrite (Esame Edd) in EfA.
              eapply (DS_wire _ _ _ _ pre' f); rewrite ?Esg.
              ** unfold s'. cbn [set_evq set_d y_up]. apply alist_get_aset_eq.
              ** intros F. apply X2. right. exact F.
              ** exact EfA.
              ** exact X4.
              ** unfold s'. cbn [set_evq set_d y_evq]. apply no_errd_app. split; [exact X5|apply Hnoend; exact Hne].
              ** unfold s'. cbn [set_evq set_d y_d]. rewrite Eact. exact X6.
              ** eapply NDcpl_ext; [exact EpA|exact X7].
        -- exact D3.
      * (* an alive worker *)
        destruct D0 as [D1 D2 D3 D4 D5 D6]. rewrite Eup' in D3.
        assert (Hne : m <> UEnd) by (intros ->; apply D3; left; reflexivity).
        constructor; fold s'; rewrite ?Esg; unfold s'; cbn [set_evq set_d y_d y_evq y_down y_up]; rewrite ?Eact, ?Ess, ?alist_get_aset_eq.
        -- eapply NI_flags_ext; [| | |exact D1]; auto. intros g Eg. assert (g = f) by congruence. subst g. exists fA. auto.
        -- exact D2.
        -- intros F. apply D3. right. exact F.
        -- apply no_errd_app. split; [exact D4|apply Hnoend; exact Hne].
        -- unfold closedb in *. rewrite EfA, EclA. rewrite Ef in D5. exact D5.
        -- intros g Eg Hg. assert (g = fA) by congruence. subst g.
           destruct (EdnA Hg) as [Hd0|[F|(b & ->)]]; [|contradiction|].
           ++ destruct (D6 f Ef Hd0) as (Y1 & Y2). rewrite Eup' in Y1. cbn [flat_map] in Y1. apply app_eq_nil in Y1. tauto.
           ++ pose proof (ni_chan _ _ _ _ _ _ _ D1) as Ch. unfold sigs in Ch.
              rewrite Eup' in Ch. cbn [flat_map up_sig we_sig app] in Ch.
              destruct (chan_ok_fin_mid _ _ _ _ Ch) as (Y1 & Y2). split; [exact Y1|apply prank_4; exact Y2].
    + apply (NodeInv_other s s' ls lsA k w evs); auto.
      * specialize (Hsig k). apply Nat.eqb_neq in Hk. rewrite Nat.eqb_sym, Hk in Hsig. exact Hsig.
      * unfold s'. cbn [set_evq set_d y_up]. apply alist_get_aset_neq. exact Hk.
  - apply Forall_app. split; [exact Eq|exact Hok].
  - intros k. destruct (Nat.eq_dec k n0) as [->|Hk].
    + rewrite alist_get_aset_eq. exact Gr.
    + rewrite alist_get_aset_neq by exact Hk. apply Eu.
  - rewrite Eact. exact Ea.
  - exact Er.
  - exact Edead.
Qed.

(* ---- the preconditions of the handlers follow from the invariant ---- *)
Lemma sigs_head' s ev q n :
  y_evq s = ev :: q -> sigs s n = ev_sigs_for n ev ++ (evq_sigs n q ++ flat_map up_sig (alist_get [] n (y_up s))).
Proof. intros E. unfold sigs. rewrite E. cbn [evq_sigs flat_map]. rewrite <- app_assoc. reflexivity. Qed.

Lemma evq_sigs_cons n ev q : evq_sigs n (ev :: q) = ev_sigs_for n ev ++ evq_sigs n q.
Proof. reflexivity. Qed.

Lemma bk_cons' ls n i rest : bk ls n = i :: rest -> aget n (l_n2p ls) = Some (i :: rest).
Proof. unfold bk, alist_get. destruct (aget n (l_n2p ls)); intros E; [congruence|discriminate]. Qed.

(* what the node whose signal heads the queue looks like *)
Lemma head_node s ls ev q n g :
  XInv s -> (forall n w, aget n (y_w s) = Some w -> NodeInv s ls n w) ->
  y_evq s = ev :: q -> ev_sig ev = Some (n, g) ->
  exists w L, aget n (y_w s) = Some w /\ sigs s n = g :: L /\ In n (d_active (y_d s)) /\
    ((mem_nat n (y_dead s) = false /\
      NI ls (d_active (y_d s)) (d_shouldstop (y_d s)) n (g :: L) (alist_get [] n (y_down s)) w) \/
     (mem_nat n (y_dead s) = true /\ NDc ls n (g :: L) w /\ NDcpl ls n (g :: L) w)).
Proof.
  intros X NIs Eq Eg. pose proof X as [Lo Hi _ Eok _ _ _ _].
  assert (HnG : n < d_next_gw (y_d s)).
  { rewrite Eq in Eok. inversion Eok as [|e1 q1 (_ & Hn) _]; subst. destruct ev; cbn in Eg; inv Eg; exact Hn. }
  destruct (aget n (y_w s)) as [w|] eqn:Ew; [|exfalso; exact (Lo n HnG Ew)].
  pose proof (sigs_head' s ev q n Eq) as Es. unfold ev_sigs_for in Es. rewrite Eg, Nat.eqb_refl in Es. cbn [app] in Es.
  exists w. eexists. split; [reflexivity|]. split; [exact Es|].
  destruct (NIs n w Ew) as (_ & _ & _ & D). destruct (mem_nat n (y_dead s)).
  - destruct D as [D1 D2 D3]. rewrite Es in D1.
    destruct D2 as [pre f X1 X2 X3 X4 X5 X6 X7|q1 q2 X1 X2 X3 X4 X5 X6 X7|X1 X2 X3 X4 X5].
    + split; [exact X6|]. right. rewrite Es in X7. auto.
    + split; [exact X6|]. right. rewrite Es in X7. auto.
    + exfalso. rewrite Eq, evq_sigs_cons in X3. unfold ev_sigs_for in X3. rewrite Eg, Nat.eqb_refl in X3. discriminate.
  - destruct D as [D1 _ _ _ _ _]. rewrite Es in D1. split.
    + destruct (in_dec Nat.eq_dec n (d_active (y_d s))) as [Hin|Hni]; [exact Hin|].
      destruct (ni_act _ _ _ _ _ _ _ D1 Hni) as (F & _). discriminate.
    + left. auto.
Qed.

Lemma pre_from_inv' s ls ev q :
  XInv s -> DJ' N X0 (y_d s) ls -> (forall n w, aget n (y_w s) = Some w -> NodeInv s ls n w) ->
  y_evq s = ev :: q -> PRE' X0 ev (y_d s) ls.
Proof.
  intros X DJd NIs Eq. pose proof X as [Lo Hi _ Eok _ _ _ _].
  assert (Hok : ok_evx X0 (d_next_gw (y_d s)) ev) by (rewrite Eq in Eok; inversion Eok; assumption).
  destruct Hok as (Hok3 & Hnode).
  destruct ev as [n|n ids|n key fl|n i|n i|n i k oc|n i ms|n ixs| |n|n sk|n]; cbn [PRE']; cbn in Hok3, Hnode; try contradiction; auto.
  - (* ready *)
    destruct (head_node s ls _ q n SgReady X NIs Eq eq_refl) as (w & L & Ew & Es & Hact & HH). split; [exact Hnode|].
    intros _. split; [|exact Hact]. intros Hin.
    destruct HH as [(_ & D1)|(_ & D1 & _)].
    + destruct (ni_nodes _ _ _ _ _ _ _ D1 Hin) as (F & _). apply F. left. reflexivity.
    + destruct (nd_nodes _ _ _ _ D1 Hin) as (F & _). apply F. left. reflexivity.
  - (* collectionfinish *)
    destruct (head_node s ls _ q n SgCF X NIs Eq eq_refl) as (w & L & Ew & Es & Hact & HH). split; [exact Hnode|].
    split; [|exact Hok3]. intros Hin.
    destruct HH as [(_ & D1)|(_ & D1 & _)].
    + destruct (ni_n2c _ _ _ _ _ _ _ D1 Hin) as (F & _). apply F. left. reflexivity.
    + destruct (nd_n2c _ _ _ _ D1 Hin) as (F & _). apply F. left. reflexivity.
  - (* complete *)
    destruct (head_node s ls _ q n (SgComp i) X NIs Eq eq_refl) as (w & L & Ew & Es & Hact & HH).
    destruct HH as [(_ & D1)|(_ & _ & (lost & Cp))].
    + pose proof (ni_coupled _ _ _ _ _ _ _ D1) as Cp. cbn [completes flat_map app] in Cp. eexists. apply bk_cons'. exact Cp.
    + cbn [completes flat_map app] in Cp. eexists. apply bk_cons'. exact Cp.
  - (* finished *)
    assert (FIN : forall b, ev_sig (QFinished n sk) = Some (n, SgFin b) ->
              In n (d_active (y_d s)) /\ exists w L, NI ls (d_active (y_d s)) (d_shouldstop (y_d s)) n (SgFin b :: L) (alist_get [] n (y_down s)) w).
    { intros b Eg. destruct (head_node s ls _ q n (SgFin b) X NIs Eq Eg) as (w & L & Ew & Es & Hact & HH).
      split; [exact Hact|]. destruct HH as [(_ & D1)|(_ & D1 & _)]; [eauto|].
      exfalso. apply (NDc_nofin _ _ _ _ b D1). left. reflexivity. }
    destruct sk; try contradiction.
    + destruct (FIN false eq_refl) as (Hact & w & L & D1).
      destruct (NI_finished_empty _ _ _ _ _ _ _ D1) as (Eb & Hf).
      split; [exact Hact|]. split; [|exact Hf].
      intros Hin. apply aget_In_keys in Hin. unfold bk, alist_get in Eb.
      destruct (aget n (l_n2p ls)) as [b|]; [congruence|contradiction].
    + destruct (FIN true eq_refl) as (Hact & _). exact Hact.
  - (* errordown: the node is dead and its end marker has been read *)
    destruct (aget n (y_w s)) as [w|] eqn:Ew; [|exfalso; exact (Lo n Hnode Ew)].
    destruct (NIs n w Ew) as (_ & _ & _ & D).
    assert (HIN : In (QErrorDown n) (y_evq s)) by (rewrite Eq; left; reflexivity).
    assert (ERR : is_errd n (QErrorDown n) = true) by (cbn; apply Nat.eqb_refl).
    destruct (mem_nat n (y_dead s)).
    + destruct D as [_ D2 _]. destruct D2 as [pre f X1 X2 X3 X4 X5 X6 X7|q1 q2 X1 X2 X3 X4 X5 X6 X7|X1 X2 X3 X4 X5].
      * rewrite (X5 _ HIN) in ERR. discriminate.
      * exact X6.
      * rewrite (X2 _ HIN) in ERR. discriminate.
    + destruct D as [_ _ _ D4 _ _]. rewrite (D4 _ HIN) in ERR. discriminate.
Qed.

(* ---- LCtl: one iteration of the controller's main loop ---- *)
Lemma apply_outs_w_none outs s m :
  (forall sp, ~ In (OHook (HSpawn m sp)) outs) -> aget m (y_w (apply_outs s outs)) = aget m (y_w s).
Proof.
  intros H. destruct (apply_outs_w outs s m) as [A|((sp & A) & _)]; [exact A|]. exfalso. exact (H sp A).
Qed.

Lemma apply_outs_spawned outs : forall s q,
  (aget q (y_w s) = Some w_init \/ exists sp, In (OHook (HSpawn q sp)) outs) ->
  aget q (y_w (apply_outs s outs)) = Some w_init.
Proof.
  induction outs as [|x outs IH]; intros s q H.
  - destruct H as [H|(sp & [])]. exact H.
  - assert (KEEP : forall s1, y_w s1 = y_w s -> (aget q (y_w s) = Some w_init \/ exists sp, In (OHook (HSpawn q sp)) outs) ->
                   aget q (y_w (apply_outs s1 outs)) = Some w_init).
    { intros s1 E1 H1. apply IH. rewrite E1. exact H1. }
    destruct x as [h|n cm| |]; cbn [apply_outs].
    + destruct h; try (apply (KEEP s eq_refl); destruct H as [H|(sp & [F|H])]; [left; exact H|discriminate|right; eauto]).
      apply IH. cbn [y_w]. destruct (Nat.eq_dec q newid) as [->|Hne].
      * left. apply aget_aset_eq.
      * rewrite aget_aset_neq by exact Hne. destruct H as [H|(sp & [F|H])]; [left; exact H| |right; eauto].
        inv F. contradiction.
    + destruct (mem_nat n (y_dead s)); apply KEEP; try reflexivity;
        (destruct H as [H|(sp & [F|H])]; [left; exact H|discriminate|right; eauto]).
    + apply (KEEP s eq_refl). destruct H as [H|(sp & [F|H])]; [left; exact H|discriminate|right; eauto].
    + apply (KEEP s eq_refl). destruct H as [H|(sp & [F|H])]; [left; exact H|discriminate|right; eauto].
Qed.

Lemma count_pos_in f l : count f l = 1 -> exists x, In x l /\ f x = true.
Proof.
  unfold count. induction l as [|y l IH]; cbn; [discriminate|]. destruct (f y) eqn:E.
  - intros _. exists y. auto.
  - intros H. destruct (IH H) as (x & A & B). exists x. auto.
Qed.

Lemma ok_evx_mono G G' ev : G <= G' -> ok_evx X0 G ev -> ok_evx X0 G' ev.
Proof. intros H (A & B). split; [exact A|]. destruct (ev_node ev); [lia|exact I]. Qed.

Lemma no_errd_cons_inv n ev q : no_errd n (ev :: q) -> is_errd n ev = false /\ no_errd n q.
Proof. intros H. split; [apply H; left; reflexivity|intros e He; apply H; right; exact He]. Qed.

Lemma is_errd_false n ev : is_errd n ev = false -> forall k, ev = QErrorDown k -> k <> n.
Proof. intros H k -> E. subst k. cbn in H. rewrite Nat.eqb_refl in H. discriminate. Qed.

Lemma evq_sigs_fresh G q : Forall (ok_evx X0 G) q -> evq_sigs G q = [].
Proof.
  induction 1 as [|e l (_ & He) _ IH]; [reflexivity|].
  rewrite evq_sigs_cons, IH, app_nil_r. unfold ev_sigs_for. destruct (ev_sig e) as [[m g]|] eqn:Eg; [|reflexivity].
  destruct (Nat.eqb m G) eqn:Em; [|reflexivity]. apply Nat.eqb_eq in Em. subst m. exfalso.
  destruct e; cbn in Eg; inv Eg; cbn in He; lia.
Qed.

Lemma step_ctl_core s ev q d' outs r :
  XInv s -> y_result s = None -> y_evq s = ev :: q ->
  d_loop_once ev (y_d s) = (d', outs, r) ->
  r = Ok tt /\ (SAME X0 -> d_active d' = [] -> d_shuttingdown d' = true) /\
  (forall rr, (forall e, rr <> Some (RError e)) -> (rr = None -> d_active d' <> []) ->
     XInv (set_result (apply_outs (set_d (set_evq s q) d') outs) rr)).
Proof.
  intros X Eres Eevq El. pose proof X as [Lo Hi (ls & DJd & NIs) Eq Eu Ea Er Edead].
  specialize (Ea Eres).
  pose proof (pre_from_inv' s ls ev q X DJd NIs Eevq) as Hpre.
  destruct (loop_once_ok' N X0 Hpos ev _ ls d' outs r DJd Ea Hpre El) as (-> & ls' & vo & Eo & E & DJ2 & Hfin & _).
  split; [reflexivity|]. split; [exact Hfin|]. intros rr Hrr Hact.
  pose proof (loop_once_step _ _ _ _ _ El) as (_ & _ & _ & SP).
  pose proof DJd as ([Els J _ _ _ _ _ _ AL _] & _).
  set (G := d_next_gw (y_d s)) in *.
  assert (SPW : (d_next_gw d' = G /\ forall id sp, ~ In (OHook (HSpawn id sp)) outs) \/
                (d_next_gw d' = S G /\ (exists sp, In (OHook (HSpawn G sp)) outs) /\
                 forall id sp, In (OHook (HSpawn id sp)) outs -> id = G)).
  { destruct SP as [(C0 & G0)|(C1 & G1 & _ & _ & sp & SPx)].
    - left. split; [exact G0|]. intros id sp Hin. pose proof (count_zero_notin _ _ _ C0 Hin) as F. discriminate.
    - right. split; [exact G1|]. split.
      + destruct (count_pos_in _ _ C1) as (x & Hx & Fx). exists sp. rewrite <- (SPx x Hx Fx). exact Hx.
      + intros id sp' Hin. specialize (SPx _ Hin eq_refl). inv SPx. reflexivity. }
  assert (GW : G <= d_next_gw d') by (destruct SPW as [(A & _)|(A & _)]; lia).
  assert (SPID : forall id sp, In (OHook (HSpawn id sp)) outs -> id = G /\ d_next_gw d' = S G).
  { intros id sp Hin. destruct SPW as [(_ & F)|(A & _ & B)]; [exfalso; exact (F _ _ Hin)|]. split; [eapply B; eauto|exact A]. }
  assert (OUTG : forall m, G <= m -> cmds_to m outs = []).
  { intros m Hm. rewrite Eo, cmds_to_vfilter, (he_out' _ _ _ _ _ _ _ _ E m Hm). destruct (closedb (l_nt ls) m); reflexivity. }
  set (sA := set_d (set_evq s q) d').
  destruct (apply_outs_frame outs sA) as (F1 & F2 & F3). cbn [sA set_d set_evq y_evq y_d y_dead] in F1, F2, F3.
  assert (UP : forall k, alist_get [] k (y_up (apply_outs sA outs)) = alist_get [] k (y_up s)).
  { intros k. rewrite apply_outs_up; [reflexivity|]. intros id sp Hin. destruct (SPID _ _ Hin) as (-> & _).
    cbn [sA set_d set_evq y_up]. apply (Hi G). lia. }
  assert (DOWN : forall k, alist_get [] k (y_down (apply_outs sA outs)) =
            if mem_nat k (y_dead s) then alist_get [] k (y_down s) else alist_get [] k (y_down s) ++ cmds_to k outs).
  { intros k. rewrite apply_outs_down; [reflexivity|]. intros id sp Hin. destruct (SPID _ _ Hin) as (-> & _).
    split; [apply OUTG; lia|]. cbn [sA set_d set_evq y_down]. apply (Hi G). lia. }
  assert (WOLD : forall k, k < G -> aget k (y_w (apply_outs sA outs)) = aget k (y_w s)).
  { intros k Hk. rewrite apply_outs_w_none; [reflexivity|]. intros sp Hin. destruct (SPID _ _ Hin) as (-> & _). lia. }
  assert (SIGS : forall k, sigs s k = ev_sigs_for k ev ++ sigs (set_result (apply_outs sA outs) rr) k).
  { intros k. rewrite (sigs_head' s ev q k Eevq). unfold sigs. cbn [set_result y_evq y_up]. rewrite F1, UP. reflexivity. }
  assert (EVIN : In ev (y_evq s)) by (rewrite Eevq; left; reflexivity).
  constructor; cbn [set_result y_d y_evq y_down y_up y_w y_dead y_result]; rewrite ?F1, ?F2, ?F3.
  - (* every id below the counter has a process *)
    intros m Hm. destruct (Nat.lt_ge_cases m G) as [Hlt|Hge].
    + rewrite (WOLD m Hlt). apply Lo. exact Hlt.
    + destruct SPW as [(A & _)|(A & (sp & Hin) & _)]; [lia|]. assert (m = G) by lia. subst m.
      rewrite (apply_outs_spawned outs sA G); [discriminate|]. right. eauto.
  - intros m Hm. assert (HmG : G <= m) by lia. destruct (Hi m HmG) as (A & B & C). split; [|split].
    + rewrite apply_outs_w_none; [exact A|]. intros sp Hin. destruct (SPID _ _ Hin) as (-> & A'). lia.
    + rewrite UP. exact B.
    + rewrite DOWN, C, (OUTG m HmG). destruct (mem_nat m (y_dead s)); reflexivity.
  - exists ls'. split; [exact DJ2|]. intros k w Hw.
    destruct (Nat.lt_ge_cases k G) as [Hlt|Hge].
    + (* a worker that existed before *)
      rewrite (WOLD k Hlt) in Hw. destruct (NIs k w Hw) as (A & B & C & D).
      split; [exact A|]. split; [exact B|]. split; [exact C|].
      pose proof (he_nt' _ _ _ _ _ _ _ _ E k Hlt) as HNT.
      pose proof (he_bk' _ _ _ _ _ _ _ _ E k) as HBK.
      pose proof (he_nodes' _ _ _ _ _ _ _ _ E k) as HNODES.
      pose proof (he_n2c' _ _ _ _ _ _ _ _ E k) as HN2C.
      cbn [set_result y_dead]. rewrite F3.
      destruct (mem_nat k (y_dead s)) eqn:Hdd; rewrite ?Hdd in D.
      * (* dead *)
        destruct D as [D1 D2 D3]. rewrite (SIGS k) in D1.
        constructor.
        -- eapply NDc_ctl; eauto.
        -- destruct D2 as [pre f X1 X2 X3 X4 X5 X6 X7|q1 q2 X1 X2 X3 X4 X5 X6 X7|X1 X2 X3 X4 X5].
           ++ rewrite Eevq in X5. destruct (no_errd_cons_inv _ _ _ X5) as (Hev & Hq).
              rewrite X3 in HNT. destruct (aget k (l_nt ls')) as [f'|] eqn:Ef'; [|destruct HNT]. cbn in HNT.
              destruct (NR_fields _ _ _ HNT) as (_ & Bd & _).
              eapply (DS_wire _ _ _ _ pre f'); cbn [set_result y_up y_evq y_d]; rewrite ?UP, ?F1, ?F2; eauto.
              ** destruct (he_act' _ _ _ _ _ _ _ _ E k X6) as [Y|[(b & Y)|Y]]; [exact Y| |].
                 --- exfalso. apply (NDc_nofin _ _ _ _ b D1). apply in_or_app. left.
                     unfold ev_sigs_for. rewrite Y, Nat.eqb_refl. left. reflexivity.
                 --- exfalso. exact (is_errd_false _ _ Hev k Y eq_refl).
              ** rewrite (SIGS k) in X7. eapply NDcpl_ctl; [|exact X7].
                 rewrite HBK, (bookmid'_eq ev k _ (is_errd_false _ _ Hev)). reflexivity.
           ++ rewrite Eevq in X2. destruct q1 as [|e1 q1'].
              ** (* its errordown has just been handled *)
                 cbn [app] in X2. injection X2 as E1 E2.
                 destruct (he_err' _ _ _ _ _ _ _ _ E k E1) as (Y1 & Y2).
                 eapply DS_done; cbn [set_result y_up y_evq y_d]; rewrite ?UP, ?F1, ?F2, ?E2; eauto.
              ** cbn [app] in X2. injection X2 as E1 E2. subst e1. destruct (no_errd_cons_inv _ _ _ X4) as (Hev & Hq1).
                 eapply (DS_queue _ _ _ _ q1' q2); cbn [set_result y_up y_evq y_d]; rewrite ?UP, ?F1, ?F2; eauto.
                 --- destruct (he_act' _ _ _ _ _ _ _ _ E k X6) as [Y|[(b & Y)|Y]]; [exact Y| |].
                     +++ exfalso. apply (NDc_nofin _ _ _ _ b D1). apply in_or_app. left.
                         unfold ev_sigs_for. rewrite Y, Nat.eqb_refl. left. reflexivity.
                     +++ exfalso. exact (is_errd_false _ _ Hev k Y eq_refl).
                 --- rewrite (SIGS k) in X7. eapply NDcpl_ctl; [|exact X7].
                     rewrite HBK, (bookmid'_eq ev k _ (is_errd_false _ _ Hev)). reflexivity.
           ++ rewrite Eevq in X2, X3. destruct (no_errd_cons_inv _ _ _ X2) as (Hev & Hq).
              rewrite evq_sigs_cons in X3. apply app_eq_nil in X3. destruct X3 as (X3a & X3b).
              eapply DS_done; cbn [set_result y_up y_evq y_d]; rewrite ?UP, ?F1, ?F2; eauto.
              ** intros Hin. destruct (he_actb' _ _ _ _ _ _ _ _ E k Hin) as [Y|(Y & _)]; [contradiction|]. fold G in Y. lia.
              ** intros Hin. destruct (HNODES Hin) as [Y|Y]; [contradiction|].
                 unfold ev_sigs_for in X3a. rewrite Y, Nat.eqb_refl in X3a. discriminate.
        -- cbn [set_result y_down]. rewrite DOWN, Hdd. exact D3.
      * (* alive *)
        destruct D as [D1 D2 D3 D4 D5 D6]. rewrite (SIGS k) in D1.
        rewrite Eevq in D4. destruct (no_errd_cons_inv _ _ _ D4) as (Hev & Hq).
        assert (CM : cmds_to k outs = cmds_to k vo) by (rewrite Eo, cmds_to_vfilter, D5; reflexivity).
        assert (NRk : exists f f', aget k (l_nt ls) = Some f /\ aget k (l_nt ls') = Some f' /\ NR f (cmds_to k vo) f').
        { destruct (aget k (l_nt ls)) as [f|] eqn:Ef; [|exfalso; apply (proj2 (lj_ntk' _ _ _ _ J k) Hlt); exact Ef].
          destruct (aget k (l_nt ls')) as [f'|] eqn:Ef'; [|destruct HNT]. exists f, f'. auto. }
        destruct NRk as (f & f' & Ef & Ef' & NRf). destruct (NR_fields _ _ _ NRf) as (_ & Bd & Bc & _ & Bg).
        constructor; cbn [set_result y_down y_up y_evq y_d]; rewrite ?DOWN, ?Hdd, ?UP, ?F1, ?F2, ?CM.
        -- apply (NI_ctl' ev ls ls' (d_active (y_d s)) (d_active d') (d_shouldstop (y_d s)) (d_shouldstop d') k _ _ w vo HNT).
           ++ rewrite HBK, (bookmid'_eq ev k _ (is_errd_false _ _ Hev)). reflexivity.
           ++ exact HNODES.
           ++ exact HN2C.
           ++ intros Hin. destruct (he_act' _ _ _ _ _ _ _ _ E k Hin) as [Y|[Y|Y]]; [left; exact Y|right; exact Y|].
              exfalso. exact (is_errd_false _ _ Hev k Y eq_refl).
           ++ apply (he_stop' _ _ _ _ _ _ _ _ E).
           ++ apply (he_ss' _ _ _ _ _ _ _ _ E).
           ++ exact D1.
        -- apply Forall_app. split; [exact D2|exact Bg].
        -- exact D3.
        -- exact Hq.
        -- rewrite (he_closed' _ _ _ _ _ _ _ _ E k). exact D5.
        -- intros g Eg Hg. assert (g = f') by congruence. subst g. apply (D6 f Ef). congruence.
    + (* the replacement worker that has just been started *)
      destruct SPW as [(A & Fno)|(A & (sp & Hin) & _)].
      { exfalso. rewrite apply_outs_w_none in Hw by (intros sp Hin; exact (Fno _ _ Hin)).
        destruct (Hi k Hge) as (F & _). cbn [sA set_d set_evq y_w] in Hw. congruence. }
      destruct (Nat.eq_dec k G) as [->|Hne].
      2:{ exfalso. rewrite apply_outs_w_none in Hw.
          - destruct (Hi k Hge) as (F & _). cbn [sA set_d set_evq y_w] in Hw. congruence.
          - intros sp' Hin'. destruct (SPID _ _ Hin') as (-> & _). contradiction. }
      rewrite (apply_outs_spawned outs sA G) in Hw by (right; eauto). injection Hw as <-.
      destruct (he_gw' _ _ _ _ _ _ _ _ E) as [Y|(_ & (f & Ef & (Hf1 & Hf2 & Hf3)) & Hina & Hnn & Hnc)]; [fold G in Y; lia|].
      fold G in Ef, Hina, Hnn, Hnc.
      assert (HdG : mem_nat G (y_dead s) = false).
      { apply mem_nat_false. intros Hin'. specialize (Edead _ Hin'). fold G in Edead. lia. }
      destruct (Hi G (le_n G)) as (_ & UG & DG).
      assert (ESG : sigs (set_result (apply_outs sA outs) rr) G = []).
      { assert (Z : sigs s G = []).
        { unfold sigs. rewrite UG. cbn. rewrite app_nil_r. apply evq_sigs_fresh. exact Eq. }
        pose proof (SIGS G) as Z2. rewrite Z in Z2. symmetry in Z2. apply app_eq_nil in Z2. tauto. }
      split; [apply winv_init|]. split; [constructor|]. split; [exact Logic.I|].
      cbn [set_result y_dead]. rewrite F3, HdG.
      constructor; rewrite ?ESG; cbn [set_result y_down y_up y_evq y_d]; rewrite ?DOWN, ?HdG, ?DG, ?UP, ?UG, ?F1, ?F2, ?(OUTG G (le_n G)); cbn [app].
      * constructor; cbn [w_init wph prank].
        -- exists f. split; [exact Ef|]. cbn. rewrite Hf1. apply mark_ok_nil.
        -- cbn. apply alist_get_none. apply aget_none_keys. exact Hnn.
        -- apply chan_ok_nil.
        -- intros Hin'. contradiction.
        -- intros Hin'. contradiction.
        -- intros F. contradiction.
        -- intros [[]|F]; discriminate.
        -- apply WX_init.
        -- intros [F|(b & F)]; discriminate.
      * constructor.
      * intros [].
      * intros e He. assert (He' : In e (y_evq s)) by (rewrite Eevq; right; exact He).
        rewrite Forall_forall in Eq. destruct (Eq e He') as (_ & Hn). destruct e; try reflexivity. cbn in Hn |- *.
        apply Nat.eqb_neq. fold G in Hn. lia.
      * unfold closedb. rewrite Ef. exact Hf3.
      * intros g Eg Hg. assert (g = f) by congruence. subst g. congruence.
  - rewrite Eevq in Eq. apply Forall_forall. intros e He. rewrite Forall_forall in Eq.
    apply (ok_evx_mono G _ e GW). apply Eq. right. exact He.
  - intros k. rewrite UP. apply Eu.
  - exact Hact.
  - exact Hrr.
  - intros k Hk. specialize (Edead k Hk). fold G in Edead. lia.
Qed.

Lemma xinv_coupled s : XInv s -> CrashCoupled s.
Proof.
  intros [Lo Hi (ls & DJd & NIs) Eq Eu Ea Er Edead] n.
  pose proof DJd as ([Els J _ _ _ _ _ _ _ _] & _).
  assert (BK : book s n = bk ls n) by (unfold book; rewrite Els; reflexivity).
  destruct (aget n (y_w s)) as [w|] eqn:Ew.
  - destruct (NIs n w Ew) as (_ & _ & _ & D). destruct (mem_nat n (y_dead s)).
    + destruct D as [_ D2 _]. destruct D2 as [pre f X1 X2 X3 X4 X5 X6 X7|q1 q2 X1 X2 X3 X4 X5 X6 X7|X1 X2 X3 X4 X5].
      * split; [intros _; rewrite BK; exact X7|intros F; contradiction].
      * split; [intros _; rewrite BK; exact X7|intros F; contradiction].
      * split; [intros F; contradiction|]. intros _. rewrite BK. apply alist_get_none. apply aget_none_keys. exact X5.
    + destruct D as [D1 _ _ _ _ _]. rewrite BK. unfold owed. rewrite Ew. exact (ni_coupled _ _ _ _ _ _ _ D1).
  - rewrite BK. apply alist_get_none. apply aget_none_keys. intros Hin.
    pose proof (lj_nodes' _ _ _ _ J n Hin) as Hlt. exact (Lo n Hlt Ew).
Qed.


(* ---- every step ---- *)
Lemma apply_outs_result outs : forall s, y_result (apply_outs s outs) = y_result s.
Proof.
  induction outs as [|x outs IH]; intros s; [reflexivity|].
  destruct x as [h|n cm| |]; cbn [apply_outs]; try apply IH.
  - destruct h; try apply IH. rewrite IH. reflexivity.
  - destruct (mem_nat n (y_dead s)); rewrite IH; reflexivity.
Qed.

Lemma set_result_same' s r : y_result s = r -> set_result s r = s.
Proof. destruct s; cbn; intros <-; reflexivity. Qed.

(* the state in which the controller has raised RuntimeError("no active workers") *)
Definition ErrSt (s : sys) : Prop :=
  y_result s = Some (RError ERuntimeNoWorkers) /\ ~ SAME X0 /\ exists s0, XInv s0 /\ VE s0 s.

Lemma trigger_no_nodes d :
  d_shuttingdown d = false -> s_nodes (d_sched d) = [] ->
  d_no_active d = (d_set_shuttingdown d true, [], Err ERuntimeNoWorkers).
Proof.
  intros Hs Hn. unfold d_no_active, d_triggershutdown. unfold mbind at 1. rewrite mbind_get, Hs, mbind_put, Hn. reflexivity.
Qed.

Lemma step_xinv s l s' o w : XInv s -> sys_step c s l = Some (s', o, w) -> XInv s' \/ ErrSt s'.
Proof.
  intros X H. pose proof X as [Lo Hi (ls & DJd & NIs) Eq Eu Ea Er Edead].
  unfold sys_step in H. destruct (y_result s) eqn:Eres; [discriminate|].
  destruct l as [n0|n0|n0|n0| |n0].
  - (* LDeliver *)
    destruct (mem_nat n0 (y_dead s)) eqn:Hd; [discriminate|].
    destruct (aget n0 (y_down s)) as [[|cmd rest]|] eqn:Ed; try discriminate.
    destruct (aget n0 (y_w s)) as [w0|] eqn:Ew; try discriminate.
    inv H. left. rewrite <- Eres. apply step_deliver; assumption.
  - (* LRecvW *)
    destruct (mem_nat n0 (y_dead s)) eqn:Hd; [discriminate|].
    destruct (aget n0 (y_w s)) as [w0|] eqn:Ew; try discriminate.
    destruct (negb (wcb w0)); [discriminate|].
    destruct (recv_step (c_oracle c n0) w0) as [w' evs] eqn:Es. inv H. left.
    destruct (NIs n0 w0 Ew) as (Iw & Gw & NGw & D). rewrite Hd in D. destruct D as [D1 _ _ _ _ _].
    destruct (NI_recv (c_oracle c n0) _ _ _ _ _ _ _ Gw D1) as (Ev & Xn). rewrite Es in Ev, Xn. cbn [fst snd] in Ev, Xn. subst evs.
    destruct (recv_step_nogarb _ _ _ _ Es NGw) as (NG1 & NG2).
    apply step_push with (w0 := w0); auto.
    + pose proof (recv_step_inv (c_oracle c n0) w0 Iw) as I1. rewrite Es in I1. exact I1.
    + pose proof (recv_step_tokens (c_oracle c n0) w0 Gw) as (_ & G1). rewrite Es in G1. exact G1.
    + intros ls1 Y. cbn [flat_map]. rewrite app_nil_r.
      destruct (NI_recv (c_oracle c n0) _ _ _ _ _ _ _ Gw Y) as (_ & Z). rewrite Es in Z. exact Z.
    + intros Hex. split; [|reflexivity]. rewrite (proj1 (recv_step_facts _ _ _ _ Es)). exact Hex.
  - (* LMain *)
    destruct (mem_nat n0 (y_dead s)) eqn:Hd; [discriminate|].
    destruct (aget n0 (y_w s)) as [w0|] eqn:Ew; try discriminate.
    destruct (dies_now c n0 w0) eqn:Edie.
    + inv H. left. apply step_crash with (w0 := w0); auto. unfold dies_now in Edie. destruct (wph w0); discriminate.
    + destruct (main_step (c_oracle c n0) w0) as [[w' evs]|] eqn:Es; [|discriminate]. inv H. left.
      destruct (NIs n0 w0 Ew) as (Iw & Gw & NGw & D). rewrite Hd in D. destruct D as [D1 _ _ _ _ _].
      destruct (NI_main _ _ _ _ _ _ _ _ _ _ Iw D1 Es) as (_ & Hok).
      destruct (main_step_nogarb _ _ _ _ (Hng n0) Es NGw) as (NG1 & NG2).
      destruct (main_step_frame _ _ _ _ Es) as (_ & Einb & _).
      apply step_push with (w0 := w0); auto.
      * eapply main_step_inv; eauto.
      * rewrite Einb. exact Gw.
      * intros ls1 Y. exact (proj1 (NI_main _ _ _ _ _ _ _ _ _ _ Iw Y Es)).
      * intros Hex. exfalso. exact (main_step_not_exited _ _ _ _ Es Hex).
  - (* LRecv *)
    destruct (aget n0 (y_up s)) as [[|m rest]|] eqn:Eup; try discriminate.
    cbn [y_d] in H.
    destruct (process_from_remote n0 m (y_d s)) as [[d' outs] r] eqn:Ep.
    destruct (step_recv s n0 m rest d' outs r X Eup Ep) as (-> & evs & -> & X' & _).
    cbn [apply_outs] in H. inv H. left. rewrite <- Eres. apply close_if_dead_XInv. exact X'.
  - (* LCtl *)
    specialize (Ea eq_refl).
    destruct (d_active (y_d s)) as [|a0 ar] eqn:Eact; [contradiction|].
    destruct (y_evq s) as [|ev q] eqn:Eevq; [discriminate|].
    destruct (d_loop_once ev (y_d s)) as [[d' outs] r] eqn:El.
    destruct (step_ctl_core s ev q d' outs r X Eres Eevq El) as (-> & Hfin & CORE).
    set (s1 := apply_outs (set_d (set_evq s q) d') outs) in *.
    destruct (d_session_finished d') eqn:Efin.
    + inv H. left. apply CORE.
      * intros e. destruct (d_shouldstop d'); discriminate.
      * destruct (d_shouldstop d'); discriminate.
    + destruct (d_active d') as [|b0 br] eqn:Eact'.
      * (* nobody is left and the session is not shutting down: RuntimeError("no active workers") *)
        right.
        assert (Hsd : d_shuttingdown d' = false).
        { unfold d_session_finished in Efin. rewrite Eact', andb_true_r in Efin. exact Efin. }
        assert (XR : XInv (set_result s1 (Some RFinished))) by (apply CORE; [intros e; discriminate|discriminate]).
        pose proof XR as [_ _ (ls' & DJ2 & _) _ _ _ _ _].
        destruct (apply_outs_frame outs (set_d (set_evq s q) d')) as (F1 & F2 & F3). cbn [set_d set_evq y_evq y_d y_dead] in F1, F2, F3.
        cbn [set_result y_d] in DJ2. fold s1 in F2. rewrite F2 in DJ2.
        destruct DJ2 as ([Els2 J2 Jb2 _ _ _ _ _ _ _] & Jss2 & _).
        assert (Hss : d_shouldstop d' = false).
        { apply not_true_false. intros F. rewrite (Jss2 F) in Hsd. discriminate. }
        assert (Hnn : s_nodes (d_sched d') = []).
        { rewrite Els2. cbn [s_nodes]. specialize (Jb2 Hss). rewrite Eact' in Jb2.
          destruct (l_nodes ls') as [|k rr]; [reflexivity|]. exfalso. apply (Jb2 k). left. reflexivity. }
        rewrite (trigger_no_nodes d' Hsd Hnn) in H. cbn [apply_outs] in H. injection H as <- <- <-.
        split; [reflexivity|]. split.
        -- intros HS. rewrite (Hfin HS eq_refl) in Hsd. discriminate.
        -- exists (set_result s1 (Some RFinished)). split; [exact XR|].
           unfold VE. cbn [set_result set_d y_d y_w y_dead y_evq y_up y_down]. rewrite F2. auto 10.
      * inv H. left.
        assert (Er1 : y_result s1 = None).
        { unfold s1. rewrite apply_outs_result. cbn. exact Eres. }
        rewrite <- (set_result_same' s1 None Er1). apply CORE.
        -- intros e. discriminate.
        -- intros _. discriminate.
  - (* LCrash *)
    destruct (mem_nat n0 (y_dead s)) eqn:Hd; [discriminate|].
    destruct (aget n0 (y_w s)) as [w0|] eqn:Ew; try discriminate.
    destruct (wph w0) eqn:Eph; try discriminate; inv H; left; apply step_crash with (w0 := w0); auto; rewrite Eph; discriminate.
Qed.

(* every reachable state satisfies the invariant, or is the state in which the controller has just raised
   "no active workers" (possible only when some worker collected a different list) *)
Theorem xinv_run ls : XInv (sys_run c ls) \/ ErrSt (sys_run c ls).
Proof.
  unfold sys_run.
  assert (G : forall s, XInv s \/ ErrSt s ->
     let s' := fold_left (fun s l => match sys_step c s l with Some (s', _, _) => s' | None => s end) ls s in
     XInv s' \/ ErrSt s').
  { induction ls as [|l ls IH]; intros s Hs; cbn [fold_left]; [exact Hs|].
    apply IH. destruct (sys_step c s l) as [[[s' o] w]|] eqn:E; [|exact Hs].
    destruct Hs as [Hs|(Hr & _)].
    - eapply step_xinv; eauto.
    - unfold sys_step in E. rewrite Hr in E. discriminate. }
  apply G. left. apply XInv_init.
Qed.

(* ---- a 'crashed while running' report names the head of the dead node's book ---- *)
Lemma ctl_crash_report s ev q d' outs r t k :
  XInv s -> y_result s = None -> y_evq s = ev :: q ->
  d_loop_once ev (y_d s) = (d', outs, r) ->
  In (OHook (HCrashReport t k)) outs ->
  ev = QErrorDown k /\ In k (y_dead s) /\
  exists wk lost i, aget k (y_w s) = Some wk /\ book s k = owed_w wk ++ lost /\
    hd_error (owed_w wk ++ lost) = Some i /\ exists coll, the_coll s = Some coll /\ nth_error coll i = Some t.
Proof.
  intros X Eres Eevq El Hin. pose proof X as [Lo Hi (ls & DJd & NIs) Eq Eu Ea Er Edead].
  specialize (Ea Eres).
  pose proof (pre_from_inv' s ls ev q X DJd NIs Eevq) as Hpre.
  destruct (loop_once_ok' N X0 Hpos ev _ ls d' outs r DJd Ea Hpre El) as (_ & ls' & vo & Eo & E & DJ2 & Hfin & CR).
  destruct (CR t k Hin) as (-> & coll & i & rest & Ecl & Ebk & Enth). split; [reflexivity|].
  pose proof DJd as ([Els _ _ _ _ _ _ _ _ _] & _).
  assert (HkG : k < d_next_gw (y_d s)).
  { rewrite Eevq in Eq. inversion Eq as [|e1 q1 (_ & Hn) _]; subst. exact Hn. }
  destruct (aget k (y_w s)) as [wk|] eqn:Ew; [|exfalso; exact (Lo k HkG Ew)].
  destruct (NIs k wk Ew) as (_ & _ & _ & D).
  assert (HIN : In (QErrorDown k) (y_evq s)) by (rewrite Eevq; left; reflexivity).
  assert (ERR : is_errd k (QErrorDown k) = true) by (cbn; apply Nat.eqb_refl).
  destruct (mem_nat k (y_dead s)) eqn:Hd.
  2:{ destruct D as [_ _ _ D4 _ _]. rewrite (D4 _ HIN) in ERR. discriminate. }
  split; [apply mem_nat_In; exact Hd|].
  destruct D as [_ D2 _]. destruct D2 as [pre f X1 X2 X3 X4 X5 X6 X7|q1 q2 X1 X2 X3 X4 X5 X6 X7|X1 X2 X3 X4 X5].
  - rewrite (X5 _ HIN) in ERR. discriminate.
  - rewrite Eevq in X2. destruct q1 as [|e1 q1'].
    + cbn [app] in X2. injection X2 as E2.
      assert (Es : sigs s k = []).
      { unfold sigs. rewrite X1, Eevq, evq_sigs_cons, E2, X3. reflexivity. }
      destruct X7 as (lost & Cp). rewrite Es in Cp. cbn [completes flat_map app] in Cp.
      exists wk, lost, i. split; [reflexivity|]. unfold book. rewrite Els. fold (bk ls k).
      split; [exact Cp|]. split; [rewrite <- Cp, Ebk; reflexivity|]. exists coll. split; [|exact Enth].
      unfold the_coll. rewrite Els. exact Ecl.
    + cbn [app] in X2. injection X2 as E1 E2. subst e1. rewrite (X4 _ (or_introl eq_refl)) in ERR. discriminate.
  - rewrite (X2 _ HIN) in ERR. discriminate.
Qed.

End Sys.

(* ====================================================================================== *)
(* D.5 the theorems                                                                        *)
(* ====================================================================================== *)
Section Main.
  Variable c : config.
  Variable ls : list label.
  Hypothesis Hmode : c_mode c = MLoad.
  Hypothesis Hnogarbled : no_garbled c.
  Hypothesis Hnodes : 0 < c_numnodes c.

  Lemma run_good : XInv c (sys_run c ls) \/ ErrSt c (sys_run c ls).
  Proof. apply xinv_run; assumption. Qed.

  (* Goal 1: the crash coupling invariant, in every reachable state, for EVERY schedule *)
  Theorem crash_coupling_invariant : CrashCoupled (sys_run c ls).
  Proof.
    destruct run_good as [X|(_ & _ & s0 & X0 & V)]; [apply (xinv_coupled c); exact X|].
    apply (CrashCoupled_VE s0); [exact V|apply (xinv_coupled c); exact X0].
  Qed.

  (* Goal 2 (C17): the only exception that can escape the controller's loop is the documented
     RuntimeError("no active workers") ... *)
  Theorem crash_c17 : forall e, y_result (sys_run c ls) = Some (RError e) -> e = ERuntimeNoWorkers.
  Proof.
    intros e H. destruct run_good as [X|(R & _)].
    - exfalso. exact (x_res _ _ X e H).
    - congruence.
  Qed.

  (* ... and it only occurs when some worker collected a different list of tests: *)
  Theorem crash_no_active_workers_needs_different_collection :
    y_result (sys_run c ls) = Some (RError ERuntimeNoWorkers) -> ~ (forall n, c_coll c n = c_coll c 0).
  Proof.
    intros H. destruct run_good as [X|(_ & NS & _)]; [exfalso; exact (x_res _ _ X _ H)|exact NS].
  Qed.

  (* when every worker (replacements included) collects the same list, NO exception escapes *)
  Theorem crash_controller_never_raises :
    (forall n, c_coll c n = c_coll c 0) -> forall e, y_result (sys_run c ls) <> Some (RError e).
  Proof.
    intros HS e H. pose proof (crash_c17 e H) as ->. exact (crash_no_active_workers_needs_different_collection H HS).
  Qed.

  Lemma nohook_no_active : nohook d_no_active.
  Proof. unfold d_no_active, d_triggershutdown. nh; try (unfold d_node_shutdown; apply nohook_node_shutdown). Qed.

  (* Goal 3a (C03): whatever step is taken next, a 'crashed while running' report for worker k names
     the test at the head of what the dead worker k held (or, if it held nothing, the first index
     that was lost on its wire) *)
  Theorem crash_report_names_running_test : forall l s' outs w t k,
    sys_step c (sys_run c ls) l = Some (s', outs, w) ->
    In (OHook (HCrashReport t k)) outs ->
    In k (y_dead (sys_run c ls)) /\
    exists wk lost i, aget k (y_w (sys_run c ls)) = Some wk /\
      book (sys_run c ls) k = owed_w wk ++ lost /\
      hd_error (owed_w wk ++ lost) = Some i /\
      exists coll, the_coll (sys_run c ls) = Some coll /\ nth_error coll i = Some t.
  Proof.
    intros l s' outs w t k H Hin. set (s := sys_run c ls) in *.
    assert (X : XInv c s).
    { destruct run_good as [X|(R & _)]; [exact X|]. fold s in R. unfold sys_step in H. rewrite R in H. discriminate. }
    unfold sys_step in H. destruct (y_result s) eqn:Eres; [discriminate|].
    destruct l as [n0|n0|n0|n0| |n0].
    - destruct (mem_nat n0 (y_dead s)); [discriminate|].
      destruct (aget n0 (y_down s)) as [[|cmd rest]|]; try discriminate.
      destruct (aget n0 (y_w s)); try discriminate. inv H. destruct Hin.
    - destruct (mem_nat n0 (y_dead s)); [discriminate|].
      destruct (aget n0 (y_w s)) as [w0|]; try discriminate.
      destruct (negb (wcb w0)); [discriminate|].
      destruct (recv_step (c_oracle c n0) w0) as [w' evs]. inv H. destruct Hin.
    - destruct (mem_nat n0 (y_dead s)); [discriminate|].
      destruct (aget n0 (y_w s)) as [w0|]; try discriminate.
      destruct (dies_now c n0 w0); [inv H; destruct Hin|].
      destruct (main_step (c_oracle c n0) w0) as [[w' evs]|]; [|discriminate]. inv H. destruct Hin.
    - destruct (aget n0 (y_up s)) as [[|m rest]|] eqn:Eup; try discriminate.
      cbn [y_d] in H.
      destruct (process_from_remote n0 m (y_d s)) as [[d' o1] r] eqn:Ep.
      destruct (step_recv c Hnodes s n0 m rest d' o1 r X Eup Ep) as (-> & evs & -> & _).
      inv H. destruct Hin.
    - pose proof (x_act _ _ X Eres) as Ea.
      destruct (d_active (y_d s)) as [|a0 ar] eqn:Eact; [contradiction|].
      destruct (y_evq s) as [|ev q] eqn:Eevq; [discriminate|].
      destruct (d_loop_once ev (y_d s)) as [[d' o1] r] eqn:El.
      destruct (step_ctl_core c Hnodes s ev q d' o1 r X Eres Eevq El) as (-> & Hfin & _).
      assert (EO : In (OHook (HCrashReport t k)) o1).
      { destruct (d_session_finished d') eqn:Efin; [inv H; exact Hin|].
        destruct (d_active d') eqn:Eact'; [|inv H; exact Hin].
        destruct (d_no_active d') as [[d2 o2] r2] eqn:Ena. inv H.
        apply in_app_or in Hin. destruct Hin as [Hin|Hin]; [exact Hin|]. exfalso.
        pose proof (nohook_no_active _ _ _ _ Ena) as NH. rewrite Forall_forall in NH. exact (NH _ Hin). }
      destruct (ctl_crash_report c Hnodes s ev q d' o1 (Ok tt) t k X Eres Eevq El EO) as (_ & A & B).
      split; [exact A|exact B].
    - destruct (mem_nat n0 (y_dead s)); [discriminate|].
      destruct (aget n0 (y_w s)) as [w0|]; try discriminate.
      destruct (wph w0); try discriminate; inv H; destruct Hin.
  Qed.
End Main.

Check crash_coupling_invariant.
Print Assumptions crash_coupling_invariant.
Check crash_c17.
Print Assumptions crash_c17.
Check crash_no_active_workers_needs_different_collection.
Print Assumptions crash_no_active_workers_needs_different_collection.
Check crash_controller_never_raises.
Print Assumptions crash_controller_never_raises.
Check crash_report_names_running_test.
Print Assumptions crash_report_names_running_test.

(* ====================================================================================== *)
(* D.6 non-vacuity: concrete sessions with crashes, evaluated                              *)
(* ====================================================================================== *)
Definition crx_oracle (k : nat) : oracle :=
  {| reports_of := fun _ => [Passed]; stops_after := fun _ => false; ncollected := k; coll_reports := [] |}.
Definition crx_names (k : nat) : list string :=
  map (fun i => String (Ascii.ascii_of_nat (48 + i)) EmptyString) (seq 0 k).
(* two initial workers, k tests "0", "1", ...; worker n dies when it enters test i iff crash n i *)
Definition crx_cfg (k : nat) (crash : nat -> nat -> bool) : config :=
  {| c_mode := MLoad; c_numnodes := 2; c_chunk := None; c_maxfail := 0%Z; c_max_restart := Some 4%Z;
     c_requeue := 0; c_coll := fun _ => crx_names k; c_oracle := fun _ => crx_oracle k;
     c_dur := fun _ => 0%Z; c_crash_in := crash; c_strict := false; c_spec := fun _ => 0 |}.

Lemma crx_hyps k crash :
  c_mode (crx_cfg k crash) = MLoad /\ no_garbled (crx_cfg k crash) /\
  0 < c_numnodes (crx_cfg k crash) /\
  (forall n, c_coll (crx_cfg k crash) n = c_coll (crx_cfg k crash) 0).
Proof.
  split; [reflexivity|]. split; [|split; [cbn; lia|reflexivity]].
  intros n i H. cbn in H. destruct H as [H|[]]. discriminate.
Qed.

(* one turn of every component, workers 0..3 (two initial workers and up to two replacements) *)
Definition crx_round : list label :=
  [LMain 0; LMain 1; LMain 2; LMain 3; LRecvW 0; LRecvW 1; LRecvW 2; LRecvW 3;
   LDeliver 0; LDeliver 1; LDeliver 2; LDeliver 3; LRecv 0; LRecv 1; LRecv 2; LRecv 3; LCtl].

Definition crx_crashes (o : list out) : list (string * nat) :=
  flat_map (fun x => match x with OHook (HCrashReport t n) => [(t, n)] | _ => [] end) o.

(* result, dead workers, tests started (all workers), ids of the replacement workers, crash reports,
   group counter *)
Definition crx_summary (c : config) (ls : list label) :=
  let '(s, o, _) := sys_exec c (sys_init c) ls in
  (y_result s, y_dead s, started s, spawn_ids o, crx_crashes o, d_next_gw (y_d s)).

(* book; completions in flight; what the worker holds (frozen if dead); indices on its wire down;
   dead?; still active for the controller? *)
Definition crx_parts (s : sys) (n : nat) :=
  (book s n, completes (sigs s n),
   match aget n (y_w s) with Some w => owed_w w | None => [] end,
   flat_map cmd_inds (alist_get [] n (y_down s)), mem_nat n (y_dead s), mem_nat n (d_active (y_d s))).

(* (a) TWO CRASHES: worker 1 dies on entering test 3 (c_crash_in), worker 0 is killed from outside
   (LCrash) while it waits for the successor of test 1.  Both deaths are reported ("1" for worker 0,
   "3" for worker 1), two replacement workers 2 and 3 are started, the session ends as "finished",
   and no test was started twice: 1 and 3 were never started, they are the crash items. *)
Definition crx_crash13 (n i : nat) : bool := Nat.eqb n 1 && Nat.eqb i 3.
Definition crx_sched : list label := rounds 14 crx_round ++ [LCrash 0] ++ rounds 70 crx_round.

Example crx_ex_two_crashes :
  crx_summary (crx_cfg 6 crx_crash13) crx_sched =
  (Some RFinished, [1; 0], [0; 2; 5; 4], [2; 3], [("1"%string, 0); ("3"%string, 1)], 4).
Proof. vm_compute. reflexivity. Qed.

(* the moment of the external crash: worker 0 waits (PWaitNext, empty queue) *)
Example crx_ex_waiting :
  option_map (fun w => (wph w, wq w)) (aget 0 (y_w (sys_run (crx_cfg 6 crx_crash13) (rounds 14 crx_round)))) =
  Some (PWaitNext (1, 1), []).
Proof. vm_compute. reflexivity. Qed.

(* (b) the dead-node coupling at work, same session.  After 239 steps worker 0 is dead and still
   active for the controller: its book [0; 1] = the completion of 0 still in flight ++ the test 1 the
   dead worker held.  After 290 steps its errordown has been handled: no book, not active. *)
Example crx_ex_dead_coupling :
  crx_parts (sys_run (crx_cfg 6 crx_crash13) (firstn 239 crx_sched)) 0 = ([0; 1], [0], [1], [], true, true) /\
  crx_parts (sys_run (crx_cfg 6 crx_crash13) (firstn 290 crx_sched)) 0 = ([], [], [1], [], true, false).
Proof. vm_compute. split; reflexivity. Qed.

(* (c) indices LOST on the wire: 12 tests, worker 0 is killed after 15 rounds; the controller then
   handles the completion of test 0 that was still in flight and tops the dead worker up with test 4:
   book [1; 4] = [] ++ [1] (held by the dead worker) ++ [4] (lost) *)
Example crx_ex_lost :
  let s := sys_run (crx_cfg 12 (fun _ _ => false)) (rounds 15 crx_round ++ [LCrash 0; LRecv 0; LCtl]) in
  crx_parts s 0 = ([1; 4], [], [1], [], true, true).
Proof. vm_compute. reflexivity. Qed.

(* (d) a worker that held nothing: it is killed while its first command is still on the wire; its
   book is entirely lost, and the crash report names the FIRST lost index *)
Example crx_ex_wire_only :
  let c := crx_cfg 12 (fun _ _ => false) in
  crx_parts (sys_run c (rounds 4 crx_round ++ [LCrash 0])) 0 = ([0; 1], [], [], [], true, true) /\
  crx_summary c (rounds 4 crx_round ++ [LCrash 0] ++ rounds 3 crx_round) =
    (None, [0], [], [2], [("0"%string, 0)], 3).
Proof. vm_compute. split; reflexivity. Qed.

(* (e) the theorems, instantiated on the session of (a) *)
Example crx_ex_theorems_apply :
  let c := crx_cfg 6 crx_crash13 in
  CrashCoupled (sys_run c crx_sched) /\
  (forall e, y_result (sys_run c crx_sched) <> Some (RError e)) /\
  (* step 289 of the schedule is the controller turn that handles worker 0's errordown *)
  (let s := sys_run c (firstn 289 crx_sched) in
   In 0 (y_dead s) /\
   exists wk lost i, aget 0 (y_w s) = Some wk /\ book s 0 = owed_w wk ++ lost /\
     hd_error (owed_w wk ++ lost) = Some i /\
     exists coll, the_coll s = Some coll /\ nth_error coll i = Some "1"%string).
Proof.
  cbv zeta. destruct (crx_hyps 6 crx_crash13) as (H1 & H2 & H5 & H3).
  split; [apply crash_coupling_invariant; assumption|].
  split; [apply crash_controller_never_raises; assumption|].
  set (s := sys_run (crx_cfg 6 crx_crash13) (firstn 289 crx_sched)).
  assert (Hin : In (OHook (HCrashReport "1"%string 0))
                  (match sys_step (crx_cfg 6 crx_crash13) s LCtl with Some (_, o, _) => o | None => [] end)).
  { vm_compute. repeat (first [left; reflexivity | right]). }
  destruct (sys_step (crx_cfg 6 crx_crash13) s LCtl) as [[[s' outs] w]|] eqn:E; [|destruct Hin].
  exact (crash_report_names_running_test _ (firstn 289 crx_sched) H1 H2 H5 LCtl s' outs w "1"%string 0 E Hin).
Qed.
Print Assumptions crx_ex_theorems_apply.

(* (f) RuntimeError("no active workers") IS reachable -- exactly as crash_c17 and
   crash_no_active_workers_needs_different_collection allow: ONE worker; it dies entering test 0; its
   replacement (worker 1) collects a different list (3 tests instead of 4), so it is shut down instead
   of being given work; nobody is left while tests 2, 3, 1 are still in the pool (1, the rest of the dead
   worker's book, went to the END of the pool), and the session is
   not shutting down (errordown reset the flag): the controller raises. *)
Definition crx_cfg_diff : config :=
  {| c_mode := MLoad; c_numnodes := 1; c_chunk := None; c_maxfail := 0%Z; c_max_restart := Some 4%Z;
     c_requeue := 0; c_coll := fun n => if Nat.eqb n 1 then crx_names 3 else crx_names 4;
     c_oracle := fun _ => crx_oracle 4;
     c_dur := fun _ => 0%Z; c_crash_in := fun n i => Nat.eqb n 0 && Nat.eqb i 0; c_strict := false; c_spec := fun _ => 0 |}.

Example crx_ex_no_active_workers :
  crx_summary crx_cfg_diff (rounds 80 crx_round) =
    (Some (RError ERuntimeNoWorkers), [0], [], [1], [("0"%string, 0)], 2) /\
  pool (sys_run crx_cfg_diff (rounds 80 crx_round)) = [2; 3; 1] /\
  CrashCoupled (sys_run crx_cfg_diff (rounds 80 crx_round)).
Proof.
  split; [vm_compute; reflexivity|]. split; [vm_compute; reflexivity|].
  apply crash_coupling_invariant; [reflexivity| |cbn; lia].
  intros n i H. cbn in H. destruct H as [H|[]]. discriminate.
Qed.

(* (g) a plugin re-queues the crash item (c_requeue = 1; strict channels for a change): the crashed test
   3 goes back to the front of the pool and IS run by another worker -- all six tests are started; the
   theorems still apply *)
Definition crx_cfg_requeue : config :=
  {| c_mode := MLoad; c_numnodes := 2; c_chunk := None; c_maxfail := 0%Z; c_max_restart := Some 4%Z;
     c_requeue := 1; c_coll := fun _ => crx_names 6; c_oracle := fun _ => crx_oracle 6;
     c_dur := fun _ => 0%Z; c_crash_in := crx_crash13; c_strict := true; c_spec := fun _ => 0 |}.

Example crx_ex_requeue :
  crx_summary crx_cfg_requeue (rounds 80 crx_round) =
    (Some RFinished, [1], [0; 1; 4; 3; 2; 5], [2], [("3"%string, 1)], 3) /\
  (forall e, y_result (sys_run crx_cfg_requeue (rounds 80 crx_round)) <> Some (RError e)).
Proof.
  split; [vm_compute; reflexivity|].
  apply crash_controller_never_raises; [reflexivity| |cbn; lia|reflexivity].
  intros n i H. cbn in H. destruct H as [H|[]]. discriminate.
Qed.
