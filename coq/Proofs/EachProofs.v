(* EachProofs.v — machine-checked facts about Model/SchedEach.v (EachScheduling). *)
From XV Require Import Base Worker Ctl SchedLoad SchedEach.
Open Scope nat_scope.

Lemma aget_aset_same {V} n (v : V) m : aget n (aset n v m) = Some v.
Proof.
  induction m as [|[k x] m IH]; cbn.
  - rewrite Nat.eqb_refl. reflexivity.
  - destruct (Nat.eqb n k) eqn:E; cbn; rewrite E; [reflexivity|exact IH].
Qed.

Lemma aget_aset_other {V} n k (v : V) m : k <> n -> aget k (aset n v m) = aget k m.
Proof.
  intro H. induction m as [|[k' x] m IH]; cbn.
  - apply Nat.eqb_neq in H. rewrite H. reflexivity.
  - destruct (Nat.eqb n k') eqn:E; cbn.
    + apply Nat.eqb_eq in E. subst k'. apply Nat.eqb_neq in H. rewrite H. reflexivity.
    + rewrite IH. reflexivity.
Qed.

Lemma aset_not_nil {V} n (v : V) m : aset n v m <> [].
Proof. destruct m as [|[k x] m]; cbn; [discriminate|]. destruct (Nat.eqb n k); discriminate. Qed.

Lemma mem_nat_app_self n l : mem_nat n (l ++ [n]) = true.
Proof.
  unfold mem_nat. rewrite existsb_app. cbn. rewrite Nat.eqb_refl, orb_true_r. reflexivity.
Qed.

(* what node_shutdown puts on the wire for a node with flags c *)
Definition shutdown_outs (n : nat) (c : nctl) : list out :=
  if shutting_down c then [] else if n_closed c then [] else [OSend n CShutdown].
Definition send_outs (n : nat) (c : nctl) (x : cmd) : list out :=
  if n_closed c then [] else [OSend n x].

(* ---- (E1) e_schedule_node ---- *)

(* an initial node: run everything, then shut down *)
Theorem schedule_node_initial n s coll c :
  mem_nat n (e_started s) = false ->
  aget n (e_n2p s) = Some [] ->
  aget n (e_n2c s) = Some coll ->
  aget n (e_nt s) = Some c ->
  exists s',
    e_schedule_node n s = (s', send_outs n c CRunAll ++ shutdown_outs n c, Ok tt) /\
    aget n (e_n2p s') = Some (seq 0 (length coll)) /\
    (forall m, m <> n -> aget m (e_n2p s') = aget m (e_n2p s)) /\
    e_started s' = e_started s ++ [n] /\
    mem_nat n (e_started s') = true /\
    e_n2c s' = e_n2c s /\ e_removed s' = e_removed s /\ e_completed s' = e_completed s.
Proof.
  intros Hst Hp Hc Hnt.
  unfold e_schedule_node, node_shutdown, node_send, node_flags, mbind, get, put, of_opt,
    send_outs, shutdown_outs, shutting_down.
  rewrite Hst, Hp. cbn. rewrite Hc. cbn. rewrite Hnt. cbn.
  destruct (n_closed c) eqn:Ecl; cbn; rewrite ?Hnt; cbn;
    destruct (n_down c || n_sdsent c) eqn:Esd; cbn; rewrite ?Hnt; cbn; rewrite ?Ecl; cbn;
    (eexists; split; [reflexivity|]); cbn;
    (repeat split; [apply aget_aset_same | intros m Hm; apply aget_aset_other; exact Hm
                   | apply mem_nat_app_self]).
Qed.

(* a replacement node that inherited pending work: exactly that work is sent *)
Theorem schedule_node_inherited n s p c :
  mem_nat n (e_started s) = false ->
  aget n (e_n2p s) = Some p -> p <> [] ->
  aget n (e_nt s) = Some c ->
  e_schedule_node n s = (e_set_started s (e_started s ++ [n]), send_outs n c (CRun p), Ok tt).
Proof.
  intros Hst Hp Hne Hnt.
  unfold e_schedule_node, node_send, node_flags, mbind, get, put, of_opt, send_outs.
  rewrite Hst, Hp. cbn.
  destruct p as [|i p]; [contradiction|].
  destruct (aget n (e_n2c s)); cbn; rewrite Hnt; cbn; destruct (n_closed c); reflexivity.
Qed.

Theorem schedule_node_started n s :
  mem_nat n (e_started s) = true -> e_schedule_node n s = (s, [], Ok tt).
Proof. intro H. unfold e_schedule_node, mbind, get. rewrite H. reflexivity. Qed.

(* a replacement that has not yet reported its collection: nothing, and NOT started *)
Theorem schedule_node_no_collection n s :
  mem_nat n (e_started s) = false ->
  aget n (e_n2p s) = Some [] -> aget n (e_n2c s) = None ->
  e_schedule_node n s = (s, [], Ok tt).
Proof.
  intros Hst Hp Hc. unfold e_schedule_node, mbind, get, of_opt. rewrite Hst, Hp. cbn.
  rewrite Hc. reflexivity.
Qed.

(* ---- (E2) e_remove_node ---- *)
Theorem remove_node_crash n s i rest coll item :
  e_completed s = true ->
  aget n (e_n2p s) = Some (i :: rest) ->
  aget n (e_n2c s) = Some coll ->
  nth_error coll i = Some item ->
  exists s',
    e_remove_node n s = (s', [], Ok (Some item)) /\
    e_n2p s' = adel n (e_n2p s) /\ e_n2c s' = e_n2c s /\
    (rest <> [] -> aget n (e_removed s') = Some rest /\ e_tests_finished s' = false) /\
    (rest = [] -> e_removed s' = e_removed s).
Proof.
  intros Hc Hp Hcoll Hnth.
  unfold e_remove_node, mbind, get, put, of_opt. rewrite Hp. cbn. rewrite Hc. cbn.
  rewrite Hcoll. cbn. rewrite Hnth. cbn.
  destruct rest as [|j rest]; cbn; (eexists; split; [reflexivity|]); cbn.
  - split; [reflexivity|]. split; [reflexivity|]. split; [congruence|reflexivity].
  - split; [reflexivity|]. split; [reflexivity|]. split; [|discriminate].
    intros _. split; [apply aget_aset_same|].
    unfold e_tests_finished. cbn.
    destruct (aset n (j :: rest) (e_removed s)) eqn:E.
    + exfalso. eapply aset_not_nil. exact E.
    + rewrite andb_false_r. reflexivity.
Qed.

(* a node that held nothing: no crashed item, nothing recorded *)
Theorem remove_node_idle n s :
  e_completed s = true ->
  aget n (e_n2p s) = Some [] ->
  e_remove_node n s = (e_set_n2p s (adel n (e_n2p s)), [], Ok None).
Proof.
  intros Hc Hp. unfold e_remove_node, mbind, get, put, of_opt. rewrite Hp. cbn. rewrite Hc. reflexivity.
Qed.

(* ---- (E4) ---- *)
Theorem tests_finished_no_remainder s : e_tests_finished s = true -> e_removed s = [].
Proof.
  unfold e_tests_finished. intro H.
  destruct (e_removed s); [reflexivity|].
  rewrite andb_false_r in H. discriminate.
Qed.

(* ---- (E3) e_add_node_collection for a late (replacement) node ---- *)

(* same spec, same collection: the remainder of the dead node is inherited *)
Theorem add_node_collection_inherits n s coll d pend tl x dcoll :
  e_completed s = true ->
  ahas n (e_n2p s) = true ->
  e_removed s = (d, pend) :: tl ->
  spec_of s d = Some x -> spec_of s n = Some x ->
  aget d (e_n2c s) = Some dcoll ->
  coll_eqb coll dcoll = true ->
  pend <> [] ->
  exists s',
    e_add_node_collection n coll s = (s', [], Ok tt) /\
    aget n (e_n2p s') = Some pend /\
    aget n (e_n2c s') = Some dcoll /\
    e_removed s' = tl /\
    e_started s' = e_started s /\ e_nt s' = e_nt s.
Proof.
  intros Hc Hh Hr Hsd Hsn Hdc Heq Hne.
  unfold e_add_node_collection, mbind, get, put, of_opt, massert.
  rewrite Hh. cbn. rewrite Hc. cbn. rewrite Hr. cbn.
  unfold mbind, get, put, of_opt. rewrite Hsd, Hsn. cbn. rewrite Nat.eqb_refl. cbn.
  rewrite Hdc. cbn. rewrite Heq. cbn. rewrite aget_aset_same. cbn.
  destruct pend as [|p0 pend]; [contradiction|]. cbn.
  eexists. split; [reflexivity|]. cbn. rewrite Hr. cbn. rewrite Nat.eqb_refl.
  repeat split; apply aget_aset_same.
Qed.

(* same spec, different collection: only logged; nothing is inherited, the node is
   shut down and marked started *)
Theorem add_node_collection_diff n s coll d pend tl x dcoll c :
  e_completed s = true ->
  aget n (e_n2p s) = Some [] ->
  e_removed s = (d, pend) :: tl ->
  spec_of s d = Some x -> spec_of s n = Some x ->
  aget d (e_n2c s) = Some dcoll ->
  coll_eqb coll dcoll = false ->
  aget n (e_nt s) = Some c ->
  exists s',
    e_add_node_collection n coll s = (s', OLogDiff d n :: shutdown_outs n c, Ok tt) /\
    e_n2p s' = e_n2p s /\ e_n2c s' = e_n2c s /\ e_removed s' = e_removed s /\
    e_started s' = e_started s ++ [n] /\
    (shutting_down c = false ->
       exists c', aget n (e_nt s') = Some c' /\ n_sdsent c' = true).
Proof.
  intros Hc Hp Hr Hsd Hsn Hdc Heq Hnt.
  unfold e_add_node_collection, node_shutdown, node_send, node_flags, mbind, get, put, of_opt,
    massert, ahas, shutdown_outs, shutting_down.
  rewrite Hp. cbn. rewrite Hc. cbn. rewrite Hr. cbn.
  unfold mbind, get, put, of_opt, emit. rewrite Hsd, Hsn. cbn. rewrite Nat.eqb_refl. cbn.
  rewrite Hdc. cbn. rewrite Heq. cbn. rewrite Hp. cbn. rewrite Hnt. cbn.
  destruct (n_down c || n_sdsent c) eqn:Esd; cbn.
  - eexists. split; [reflexivity|]. cbn. rewrite ?Hr.
    do 4 (split; [reflexivity|]). discriminate.
  - rewrite Hnt. cbn. destruct (n_closed c) eqn:Ecl; cbn;
      (eexists; split; [reflexivity|]); cbn; rewrite ?Hr;
      do 4 (split; [reflexivity|]); intros _;
      eexists; (split; [apply aget_aset_same|reflexivity]).
Qed.

(* dead nodes of another spec are skipped by the search *)
Lemma e_inherit_skip n coll s x pre rest :
  spec_of s n = Some x ->
  Forall (fun p => exists y, spec_of s (fst p) = Some y /\ y <> x) pre ->
  e_inherit n coll (pre ++ rest) s = e_inherit n coll rest s.
Proof.
  intros Hn. induction 1 as [|[d pend] pre [y [Hy Hne]] Hall IH]; [reflexivity|].
  cbn [app e_inherit]. cbn [fst] in Hy.
  unfold mbind at 1, get at 1. unfold mbind at 1. rewrite Hy. cbn [of_opt ret].
  unfold mbind at 1. rewrite Hn. cbn [of_opt ret].
  apply Nat.eqb_neq in Hne. rewrite Hne. rewrite IH.
  destruct (e_inherit n coll rest s) as [[s2 o2] r2]. reflexivity.
Qed.

(* general form of the inheritance: the first dead node WITH THE SAME SPEC is the donor *)
Theorem add_node_collection_inherits_first_match n s coll pre d pend tl x dcoll :
  e_completed s = true ->
  ahas n (e_n2p s) = true ->
  e_removed s = pre ++ (d, pend) :: tl ->
  Forall (fun p => exists y, spec_of s (fst p) = Some y /\ y <> x) pre ->
  spec_of s d = Some x -> spec_of s n = Some x ->
  aget d (e_n2c s) = Some dcoll ->
  coll_eqb coll dcoll = true ->
  pend <> [] ->
  exists s',
    e_add_node_collection n coll s = (s', [], Ok tt) /\
    aget n (e_n2p s') = Some pend /\
    aget n (e_n2c s') = Some dcoll /\
    e_removed s' = adel d (e_removed s) /\
    e_started s' = e_started s /\ e_nt s' = e_nt s.
Proof.
  intros Hc Hh Hr Hpre Hsd Hsn Hdc Heq Hne.
  unfold e_add_node_collection.
  unfold mbind at 1, get at 1. unfold mbind at 1, massert. rewrite Hh. cbn [ret].
  rewrite Hc. cbn [negb]. unfold mbind at 1. rewrite Hr.
  rewrite (e_inherit_skip n coll s x pre _ Hsn Hpre).
  cbn [e_inherit]. unfold mbind, get, put, of_opt. rewrite Hsd, Hsn. cbn.
  rewrite Nat.eqb_refl. cbn. rewrite Hdc. cbn. rewrite Heq. cbn. rewrite aget_aset_same. cbn.
  destruct pend as [|p0 pend]; [contradiction|]. cbn.
  eexists. split; [reflexivity|]. cbn. rewrite Hr.
  repeat split; apply aget_aset_same.
Qed.

(* ---- non-vacuity: concrete runs ---- *)
Definition nc (spec : nat) : nctl :=
  {| n_spec := spec; n_down := false; n_sdsent := false; n_closed := false |}.
Open Scope string_scope.

(* node 0 (2 tests collected) is scheduled: runall + shutdown, both tests booked *)
Example ex_schedule_initial :
  let s := {| e_nt := [(0, nc 7)]; e_numnodes := 1; e_n2c := [(0, ["a"; "b"])];
              e_n2p := [(0, [])]; e_started := []; e_removed := []; e_completed := true |} in
  let '(s', outs, r) := e_schedule_node 0 s in
  outs = [OSend 0 CRunAll; OSend 0 CShutdown] /\ r = Ok tt /\
  aget 0 (e_n2p s') = Some [0; 1] /\ e_started s' = [0].
Proof. vm_compute. repeat split. Qed.

(* node 0 crashes while holding [1;2]: test "b" crashed, [2] waits for a replacement;
   replacement node 1 (same spec, same collection) inherits [2] and gets exactly CRun [2] *)
Example ex_crash_then_replacement :
  let s := {| e_nt := [(0, nc 7); (1, nc 7)]; e_numnodes := 1; e_n2c := [(0, ["a"; "b"; "c"])];
              e_n2p := [(0, [1; 2])]; e_started := [0]; e_removed := []; e_completed := true |} in
  let '(s1, o1, r1) := e_remove_node 0 s in
  let '(s2, o2, r2) := e_add_node 1 s1 in
  let '(s3, o3, r3) := e_add_node_collection 1 ["a"; "b"; "c"] s2 in
  let '(s4, o4, r4) := e_schedule_node 1 s3 in
  r1 = Ok (Some "b") /\ e_removed s1 = [(0, [2])] /\ e_tests_finished s1 = false /\
  o3 = [] /\ aget 1 (e_n2p s3) = Some [2] /\ e_removed s3 = [] /\
  o4 = [OSend 1 (CRun [2])] /\ e_started s4 = [0; 1].
Proof. vm_compute. repeat split. Qed.
Close Scope string_scope.

Print Assumptions schedule_node_initial.
Print Assumptions schedule_node_inherited.
Print Assumptions remove_node_crash.
Print Assumptions tests_finished_no_remainder.
Print Assumptions add_node_collection_inherits.
Print Assumptions add_node_collection_diff.
Print Assumptions add_node_collection_inherits_first_match.
