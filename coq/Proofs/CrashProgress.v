(* CrashProgress.v -- property C02 ("the distributed session always terminates"), the no-stand-off half,
   for --dist load WITH worker failures.

   Main theorem (crash_c02_no_deadlock_useful): in EVERY state of Model/System.v reachable by ANY schedule
   (crash labels LCrash allowed at any moment, any c_crash_in, any restart budget -- None included --, any
   c_requeue, c_strict or not, workers collecting different lists) in which the session has not ended, some
   component can make a USEFUL NON-CRASH move: the controller's receiver thread has a message or an end
   marker to read, the controller's main loop has an event to handle, a command can be delivered, a worker's
   receiver thread has something to unpack, or a worker's main thread is not blocked.
   Hypotheses: c_mode c = MLoad, no_garbled c, 0 < c_numnodes c.  Nothing else.

   The proof adds to the system invariant XInv of CrashTheorems.v a progress invariant QInv:
     QC  (controller)  not shutting down => tests_finished is false; the "two tests" law TwoX (while the pool
                       is not empty every registered node that has reported its collection and is not
                       shutting down holds >= 2 tests -- a pure scheduler law, valid whatever the shutdown
                       flag); shutting down => every registered node was told to shut down or is down;
                       before the collection is complete (no stop request, budget not exhausted) at least
                       numnodes nodes are active (a dead node is replaced, so the count never drops);
     QA  (alive worker) booted => its "ready" is in flight, or it is registered, or it is shutting down;
                       collected => its collection is in flight, or recorded, or it is shutting down;
                       exited => its "finished" is in flight or it is not active; told to shut down => the
                       marker is in its command stream; callback installed once past the first get();
     QN  (every worker) a recorded collection => no "ready" in flight.
   Organisation: part A scheduler-level facts (TwoX through every scheduler call); part B what one
   controller iteration guarantees beyond CrashCoupling.HEFF' (record LX, theorem loop_lx), handler by
   handler, errordown with crash item / re-queueing / restart budget / _clone_node included; part C the
   invariant and its preservation by every label; part D quiescent states are impossible, the theorems,
   non-vacuity examples. *)
From XV Require Import Base Worker Ctl SchedLoad SchedSteal SchedScope SchedEach Sched DSession System
  NoHook DSessionProofs WorkerProofs LoadProofs FifoProofs ExactlyOnce Coupling CrashCoupling CrashTheorems.
From XV Require LivenessLaws Progress.
From Coq Require Import Permutation.
Open Scope nat_scope.

(* ###################################### part A ###################################### *)

(* ====================================================================================== *)
(* A. the scheduler: while the pool is not empty, every registered node that has reported   *)
(*    its collection and is not shutting down holds at least two tests                      *)
(* ====================================================================================== *)
Definition T2 (E : nat -> Prop) (ls : lstate) : Prop :=
  l_pending ls <> [] -> forall m f b, ~ E m -> aget m (l_n2p ls) = Some b -> aget m (l_nt ls) = Some f ->
  shutting_down f = false -> ahas m (l_n2c ls) = true -> 2 <= length b.
Definition TwoX (ls : lstate) : Prop := T2 (fun _ => False) ls.

Lemma T2_all ls : T2 (fun _ => True) ls.
Proof. intros _ m f b F. exfalso. apply F. exact I. Qed.

Lemma T2_weaken (E E' : nat -> Prop) ls : (forall m, E m -> E' m) -> T2 E ls -> T2 E' ls.
Proof. intros H T Hp m f b Hm. apply (T Hp). intros F. apply Hm. apply H. exact F. Qed.

Lemma T2_pool_empty E ls : l_pending ls = [] -> T2 E ls.
Proof. intros E0 Hp. contradiction. Qed.

Lemma check_frame n dur s s' o :
  l_check_schedule n dur s = (s', o, Ok tt) ->
  l_n2c s' = l_n2c s /\ akeys (l_n2p s') = akeys (l_n2p s) /\
  (l_pending s' = [] \/
   (l_nt s' = l_nt s /\ (exists mv, l_pending s = mv ++ l_pending s') /\
    forall m, m <> n -> aget m (l_n2p s') = aget m (l_n2p s))).
Proof.
  intros H. pose proof (l_check_schedule_keeps _ _ _ _ _ _ H) as (Kc & Kn & Km & Kch & Kk).
  split; [exact Kn|]. split; [exact Kk|].
  apply l_check_schedule_cases in H.
  destruct H as [(_ & _ & _ & F)|[(c & _ & _ & -> & _)|[(c & En & Esd & Ep & H)|[(c & _ & _ & _ & -> & _)|(c & num & En & Esd & Ep & H)]]]].
  - discriminate.
  - right. split; [reflexivity|]. split; [exists []; reflexivity|auto].
  - left. apply node_shutdown_effect in H. destruct H as (P & _). congruence.
  - right. split; [reflexivity|]. split; [exists []; reflexivity|auto].
  - apply l_send_tests_cases in H. cbv zeta in H.
    destruct H as [(Et & -> & _)|[(_ & _ & _ & _ & F)|(Hne & cur & Ec & -> & Hr)]].
    + right. split; [reflexivity|]. split; [exists []; reflexivity|auto].
    + discriminate.
    + right. cbn [l_nt l_set_n2p l_set_pending l_pending l_n2p]. split; [reflexivity|].
      split; [exists (py_take num (l_pending s)); symmetry; apply py_take_drop|].
      intros m Hm. rewrite LoadProofs.aget_aset. apply Nat.eqb_neq in Hm. rewrite Hm. reflexivity.
Qed.

Lemma app_ne_r {A} (a b : list A) : b <> [] -> a ++ b <> [].
Proof. intros H F. apply app_eq_nil in F. tauto. Qed.

(* one scheduling decision for node n repairs the law at n and keeps it elsewhere *)
Lemma T2_check n dur E s s' o :
  l_check_schedule n dur s = (s', o, Ok tt) -> T2 E s -> T2 (fun m => E m /\ m <> n) s'.
Proof.
  intros H T Hp m f b Hm Eb Ef Hsd Hc.
  destruct (check_frame _ _ _ _ _ H) as (Kn & Kk & [F|(Ent & (mv & Emv) & Eoth)]); [contradiction|].
  assert (Hp0 : l_pending s <> []) by (rewrite Emv; apply app_ne_r; exact Hp).
  rewrite Ent in Ef. rewrite Kn in Hc.
  destruct (Nat.eq_dec m n) as [->|Hne].
  - assert (Hk : aget n (l_n2p s) <> None).
    { apply aget_In_keys. rewrite <- Kk. apply aget_In_keys. congruence. }
    destruct (aget n (l_n2p s)) as [b0|] eqn:Eb0; [|congruence].
    destruct (LivenessLaws.V1_load_check_schedule_gen n dur s s' o f b0 H Ef Hsd Hc Eb0)
      as [(c' & Ec' & Hs')|[(b' & Eb' & Hl)|F]].
    + rewrite Ent, Ef in Ec'. inv Ec'. congruence.
    + congruence.
    + contradiction.
  - rewrite (Eoth m Hne) in Eb. apply (T Hp0 m f b); auto.
Qed.

Lemma T2_mfor dur l : forall E s s' o,
  mfor l (fun m => l_check_schedule m dur) s = (s', o, Ok tt) -> T2 E s -> T2 (fun m => E m /\ ~ In m l) s'.
Proof.
  induction l as [|x l IH]; intros E s s' o H T.
  - cbn in H. unfold ret in H. inv H. eapply T2_weaken; [|exact T]. intros m Hm. split; [exact Hm|intros []].
  - cbn [mfor] in H. apply LoadProofs.mbind_inv in H.
    destruct H as [(e & _ & F)|(s1 & o1 & [] & o2 & H1 & H2 & ->)]; [discriminate|].
    pose proof (T2_check _ _ _ _ _ _ H1 T) as T1.
    pose proof (IH _ _ _ _ H2 T1) as T2'.
    eapply T2_weaken; [|exact T2']. intros m ((A & C) & B). split; [exact A|].
    intros [F|F]; [apply C; symmetry; exact F|exact (B F)].
Qed.

(* the rescheduling loop over all registered nodes establishes the law, whatever held before *)
Lemma two_all s s' o dur :
  mfor (akeys (l_n2p s)) (fun m => l_check_schedule m dur) s = (s', o, Ok tt) -> TwoX s'.
Proof.
  intros H. pose proof (T2_mfor _ _ _ _ _ _ H (T2_all s)) as T.
  pose proof (mfor_check_keeps _ _ _ _ _ _ H) as (_ & _ & _ & _ & Kk).
  intros Hp m f b _ Eb. apply (T Hp m f b); [|exact Eb]. intros (_ & F). apply F. rewrite <- Kk.
  apply aget_In_keys. congruence.
Qed.

Lemma two_complete n i d s s' o :
  l_mark_test_complete n i d s = (s', o, Ok tt) -> TwoX s -> TwoX s'.
Proof.
  intros H T. apply l_mark_test_complete_cases in H.
  destruct H as [(_ & _ & _ & F)|[(cur & _ & _ & _ & _ & F)|(cur & cur' & Ec & Er & H)]]; try discriminate.
  assert (T0 : T2 (fun m => m = n) (l_set_n2p s (aset n cur' (l_n2p s)))).
  { intros Hp m f b Hm Eb Ef Hsd Hc. cbn [l_n2p l_set_n2p l_nt l_n2c l_pending] in *.
    rewrite LoadProofs.aget_aset in Eb. apply Nat.eqb_neq in Hm. rewrite Hm in Eb. apply (T Hp m f b); auto. }
  eapply T2_weaken; [|exact (T2_check _ _ _ _ _ _ H T0)]. intros m (A & B). contradiction.
Qed.

Lemma ahas_adel_back {V} n m (mp : amap V) : ahas m (adel n mp) = true -> ahas m mp = true.
Proof.
  unfold ahas. destruct (aget m (adel n mp)) eqn:E; [|discriminate]. intros _.
  assert (Hin : In m (akeys (adel n mp))) by (apply aget_In_keys; congruence).
  apply adel_keys_incl in Hin. apply aget_In_keys in Hin. destruct (aget m mp); [reflexivity|congruence].
Qed.

Lemma rm_state_n2c_has n s m : ahas m (l_n2c (rm_state n s)) = true -> ahas m (l_n2c s) = true.
Proof.
  unfold rm_state. cbv zeta. destruct (l_collection_is_completed (l_set_n2p s (adel n (l_n2p s)))); cbn; [auto|].
  apply ahas_adel_back.
Qed.

Lemma two_remove n s s' o x :
  NoDup (l_nodes s) -> l_remove_node n s = (s', o, Ok x) -> TwoX s -> TwoX s'.
Proof.
  intros ND H T. apply l_remove_node_cases in H.
  destruct (rm_state_fields n s) as (Fp & Fq & Fc & Fn & Fch & Fm).
  destruct H as [(_ & _ & _ & F)|[(Eb & -> & _ & _)|(i & rest & Eb & H)]]; [discriminate| |].
  - intros Hp m f b _ Ebm Ef Hsd Hc. rewrite Fq in Hp. rewrite Fn in Ef. rewrite Fp in Ebm.
    destruct (Nat.eq_dec m n) as [->|Hne].
    + rewrite (aget_adel_eq n _ ND) in Ebm. discriminate.
    + rewrite aget_adel_neq in Ebm by exact Hne. apply (T Hp m f b); auto. eapply rm_state_n2c_has; eauto.
  - destruct H as [(_ & _ & _ & F)|[(c0 & _ & _ & _ & _ & F)|(c0 & item & r0 & Ec & En & H & Hr)]]; try discriminate.
    destruct r0 as [[]|e]; [|discriminate].
    apply (two_all (l_set_pending (rm_state n s) (l_pending s ++ rest)) s' o 0%Z).
    cbn [l_n2p l_set_pending]. rewrite Fp. exact H.
Qed.

Lemma two_pending item s s' o : l_mark_test_pending item s = (s', o, Ok tt) -> TwoX s'.
Proof.
  intros H. unfold l_mark_test_pending in H. rewrite mbind_get in H.
  destruct (l_coll s) as [coll|] eqn:Ec; [|cbn in H; unfold mbind, raise in H; discriminate].
  cbn [of_opt] in H. rewrite mbind_ret in H.
  destruct (index_of_str item coll) as [idx|] eqn:Ei; [|cbn in H; unfold mbind, raise in H; discriminate].
  cbn [of_opt] in H. rewrite mbind_ret, mbind_put, mbind_get in H.
  eapply two_all. exact H.
Qed.

Lemma two_add_node n s s' o :
  l_add_node n s = (s', o, Ok tt) -> ahas n (l_n2c s) = false -> TwoX s -> TwoX s'.
Proof.
  intros H Hn T. unfold l_add_node in H. rewrite mbind_get in H.
  destruct (negb (ahas n (l_n2p s))) eqn:E; cbn [massert] in H; [|unfold mbind, raise in H; discriminate].
  rewrite mbind_ret in H. unfold put in H. inv H.
  intros Hp m f b _ Eb Ef Hsd Hc. cbn [l_n2p l_set_n2p l_nt l_n2c l_pending] in *.
  rewrite LoadProofs.aget_aset in Eb. destruct (Nat.eqb m n) eqn:Em.
  - apply Nat.eqb_eq in Em. subst m. congruence.
  - apply (T Hp m f b); auto.
Qed.

(* steps that only raise flags / add a controller for an unregistered id *)
Lemma two_flags s s' :
  l_n2p s' = l_n2p s -> l_n2c s' = l_n2c s -> l_pending s' = l_pending s ->
  (forall m f', In m (l_nodes s) -> aget m (l_nt s') = Some f' -> shutting_down f' = false ->
     exists f, aget m (l_nt s) = Some f /\ shutting_down f = false) ->
  TwoX s -> TwoX s'.
Proof.
  intros Ep Ec Eq Hf T Hp m f' b _ Eb Ef' Hsd Hc. rewrite Ep in Eb. rewrite Ec in Hc. rewrite Eq in Hp.
  assert (Hin : In m (l_nodes s)) by (apply aget_In_keys; congruence).
  destruct (Hf m f' Hin Ef' Hsd) as (f & Ef & Hs). apply (T Hp m f b); auto.
Qed.

Lemma two_node_shutdown n s s' o r :
  node_shutdown l_nt l_set_nt n s = (s', o, r) -> TwoX s -> TwoX s'.
Proof.
  intros H T. pose proof (node_shutdown_effect _ _ _ _ _ H) as (P & B & (_ & Kn & _) & _).
  apply (two_flags s s' B Kn P); [|exact T].
  intros m f' _ Ef' Hsd. apply node_shutdown_cases in H.
  destruct H as [(_ & -> & _)|[(c & _ & _ & -> & _)|(c & En & Esd & _ & -> & _)]]; eauto.
  cbn [l_nt l_set_nt] in Ef'. rewrite LoadProofs.aget_aset in Ef'. destruct (Nat.eqb m n) eqn:E; [|eauto].
  inv Ef'. unfold shutting_down, sd_mark in Hsd. cbn in Hsd. rewrite orb_true_r in Hsd. discriminate.
Qed.

Lemma two_mfor_shutdown l : forall s s' o r,
  mfor l (fun n => node_shutdown l_nt l_set_nt n) s = (s', o, r) -> TwoX s -> TwoX s'.
Proof.
  induction l as [|x l IH]; intros s s' o r H T.
  - cbn in H. unfold ret in H. inv H. exact T.
  - cbn [mfor] in H. apply LoadProofs.mbind_inv in H.
    destruct H as [(e & H1 & _)|(s1 & o1 & a & o2 & H1 & H2 & _)].
    + eapply two_node_shutdown; eauto.
    + eapply IH; [exact H2|]. eapply two_node_shutdown; eauto.
Qed.

(* schedule(): the first call distributes so that the law holds; later calls are the rescheduling loop *)
Lemma two_schedule s s' o :
  l_schedule s = (s', o, Ok tt) -> (l_coll s = None -> l_pending s = [] /\ books s = []) -> TwoX s'.
Proof.
  intros H Hi. destruct (l_coll s) as [c0|] eqn:Ec.
  - unfold l_schedule in H. rewrite mbind_get in H.
    destruct (l_collection_is_completed s); cbn [massert] in H; [|unfold mbind, raise in H; discriminate].
    rewrite mbind_ret, Ec in H. eapply two_all. exact H.
  - destruct (Hi eq_refl) as (Ep & Eb).
    destruct (l_schedule_L8 _ _ _ H Ec Ep Eb) as [(_ & -> & _)|(coll & Ec' & _)].
    + apply T2_pool_empty. exact Ep.
    + destruct (LivenessLaws.l_schedule_first _ _ _ _ H Ec Ec') as (_ & [(_ & ->)|(_ & [(Hne & Htwo)|(Hem & _)])]).
      * apply T2_pool_empty. reflexivity.
      * intros _ m f b _ Ebm _ _ _. assert (Hin : In m (l_nodes s')) by (apply aget_In_keys; congruence).
        destruct (Htwo m Hin) as (b' & Eb' & Hl). congruence.
      * apply T2_pool_empty. exact Hem.
Qed.

(* a collection arrives *)
Lemma add_coll_frame n ids s s' o :
  l_add_node_collection n ids s = (s', o, Ok tt) ->
  l_n2p s' = l_n2p s /\ l_pending s' = l_pending s /\ l_coll s' = l_coll s /\ l_numnodes s' = l_numnodes s /\
  l_chunk s' = l_chunk s /\
  ((l_n2c s' = aset n ids (l_n2c s) /\ l_nt s' = l_nt s) \/
   (l_n2c s' = l_n2c s /\ l_collection_is_completed s = true /\
    exists o2, node_shutdown l_nt l_set_nt n s = (s', o2, Ok tt))).
Proof.
  intros H. unfold l_add_node_collection in H. rewrite mbind_get in H.
  destruct (ahas n (l_n2p s)); cbn [massert] in H; [|unfold mbind, raise in H; discriminate].
  rewrite mbind_ret in H. destruct (l_collection_is_completed s) eqn:Hc.
  - destruct (l_coll s) as [[|c0 cr]|] eqn:Ecl; try (unfold raise in H; discriminate).
    destruct (coll_eqb ids (c0 :: cr)).
    + unfold put in H. inv H. cbn. repeat (split; [first [reflexivity|assumption]|]). left. split; reflexivity.
    + destruct (first_key (l_n2c s)) as [other|]; cbn [of_opt] in H; [|unfold mbind, raise in H; discriminate].
      rewrite mbind_ret, mbind_emit in H.
      destruct (node_shutdown l_nt l_set_nt n s) as [[s2 o2] r2] eqn:En. inv H.
      pose proof (node_shutdown_effect _ _ _ _ _ En) as (P & B & (Kc & Kn & Km & Kch & _) & _).
      repeat (split; [first [assumption|congruence]|]). right. split; [exact Kn|]. split; [reflexivity|]. eauto.
  - unfold put in H. inv H. cbn. repeat (split; [first [reflexivity|assumption]|]). left. split; reflexivity.
Qed.


(* ###################################### part B ###################################### *)

Ltac mbo2 H t p a q H1 :=
  apply LoadProofs.mbind_inv in H;
  destruct H as [(?e & ?He & ?Hr)|(t & p & a & q & H1 & H & ->)]; [congruence|].

(* the node set, the recorded collections and numnodes: untouched by schedule() *)
Definition KK (s s' : lstate) : Prop :=
  l_n2c s' = l_n2c s /\ l_numnodes s' = l_numnodes s /\ akeys (l_n2p s') = akeys (l_n2p s).

Lemma KK_of_keeps s s' o : keeps s s' o -> KK s s'.
Proof. intros (_ & A & B & _ & C). repeat split; assumption. Qed.

Lemma KK_trans a b c : KK a b -> KK b c -> KK a c.
Proof. intros (A1 & A2 & A3) (B1 & B2 & B3). repeat split; congruence. Qed.

Lemma l_schedule_kk s s' o : l_schedule s = (s', o, Ok tt) -> KK s s'.
Proof.
  intros H. destruct (l_coll s) as [c0|] eqn:Ec.
  - unfold l_schedule in H. rewrite mbind_get in H.
    destruct (l_collection_is_completed s); cbn [massert] in H; [|unfold mbind, raise in H; discriminate].
    rewrite mbind_ret, Ec in H. eapply KK_of_keeps. eapply mfor_check_keeps. exact H.
  - unfold l_schedule in H.
    mbo2 H t0 p0 a0 uu0 Hg. unfold get in Hg. injection Hg as <- <- <-. cbn [app].
    mbo2 H t1 p1 a1 uu1 Ha.
    assert (E1 : t1 = s).
    { destruct (l_collection_is_completed s); unfold massert, ret, raise in Ha; inv Ha; auto. }
    subst t1. clear Ha. rewrite Ec in H.
    mbo2 H t2 p2 same uu2 Hs. apply l_same_collection_effect in Hs. destruct Hs as (-> & Es).
    destruct same; cbn [negb] in H.
    2:{ unfold ret in H. inv H. repeat split; reflexivity. }
    mbo2 H t3 p3 a3 uu3 Hg. unfold get in Hg. injection Hg as <- <- <-. cbn [app].
    mbo2 H t4 p4 coll uu4 Ho4.
    destruct (l_n2c s) as [|[k c] others] eqn:En2c; cbn in Ho4; [discriminate|]. injection Ho4 as <- <- <-. cbn [app].
    mbo2 H t5 p5 a5 uu5 Hp. unfold put in Hp. injection Hp as <- <- <-. cbn [app].
    destruct c as [|c0 cr].
    { unfold ret in H. inv H. repeat split; cbn; auto. }
    set (coll := c0 :: cr) in *.
    set (s1 := l_set_pending (l_set_coll s (Some coll)) (seq 0 (length coll))) in *.
    mbo2 H t6 p6 a6 uu6 Hg. unfold get in Hg. injection Hg as <- <- <-. cbn [app].
    mbo2 H t7 p7 a7 uu7 Hp. unfold put in Hp. injection Hp as <- <- <-. cbn [app].
    mbo2 H t8 p8 a8 uu8 Hg. unfold get in Hg. injection Hg as <- <- <-. cbn [app].
    match type of H with context [l_set_chunk s1 (Some ?ch)] => set (chunk := ch) in * end.
    set (s3 := l_set_chunk s1 (Some chunk)) in *.
    mbo2 H t9 p9 a9 uu9 Hmid.
    mbo2 H t10 p10 a10 uu10 Hg. unfold get in Hg. injection Hg as <- <- <-. cbn [app].
    assert (Hok : step_ok s3 t9 p9).
    { destruct a9. destruct (zlen (l_pending s3) <? 2 * zlen (l_nodes s3))%Z.
      - eapply l_round_robin_step_ok. exact Hmid.
      - destruct (zlen (l_n2p s3) =? 0)%Z; [unfold raise in Hmid; inv Hmid|].
        eapply mfor_send_tests_step_ok. exact Hmid. }
    assert (Hq : LoadProofs.quiet t9 s' uu10).
    { destruct (l_pending t9).
      - eapply mfor_shutdown_quiet. exact H.
      - unfold ret in H. inv H. apply quiet_refl. }
    destruct Hok as (_ & K1 & _). destruct Hq as (_ & _ & K2 & _).
    apply (KK_trans s t9 s'); [|eapply KK_of_keeps; exact K2].
    apply KK_of_keeps in K1. destruct K1 as (A & B & C). repeat split; [rewrite A|rewrite B|rewrite C]; cbn; auto.
Qed.

Lemma completed_KK s s' : KK s s' -> l_collection_is_completed s' = l_collection_is_completed s.
Proof. intros (A & B & _). unfold l_collection_is_completed. rewrite A, B. reflexivity. Qed.

Definition allsd (ls : lstate) : Prop := forall m, In m (l_nodes ls) -> LivenessLaws.sd_in (l_nt ls) m.
Definition sdsent_in (ls : lstate) (n : nat) : Prop := exists f, aget n (l_nt ls) = Some f /\ n_sdsent f = true.

(* triggershutdown: only flags change, every registered node is told (when the flag was not set before) *)
Lemma trigger_shape d ls d' o :
  d_sched d = StL ls -> d_triggershutdown d = (d', o, Ok tt) ->
  exists ls', d' = d_with d true ls' /\ l_pending ls' = l_pending ls /\ l_n2p ls' = l_n2p ls /\ KK ls ls' /\
    (TwoX ls -> TwoX ls') /\ (d_shuttingdown d = true -> ls' = ls) /\ (d_shuttingdown d = false -> allsd ls') /\
    (forall m, LivenessLaws.sd_in (l_nt ls) m -> LivenessLaws.sd_in (l_nt ls') m).
Proof.
  intros Els H. unfold d_triggershutdown in H. unfold mbind at 1, get in H.
  destruct (d_shuttingdown d) eqn:Esd.
  - unfold ret in H. inv H. exists ls. split.
    { unfold d_with. destruct d'; cbn in *; subst; reflexivity. }
    repeat split; auto. discriminate.
  - unfold mbind, put in H.
    rewrite (mfor_liftD d_node_shutdown (fun n => node_shutdown l_nt l_set_nt n) _ d_node_shutdown_lift
               (d_set_shuttingdown d true) ls) in H by exact Els.
    rewrite Els in H. cbn [s_nodes] in H.
    destruct (mfor (l_nodes ls) (fun n => node_shutdown l_nt l_set_nt n) ls) as [[ls2 o2] r2] eqn:Em.
    cbn [liftD app] in H. inv H.
    pose proof (mfor_shutdown_quiet _ _ _ _ _ Em) as (P & B & K & _).
    exists ls2. split; [reflexivity|]. split; [exact P|]. split; [exact B|]. split; [eapply KK_of_keeps; exact K|].
    split; [eapply two_mfor_shutdown; exact Em|]. split; [discriminate|].
    change (fun n : nat => node_shutdown l_nt l_set_nt n) with (node_shutdown l_nt l_set_nt) in Em.
    destruct (LivenessLaws.g_shut_loop lstate l_nt l_set_nt (fun _ _ => eq_refl) _ _ _ _ Em) as (A & M & _).
    split; [|exact M]. intros _ m Hm. apply A. unfold l_nodes in *. rewrite B in Hm. exact Hm.
Qed.

Lemma length_aset_ge' {V} n (v : V) m : length m <= length (aset n v m).
Proof. induction m as [|[k x] m IH]; cbn; [lia|]. destruct (Nat.eqb n k); cbn; lia. Qed.

Section CtlQ.
Variable N : nat.
Variable collf : nat -> list string.
Hypothesis HN : 0 < N.

(* flags through a handler / an iteration: the down flag is the receiver's, "told to shut down" is permanent *)
Lemma heff_flag_fwd ev d ls d1 ls1 vo m f :
  HEFF' N collf ev d ls d1 ls1 vo -> m < d_next_gw d -> aget m (l_nt ls) = Some f ->
  exists f1, aget m (l_nt ls1) = Some f1 /\ n_down f1 = n_down f /\ (n_sdsent f = true -> n_sdsent f1 = true).
Proof.
  intros E Hm Ef. pose proof (he_nt' _ _ _ _ _ _ _ _ E m Hm) as R. rewrite Ef in R.
  destruct (aget m (l_nt ls1)) as [f1|]; [|destruct R]. cbn in R.
  destruct (NR_fields _ _ _ R) as (_ & Bd & _ & Dsd & _). exists f1. split; [reflexivity|]. split; [exact Bd|].
  intros Hs. apply Dsd. left. exact Hs.
Qed.

Lemma heff_flag_back ev d ls d1 ls1 vo m f1 :
  HEFF' N collf ev d ls d1 ls1 vo -> m < d_next_gw d -> aget m (l_nt ls1) = Some f1 ->
  exists f, aget m (l_nt ls) = Some f /\ n_down f1 = n_down f /\ (n_sdsent f = true -> n_sdsent f1 = true).
Proof.
  intros E Hm Ef1. pose proof (he_nt' _ _ _ _ _ _ _ _ E m Hm) as R.
  destruct (NRo_open _ _ _ _ R Ef1) as (f & Ef & R').
  destruct (NR_fields _ _ _ R') as (_ & Bd & _ & Dsd & _). exists f. split; [exact Ef|]. split; [exact Bd|].
  intros Hs. apply Dsd. left. exact Hs.
Qed.

Lemma heff_sd_in ev d ls d1 ls1 vo m :
  HEFF' N collf ev d ls d1 ls1 vo -> m < d_next_gw d -> LivenessLaws.sd_in (l_nt ls) m -> LivenessLaws.sd_in (l_nt ls1) m.
Proof.
  intros E Hm (f & Ef & Hs). destruct (heff_flag_fwd _ _ _ _ _ _ _ _ E Hm Ef) as (f1 & Ef1 & Bd & Sd).
  exists f1. split; [exact Ef1|]. unfold shutting_down in *. rewrite Bd.
  destruct (n_down f); [reflexivity|]. cbn in Hs |- *. apply Sd. exact Hs.
Qed.


(* ---- scheduler-level frames used below ---- *)
Lemma sd_in_mfor_check l dur s s' o r m :
  mfor l (fun k => l_check_schedule k dur) s = (s', o, r) ->
  aget m (l_nt s') <> None -> LivenessLaws.sd_in (l_nt s) m -> LivenessLaws.sd_in (l_nt s') m.
Proof.
  intros H Hk (c & Ec & Hs). unfold LivenessLaws.sd_in. destruct (aget m (l_nt s')) as [c'|] eqn:Ec'; [|congruence].
  exists c'. split; [reflexivity|]. destruct (shutting_down c') eqn:E; [reflexivity|].
  destruct (proj1 (mfor_check_guard _ _ _ _ _ _ H) m c' Ec' E) as (c0 & Ec0 & Hs0). congruence.
Qed.

Lemma remove_kk n s s' o x :
  NoDup (l_nodes s) -> l_remove_node n s = (s', o, Ok x) ->
  (forall m, In m (l_nodes s) -> m <> n -> In m (l_nodes s')) /\
  (forall m, In m (akeys (l_n2c s)) -> m <> n -> In m (akeys (l_n2c s'))) /\
  (l_collection_is_completed s = true -> l_collection_is_completed s' = true).
Proof.
  intros ND H. apply l_remove_node_cases in H.
  destruct (rm_state_fields n s) as (Fp & Fq & Fc & Fn & Fch & Fm).
  assert (R1 : forall m, In m (l_nodes s) -> m <> n -> In m (l_nodes (rm_state n s))).
  { intros m Hm Hne. unfold l_nodes. rewrite Fp. apply Progress.in_akeys_adel_neq; assumption. }
  assert (R2 : forall m, In m (akeys (l_n2c s)) -> m <> n -> In m (akeys (l_n2c (rm_state n s)))).
  { intros m Hm Hne. rewrite rm_state_n2c. destruct (l_collection_is_completed s); [exact Hm|].
    apply Progress.in_akeys_adel_neq; assumption. }
  destruct H as [(_ & _ & _ & F)|[(Eb & -> & _ & _)|(i & rest & Eb & H)]]; [discriminate| |].
  - split; [exact R1|]. split; [exact R2|apply rm_state_completed].
  - destruct H as [(_ & _ & _ & F)|[(c0 & _ & _ & _ & _ & F)|(c0 & item & r0 & Ec & En & H & Hr)]]; try discriminate.
    apply mfor_check_keeps in H. apply KK_of_keeps in H. destruct H as (A & B & C).
    cbn [l_n2c l_numnodes l_n2p l_set_pending] in A, B, C.
    split; [intros m Hm Hne; unfold l_nodes; rewrite C; apply R1; assumption|].
    split; [intros m Hm Hne; rewrite A; apply R2; assumption|].
    intros Hc. unfold l_collection_is_completed. rewrite A, B. apply (rm_state_completed n s Hc).
Qed.

Lemma pending_kk item s s' o : l_mark_test_pending item s = (s', o, Ok tt) -> KK s s'.
Proof.
  intros H. unfold l_mark_test_pending in H. rewrite mbind_get in H.
  destruct (l_coll s) as [coll|] eqn:Ec; [|cbn in H; unfold mbind, raise in H; discriminate].
  cbn [of_opt] in H. rewrite mbind_ret in H.
  destruct (index_of_str item coll) as [idx|] eqn:Ei; [|cbn in H; unfold mbind, raise in H; discriminate].
  cbn [of_opt] in H. rewrite mbind_ret, mbind_put, mbind_get in H.
  apply mfor_check_keeps in H. apply KK_of_keeps in H. exact H.
Qed.

(* ---- what a handler guarantees beyond HEFF' ---- *)
Definition fin_or_err (ev : cevent) (m : nat) : Prop := (exists sk, ev = QFinished m sk) \/ ev = QErrorDown m.

Record HX (ev : cevent) (d : dstate) (ls : lstate) (d1 : dstate) (ls1 : lstate) : Prop := {
  hx_fin : forall m sk, ev = QFinished m sk -> ~ In m (d_active d1);
  hx_nodes : forall m, In m (l_nodes ls) -> In m (l_nodes ls1) \/ fin_or_err ev m;
  hx_ready : forall n, ev = QReady n ->
             if d_shuttingdown d then LivenessLaws.sd_in (l_nt ls1) n else In n (l_nodes ls1);
  hx_cf : forall n ids, ev = QCollFinish n ids -> d_shuttingdown d = false -> In n (l_nodes ls) ->
          In n (akeys (l_n2c ls1)) \/ LivenessLaws.sd_in (l_nt ls1) n;
  hx_n2c : forall m, In m (akeys (l_n2c ls)) -> In m (akeys (l_n2c ls1)) \/ fin_or_err ev m;
  hx_two : (forall n, ev = QReady n -> ~ In n (akeys (l_n2c ls))) -> TwoX ls -> TwoX ls1;
  hx_sdsame : (forall n, ev <> QErrorDown n) -> d_shuttingdown d1 = d_shuttingdown d;
  hx_sderr : d_shuttingdown d = false -> d_shuttingdown d1 = true -> allsd ls1;
  hx_comp : l_collection_is_completed ls = true -> l_collection_is_completed ls1 = true;
  hx_exh : exhausted d = true -> exhausted d1 = true;
  hx_clone : forall n, ev = QErrorDown n -> exhausted d1 = false -> d_next_gw d1 = S (d_next_gw d);
}.

Lemma hx_same ev d ls d1 :
  same_ctl' d d1 -> d_sched d = StL ls ->
  (forall m sk, ev <> QFinished m sk) -> (forall n, ev <> QReady n) -> (forall n, ev <> QErrorDown n) ->
  (forall n ids, ev = QCollFinish n ids -> d_shuttingdown d = false -> In n (l_nodes ls) -> False) ->
  HX ev d ls d1 ls.
Proof.
  intros (S1 & S2 & S3 & S4 & S5 & S6 & S7 & S8) Els Hf Hr He Hc. constructor; auto.
  - intros m sk E. exfalso. exact (Hf _ _ E).
  - intros n E. exfalso. exact (Hr _ E).
  - intros n ids E A B. exfalso. exact (Hc _ _ E A B).
  - intros A B. congruence.
  - rewrite (exhausted_ext d d1 S7 S8). auto.
  - intros n E. exfalso. exact (He _ E).
Qed.

(* ---- workerready ---- *)
Lemma hx_ready_ev n d ls d1 o1 ls1 :
  d_sched d = StL ls -> d_handle (QReady n) d = (d1, o1, Ok tt) -> d_sched d1 = StL ls1 ->
  HX (QReady n) d ls d1 ls1.
Proof.
  intros Els H Els1.
  cbn [d_handle] in H. unfold hook in H. rewrite mbind_emit, mbind_get in H.
  destruct (d_shuttingdown d) eqn:Esd.
  - rewrite (d_node_shutdown_lift n d ls Els) in H.
    destruct (node_shutdown l_nt l_set_nt n ls) as [[ls2 o2] r2] eqn:En. cbn [liftD] in H. inv H.
    cbn in Els1. inv Els1.
    pose proof (node_shutdown_effect _ _ _ _ _ En) as (P & B & K & _). apply KK_of_keeps in K.
    destruct K as (Kn & Km & Kk).
    pose proof (LivenessLaws.g_node_shutdown_post lstate l_nt l_set_nt (fun _ _ => eq_refl) _ _ _ _ En) as (A1 & _).
    constructor.
    + intros m sk E. discriminate.
    + intros m Hm. left. unfold l_nodes in *. rewrite Kk. exact Hm.
    + intros n' E. inv E. rewrite Esd. exact A1.
    + intros n' ids E. discriminate.
    + intros m Hm. left. rewrite Kn. exact Hm.
    + intros _. eapply two_node_shutdown. exact En.
    + intros _. reflexivity.
    + intros F. cbn in *. congruence.
    + unfold l_collection_is_completed. rewrite Kn, Km. auto.
    + auto.
    + intros n' E. discriminate.
  - unfold mbind at 1 in H. rewrite (sched_op_run _ d ls Els) in H. cbn [s_step] in H.
    destruct (l_add_node n ls) as [[ls2 o2] r2] eqn:Ea. cbn [lift] in H.
    destruct r2 as [[]|e]; [|discriminate]. unfold no_str, ret in H. inv H. cbn in Els1. inv Els1.
    pose proof Ea as Ea'. unfold l_add_node in Ea'. rewrite mbind_get in Ea'.
    destruct (negb (ahas n (l_n2p ls))) eqn:Ehas; cbn [massert] in Ea'; [|unfold mbind, raise in Ea'; discriminate].
    rewrite mbind_ret in Ea'. unfold put in Ea'. inv Ea'.
    constructor; cbn [l_nodes l_n2p l_set_n2p l_n2c l_nt].
    + intros m sk E. discriminate.
    + intros m Hm. left. apply akeys_aset_incl. exact Hm.
    + intros n' E. inv E. rewrite Esd. eapply aget_some_in. apply aget_aset_eq.
    + intros n' ids E. discriminate.
    + intros m Hm. left. exact Hm.
    + intros Hn T. eapply two_add_node; [exact Ea| |exact T].
      unfold ahas. destruct (aget n (l_n2c ls)) eqn:E; [|reflexivity]. exfalso.
      apply (Hn n eq_refl). eapply aget_some_in. exact E.
    + intros _. reflexivity.
    + intros _ F. cbn in F. congruence.
    + auto.
    + auto.
    + intros n' E. discriminate.
Qed.

(* ---- runtest_protocol_complete ---- *)
Lemma hx_complete_ev n i ms d ls d1 o1 ls1 :
  d_sched d = StL ls -> d_handle (QComplete n i ms) d = (d1, o1, Ok tt) -> d_sched d1 = StL ls1 ->
  HX (QComplete n i ms) d ls d1 ls1.
Proof.
  intros Els H Els1.
  cbn [d_handle] in H. unfold mbind at 1 in H. rewrite (sched_op_run _ d ls Els) in H. cbn [s_step] in H.
  destruct (l_mark_test_complete n i ms ls) as [[ls2 o2] r2] eqn:Em. cbn [lift] in H.
  destruct r2 as [[]|e]; [|discriminate]. unfold no_str, ret in H. inv H. cbn in Els1. inv Els1.
  pose proof (l_mark_test_complete_keeps _ _ _ _ _ _ _ Em) as K. apply KK_of_keeps in K. destruct K as (Kn & Km & Kk).
  constructor.
  - intros m sk E. discriminate.
  - intros m Hm. left. unfold l_nodes in *. rewrite Kk. exact Hm.
  - intros n' E. discriminate.
  - intros n' ids E. discriminate.
  - intros m Hm. left. rewrite Kn. exact Hm.
  - intros _. eapply two_complete. exact Em.
  - intros _. reflexivity.
  - intros A B. cbn in B. congruence.
  - unfold l_collection_is_completed. rewrite Kn, Km. auto.
  - auto.
  - intros n' E. discriminate.
Qed.

(* ---- workerfinished ---- *)
Lemma hx_finished_ev n sk d ls d1 o1 ls1 :
  DJ' N collf d ls -> PRE' collf (QFinished n sk) d ls ->
  d_handle (QFinished n sk) d = (d1, o1, Ok tt) -> d_sched d1 = StL ls1 ->
  HX (QFinished n sk) d ls d1 ls1.
Proof.
  intros (J0 & _) Hpre H Els1. pose proof J0 as [Els J _ _ _ _ _ _ _ _].
  cbn [d_handle] in H. unfold d_worker_workerfinished, hook in H. rewrite mbind_emit in H.
  destruct sk; cbn [PRE'] in Hpre; [| |contradiction].
  - destruct Hpre as (Hina & Hbook & _).
    rewrite mbind_get in H. rewrite Els in H. cbn [s_nodes] in H.
    assert (STEP : exists ls2,
      ((if mem_nat n (l_nodes ls)
        then r0 <- d_sched_op (SRemove n);; massert match r0 with Some s0 => (s0 =? "")%string | None => true end
        else ret tt) d) = (d_set_sched d (StL ls2), [], Ok tt) /\
      (forall m, In m (l_nodes ls) -> m <> n -> In m (l_nodes ls2)) /\
      (forall m, In m (akeys (l_n2c ls)) -> m <> n -> In m (akeys (l_n2c ls2))) /\
      (l_collection_is_completed ls = true -> l_collection_is_completed ls2 = true) /\
      (TwoX ls -> TwoX ls2)).
    { destruct (mem_nat n (l_nodes ls)) eqn:Em.
      - apply mem_nat_In in Em. specialize (Hbook Em).
        destruct (remove_empty_facts _ _ HN _ n ls J Hbook) as (Er & _).
        exists (rm_state n ls). split.
        + unfold mbind. rewrite (sched_op_run _ d ls Els). cbn [s_step]. rewrite Er. cbn [lift]. reflexivity.
        + destruct (remove_kk _ _ _ _ _ (lj_wf' _ _ _ _ J) Er) as (A & B & C).
          split; [exact A|]. split; [exact B|]. split; [exact C|].
          eapply two_remove; [exact (lj_wf' _ _ _ _ J)|exact Er].
      - exists ls. split; [rewrite d_set_sched_same by exact Els; reflexivity|]. auto. }
    destruct STEP as (ls2 & Erun & Fnodes & Fn2c & Fcomp & Ftwo).
    unfold mbind at 1 in H. rewrite Erun in H.
    rewrite (active_remove_run n (d_set_sched d (StL ls2)) Hina) in H. inv H.
    cbn in Els1. inv Els1. constructor; cbn [d_active d_set_active d_set_sched d_shuttingdown d_next_gw].
    + intros m sk E. inv E. intros Hm. apply in_filter_neq in Hm. tauto.
    + intros m Hm. destruct (Nat.eq_dec m n) as [->|Hne]; [right; left; eexists; reflexivity|left; auto].
    + intros n' E. discriminate.
    + intros n' ids E. discriminate.
    + intros m Hm. destruct (Nat.eq_dec m n) as [->|Hne]; [right; left; eexists; reflexivity|left; auto].
    + intros _. exact Ftwo.
    + intros _. reflexivity.
    + intros A B. congruence.
    + exact Fcomp.
    + auto.
    + intros n' E. discriminate.
  - assert (STEP : exists d2, (d0 <- get;; (if d_shouldstop d0 then ret tt else put (d_set_shouldstop d0 true))) d = (d2, [], Ok tt) /\
              same_ctl' d d2).
    { rewrite mbind_get. destruct (d_shouldstop d) eqn:Ess.
      - exists d. split; [reflexivity|apply same_ctl'_refl].
      - eexists. split; [reflexivity|]. unfold same_ctl'. cbn. auto 12. }
    destruct STEP as (d2 & Erun & S). pose proof S as (S1 & S2 & S3 & _ & S5 & S6 & S7 & S8).
    unfold mbind at 1 in H. rewrite Erun in H.
    assert (Hina : In n (d_active d2)) by (rewrite S3; exact Hpre).
    rewrite (active_remove_run n d2 Hina) in H. inv H.
    cbn [d_sched d_set_active] in Els1. assert (ls1 = ls) by congruence. subst ls1.
    constructor; cbn [d_active d_set_active d_shuttingdown d_next_gw].
    + intros m sk E. inv E. intros Hm. apply in_filter_neq in Hm. tauto.
    + auto.
    + intros n' E. discriminate.
    + intros n' ids E. discriminate.
    + auto.
    + auto.
    + intros _. exact S2.
    + intros A B. congruence.
    + auto.
    + change (exhausted (d_set_active d2 (filter (fun m : nat => negb (m =? n)) (d_active d2)))) with (exhausted d2).
      rewrite (exhausted_ext d d2 S7 S8). auto.
    + intros n' E. discriminate.
Qed.

(* ---- collectionfinish ---- *)
Lemma sd_in_schedule_again s s' o c m :
  l_schedule s = (s', o, Ok tt) -> l_coll s = Some c ->
  LivenessLaws.sd_in (l_nt s) m -> LivenessLaws.sd_in (l_nt s') m.
Proof.
  intros H Ec Hs. pose proof (lk_schedule s _ _ _ H) as K. unfold lkey in K.
  assert (Hk : aget m (l_nt s') <> None).
  { destruct Hs as (f & Ef & _). intros F. pose proof (aget_nsig m (l_nt s')) as X. rewrite K, aget_nsig, Ef, F in X. discriminate. }
  unfold l_schedule in H. rewrite mbind_get in H.
  destruct (l_collection_is_completed s); cbn [massert] in H; [|unfold mbind, raise in H; discriminate].
  rewrite mbind_ret, Ec in H. eapply sd_in_mfor_check; eauto.
Qed.

Lemma hx_collfinish_ev n ids d ls d1 o1 ls1 :
  DJ' N collf d ls -> PRE' collf (QCollFinish n ids) d ls ->
  d_handle (QCollFinish n ids) d = (d1, o1, Ok tt) -> d_sched d1 = StL ls1 ->
  HX (QCollFinish n ids) d ls d1 ls1.
Proof.
  intros DJd Hpre H Els1. pose proof DJd as (J0 & Jss & Jemp & Jmis). pose proof J0 as [Els J _ _ _ _ _ _ _ _].
  assert (SAMEST : forall x, (d, @nil out, x) = (d1, o1, Ok tt) ->
                 (d_shuttingdown d = false -> In n (l_nodes ls) -> False) ->
                 HX (QCollFinish n ids) d ls d1 ls1).
  { intros x E Hno. inv E. assert (ls1 = ls) by congruence. subst ls1. apply hx_same.
    - apply same_ctl'_refl.
    - exact Els.
    - intros m sk E. discriminate.
    - intros k E. discriminate.
    - intros k E. discriminate.
    - intros k ids' E A B. inv E. exact (Hno A B). }
  cbn [d_handle] in H. rewrite mbind_get in H.
  destruct (d_shuttingdown d) eqn:Esd; [eapply SAMEST; [exact H|discriminate]|].
  rewrite Els in H. cbn [s_nodes] in H.
  destruct (mem_nat n (l_nodes ls)) eqn:Em; cbn [negb] in H.
  2:{ eapply SAMEST; [exact H|]. intros _ Hin. apply mem_nat_false in Em. contradiction. }
  clear SAMEST. apply mem_nat_In in Em.
  unfold hook in H. rewrite mbind_emit in H. unfold mbind at 1 in H.
  rewrite (sched_op_run _ d ls Els) in H. cbn [s_step] in H.
  destruct (l_add_node_collection n ids ls) as [[lsa oa] ra] eqn:Ea. cbn [lift] in H.
  destruct ra as [[]|e]; [|discriminate].
  rewrite mbind_get in H. cbn [d_sched d_set_sched s_collection_is_completed app] in H.
  destruct (add_coll_frame _ _ _ _ _ Ea) as (Fp & Fq & Fc & Fm & Fch & FN).
  assert (NODES : l_nodes lsa = l_nodes ls) by (unfold l_nodes; rewrite Fp; reflexivity).
  assert (N2C : forall m, In m (akeys (l_n2c ls)) -> In m (akeys (l_n2c lsa))).
  { intros m Hm. destruct FN as [(E & _)|(E & _)]; rewrite E; [apply akeys_aset_incl|]; exact Hm. }
  assert (COMP : l_collection_is_completed ls = true -> l_collection_is_completed lsa = true).
  { unfold l_collection_is_completed. rewrite Fm. destruct FN as [(E & _)|(E & _)]; rewrite E; [|auto].
    intros C. apply Nat.leb_le in C. apply Nat.leb_le. pose proof (length_aset_ge' n ids (l_n2c ls)). lia. }
  assert (CF : In n (akeys (l_n2c lsa)) \/ LivenessLaws.sd_in (l_nt lsa) n).
  { destruct FN as [(E & _)|(_ & _ & o2 & En)].
    - left. rewrite E. eapply aget_some_in. apply aget_aset_eq.
    - right. exact (proj1 (LivenessLaws.g_node_shutdown_post lstate l_nt l_set_nt (fun _ _ => eq_refl) _ _ _ _ En)). }
  assert (I3 : l_coll lsa = None -> l_pending lsa = [] /\ books lsa = []).
  { rewrite Fc, Fq. unfold books. rewrite Fp. exact (lj_i3' _ _ _ _ J). }
  destruct (l_collection_is_completed lsa) eqn:Eca.
  - unfold mbind at 1 in H. rewrite (sched_op_run _ (d_set_sched d (StL lsa)) lsa eq_refl) in H. cbn [s_step] in H.
    destruct (l_schedule lsa) as [[ls2 o2] r2] eqn:Es. cbn [lift] in H.
    destruct r2 as [[]|e]; [|discriminate]. unfold no_str, ret in H. inv H. cbn in Els1. inv Els1.
    pose proof (l_schedule_kk _ _ _ Es) as KKs. pose proof KKs as (Kn & Km & Kk).
    constructor; cbn [d_shuttingdown d_set_sched d_next_gw].
    + intros m sk E. discriminate.
    + intros m Hm. left. unfold l_nodes in *. rewrite Kk, Fp. exact Hm.
    + intros k E. discriminate.
    + intros k ids' E _ _. inv E. destruct CF as [X|X]; [left; rewrite Kn; exact X|].
      destruct FN as [(E & Ent)|(_ & Hc & o3 & En)].
      * left. rewrite Kn, E. eapply aget_some_in. apply aget_aset_eq.
      * right. destruct (l_coll ls) as [c|] eqn:Ecl.
        -- eapply sd_in_schedule_again; [exact Es|exact Fc|exact X].
        -- exfalso. specialize (Jmis Hc eq_refl). congruence.
    + intros m Hm. left. rewrite Kn. apply N2C. exact Hm.
    + intros _ _. eapply two_schedule; [exact Es|exact I3].
    + intros _. reflexivity.
    + intros _ F. congruence.
    + intros C. rewrite (completed_KK _ _ KKs). exact Eca.
    + auto.
    + intros k E. discriminate.
  - unfold ret in H. inv H. cbn in Els1. inv Els1.
    constructor; cbn [d_shuttingdown d_set_sched d_next_gw].
    + intros m sk E. discriminate.
    + intros m Hm. left. rewrite NODES. exact Hm.
    + intros k E. discriminate.
    + intros k ids' E _ _. inv E. exact CF.
    + intros m Hm. left. apply N2C. exact Hm.
    + intros _ _. apply T2_pool_empty. rewrite Fq.
      assert (C0 : l_collection_is_completed ls = false).
      { apply not_true_false. intros C. specialize (COMP C). discriminate. }
      destruct (l_coll ls) eqn:Ecl; [|exact (proj1 (lj_i3' _ _ _ _ J Ecl))].
      rewrite (lj_cc' _ _ _ _ J) in C0; [discriminate|congruence].
    + intros _. reflexivity.
    + intros _ F. congruence.
    + intros C. specialize (COMP C). discriminate.
    + auto.
    + intros k E. discriminate.
Qed.

(* ---- errordown ---- *)
Lemma try_shape G n d ls da oa :
  d_sched d = StL ls -> LJ' N collf G ls -> try_block n d = (da, oa, Ok tt) ->
  exists lsa, d_sched da = StL lsa /\
    (forall m, In m (l_nodes ls) -> m <> n -> In m (l_nodes lsa)) /\
    (forall m, In m (akeys (l_n2c ls)) -> m <> n -> In m (akeys (l_n2c lsa))) /\
    (l_collection_is_completed ls = true -> l_collection_is_completed lsa = true) /\
    (TwoX ls -> TwoX lsa).
Proof.
  intros Els J H. pose proof (lj_wf' _ _ _ _ J) as ND.
  unfold try_block in H. rewrite (sched_op_run _ d ls Els) in H. cbn [s_step] in H.
  destruct (l_remove_node n ls) as [[lsb ob] rb] eqn:Er. cbn [lift] in H.
  destruct rb as [[item|]|e].
  - destruct (remove_kk _ _ _ _ _ ND Er) as (A & B & C). pose proof (two_remove _ _ _ _ _ ND Er) as T.
    destruct (d_handle_crashitem item n (d_set_sched d (StL lsb))) as [[d2 o2] r2] eqn:Eh. inv H.
    unfold d_handle_crashitem, hook in Eh. rewrite mbind_emit, mbind_get in Eh. cbn [d_requeue d_set_sched] in Eh.
    destruct (d_requeue d) as [|k].
    + rewrite mbind_ret in Eh. unfold emit in Eh. inv Eh. exists lsb. split; [reflexivity|]. auto.
    + unfold mbind, put in Eh.
      rewrite (sched_op_run _ (d_set_requeue (d_set_sched d (StL lsb)) k) lsb eq_refl) in Eh. cbn [s_step] in Eh.
      destruct (l_mark_test_pending item lsb) as [[lsc oc] rc] eqn:Emp. cbn [lift] in Eh.
      destruct rc as [[]|e]; [|inv Eh].
      unfold no_str, ret, emit in Eh. cbn [app] in Eh. inv Eh.
      pose proof (pending_kk _ _ _ _ Emp) as KKp. pose proof KKp as (Kn & Km & Kk).
      exists lsc. split; [reflexivity|].
      split; [intros m Hm Hne; unfold l_nodes; rewrite Kk; apply A; assumption|].
      split; [intros m Hm Hne; rewrite Kn; apply B; assumption|].
      split; [intros Hc; rewrite (completed_KK _ _ KKp); apply C; exact Hc|].
      intros _. eapply two_pending. exact Emp.
  - destruct (remove_kk _ _ _ _ _ ND Er) as (A & B & C). pose proof (two_remove _ _ _ _ _ ND Er) as T.
    inv H. exists lsb. split; [reflexivity|]. auto.
  - destruct e; inv H.
    destruct (aget n (l_n2p ls)) as [[|i rest]|] eqn:Eb.
    + destruct (remove_empty_facts _ _ HN _ n ls J Eb) as (Er' & _). congruence.
    + exfalso.
      assert (Hcoll : l_coll ls <> None) by (eapply books_nonempty_coll; eauto).
      destruct (l_coll ls) as [X|] eqn:Ecoll; [|contradiction].
      assert (Hi : i < length X).
      { apply (lj_valid' _ _ _ _ J X Ecoll). unfold tokens, books. apply in_or_app. right.
        destruct (aget_split _ _ _ _ Eb) as (pre & post & Hm & _). rewrite Hm, flat_map_app. apply in_or_app. right.
        cbn. left. reflexivity. }
      destruct (nth_error X i) as [item|] eqn:Enth; [|apply nth_error_None in Enth; lia].
      assert (HX0 : X <> []) by (intros E0; rewrite E0 in Hi; cbn in Hi; lia).
      assert (Hk : forall m, In m (akeys (adel n (l_n2p ls))) -> aget m (l_nt ls) <> None).
      { intros m Hm. apply (nodes_known' _ _ _ ls J). eapply adel_keys_incl; eauto. }
      destruct (remove_node_TRv _ _ _ _ _ _ _ _ _ Eb Ecoll Enth Hk (lj_chunk' _ _ _ _ J X Ecoll HX0) Er) as (F & _).
      discriminate.
    + apply l_remove_node_unknown in Er; [|exact Eb]. destruct Er as (_ & _ & ->).
      exists ls. split; [reflexivity|]. auto.
Qed.

Lemma hx_errordown_ev n d ls d1 o1 ls1 :
  DJ' N collf d ls -> PRE' collf (QErrorDown n) d ls ->
  d_handle (QErrorDown n) d = (d1, o1, Ok tt) -> d_sched d1 = StL ls1 ->
  HX (QErrorDown n) d ls d1 ls1.
Proof.
  intros (J0 & _) Hina H Els1. cbn [PRE'] in Hina. pose proof J0 as [Els J Jb K1 RS K2 EX RQ AL FN].
  cbn [d_handle] in H. rewrite errordown_unfold in H.
  apply LoadProofs.mbind_inv in H. destruct H as [(e & Hh & F)|(d0 & o0 & [] & oR & Hh & E & ->)]; [discriminate|].
  rewrite hook_run in Hh. injection Hh as <- <-. rename d1 into dx.
  apply LoadProofs.mbind_inv in E. destruct E as [(e & Ht & F)|(da & oa & [] & ob & Ht & E & ->)]; [discriminate|].
  destruct (try_shape _ _ _ _ _ _ Els J Ht) as (lsa' & Elsa' & Snodes & Sn2c & Scomp & Stwo).
  destruct (try_block_eff _ _ HN _ _ _ _ _ _ J0 Ht) as (_ & lsa & voa & rqa & -> & _ & Ja & _).
  cbn in Elsa'. inv Elsa'. rename lsa' into lsa.
  assert (HnG : n < d_next_gw d) by (apply AL; exact Hina).
  assert (Efn : exists fn, aget n (l_nt lsa) = Some fn).
  { destruct (aget n (l_nt lsa)) as [fn|] eqn:Ef; [eauto|]. exfalso. apply (proj2 (lj_ntk' _ _ _ _ Ja n) HnG). exact Ef. }
  destruct Efn as (fn & Efn).
  rewrite mbind_get in E. cbv zeta in E. rewrite mbind_put in E.
  set (da := d_set_requeue (d_set_sched d (StL lsa)) rqa) in *.
  set (db := d_set_failed_nodes da (d_failed_nodes da + 1)%Z) in *.
  assert (Eex : exhausted db = match d_max_restart d with Some m => (m <? d_failed_nodes d + 1)%Z | None => false end /\
                (exhausted d = true -> exhausted db = true)).
  { apply (exhausted_succ N HN); [reflexivity|reflexivity|exact FN]. }
  destruct Eex as (Eex & Emono).
  assert (DEC :
    (exhausted db = true /\
     exists m0, d_max_restart d = Some m0 /\
     ((hook (HSummary (m0 =? 0)%Z) ;;; d_triggershutdown) ;;; d_active_remove n) db = (dx, ob, Ok tt)) \/
    (exhausted db = false /\
     (((d2 <- get ;; put (d_set_shuttingdown d2 false)) ;;; d_clone_node n) ;;; d_active_remove n) db = (dx, ob, Ok tt))).
  { pose proof E as E'.
    clear E. change (d_max_restart da) with (d_max_restart d) in E'. change (d_failed_nodes da) with (d_failed_nodes d) in E'.
    destruct (d_max_restart d) as [m0|] eqn:Emr.
    - destruct (m0 <? d_failed_nodes d + 1)%Z eqn:Elt.
      + left. split; [exact Eex|]. exists m0. split; [reflexivity|]. exact E'.
      + right. split; [exact Eex|exact E'].
    - right. split; [exact Eex|exact E']. }
  clear E. destruct DEC as [(Hexh & m0 & Emr & E)|(Hexh & E)].
  - (* the budget is used up *)
    apply LoadProofs.mbind_inv in E. destruct E as [(e & Hg & F)|(dc & oc & [] & od & Hg & E2 & ->)]; [discriminate|].
    apply LoadProofs.mbind_inv in Hg. destruct Hg as [(e & Hh & F)|(d0 & o0 & [] & oR & Hh & Hg & ->)]; [discriminate|].
    rewrite hook_run in Hh. injection Hh as <- <-.
    destruct (trigger_shape db lsa dc oR eq_refl Hg) as (ls2 & -> & P2 & B2 & KK2 & T2' & Same2 & All2 & _).
    assert (Hin2 : In n (d_active (d_with db true ls2))) by exact Hina.
    rewrite (active_remove_run n _ Hin2) in E2. inv E2. cbn in Els1. inv Els1.
    destruct KK2 as (Kn & Km & Kk).
    constructor.
    + intros m sk E0. discriminate.
    + intros m Hm. destruct (Nat.eq_dec m n) as [->|Hne]; [right; right; reflexivity|left].
      unfold l_nodes. rewrite B2. apply Snodes; assumption.
    + intros k E0. discriminate.
    + intros k ids E0. discriminate.
    + intros m Hm. destruct (Nat.eq_dec m n) as [->|Hne]; [right; right; reflexivity|left].
      rewrite Kn. apply Sn2c; assumption.
    + intros _ T. apply T2'. apply Stwo. exact T.
    + intros F. exfalso. apply (F n). reflexivity.
    + intros Hsd _. apply All2. exact Hsd.
    + intros C. unfold l_collection_is_completed. rewrite Kn, Km. apply Scomp. exact C.
    + intros _. exact Hexh.
    + intros k _ F. change (exhausted db = false) in F. congruence.
  - (* a replacement worker is started *)
    assert (CL : ((d2 <- get ;; put (d_set_shuttingdown d2 false)) ;;; d_clone_node n) db =
                 (d_set_active (d_set_next_gw (d_set_sched (d_set_shuttingdown db false)
                     (StL (l_set_nt lsa (aset (d_next_gw d) (mkfresh (n_spec fn)) (l_nt lsa))))) (S (d_next_gw d)))
                    (d_active d ++ [d_next_gw d]),
                  [OHook (HSpawn (d_next_gw d) (n_spec fn))], Ok tt)).
    { unfold mbind at 1. rewrite mbind_get. unfold put.
      rewrite (clone_run n (d_set_shuttingdown db false) lsa fn eq_refl Efn). reflexivity. }
    apply LoadProofs.mbind_inv in E. destruct E as [(e & Hg & F)|(dc & oc & [] & od & Hg & E2 & ->)]; [discriminate|].
    rewrite CL in Hg. injection Hg as <- <-. clear CL.
    set (G := d_next_gw d) in *.
    set (lsn := l_set_nt lsa (aset G (mkfresh (n_spec fn)) (l_nt lsa))) in *.
    match type of E2 with d_active_remove n ?D = _ => set (dc := D) in * end.
    assert (Hin2 : In n (d_active dc)) by (unfold dc; cbn; apply in_or_app; left; exact Hina).
    rewrite (active_remove_run n _ Hin2) in E2. inv E2. cbn in Els1. inv Els1.
    constructor.
    + intros m sk E0. discriminate.
    + intros m Hm. destruct (Nat.eq_dec m n) as [->|Hne]; [right; right; reflexivity|left].
      change (l_nodes lsn) with (l_nodes lsa). apply Snodes; assumption.
    + intros k E0. discriminate.
    + intros k ids E0. discriminate.
    + intros m Hm. destruct (Nat.eq_dec m n) as [->|Hne]; [right; right; reflexivity|left].
      change (l_n2c lsn) with (l_n2c lsa). apply Sn2c; assumption.
    + intros _ T. apply (two_flags lsa lsn); try reflexivity; [|apply Stwo; exact T].
      intros m f' Hm Ef' Hsd. exists f'. split; [|exact Hsd].
      unfold lsn in Ef'. cbn [l_nt l_set_nt] in Ef'. rewrite LoadProofs.aget_aset in Ef'.
      pose proof (lj_nodes' _ _ _ _ Ja m Hm) as Hlt. fold G in Hlt.
      destruct (Nat.eqb m G) eqn:Em; [apply Nat.eqb_eq in Em; lia|exact Ef'].
    + intros F. exfalso. apply (F n). reflexivity.
    + intros _ F. cbn in F. discriminate.
    + intros C. change (l_collection_is_completed lsn) with (l_collection_is_completed lsa). apply Scomp. exact C.
    + intros F. rewrite (Emono F) in Hexh. discriminate.
    + intros k _ _. reflexivity.
Qed.

(* ---- every handler ---- *)
Lemma handle_heff ev d ls d1 o1 r :
  DJ' N collf d ls -> d_active d <> [] -> PRE' collf ev d ls -> d_handle ev d = (d1, o1, r) ->
  r = Ok tt /\ exists ls1 vo, HEFF' N collf ev d ls d1 ls1 vo.
Proof.
  intros DJd Hact Hpre H1.
  assert (QUIET : match ev with
                  | QLogStart _ _ | QLogFinish _ _ | QWarning | QReport _ _ _ _ | QCollectReport _ _ _ => True
                  | _ => False end -> r = Ok tt /\ exists ls1 vo, HEFF' N collf ev d ls d1 ls1 vo).
  { intros Hq. destruct (handle_quiet' ev d d1 o1 r Hq H1) as (-> & S & C). split; [reflexivity|]. exists ls, o1.
    apply heff_same'; auto; try apply DJd; destruct ev; try contradiction; try reflexivity; try (intros m b E; discriminate);
      intros ? E; discriminate. }
  destruct ev; try (apply QUIET; exact I); try (cbn in Hpre; contradiction).
  - destruct (handle_ready' _ _ HN _ _ _ _ _ _ DJd Hact Hpre H1) as (-> & ls1 & vo & _ & X). eauto.
  - destruct (handle_collfinish' _ _ HN _ _ _ _ _ _ _ DJd Hact Hpre H1) as (-> & ls1 & vo & _ & X). eauto.
  - destruct (handle_complete' _ _ HN _ _ _ _ _ _ _ _ DJd Hact Hpre H1) as (-> & ls1 & vo & _ & X). eauto.
  - destruct (handle_finished' _ _ HN _ _ _ _ _ _ _ DJd Hact Hpre H1) as (-> & ls1 & vo & _ & X). eauto.
  - destruct (handle_errordown' _ _ HN _ _ _ _ _ _ DJd Hact Hpre H1) as (-> & ls1 & vo & _ & X & _). eauto.
Qed.

Lemma handle_hx ev d ls d1 o1 ls1 :
  DJ' N collf d ls -> PRE' collf ev d ls -> d_handle ev d = (d1, o1, Ok tt) -> d_sched d1 = StL ls1 ->
  HX ev d ls d1 ls1.
Proof.
  intros DJd Hpre H Els1. pose proof DJd as ([Els _ _ _ _ _ _ _ _ _] & _).
  assert (QUIET : match ev with
                  | QLogStart _ _ | QLogFinish _ _ | QWarning | QReport _ _ _ _ | QCollectReport _ _ _ => True
                  | _ => False end -> HX ev d ls d1 ls1).
  { intros Hq. destruct (handle_quiet' ev d d1 o1 _ Hq H) as (_ & S & _). pose proof S as (S1 & _).
    assert (ls1 = ls) by congruence. subst ls1.
    apply hx_same; auto; destruct ev; try contradiction; intros; discriminate. }
  destruct ev; try (apply QUIET; exact I); try (cbn in Hpre; contradiction).
  - eapply hx_ready_ev; eauto.
  - eapply hx_collfinish_ev; eauto.
  - eapply hx_complete_ev; eauto.
  - eapply hx_finished_ev; eauto.
  - eapply hx_errordown_ev; eauto.
Qed.

(* ---- flags along a flag-only step ---- *)
Lemma TR0_sd_fwd s s' vo m : TR0 s s' vo -> LivenessLaws.sd_in (l_nt s) m -> LivenessLaws.sd_in (l_nt s') m.
Proof.
  intros T (f & Ef & Hs). pose proof (tr_nt _ _ _ T m) as R. rewrite Ef in R.
  destruct (aget m (l_nt s')) as [f'|] eqn:Ef'; [|destruct R]. cbn in R.
  destruct (NR_fields _ _ _ R) as (_ & Bd & _ & Dsd & _). exists f'. split; [exact Ef'|].
  unfold shutting_down in *. rewrite Bd. destruct (n_down f); [reflexivity|]. cbn in Hs |- *. apply Dsd. left. exact Hs.
Qed.

Lemma TR0_nsd_back s s' vo m f' :
  TR0 s s' vo -> aget m (l_nt s') = Some f' -> shutting_down f' = false ->
  exists f, aget m (l_nt s) = Some f /\ shutting_down f = false.
Proof.
  intros T Ef' Hs. destruct (NRo_open _ _ _ _ (tr_nt _ _ _ T m) Ef') as (f & Ef & R).
  destruct (NR_fields _ _ _ R) as (_ & Bd & _ & Dsd & _). exists f. split; [exact Ef|].
  unfold shutting_down in *. rewrite <- Bd. apply orb_false_iff in Hs. destruct Hs as (A & B). rewrite A. cbn.
  destruct (n_sdsent f) eqn:E; [|reflexivity]. rewrite (proj2 Dsd (or_introl eq_refl)) in B. discriminate.
Qed.

(* ---- one iteration of the controller loop ---- *)
Record LX (ev : cevent) (d : dstate) (ls : lstate) (d' : dstate) (ls' : lstate) : Prop := {
  lx_fin : forall m sk, ev = QFinished m sk -> ~ In m (d_active d');
  lx_nodes : forall m, In m (l_nodes ls) -> In m (l_nodes ls') \/ fin_or_err ev m;
  lx_ready : forall n, ev = QReady n -> In n (l_nodes ls') \/ LivenessLaws.sd_in (l_nt ls') n;
  lx_cf : forall n ids, ev = QCollFinish n ids -> d_shuttingdown d = false -> In n (l_nodes ls) ->
          In n (akeys (l_n2c ls')) \/ LivenessLaws.sd_in (l_nt ls') n;
  lx_n2c : forall m, In m (akeys (l_n2c ls)) -> In m (akeys (l_n2c ls')) \/ fin_or_err ev m;
  lx_two : (forall n, ev = QReady n -> ~ In n (akeys (l_n2c ls))) -> TwoX ls -> TwoX ls';
  lx_tf : d_shuttingdown d' = false -> l_tests_finished ls' = false;
  lx_sd : d_shuttingdown d' = true -> (d_shuttingdown d = true -> allsd ls) -> allsd ls';
  lx_comp : l_collection_is_completed ls = true -> l_collection_is_completed ls' = true;
  lx_exh : exhausted d = true -> exhausted d' = true;
  lx_clone : forall n, ev = QErrorDown n -> exhausted d' = false -> d_next_gw d' = S (d_next_gw d);
}.

Theorem loop_lx ev d ls d' o ls' :
  DJ' N collf d ls -> d_active d <> [] -> PRE' collf ev d ls ->
  d_loop_once ev d = (d', o, Ok tt) -> d_sched d' = StL ls' -> LX ev d ls d' ls'.
Proof.
  intros DJd Hact Hpre H Els'. pose proof H as Hfull. rewrite loop_once_unfold in H.
  apply LoadProofs.mbind_inv in H. destruct H as [(e & _ & F)|(d1 & o1 & [] & o2 & H1 & H2 & ->)]; [discriminate|].
  destruct (handle_heff _ _ _ _ _ _ DJd Hact Hpre H1) as (_ & ls1 & vo1 & E1).
  pose proof (he_dj' _ _ _ _ _ _ _ _ E1) as J1. pose proof J1 as [Els1 JJ1 _ _ _ _ _ _ _ _].
  pose proof (handle_hx _ _ _ _ _ _ DJd Hpre H1 Els1) as X1.
  pose proof DJd as ([Els J _ _ _ _ _ _ AL _] & _).
  destruct (loop_rest_eff' _ _ _ _ _ _ _ _ Els1 JJ1 H2) as (_ & ls2 & vo2 & Ed' & T & _ & _ & P & B & Same2 & Same1).
  assert (ls' = ls2) by (rewrite Ed' in Els'; cbn in Els'; congruence). subst ls2.
  destruct (tr_keeps _ _ _ T) as (Kc & Kn & Km & Kch & Kk).
  assert (Knodes : l_nodes ls' = l_nodes ls1) by (unfold l_nodes; rewrite B; reflexivity).
  assert (Eact : d_active d' = d_active d1) by (rewrite Ed'; reflexivity).
  assert (Eexh : exhausted d' = exhausted d1) by (rewrite Ed'; reflexivity).
  assert (Egw : d_next_gw d' = d_next_gw d1) by (rewrite Ed'; reflexivity).
  constructor.
  - intros m sk E. rewrite Eact. exact (hx_fin _ _ _ _ _ X1 m sk E).
  - intros m Hm. rewrite Knodes. exact (hx_nodes _ _ _ _ _ X1 m Hm).
  - intros n E. pose proof (hx_ready _ _ _ _ _ X1 n E) as Y. destruct (d_shuttingdown d).
    + right. eapply TR0_sd_fwd; eauto.
    + left. rewrite Knodes. exact Y.
  - intros n ids E Hsd Hin. destruct (hx_cf _ _ _ _ _ X1 n ids E Hsd Hin) as [Y|Y].
    + left. rewrite Kn. exact Y.
    + right. eapply TR0_sd_fwd; eauto.
  - intros m Hm. rewrite Kn. exact (hx_n2c _ _ _ _ _ X1 m Hm).
  - intros Hr T0. apply (two_flags ls1 ls' B Kn P).
    + intros m f' _ Ef' Hs. eapply TR0_nsd_back; eauto.
    + exact (hx_two _ _ _ _ _ X1 Hr T0).
  - intros Hsd. destruct (l_tests_finished ls') eqn:Etf; [|reflexivity].
    pose proof (LivenessLaws.V5b_loop_once _ _ _ _ Hfull) as V. rewrite Els' in V. cbn [s_tests_finished] in V.
    rewrite (V Etf) in Hsd. discriminate.
  - intros Hsd' Hold. destruct (d_shuttingdown d1) eqn:Esd1.
    + destruct (Same1 eq_refl) as (-> & _).
      destruct (d_shuttingdown d) eqn:Esd.
      * intros m Hm. destruct (he_nodes' _ _ _ _ _ _ _ _ E1 m Hm) as [Hin|Hev].
        -- eapply heff_sd_in; [exact E1|apply (lj_nodes' _ _ _ _ J); exact Hin|apply (Hold eq_refl); exact Hin].
        -- apply Progress.ev_sig_ready in Hev. pose proof (hx_ready _ _ _ _ _ X1 m Hev) as Y. rewrite Esd in Y. exact Y.
      * exact (hx_sderr _ _ _ _ _ X1 Esd Esd1).
    + intros m Hm. rewrite Knodes in Hm.
      exact (Progress.loop_rest_sd d1 ls1 d' o2 Els1 H2 ls' Els' Esd1 Hsd' m Hm).
  - intros C. unfold l_collection_is_completed. rewrite Kn, Km. exact (hx_comp _ _ _ _ _ X1 C).
  - intros C. rewrite Eexh. exact (hx_exh _ _ _ _ _ X1 C).
  - intros n E C. rewrite Egw. rewrite Eexh in C. exact (hx_clone _ _ _ _ _ X1 n E C).
Qed.

End CtlQ.


(* ###################################### part C ###################################### *)

(* ---- the controller part ---- *)
Record QC (N : nat) (d : dstate) (ls : lstate) : Prop := {
  qc_tf : d_shuttingdown d = false -> l_tests_finished ls = false;
  qc_two : TwoX ls;
  qc_sd : d_shuttingdown d = true -> allsd ls;
  (* before the collection is complete (and without stop / exhausted budget) there are at least N active nodes *)
  qc_cnt : l_collection_is_completed ls = false -> d_shouldstop d = false -> exhausted d = false ->
           exists l, NoDup l /\ incl l (d_active d) /\ N <= length l;
}.

(* ---- an alive worker ---- *)
Record QA (act : list nat) (ls : lstate) (n : nat) (L : list sig) (dn : list cmd) (w : wst) : Prop := {
  qa_ready : In n act -> wph w <> PBoot -> wph w <> PExited ->
             In SgReady L \/ In n (l_nodes ls) \/ LivenessLaws.sd_in (l_nt ls) n;
  qa_cf : In n act -> 2 <= prank (wph w) -> wph w <> PExited ->
          In SgCF L \/ In n (akeys (l_n2c ls)) \/ LivenessLaws.sd_in (l_nt ls) n;
  qa_fin : wph w = PExited -> In n act -> exists b, In (SgFin b) L;
  qa_mark : forall f, aget n (l_nt ls) = Some f -> n_sdsent f = true ->
            In Mark (wstream w ++ flat_map cmd_items dn);
  qa_cb : Progress.CB w;
}.

Definition QN (s : sys) (ls : lstate) (n : nat) (w : wst) : Prop :=
  (In n (akeys (l_n2c ls)) -> ~ In SgReady (sigs s n)) /\
  (mem_nat n (y_dead s) = false ->
   QA (d_active (y_d s)) ls n (sigs s n) (alist_get [] n (y_down s)) w).

Definition QInv (N : nat) (s : sys) : Prop :=
  exists ls, d_sched (y_d s) = StL ls /\ QC N (y_d s) ls /\
    forall n w, aget n (y_w s) = Some w -> QN s ls n w.

(* ---- worker steps ---- *)
Lemma QA_deliver act ls n L cm rest w : QA act ls n L (cm :: rest) w -> QA act ls n L rest (deliver w cm).
Proof.
  intros [A B C D E]. destruct (deliver_owed w cm) as (_ & Es & Ep & _).
  constructor; rewrite ?Ep; auto.
  intros f Ef Hs. specialize (D f Ef Hs). rewrite Es, <- app_assoc. exact D.
Qed.

Lemma QA_recv o act ls n L dn w :
  Forall good_cmd (winbox w) -> wreply w = None -> QA act ls n L dn w -> QA act ls n L dn (fst (recv_step o w)).
Proof.
  intros G Hr [A B C D E]. destruct (recv_step_owed o w G Hr) as (_ & _ & Es & Ep & _).
  constructor; rewrite ?Ep; auto.
  - rewrite Es. exact D.
  - apply Progress.CB_recv. exact E.
Qed.

Lemma QA_main o ls act ss n L dn w w' evs :
  NI ls act ss n L dn w -> QA act ls n L dn w -> main_step o w = Some (w', evs) ->
  QA act ls n (L ++ flat_map we_sig evs) dn w'.
Proof.
  intros X [A B C D E] H.
  destruct (main_step_frame _ _ _ _ H) as (_ & _ & _ & Estr).
  destruct (Progress.main_step_boot _ _ _ _ (ni_wx _ _ _ _ _ _ _ X) H) as (Bt1 & Bt2 & Bt3).
  pose proof (main_step_not_exited _ _ _ _ H) as Hne0.
  constructor.
  - intros Hact _ _. destruct (Progress.phase_eq_dec_boot (wph w)) as [Eb|Eb].
    + left. apply in_or_app. right. apply Bt1. exact Eb.
    + destruct (A Hact Eb Hne0) as [X1|X1]; [left; apply in_or_app; left; exact X1|right; exact X1].
  - intros Hact Hr _. destruct (Progress.main_step_cf _ _ _ _ H Hr) as [Hr0|Hin].
    + destruct (B Hact Hr0 Hne0) as [X1|X1]; [left; apply in_or_app; left; exact X1|right; exact X1].
    + left. apply in_or_app. right. exact Hin.
  - intros Hex _. destruct (Progress.main_step_exit _ _ _ _ H Hex) as (b & Hb). exists b. apply in_or_app. right. exact Hb.
  - intros f Ef Hs. rewrite Estr. exact (D f Ef Hs).
  - eapply Progress.CB_main; eauto.
Qed.

(* ---- the controller's flags change (receiver thread, channel closed): nothing else moves ---- *)
Lemma QA_flags act ls ls' n L dn w :
  Progress.FlagsUp ls ls' -> l_n2p ls' = l_n2p ls -> l_n2c ls' = l_n2c ls ->
  QA act ls n L dn w -> QA act ls' n L dn w.
Proof.
  intros FU Ep Ec [A B C D E]. constructor; auto.
  - intros H1 H2 H3. destruct (A H1 H2 H3) as [X|[X|X]]; [left; exact X|right; left|right; right].
    + unfold l_nodes. rewrite Ep. exact X.
    + eapply Progress.flagsup_sd_in; eauto.
  - intros H1 H2 H3. destruct (B H1 H2 H3) as [X|[X|X]]; [left; exact X|right; left|right; right].
    + rewrite Ec. exact X.
    + eapply Progress.flagsup_sd_in; eauto.
  - intros f' Ef' Hs. specialize (FU n). rewrite Ef' in FU. destruct (aget n (l_nt ls)) as [f|] eqn:Ef; [|destruct FU].
    destruct FU as (X & _). apply (D f eq_refl). congruence.
Qed.

Lemma QC_flags N d d' ls ls' :
  Progress.FlagsUp ls ls' -> l_n2p ls' = l_n2p ls -> l_n2c ls' = l_n2c ls -> l_pending ls' = l_pending ls ->
  l_numnodes ls' = l_numnodes ls ->
  d_shuttingdown d' = d_shuttingdown d -> d_shouldstop d' = d_shouldstop d -> exhausted d' = exhausted d ->
  d_active d' = d_active d ->
  QC N d ls -> QC N d' ls'.
Proof.
  intros FU Ep Ec Eq Em S1 S2 S3 S4 [A B C D].
  assert (Ecomp : l_collection_is_completed ls' = l_collection_is_completed ls).
  { unfold l_collection_is_completed. rewrite Ec, Em. reflexivity. }
  constructor; rewrite ?S1, ?S2, ?S3, ?S4, ?Ecomp.
  - intros Hs. rewrite <- (A Hs). unfold l_tests_finished. rewrite Ecomp, Eq, Ep. reflexivity.
  - apply (two_flags ls ls' Ep Ec Eq); [|exact B].
    intros m f' _ Ef' Hsd. specialize (FU m). rewrite Ef' in FU.
    destruct (aget m (l_nt ls)) as [f|] eqn:Ef; [|destruct FU]. destruct FU as (X1 & X2).
    exists f. split; [reflexivity|]. unfold shutting_down in *. apply orb_false_iff in Hsd. destruct Hsd as (H1 & H2).
    rewrite <- X1, H2, orb_false_r. destruct (n_down f); [rewrite (X2 eq_refl) in H1; discriminate|reflexivity].
  - intros Hs m Hm. eapply Progress.flagsup_sd_in; [exact FU|]. apply (C Hs). unfold l_nodes in *. rewrite <- Ep. exact Hm.
  - exact D.
Qed.

Lemma FlagsUp_refl ls : Progress.FlagsUp ls ls.
Proof. intros k. destruct (aget k (l_nt ls)); auto. Qed.

Lemma FlagsUp_upd ls n f f' :
  aget n (l_nt ls) = Some f -> n_sdsent f' = n_sdsent f -> (n_down f = true -> n_down f' = true) ->
  Progress.FlagsUp ls (upd_flag ls n f').
Proof.
  intros Ef A B k. rewrite aget_upd_flag. destruct (Nat.eqb k n) eqn:E.
  - apply Nat.eqb_eq in E. subst k. rewrite Ef. auto.
  - destruct (aget k (l_nt ls)); auto.
Qed.

Lemma pfr_shape' n m d d' o r :
  m <> UBad -> process_from_remote n m d = (d', o, r) ->
  d' = d \/ exists f, aget n (d_nt d) = Some f /\ d' = d_set_nt d (aset n (down_flag' f) (d_nt d)).
Proof.
  intros Hm H. unfold process_from_remote, mbind, get, of_opt, ret, raise, put in H. cbn beta iota zeta in H.
  destruct (aget n (d_nt d)) as [f|] eqn:Ef; cbn beta iota zeta in H; [|inv H; left; reflexivity].
  destruct (n_down f) eqn:Edn.
  { assert (H' : (d, @nil out, Ok (@nil cevent)) = (d', o, r)).
    { destruct m as [e|ids|sk|i ms|dec| | |]; exact H. }
    inv H'. left. reflexivity. }
  destruct m as [e|ids|sk|i ms|dec| | |]; try contradiction; try (inv H; left; reflexivity);
    try (inv H; right; exists f; split; reflexivity).
  destruct e; try (inv H; left; reflexivity). inv H. right. exists f. split; reflexivity.
Qed.

Section SysQ.
Variable c : config.
Notation N := (c_numnodes c).
Notation X0 := (c_coll c).
Hypothesis Hmode : c_mode c = MLoad.
Hypothesis Hng : no_garbled c.
Hypothesis Hpos : 0 < N.

Lemma QInv_init : QInv N (sys_init c).
Proof.
  unfold QInv. cbn [sys_init y_d d_sched]. rewrite Hmode. cbn [s_init s_set_nt].
  eexists. split; [reflexivity|]. split.
  - constructor; cbn [d_shuttingdown d_shouldstop d_active].
    + intros _. unfold l_tests_finished, l_collection_is_completed. cbn [l_set_nt l_init l_numnodes l_n2c length].
      destruct N; [lia|]. reflexivity.
    + apply T2_pool_empty. reflexivity.
    + discriminate.
    + intros _ _ _. exists (seq 0 N). split; [apply seq_NoDup|]. split; [apply incl_refl|rewrite seq_length; lia].
  - intros n w Ew. cbn [sys_init y_w] in Ew. apply aget_map_const in Ew. subst w. split.
    + cbn. intros [].
    + intros _. constructor; cbn [w_init wph prank].
      * intros _ Fb. exfalso. apply Fb. reflexivity.
      * intros _ Fb. lia.
      * discriminate.
      * intros f Ef Hs. cbn [l_set_nt l_nt l_init] in Ef. destruct (aget_init_nt_fresh c n f Ef) as (X & _). congruence.
      * exact Progress.CB_init.
Qed.

(* a step of one worker: the controller does not move *)
Lemma qinv_upd s s' n0 w' :
  y_d s' = y_d s -> y_evq s' = y_evq s -> y_dead s' = y_dead s -> y_w s' = aset n0 w' (y_w s) ->
  (forall n, n <> n0 -> alist_get [] n (y_up s') = alist_get [] n (y_up s)) ->
  (forall n, n <> n0 -> alist_get [] n (y_down s') = alist_get [] n (y_down s)) ->
  QInv N s -> (forall ls, d_sched (y_d s) = StL ls -> QN s' ls n0 w') -> QInv N s'.
Proof.
  intros Ed Eq Edd Ew Eu Edn (ls & Els & QCd & QNs) Hn0. exists ls. rewrite Ed.
  split; [exact Els|]. split; [exact QCd|]. intros n w Hw. rewrite Ew in Hw.
  destruct (Nat.eq_dec n n0) as [->|Hne].
  - rewrite aget_aset_eq in Hw. inv Hw. apply Hn0. exact Els.
  - rewrite aget_aset_neq in Hw by exact Hne. destruct (QNs n w Hw) as (A & B). unfold QN.
    assert (Es : sigs s' n = sigs s n) by (unfold sigs; rewrite Eq, (Eu n Hne); reflexivity).
    rewrite Es, Edd, Ed, (Edn n Hne). split; assumption.
Qed.

(* a step that only changes flags of the controller *)
Lemma qinv_flagstep s s' ls ls' :
  d_sched (y_d s) = StL ls -> d_sched (y_d s') = StL ls' ->
  Progress.FlagsUp ls ls' -> l_n2p ls' = l_n2p ls -> l_n2c ls' = l_n2c ls -> l_pending ls' = l_pending ls ->
  l_numnodes ls' = l_numnodes ls ->
  d_shuttingdown (y_d s') = d_shuttingdown (y_d s) -> d_shouldstop (y_d s') = d_shouldstop (y_d s) ->
  exhausted (y_d s') = exhausted (y_d s) -> d_active (y_d s') = d_active (y_d s) ->
  y_w s' = y_w s -> (forall n, sigs s' n = sigs s n) ->
  (forall n, mem_nat n (y_dead s') = false ->
     mem_nat n (y_dead s) = false /\ alist_get [] n (y_down s') = alist_get [] n (y_down s)) ->
  QC N (y_d s) ls -> (forall n w, aget n (y_w s) = Some w -> QN s ls n w) -> QInv N s'.
Proof.
  intros Els Els' FU Ep Ec Eq Em S1 S2 S3 S4 Ew Es Edn QCd QNs.
  exists ls'. split; [exact Els'|]. split.
  - eapply QC_flags; eauto.
  - intros n w Hw. rewrite Ew in Hw. destruct (QNs n w Hw) as (A & B). split.
    + rewrite Ec, Es. exact A.
    + intros Hd. destruct (Edn n Hd) as (Hd0 & Ed0). rewrite Es, Ed0, S4.
      eapply QA_flags; eauto.
Qed.

Lemma d_nt_l d ls : d_sched d = StL ls -> d_nt d = l_nt ls.
Proof. intros E. unfold d_nt. rewrite E. reflexivity. Qed.

(* ---- a worker process dies ---- *)
Lemma qinv_crash s n0 w0 :
  XInv c s -> QInv N s -> mem_nat n0 (y_dead s) = false -> aget n0 (y_w s) = Some w0 ->
  QInv N (crash_worker c s n0).
Proof.
  intros X (ls & Els & QCd & QNs) Hd Ew.
  pose proof X as [Lo Hi (ls0 & DJd & NIs) Eq Eu Ea Er Edead].
  pose proof DJd as ([Els0 J _ _ _ _ _ _ _ _] & _). assert (ls0 = ls) by congruence. subst ls0.
  pose proof (worker_lt c s n0 w0 X Ew) as HnG.
  destruct (aget n0 (l_nt ls)) as [f0|] eqn:Ef0; [|exfalso; apply (proj2 (lj_ntk' _ _ _ _ J n0) HnG); exact Ef0].
  set (s' := crash_worker c s n0).
  assert (SG : forall n, sigs s' n = sigs s n).
  { intros n. unfold sigs, s', crash_worker. cbn [y_evq y_up]. destruct (Nat.eq_dec n n0) as [->|Hn].
    - rewrite alist_get_aset_eq, flat_map_app. cbn. rewrite app_nil_r. reflexivity.
    - rewrite alist_get_aset_neq by exact Hn. reflexivity. }
  assert (DN : forall n, mem_nat n (y_dead s') = false ->
             mem_nat n (y_dead s) = false /\ alist_get [] n (y_down s') = alist_get [] n (y_down s)).
  { intros n Hn. change (y_dead s') with (n0 :: y_dead s) in Hn. rewrite mem_nat_cons in Hn.
    apply orb_false_iff in Hn. destruct Hn as (A & B). split; [exact B|].
    apply Nat.eqb_neq in A. unfold s', crash_worker. cbn [y_down]. apply alist_get_aset_neq. exact A. }
  unfold s', crash_worker in *. cbn [y_d] in *. destruct (c_strict c).
  - rewrite (d_nt_l _ _ Els), Ef0 in *.
    eapply (qinv_flagstep s _ ls (upd_flag ls n0 (closed_flag f0))); try reflexivity; eauto.
    + cbn [y_d]. rewrite <- (d_nt_l _ _ Els). apply d_set_nt_sched. exact Els.
    + apply (FlagsUp_upd ls n0 f0); auto.
  - eapply (qinv_flagstep s _ ls ls); try reflexivity; eauto. apply FlagsUp_refl.
Qed.

(* ---- the channel of a dead worker is closed ---- *)
Lemma qinv_close s n : QInv N s -> QInv N (close_if_dead s n).
Proof.
  intros (ls & Els & QCd & QNs). unfold close_if_dead. destruct (mem_nat n (y_dead s)) eqn:Hd; [|exists ls; auto].
  destruct (aget n (d_nt (y_d s))) as [f|] eqn:Ef; [|exists ls; auto].
  destruct (n_down f) eqn:Edn; [|exists ls; auto].
  rewrite (d_nt_l _ _ Els) in Ef.
  set (fc := {| n_spec := n_spec f; n_down := true; n_sdsent := n_sdsent f; n_closed := true |}).
  eapply (qinv_flagstep s _ ls (upd_flag ls n fc)); try reflexivity; eauto.
  - cbn [set_d y_d]. apply d_set_nt_sched. exact Els.
  - apply (FlagsUp_upd ls n f); auto.
Qed.

(* ---- all labels but LCtl ---- *)
Lemma step_qinv_worker s l s' o w :
  l <> LCtl -> XInv c s -> QInv N s -> sys_step c s l = Some (s', o, w) -> QInv N s'.
Proof.
  intros Hl X Q H. pose proof X as [Lo Hi (ls & DJd & NIs) Eq Eu Ea Er Edead].
  pose proof DJd as ([Els J _ _ _ _ _ _ _ _] & _).
  pose proof Q as (lsq & Elsq & QCd & QNs). assert (lsq = ls) by congruence. subst lsq.
  unfold sys_step in H. destruct (y_result s) eqn:Eres; [discriminate|].
  destruct l as [n0|n0|n0|n0| |n0]; [| | | |contradiction|].
  - (* LDeliver *)
    destruct (mem_nat n0 (y_dead s)) eqn:Hd; [discriminate|].
    destruct (aget n0 (y_down s)) as [[|cmd rest]|] eqn:Ed; try discriminate.
    destruct (aget n0 (y_w s)) as [w0|] eqn:Ew; try discriminate.
    inv H. eapply (qinv_upd s _ n0 (deliver w0 cmd)); try reflexivity; eauto.
    + intros n Hn. cbn [y_down]. apply alist_get_aset_neq. exact Hn.
    + intros ls0 E0. assert (ls0 = ls) by congruence. subst ls0.
      destruct (QNs n0 w0 Ew) as (A & B). split; [exact A|]. cbn [y_dead y_d y_down]. intros _.
      rewrite alist_get_aset_eq. change (sigs _ n0) with (sigs s n0).
      apply QA_deliver. specialize (B Hd). rewrite (alist_get_some [] _ _ _ Ed) in B. exact B.
  - (* LRecvW *)
    destruct (mem_nat n0 (y_dead s)) eqn:Hd; [discriminate|].
    destruct (aget n0 (y_w s)) as [w0|] eqn:Ew; try discriminate.
    destruct (negb (wcb w0)); [discriminate|].
    destruct (recv_step (c_oracle c n0) w0) as [w' evs] eqn:Es. inv H.
    destruct (NIs n0 w0 Ew) as (Iw & Gw & NGw & D). rewrite Hd in D. destruct D as [D1 _ _ _ _ _].
    destruct (NI_recv (c_oracle c n0) _ _ _ _ _ _ _ Gw D1) as (Ev & _). rewrite Es in Ev. cbn [snd] in Ev. subst evs.
    eapply (qinv_upd s _ n0 w'); try reflexivity; eauto.
    + intros n Hn. cbn [push_up set_w y_up]. apply alist_get_aset_neq. exact Hn.
    + intros ls0 E0. assert (ls0 = ls) by congruence. subst ls0.
      destruct (QNs n0 w0 Ew) as (A & B).
      assert (Sg : sigs (push_up (set_w s n0 w') n0 (map (up_of_wevent c n0) [])) n0 = sigs s n0).
      { unfold sigs. cbn [push_up set_w y_evq y_up map]. rewrite alist_get_aset_eq, app_nil_r. reflexivity. }
      split; [rewrite Sg; exact A|]. cbn [push_up set_w y_dead y_d y_down]. intros _. rewrite Sg.
      pose proof (QA_recv (c_oracle c n0) _ _ _ _ _ _ Gw (proj1 (ni_wx _ _ _ _ _ _ _ D1)) (B Hd)) as Y.
      rewrite Es in Y. exact Y.
  - (* LMain *)
    destruct (mem_nat n0 (y_dead s)) eqn:Hd; [discriminate|].
    destruct (aget n0 (y_w s)) as [w0|] eqn:Ew; try discriminate.
    destruct (dies_now c n0 w0) eqn:Edie.
    + inv H. eapply qinv_crash; eauto.
    + destruct (main_step (c_oracle c n0) w0) as [[w' evs]|] eqn:Es; [|discriminate]. inv H.
      destruct (NIs n0 w0 Ew) as (Iw & Gw & NGw & D). rewrite Hd in D. destruct D as [D1 _ _ _ _ _].
      eapply (qinv_upd s _ n0 w'); try reflexivity; eauto.
      * intros n Hn. cbn [push_up set_w y_up]. apply alist_get_aset_neq. exact Hn.
      * intros ls0 E0. assert (ls0 = ls) by congruence. subst ls0.
        destruct (QNs n0 w0 Ew) as (A & B).
        assert (Sg : sigs (push_up (set_w s n0 w') n0 (map (up_of_wevent c n0) evs)) n0 = sigs s n0 ++ flat_map we_sig evs).
        { unfold sigs. cbn [push_up set_w y_evq y_up]. rewrite alist_get_aset_eq, flat_map_app, up_sigs_of_wevents, app_assoc. reflexivity. }
        split.
        -- rewrite Sg. intros Hin Hi2. apply in_app_or in Hi2. destruct Hi2 as [Hi2|Hi2]; [exact (A Hin Hi2)|].
           destruct (Progress.main_step_boot _ _ _ _ (ni_wx _ _ _ _ _ _ _ D1) Es) as (_ & Bt2 & _).
           apply Bt2 in Hi2. destruct (ni_n2c _ _ _ _ _ _ _ D1 Hin) as (_ & Hr). rewrite Hi2 in Hr. cbn in Hr. lia.
        -- cbn [push_up set_w y_dead y_d y_down]. intros _. rewrite Sg. eapply QA_main; [exact D1|exact (B Hd)|exact Es].
  - (* LRecv *)
    destruct (aget n0 (y_up s)) as [[|m rest]|] eqn:Eup; try discriminate.
    cbn [y_d] in H.
    destruct (process_from_remote n0 m (y_d s)) as [[d' outs] r] eqn:Ep.
    destruct (step_recv c Hpos s n0 m rest d' outs r X Eup Ep) as (-> & evs & -> & _ & _ & SGS).
    cbn [apply_outs] in H. inv H. apply qinv_close.
    pose proof (Eu n0) as En. rewrite (alist_get_some [] _ _ _ Eup) in En. inversion En as [|m1 r1 Gm Gr]; subst.
    assert (Hm : m <> UBad) by (intros ->; exact Gm).
    match goal with |- QInv N ?S2 => set (s2 := S2) end.
    assert (SG : forall k, sigs s2 k = sigs s k) by (intros k; exact (SGS k)).
    destruct (pfr_shape' _ _ _ _ _ _ Hm Ep) as [->|(f & Ef & ->)].
    + eapply (qinv_flagstep s s2 ls ls); try reflexivity; eauto. apply FlagsUp_refl.
    + rewrite (d_nt_l _ _ Els) in Ef.
      eapply (qinv_flagstep s s2 ls (upd_flag ls n0 (down_flag' f))); try reflexivity; eauto.
      * cbn [s2 set_evq set_d y_d]. apply d_set_nt_sched. exact Els.
      * apply (FlagsUp_upd ls n0 f); auto.
  - (* LCrash *)
    destruct (mem_nat n0 (y_dead s)) eqn:Hd; [discriminate|].
    destruct (aget n0 (y_w s)) as [w0|] eqn:Ew; try discriminate.
    destruct (wph w0) eqn:Eph; try discriminate; inv H; eapply qinv_crash; eauto.
Qed.

Lemma filter_neq_length n (l : list nat) :
  NoDup l -> length l <= S (length (filter (fun m => negb (Nat.eqb m n)) l)).
Proof.
  induction 1 as [|x l Hx ND IH]; cbn; [lia|].
  destruct (Nat.eqb x n) eqn:E; cbn.
  - apply Nat.eqb_eq in E. subst x.
    assert (Ef : filter (fun m => negb (Nat.eqb m n)) l = l).
    { clear IH ND. induction l as [|y l IH]; [reflexivity|]. cbn.
      destruct (Nat.eqb y n) eqn:Ey; cbn.
      - apply Nat.eqb_eq in Ey. subst y. exfalso. apply Hx. left. reflexivity.
      - f_equal. apply IH. intros F. apply Hx. right. exact F. }
    rewrite Ef. lia.
  - lia.
Qed.

Lemma ev_sig_fin ev k b : ev_sig ev = Some (k, SgFin b) -> exists sk, ev = QFinished k sk.
Proof. destruct ev; cbn; intros E; try discriminate; inv E. eexists. reflexivity. Qed.

(* ---- LCtl ---- *)
Lemma step_qinv_ctl s ev q d' outs :
  XInv c s -> QInv N s -> y_result s = None -> y_evq s = ev :: q ->
  d_loop_once ev (y_d s) = (d', outs, Ok tt) ->
  forall rr, QInv N (set_result (apply_outs (set_d (set_evq s q) d') outs) rr).
Proof.
  intros X Q Eres Eevq El rr. pose proof X as [Lo Hi (ls & DJd & NIs) Eq Eu Ea Er Edead].
  specialize (Ea Eres).
  pose proof (pre_from_inv' c s ls ev q X DJd NIs Eevq) as Hpre.
  destruct (loop_once_ok' N X0 Hpos ev _ ls d' outs _ DJd Ea Hpre El) as (_ & ls' & vo & Eo & E & DJ2 & _ & _).
  pose proof DJ2 as ([Els' J' _ K1' _ _ _ _ AL' _] & _).
  pose proof (loop_lx N X0 Hpos ev _ ls d' outs ls' DJd Ea Hpre El Els') as LXx.
  pose proof (loop_once_step _ _ _ _ _ El) as (_ & _ & _ & SP).
  pose proof DJd as ([Els J _ _ _ _ _ _ AL _] & _).
  destruct Q as (lsq & Elsq & QCd & QNs). assert (lsq = ls) by congruence. subst lsq.
  set (G := d_next_gw (y_d s)) in *.
  assert (SPW : (d_next_gw d' = G /\ forall id sp, ~ In (OHook (HSpawn id sp)) outs) \/
                (d_next_gw d' = S G /\ (exists sp, In (OHook (HSpawn G sp)) outs) /\
                 forall id sp, In (OHook (HSpawn id sp)) outs -> id = G)).
  { destruct SP as [(C0 & G0)|(C1 & G1 & _ & _ & sp & SPx)].
    - left. split; [exact G0|]. intros id sp Hin. pose proof (count_zero_notin _ _ _ C0 Hin) as F. discriminate.
    - right. split; [exact G1|]. split.
      + destruct (count_pos_in _ _ C1) as (x & Hx & Fx). exists sp. rewrite <- (SPx x Hx Fx). exact Hx.
      + intros id sp' Hin. specialize (SPx _ Hin eq_refl). inv SPx. reflexivity. }
  assert (SPID : forall id sp, In (OHook (HSpawn id sp)) outs -> id = G /\ d_next_gw d' = S G).
  { intros id sp Hin. destruct SPW as [(_ & F)|(A & _ & B)]; [exfalso; exact (F _ _ Hin)|]. split; [eapply B; eauto|exact A]. }
  assert (OUTG : forall m, G <= m -> cmds_to m outs = []).
  { intros m Hm. rewrite Eo, cmds_to_vfilter, (he_out' _ _ _ _ _ _ _ _ E m Hm). destruct (closedb (l_nt ls) m); reflexivity. }
  set (sA := set_d (set_evq s q) d').
  destruct (apply_outs_frame outs sA) as (F1 & F2 & F3). cbn [sA set_d set_evq y_evq y_d y_dead] in F1, F2, F3.
  assert (UP : forall k, alist_get [] k (y_up (apply_outs sA outs)) = alist_get [] k (y_up s)).
  { intros k. rewrite apply_outs_up; [reflexivity|]. intros id sp Hin. destruct (SPID _ _ Hin) as (-> & _).
    cbn [sA set_d set_evq y_up]. apply (Hi G). lia. }
  assert (DOWN : forall k, alist_get [] k (y_down (apply_outs sA outs)) =
            if mem_nat k (y_dead s) then alist_get [] k (y_down s) else alist_get [] k (y_down s) ++ cmds_to k outs).
  { intros k. rewrite apply_outs_down; [reflexivity|]. intros id sp Hin. destruct (SPID _ _ Hin) as (-> & _).
    split; [apply OUTG; lia|]. cbn [sA set_d set_evq y_down]. apply (Hi G). lia. }
  assert (WOLD : forall k, k < G -> aget k (y_w (apply_outs sA outs)) = aget k (y_w s)).
  { intros k Hk. rewrite apply_outs_w_none; [reflexivity|]. intros sp Hin. destruct (SPID _ _ Hin) as (-> & _). lia. }
  assert (SIGS : forall k, sigs s k = ev_sigs_for k ev ++ sigs (set_result (apply_outs sA outs) rr) k).
  { intros k. rewrite (sigs_head' s ev q k Eevq). unfold sigs. cbn [set_result y_evq y_up]. rewrite F1, UP. reflexivity. }
  assert (Hok : ok_evx X0 G ev) by (rewrite Eevq in Eq; inversion Eq; assumption).
  exists ls'. cbn [set_result y_d]. rewrite F2. split; [exact Els'|]. split.
  - (* the controller part *)
    constructor.
    + exact (lx_tf _ _ _ _ _ LXx).
    + apply (lx_two _ _ _ _ _ LXx); [|exact (qc_two _ _ _ QCd)].
      intros n -> Hin. destruct Hok as (_ & HnG). cbn in HnG.
      destruct (aget n (y_w s)) as [wn|] eqn:Ewn; [|exact (Lo n HnG Ewn)].
      destruct (QNs n wn Ewn) as (A & _). apply (A Hin). rewrite (sigs_head' s _ q n Eevq).
      unfold ev_sigs_for. cbn [ev_sig]. rewrite Nat.eqb_refl. left. reflexivity.
    + intros Hsd. apply (lx_sd _ _ _ _ _ LXx Hsd). exact (qc_sd _ _ _ QCd).
    + intros Hc' Hss' Hex'.
      assert (Hc : l_collection_is_completed ls = false).
      { apply not_true_false. intros C. rewrite (lx_comp _ _ _ _ _ LXx C) in Hc'. discriminate. }
      assert (Hss : d_shouldstop (y_d s) = false).
      { apply not_true_false. intros C. rewrite (he_ss' _ _ _ _ _ _ _ _ E C) in Hss'. discriminate. }
      assert (Hex : exhausted (y_d s) = false).
      { apply not_true_false. intros C. rewrite (lx_exh _ _ _ _ _ LXx C) in Hex'. discriminate. }
      destruct (qc_cnt _ _ _ QCd Hc Hss Hex) as (l & ND & Hincl & Hlen).
      assert (KEEP : (forall m b, ev_sig ev <> Some (m, SgFin b)) -> (forall m, ev <> QErrorDown m) ->
                     exists l0, NoDup l0 /\ incl l0 (d_active d') /\ N <= length l0).
      { intros Hnf Hne. exists l. split; [exact ND|]. split; [|exact Hlen]. intros m Hm.
        destruct (he_act' _ _ _ _ _ _ _ _ E m (Hincl m Hm)) as [Y|[(b & Y)|Y]]; [exact Y| |].
        - exfalso. exact (Hnf _ _ Y).
        - exfalso. exact (Hne _ Y). }
      destruct ev as [n|n ids|n key fl|n i|n i|n i k0 oc|n i ms|n ixs| |n|n sk|n];
        try (apply KEEP; intros; discriminate).
      * (* finished: impossible before the collection is complete *)
        exfalso. destruct sk; cbn [PRE'] in Hpre.
        -- destruct Hpre as (Hina & _ & (f & Ef & Hsf)).
           destruct (heff_flag_fwd _ _ _ _ _ _ _ _ _ _ E (AL n Hina) Ef) as (f1 & Ef1 & _ & Sd).
           rewrite (K1' Hc' Hss' Hex' n f1 Ef1) in Sd. specialize (Sd Hsf). discriminate.
        -- rewrite (he_stop' _ _ _ _ _ _ _ _ E n eq_refl) in Hss'. discriminate.
        -- contradiction.
      * (* errordown: the replacement takes the place of the dead node *)
        pose proof (lx_clone _ _ _ _ _ LXx n eq_refl Hex') as Hgw.
        destruct (he_gw' _ _ _ _ _ _ _ _ E) as [Y|(_ & _ & HinG & _)]; [fold G in Y; lia|]. fold G in HinG, Hgw.
        exists (G :: filter (fun m => negb (Nat.eqb m n)) l). split; [|split].
        -- constructor; [|apply NoDup_filter; exact ND]. intros F. apply in_filter_neq in F. destruct F as (F & _).
           pose proof (AL G (Hincl G F)). fold G in H. lia.
        -- intros m [<-|Hm]; [exact HinG|]. apply in_filter_neq in Hm. destruct Hm as (Hm & Hne).
           destruct (he_act' _ _ _ _ _ _ _ _ E m (Hincl m Hm)) as [Y|[(b & Y)|Y]]; [exact Y|discriminate|].
           injection Y as Y. congruence.
        -- cbn [length]. pose proof (filter_neq_length n l ND). lia.
  - (* the workers *)
    intros k w Hw. cbn [set_result y_w] in Hw.
    destruct (Nat.lt_ge_cases k G) as [Hlt|Hge].
    + rewrite (WOLD k Hlt) in Hw. destruct (QNs k w Hw) as (A & B). destruct (NIs k w Hw) as (_ & _ & _ & D).
      assert (CH : chan_ok (prank (wph w)) (sigs s k)).
      { destruct (mem_nat k (y_dead s)); [destruct D as [D1 _ _]; exact (nd_chan _ _ _ _ D1)|].
        destruct D as [D1 _ _ _ _ _]. exact (ni_chan _ _ _ _ _ _ _ D1). }
      assert (NOREADY_AFTER_CF : ev_sig ev = Some (k, SgCF) ->
                ~ In SgReady (sigs (set_result (apply_outs sA outs) rr) k) /\ ~ In SgReady (sigs s k)).
      { intros Hev. rewrite (SIGS k), (Progress.ev_sigs_for_self _ _ _ Hev) in CH. cbn [app] in CH.
        destruct (chan_ok_head _ _ _ CH) as (_ & Fa). rewrite Forall_forall in Fa.
        assert (Z : ~ In SgReady (sigs (set_result (apply_outs sA outs) rr) k)).
        { intros Hi2. specialize (Fa _ Hi2). unfold prec in Fa. cbn in Fa. lia. }
        split; [exact Z|]. rewrite (SIGS k), (Progress.ev_sigs_for_self _ _ _ Hev). intros [F|F]; [discriminate|exact (Z F)]. }
      split.
      * intros Hin' Hi2. destruct (he_n2c' _ _ _ _ _ _ _ _ E k Hin') as [Hin|Hev].
        -- apply (A Hin). rewrite (SIGS k). apply in_or_app. right. exact Hi2.
        -- exact (proj1 (NOREADY_AFTER_CF Hev) Hi2).
      * cbn [set_result y_dead y_d y_down]. rewrite F3, F2. intros Hd. specialize (B Hd). rewrite Hd in D.
        destruct D as [D1 D2 D3 D4 D5 D6]. rewrite (SIGS k) in B.
        rewrite Eevq in D4. destruct (no_errd_cons_inv _ _ _ D4) as (Hev & Hq).
        rewrite DOWN, Hd.
        assert (CM : cmds_to k outs = cmds_to k vo) by (rewrite Eo, cmds_to_vfilter, D5; reflexivity).
        assert (ACTB : In k (d_active d') -> In k (d_active (y_d s))).
        { intros Hin. destruct (he_actb' _ _ _ _ _ _ _ _ E k Hin) as [Y|(Y & _)]; [exact Y|]. fold G in Y. lia. }
        assert (NOFE : In k (d_active d') -> fin_or_err ev k -> False).
        { intros Hin [(sk & ->)| ->].
          - exact (lx_fin _ _ _ _ _ LXx k sk eq_refl Hin).
          - exact (is_errd_false _ _ Hev k eq_refl eq_refl). }
        assert (SDM : LivenessLaws.sd_in (l_nt ls) k -> LivenessLaws.sd_in (l_nt ls') k).
        { intros Y. eapply heff_sd_in; [exact E|exact Hlt|exact Y]. }
        destruct B as [Ba Bb Bc Bd Be].
        constructor.
        -- intros Hact' Hnb Hnx. destruct (Ba (ACTB Hact') Hnb Hnx) as [Hi2|[Hi2|Hi2]].
           ++ apply in_app_or in Hi2. destruct Hi2 as [Hi2|Hi2]; [|left; exact Hi2].
              apply Progress.ev_sigs_for_in, Progress.ev_sig_ready in Hi2. right. exact (lx_ready _ _ _ _ _ LXx k Hi2).
           ++ destruct (lx_nodes _ _ _ _ _ LXx k Hi2) as [Y|Y]; [right; left; exact Y|exfalso; exact (NOFE Hact' Y)].
           ++ right. right. exact (SDM Hi2).
        -- intros Hact' Hr Hnx. destruct (Bb (ACTB Hact') Hr Hnx) as [Hi2|[Hi2|Hi2]].
           ++ apply in_app_or in Hi2. destruct Hi2 as [Hi2|Hi2]; [|left; exact Hi2].
              apply Progress.ev_sigs_for_in in Hi2. pose proof Hi2 as Hcf. apply Progress.ev_sig_cf in Hi2. destruct Hi2 as (ids & ->).
              right.
              assert (Hnb : wph w <> PBoot) by (intros Eb; rewrite Eb in Hr; cbn in Hr; lia).
              assert (REG : In k (l_nodes ls) \/ LivenessLaws.sd_in (l_nt ls) k).
              { destruct (Ba (ACTB Hact') Hnb Hnx) as [Y|[Y|Y]]; [|left; exact Y|right; exact Y].
                exfalso. rewrite <- (SIGS k) in Y. exact (proj2 (NOREADY_AFTER_CF Hcf) Y). }
              destruct REG as [Hreg|Hsdk]; [|right; exact (SDM Hsdk)].
              destruct (d_shuttingdown (y_d s)) eqn:Esd.
              ** right. apply SDM. exact (qc_sd _ _ _ QCd Esd k Hreg).
              ** exact (lx_cf _ _ _ _ _ LXx k ids eq_refl Esd Hreg).
           ++ destruct (lx_n2c _ _ _ _ _ LXx k Hi2) as [Y|Y]; [right; left; exact Y|exfalso; exact (NOFE Hact' Y)].
           ++ right. right. exact (SDM Hi2).
        -- intros Hex Hact'. destruct (Bc Hex (ACTB Hact')) as (b & Hi2).
           apply in_app_or in Hi2. destruct Hi2 as [Hi2|Hi2]; [|exists b; exact Hi2].
           exfalso. apply Progress.ev_sigs_for_in, ev_sig_fin in Hi2. destruct Hi2 as (sk & ->).
           exact (lx_fin _ _ _ _ _ LXx k sk eq_refl Hact').
        -- intros f' Ef' Hs. pose proof (he_nt' _ _ _ _ _ _ _ _ E k Hlt) as HNT. rewrite Ef' in HNT.
           destruct (aget k (l_nt ls)) as [f|] eqn:Ef; [|destruct HNT]. cbn in HNT.
           destruct (NR_fields _ _ _ HNT) as (_ & _ & _ & Dsd & _). apply Dsd in Hs.
           rewrite CM, flat_map_app, app_assoc. apply in_or_app. destruct Hs as [Hs|Hs].
           ++ left. exact (Bd f eq_refl Hs).
           ++ right. apply in_flat_map. exists CShutdown. split; [exact Hs|left; reflexivity].
        -- exact Be.
    + (* the replacement worker that has just been started *)
      destruct SPW as [(A & Fno)|(A & (sp & Hin) & _)].
      { exfalso. rewrite apply_outs_w_none in Hw by (intros sp Hin; exact (Fno _ _ Hin)).
        destruct (Hi k Hge) as (F & _). cbn [sA set_d set_evq y_w] in Hw. congruence. }
      destruct (Nat.eq_dec k G) as [->|Hne].
      2:{ exfalso. rewrite apply_outs_w_none in Hw.
          - destruct (Hi k Hge) as (F & _). cbn [sA set_d set_evq y_w] in Hw. congruence.
          - intros sp' Hin'. destruct (SPID _ _ Hin') as (-> & _). contradiction. }
      rewrite (apply_outs_spawned outs sA G) in Hw by (right; eauto). injection Hw as <-.
      destruct (he_gw' _ _ _ _ _ _ _ _ E) as [Y|(_ & (f & Ef & (Hf1 & Hf2 & Hf3)) & Hina & Hnn & Hnc)]; [fold G in Y; lia|].
      fold G in Ef, Hina, Hnn, Hnc.
      split; [intros F; contradiction|]. intros _. constructor; cbn [w_init wph prank].
      * intros _ Fb. exfalso. apply Fb. reflexivity.
      * intros _ Fb. lia.
      * discriminate.
      * intros g Eg Hg. assert (g = f) by congruence. subst g. congruence.
      * exact Progress.CB_init.
Qed.

(* ---- every label ---- *)
Lemma step_qinv s l s' o w :
  XInv c s -> QInv N s -> sys_step c s l = Some (s', o, w) -> QInv N s' \/ y_result s' <> None.
Proof.
  intros X Q H. destruct l as [n0|n0|n0|n0| |n0];
    try (left; eapply step_qinv_worker; [| | |exact H]; [discriminate|exact X|exact Q]).
  pose proof X as [_ _ _ _ _ Ea _ _].
  unfold sys_step in H. destruct (y_result s) eqn:Eres; [discriminate|]. specialize (Ea eq_refl).
  destruct (d_active (y_d s)) as [|a0 ar] eqn:Eact; [contradiction|].
  destruct (y_evq s) as [|ev q] eqn:Eevq; [discriminate|].
  destruct (d_loop_once ev (y_d s)) as [[d' outs] r] eqn:El.
  destruct (step_ctl_core c Hpos s ev q d' outs r X Eres Eevq El) as (-> & _ & _).
  pose proof (step_qinv_ctl s ev q d' outs X Q Eres Eevq El) as CORE.
  destruct (d_session_finished d').
  - inv H. left. apply CORE.
  - destruct (d_active d') as [|b0 br].
    + right. destruct (d_no_active d') as [[d2 o2] r2]. inv H. cbn. discriminate.
    + assert (Er1 : y_result (apply_outs (set_d (set_evq s q) d') outs) = None).
      { rewrite apply_outs_result. cbn. exact Eres. }
      rewrite <- (set_result_same' _ None Er1) in H. inv H. left. apply CORE.
Qed.

End SysQ.


(* ###################################### part D ###################################### *)

Section SysD.
Variable c : config.
Notation N := (c_numnodes c).
Notation X0 := (c_coll c).
Hypothesis Hmode : c_mode c = MLoad.
Hypothesis Hng : no_garbled c.
Hypothesis Hpos : 0 < N.

Definition Good_label (s : sys) (l : label) : Prop :=
  no_crash_label l /\ Progress.useful s l = true /\ sys_step c s l <> None.

(* a useful enabled move on node n's side, if any: the controller's receiver thread reads the node's wire
   (also when the worker is dead: its last messages and its end marker), a command is delivered, the
   worker's receiver thread unpacks, the worker's main thread runs *)
Definition nlab (s : sys) (n : nat) : option label :=
  match aget n (y_w s) with
  | None => None
  | Some w =>
      match aget n (y_up s) with
      | Some (_ :: _) => Some (LRecv n)
      | _ =>
          if mem_nat n (y_dead s) then None else
          match aget n (y_down s) with
          | Some (_ :: _) => Some (LDeliver n)
          | _ => if Progress.recv_busy w then Some (LRecvW n)
                 else match main_step (c_oracle c n) w with Some _ => Some (LMain n) | None => None end
          end
      end
  end.

Lemma nlab_ok s n l : y_result s = None -> nlab s n = Some l -> Good_label s l.
Proof.
  intros Hr H. unfold nlab in H. destruct (aget n (y_w s)) as [w|] eqn:Ew; [|discriminate].
  assert (UP : forall m rest, aget n (y_up s) = Some (m :: rest) -> Good_label s (LRecv n)).
  { intros m rest Eu. split; [exact I|]. split; [reflexivity|].
    unfold sys_step. rewrite Hr, Eu. cbn [y_d].
    destruct (process_from_remote n m (y_d s)) as [[d' outs] r]. destruct r; discriminate. }
  assert (REST : (if mem_nat n (y_dead s) then None else
          match aget n (y_down s) with
          | Some (_ :: _) => Some (LDeliver n)
          | _ => if Progress.recv_busy w then Some (LRecvW n)
                 else match main_step (c_oracle c n) w with Some _ => Some (LMain n) | None => None end
          end) = Some l -> Good_label s l).
  { clear H. intros H. destruct (mem_nat n (y_dead s)) eqn:Hd; [discriminate|].
    assert (W : (if Progress.recv_busy w then Some (LRecvW n)
                 else match main_step (c_oracle c n) w with Some _ => Some (LMain n) | None => None end) = Some l ->
                Good_label s l).
    { clear H. intros H. destruct (Progress.recv_busy w) eqn:Eb.
      - inv H. split; [exact I|]. split; [cbn; rewrite Ew; exact Eb|].
        unfold sys_step. rewrite Hr, Hd, Ew.
        unfold Progress.recv_busy in Eb. apply andb_true_iff in Eb. destruct Eb as (Ecb & _). rewrite Ecb. cbn [negb].
        destruct (recv_step (c_oracle c n) w). discriminate.
      - destruct (main_step (c_oracle c n) w) as [[w' evs]|] eqn:Em; [|discriminate]. inv H.
        split; [exact I|]. split; [reflexivity|].
        unfold sys_step. rewrite Hr, Hd, Ew. destruct (dies_now c n w); [discriminate|]. rewrite Em. discriminate. }
    destruct (aget n (y_down s)) as [[|cm rest]|] eqn:Ed; [exact (W H)| |exact (W H)].
    inv H. split; [exact I|]. split; [reflexivity|].
    unfold sys_step. rewrite Hr, Hd, Ed, Ew. discriminate. }
  destruct (aget n (y_up s)) as [[|m rest]|] eqn:Eu; [exact (REST H)| |exact (REST H)].
  inv H. eapply UP; eauto.
Qed.

Definition quietx (s : sys) (n : nat) (w : wst) : Prop :=
  alist_get [] n (y_up s) = [] /\
  (mem_nat n (y_dead s) = false ->
   alist_get [] n (y_down s) = [] /\ Progress.recv_busy w = false /\ main_step (c_oracle c n) w = None).

Lemma nlab_none s n w : nlab s n = None -> aget n (y_w s) = Some w -> quietx s n w.
Proof.
  intros H Ew. unfold nlab in H. rewrite Ew in H. unfold quietx, alist_get.
  destruct (aget n (y_up s)) as [[|m rest]|]; try discriminate;
    (split; [reflexivity|]); intros Hd; rewrite Hd in H;
    destruct (aget n (y_down s)) as [[|cm rest']|]; try discriminate;
    destruct (Progress.recv_busy w); try discriminate;
    destruct (main_step (c_oracle c n) w); try discriminate; auto.
Qed.

Fixpoint findl (s : sys) (ns : list nat) : option label :=
  match ns with
  | [] => None
  | n :: r => match nlab s n with Some l => Some l | None => findl s r end
  end.

Lemma findl_some s ns l : findl s ns = Some l -> exists n, nlab s n = Some l.
Proof.
  induction ns as [|n r IH]; cbn; [discriminate|].
  destruct (nlab s n) eqn:E; [intros H; inv H; eauto|exact IH].
Qed.

Lemma findl_none s ns : findl s ns = None -> forall n, In n ns -> nlab s n = None.
Proof.
  induction ns as [|k r IH]; cbn; [intros _ n []|].
  destruct (nlab s k) eqn:E; [discriminate|]. intros H n [<-|Hn]; [exact E|apply IH; assumption].
Qed.

(* ---- the argument ---- *)
Lemma quiescent_x s :
  XInv c s -> QInv N s -> y_result s = None -> y_evq s = [] ->
  (forall n w, aget n (y_w s) = Some w -> quietx s n w) -> False.
Proof.
  intros X Q Hres Hevq HQ.
  pose proof X as [Lo Hi (ls & DJd & NIs) Eq Eu Ea Er Edead]. specialize (Ea Hres).
  pose proof DJd as ([Els J Jb K1 RS K2 EX RQ AL FN] & Jss & Jemp & Jmis).
  destruct Q as (lsq & Elsq & QCd & QNs). assert (lsq = ls) by congruence. subst lsq.
  destruct QCd as [Qtf Qtwo Qsd Qcnt].
  assert (SG : forall n w, aget n (y_w s) = Some w -> sigs s n = []).
  { intros n w Hw. destruct (HQ n w Hw) as (Hu & _). unfold sigs. rewrite Hevq, Hu. reflexivity. }
  (* dead workers: their errordown has been handled *)
  assert (DEADX : forall n w, aget n (y_w s) = Some w -> mem_nat n (y_dead s) = true -> ~ In n (d_active (y_d s))).
  { intros n w Hw Hd. destruct (NIs n w Hw) as (_ & _ & _ & D). rewrite Hd in D. destruct D as [_ D2 _].
    destruct (HQ n w Hw) as (Hu & _).
    destruct D2 as [pre f X1 X2 X3 X4 X5 X6 X7|q1 q2 X1 X2 X3 X4 X5 X6 X7|X1 X2 X3 X4 X5].
    - rewrite Hu in X1. destruct pre; discriminate.
    - rewrite Hevq in X2. destruct q1; discriminate.
    - exact X4. }
  (* an active node: alive, waits at an empty queue, not shutting down, registered, collection recorded, holds <= 1 *)
  assert (ACT : forall n, In n (d_active (y_d s)) -> exists f,
            aget n (l_nt ls) = Some f /\ shutting_down f = false /\
            length (bk ls n) <= 1 /\ In n (l_nodes ls) /\ In n (akeys (l_n2c ls))).
  { intros n Hact. pose proof (AL n Hact) as HnG.
    destruct (aget n (y_w s)) as [w|] eqn:Ew; [|exfalso; exact (Lo n HnG Ew)].
    destruct (mem_nat n (y_dead s)) eqn:Hd; [exfalso; exact (DEADX n w Ew Hd Hact)|].
    destruct (NIs n w Ew) as (Iw & _ & _ & D). rewrite Hd in D. destruct D as [D1 D2 D3 D4 D5 D6].
    destruct (QNs n w Ew) as (_ & B). specialize (B Hd). rewrite (SG n w Ew) in D1, B.
    destruct (HQ n w Ew) as (Hu & HQ2). destruct (HQ2 Hd) as (Hdn & Hb & Hm). rewrite Hdn in D1, B.
    destruct B as [Ba Bb Bc Bd Be].
    destruct (ni_flags _ _ _ _ _ _ _ D1) as (f & Ef & Mk). exists f. split; [exact Ef|].
    assert (Hnx : wph w <> PExited).
    { intros Ex. destruct (Bc Ex Hact) as (b & []). }
    apply LivenessLaws.V6_main_step_blocked in Hm.
    pose proof (inv_phase w Iw) as PI. unfold phase_inv in PI.
    assert (BL : wq w = [] /\ wcb w = true /\ 2 <= prank (wph w) /\ wph w <> PBoot /\
                 ~ In Mark (map snd (wpopped w)) /\ length (owed_main w) <= 1).
    { destruct Hm as [(Ep & Eq0 & Ecb)|[(cur & Ep & Eq0)|Ep]]; [| |contradiction].
      - rewrite Ep in PI. destruct PI as (Epop & _). rewrite Epop. unfold owed_main. rewrite Ep. cbn.
        repeat split; auto; try lia; try discriminate.
      - pose proof Be as Cb. unfold Progress.CB in Cb. rewrite Ep in Cb, PI.
        destruct PI as (pre & Epop & Hnm & _). unfold owed_main. rewrite Ep, Epop. cbn [prank length].
        repeat split; auto; try lia; try discriminate.
        intros Hin. apply in_map_iff in Hin. destruct Hin as (e & Ee & Hin). apply in_app_or in Hin.
        destruct Hin as [Hin|[<-|[]]].
        + specialize (Hnm e Hin). unfold is_idx in Hnm. rewrite Ee in Hnm. discriminate.
        + discriminate Ee. }
    destruct BL as (Eq0 & Ecb & Hr & Hnb & Hnm & Hom).
    unfold Progress.recv_busy in Hb. rewrite Ecb in Hb. cbn [andb] in Hb. apply negb_false_iff in Hb.
    destruct (wrpend w) eqn:Erp; [|discriminate]. destruct (winbox w) eqn:Eib; [|discriminate].
    assert (Estr : wstream w ++ flat_map cmd_items [] = map snd (wpopped w)).
    { unfold wstream. rewrite Eq0, Erp, Eib. cbn. rewrite !app_nil_r. reflexivity. }
    assert (Hsf : n_sdsent f = false).
    { destruct (n_sdsent f) eqn:Es; [|reflexivity]. exfalso. apply Hnm. rewrite <- Estr. exact (Bd f Ef Es). }
    assert (Hdf : n_down f = false).
    { destruct (n_down f) eqn:Ed0; [|reflexivity]. exfalso. apply Hnx. exact (proj2 (D6 f Ef Ed0)). }
    assert (Hsh : shutting_down f = false) by (unfold shutting_down; rewrite Hsf, Hdf; reflexivity).
    assert (NSD : ~ LivenessLaws.sd_in (l_nt ls) n).
    { intros (f' & Ef' & Hs'). assert (f' = f) by congruence. subst f'. congruence. }
    split; [exact Hsh|]. split; [|split].
    - rewrite (ni_coupled _ _ _ _ _ _ _ D1). cbn [completes flat_map app]. unfold owed_w. rewrite Eq0, Erp, Eib.
      cbn. rewrite !app_nil_r. exact Hom.
    - destruct (Ba Hact Hnb Hnx) as [[]|[Hin|Hin]]; [exact Hin|contradiction].
    - destruct (Bb Hact Hr Hnx) as [[]|[Hin|Hin]]; [exact Hin|contradiction]. }
  destruct (d_active (y_d s)) as [|a ar] eqn:Eact; [contradiction|].
  assert (Hacta : In a (a :: ar)) by (left; reflexivity).
  destruct (ACT a Hacta) as (fa & Efa & Hsha & Hbka & Hina & Hn2ca).
  destruct (d_shuttingdown (y_d s)) eqn:Esd.
  - (* shutting down: the registered node a was told to shut down, or is down *)
    destruct (Qsd eq_refl a Hina) as (f' & Ef' & Hs'). congruence.
  - assert (Hss : d_shouldstop (y_d s) = false).
    { destruct (d_shouldstop (y_d s)) eqn:E1; [|reflexivity]. specialize (Jss eq_refl). discriminate. }
    assert (Hex : exhausted (y_d s) = false).
    { destruct (exhausted (y_d s)) eqn:E1; [|reflexivity]. specialize (EX eq_refl). congruence. }
    (* every worker has reported its collection *)
    assert (Hcomp : l_collection_is_completed ls = true).
    { destruct (l_collection_is_completed ls) eqn:Ec; [reflexivity|]. exfalso.
      destruct (Qcnt eq_refl Hss Hex) as (l & ND & Hincl & Hlen).
      assert (Hinc : incl l (akeys (l_n2c ls))).
      { intros m Hm. destruct (ACT m (Hincl m Hm)) as (_ & _ & _ & _ & _ & X1). exact X1. }
      pose proof (NoDup_incl_length ND Hinc) as Hl2. rewrite akeys_length in Hl2.
      unfold l_collection_is_completed in Ec. rewrite (lj_num' _ _ _ _ J) in Ec. apply Nat.leb_gt in Ec. lia. }
    pose proof (Qtf eq_refl) as Htf. unfold l_tests_finished in Htf. rewrite Hcomp in Htf. cbn [andb] in Htf.
    destruct (l_pending ls) as [|p0 pr] eqn:Epend.
    + (* the pool is empty: somebody holds >= 2 tests *)
      cbn [andb] in Htf. destruct (Progress.forallb_false_ex _ _ Htf) as ([k b] & Hin & Hf). cbn [snd] in Hf.
      apply Nat.ltb_ge in Hf.
      assert (Hk : In k (l_nodes ls)).
      { unfold l_nodes, akeys. change k with (fst (k, b)). apply in_map. exact Hin. }
      pose proof (Jb Hss k Hk) as Hka.
      destruct (ACT k Hka) as (_ & _ & _ & Hbk & _).
      unfold bk, alist_get in Hbk. rewrite (Progress.in_nodup_aget _ _ _ (lj_wf' _ _ _ _ J) Hin) in Hbk. lia.
    + (* the pool is not empty: every registered node that has reported holds >= 2 tests *)
      assert (Hpne : l_pending ls <> []) by (rewrite Epend; discriminate).
      destruct (aget a (l_n2p ls)) as [b|] eqn:Eb; [|apply aget_In_keys in Hina; contradiction].
      assert (Hc : ahas a (l_n2c ls) = true).
      { unfold ahas. apply aget_In_keys in Hn2ca. destruct (aget a (l_n2c ls)); [reflexivity|contradiction]. }
      pose proof (Qtwo Hpne a fa b (fun F => F) Eb Efa Hsha Hc) as H2.
      unfold bk, alist_get in Hbka. rewrite Eb in Hbka. lia.
Qed.

(* in every state satisfying the invariants in which the session has not ended, a useful non-crash move exists *)
Theorem progress_x s :
  XInv c s -> QInv N s -> y_result s = None -> exists l, Good_label s l.
Proof.
  intros X Q Hres.
  destruct (y_evq s) as [|ev q] eqn:Eevq.
  - destruct (findl s (seq 0 (d_next_gw (y_d s)))) as [l|] eqn:Ef.
    + destruct (findl_some _ _ _ Ef) as (n & Hn). exists l. eapply nlab_ok; eauto.
    + exfalso. apply (quiescent_x s X Q Hres Eevq). intros n w Ew.
      apply nlab_none; [|exact Ew]. apply (findl_none _ _ Ef). apply in_seq.
      pose proof (worker_lt c s n w X Ew). lia.
  - exists LCtl. split; [exact I|]. split; [reflexivity|].
    unfold sys_step. rewrite Hres, Eevq.
    destruct (d_active (y_d s)).
    + destruct (d_no_active (y_d s)) as [[d' outs] r]. discriminate.
    + destruct (d_loop_once ev (y_d s)) as [[d' outs] r]. destruct r; [|discriminate].
      destruct (d_session_finished d'); [discriminate|].
      destruct (d_active d'); [|discriminate].
      destruct (d_no_active d') as [[d2 outs2] r2]. discriminate.
Qed.

Lemma qinv_run ls :
  (XInv c (sys_run c ls) /\ QInv N (sys_run c ls)) \/ y_result (sys_run c ls) <> None.
Proof.
  unfold sys_run.
  assert (G : forall s, (XInv c s /\ QInv N s) \/ y_result s <> None ->
     let s' := fold_left (fun s l => match sys_step c s l with Some (s', _, _) => s' | None => s end) ls s in
     (XInv c s' /\ QInv N s') \/ y_result s' <> None).
  { induction ls as [|l ls IH]; intros s Hs; cbn [fold_left]; [exact Hs|].
    apply IH. destruct (sys_step c s l) as [[[s' o] w]|] eqn:E; [|exact Hs].
    destruct Hs as [(Xs & Qs)|Hr].
    - destruct (step_xinv c Hng Hpos s l s' o w Xs E) as [X'|(R & _)].
      + destruct (step_qinv c Hpos s l s' o w Xs Qs E) as [Q'|R]; [left; split; assumption|right; exact R].
      + right. rewrite R. discriminate.
    - exfalso. unfold sys_step in E. destruct (y_result s); [discriminate|]. apply Hr. reflexivity. }
  apply G. left. split; [apply XInv_init; assumption|apply QInv_init; assumption].
Qed.

End SysD.

(* ====================================================================================== *)
(* The theorems                                                                            *)
(* ====================================================================================== *)
Section Main.
  Variable c : config.
  Variable ls : list label.
  Hypothesis Hmode : c_mode c = MLoad.
  Hypothesis Hnogarbled : no_garbled c.
  Hypothesis Hnodes : 0 < c_numnodes c.

  (* C02 with worker failures, no stand-off: whatever the schedule (crash labels included), whichever
     workers died (LCrash, c_crash_in), whatever the restart budget (None included), c_requeue, c_strict and
     the collections: while the session has not ended some component can make a useful NON-crash move *)
  Theorem crash_c02_no_deadlock_useful :
    y_result (sys_run c ls) = None ->
    exists l, no_crash_label l /\ Progress.useful (sys_run c ls) l = true /\ sys_step c (sys_run c ls) l <> None.
  Proof.
    intros Hres. destruct (qinv_run c Hmode Hnogarbled Hnodes ls) as [(X & Q)|R]; [|contradiction].
    exact (progress_x c Hnodes _ X Q Hres).
  Qed.

  Theorem crash_c02_no_deadlock :
    y_result (sys_run c ls) = None ->
    exists l, no_crash_label l /\ sys_step c (sys_run c ls) l <> None.
  Proof.
    intros Hres. destruct (crash_c02_no_deadlock_useful Hres) as (l & A & _ & B). exists l. split; assumption.
  Qed.
End Main.

Check crash_c02_no_deadlock_useful.
Print Assumptions crash_c02_no_deadlock_useful.
Check crash_c02_no_deadlock.
Print Assumptions crash_c02_no_deadlock.
Check progress_x.

(* ====================================================================================== *)
(* Non-vacuity: concrete sessions with crashes, evaluated                                  *)
(* ====================================================================================== *)
Definition crp_cand (s : sys) : list label :=
  LCtl :: flat_map (fun n => [LDeliver n; LRecvW n; LMain n; LRecv n]) (seq 0 (d_next_gw (y_d s))).
Definition crp_enabled (c : config) (s : sys) (l : label) : bool :=
  match sys_step c s l with Some _ => true | None => false end.
(* the useful enabled non-crash moves, and the enabled moves that are not useful (idle receiver turns) *)
Definition crp_moves (c : config) (s : sys) : list label :=
  filter (fun l => Progress.useful s l && crp_enabled c s l) (crp_cand s).
Definition crp_idle (c : config) (s : sys) : list label :=
  filter (fun l => negb (Progress.useful s l) && crp_enabled c s l) (crp_cand s).

(* a scheduler that always takes the first useful move; before its k-th move it kills worker n when
   (k, n) is in the plan (and worker n is still alive) *)
Fixpoint crp_greedy (c : config) (s : sys) (fuel step : nat) (plan : list (nat * nat)) : list label :=
  match fuel with
  | 0 => []
  | S f =>
      let (pre, s0) := match aget step plan with
                       | Some n => match sys_step c s (LCrash n) with
                                   | Some (s', _, _) => ([LCrash n], s') | None => ([], s) end
                       | None => ([], s) end in
      match crp_moves c s0 with
      | [] => pre
      | l :: _ => match sys_step c s0 l with
                  | Some (s', _, _) => pre ++ l :: crp_greedy c s' f (S step) plan
                  | None => pre
                  end
      end
  end.

(* (a) the session of CrashTheorems.crx_ex_two_crashes (2 workers, 6 tests, worker 1 dies entering test 3),
   in the state RIGHT AFTER worker 0 was killed from outside while it waited for the successor of test 1:
   the session has not ended; the useful moves are the controller's (an event is queued) and its receiver
   thread's, which can read worker 0's wire (a completion, then the end marker); worker 1's receiver thread
   can take an idle turn.  The theorem applies to that state. *)
Definition crp_after_crash : list label := rounds 14 crx_round ++ [LCrash 0].
Example crp_ex_after_crash :
  let c := crx_cfg 6 crx_crash13 in
  let s := sys_run c crp_after_crash in
  y_result s = None /\ y_dead s = [0] /\
  crp_moves c s = [LCtl; LRecv 0] /\ crp_idle c s = [LRecvW 1] /\
  exists l, no_crash_label l /\ Progress.useful s l = true /\ sys_step c s l <> None.
Proof.
  cbv zeta. split; [vm_compute; reflexivity|]. split; [vm_compute; reflexivity|].
  split; [vm_compute; reflexivity|]. split; [vm_compute; reflexivity|].
  destruct (crx_hyps 6 crx_crash13) as (H1 & H2 & H3 & _).
  apply crash_c02_no_deadlock_useful; try assumption. vm_compute. reflexivity.
Qed.
Print Assumptions crp_ex_after_crash.

(* (b) ALL workers dead and the restart budget exhausted (--max-worker-restart 0): both workers are killed
   before they even boot.  The only useful moves are the controller's receiver thread reading the two end
   markers, then the controller's main loop handling the two errordown events; the second one ends the
   session ("maximum crashed workers reached": shutting down and no active node left). *)
Definition crp_cfg0 : config :=
  {| c_mode := MLoad; c_numnodes := 2; c_chunk := None; c_maxfail := 0%Z; c_max_restart := Some 0%Z;
     c_requeue := 0; c_coll := fun _ => crx_names 6; c_oracle := fun _ => crx_oracle 6;
     c_dur := fun _ => 0%Z; c_crash_in := fun _ _ => false; c_strict := false; c_spec := fun _ => 0 |}.
Example crp_ex_all_dead :
  let c := crp_cfg0 in
  crp_moves c (sys_run c [LCrash 0; LCrash 1]) = [LRecv 0; LRecv 1] /\
  crp_moves c (sys_run c [LCrash 0; LCrash 1; LRecv 0; LRecv 1]) = [LCtl] /\
  y_evq (sys_run c [LCrash 0; LCrash 1; LRecv 0; LRecv 1]) = [QErrorDown 0; QErrorDown 1] /\
  y_result (sys_run c [LCrash 0; LCrash 1; LRecv 0; LRecv 1; LCtl]) = None /\
  crp_moves c (sys_run c [LCrash 0; LCrash 1; LRecv 0; LRecv 1; LCtl]) = [LCtl] /\
  y_result (sys_run c [LCrash 0; LCrash 1; LRecv 0; LRecv 1; LCtl; LCtl]) = Some RFinished.
Proof. vm_compute. repeat split. Qed.

(* (c) a whole session driven by "always the first useful move", with worker 0 killed before move 40 and
   worker 1 dying on entering test 3: two deaths, two replacements (ids 2 and 3), 129 moves, "finished" *)
Example crp_ex_greedy_two_crashes :
  let c := crx_cfg 6 crx_crash13 in
  let ls := crp_greedy c (sys_init c) 2000 0 [(40, 0)] in
  length ls = 129 /\ y_result (sys_run c ls) = Some RFinished /\ y_dead (sys_run c ls) = [1; 0] /\
  d_next_gw (y_d (sys_run c ls)) = 4 /\
  filter (fun l => match l with LCrash _ => true | _ => false end) ls = [LCrash 0].
Proof. vm_compute. repeat split. Qed.

(* (d) the documented exit: the only worker dies, its replacement collects a different list and is shut
   down; "always the first useful move" ends with RuntimeError("no active workers") after 32 moves *)
Example crp_ex_greedy_no_active_workers :
  let ls := crp_greedy crx_cfg_diff (sys_init crx_cfg_diff) 2000 0 [] in
  length ls = 32 /\ y_result (sys_run crx_cfg_diff ls) = Some (RError ERuntimeNoWorkers).
Proof. vm_compute. repeat split. Qed.

(* (e) re-queued crash items and strict channels: worker 0 is killed before move 55 (while it runs test 4),
   worker 1 dies entering test 3; both crash items are re-queued... the session still ends *)
Example crp_ex_greedy_requeue :
  let c := crx_cfg_requeue in
  let ls := crp_greedy c (sys_init c) 2000 0 [(55, 0)] in
  y_result (sys_run c ls) = Some RFinished /\ y_dead (sys_run c ls) = [1; 0].
Proof. vm_compute. repeat split. Qed.
