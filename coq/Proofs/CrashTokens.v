(* CrashTokens.v -- C03 (b), (c): token conservation and "no test is started twice" for --dist load WITH
   worker crashes and replacement workers, when no plugin re-queues crash items (c_requeue c = 0).
   Built on the system invariant XInv of CrashTheorems.v (which holds in every reachable state). *)
From XV Require Import Base Worker Ctl SchedLoad SchedSteal SchedScope SchedEach Sched DSession System
  NoHook DSessionProofs WorkerProofs LoadProofs FifoProofs ExactlyOnce Coupling CrashCoupling CrashTheorems.
From Coq Require Import Permutation.
Open Scope nat_scope.

(* ====================================================================================== *)
(* T.1 one worker: the tests it has completed                                              *)
(* ====================================================================================== *)
(* the indices the main thread took, minus those it still owes a completion for *)
Definition done_w (w : wst) : list nat :=
  firstn (length (ents_idx (wpopped w)) - length (owed_main w)) (ents_idx (wpopped w)).

Lemma firstn_app_exact {A} (a b : list A) : firstn (length (a ++ b) - length b) (a ++ b) = a.
Proof.
  rewrite app_length. replace (length a + length b - length b) with (length a) by lia.
  rewrite firstn_app, Nat.sub_diag, firstn_all. cbn. apply app_nil_r.
Qed.

Lemma done_split_pre w pre : ents_idx (wpopped w) = pre ++ owed_main w -> done_w w = pre.
Proof. intros E. unfold done_w. rewrite E. apply firstn_app_exact. Qed.

Lemma done_split w : WInv w -> ents_idx (wpopped w) = done_w w ++ owed_main w.
Proof.
  intros I. pose proof (inv_phase w I) as E. unfold phase_inv in E.
  assert (G : exists pre, ents_idx (wpopped w) = pre ++ owed_main w).
  { unfold owed_main. destruct (wph w) as [|rest| | |cur|cur nxt|cur nxt script|sfin|].
    - destruct E as (-> & _). exists []. reflexivity.
    - destruct E as (-> & _). exists []. reflexivity.
    - destruct E as (-> & _). exists []. reflexivity.
    - destruct E as (-> & _). exists []. reflexivity.
    - destruct E as (pre & -> & _). exists (ents_idx pre). rewrite ents_idx_app. destruct cur; reflexivity.
    - destruct E as (pre & -> & _). exists (ents_idx pre). rewrite ents_idx_app. destruct cur as [t i], nxt as [t' [j|]]; reflexivity.
    - destruct E as (pre & -> & _). exists (ents_idx pre). rewrite ents_idx_app. destruct cur as [t i], nxt as [t' [j|]]; reflexivity.
    - destruct E as (pre & lst & Ep & _). exists (ents_idx pre). rewrite Ep, last_last, ents_idx_app. destruct lst as [t [j|]]; reflexivity.
    - destruct E as (pre & lst & Ep & _). exists (ents_idx pre). rewrite Ep, last_last, ents_idx_app. destruct lst as [t [j|]]; reflexivity. }
  destruct G as (pre & Ep). rewrite (done_split_pre w pre Ep). exact Ep.
Qed.

Lemma done_ext w w' : wph w' = wph w -> wpopped w' = wpopped w -> done_w w' = done_w w.
Proof. intros E1 E2. unfold done_w. rewrite (owed_main_ext w w' E1 E2), E2. reflexivity. Qed.

(* the main thread: the queue head moves to the taken entries, nothing else *)
Lemma main_step_popq o w w' evs :
  main_step o w = Some (w', evs) ->
  ents_idx (wpopped w') ++ ents_idx (wq w') = ents_idx (wpopped w) ++ ents_idx (wq w).
Proof.
  intros H. ms_cases H; wproj; rewrite ?Q; try reflexivity;
    rewrite ents_idx_app, <- app_assoc; f_equal;
    match goal with |- _ = ents_idx (?e :: ?q) => change (e :: q) with ([e] ++ q); rewrite ents_idx_app end; reflexivity.
Qed.

(* a completion is emitted exactly when a test moves to "done" *)
Lemma main_step_done o w w' evs :
  WInv w -> WX w -> main_step o w = Some (w', evs) ->
  done_w w' = done_w w ++ completes (flat_map we_sig evs).
Proof.
  intros I X H. pose proof (main_step_inv _ _ _ _ I H) as I'.
  pose proof (main_step_popq _ _ _ _ H) as Epq.
  pose proof (main_step_owed _ _ _ _ I X H) as Eow.
  rewrite (done_split w I), (done_split w' I'), <- !app_assoc, Eow in Epq.
  rewrite !app_assoc in Epq. apply app_inv_tail in Epq. apply app_inv_tail in Epq. exact Epq.
Qed.

(* what a worker has started: the tests it completed, and the one it is running *)
Lemma started_w_sub w :
  WInv w -> exists x, Permutation (map (fun r => snd (fst r)) (wran w) ++ x) (done_w w ++ firstn 1 (owed_main w)).
Proof.
  intros I. pose proof (inv_phase w I) as E. unfold phase_inv in E.
  assert (PE : forall pre lst, no_mark pre -> map (fun r => snd (fst r)) (pairs (pre ++ [lst])) = ents_idx pre).
  { intros pre lst Hn. rewrite <- ents_idx_map_ent, pairs_ents by exact Hn. reflexivity. }
  unfold owed_main in *. unfold done_w. unfold owed_main.
  destruct (wph w) as [|rest| | |cur|cur nxt|cur nxt script|sfin|].
  - destruct E as (-> & ->). exists []. reflexivity.
  - destruct E as (-> & ->). exists []. reflexivity.
  - destruct E as (-> & ->). exists []. reflexivity.
  - destruct E as (-> & ->). exists []. reflexivity.
  - destruct E as (pre & Ep & Hn & ->). rewrite Ep, (PE pre (ent cur) Hn), ents_idx_app.
    replace (ents_idx [ent cur]) with [snd cur] by (destruct cur; reflexivity).
    rewrite (firstn_app_exact (ents_idx pre) [snd cur]). exists [snd cur]. reflexivity.
  - destruct E as (pre & Ep & Hn & ->). rewrite Ep, (PE pre (ent cur) Hn), ents_idx_app.
    replace (ents_idx [ent cur; nxt]) with (snd cur :: item_inds [snd nxt]) by (destruct cur, nxt as [t' [j|]]; reflexivity).
    rewrite (firstn_app_exact (ents_idx pre) (snd cur :: item_inds [snd nxt])). exists [snd cur]. reflexivity.
  - destruct E as (pre & Ep & Hn & ->). rewrite Ep.
    change (pre ++ [ent cur; nxt]) with (pre ++ [ent cur] ++ [nxt]). rewrite app_assoc, (PE (pre ++ [ent cur]) nxt).
    + rewrite <- app_assoc. cbn [app]. rewrite !ents_idx_app.
      replace (ents_idx [ent cur; nxt]) with (snd cur :: item_inds [snd nxt]) by (destruct cur, nxt as [t' [j|]]; reflexivity).
      replace (ents_idx [ent cur]) with [snd cur] by (destruct cur; reflexivity).
      rewrite (firstn_app_exact (ents_idx pre) (snd cur :: item_inds [snd nxt])). exists []. rewrite app_nil_r. reflexivity.
    + intros e He. apply in_app_or in He. destruct He as [He|[<-|[]]]; [apply Hn; exact He|destruct cur; reflexivity].
  - destruct E as (pre & lst & Ep & Hn & ->). rewrite Ep, last_last, (PE pre lst Hn), ents_idx_app.
    replace (ents_idx [lst]) with (item_inds [snd lst]) by (destruct lst as [t [j|]]; reflexivity).
    rewrite (firstn_app_exact (ents_idx pre) (item_inds [snd lst])). exists (firstn 1 (item_inds [snd lst])). reflexivity.
  - destruct E as (pre & lst & Ep & Hn & ->). rewrite Ep, last_last, (PE pre lst Hn), ents_idx_app.
    replace (ents_idx [lst]) with (item_inds [snd lst]) by (destruct lst as [t [j|]]; reflexivity).
    rewrite (firstn_app_exact (ents_idx pre) (item_inds [snd lst])). exists (firstn 1 (item_inds [snd lst])). reflexivity.
Qed.

(* ====================================================================================== *)
(* T.2 sums over association lists                                                         *)
(* ====================================================================================== *)
Section KV.
Context {V : Type}.
Variable g : nat -> V -> list nat.
Definition fmkv (m : amap V) : list nat := flat_map (fun p => g (fst p) (snd p)) m.

Lemma aset_split n (v v0 : V) m :
  aget n m = Some v0 -> exists pre post, m = pre ++ (n, v0) :: post /\ aset n v m = pre ++ (n, v) :: post.
Proof.
  induction m as [|[k x] m IH]; cbn; [discriminate|]. destruct (Nat.eqb n k) eqn:E.
  - apply Nat.eqb_eq in E. subst k. intros H. inv H. exists [], m. split; reflexivity.
  - intros H. destruct (IH H) as (pre & post & -> & E2). exists ((k, x) :: pre), post. cbn. rewrite E2. split; reflexivity.
Qed.

Lemma aset_new n (v : V) m : aget n m = None -> aset n v m = m ++ [(n, v)].
Proof.
  induction m as [|[k x] m IH]; cbn; [reflexivity|]. destruct (Nat.eqb n k); [discriminate|].
  intros H. rewrite (IH H). reflexivity.
Qed.

(* replacing the value of one key *)
Lemma fmkv_aset n v v0 m x :
  aget n m = Some v0 -> g n v = g n v0 ++ x -> Permutation (fmkv (aset n v m)) (fmkv m ++ x).
Proof.
  intros H Hg. destruct (aset_split n v v0 m H) as (pre & post & -> & ->). unfold fmkv.
  rewrite !flat_map_app. cbn [flat_map fst snd]. rewrite Hg, <- !app_assoc.
  apply Permutation_app_head. apply Permutation_app_head. apply Permutation_app_comm.
Qed.

Lemma fmkv_aset_same n v v0 m : aget n m = Some v0 -> g n v = g n v0 -> fmkv (aset n v m) = fmkv m.
Proof.
  intros H Hg. destruct (aset_split n v v0 m H) as (pre & post & -> & ->). unfold fmkv.
  rewrite !flat_map_app. cbn [flat_map fst snd]. rewrite Hg. reflexivity.
Qed.

Lemma fmkv_new n v m : aget n m = None -> fmkv (aset n v m) = fmkv m ++ g n v.
Proof. intros H. rewrite (aset_new n v m H). unfold fmkv. rewrite flat_map_app. cbn. rewrite app_nil_r. reflexivity. Qed.
End KV.

Lemma fmkv_ext {V} (g g' : nat -> V -> list nat) m :
  (forall k v, In (k, v) m -> g k v = g' k v) -> fmkv g m = fmkv g' m.
Proof.
  intros H. unfold fmkv. induction m as [|[k v] m IH]; [reflexivity|]. cbn [flat_map fst snd].
  rewrite (H k v (or_introl eq_refl)), IH; [reflexivity|]. intros k' v' Hin. apply H. right. exact Hin.
Qed.

(* sums over keys: one key's contribution grows *)
Lemma fm_keys_change (f f' : nat -> list nat) n x l :
  NoDup l -> In n l -> (forall k, k <> n -> f' k = f k) -> f' n = f n ++ x ->
  Permutation (flat_map f' l) (flat_map f l ++ x).
Proof.
  intros ND Hin Hk Hn. induction l as [|k l IH]; [destruct Hin|].
  inversion ND as [|k' l' Hni ND']; subst. cbn [flat_map]. destruct (Nat.eq_dec k n) as [->|Hne].
  - rewrite Hn. rewrite (flat_map_ext_in f' f l); [|intros j Hj; apply Hk; intros ->; contradiction].
    rewrite <- !app_assoc. apply Permutation_app_head. apply Permutation_app_comm.
  - destruct Hin as [F|Hin]; [contradiction|]. rewrite (Hk k Hne), <- app_assoc.
    apply Permutation_app_head. apply IH; assumption.
Qed.

Lemma aset_idem {V} n (v : V) m : aset n v (aset n v m) = aset n v m.
Proof.
  induction m as [|[k x] m IH]; cbn; [rewrite Nat.eqb_refl; reflexivity|].
  destruct (Nat.eqb n k) eqn:E; cbn; rewrite E; [reflexivity|]. rewrite IH. reflexivity.
Qed.

(* the processes after applying the controller's outputs, when every spawned id is G *)
Lemma apply_outs_yw_G G outs : forall s,
  (forall id sp, In (OHook (HSpawn id sp)) outs -> id = G) ->
  y_w (apply_outs s outs) = if existsb is_spawn outs then aset G w_init (y_w s) else y_w s.
Proof.
  induction outs as [|x outs IH]; intros s P; [reflexivity|].
  assert (P' : forall id sp, In (OHook (HSpawn id sp)) outs -> id = G) by (intros id sp Hin; apply (P id sp); right; exact Hin).
  destruct x as [h|n cm| |]; cbn [apply_outs existsb is_spawn orb].
  - destruct h; cbn [orb]; try (apply IH; exact P').
    rewrite (IH _ P'). cbn [y_w]. assert (newid = G) by (apply (P newid spec); left; reflexivity). subst newid.
    destruct (existsb is_spawn outs); [apply aset_idem|reflexivity].
  - destruct (mem_nat n (y_dead s)); rewrite (IH _ P'); reflexivity.
  - apply IH. exact P'.
  - apply IH. exact P'.
Qed.

(* ====================================================================================== *)
(* T.3 the token accounts of the whole system                                              *)
(* ====================================================================================== *)
(* tests completed, all workers (dead ones included) *)
Definition DONE (s : sys) : list nat := fmkv (fun _ w => done_w w) (y_w s).
(* completions still travelling to the controller *)
Definition INFL (s : sys) : list nat := flat_map (fun n => completes (sigs s n)) (akeys (y_w s)).
(* a dead worker whose errordown has been handled *)
Definition gone (s : sys) (k : nat) : bool := mem_nat k (y_dead s) && negb (mem_nat k (d_active (y_d s))).
(* the test such a worker was running or about to start, if it held one *)
Definition DH (s : sys) : list nat := fmkv (fun k w => if gone s k then firstn 1 (owed_w w) else []) (y_w s).

(* the index reported as crashed by the controller turn taken in state s *)
Definition crash_idx (s : sys) : list nat :=
  match y_evq s with QErrorDown n :: _ => firstn 1 (book s n) | _ => [] end.

Definition evcomp (ev : cevent) : list nat := match ev with QComplete _ i _ => [i] | _ => [] end.

(* cr: the indices reported as crashed so far; H: the completions handled so far (both ghosts) *)
Record TInv (s : sys) (cr H : list nat) : Prop := {
  t_keys : NoDup (akeys (y_w s));
  t_rq : d_requeue (y_d s) = 0;
  t_pre : the_coll s = None -> H = [] /\ cr = [];
  t_acc : forall ls coll, d_sched (y_d s) = StL ls -> l_coll ls = Some coll ->
          Permutation (tokens ls ++ H ++ cr) (seq 0 (length coll));
  t_done : Permutation (DONE s) (H ++ INFL s);
  t_dh : sub (DH s) cr;
}.

Lemma the_coll_view s s' : dview_same (y_d s) (y_d s') -> (exists ls, d_sched (y_d s) = StL ls) -> the_coll s' = the_coll s.
Proof.
  intros (_ & _ & V) (ls & E). destruct (V ls E) as (ls' & E' & C & _). unfold the_coll. rewrite E, E'. exact C.
Qed.

(* a step that leaves the controller's accounts alone *)
Lemma TInv_view s s' cr H :
  (exists ls, d_sched (y_d s) = StL ls) -> dview_same (y_d s) (y_d s') ->
  NoDup (akeys (y_w s')) -> Permutation (DONE s') (H ++ INFL s') -> sub (DH s') cr ->
  TInv s cr H -> TInv s' cr H.
Proof.
  intros EL DV ND PD SD [K R P A D Hh]. pose proof DV as (V1 & V2 & V3). constructor.
  - exact ND.
  - rewrite V1. exact R.
  - rewrite (the_coll_view s s' DV EL). exact P.
  - intros ls' coll E' C'. destruct EL as (ls & E). destruct (V3 ls E) as (ls2 & E2 & C2 & T2).
    assert (ls2 = ls') by congruence. subst ls2. rewrite T2. apply (A ls coll E). congruence.
  - exact PD.
  - exact SD.
Qed.

(* a worker step: it completes the tests whose completion it emits *)
Lemma TInv_worker s s' n0 w0 w' sg cr H :
  (exists ls, d_sched (y_d s) = StL ls) ->
  aget n0 (y_w s) = Some w0 -> mem_nat n0 (y_dead s) = false ->
  y_w s' = aset n0 w' (y_w s) -> y_d s' = y_d s -> y_dead s' = y_dead s ->
  (forall k, sigs s' k = if Nat.eqb k n0 then sigs s n0 ++ sg else sigs s k) ->
  done_w w' = done_w w0 ++ completes sg ->
  TInv s cr H -> TInv s' cr H.
Proof.
  intros EL Ew Hd Ey Ed Edd Sg Hdone T. pose proof T as [K R P A D Hh].
  assert (Ek : akeys (y_w s') = akeys (y_w s)) by (rewrite Ey; apply akeys_aset_in; eapply aget_some_in; eauto).
  apply (TInv_view s s' cr H EL); [rewrite Ed; apply dview_refl|rewrite Ek; exact K| | |exact T].
  - assert (P1 : Permutation (DONE s') (DONE s ++ completes sg)).
    { unfold DONE. rewrite Ey. apply (fmkv_aset (fun _ w => done_w w) n0 w' w0); assumption. }
    assert (P2 : Permutation (INFL s') (INFL s ++ completes sg)).
    { unfold INFL. rewrite Ek. apply (fm_keys_change (fun n => completes (sigs s n)) (fun n => completes (sigs s' n)) n0).
      - exact K.
      - eapply aget_some_in; eauto.
      - intros k Hk. rewrite Sg. apply Nat.eqb_neq in Hk. rewrite Hk. reflexivity.
      - rewrite Sg, Nat.eqb_refl, completes_app. reflexivity. }
    rewrite P1, P2, D, app_assoc. reflexivity.
  - assert (E : DH s' = DH s).
    { unfold DH. rewrite Ey.
      rewrite (fmkv_ext (fun k w => if gone s' k then firstn 1 (owed_w w) else []) (fun k w => if gone s k then firstn 1 (owed_w w) else [])).
      - apply (fmkv_aset_same _ n0 w' w0); [exact Ew|]. unfold gone. rewrite Hd. reflexivity.
      - intros k v _. unfold gone. rewrite Edd, Ed. reflexivity. }
    rewrite E. exact Hh.
Qed.

Lemma crash_worker_view c s n : dview_same (y_d s) (y_d (crash_worker c s n)).
Proof.
  unfold crash_worker. cbn [y_d]. destruct (c_strict c); [|apply dview_refl].
  destruct (aget n (d_nt (y_d s))); [apply dview_set_nt|apply dview_refl].
Qed.

Lemma close_if_dead_view s n :
  dview_same (y_d s) (y_d (close_if_dead s n)) /\ y_w (close_if_dead s n) = y_w s /\
  y_dead (close_if_dead s n) = y_dead s /\ y_evq (close_if_dead s n) = y_evq s /\
  y_up (close_if_dead s n) = y_up s /\ y_down (close_if_dead s n) = y_down s.
Proof.
  unfold close_if_dead. destruct (mem_nat n (y_dead s)); [|split; [apply dview_refl|auto]].
  destruct (aget n (d_nt (y_d s))) as [f|]; [|split; [apply dview_refl|auto]].
  destruct (n_down f); [|split; [apply dview_refl|auto]].
  cbn [set_d y_d y_w y_dead y_evq y_up y_down]. split; [apply dview_set_nt|auto].
Qed.

Lemma INFL_ext s s' :
  akeys (y_w s') = akeys (y_w s) -> (forall k, sigs s' k = sigs s k) -> INFL s' = INFL s.
Proof. intros Ek Es. unfold INFL. rewrite Ek. apply flat_map_ext_in. intros k _. rewrite Es. reflexivity. Qed.

Lemma DH_ext s s' :
  y_w s' = y_w s -> (forall k w, In (k, w) (y_w s) -> gone s' k = gone s k) -> DH s' = DH s.
Proof.
  intros Ew Hg. unfold DH. rewrite Ew. apply fmkv_ext. intros k w Hin. rewrite (Hg k w Hin). reflexivity.
Qed.

Lemma sigs_same_fields s s' :
  y_evq s' = y_evq s -> y_up s' = y_up s -> forall k, sigs s' k = sigs s k.
Proof. intros E1 E2 k. unfold sigs. rewrite E1, E2. reflexivity. Qed.

Lemma fm_ext_in {A B} (f g : A -> list B) l : (forall x, In x l -> f x = g x) -> flat_map f l = flat_map g l.
Proof.
  induction l as [|a l IH]; intros H; [reflexivity|]. cbn. rewrite (H a (or_introl eq_refl)), IH; [reflexivity|].
  intros x Hx. apply H. right. exact Hx.
Qed.

Section Tok.
Variable c : config.
Hypothesis Hmode : c_mode c = MLoad.
Hypothesis Hng : no_garbled c.
Hypothesis Hpos : 0 < c_numnodes c.

Lemma xinv_sched s : XInv c s -> exists ls, d_sched (y_d s) = StL ls.
Proof. intros [_ _ (ls & ([E _ _ _ _ _ _ _ _ _] & _) & _) _ _ _ _ _]. eauto. Qed.

(* ---- the steps of the workers and of the transport ---- *)
Lemma step_tinv_nonctl s l s' o w cr H :
  l <> LCtl -> XInv c s -> TInv s cr H -> sys_step c s l = Some (s', o, w) -> TInv s' cr H.
Proof.
  intros Hl X T HS. pose proof X as [Lo Hi (ls & DJd & NIs) Eq Eu Ea Er Edead].
  pose proof (xinv_sched s X) as EL.
  unfold sys_step in HS. destruct (y_result s) eqn:Eres; [discriminate|].
  assert (CRASH : forall n0 w0, mem_nat n0 (y_dead s) = false -> aget n0 (y_w s) = Some w0 -> wph w0 <> PExited ->
            TInv (crash_worker c s n0) cr H).
  { intros n0 w0 Hd Ew Hph.
    destruct (NIs n0 w0 Ew) as (_ & _ & _ & D). rewrite Hd in D. destruct D as [D1 _ _ _ _ _].
    assert (Hact : In n0 (d_active (y_d s))).
    { destruct (in_dec Nat.eq_dec n0 (d_active (y_d s))) as [Hin|Hni]; [exact Hin|].
      destruct (ni_act _ _ _ _ _ _ _ D1 Hni) as (_ & P). contradiction. }
    pose proof (crash_worker_view c s n0) as DV.
    assert (SG : forall k, sigs (crash_worker c s n0) k = sigs s k).
    { intros k. unfold sigs, crash_worker. cbn [y_evq y_up]. destruct (Nat.eq_dec k n0) as [->|Hk].
      - rewrite alist_get_aset_eq, flat_map_app. cbn. rewrite app_nil_r. reflexivity.
      - rewrite alist_get_aset_neq by exact Hk. reflexivity. }
    pose proof T as [K R P A D Hh].
    apply (TInv_view s _ cr H EL DV); [exact K| | |exact T].
    - change (DONE (crash_worker c s n0)) with (DONE s). rewrite (INFL_ext s (crash_worker c s n0) eq_refl SG). exact D.
    - rewrite (DH_ext s (crash_worker c s n0) eq_refl); [exact Hh|].
      intros k wk _. unfold gone. change (y_dead (crash_worker c s n0)) with (n0 :: y_dead s).
      destruct DV as (_ & -> & _). rewrite mem_nat_cons. destruct (Nat.eqb k n0) eqn:E; [|reflexivity].
      apply Nat.eqb_eq in E. subst k. rewrite Hd. apply mem_nat_In in Hact. rewrite Hact. reflexivity. }
  destruct l as [n0|n0|n0|n0| |n0]; [| | | |contradiction|].
  - (* LDeliver *)
    destruct (mem_nat n0 (y_dead s)) eqn:Hd; [discriminate|].
    destruct (aget n0 (y_down s)) as [[|cmd rest]|] eqn:Ed; try discriminate.
    destruct (aget n0 (y_w s)) as [w0|] eqn:Ew; try discriminate. inv HS.
    destruct (deliver_owed w0 cmd) as (_ & _ & Ep & Epop & _).
    eapply (TInv_worker s _ n0 w0 (deliver w0 cmd) []); eauto; try reflexivity.
    + intros k. destruct (Nat.eqb k n0) eqn:E; [apply Nat.eqb_eq in E; subst k; rewrite app_nil_r|]; reflexivity.
    + cbn [completes flat_map]. rewrite app_nil_r. apply done_ext; assumption.
  - (* LRecvW *)
    destruct (mem_nat n0 (y_dead s)) eqn:Hd; [discriminate|].
    destruct (aget n0 (y_w s)) as [w0|] eqn:Ew; try discriminate.
    destruct (negb (wcb w0)); [discriminate|].
    destruct (recv_step (c_oracle c n0) w0) as [w' evs] eqn:Es. inv HS.
    destruct (NIs n0 w0 Ew) as (Iw & Gw & NGw & D). rewrite Hd in D. destruct D as [D1 _ _ _ _ _].
    destruct (recv_step_owed (c_oracle c n0) w0 Gw (proj1 (ni_wx _ _ _ _ _ _ _ D1))) as (Ev & _ & _ & Ep & Epop & _).
    rewrite Es in Ev, Ep, Epop. cbn [fst snd] in Ev, Ep, Epop. subst evs.
    eapply (TInv_worker s _ n0 w0 w' []); eauto; try reflexivity.
    + intros k. unfold sigs. cbn [push_up set_w y_evq y_up map]. destruct (Nat.eqb k n0) eqn:E.
      * apply Nat.eqb_eq in E. subst k. rewrite alist_get_aset_eq, !app_nil_r. reflexivity.
      * apply Nat.eqb_neq in E. rewrite alist_get_aset_neq by exact E. reflexivity.
    + cbn [completes flat_map]. rewrite app_nil_r. apply done_ext; assumption.
  - (* LMain *)
    destruct (mem_nat n0 (y_dead s)) eqn:Hd; [discriminate|].
    destruct (aget n0 (y_w s)) as [w0|] eqn:Ew; try discriminate.
    destruct (dies_now c n0 w0) eqn:Edie.
    + inv HS. apply (CRASH n0 w0 Hd Ew). unfold dies_now in Edie. destruct (wph w0); discriminate.
    + destruct (main_step (c_oracle c n0) w0) as [[w' evs]|] eqn:Es; [|discriminate]. inv HS.
      destruct (NIs n0 w0 Ew) as (Iw & Gw & NGw & D). rewrite Hd in D. destruct D as [D1 _ _ _ _ _].
      eapply (TInv_worker s _ n0 w0 w' (flat_map we_sig evs)); eauto; try reflexivity.
      * intros k. unfold sigs. cbn [push_up set_w y_evq y_up]. destruct (Nat.eqb k n0) eqn:E.
        -- apply Nat.eqb_eq in E. subst k. rewrite alist_get_aset_eq, flat_map_app, up_sigs_of_wevents, app_assoc. reflexivity.
        -- apply Nat.eqb_neq in E. rewrite alist_get_aset_neq by exact E. reflexivity.
      * eapply main_step_done; eauto. exact (ni_wx _ _ _ _ _ _ _ D1).
  - (* LRecv *)
    destruct (aget n0 (y_up s)) as [[|m rest]|] eqn:Eup; try discriminate.
    cbn [y_d] in HS.
    destruct (process_from_remote n0 m (y_d s)) as [[d' outs] r] eqn:Ep.
    destruct (step_recv c Hpos s n0 m rest d' outs r X Eup Ep) as (-> & evs & -> & _ & DV & SGS).
    cbn [apply_outs] in HS. inv HS.
    match goal with |- TInv (close_if_dead ?sa n0) _ _ => set (sA := sa) end.
    destruct (close_if_dead_view sA n0) as (DV2 & E1 & E2 & E3 & E4 & E5).
    pose proof T as [K R P A D Hh].
    assert (DV3 : dview_same (y_d s) (y_d (close_if_dead sA n0))) by (eapply dview_trans; [exact DV|exact DV2]).
    assert (SG : forall k, sigs (close_if_dead sA n0) k = sigs s k).
    { intros k. unfold sigs. rewrite E3, E4. exact (SGS k). }
    apply (TInv_view s _ cr H EL DV3); [rewrite E1; exact K| | |exact T].
    + unfold DONE. rewrite E1. change (y_w sA) with (y_w s). fold (DONE s).
      rewrite (INFL_ext s _ (f_equal akeys E1) SG). exact D.
    + rewrite (DH_ext s _ E1); [exact Hh|]. intros k wk _. unfold gone. rewrite E2.
      destruct DV3 as (_ & -> & _). reflexivity.
  - (* LCrash *)
    destruct (mem_nat n0 (y_dead s)) eqn:Hd; [discriminate|].
    destruct (aget n0 (y_w s)) as [w0|] eqn:Ew; try discriminate.
    destruct (wph w0) eqn:Eph; try discriminate; inv HS; apply (CRASH n0 w0 Hd Ew); rewrite Eph; discriminate.
Qed.

(* ---- the controller's turn ---- *)
Lemma evtok_split s ls ev q :
  y_evq s = ev :: q -> d_sched (y_d s) = StL ls -> evtok ev ls = evcomp ev ++ crash_idx s.
Proof.
  intros Eq Els. unfold crash_idx, book. rewrite Eq, Els. destruct ev; reflexivity.
Qed.

Lemma classic_errd ev : (exists n, ev = QErrorDown n) \/ (forall n, ev <> QErrorDown n).
Proof. destruct ev; try (right; intros ?; discriminate). left. eauto. Qed.

(* the node whose errordown heads the queue: dead, still active, and its book is what it held ++ lost *)
Lemma ctl_errd_node s n q wn :
  XInv c s -> y_evq s = QErrorDown n :: q -> aget n (y_w s) = Some wn ->
  mem_nat n (y_dead s) = true /\ In n (d_active (y_d s)) /\ exists lost, book s n = owed_w wn ++ lost.
Proof.
  intros [Lo Hi (ls & DJd & NIs) Eq Eu Ea Er Edead] Eevq Ew.
  pose proof DJd as ([Els _ _ _ _ _ _ _ _ _] & _).
  destruct (NIs n wn Ew) as (_ & _ & _ & D).
  assert (HIN : In (QErrorDown n) (y_evq s)) by (rewrite Eevq; left; reflexivity).
  assert (ERR : is_errd n (QErrorDown n) = true) by (cbn; apply Nat.eqb_refl).
  destruct (mem_nat n (y_dead s)) eqn:Hd.
  2:{ destruct D as [_ _ _ D4 _ _]. rewrite (D4 _ HIN) in ERR. discriminate. }
  split; [reflexivity|].
  destruct D as [_ D2 _]. destruct D2 as [pre f X1 X2 X3 X4 X5 X6 X7|q1 q2 X1 X2 X3 X4 X5 X6 X7|X1 X2 X3 X4 X5].
  - rewrite (X5 _ HIN) in ERR. discriminate.
  - split; [exact X6|]. rewrite Eevq in X2. destruct q1 as [|e1 q1'].
    + cbn [app] in X2. injection X2 as E2.
      assert (Es : sigs s n = []).
      { unfold sigs. rewrite X1, Eevq, evq_sigs_cons, E2, X3. reflexivity. }
      destruct X7 as (lost & Cp). rewrite Es in Cp. cbn [completes flat_map app] in Cp.
      exists lost. unfold book. rewrite Els. exact Cp.
    + cbn [app] in X2. injection X2 as E1 E2. subst e1. rewrite (X4 _ (or_introl eq_refl)) in ERR. discriminate.
  - rewrite (X2 _ HIN) in ERR. discriminate.
Qed.

Lemma evcomp_sum ev keys :
  NoDup keys -> (forall n i ms, ev = QComplete n i ms -> In n keys) ->
  Permutation (flat_map (fun k => completes (ev_sigs_for k ev)) keys) (evcomp ev).
Proof.
  intros ND Hin. destruct ev as [n|n ids|n key fl|n i|n i|n i k oc|n i ms|n ixs| |n|n sk|n];
    try (rewrite flat_map_nil_in; [reflexivity|]; intros k0 _; unfold ev_sigs_for; cbn [ev_sig];
         try reflexivity; destruct (Nat.eqb n k0); reflexivity).
  cbn [evcomp]. unfold ev_sigs_for. cbn [ev_sig].
  rewrite (flat_map_ext_in _ (fun k => if Nat.eqb n k then [i] else []) keys).
  - apply flat_map_single; [exact ND|]. eapply Hin. reflexivity.
  - intros k _. destruct (Nat.eqb n k); reflexivity.
Qed.

Lemma sub_firstn1 (a b : list nat) : sub (firstn 1 a) (firstn 1 (a ++ b)).
Proof. destruct a as [|x a]; [cbn; exists (firstn 1 b); reflexivity|cbn; apply sub_refl]. Qed.

Lemma step_tinv_core s ev q d' outs r cr H :
  XInv c s -> TInv s cr H -> y_result s = None -> y_evq s = ev :: q ->
  d_loop_once ev (y_d s) = (d', outs, r) ->
  TInv (apply_outs (set_d (set_evq s q) d') outs) (cr ++ crash_idx s) (evcomp ev ++ H).
Proof.
  intros X T Eres Eevq El. pose proof X as [Lo Hi (ls & DJd & NIs) Eq Eu Ea Er Edead].
  pose proof T as [K R P A D Hh].
  specialize (Ea Eres).
  pose proof (pre_from_inv' c s ls ev q X DJd NIs Eevq) as Hpre.
  destruct (loop_once_ok' _ _ Hpos ev _ ls d' outs r DJd Ea Hpre El) as (-> & ls' & vo & Eo & E & DJ2 & _ & _).
  pose proof (loop_once_step _ _ _ _ _ El) as (_ & _ & _ & SP).
  pose proof DJd as ([Els J _ _ _ _ _ _ AL _] & _).
  pose proof DJ2 as ([Els' J' _ _ _ _ _ _ _ _] & _).
  destruct (he_tok' _ _ _ _ _ _ _ _ E R) as (R' & Mono & Ptok).
  set (G := d_next_gw (y_d s)) in *.
  assert (SPID : forall id sp, In (OHook (HSpawn id sp)) outs -> id = G).
  { intros id sp Hin. destruct SP as [(C0 & _)|(_ & _ & _ & _ & sp0 & SPx)].
    - pose proof (count_zero_notin _ _ _ C0 Hin) as F. discriminate.
    - specialize (SPx _ Hin eq_refl). inv SPx. reflexivity. }
  set (sA := set_d (set_evq s q) d').
  set (s1 := apply_outs sA outs).
  destruct (apply_outs_frame outs sA) as (F1 & F2 & F3). cbn [sA set_d set_evq y_evq y_d y_dead] in F1, F2, F3.
  fold s1 in F1, F2, F3.
  assert (UP : forall k, alist_get [] k (y_up s1) = alist_get [] k (y_up s)).
  { intros k. unfold s1. rewrite apply_outs_up; [reflexivity|]. intros id sp Hin. rewrite (SPID _ _ Hin).
    cbn [sA set_d set_evq y_up]. apply (Hi G). unfold G. lia. }
  assert (YW : y_w s1 = if existsb is_spawn outs then aset G w_init (y_w s) else y_w s).
  { unfold s1. rewrite (apply_outs_yw_G G outs sA SPID). reflexivity. }
  assert (GN : aget G (y_w s) = None) by (apply (Hi G); unfold G; lia).
  assert (SIGS : forall k, sigs s k = ev_sigs_for k ev ++ sigs s1 k).
  { intros k. rewrite (sigs_head' s ev q k Eevq). unfold sigs. rewrite F1, UP. reflexivity. }
  assert (SG : sigs s1 G = []).
  { assert (Z : sigs s G = []).
    { unfold sigs. destruct (Hi G (le_n _)) as (_ & UG & _). rewrite UG. cbn. rewrite app_nil_r. apply (evq_sigs_fresh c Hpos). exact Eq. }
    pose proof (SIGS G) as Z2. rewrite Z in Z2. symmetry in Z2. apply app_eq_nil in Z2. tauto. }
  assert (KEYIN : forall k, k < G -> In k (akeys (y_w s))).
  { intros k Hk. apply aget_In_keys. apply Lo. exact Hk. }
  assert (EVOK : ok_evx (c_coll c) G ev).
  { pose proof Eq as Eq'. rewrite Forall_forall in Eq'. apply Eq'. rewrite Eevq. left. reflexivity. }
  assert (EVN : forall n i ms, ev = QComplete n i ms -> In n (akeys (y_w s))).
  { intros n i ms Eev. apply KEYIN. destruct EVOK as (_ & Hn). rewrite Eev in Hn. exact Hn. }
  (* the completions in flight: the handled one leaves *)
  assert (PI : Permutation (INFL s) (evcomp ev ++ flat_map (fun k => completes (sigs s1 k)) (akeys (y_w s)))).
  { unfold INFL. rewrite (flat_map_ext_in _ (fun k => completes (ev_sigs_for k ev) ++ completes (sigs s1 k)) (akeys (y_w s))).
    - rewrite flat_map_app_perm. apply Permutation_app_tail. apply evcomp_sum; assumption.
    - intros k _. rewrite (SIGS k), completes_app. reflexivity. }
  (* dead workers: who is gone *)
  assert (GONE : forall k w, In (k, w) (y_w s) -> (forall n, ev = QErrorDown n -> k <> n) -> gone s1 k = gone s k).
  { intros k w Hin Hne. unfold gone. rewrite F3, F2. destruct (mem_nat k (y_dead s)) eqn:Hd; [|reflexivity]. cbn [andb]. f_equal.
    assert (Ew : exists wk, aget k (y_w s) = Some wk).
    { destruct (aget k (y_w s)) as [wk|] eqn:E0; [eauto|]. exfalso. apply aget_none_keys in E0. apply E0.
      unfold akeys. change k with (fst (k, w)). apply in_map. exact Hin. }
    destruct Ew as (wk & Ew). destruct (NIs k wk Ew) as (_ & _ & _ & DD0). rewrite Hd in DD0. destruct DD0 as [D1 _ _].
    destruct (mem_nat k (d_active (y_d s))) eqn:Ha.
    - apply mem_nat_In in Ha. destruct (he_act' _ _ _ _ _ _ _ _ E k Ha) as [Y|[(b & Y)|Y]].
      + apply mem_nat_In. exact Y.
      + exfalso. apply (NDc_nofin _ _ _ _ b D1). rewrite (SIGS k). apply in_or_app. left.
        unfold ev_sigs_for. rewrite Y, Nat.eqb_refl. left. reflexivity.
      + exfalso. exact (Hne k Y eq_refl).
    - apply mem_nat_false in Ha. apply mem_nat_false. intros Y.
      destruct (he_actb' _ _ _ _ _ _ _ _ E k Y) as [Z|(Z & _)]; [contradiction|].
      fold G in Z. subst k. apply aget_none_keys in GN. apply GN. unfold akeys. change G with (fst (G, w)). apply in_map. exact Hin. }
  assert (DH1 : sub (fmkv (fun k w => if gone s1 k then firstn 1 (owed_w w) else []) (y_w s)) (cr ++ crash_idx s)).
  { destruct (classic_errd ev) as [(n & ->)|Hne].
    - (* errordown of n: n is gone now; its crash item is the head of its book *)
      assert (HnG : n < G) by (destruct EVOK as (_ & Hn); exact Hn).
      destruct (aget n (y_w s)) as [wn|] eqn:Ewn; [|exfalso; exact (Lo n HnG Ewn)].
      destruct (ctl_errd_node s n q wn X Eevq Ewn) as (Hdn & Han & lost & Ebk).
      destruct (he_err' _ _ _ _ _ _ _ _ E n eq_refl) as (_ & Hna').
      assert (G1 : gone s1 n = true).
      { unfold gone. rewrite F3, F2, Hdn. apply mem_nat_false in Hna'. rewrite Hna'. reflexivity. }
      assert (G0 : gone s n = false).
      { unfold gone. rewrite Hdn. apply mem_nat_In in Han. rewrite Han. reflexivity. }
      destruct (aset_split n wn wn (y_w s) Ewn) as (pre & post & Em & _).
      assert (NDm : NoDup (akeys (y_w s))) by exact K.
      unfold DH in Hh. rewrite Em in Hh |- *. unfold fmkv in Hh |- *. rewrite !flat_map_app in Hh |- *.
      cbn [flat_map fst snd] in Hh |- *. rewrite G1. rewrite G0 in Hh. cbn [app] in Hh.
      assert (EXT : forall part, (forall x, In x part -> In x (y_w s) /\ fst x <> n) ->
                flat_map (fun p => if gone s1 (fst p) then firstn 1 (owed_w (snd p)) else []) part =
                flat_map (fun p => if gone s (fst p) then firstn 1 (owed_w (snd p)) else []) part).
      { intros part Hp. apply fm_ext_in. intros [k w] Hin. destruct (Hp _ Hin) as (A1 & A2). cbn [fst snd] in *.
        rewrite (GONE k w A1); [reflexivity|]. intros n0 E0. injection E0 as <-. exact A2. }
      assert (PRE : forall x, In x pre -> In x (y_w s) /\ fst x <> n).
      { intros x Hx. split; [rewrite Em; apply in_or_app; left; exact Hx|].
        intros F. rewrite Em in NDm. unfold akeys in NDm. rewrite map_app in NDm. cbn [map fst] in NDm.
        apply NoDup_remove_2 in NDm. apply NDm. apply in_or_app. left. rewrite <- F. apply in_map. exact Hx. }
      assert (POST : forall x, In x post -> In x (y_w s) /\ fst x <> n).
      { intros x Hx. split; [rewrite Em; apply in_or_app; right; right; exact Hx|].
        intros F. rewrite Em in NDm. unfold akeys in NDm. rewrite map_app in NDm. cbn [map fst] in NDm.
        apply NoDup_remove_2 in NDm. apply NDm. apply in_or_app. right. rewrite <- F. apply in_map. exact Hx. }
      rewrite (EXT pre PRE), (EXT post POST).
      unfold crash_idx. rewrite Eevq, Ebk.
      destruct Hh as (x & Px). destruct (sub_firstn1 (owed_w wn) lost) as (y & Py).
      exists (x ++ y). rewrite <- Px, <- Py. permc.
    - rewrite (fmkv_ext _ (fun k w => if gone s k then firstn 1 (owed_w w) else [])).
      + fold (DH s). eapply sub_trans; [exact Hh|]. apply sub_app_l.
      + intros k w Hin. rewrite (GONE k w Hin); [reflexivity|]. intros n E0. exfalso. exact (Hne n E0). }
  constructor.
  - rewrite YW. destruct (existsb is_spawn outs); [apply akeys_aset_nodup|]; exact K.
  - rewrite F2. exact R'.
  - unfold the_coll. rewrite F2, Els'. intros Ec'.
    assert (Ec : l_coll ls = None) by (destruct (l_coll ls) as [X0|] eqn:E0; [rewrite (Mono X0 eq_refl) in Ec'; discriminate|reflexivity]).
    assert (PC : the_coll s = None) by (unfold the_coll; rewrite Els; exact Ec).
    destruct (P PC) as (-> & ->).
    destruct (lj_i3' _ _ _ _ J Ec) as (_ & B0).
    assert (BKN : forall n, bk ls n = []).
    { intros n. unfold bk, alist_get. destruct (aget n (l_n2p ls)) as [b|] eqn:Eb; [|reflexivity].
      destruct b as [|i rest]; [reflexivity|]. exfalso. exact (book_in_books _ _ _ _ Eb B0). }
    assert (EC : evcomp ev = []).
    { destruct ev; try reflexivity. cbn [PRE'] in Hpre. destruct Hpre as (rest & Hb).
      exfalso. exact (book_in_books _ _ _ _ Hb B0). }
    rewrite EC. split; [reflexivity|]. unfold crash_idx, book. rewrite Eevq, Els. destruct ev; try reflexivity.
    fold (bk ls n). rewrite BKN. reflexivity.
  - rewrite F2. intros ls1 coll E1 Ec1. assert (ls1 = ls') by congruence. subst ls1.
    pose proof (Ptok coll Ec1) as Pt. rewrite (evtok_split s ls ev q Eevq Els) in Pt.
    destruct (l_coll ls) as [X0|] eqn:Ec.
    + assert (X0 = coll) by (rewrite (Mono X0 eq_refl) in Ec1; congruence). subst X0.
      pose proof (A ls coll Els Ec) as PA. rewrite <- PA. rewrite <- Pt. permc.
    + assert (PC : the_coll s = None) by (unfold the_coll; rewrite Els; exact Ec).
      destruct (P PC) as (-> & ->). rewrite <- Pt. permc.
  - assert (PD : Permutation (DONE s1) (DONE s)).
    { unfold DONE. rewrite YW. destruct (existsb is_spawn outs); [|reflexivity].
      rewrite (fmkv_new _ G w_init _ GN). cbn. rewrite app_nil_r. reflexivity. }
    assert (PI2 : flat_map (fun k => completes (sigs s1 k)) (akeys (y_w s)) = INFL s1).
    { unfold INFL. rewrite YW. destruct (existsb is_spawn outs); [|reflexivity].
      rewrite (akeys_aset_new _ G _ w_init GN), flat_map_app. cbn. rewrite SG. cbn. rewrite app_nil_r. reflexivity. }
    rewrite PD, D, PI, PI2. permc.
  - unfold DH. rewrite YW. destruct (existsb is_spawn outs); [|exact DH1].
    rewrite (fmkv_new _ G w_init _ GN).
    assert (GG : gone s1 G = false).
    { unfold gone. rewrite F3. replace (mem_nat G (y_dead s)) with false; [reflexivity|]. symmetry. apply mem_nat_false.
      intros Hin. specialize (Edead _ Hin). fold G in Edead. lia. }
    rewrite GG, app_nil_r. exact DH1.
Qed.

Lemma TInv_VE s0 s cr H : VE s0 s -> (exists ls, d_sched (y_d s0) = StL ls) -> TInv s0 cr H -> TInv s cr H.
Proof.
  intros (A1 & A2 & A3 & A4 & A5 & A6 & A7 & A8) EL T. pose proof T as [K R P A D Hh].
  assert (SG : forall k, sigs s k = sigs s0 k) by (apply sigs_same_fields; assumption).
  apply (TInv_view s0 s cr H EL); [| | | |exact T].
  - split; [exact A8|]. split; [exact A7|]. intros ls E. exists ls. rewrite A6. auto.
  - rewrite A1. exact K.
  - unfold DONE. rewrite A1. fold (DONE s0). rewrite (INFL_ext s0 s (f_equal akeys A1) SG). exact D.
  - rewrite (DH_ext s0 s A1); [exact Hh|]. intros k w _. unfold gone. rewrite A2, A7. reflexivity.
Qed.

Lemma VE_sym s0 s : VE s0 s -> VE s s0.
Proof. intros (A1 & A2 & A3 & A4 & A5 & A6 & A7 & A8). unfold VE. auto 10. Qed.

Lemma step_tinv_ctl s s' o w cr H :
  XInv c s -> TInv s cr H -> sys_step c s LCtl = Some (s', o, w) ->
  exists H', TInv s' (cr ++ crash_idx s) H'.
Proof.
  intros X T HS. pose proof X as [Lo Hi (ls & DJd & NIs) Eq Eu Ea Er Edead].
  unfold sys_step in HS. destruct (y_result s) eqn:Eres; [discriminate|].
  specialize (Ea eq_refl).
  destruct (d_active (y_d s)) as [|a0 ar] eqn:Eact; [contradiction|].
  destruct (y_evq s) as [|ev q] eqn:Eevq; [discriminate|].
  destruct (d_loop_once ev (y_d s)) as [[d' outs] r] eqn:El.
  pose proof (step_tinv_core s ev q d' outs r cr H X T Eres Eevq El) as CORE.
  destruct (step_ctl_core c Hpos s ev q d' outs r X Eres Eevq El) as (-> & Hfin & XC).
  set (s1 := apply_outs (set_d (set_evq s q) d') outs) in *.
  exists (evcomp ev ++ H).
  assert (XR : XInv c (set_result s1 (Some RFinished))) by (apply XC; [intros e; discriminate|discriminate]).
  assert (EL1 : exists ls1, d_sched (y_d s1) = StL ls1) by (apply (xinv_sched (set_result s1 (Some RFinished))); exact XR).
  assert (RES : forall rr, TInv (set_result s1 rr) (cr ++ crash_idx s) (evcomp ev ++ H)).
  { intros rr. apply (TInv_VE s1); [unfold VE; cbn [set_result y_w y_dead y_evq y_up y_down y_d]; auto 10|exact EL1|exact CORE]. }
  destruct (d_session_finished d') eqn:Efin.
  - injection HS as <- _ _. apply RES.
  - destruct (d_active d') as [|b0 br] eqn:Eact'.
    + assert (Hsd : d_shuttingdown d' = false).
      { unfold d_session_finished in Efin. rewrite Eact', andb_true_r in Efin. exact Efin. }
      pose proof XR as [_ _ (ls' & DJ2 & _) _ _ _ _ _].
      destruct (apply_outs_frame outs (set_d (set_evq s q) d')) as (F1 & F2 & F3). cbn [set_d set_evq y_evq y_d y_dead] in F1, F2, F3.
      cbn [set_result y_d] in DJ2. fold s1 in F2. rewrite F2 in DJ2.
      destruct DJ2 as ([Els2 J2 Jb2 _ _ _ _ _ _ _] & Jss2 & _).
      assert (Hss : d_shouldstop d' = false).
      { apply not_true_false. intros F. rewrite (Jss2 F) in Hsd. discriminate. }
      assert (Hnn : s_nodes (d_sched d') = []).
      { rewrite Els2. cbn [s_nodes]. specialize (Jb2 Hss). rewrite Eact' in Jb2.
        destruct (l_nodes ls') as [|k rr]; [reflexivity|]. exfalso. apply (Jb2 k). left. reflexivity. }
      rewrite (trigger_no_nodes d' Hsd Hnn) in HS. cbn [apply_outs] in HS. injection HS as <- _ _.
      apply (TInv_VE s1); [|exact EL1|exact CORE].
      unfold VE. cbn [set_result set_d y_w y_dead y_evq y_up y_down y_d d_set_shuttingdown d_sched d_active d_requeue].
      rewrite F2. repeat split; reflexivity.
    + injection HS as <- _ _. exact CORE.
Qed.

Lemma step_tinv s l s' o w cr H :
  XInv c s -> TInv s cr H -> sys_step c s l = Some (s', o, w) ->
  exists H', TInv s' (cr ++ match l with LCtl => crash_idx s | _ => [] end) H'.
Proof.
  intros X T HS. destruct l; try (exists H; rewrite app_nil_r; eapply step_tinv_nonctl; eauto; discriminate).
  eapply step_tinv_ctl; eauto.
Qed.

(* ---- whole runs ---- *)
Definition run_from (s : sys) (ls : list label) : sys :=
  fold_left (fun s l => match sys_step c s l with Some (s', _, _) => s' | None => s end) ls s.

(* the indices reported as crashed along a run, in order *)
Fixpoint crashed (s : sys) (ls : list label) : list nat :=
  match ls with
  | [] => []
  | l :: r =>
      match sys_step c s l with
      | Some (s', _, _) => (match l with LCtl => crash_idx s | _ => [] end) ++ crashed s' r
      | None => crashed s r
      end
  end.

Lemma tinv_run ls : forall s cr H,
  XInv c s \/ ErrSt c s -> TInv s cr H ->
  (XInv c (run_from s ls) \/ ErrSt c (run_from s ls)) /\ exists H', TInv (run_from s ls) (cr ++ crashed s ls) H'.
Proof.
  induction ls as [|l ls IH]; intros s cr H G T.
  - cbn. split; [exact G|]. exists H. rewrite app_nil_r. exact T.
  - cbn [run_from fold_left crashed]. fold (run_from). destruct (sys_step c s l) as [[[s' o] w]|] eqn:E.
    + destruct G as [X|(R & _)]; [|unfold sys_step in E; rewrite R in E; discriminate].
      destruct (step_tinv s l s' o w cr H X T E) as (H1 & T1).
      pose proof (step_xinv c Hng Hpos s l s' o w X E) as G1.
      destruct (IH s' _ H1 G1 T1) as (G2 & H2 & T2). split; [exact G2|]. exists H2. rewrite app_assoc. exact T2.
    + apply (IH s cr H); assumption.
Qed.

(* ---- the initial state ---- *)
Hypothesis Hrq : c_requeue c = 0.

Lemma fmkv_const_nil {V} (g : nat -> V -> list nat) (v : V) l :
  (forall k, g k v = []) -> fmkv g (map (fun n => (n, v)) l) = [].
Proof. intros Hg. induction l as [|k l IH]; [reflexivity|]. cbn. rewrite Hg. exact IH. Qed.

Lemma TInv_init : TInv (sys_init c) [] [].
Proof.
  assert (SG : forall n, sigs (sys_init c) n = []).
  { intros n. unfold sigs. cbn [sys_init y_evq y_up]. rewrite alist_get_map_nil. reflexivity. }
  constructor.
  - cbn [sys_init y_w]. rewrite (akeys_map_seq (fun _ => w_init)). apply seq_NoDup.
  - exact Hrq.
  - intros _. split; reflexivity.
  - intros ls coll Els Ec. cbn [sys_init y_d d_sched] in Els. rewrite Hmode in Els. cbn [s_init s_set_nt] in Els.
    inv Els. discriminate.
  - unfold DONE, INFL. cbn [sys_init y_w]. rewrite (fmkv_const_nil _ w_init) by reflexivity.
    rewrite flat_map_nil_in; [reflexivity|]. intros k _. rewrite SG. reflexivity.
  - unfold DH. cbn [sys_init y_w]. rewrite (fmkv_const_nil _ w_init); [apply sub_refl|].
    intros k. unfold gone. cbn [sys_init y_dead mem_nat existsb andb]. reflexivity.
Qed.

(* ====================================================================================== *)
(* T.4 the theorems                                                                        *)
(* ====================================================================================== *)
(* what is left of node k's book once the completions still in flight are taken off: what the worker
   holds (frozen state if dead) and what is on its wire down (or was lost there) *)
Definition rest (s : sys) (k : nat) : list nat := skipn (length (completes (sigs s k))) (book s k).
(* per worker: the tests it completed ++ the rest of its book *)
Definition holdings (s : sys) : list nat := fmkv (fun k w => done_w w ++ rest s k) (y_w s).

Lemma skipn_app_exact {A} (a b : list A) : skipn (length a) (a ++ b) = b.
Proof. induction a; cbn; auto. Qed.

Lemma book_split s k w :
  XInv c s -> aget k (y_w s) = Some w ->
  book s k = completes (sigs s k) ++ rest s k /\
  (gone s k = false -> exists x, rest s k = owed_w w ++ x) /\
  (gone s k = true -> rest s k = []).
Proof.
  intros [Lo Hi (ls & DJd & NIs) Eq Eu Ea Er Edead] Ew.
  pose proof DJd as ([Els _ _ _ _ _ _ _ _ _] & _).
  assert (BK : book s k = bk ls k) by (unfold book; rewrite Els; reflexivity).
  assert (SPL : forall x, book s k = completes (sigs s k) ++ x -> book s k = completes (sigs s k) ++ rest s k /\ rest s k = x).
  { intros x E. unfold rest. rewrite E at 2 3. rewrite skipn_app_exact. auto. }
  destruct (NIs k w Ew) as (_ & _ & _ & D). unfold gone. destruct (mem_nat k (y_dead s)) eqn:Hd.
  - destruct D as [_ D2 _]. destruct D2 as [pre f X1 X2 X3 X4 X5 X6 X7|q1 q2 X1 X2 X3 X4 X5 X6 X7|X1 X2 X3 X4 X5].
    + destruct X7 as (lost & Cp). rewrite <- BK in Cp. destruct (SPL _ Cp) as (A1 & A2). split; [exact A1|].
      apply mem_nat_In in X6. rewrite X6. cbn. split; [intros _; eauto|discriminate].
    + destruct X7 as (lost & Cp). rewrite <- BK in Cp. destruct (SPL _ Cp) as (A1 & A2). split; [exact A1|].
      apply mem_nat_In in X6. rewrite X6. cbn. split; [intros _; eauto|discriminate].
    + assert (B0 : book s k = []) by (rewrite BK; apply alist_get_none; apply aget_none_keys; exact X5).
      assert (S0 : sigs s k = []) by (unfold sigs; rewrite X1, X3; reflexivity).
      apply mem_nat_false in X4. rewrite X4. cbn. unfold rest. rewrite B0, S0. cbn. split; [reflexivity|]. split; [discriminate|reflexivity].
  - destruct D as [D1 _ _ _ _ _]. pose proof (ni_coupled _ _ _ _ _ _ _ D1) as Cp. rewrite <- BK in Cp.
    destruct (SPL _ Cp) as (A1 & A2). split; [exact A1|]. cbn. split; [intros _; eauto|discriminate].
Qed.

(* sums over a NoDup superset of the keys *)
Lemma fm_superset (f : nat -> list nat) (K0 : list nat) : forall K,
  NoDup K0 -> NoDup K -> incl K0 K -> (forall k, In k K -> ~ In k K0 -> f k = []) ->
  Permutation (flat_map f K) (flat_map f K0).
Proof.
  induction K0 as [|a K0 IH]; intros K ND0 ND Hi Hz.
  - rewrite flat_map_nil_in; [reflexivity|]. intros k Hk. apply Hz; [exact Hk|intros []].
  - inversion ND0 as [|a' l' Ha ND0']; subst.
    assert (Hin : In a K) by (apply Hi; left; reflexivity).
    destruct (in_split _ _ Hin) as (l1 & l2 & ->).
    assert (ND' : NoDup (l1 ++ l2)) by (eapply NoDup_remove_1; eauto).
    assert (Hna : ~ In a (l1 ++ l2)) by (eapply NoDup_remove_2; eauto).
    rewrite flat_map_app. cbn [flat_map]. rewrite <- (IH (l1 ++ l2) ND0' ND').
    + rewrite flat_map_app. permc.
    + intros k Hk. assert (Hk' : In k (l1 ++ a :: l2)) by (apply Hi; right; exact Hk).
      apply in_app_or in Hk'. apply in_or_app. destruct Hk' as [X|[X|X]]; auto. subst k. contradiction.
    + intros k Hk Hnk. apply Hz.
      * apply in_app_or in Hk. apply in_or_app. destruct Hk; [left|right; right]; assumption.
      * intros [X|X]; [subst k; contradiction|contradiction].
Qed.

Lemma fmkv_keyfun {V} (F : nat -> list nat) (m : amap V) : fmkv (fun k _ => F k) m = flat_map F (akeys m).
Proof. induction m as [|[k v] m IH]; [reflexivity|]. unfold fmkv in *. cbn [flat_map fst snd akeys map]. f_equal. exact IH. Qed.

Lemma fmkv_app_perm {V} (g1 g2 : nat -> V -> list nat) (m : amap V) :
  Permutation (fmkv (fun k v => g1 k v ++ g2 k v) m) (fmkv g1 m ++ fmkv g2 m).
Proof.
  induction m as [|[k v] m IH]; [reflexivity|]. unfold fmkv in *. cbn [flat_map fst snd]. permc_with IH.
Qed.

Lemma sub_fmkv {V} (g g' : nat -> V -> list nat) (m : amap V) :
  (forall k v, In (k, v) m -> sub (g k v) (g' k v)) -> sub (fmkv g m) (fmkv g' m).
Proof.
  induction m as [|[k v] m IH]; intros Hs; [apply sub_refl|]. unfold fmkv in *. cbn [flat_map fst snd].
  apply sub_app; [apply Hs; left; reflexivity|apply IH; intros k' v' Hin; apply Hs; right; exact Hin].
Qed.

Lemma keys_in_aget {V} k (m : amap V) : In k (akeys m) -> exists v, aget k m = Some v.
Proof. intros H. apply aget_In_keys in H. destruct (aget k m); [eauto|contradiction]. Qed.

(* the books, node by node, summed over all worker ids *)
Lemma books_by_workers s ls :
  XInv c s -> NoDup (akeys (y_w s)) -> d_sched (y_d s) = StL ls ->
  Permutation (books ls) (INFL s ++ flat_map (rest s) (akeys (y_w s))).
Proof.
  intros X K Els. pose proof X as [Lo Hi (ls0 & DJd & NIs) Eq Eu Ea Er Edead].
  pose proof DJd as ([Els0 J _ _ _ _ _ _ _ _] & _). assert (ls0 = ls) by congruence. subst ls0.
  assert (BK : forall k, book s k = bk ls k) by (intros k; unfold book; rewrite Els; reflexivity).
  assert (E1 : books ls = flat_map (fun k => bk ls k) (akeys (l_n2p ls))).
  { unfold books. pose proof (flat_map_keys_vals (fun v : list nat => v) (l_n2p ls) (lj_wf' _ _ _ _ J)) as FK.
    cbn beta in FK. transitivity (flat_map (fun p : nat * list nat => snd p) (l_n2p ls)); [reflexivity|]. rewrite <- FK.
    apply flat_map_ext_in. intros k _. unfold bk, alist_get. destruct (aget k (l_n2p ls)); reflexivity. }
  assert (E2 : Permutation (flat_map (fun k => bk ls k) (akeys (y_w s))) (flat_map (fun k => bk ls k) (akeys (l_n2p ls)))).
  { apply fm_superset; [exact (lj_wf' _ _ _ _ J)|exact K| |].
    - intros k Hk. apply aget_In_keys. apply Lo. exact (lj_nodes' _ _ _ _ J k Hk).
    - intros k _ Hk. apply alist_get_none. apply aget_none_keys. exact Hk. }
  rewrite E1, <- E2.
  rewrite (flat_map_ext_in _ (fun k => completes (sigs s k) ++ rest s k) (akeys (y_w s))).
  - apply flat_map_app_perm.
  - intros k Hk. destruct (keys_in_aget k _ Hk) as (w & Ew). rewrite <- BK. exact (proj1 (book_split s k w X Ew)).
Qed.

Lemma conservation_x s cr H coll :
  XInv c s -> TInv s cr H -> the_coll s = Some coll ->
  Permutation (pool s ++ holdings s ++ cr) (seq 0 (length coll)).
Proof.
  intros X [K R P A D Hh] Ec. destruct (xinv_sched s X) as (ls & Els).
  unfold the_coll in Ec. rewrite Els in Ec.
  rewrite <- (A ls coll Els Ec). unfold pool, tokens. rewrite Els.
  rewrite (books_by_workers s ls X K Els).
  assert (PH : Permutation (holdings s) (DONE s ++ flat_map (rest s) (akeys (y_w s)))).
  { unfold holdings. rewrite fmkv_app_perm. unfold DONE. rewrite (fmkv_keyfun (rest s)). reflexivity. }
  rewrite PH, D. permc.
Qed.

(* what was started is accounted for: completed, or in the rest of a book, or reported as crashed *)
Lemma started_sub_x s cr H :
  XInv c s -> TInv s cr H -> sub (started s) (holdings s ++ DH s).
Proof.
  intros X T. pose proof T as [K R P A D Hh].
  pose proof X as [Lo Hi (ls & DJd & NIs) Eq Eu Ea Er Edead].
  assert (S1 : sub (started s) (fmkv (fun k w => (done_w w ++ rest s k) ++ (if gone s k then firstn 1 (owed_w w) else [])) (y_w s))).
  { unfold started. apply (sub_fmkv (fun _ w => map (fun r => snd (fst r)) (wran w))). intros k w Hin.
    assert (Ew : aget k (y_w s) = Some w).
    { destruct (keys_in_aget k (y_w s)) as (w' & Ew'); [unfold akeys; change k with (fst (k, w)); apply in_map; exact Hin|].
      destruct (aset_split k w' w' (y_w s) Ew') as (pre & post & Em & _).
      assert (w' = w); [|congruence].
      rewrite Em in Hin, K. unfold akeys in K. rewrite map_app in K. cbn [map fst] in K.
      apply in_app_or in Hin. destruct Hin as [Hin|[Hin|Hin]].
      - exfalso. apply NoDup_remove_2 in K. apply K. apply in_or_app. left. change k with (fst (k, w)). apply in_map. exact Hin.
      - congruence.
      - exfalso. apply NoDup_remove_2 in K. apply K. apply in_or_app. right. change k with (fst (k, w)). apply in_map. exact Hin. }
    destruct (NIs k w Ew) as (Iw & _). destruct (started_w_sub w Iw) as (x & Px).
    eapply sub_trans; [exists x; exact Px|].
    destruct (book_split s k w X Ew) as (_ & B1 & B2).
    assert (OM : exists y, owed_w w = owed_main w ++ y) by (unfold owed_w; eauto).
    destruct OM as (y & Ey).
    destruct (gone s k) eqn:Eg.
    - rewrite (B2 eq_refl), app_nil_r. apply sub_app; [apply sub_refl|]. rewrite Ey. apply sub_firstn1.
    - destruct (B1 eq_refl) as (z & Ez). rewrite Ez, Ey, app_nil_r. apply sub_app; [apply sub_refl|].
      destruct (owed_main w) as [|i om]; [exists (y ++ z); reflexivity|]. cbn. exists (om ++ y ++ z). permc. }
  assert (S2 : Permutation (fmkv (fun k w => (done_w w ++ rest s k) ++ (if gone s k then firstn 1 (owed_w w) else [])) (y_w s))
                           (holdings s ++ DH s)).
  { rewrite fmkv_app_perm. reflexivity. }
  eapply sub_trans; [exact S1|]. apply sub_perm. exact S2.
Qed.

(* no test is started twice *)
Lemma started_nodup_x s cr H :
  XInv c s -> TInv s cr H -> NoDup (started s).
Proof.
  intros X T. pose proof (started_sub_x s cr H X T) as S1. pose proof T as [K R P A D Hh].
  destruct (xinv_sched s X) as (ls & Els).
  destruct (the_coll s) as [coll|] eqn:Ec.
  - pose proof (conservation_x s cr H coll X T Ec) as PC. destruct Hh as (z & Pz).
    assert (S3 : sub (started s) (seq 0 (length coll))).
    { eapply sub_trans; [exact S1|]. exists (z ++ pool s). rewrite <- PC, <- Pz. permc. }
    eapply sub_nodup; [exact S3|apply seq_NoDup].
  - (* before the initial distribution nothing has been started *)
    destruct (P eq_refl) as (-> & ->).
    pose proof X as [_ _ (ls0 & ([Els0 J _ _ _ _ _ _ _ _] & _) & _) _ _ _ _ _]. assert (ls0 = ls) by congruence. subst ls0.
    unfold the_coll in Ec. rewrite Els in Ec. destruct (lj_i3' _ _ _ _ J Ec) as (_ & B0).
    pose proof (books_by_workers s ls X K Els) as PB. rewrite B0 in PB.
    apply Permutation_nil in PB. apply app_eq_nil in PB. destruct PB as (I0 & R0).
    assert (PH : Permutation (holdings s) (DONE s ++ flat_map (rest s) (akeys (y_w s)))).
    { unfold holdings. rewrite fmkv_app_perm. unfold DONE. rewrite (fmkv_keyfun (rest s)). reflexivity. }
    rewrite R0, D, I0 in PH. cbn in PH. apply Permutation_sym, Permutation_nil in PH.
    apply sub_nil_inv in Hh. rewrite PH, Hh in S1. apply sub_nil_inv in S1. rewrite S1. constructor.
Qed.

End Tok.

(* ---- transfer along VE (the state in which the controller has raised) ---- *)
Lemma book_VE s0 s k : VE s0 s -> book s k = book s0 k.
Proof. intros (_ & _ & _ & _ & _ & A6 & _). unfold book. rewrite A6. reflexivity. Qed.
Lemma rest_VE s0 s k : VE s0 s -> rest s k = rest s0 k.
Proof.
  intros V. pose proof V as (_ & _ & A3 & A4 & _). unfold rest. rewrite (book_VE s0 s k V), (sigs_same_fields s0 s A3 A4 k). reflexivity.
Qed.
Lemma holdings_VE s0 s : VE s0 s -> holdings s = holdings s0.
Proof.
  intros V. pose proof V as (A1 & _). unfold holdings. rewrite A1. apply fmkv_ext. intros k w _. rewrite (rest_VE s0 s k V). reflexivity.
Qed.
Lemma pool_VE s0 s : VE s0 s -> pool s = pool s0.
Proof. intros (_ & _ & _ & _ & _ & A6 & _). unfold pool. rewrite A6. reflexivity. Qed.
Lemma the_coll_VE s0 s : VE s0 s -> the_coll s = the_coll s0.
Proof. intros (_ & _ & _ & _ & _ & A6 & _). unfold the_coll. rewrite A6. reflexivity. Qed.
Lemma started_VE s0 s : VE s0 s -> started s = started s0.
Proof. intros (A1 & _). unfold started. rewrite A1. reflexivity. Qed.

Section TokMain.
  Variable c : config.
  Variable ls : list label.
  Hypothesis Hmode : c_mode c = MLoad.
  Hypothesis Hnogarbled : no_garbled c.
  Hypothesis Hnodes : 0 < c_numnodes c.
  Hypothesis Hrequeue : c_requeue c = 0.

  (* the indices reported as crashed during the run, in the order of the reports *)
  Definition crashed_in_run : list nat := crashed c (sys_init c) ls.

  Lemma run_witness :
    exists s0 H, XInv c s0 /\ VE s0 (sys_run c ls) /\ TInv s0 crashed_in_run H.
  Proof.
    destruct (tinv_run c Hnogarbled Hnodes ls (sys_init c) [] [])
      as (G & H & T); [left; apply XInv_init; assumption|apply TInv_init; assumption|].
    change (run_from c (sys_init c) ls) with (sys_run c ls) in G, T. cbn [app] in T. fold crashed_in_run in T.
    destruct G as [X|(_ & _ & s0 & X0 & V)].
    - exists (sys_run c ls), H. split; [exact X|]. split; [apply VE_refl|exact T].
    - exists s0, H. split; [exact X0|]. split; [exact V|].
      apply (TInv_VE (sys_run c ls) s0); [apply VE_sym; exact V| |exact T].
      destruct (xinv_sched c s0 X0) as (l0 & E0). exists l0. destruct V as (_ & _ & _ & _ & _ & A6 & _). rewrite A6. exact E0.
  Qed.

  (* Goal 3c: token conservation WITH crashes.  Once the collection is fixed, every position of the
     collection is in exactly one of: the pool; the tests a worker (alive or dead) has completed; the
     rest of a node's book (what an alive worker holds or has on its wire; what a dead worker held when
     it died or what was lost on its wire, until its errordown is handled); the positions reported as
     crashed. *)
  Theorem crash_conservation : forall coll,
    the_coll (sys_run c ls) = Some coll ->
    Permutation (pool (sys_run c ls) ++ holdings (sys_run c ls) ++ crashed_in_run) (seq 0 (length coll)).
  Proof.
    intros coll Ec. destruct run_witness as (s0 & H & X0 & V & T).
    rewrite (pool_VE s0 _ V), (holdings_VE s0 _ V). apply (conservation_x c Hnodes Hrequeue s0 _ H); [exact X0|exact T|].
    rewrite <- (the_coll_VE s0 _ V). exact Ec.
  Qed.

  (* Goal 3b: no test is ever started twice, crashes or not; the crashed test is reported, not re-run *)
  Theorem crash_started_nodup : NoDup (started (sys_run c ls)).
  Proof.
    destruct run_witness as (s0 & H & X0 & V & T). rewrite (started_VE s0 _ V).
    exact (started_nodup_x c Hnodes Hrequeue s0 _ H X0 T).
  Qed.

  (* every test that was started is a position of the collection *)
  Corollary crash_started_in_range : forall coll i,
    the_coll (sys_run c ls) = Some coll -> In i (started (sys_run c ls)) -> i < length coll.
  Proof.
    intros coll i Ec Hi. destruct run_witness as (s0 & H & X0 & V & T).
    rewrite (started_VE s0 _ V) in Hi. rewrite (the_coll_VE s0 _ V) in Ec.
    pose proof (started_sub_x c Hnodes Hrequeue s0 _ H X0 T) as S1. pose proof (conservation_x c Hnodes Hrequeue s0 _ H coll X0 T Ec) as PC.
    destruct (t_dh _ _ _ T) as (z & Pz).
    assert (Hin : In i (seq 0 (length coll))).
    { eapply Permutation_in; [exact PC|]. apply in_or_app. right.
      pose proof (sub_in _ _ _ S1 Hi) as Hi2. apply in_app_or in Hi2. apply in_or_app. destruct Hi2 as [Hi2|Hi2]; [left; exact Hi2|right].
      eapply Permutation_in; [exact Pz|]. apply in_or_app. left. exact Hi2. }
    apply in_seq in Hin. lia.
  Qed.
End TokMain.

Check crash_conservation.
Print Assumptions crash_conservation.
Check crash_started_nodup.
Print Assumptions crash_started_nodup.
Check crash_started_in_range.
Print Assumptions crash_started_in_range.

(* ---- non-vacuity: the session with two crashes of CrashTheorems.v ---- *)
Example crx_ex_conservation :
  let c := crx_cfg 6 crx_crash13 in
  let s := sys_run c crx_sched in
  the_coll s = Some (crx_names 6) /\
  (pool s, holdings s, crashed_in_run c crx_sched, started s) = ([], [0; 2; 5; 4], [1; 3], [0; 2; 5; 4]) /\
  Permutation (pool s ++ holdings s ++ crashed_in_run c crx_sched) (seq 0 6) /\ NoDup (started s).
Proof.
  cbv zeta. destruct (crx_hyps 6 crx_crash13) as (H1 & H2 & H5 & _).
  split; [vm_compute; reflexivity|]. split; [vm_compute; reflexivity|]. split.
  - apply (crash_conservation _ _ H1 H2 H5 eq_refl (crx_names 6)). vm_compute. reflexivity.
  - apply (crash_started_nodup _ _ H1 H2 H5 eq_refl).
Qed.
Print Assumptions crx_ex_conservation.

(* a mid-run state of the same session (after 260 steps): worker 0 is dead and not yet written off; the
   rest of its book -- test 1, held by the dead process -- still counts; nothing has been reported yet *)
Example crx_ex_conservation_mid :
  let c := crx_cfg 6 crx_crash13 in
  let s := sys_run c (firstn 260 crx_sched) in
  (pool s, map (fun p => (fst p, done_w (snd p), rest s (fst p))) (y_w s), crashed_in_run c (firstn 260 crx_sched)) =
  ([4; 5], [(0, [0], [1]); (1, [2], [3])], []).
Proof. vm_compute. reflexivity. Qed.

(* with re-queueing (c_requeue = 1) a test CAN be started twice: the hypothesis c_requeue c = 0 is needed.
   Worker 0 is killed while it runs test 0 (after 9 rounds); the plugin re-queues it; it is run again. *)
Example crx_ex_requeue_started_twice :
  let c := {| c_mode := MLoad; c_numnodes := 2; c_chunk := None; c_maxfail := 0%Z; c_max_restart := Some 4%Z;
              c_requeue := 1; c_coll := fun _ => crx_names 6; c_oracle := fun _ => crx_oracle 6;
              c_dur := fun _ => 0%Z; c_crash_in := fun _ _ => false; c_strict := false; c_spec := fun _ => 0 |} in
  let s := sys_run c (rounds 9 crx_round ++ [LCrash 0] ++ rounds 70 crx_round) in
  y_result s = Some RFinished /\ ~ NoDup (started s).
Proof.
  cbv zeta. split; [vm_compute; reflexivity|].
  match goal with |- ~ NoDup (started ?st) => assert (E : started st = [0; 2; 3; 0; 1; 4; 5]) by (vm_compute; reflexivity) end.
  rewrite E. intros ND. inversion ND as [|x l Hn _]; subst. apply Hn. cbn. auto 10.
Qed.
