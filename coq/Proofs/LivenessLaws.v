(* LivenessLaws.v — "the session never stands off".

   A worker process can only START a test once it knows the NEXT one (or has the shutdown
   marker).  So every scheduling decision must leave each worker it looked at
     - with >= 2 booked tests, or
     - told to shut down, or
     - (work stealing) with an answer still owed to the controller, or
     - there is nothing left to hand out;
   and when nothing is left anywhere the controller tells everybody to shut down.

   Everything below is proved for ALL states (no bounds), from the executable models only. *)
From XV Require Import Base Worker Ctl SchedLoad SchedSteal SchedScope SchedEach Sched DSession.
From XV Require LoadProofs StealProofs ScopeProofs DSessionProofs NoHook.
Open Scope nat_scope.

Ltac inv H := inversion H; subst; clear H.

(* ================================================================== *)
(* (V6) WORKER enabledness                                             *)
(* ================================================================== *)

(* the main thread of a worker is blocked exactly when it waits for an item that is not
   there (first item with the callback installed, or the successor of the current test),
   or when it has exited *)
Theorem V6_main_step_blocked : forall o w,
  main_step o w = None <->
  ((wph w = PWaitFirst /\ wq w = [] /\ wcb w = true) \/
   (exists cur, wph w = PWaitNext cur /\ wq w = []) \/
   wph w = PExited).
Proof.
  intros o w. split.
  - unfold main_step. destruct (wph w) as [|rest| | |cur|cur nxt|cur nxt script|s|] eqn:Eph;
      try discriminate.
    + destruct rest as [|[k f] r]; discriminate.
    + destruct (wq w) as [|[t [i|]] q'] eqn:Eq; try discriminate.
      destruct (wcb w) eqn:Ecb; try discriminate. intros _. left. auto.
    + destruct (wq w) as [|nxt q'] eqn:Eq; try discriminate.
      intros _. right. left. exists cur. auto.
    + destruct script; discriminate.
    + intros _. right. right. reflexivity.
  - intros [(A & B & C)|[(cur & A & B)|A]]; unfold main_step; rewrite A.
    + rewrite B, C. reflexivity.
    + rewrite B. reflexivity.
    + reflexivity.
Qed.
Print Assumptions V6_main_step_blocked.

(* a worker that holds a test and has anything in its queue can always step, the step takes
   the head of the queue as the successor, emits nothing, and the worker then is in PGot:
   it has (item, nextitem) and will enter the test *)
Corollary V6_waitnext_can_step : forall o w cur,
  wph w = PWaitNext cur -> wq w <> [] ->
  exists w' nxt, main_step o w = Some (w', []) /\ wph w' = PGot cur nxt /\ wq w = nxt :: wq w'.
Proof.
  intros o w cur Hph Hq. unfold main_step. rewrite Hph.
  destruct (wq w) as [|nxt q'] eqn:Eq; [contradiction|].
  exists (upd_ph (w_pop w nxt q') (PGot cur nxt)), nxt. repeat split.
Qed.
Print Assumptions V6_waitnext_can_step.

(* and from PGot the next step enters the protocol of the current test (its first event goes out) *)
Corollary V6_got_enters_test : forall o w cur nxt,
  wph w = PGot cur nxt ->
  exists w', main_step o w = Some (w', [ELogStart (snd cur)]) /\
             wph w' = PRun cur nxt (tl (script_of o (snd cur))).
Proof.
  intros o w cur nxt Hph. unfold main_step. rewrite Hph. eexists. split; reflexivity.
Qed.

(* ================================================================== *)
(* WorkerController.shutdown over any state that carries a node table  *)
(* ================================================================== *)

(* node n is known and shutting down (told to shut down, or already down) *)
Definition sd_in (nt : ntable) (n : nat) : Prop :=
  exists c, aget n nt = Some c /\ shutting_down c = true.

Definition sdm (c : nctl) : nctl :=
  {| n_spec := n_spec c; n_down := n_down c; n_sdsent := true; n_closed := n_closed c |}.

Lemma sdm_sd : forall c, shutting_down (sdm c) = true.
Proof. intros c. unfold shutting_down, sdm. cbn. apply orb_true_r. Qed.

Section GenShutdown.
  Variable S : Type.
  Variable nt_of : S -> ntable.
  Variable set_nt : S -> ntable -> S.
  Hypothesis nt_set : forall s v, nt_of (set_nt s v) = v.

  (* s' is s up to the node table *)
  Definition frame (s s' : S) : Prop :=
    forall X (g : S -> X), (forall t v, g (set_nt t v) = g t) -> g s' = g s.

  Lemma frame_refl : forall s, frame s s.
  Proof. intros s X g _. reflexivity. Qed.
  Lemma frame_trans : forall a b c, frame a b -> frame b c -> frame a c.
  Proof. intros a b c H1 H2 X g Hg. rewrite (H2 X g Hg). apply H1. exact Hg. Qed.

  Lemma g_node_shutdown_cases : forall n s s' o r,
    node_shutdown nt_of set_nt n s = (s', o, r) ->
    (aget n (nt_of s) = None /\ s' = s /\ o = [] /\ r = Err EKey) \/
    (exists c, aget n (nt_of s) = Some c /\ shutting_down c = true /\ s' = s /\ o = [] /\ r = Ok tt) \/
    (exists c, aget n (nt_of s) = Some c /\ shutting_down c = false /\ r = Ok tt /\
       s' = set_nt s (aset n (sdm c) (nt_of s)) /\
       o = if n_closed c then [] else [OSend n CShutdown]).
  Proof.
    intros n s s' o r H.
    unfold node_shutdown, node_send, node_flags, mbind, get, put, of_opt, ret, raise, emit in H.
    cbn -[aset aget] in H.
    destruct (aget n (nt_of s)) as [c|] eqn:En; cbn -[aset aget] in H.
    - right. unfold shutting_down. destruct (n_down c || n_sdsent c) eqn:Esd; cbn -[aset aget] in H.
      + inv H. left. exists c. auto.
      + right. exists c. rewrite En in H. cbn -[aset aget] in H.
        destruct (n_closed c) eqn:Ecl; cbn -[aset aget] in H; inv H; unfold sdm; rewrite Ecl; auto.
    - inv H. left. auto.
  Qed.

  (* one successful shutdown() call: the node is shutting down afterwards, no other node's
     flags change, nothing but the node table changes *)
  Lemma g_node_shutdown_post : forall n s s' o,
    node_shutdown nt_of set_nt n s = (s', o, Ok tt) ->
    sd_in (nt_of s') n /\
    (forall m, m <> n -> aget m (nt_of s') = aget m (nt_of s)) /\
    (forall m, sd_in (nt_of s) m -> sd_in (nt_of s') m) /\
    frame s s'.
  Proof.
    intros n s s' o H. apply g_node_shutdown_cases in H.
    destruct H as [(_ & _ & _ & F)|[(c & En & Esd & -> & _)|(c & En & Esd & _ & -> & _)]].
    - discriminate.
    - split; [exists c; auto|]. split; [auto|]. split; [auto|apply frame_refl].
    - rewrite nt_set. split; [|split; [|split]].
      + exists (sdm c). rewrite LoadProofs.aget_aset, Nat.eqb_refl. split; [reflexivity|apply sdm_sd].
      + intros m Hm. rewrite LoadProofs.aget_aset. apply Nat.eqb_neq in Hm. rewrite Hm. reflexivity.
      + intros m (c' & Em & Esd'). unfold sd_in. rewrite LoadProofs.aget_aset.
        destruct (Nat.eqb m n); [exists (sdm c); split; [reflexivity|apply sdm_sd]|exists c'; auto].
      + intros X g Hg. apply Hg.
  Qed.

  (* the loop "for node in nodes: node.shutdown()" *)
  Lemma g_shut_loop : forall l s s' o,
    mfor l (node_shutdown nt_of set_nt) s = (s', o, Ok tt) ->
    (forall n, In n l -> sd_in (nt_of s') n) /\
    (forall m, sd_in (nt_of s) m -> sd_in (nt_of s') m) /\
    frame s s'.
  Proof.
    induction l as [|x l IH]; intros s s' o H.
    - cbn in H. unfold ret in H. inv H. split; [intros n []|]. split; [auto|apply frame_refl].
    - cbn [mfor] in H. apply LoadProofs.mbind_inv in H.
      destruct H as [(e & _ & F)|(s1 & o1 & [] & o2 & H1 & H2 & ->)]; [discriminate|].
      apply g_node_shutdown_post in H1. destruct H1 as (A1 & _ & M1 & F1).
      apply IH in H2. destruct H2 as (A2 & M2 & F2).
      split; [|split].
      + intros n [<-|Hn]; [apply M2; exact A1|apply A2; exact Hn].
      + intros m Hm. apply M2, M1, Hm.
      + eapply frame_trans; eauto.
  Qed.
End GenShutdown.
Arguments frame {S} set_nt s s'.

(* ================================================================== *)
(* (V5) CONTROLLER                                                     *)
(* ================================================================== *)

Lemma s_nt_set : forall st v, s_nt (s_set_nt st v) = v.
Proof. intros [s|s|s|s] v; reflexivity. Qed.

Lemma d_nt_set : forall d v, d_nt (d_set_nt d v) = v.
Proof. intros d v. unfold d_nt, d_set_nt. cbn. apply s_nt_set. Qed.

(* tests_finished / the node list are functions of the scheduler's books and queues only *)
Lemma s_tests_finished_set_nt : forall st v, s_tests_finished (s_set_nt st v) = s_tests_finished st.
Proof. intros [s|s|s|s] v; reflexivity. Qed.
Lemma s_nodes_set_nt : forall st v, s_nodes (s_set_nt st v) = s_nodes st.
Proof. intros [s|s|s|s] v; reflexivity. Qed.
Lemma s_has_pending_set_nt : forall st v, s_has_pending (s_set_nt st v) = s_has_pending st.
Proof. intros [s|s|s|s] v; reflexivity. Qed.

(* what d_triggershutdown does, in one statement *)
Lemma d_triggershutdown_spec : forall d d' o,
  d_triggershutdown d = (d', o, Ok tt) ->
  d_shuttingdown d' = true /\
  (d_shuttingdown d = true -> d' = d /\ o = []) /\
  (d_shuttingdown d = false -> forall n, In n (s_nodes (d_sched d)) -> sd_in (d_nt d') n) /\
  (forall m, sd_in (d_nt d) m -> sd_in (d_nt d') m) /\
  s_tests_finished (d_sched d') = s_tests_finished (d_sched d) /\
  s_nodes (d_sched d') = s_nodes (d_sched d) /\
  s_has_pending (d_sched d') = s_has_pending (d_sched d) /\
  d_shouldstop d' = d_shouldstop d /\ d_active d' = d_active d.
Proof.
  intros d d' o H. unfold d_triggershutdown in H.
  apply LoadProofs.mbind_inv in H.
  destruct H as [(e & H & _)|(t1 & p1 & a & p2 & Hg & H & ->)]; [unfold get in H; inv H|].
  unfold get in Hg. injection Hg as <- <- <-. cbn [app].
  destruct (d_shuttingdown d) eqn:Esd.
  { unfold ret in H. inv H. repeat split; auto; discriminate. }
  apply LoadProofs.mbind_inv in H.
  destruct H as [(e & _ & F)|(t2 & p2' & [] & p3 & Hp & H & ->)]; [discriminate|].
  unfold put in Hp. injection Hp as <- <-. cbn [app].
  unfold d_node_shutdown in H.
  change (fun n : nat => node_shutdown d_nt d_set_nt n) with (node_shutdown d_nt d_set_nt) in H.
  apply (g_shut_loop dstate d_nt d_set_nt d_nt_set) in H.
  destruct H as (A & M & F).
  split; [|split; [|split; [|split; [|split; [|split; [|split; [|split]]]]]]].
  - rewrite (F bool d_shuttingdown); [reflexivity|intros; reflexivity].
  - discriminate.
  - intros _ n Hn. apply A. exact Hn.
  - intros m Hm. apply M. exact Hm.
  - rewrite (F bool (fun x => s_tests_finished (d_sched x))); [reflexivity|].
    intros t v. cbn. apply s_tests_finished_set_nt.
  - rewrite (F _ (fun x => s_nodes (d_sched x))); [reflexivity|].
    intros t v. cbn. apply s_nodes_set_nt.
  - rewrite (F _ (fun x => s_has_pending (d_sched x))); [reflexivity|].
    intros t v. cbn. apply s_has_pending_set_nt.
  - rewrite (F bool d_shouldstop); [reflexivity|intros; reflexivity].
  - rewrite (F _ d_active); [reflexivity|intros; reflexivity].
Qed.

(* (V5a) triggershutdown: the session is shutting down afterwards, and (when it was not
   already) every node of the scheduler has been told to shut down or is already down.
   [sd_in (d_nt d') n] also says that n is known in the node table. *)
Theorem V5a_triggershutdown : forall d d' o,
  d_triggershutdown d = (d', o, Ok tt) ->
  d_shuttingdown d' = true /\
  (d_shuttingdown d = false ->
   forall n, In n (s_nodes (d_sched d)) ->
     exists c', aget n (d_nt d') = Some c' /\ shutting_down c' = true).
Proof.
  intros d d' o H. apply d_triggershutdown_spec in H.
  destruct H as (A & _ & B & _). split; [exact A|]. intros Hsd n Hn. exact (B Hsd n Hn).
Qed.
Print Assumptions V5a_triggershutdown.

(* d_triggershutdown changes d_sched only through the node table: every observation of the
   controller state that ignores the node table is unchanged, except d_shuttingdown *)
Theorem V5a_triggershutdown_frame : forall d d' o,
  d_triggershutdown d = (d', o, Ok tt) ->
  s_tests_finished (d_sched d') = s_tests_finished (d_sched d) /\
  s_nodes (d_sched d') = s_nodes (d_sched d) /\
  s_has_pending (d_sched d') = s_has_pending (d_sched d) /\
  (forall m, sd_in (d_nt d) m -> sd_in (d_nt d') m).
Proof.
  intros d d' o H. apply d_triggershutdown_spec in H. tauto.
Qed.

(* (V5b) one iteration of the controller loop: if the scheduler says "tests finished"
   afterwards, the session is shutting down *)
Theorem V5b_loop_once : forall ev d d' o,
  d_loop_once ev d = (d', o, Ok tt) ->
  s_tests_finished (d_sched d') = true -> d_shuttingdown d' = true.
Proof.
  intros ev d d' o H Hfin. unfold d_loop_once in H.
  apply LoadProofs.mbind_inv in H.
  destruct H as [(e & _ & F)|(d1 & o1 & [] & o2 & _ & H & ->)]; [discriminate|].
  apply LoadProofs.mbind_inv in H.
  destruct H as [(e & _ & F)|(d2 & o3 & [] & o4 & Hmid & H & ->)]; [discriminate|].
  apply LoadProofs.mbind_inv in Hmid.
  destruct Hmid as [(e & _ & F)|(t1 & p1 & a & p2 & Hg & Hmid & ->)]; [discriminate|].
  unfold get in Hg. injection Hg as <- <- <-.
  apply LoadProofs.mbind_inv in H.
  destruct H as [(e & _ & F)|(t2 & p3 & a2 & p4 & Hg & H & ->)]; [discriminate|].
  unfold get in Hg. injection Hg as <- <- <-.
  destruct (d_shouldstop d2) eqn:Estop.
  { apply d_triggershutdown_spec in H. tauto. }
  unfold ret in H. inv H.
  destruct (s_tests_finished (d_sched d1)) eqn:Efin.
  { apply d_triggershutdown_spec in Hmid. tauto. }
  unfold ret in Hmid. inv Hmid. congruence.
Qed.
Print Assumptions V5b_loop_once.

(* ... and in that case every node of the scheduler has been told to shut down (or is down),
   provided the session was not shutting down before the iteration's shutdown decision; stated
   on the middle step: *)
Theorem V5b_finished_all_told : forall d d' o,
  (d0 <- get ;; if s_tests_finished (d_sched d0) then d_triggershutdown else ret tt) d = (d', o, Ok tt) ->
  s_tests_finished (d_sched d) = true ->
  d_shuttingdown d' = true /\
  s_tests_finished (d_sched d') = true /\
  (d_shuttingdown d = false -> forall n, In n (s_nodes (d_sched d')) -> sd_in (d_nt d') n).
Proof.
  intros d d' o H Hfin.
  apply LoadProofs.mbind_inv in H.
  destruct H as [(e & _ & F)|(t1 & p1 & a & p2 & Hg & H & ->)]; [discriminate|].
  unfold get in Hg. injection Hg as <- <- <-. rewrite Hfin in H.
  apply d_triggershutdown_spec in H.
  destruct H as (A & _ & B & _ & C & D & _).
  split; [exact A|]. split; [congruence|]. intros Hsd n Hn. rewrite D in Hn. apply B; assumption.
Qed.

(* ================================================================== *)
(* (V1) LOAD: one scheduling decision for one node                     *)
(* ================================================================== *)

Lemma py_take_nil_inv : forall A (k : Z) (l : list A),
  py_take k l = [] -> l = [] \/ (k <= 0)%Z.
Proof.
  intros A k l H. unfold py_take in H. destruct (0 <=? k)%Z eqn:E.
  - destruct l as [|x l]; [auto|]. right. destruct (Z.to_nat k) eqn:Ek; [lia|discriminate].
  - apply Z.leb_gt in E. right. lia.
Qed.

(* sending at least (2 - |book|) tests to n: the pool is exhausted or n holds >= 2 afterwards *)
Lemma l_send_tests_topup : forall n num s s' outs book,
  l_send_tests n num s = (s', outs, Ok tt) -> aget n (l_n2p s) = Some book ->
  (2 - Z.of_nat (length book) <= num)%Z ->
  l_pending s' = [] \/ exists book', aget n (l_n2p s') = Some book' /\ 2 <= length book'.
Proof.
  intros n num s s' outs book H Hb Hnum. apply LoadProofs.l_send_tests_cases in H. cbv zeta in H.
  destruct H as [(Et & -> & _)|[(_ & _ & _ & _ & F)|(Hne & cur & Ec & -> & _)]]; [| discriminate |].
  - apply py_take_nil_inv in Et. destruct Et as [Et|Et]; [left; exact Et|].
    right. exists book. split; [exact Hb|]. lia.
  - rewrite Hb in Ec. inv Ec.
    cbn [l_pending l_set_pending l_set_n2p l_n2p].
    destruct (le_lt_dec 2 (length cur)) as [Hl|Hl].
    { right. eexists. split; [rewrite LoadProofs.aget_aset, Nat.eqb_refl; reflexivity|].
      rewrite app_length. lia. }
    assert (Hpos : (0 < num)%Z) by lia.
    unfold py_take, py_drop. destruct (0 <=? num)%Z eqn:E; [|apply Z.leb_gt in E; lia].
    destruct (le_lt_dec (length (l_pending s)) (Z.to_nat num)) as [Hk|Hk].
    + left. apply skipn_all2. exact Hk.
    + right. eexists. split; [rewrite LoadProofs.aget_aset, Nat.eqb_refl; reflexivity|].
      rewrite app_length, firstn_length_le by lia. lia.
Qed.

(* the general fact (no assumption on the duration): after a successful decision for a node
   that is up and has reported its collection, the node is shutting down, or holds >= 2, or
   the pool is empty *)
Theorem V1_load_check_schedule_gen : forall n dur s s' outs c book,
  l_check_schedule n dur s = (s', outs, Ok tt) ->
  aget n (l_nt s) = Some c -> shutting_down c = false ->
  ahas n (l_n2c s) = true ->
  aget n (l_n2p s) = Some book ->
  (exists c', aget n (l_nt s') = Some c' /\ shutting_down c' = true) \/
  (exists book', aget n (l_n2p s') = Some book' /\ 2 <= length book') \/
  l_pending s' = [].
Proof.
  intros n dur s s' outs c book H En Esd Ecol Eb.
  unfold l_check_schedule, node_shutting_down, node_flags, mbind, get, of_opt, ret, raise in H.
  cbn beta iota zeta delta [app] in H. rewrite En in H.
  cbn beta iota zeta delta [app] in H. rewrite Esd in H.
  cbn beta iota zeta delta [app] in H.
  destruct (l_pending s) as [|p0 pr] eqn:Ep.
  { (* pool empty: shutdown *)
    left. destruct (node_shutdown l_nt l_set_nt n s) as [[s2 o2] r2] eqn:Es. inv H.
    apply (g_node_shutdown_post lstate l_nt l_set_nt (fun _ _ => eq_refl)) in Es. exact (proj1 Es). }
  rewrite Ecol in H. cbn beta iota zeta delta [app negb] in H.
  destruct (zlen (l_n2p s) =? 0)%Z; cbn beta iota zeta delta [app] in H; [inv H|].
  rewrite Eb in H. cbn beta iota zeta delta [app] in H.
  match type of H with context [if ?b then _ else _] => destruct b eqn:Emin end.
  2:{ (* node_pending >= items_min >= 2 *)
      inv H. right. left. exists book. split; [exact Eb|].
      apply Z.ltb_ge in Emin. unfold zlen in Emin.
      match type of Emin with (Z.max 2 ?x <= _)%Z => pose proof (Z.le_max_l 2 x) end. lia. }
  match type of H with context [if ?b then _ else _] => destruct b eqn:Elong end.
  { (* long-running shortcut: only with >= 2 *)
    inv H. right. left. exists book. split; [exact Eb|].
    apply andb_true_iff in Elong. destruct Elong as [_ E2]. apply Z.leb_le in E2. unfold zlen in E2. lia. }
  cbn beta iota zeta delta [app] in H.
  destruct (l_chunk s) as [chunk|]; cbn beta iota zeta delta [app] in H; [|inv H].
  match type of H with context [l_send_tests n ?z s] =>
    destruct (l_send_tests n z s) as [[s2 o2] r2] eqn:Es; assert (Hz : (2 - Z.of_nat (length book) <= z)%Z)
  end.
  { unfold zlen.
    match goal with |- context [Z.max 2 ?x] => pose proof (Z.le_max_l 2 x) end. lia. }
  inv H.
  destruct (l_send_tests_topup _ _ _ _ _ _ Es Eb Hz) as [A|A]; auto.
Qed.
Print Assumptions V1_load_check_schedule_gen.

(* (V1) as asked: with a chunk configured and outside the "long-running test" shortcut *)
Theorem V1_load_check_schedule : forall n dur s s' outs c book ch,
  l_check_schedule n dur s = (s', outs, Ok tt) ->
  aget n (l_nt s) = Some c -> shutting_down c = false ->
  ahas n (l_n2c s) = true ->
  aget n (l_n2p s) = Some book ->
  l_chunk s = Some ch ->
  ~ ((100 <= dur)%Z /\ 2 <= length book) ->
  (exists c', aget n (l_nt s') = Some c' /\ shutting_down c' = true) \/
  (exists book', aget n (l_n2p s') = Some book' /\ 2 <= length book') \/
  l_pending s' = [].
Proof.
  intros n dur s s' outs c book ch H En Esd Ecol Eb _ _.
  eapply V1_load_check_schedule_gen; eauto.
Qed.
Print Assumptions V1_load_check_schedule.

(* the complementary fact: the shortcut (test ran >= 100 ms and the node holds >= 2) and in
   fact any call on a node holding >= 2 leaves the node with >= 2 *)
Theorem V1_load_shortcut_keeps_two : forall n dur s s' outs r book,
  l_check_schedule n dur s = (s', outs, r) ->
  aget n (l_n2p s) = Some book ->
  (100 <= dur)%Z -> 2 <= length book ->
  exists book', aget n (l_n2p s') = Some book' /\ 2 <= length book'.
Proof.
  intros n dur s s' outs r book H Eb _ Hl.
  apply LoadProofs.l_check_schedule_cases in H.
  destruct H as [(_ & -> & _)|[(c' & _ & _ & -> & _)|[(c & En & Esd & Ep & H)|[(c & _ & _ & _ & -> & _)|(c & num & En & Esd & Ep & H)]]]];
    try (exists book; auto; fail).
  - apply LoadProofs.node_shutdown_effect in H. destruct H as (_ & -> & _). exists book. auto.
  - apply LoadProofs.l_send_tests_cases in H. cbv zeta in H.
    destruct H as [(_ & -> & _)|[(_ & Ec & _)|(_ & cur & Ec & -> & _)]].
    + exists book. auto.
    + congruence.
    + rewrite Eb in Ec. inv Ec. cbn [l_set_n2p l_n2p].
      eexists. split; [rewrite LoadProofs.aget_aset, Nat.eqb_refl; reflexivity|].
      rewrite app_length. lia.
Qed.
Print Assumptions V1_load_shortcut_keeps_two.

(* ================================================================== *)
(* (V4) LOADSCOPE: one rescheduling decision for one node              *)
(* ================================================================== *)

(* a successful assignment pops exactly the head of the work queue *)
Lemma sc_assign_pops : forall n s s' o,
  sc_assign_work_unit n s = (s', o, Ok tt) ->
  exists x, sc_wq s = x :: sc_wq s'.
Proof.
  intros n s s' o H.
  unfold sc_assign_work_unit, node_send, node_flags, mbind, get, put, of_opt, ret, raise, emit in H.
  destruct (sc_wq s) as [|[scope u] wq'] eqn:Ewq; [inv H|].
  cbn -[aset aget opt_map filter] in H.
  destruct (aget n (sc_reg s)) as [wcoll|]; cbn -[aset aget opt_map filter] in H; [|inv H].
  destruct (opt_map _ _) as [ixs|]; cbn -[aset aget opt_map filter] in H; [|inv H].
  destruct (aget n (sc_nt s)) as [c|]; cbn -[aset aget opt_map filter] in H; [|inv H].
  destruct (n_closed c); cbn -[aset aget opt_map filter] in H; inv H; exists (scope, u); reflexivity.
Qed.

(* the top-up loop with enough fuel for the whole queue stops only when the queue is
   empty or the node holds >= 2 pending tests *)
Lemma sc_top_up_post : forall fuel n s s' o,
  sc_top_up fuel n s = (s', o, Ok tt) -> length (sc_wq s) <= fuel ->
  sc_wq s' = [] \/ exists w', aget n (sc_assigned s') = Some w' /\ 2 <= pending_of w'.
Proof.
  induction fuel as [|f IH]; intros n s s' o H Hf.
  - cbn in H. unfold ret in H. inv H. left. destruct (sc_wq s'); [reflexivity|cbn in Hf; lia].
  - cbn [sc_top_up] in H. apply LoadProofs.mbind_inv in H.
    destruct H as [(e & _ & F)|(t1 & p1 & a & p2 & Hg & H & ->)]; [discriminate|].
    unfold get in Hg. injection Hg as <- <- <-.
    destruct (sc_wq s) as [|x wq'] eqn:Ewq.
    { unfold ret in H. inv H. left. exact Ewq. }
    apply LoadProofs.mbind_inv in H.
    destruct H as [(e & _ & F)|(t2 & p3 & w & p4 & Hw & H & ->)]; [discriminate|].
    destruct (aget n (sc_assigned s)) as [w0|] eqn:Ea; [|unfold of_opt, raise in Hw; inv Hw].
    unfold of_opt, ret in Hw. inv Hw.
    destruct (pending_of w <? 2) eqn:Ep.
    + apply LoadProofs.mbind_inv in H.
      destruct H as [(e & _ & F)|(t3 & p5 & [] & p6 & Has & H & ->)]; [discriminate|].
      apply sc_assign_pops in Has. destruct Has as (y & Ey).
      eapply IH; [exact H|]. rewrite Ewq in Ey. inv Ey. cbn in Hf. lia.
    + unfold ret in H. inv H. right. exists w. split; [exact Ea|].
      apply Nat.ltb_ge in Ep. exact Ep.
Qed.

Theorem V4_scope_reschedule : forall n s s' outs c w,
  sc_reschedule n s = (s', outs, Ok tt) ->
  aget n (sc_nt s) = Some c -> shutting_down c = false ->
  ahas n (sc_reg s) = true ->
  aget n (sc_assigned s) = Some w ->
  (exists c', aget n (sc_nt s') = Some c' /\ shutting_down c' = true) \/
  (exists w', aget n (sc_assigned s') = Some w' /\ 2 <= pending_of w') \/
  sc_wq s' = [].
Proof.
  intros n s s' outs c w H En Esd Ereg Ea.
  unfold sc_reschedule in H.
  apply LoadProofs.mbind_inv in H.
  destruct H as [(e & _ & F)|(t1 & p1 & sd & p2 & Hsd & H & ->)]; [discriminate|].
  assert (E1 : t1 = s /\ sd = false).
  { unfold node_shutting_down, node_flags, mbind, get, of_opt, ret in Hsd. rewrite En in Hsd.
    cbn in Hsd. inv Hsd. auto. }
  destruct E1 as (-> & ->). clear Hsd.
  apply LoadProofs.mbind_inv in H.
  destruct H as [(e & _ & F)|(t2 & p3 & a & p4 & Hg & H & ->)]; [discriminate|].
  unfold get in Hg. injection Hg as <- <- <-.
  destruct (sc_wq s) as [|x wq'] eqn:Ewq.
  { left. apply (g_node_shutdown_post scstate sc_nt sc_set_nt (fun _ _ => eq_refl)) in H.
    exact (proj1 H). }
  rewrite Ereg in H. cbn [negb] in H.
  apply LoadProofs.mbind_inv in H.
  destruct H as [(e & _ & F)|(t3 & p5 & w0 & p6 & Hw & H & ->)]; [discriminate|].
  rewrite Ea in Hw. unfold of_opt, ret in Hw. inv Hw.
  destruct (2 <? pending_of w0) eqn:Ep.
  { unfold ret in H. inv H. right. left. exists w0. split; [exact Ea|].
    apply Nat.ltb_lt in Ep. lia. }
  apply LoadProofs.mbind_inv in H.
  destruct H as [(e & _ & F)|(t4 & p7 & [] & p8 & Has & H & ->)]; [discriminate|].
  apply LoadProofs.mbind_inv in H.
  destruct H as [(e & _ & F)|(t5 & p9 & a5 & p10 & Hg & H & ->)]; [discriminate|].
  unfold get in Hg. injection Hg as <- <- <-.
  apply sc_top_up_post in H; [|apply le_n].
  destruct H as [H|H]; auto.
Qed.
Print Assumptions V4_scope_reschedule.

(* ================================================================== *)
(* (V3) WORKSTEAL: one scheduling decision looks at every node that is up *)
(* ================================================================== *)

Theorem V3_worksteal_check_schedule : forall s s' outs r,
  ws_check_schedule s = (s', outs, r) -> ws_coll s <> None ->
  forall n, In n (ws_up s) ->
    2 <= ws_len s' n \/
    (exists c', aget n (ws_nt s') = Some c' /\ shutting_down c' = true) \/
    ws_steal s' <> None.
Proof.
  intros s s' outs r H Hcoll n Hn.
  pose proof (StealProofs.W10_check_schedule_never_raises _ _ _ _ H) as Hr. subst r.
  rewrite StealProofs.check_schedule_eq in H.
  destruct (ws_coll s) as [coll|]; [|contradiction]. clear Hcoll.
  assert (Hlen : forall t, ws_idle t (ws_up s) = [] -> 2 <= ws_len t n).
  { intros t Ht. destruct (le_lt_dec 2 (ws_len t n)) as [Hl|Hl]; [exact Hl|].
    assert (Hin : In n (ws_idle t (ws_up s))) by (apply StealProofs.ws_idle_spec; auto).
    rewrite Ht in Hin. destruct Hin. }
  destruct (ws_idle s (ws_up s)) as [|i0 il] eqn:Ei.
  { inv H. left. apply Hlen. exact Ei. }
  destruct (match ws_pending s with [] => (s, [], Ok tt) | _ :: _ => ws_distribute (i0 :: il) s end)
    as [[s1 o1] r1] eqn:E1.
  destruct r1 as [[]|e]; [|inv H].
  destruct (StealProofs.ws_phase2 (ws_up s) s1) as [[s2 o2] r2] eqn:E2. inv H.
  apply StealProofs.phase2_inv in E2.
  destruct E2 as [(-> & _ & _ & [Hi|(m & Hm)])
                 |[(_ & _ & v & k & vp & f & _ & _ & _ & _ & -> & _)
                 |[(_ & _ & Hl)|(_ & _ & F & _)]]].
  - left. apply Hlen. exact Hi.
  - right. right. rewrite Hm. discriminate.
  - right. right. cbn. discriminate.
  - unfold StealProofs.shut_loop in Hl.
    apply (g_shut_loop wsstate ws_nt ws_set_nt (fun _ _ => eq_refl)) in Hl.
    destruct Hl as (A & _ & F).
    destruct (le_lt_dec 2 (ws_len s1 n)) as [Hlt|Hlt].
    + left. unfold ws_len in *. rewrite (F _ ws_n2p); [exact Hlt|intros; reflexivity].
    + right. left. apply A. apply StealProofs.ws_idle_spec. auto.
  - discriminate.
Qed.
Print Assumptions V3_worksteal_check_schedule.

(* ================================================================== *)
(* (V2) LOAD: the initial distribution                                 *)
(* ================================================================== *)

(* books only grow, the pool only shrinks (from the front), nodes and flags stay *)
Definition grows (s s' : lstate) : Prop :=
  l_nt s' = l_nt s /\ akeys (l_n2p s') = akeys (l_n2p s) /\ l_coll s' = l_coll s /\
  (exists moved, l_pending s = moved ++ l_pending s') /\
  (forall m b, aget m (l_n2p s) = Some b ->
     exists b', aget m (l_n2p s') = Some b' /\ length b <= length b').

Lemma grows_refl : forall s, grows s s.
Proof.
  intros s. unfold grows. repeat split; auto. { exists []. reflexivity. }
  intros m b Hb. exists b. auto.
Qed.

Lemma grows_trans : forall a b c, grows a b -> grows b c -> grows a c.
Proof.
  intros a b c (A1 & A2 & A3 & (m1 & A4) & A5) (B1 & B2 & B3 & (m2 & B4) & B5).
  unfold grows. repeat split; try congruence.
  - exists (m1 ++ m2). rewrite A4, B4. apply app_assoc.
  - intros m bk Hb. destruct (A5 _ _ Hb) as (b1 & H1 & L1). destruct (B5 _ _ H1) as (b2 & H2 & L2).
    exists b2. split; [exact H2|lia].
Qed.

Lemma grows_pending_ne : forall s s', grows s s' -> l_pending s' <> [] -> l_pending s <> [].
Proof.
  intros s s' (_ & _ & _ & (mv & E) & _) Hne Hs. rewrite Hs in E.
  symmetry in E. apply app_eq_nil in E. tauto.
Qed.

Lemma l_send_tests_grows : forall n num s s' o,
  l_send_tests n num s = (s', o, Ok tt) -> grows s s'.
Proof.
  intros n num s s' o H.
  pose proof (LoadProofs.l_send_tests_spec _ _ _ _ _ _ H) as (Ep & _ & _ & (A & B & _) & K).
  unfold grows. split; [exact A|]. split; [exact K|]. split; [exact B|]. split; [eauto|].
  apply LoadProofs.l_send_tests_cases in H. cbv zeta in H.
  destruct H as [(_ & -> & _)|[(_ & _ & _ & _ & F)|(_ & cur & Ec & -> & _)]]; [|discriminate|].
  - intros m b Hb. exists b. auto.
  - intros m b Hb. cbn [l_set_n2p l_n2p]. rewrite LoadProofs.aget_aset.
    destruct (Nat.eqb m n) eqn:E.
    + apply Nat.eqb_eq in E. subst m. rewrite Hb in Ec. inv Ec.
      eexists. split; [reflexivity|]. rewrite app_length. lia.
    + exists b. auto.
Qed.

(* a send of >= 2 tests that does not exhaust the pool leaves the node with >= 2 *)
Lemma l_send_tests_two : forall n num s s' o,
  l_send_tests n num s = (s', o, Ok tt) -> (2 <= num)%Z -> l_pending s' <> [] ->
  exists b', aget n (l_n2p s') = Some b' /\ 2 <= length b'.
Proof.
  intros n num s s' o H Hnum Hne. apply LoadProofs.l_send_tests_cases in H. cbv zeta in H.
  destruct H as [(Et & -> & _)|[(_ & _ & _ & _ & F)|(_ & cur & Ec & -> & _)]]; [|discriminate|].
  - apply py_take_nil_inv in Et. destruct Et as [Et|Et]; [contradiction|lia].
  - cbn [l_pending l_set_pending l_set_n2p l_n2p] in *.
    eexists. split; [rewrite LoadProofs.aget_aset, Nat.eqb_refl; reflexivity|].
    unfold py_take, py_drop in *. destruct (0 <=? num)%Z eqn:E; [|apply Z.leb_gt in E; lia].
    destruct (le_lt_dec (length (l_pending s)) (Z.to_nat num)) as [Hk|Hk].
    + exfalso. apply Hne. apply skipn_all2. exact Hk.
    + rewrite app_length, firstn_length_le by lia. lia.
Qed.

Lemma mfor_send_two : forall num l s s' o,
  mfor l (fun n => l_send_tests n num) s = (s', o, Ok tt) -> (2 <= num)%Z ->
  grows s s' /\
  (l_pending s' <> [] -> forall n, In n l ->
     exists b', aget n (l_n2p s') = Some b' /\ 2 <= length b').
Proof.
  intros num. induction l as [|x l IH]; intros s s' o H Hnum.
  - cbn in H. unfold ret in H. inv H. split; [apply grows_refl|intros _ n []].
  - cbn [mfor] in H. apply LoadProofs.mbind_inv in H.
    destruct H as [(e & _ & F)|(s1 & o1 & [] & o2 & H1 & H2 & ->)]; [discriminate|].
    pose proof (l_send_tests_grows _ _ _ _ _ H1) as G1.
    destruct (IH _ _ _ H2 Hnum) as (G2 & A2).
    split; [eapply grows_trans; eauto|].
    intros Hne n [<-|Hn]; [|apply A2; assumption].
    pose proof (grows_pending_ne _ _ G2 Hne) as Hne1.
    destruct (l_send_tests_two _ _ _ _ _ H1 Hnum Hne1) as (b1 & Hb1 & L1).
    destruct G2 as (_ & _ & _ & _ & G2). destruct (G2 _ _ Hb1) as (b2 & Hb2 & L2).
    exists b2. split; [exact Hb2|lia].
Qed.

Lemma l_send_one_len : forall n s s' o,
  l_send_tests n 1%Z s = (s', o, Ok tt) -> length (l_pending s') = length (l_pending s) - 1.
Proof.
  intros n s s' o H. apply LoadProofs.l_send_tests_cases in H. cbv zeta in H.
  destruct H as [(Et & -> & _)|[(_ & _ & _ & _ & F)|(_ & cur & Ec & -> & _)]]; [|discriminate|].
  - apply py_take_nil_inv in Et. destruct Et as [->|Et]; [reflexivity|lia].
  - cbn [l_pending l_set_pending l_set_n2p]. unfold py_drop.
    change (0 <=? 1)%Z with true. cbv iota. rewrite skipn_length.
    change (Z.to_nat 1) with 1. reflexivity.
Qed.

(* the round-robin branch with fuel = |pool| exhausts the pool *)
Lemma l_round_robin_len : forall fuel all cur s s' o,
  l_round_robin fuel all cur s = (s', o, Ok tt) ->
  grows s s' /\ length (l_pending s') = length (l_pending s) - fuel.
Proof.
  intros fuel all. induction fuel as [|f IH]; intros cur s s' o H.
  - cbn in H. unfold ret in H. inv H. split; [apply grows_refl|lia].
  - cbn [l_round_robin] in H.
    assert (Hstep : forall n r, (l_send_tests n 1%Z ;;; l_round_robin f all r) s = (s', o, Ok tt) ->
              grows s s' /\ length (l_pending s') = length (l_pending s) - S f).
    { intros n r Hx. apply LoadProofs.mbind_inv in Hx.
      destruct Hx as [(e & _ & F)|(s1 & o1 & [] & o2 & H1 & H2 & ->)]; [discriminate|].
      destruct (IH _ _ _ _ H2) as (G2 & L2).
      split; [eapply grows_trans; [eapply l_send_tests_grows; eauto|exact G2]|].
      rewrite L2, (l_send_one_len _ _ _ _ H1). lia. }
    destruct cur as [|n r].
    + destruct all as [|n r]; [unfold raise in H; inv H|]. eapply Hstep; eauto.
    + eapply Hstep; eauto.
Qed.

Ltac mbo H t p a q H1 :=
  apply LoadProofs.mbind_inv in H;
  destruct H as [(?e & ?He & ?Hr)|(t & p & a & q & H1 & H & ->)]; [congruence|].

(* common part of the analysis of the first schedule() call *)
Lemma l_schedule_first : forall s s' outs coll,
  l_schedule s = (s', outs, Ok tt) -> l_coll s = None -> l_coll s' = Some coll ->
  l_collection_is_completed s = true /\
  ((coll = [] /\ s' = l_set_pending (l_set_coll s (Some [])) []) \/
   (coll <> [] /\
    ((l_pending s' <> [] /\
      forall n, In n (l_nodes s') -> exists book, aget n (l_n2p s') = Some book /\ 2 <= length book) \/
     (l_pending s' = [] /\ forall n, In n (l_nodes s') -> sd_in (l_nt s') n)))).
Proof.
  intros s s' outs coll H Ec Ec'. unfold l_schedule in H.
  mbo H t0 p0 a0 q0 Hg. unfold get in Hg. injection Hg as <- <- <-. cbn [app].
  mbo H t1 p1 a1 q1 Ha.
  assert (E1 : t1 = s /\ l_collection_is_completed s = true).
  { destruct (l_collection_is_completed s); unfold massert, ret, raise in Ha; inv Ha; auto. }
  destruct E1 as (-> & Hcomp). clear Ha. split; [exact Hcomp|].
  rewrite Ec in H.
  mbo H t2 p2 same q2 Hs. apply LoadProofs.l_same_collection_effect in Hs. destruct Hs as (-> & _).
  destruct same; cbn [negb] in H.
  2:{ unfold ret in H. inv H. congruence. }
  mbo H t3 p3 a3 q3 Hg. unfold get in Hg. injection Hg as <- <- <-. cbn [app].
  mbo H t4 p4 cc q4 Ho.
  destruct (l_n2c s) as [|[k c] others]; cbn in Ho; [discriminate|]. injection Ho as <- <- <-. cbn [app].
  mbo H t5 p5 a5 q5 Hp. unfold put in Hp. injection Hp as <- <- <-. cbn [app].
  destruct c as [|c0 cr].
  { unfold ret in H. inv H. cbn in Ec'. inv Ec'. left. split; reflexivity. }
  set (cl := c0 :: cr) in *.
  set (s1 := l_set_pending (l_set_coll s (Some cl)) (seq 0 (length cl))) in *.
  mbo H t6 p6 a6 q6 Hg. unfold get in Hg. injection Hg as <- <- <-. cbn [app].
  mbo H t7 p7 a7 q7 Hp. unfold put in Hp. injection Hp as <- <- <-. cbn [app].
  mbo H t8 p8 a8 q8 Hg. unfold get in Hg. injection Hg as <- <- <-. cbn [app].
  match type of H with context [l_set_chunk s1 (Some ?ch)] => set (chunk := ch) in * end.
  set (s3 := l_set_chunk s1 (Some chunk)) in *.
  mbo H t9 p9 a9 q9 Hmid.
  mbo H t10 p10 a10 q10 Hg. unfold get in Hg. injection Hg as <- <- <-. cbn [app].
  (* the distribution phase *)
  assert (Hdist : grows s3 t9 /\
            (l_pending t9 <> [] -> forall n, In n (l_nodes s3) ->
               exists b', aget n (l_n2p t9) = Some b' /\ 2 <= length b')).
  { destruct a9. destruct (zlen (l_pending s3) <? 2 * zlen (l_nodes s3))%Z.
    - apply l_round_robin_len in Hmid. destruct Hmid as (G & L). split; [exact G|].
      intros Hne. exfalso. apply Hne. destruct (l_pending t9); [reflexivity|]. cbn in L. lia.
    - destruct (zlen (l_n2p s3) =? 0)%Z; [unfold raise in Hmid; inv Hmid|].
      apply mfor_send_two in Hmid; [exact Hmid|].
      match goal with |- (2 <= Z.max ?x 2)%Z => apply Z.le_max_r end. }
  destruct Hdist as (G & Htwo). clear Hmid.
  assert (Hnodes : l_nodes t9 = l_nodes s3).
  { unfold l_nodes. destruct G as (_ & K & _). exact K. }
  assert (Hcl : l_coll t9 = Some cl).
  { destruct G as (_ & _ & K & _). rewrite K. reflexivity. }
  destruct (l_pending t9) as [|x xs] eqn:Ep9.
  - (* pool exhausted: everybody is told to shut down *)
    change (fun n : nat => node_shutdown l_nt l_set_nt n) with (node_shutdown l_nt l_set_nt) in H.
    apply (g_shut_loop lstate l_nt l_set_nt (fun _ _ => eq_refl)) in H.
    destruct H as (A & _ & F).
    assert (Ec9 : l_coll s' = l_coll t9) by (apply (F _ l_coll); intros; reflexivity).
    assert (Ep' : l_pending s' = l_pending t9) by (apply (F _ l_pending); intros; reflexivity).
    assert (En' : l_nodes s' = l_nodes t9) by (apply (F _ l_nodes); intros; reflexivity).
    rewrite Ec9, Hcl in Ec'. inv Ec'. right. split; [discriminate|]. right.
    split; [congruence|]. intros n Hn. apply A. rewrite <- En'. exact Hn.
  - unfold ret in H. inv H. rewrite Hcl in Ec'. inv Ec'. right. split; [discriminate|]. left.
    split; [rewrite Ep9; discriminate|]. intros n Hn. apply Htwo; [discriminate|].
    rewrite <- Hnodes. exact Hn.
Qed.

(* (V2) the first schedule() call, non-empty collection: either the pool is not exhausted
   and every node holds >= 2 tests, or the pool is exhausted and every node has been told to
   shut down (after its last test) *)
Theorem V2_load_initial_distribution : forall s s' outs coll,
  l_schedule s = (s', outs, Ok tt) -> l_coll s = None -> l_coll s' = Some coll -> coll <> [] ->
  (l_pending s' <> [] /\
   forall n, In n (l_nodes s') -> exists book, aget n (l_n2p s') = Some book /\ 2 <= length book) \/
  (l_pending s' = [] /\
   forall n, In n (l_nodes s') -> exists c', aget n (l_nt s') = Some c' /\ shutting_down c' = true).
Proof.
  intros s s' outs coll H Ec Ec' Hne.
  destruct (l_schedule_first _ _ _ _ H Ec Ec') as (_ & [(F & _)|(_ & D)]); [contradiction|exact D].
Qed.
Print Assumptions V2_load_initial_distribution.

(* the empty collection: nothing is distributed and nobody is told anything by schedule();
   but then tests_finished holds (given nobody holds >= 2, e.g. fresh books), so the
   controller's loop shuts everybody down (V5) *)
Theorem V2_load_empty_collection : forall s s' outs,
  l_schedule s = (s', outs, Ok tt) -> l_coll s = None -> l_coll s' = Some [] ->
  l_pending s' = [] /\ l_n2p s' = l_n2p s /\ l_nt s' = l_nt s /\
  (forallb (fun p => length (snd p) <? 2) (l_n2p s) = true -> l_tests_finished s' = true).
Proof.
  intros s s' outs H Ec Ec'.
  destruct (l_schedule_first _ _ _ _ H Ec Ec') as (Hc & [(_ & ->)|(F & _)]); [|congruence].
  cbn. repeat split. intros Hb. unfold l_tests_finished, l_collection_is_completed in *. cbn.
  rewrite Hc, Hb. reflexivity.
Qed.
Print Assumptions V2_load_empty_collection.

(* ================================================================== *)
(* Non-vacuity: concrete instances computed by the models              *)
(* ================================================================== *)
Definition open_nd : nctl := {| n_spec := 0; n_down := false; n_sdsent := false; n_closed := false |}.
Definition told_nd : nctl := {| n_spec := 0; n_down := false; n_sdsent := true; n_closed := false |}.

Open Scope string_scope.
Definition lx_coll : list string := ["t0"; "t1"; "t2"; "t3"; "t4"; "t5"].

(* node 0 holds one test, the pool holds three: check_schedule tops it up to 2 *)
Definition lx_topup : lstate :=
  {| l_nt := [(0, open_nd)]; l_numnodes := 1; l_n2c := [(0, lx_coll)]; l_n2p := [(0, [5])];
     l_pending := [1; 2; 3]; l_coll := Some lx_coll; l_chunk := Some 1%Z |}.

Example V1_instance_topup :
  l_check_schedule 0 0%Z lx_topup =
    ({| l_nt := [(0, open_nd)]; l_numnodes := 1; l_n2c := [(0, lx_coll)]; l_n2p := [(0, [5; 1])];
        l_pending := [2; 3]; l_coll := Some lx_coll; l_chunk := Some 1%Z |},
     [OSend 0 (CRun [1])], Ok tt)
  /\ aget 0 (l_nt lx_topup) = Some open_nd /\ shutting_down open_nd = false
  /\ ahas 0 (l_n2c lx_topup) = true /\ aget 0 (l_n2p lx_topup) = Some [5]
  /\ l_chunk lx_topup = Some 1%Z.
Proof. vm_compute. repeat split; reflexivity. Qed.

(* the pool is empty: check_schedule sends the shutdown command and marks the node *)
Definition lx_empty : lstate :=
  {| l_nt := [(0, open_nd)]; l_numnodes := 1; l_n2c := [(0, lx_coll)]; l_n2p := [(0, [5])];
     l_pending := []; l_coll := Some lx_coll; l_chunk := Some 1%Z |}.

Example V1_instance_shutdown :
  l_check_schedule 0 0%Z lx_empty =
    ({| l_nt := [(0, told_nd)]; l_numnodes := 1; l_n2c := [(0, lx_coll)]; l_n2p := [(0, [5])];
        l_pending := []; l_coll := Some lx_coll; l_chunk := Some 1%Z |},
     [OSend 0 CShutdown], Ok tt)
  /\ shutting_down told_nd = true.
Proof. vm_compute. split; reflexivity. Qed.

(* the theorem applied to the first instance picks the middle disjunct's witness *)
Example V1_instance_applied :
  exists s' outs, l_check_schedule 0 0%Z lx_topup = (s', outs, Ok tt) /\
    ((exists c', aget 0 (l_nt s') = Some c' /\ shutting_down c' = true) \/
     (exists book', aget 0 (l_n2p s') = Some book' /\ 2 <= length book') \/
     l_pending s' = []).
Proof.
  eexists. eexists. split; [vm_compute; reflexivity|].
  eapply (V1_load_check_schedule 0 0%Z lx_topup _ _ open_nd [5] 1%Z); try reflexivity.
  intros [H _]. revert H. vm_compute. intros H. apply H. reflexivity.
Qed.

(* the initial distribution: 6 tests over 2 nodes, both get >= 2 or are told to shut down *)
Definition lx_first : lstate :=
  {| l_nt := [(0, open_nd); (1, open_nd)]; l_numnodes := 2;
     l_n2c := [(0, lx_coll); (1, lx_coll)]; l_n2p := [(0, []); (1, [])];
     l_pending := []; l_coll := None; l_chunk := None |}.

Example V2_instance :
  let '(s', outs, r) := l_schedule lx_first in
  r = Ok tt /\ l_coll s' = Some lx_coll /\ l_n2p s' = [(0, [0; 1]); (1, [2; 3])] /\ l_pending s' = [4; 5]
  /\ outs = [OSend 0 (CRun [0; 1]); OSend 1 (CRun [2; 3])].
Proof. vm_compute. repeat split; reflexivity. Qed.

(* three tests over two nodes: round robin exhausts the pool and both nodes are told to shut down *)
Definition lx_first_small : lstate :=
  {| l_nt := [(0, open_nd); (1, open_nd)]; l_numnodes := 2;
     l_n2c := [(0, ["a"; "b"; "c"]); (1, ["a"; "b"; "c"])]; l_n2p := [(0, []); (1, [])];
     l_pending := []; l_coll := None; l_chunk := None |}.

Example V2_instance_exhausted :
  let '(s', outs, r) := l_schedule lx_first_small in
  r = Ok tt /\ l_pending s' = [] /\ l_n2p s' = [(0, [0; 2]); (1, [1])]
  /\ l_nt s' = [(0, told_nd); (1, told_nd)]
  /\ outs = [OSend 0 (CRun [0]); OSend 1 (CRun [1]); OSend 0 (CRun [2]);
             OSend 0 CShutdown; OSend 1 CShutdown].
Proof. vm_compute. repeat split; reflexivity. Qed.

(* work stealing: node 2 is idle, nothing in the pool, node 0 holds six: a steal request goes
   out and the marker is set; with nothing to steal the idle nodes are told to shut down *)
Example V3_instance_steal :
  let '(s', outs, r) := ws_check_schedule StealProofs.ex1 in
  r = Ok tt /\ ws_steal s' = Some 0 /\ outs = [OSend 0 (CSteal [3; 4; 5])]
  /\ ws_up StealProofs.ex1 = [0; 1; 2].
Proof. vm_compute. repeat split; reflexivity. Qed.

Example V3_instance_shutdown :
  let '(s', outs, r) := ws_check_schedule StealProofs.ex3 in
  r = Ok tt /\ ws_steal s' = None /\ outs = [OSend 1 CShutdown; OSend 2 CShutdown]
  /\ ws_len s' 0 = 2.
Proof. vm_compute. repeat split; reflexivity. Qed.

(* loadscope: two one-test units in the queue, node 0 holds nothing: it gets both *)
Definition cx : scstate :=
  {| sc_nt := [(0, open_nd)]; sc_kind := KFile; sc_numnodes := 1; sc_coll := Some ["a::t"; "b::t"];
     sc_wq := [("a", [("a::t", false)]); ("b", [("b::t", false)])];
     sc_assigned := [(0, [])]; sc_reg := [(0, ["a::t"; "b::t"])] |}.

Example V4_instance :
  let '(s', outs, r) := sc_reschedule 0 cx in
  r = Ok tt /\ sc_wq s' = [] /\ outs = [OSend 0 (CRun [0]); OSend 0 (CRun [1])]
  /\ (match aget 0 (sc_assigned s') with Some w' => pending_of w' | None => 0 end) = 2.
Proof. vm_compute. repeat split; reflexivity. Qed.
Close Scope string_scope.

(* worker: holding test 7 with the shutdown marker queued, the main thread steps to PGot *)
Definition wx : wst :=
  {| wq := [(1, Mark)]; wflag := true; wph := PWaitNext (0, 7); wcb := true; winbox := []; wrpend := [];
     wreply := None; wntag := 2; wran := []; wputs := [(0, Idx 7); (1, Mark)]; wstolen := [];
     wpopped := [(0, Idx 7)] |}.
Definition ox : oracle :=
  {| reports_of := fun _ => [Passed]; stops_after := fun _ => false; ncollected := 8; coll_reports := [] |}.

Example V6_instance :
  (match main_step ox wx with Some (w', evs) => Some (wph w', evs) | None => None end)
    = Some (PGot (0, 7) (1, Mark), [])
  /\ main_step ox (upd_q wx []) = None.
Proof. vm_compute. split; reflexivity. Qed.

(* ---- closing audit of the remaining named results ---- *)
Print Assumptions V6_got_enters_test.
Print Assumptions s_tests_finished_set_nt.
Print Assumptions V5a_triggershutdown_frame.
Print Assumptions V5b_finished_all_told.
Print Assumptions V1_instance_applied.
