(* CtlWitnesses.v — kernel-checked witnesses (vm_compute) at the level of Model/CtlRun.v: histories of injected
   worker messages on which a property FAILS in the model exactly as it fails on the real classes
   (known findings). *)
From XV Require Import Base Worker Ctl SchedLoad SchedSteal SchedScope SchedEach Sched DSession System CtlRun.
From Coq Require Import List String ZArith Bool.
Import ListNotations.
Open Scope string_scope.

Definition w_cfg (m : mode) (nn : nat) (mr : option Z) : config :=
  {| c_mode := m; c_numnodes := nn; c_chunk := None; c_maxfail := 0%Z; c_max_restart := mr;
     c_requeue := 0; c_coll := fun _ => ["f0.py::a"; "f0.py::b"; "f1.py::c"; "f1.py::d"]; c_oracle := fun _ =>
       {| reports_of := fun _ => [Passed]; stops_after := fun _ => false; ncollected := 4; coll_reports := [] |};
     c_dur := fun _ => 0%Z; c_crash_in := fun _ _ => false; c_strict := false; c_spec := fun _ => 0 |}.

Fixpoint ctl_exec (c : config) (s : sys) (ops : list cop) : sys * list out :=
  match ops with
  | [] => (s, [])
  | CInject n e :: r =>
      match y_result s, aget n (y_w s), upmsg_of_sx c n e with
      | None, Some _, Some m => ctl_exec c (inject s n m) r
      | _, _, _ => ctl_exec c s r
      end
  | CLabel l :: r =>
      match sys_step c s l with
      | None => ctl_exec c s r
      | Some (s', o, _) => let '(s2, o2) := ctl_exec c s' r in (s2, (o ++ o2)%list)
      end
  end.

Definition sends_to (n : nat) (o : list out) : list cmd :=
  flat_map (fun x => match x with OSend m c => if Nat.eqb m n then [c] else [] | _ => [] end) o.

Definition ev (s : string) : sx := SL [SS s].

(* KF-C16-initial-distribution-reaches-a-written-off-worker: loadscope, ONE worker; it reports its collection, then
   something undecodable arrives: the receiver thread sends it its shutdown; only then does the main loop handle the
   queued collection report and schedule() hands out the first tests BEHIND the shutdown *)
Definition kf_c16_ops : list cop :=
  [CInject 0 (ev "workerready"); CLabel (LRecv 0); CLabel LCtl;
   CInject 0 (ev "collectionfinish"); CInject 0 (ev "garbled");
   CLabel (LRecv 0); CLabel (LRecv 0); CLabel LCtl].

Example c16_command_after_shutdown_when_written_off_refuted :
  sends_to 0 (snd (ctl_exec (w_cfg (MScope KScope) 1 (Some 1%Z)) (sys_init (w_cfg (MScope KScope) 1 (Some 1%Z))) kf_c16_ops))
  = [CShutdown; CRun [0; 1]].
Proof. vm_compute. reflexivity. Qed.
Print Assumptions c16_command_after_shutdown_when_written_off_refuted.

(* KF-C17-internal-error-event-then-exit: two workers; worker 1 reports an internal error of its own and its channel
   ends: the second removal from the active set raises (KeyError in dsession.py) *)
Definition kf_c17_ops : list cop :=
  [CInject 0 (ev "workerready"); CInject 1 (ev "workerready"); CLabel (LRecv 0); CLabel (LRecv 1); CLabel LCtl; CLabel LCtl;
   CInject 1 (ev "internal_error"); CInject 1 (ev "END"); CLabel (LRecv 1); CLabel (LRecv 1); CLabel LCtl; CLabel LCtl].

Example c17_internal_error_then_exit_refuted :
  y_result (fst (ctl_exec (w_cfg MLoad 2 (Some 4%Z)) (sys_init (w_cfg MLoad 2 (Some 4%Z))) kf_c17_ops)) = Some (RError EKey).
Proof. vm_compute. reflexivity. Qed.
Print Assumptions c17_internal_error_then_exit_refuted.

(* K1 (repaired, 8ba5861: a keyboard-interrupted worker's tests are not re-scheduled before the others are told to shut
   down): the model-level example of the repaired behaviour is SystemGaps2.g2_kbd_theorem_applies, the theorem is
   SystemGaps2.sys_stop_decision_step_no_dispatch. *)
