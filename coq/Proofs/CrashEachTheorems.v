(* CrashEachTheorems.v -- part D of the crash proof for --dist each (MEach): the system invariant XE of
   Model/System.v WITH worker crashes (LCrash at any moment, c_crash_in) and replacement workers, proved
   for EVERY label, the chain invariant CH on top of it, and the theorems derived from them
   (properties C17 and C08 with crashes).

   Hypotheses of the theorems: c_mode c = MEach, no_garbled c, 0 < c_numnodes c,
     (H-coh)  forall n, ncollected (c_oracle c n) = length (c_coll c n)   -- every worker id, replacements included
              (as in EachSystem.v: `runtests_all` enumerates what the worker reported);
     (H-rq)   c_requeue c = 0   -- no plugin re-queues crash items: EachScheduling.mark_test_pending raises
              NotImplementedError, which escapes worker_errordown (example cex_requeue_not_implemented).
   Nothing else: any schedule, any c_crash_in, any restart budget, c_strict, --maxfail, stop requests,
   any spec classes, and the workers may collect different lists.

     D.1  per-node invariants: NEX (alive: flags + item stream shape, ordered book coupling, signal
          order, ...), NDX / NDXcpl (dead: frozen facts; book = completions in flight ++ holdings ++ lost)
     D.2  the controller's receiver thread (process_from_remote, end markers)
     D.3  the system invariant XE, every step (step_xe) and every schedule (xe_run)
     D.4  theorems:  crash_each_c17                  the only exception is RuntimeError("no active workers")
                     crash_each_coupling             the crash coupling of the books            (item 1)
                     crash_each_removed              _removed2pending holds non-empty intervals [b, K)
                     crash_each_started_interval / _sorted     C08 (a)
     D.5  the replacement chains: invariant CH (every node that was handed tests is tracked by a chain of
          gone workers with the same collection whose started tests ++ crash items ++ what is still owned
          by an active node / kept in _removed2pending is EXACTLY 0 .. K-1, in order), CH_step, xe_ch_run;
          theorems:  crash_each_runs_only_remainder  C08 (b)
                     crash_each_finished_cover / _exactly_once / _nothing_left     C08 (c)
     D.6  one controller iteration in a reachable state: crash_each_remainder_kept, crash_each_inherit_exact
          (CRun carries exactly the remainder of a dead node with equal spec class and equal collection),
          crash_each_report_names_head
     and evaluated examples (non-vacuity; the NotImplementedError finding; the known stand-off; budget 0). *)
From XV Require Import Base Worker Ctl SchedLoad SchedSteal SchedScope SchedEach Sched DSession System
  NoHook DSessionProofs WorkerProofs LoadProofs FifoProofs ExactlyOnce Coupling CrashCoupling CrashTheorems
  EachSystem CrashEach.
From Coq Require Import Permutation Sorted.
Open Scope nat_scope.

(* ====================================================================================== *)
(* D.1 the per-node invariants                                                             *)
(* ====================================================================================== *)
Section NodeX.
Variable collf : nat -> list string.
Notation Kf n := (length (collf n)).

(* an alive node *)
Record NEX (es : estate) (act : list nat) (ss : bool) (n : nat) (L : list sig) (dn : list cmd) (w : wst) : Prop := {
  nx_flags : exists f, aget n (e_nt es) = Some f /\
             stream_x (Kf n) (stb es n) (n_sdsent f) (wstr (Kf n) w ++ flat_map (citems (Kf n)) dn) /\
             (In SgReady L \/ wph w = PBoot -> n_sdsent f = false);
  nx_coupled : bkE es n = completes L ++ owedE (Kf n) w ++ flat_map (cinds collf n) dn;
  nx_chan : chan_ok (prank (wph w)) L;
  nx_nodes : In n (e_nodes es) -> ~ In SgReady L /\ wph w <> PBoot;
  nx_cf : In n (akeys (e_n2c es)) \/ In n (e_started es) -> ~ In SgReady L /\ ~ In SgCF L /\ 2 <= prank (wph w);
  nx_act : ~ In n act -> L = [] /\ wph w = PExited;
  nx_fm : In (SgFin false) L \/ wph w = PFinishing false -> markpopped w;
  nx_wx : WX w;
  nx_fx : finished_ph (wph w) ->
          markpopped w \/ wph w = PFinishing true \/ In (SgFin true) L \/ ss = true;
  nx_cmds : Forall ecmd (winbox w) /\ Forall ecmd dn;
}.

Lemma NEX_deliver es act ss n L c rest w :
  NEX es act ss n L (c :: rest) w -> NEX es act ss n L rest (deliver w c).
Proof.
  intros [(f & Ef & Mk & Rd) Cp Ch Nd Nc Ac Fm Wx Fx (G1 & G2)].
  destruct (deliver_each (Kf n) w c) as (Er & Ep & Epop & Erep & _ & Einb).
  inversion G2 as [|c' r' Gc Gr]; subst.
  constructor; rewrite ?Ep.
  - exists f. split; [exact Ef|]. split; [|exact Rd]. unfold wstr in *. rewrite Epop, Er, <- !app_assoc. cbn [flat_map] in Mk.
    rewrite <- !app_assoc in Mk. exact Mk.
  - rewrite Cp. unfold owedE. rewrite Er, item_inds_app, (owed_main_ext w _ Ep Epop), <- !app_assoc. reflexivity.
  - exact Ch.
  - exact Nd.
  - exact Nc.
  - exact Ac.
  - unfold markpopped in *. rewrite Epop. exact Fm.
  - destruct Wx as (X1 & X2). split; [rewrite Erep; exact X1|rewrite Ep; exact X2].
  - unfold markpopped in *. rewrite Epop. exact Fx.
  - split; [|exact Gr]. rewrite Einb. apply Forall_app. split; [exact G1|constructor; [exact Gc|constructor]].
Qed.

Lemma NEX_recv o es act ss n L dn w :
  ncollected o = Kf n -> NEX es act ss n L dn w ->
  snd (recv_step o w) = [] /\ NEX es act ss n L dn (fst (recv_step o w)).
Proof.
  intros HK [(f & Ef & Mk & Rd) Cp Ch Nd Nc Ac Fm (X1 & X2) Fx (G1 & G2)].
  destruct (recv_step_x o w G1 X1) as (Ev & Er & Ep & Epop & Erep & _ & Ginb). rewrite HK in Er.
  split; [exact Ev|]. constructor; rewrite ?Ep.
  - exists f. split; [exact Ef|]. split; [|exact Rd]. unfold wstr in *. rewrite Epop, Er. exact Mk.
  - rewrite Cp. unfold owedE. rewrite Er, (owed_main_ext w _ Ep Epop). reflexivity.
  - exact Ch.
  - exact Nd.
  - exact Nc.
  - exact Ac.
  - unfold markpopped in *. rewrite Epop. exact Fm.
  - split; [exact Erep|rewrite Ep; exact X2].
  - unfold markpopped in *. rewrite Epop. exact Fx.
  - split; [exact Ginb|exact G2].
Qed.

Lemma NEX_main o es act ss n L dn w w' evs :
  WInv w -> NEX es act ss n L dn w -> main_step o w = Some (w', evs) ->
  NEX es act ss n (L ++ flat_map we_sig evs) dn w' /\ Forall ok_wev evs.
Proof.
  intros I [(f & Ef & Mk & Rd) Cp Ch Nd Nc Ac Fm Wx Fx (G1 & G2)] H.
  destruct (main_step_frame_e (Kf n) _ _ _ _ H) as (Erp & Einb & Erep & Estr).
  pose proof (main_step_owedE (Kf n) _ _ _ _ I Wx H) as Eow.
  destruct (main_step_rank _ _ _ _ Wx H) as (Hok & Hrank).
  pose proof (main_step_not_exited _ _ _ _ H) as Hne.
  split; [|exact Hok].
  assert (Hmono : prank (wph w) <= prank (wph w')) by (destruct Hrank as [(_ & X)|(g & _ & _ & _ & X)]; exact X).
  assert (Hold : forall g, In g L -> srank g < 3).
  { intros g Hg. pose proof (chan_ok_in _ _ _ Ch Hg) as Hp.
    destruct (Nat.lt_ge_cases (srank g) 3) as [X|X]; [exact X|]. exfalso.
    pose proof (srank_le3 g). unfold prec in Hp. assert (Hp4 : 4 <= prank (wph w)) by lia.
    apply prank_4 in Hp4. contradiction. }
  assert (Hnew : forall g, In g (flat_map we_sig evs) -> srank g = prank (wph w)).
  { intros g Hg. destruct Hrank as [(E0 & _)|(g0 & E0 & Eg & _)]; rewrite E0 in Hg; [destruct Hg|].
    destruct Hg as [<-|[]]. exact Eg. }
  constructor.
  - exists f. split; [exact Ef|]. split; [rewrite Estr; exact Mk|].
    intros [Hi|Hp].
    + apply in_app_or in Hi. destruct Hi as [Hi|Hi]; [exact (Rd (or_introl Hi))|].
      pose proof (Hnew _ Hi) as Hr. cbn in Hr. symmetry in Hr. apply prank_0 in Hr. exact (Rd (or_intror Hr)).
    + rewrite Hp in Hmono. cbn in Hmono. assert (E0 : prank (wph w) = 0) by lia. apply prank_0 in E0.
      exact (Rd (or_intror E0)).
  - rewrite Cp, completes_app, Eow, <- !app_assoc. reflexivity.
  - destruct Hrank as [(-> & X)|(g & -> & Eg & Hp & X)].
    + rewrite app_nil_r. eapply chan_ok_mono; eauto.
    + eapply chan_ok_snoc; eauto. rewrite <- Eg. exact Hp.
  - intros Hin. destruct (Nd Hin) as (Nr & Nb). split.
    + intros Hi. apply in_app_or in Hi. destruct Hi as [Hi|Hi]; [exact (Nr Hi)|].
      apply Hnew in Hi. cbn in Hi. symmetry in Hi. apply prank_0 in Hi. contradiction.
    + intros E. rewrite E in Hmono. cbn in Hmono. assert (E0 : prank (wph w) = 0) by lia.
      apply prank_0 in E0. contradiction.
  - intros Hin. destruct (Nc Hin) as (Nr & Ncf & Nb). split; [|split; [|lia]].
    + intros Hi. apply in_app_or in Hi. destruct Hi as [Hi|Hi]; [exact (Nr Hi)|].
      apply Hnew in Hi. cbn in Hi. lia.
    + intros Hi. apply in_app_or in Hi. destruct Hi as [Hi|Hi]; [exact (Ncf Hi)|].
      apply Hnew in Hi. cbn in Hi. lia.
  - intros Hn. destruct (Ac Hn) as (_ & E). contradiction.
  - intros [Hi|Hp].
    + apply in_app_or in Hi. destruct Hi as [Hi|Hi].
      * specialize (Hold _ Hi). cbn in Hold. lia.
      * pose proof (main_step_emits_fin _ _ _ _ _ Wx H Hi) as Ep.
        unfold markpopped in *. rewrite (main_step_in_fin _ _ _ _ _ H Ep). apply Fm. right. exact Ep.
    + eapply main_step_enter_fin; eauto. intros E.
      rewrite (main_step_from_fin _ _ _ _ _ H E) in Hp. discriminate.
  - eapply main_step_WX; eauto.
  - intros Hfin. destruct (main_step_phase_fin _ _ _ _ H Hfin) as [(b & Ep & Ep' & Hsig)|(b & Ep' & Hnf)].
    + assert (Hfin0 : finished_ph (wph w)) by (right; exists b; exact Ep).
      destruct b.
      * right. right. left. apply in_or_app. right. rewrite Hsig. left. reflexivity.
      * destruct (Fx Hfin0) as [X|[X|[X|X]]].
        -- left. unfold markpopped in *. rewrite (main_step_in_fin _ _ _ _ _ H Ep). exact X.
        -- congruence.
        -- right. right. left. apply in_or_app. left. exact X.
        -- right. right. right. exact X.
    + destruct b; [right; left; exact Ep'|]. left.
      eapply main_step_enter_fin; eauto. intros E. apply Hnf. right. exists false. exact E.
  - rewrite Einb. split; assumption.
Qed.

(* the controller's receiver thread and a crash only touch the down / closed flags *)
Lemma NEX_flags_ext es es' act ss n L dn w :
  (forall f, aget n (e_nt es) = Some f -> exists f', aget n (e_nt es') = Some f' /\ n_sdsent f' = n_sdsent f) ->
  e_n2p es' = e_n2p es -> e_n2c es' = e_n2c es -> e_started es' = e_started es ->
  NEX es act ss n L dn w -> NEX es' act ss n L dn w.
Proof.
  intros Hf Ep Ec Est [(f & Ef & Mk & Rd) Cp Ch Nd Nc Ac Fm Wx Fx G]. constructor; auto.
  - destruct (Hf f Ef) as (f' & Ef' & Es). exists f'. unfold stb. rewrite Es, Est. auto.
  - unfold bkE in *. rewrite Ep. exact Cp.
  - unfold e_nodes. rewrite Ep. exact Nd.
  - rewrite Ec, Est. exact Nc.
Qed.

Lemma cinds_itemsX n dn : flat_map (cinds collf n) dn = item_inds (flat_map (citems (Kf n)) dn).
Proof.
  induction dn as [|c dn IH]; [reflexivity|]. cbn [flat_map]. rewrite item_inds_app, <- IH. reflexivity.
Qed.

(* one iteration of the controller loop, seen from an alive node n *)
Lemma NEX_ctl N ev d es d' es' vo n L' dn w :
  HEFFx N collf ev d es d' es' vo -> n < d_next_gw d -> (forall k, ev = QErrorDown k -> k <> n) ->
  NEX es (d_active d) (d_shouldstop d) n (ev_sigs_for n ev ++ L') dn w ->
  NEX es' (d_active d') (d_shouldstop d') n L' (dn ++ cmds_to n vo) w.
Proof.
  intros E HnG Hne [(f & Ef & Mk & Rd) Cp Ch Nd Nc Ac Fm Wx Fx (G1 & G2)].
  assert (Hsub : forall g, In g L' -> In g (ev_sigs_for n ev ++ L')) by (intros g Hg; apply in_or_app; right; exact Hg).
  assert (Ch' : chan_ok (prank (wph w)) L').
  { unfold ev_sigs_for in Ch. destruct (ev_sig ev) as [[m g]|]; [|exact Ch].
    destruct (Nat.eqb m n); [|exact Ch]. eapply chan_ok_tail. exact Ch. }
  pose proof (hx_fx _ _ _ _ _ _ _ _ E n HnG) as R. rewrite Ef in R.
  destruct (aget n (e_nt es')) as [f'|] eqn:Ef'; [|destruct R]. cbn [FXo] in R.
  constructor.
  - exists f'. split; [exact Ef'|]. split.
    + rewrite flat_map_app, app_assoc. eapply FX_stream; eauto.
    + intros Hr. destruct (n_sdsent f') eqn:Es'; [|reflexivity]. exfalso.
      assert (Hs0 : n_sdsent f = false).
      { apply Rd. destruct Hr as [Hr|Hr]; [left; apply Hsub; exact Hr|right; exact Hr]. }
      destruct (hx_sdn _ _ _ _ _ _ _ _ E n f f' Ef Ef' Hs0 Es') as [Hin|Hev].
      * destruct (Nd Hin) as (A & B). destruct Hr as [Hr|Hr]; [apply A; apply Hsub; exact Hr|contradiction].
      * unfold ev_sigs_for in Ch. rewrite Hev, Nat.eqb_refl in Ch. cbn [app] in Ch.
        destruct (chan_ok_ready_head _ _ Ch) as (A & B). destruct Hr as [Hr|Hr]; [exact (A Hr)|].
        rewrite Hr in B. cbn in B. lia.
  - rewrite (hx_bk _ _ _ _ _ _ _ _ E n), (bookmid'_eq ev n _ Hne), flat_map_app.
    rewrite Cp, bookmid_sigs, <- !app_assoc. reflexivity.
  - exact Ch'.
  - intros Hin. destruct (hx_nodes _ _ _ _ _ _ _ _ E n Hin) as [Hold|Hev].
    + destruct (Nd Hold) as (A & B). split; [|exact B]. intros Hi. apply A. apply Hsub. exact Hi.
    + unfold ev_sigs_for in Ch. rewrite Hev, Nat.eqb_refl in Ch. cbn [app] in Ch.
      destruct (chan_ok_ready_head _ _ Ch) as (A & B). split; [exact A|].
      intros Ep. rewrite Ep in B. cbn in B. lia.
  - intros Hin. destruct (hx_cf _ _ _ _ _ _ _ _ E n Hin) as [Hold|[Hold|Hev]].
    + destruct (Nc (or_introl Hold)) as (A & B & C). split; [|split; [|exact C]]; intros Hi; [apply A|apply B]; apply Hsub; exact Hi.
    + destruct (Nc (or_intror Hold)) as (A & B & C). split; [|split; [|exact C]]; intros Hi; [apply A|apply B]; apply Hsub; exact Hi.
    + unfold ev_sigs_for in Ch. rewrite Hev, Nat.eqb_refl in Ch. cbn [app] in Ch.
      exact (chan_ok_cf_head' _ _ Ch).
  - intros Hn. destruct (in_dec Nat.eq_dec n (d_active d)) as [Hin|Hni].
    + destruct (hx_act _ _ _ _ _ _ _ _ E n Hin) as [X|[(b & Hev)|X]]; [contradiction| |exfalso; exact (Hne n X eq_refl)].
      unfold ev_sigs_for in Ch. rewrite Hev, Nat.eqb_refl in Ch. cbn [app] in Ch.
      destruct (chan_ok_fin_head _ _ _ Ch) as (A & B). split; [exact A|apply prank_4; exact B].
    + destruct (Ac Hni) as (A & B). split; [|exact B]. apply app_eq_nil in A. tauto.
  - intros [Hi|Hp]; apply Fm; [left; apply Hsub; exact Hi|right; exact Hp].
  - exact Wx.
  - intros Hfin. destruct (Fx Hfin) as [X|[X|[X|X]]].
    + left. exact X.
    + right. left. exact X.
    + apply in_app_or in X. destruct X as [X|X].
      * right. right. right. unfold ev_sigs_for in X. destruct (ev_sig ev) as [[m g]|] eqn:Eg; [|destruct X].
        destruct (Nat.eqb m n) eqn:Emn; [|destruct X]. destruct X as [->|[]].
        apply (hx_stop _ _ _ _ _ _ _ _ E m). exact Eg.
      * right. right. left. exact X.
    + right. right. right. apply (hx_ss _ _ _ _ _ _ _ _ E). exact X.
  - split; [exact G1|]. apply Forall_app. split; [exact G2|].
    destruct (FX_fields _ _ _ _ _ _ R) as (_ & _ & _ & _ & X). exact X.
Qed.

(* when the worker's "finished" (without stop request) is next, its book is empty *)
Lemma NEX_finished_empty es act ss n L dn w :
  NEX es act ss n (SgFin false :: L) dn w -> bkE es n = [].
Proof.
  intros [(f & Ef & Mk & Rd) Cp Ch Nd Nc Ac Fm Wx Fx G].
  destruct (chan_ok_fin_head _ _ _ Ch) as (-> & Hk). apply prank_4 in Hk.
  destruct (Fm (or_introl (or_introl eq_refl))) as (pre & t & Ep).
  unfold wstr in Mk. rewrite Ep, map_app in Mk. cbn [map snd] in Mk.
  rewrite <- !app_assoc in Mk. cbn [app] in Mk. destruct Mk as (A & EA & _).
  assert (Y : wrest (Kf n) w ++ flat_map (citems (Kf n)) dn = []).
  { destruct (n_sdsent f).
    - apply (mark_tail (map snd pre) (map Idx A) _ (nomark_map_idx _) EA).
    - exfalso. rewrite app_nil_r in EA. assert (Hin : In Mark (map Idx A)).
      { rewrite <- EA. apply in_or_app. right. left. reflexivity. }
      apply in_map_iff in Hin. destruct Hin as (x & F & _). discriminate. }
  apply app_eq_nil in Y. destruct Y as (Y1 & Y2).
  rewrite Cp, cinds_itemsX, Y2. unfold owedE, owed_main. rewrite Hk, Ep, last_last, Y1. reflexivity.
Qed.

(* a dead node: what does not depend on how far its end marker has travelled *)
Record NDX (es : estate) (n : nat) (L : list sig) (w : wst) : Prop := {
  ndx_chan : chan_ok (prank (wph w)) L;
  ndx_nodes : In n (e_nodes es) -> ~ In SgReady L /\ wph w <> PBoot;
  ndx_cf : In n (akeys (e_n2c es)) \/ In n (e_started es) -> ~ In SgReady L /\ ~ In SgCF L /\ 2 <= prank (wph w);
  ndx_rdy : forall f, aget n (e_nt es) = Some f -> In SgReady L \/ wph w = PBoot -> n_sdsent f = false;
  ndx_ph : wph w <> PExited;
  (* what it started before it died is an initial part of an interval of its collection *)
  ndx_ran : exists a rest, seq a ((Kf n) - a) = ran_idx w ++ rest;
  (* a node that the scheduler has not started has not started any test *)
  ndx_ns : ~ In n (e_started es) -> ran_idx w = [];
}.

(* the book of a dead node whose errordown is still to come *)
Definition NDXcpl (es : estate) (n : nat) (L : list sig) (w : wst) : Prop :=
  exists lost, bkE es n = completes L ++ owedE (Kf n) w ++ lost.

Lemma NDX_of_NEX es act ss n L dn w : WInv w -> NEX es act ss n L dn w -> wph w <> PExited -> NDX es n L w.
Proof.
  intros I [(f & Ef & Mk & Rd) Cp Ch Nd Nc Ac Fm Wx Fx G] Hp. constructor; try assumption.
  - intros g Eg. assert (g = f) by congruence. subst g. exact Rd.
  - eapply stream_x_safe; eauto.
  - intros Hns. destruct Mk as (A & EA & [->|(F & _)]).
    + destruct (started_prefix_popped w I) as (more & Em). fold (ran_idx w) in Em.
      apply (f_equal item_inds) in EA. unfold wstr in EA. rewrite !item_inds_app, <- ents_idx_items, Em in EA.
      cbn [map item_inds flat_map app] in EA. rewrite <- !app_assoc in EA.
      destruct (ran_idx w); [reflexivity|]. exfalso.
      assert (Z : item_inds (if n_sdsent f then [Mark] else []) = []) by (destruct (n_sdsent f); reflexivity).
      rewrite Z in EA. discriminate.
    + exfalso. apply Hns. apply mem_nat_In. exact F.
Qed.

Lemma NDXcpl_of_NEX es act ss n L dn w : NEX es act ss n L dn w -> NDXcpl es n L w.
Proof. intros X. exists (flat_map (cinds collf n) dn). exact (nx_coupled _ _ _ _ _ _ _ X). Qed.

Lemma NDX_nofin es n L w b : NDX es n L w -> ~ In (SgFin b) L.
Proof.
  intros [Ch _ _ _ Hp _ _] Hin. pose proof (chan_ok_in _ _ _ Ch Hin) as P. cbn in P. unfold prec in P.
  assert (H4 : 4 <= prank (wph w)) by lia. apply prank_4 in H4. contradiction.
Qed.

Lemma NDX_ctl N ev d es d' es' vo n L' w :
  HEFFx N collf ev d es d' es' vo -> n < d_next_gw d ->
  (In n (e_started es) -> In n (e_started es')) ->
  NDX es n (ev_sigs_for n ev ++ L') w -> NDX es' n L' w.
Proof.
  intros E HnG Hst [Ch Nd Nc Rd Hp Rn Ns].
  assert (Hsub : forall g, In g L' -> In g (ev_sigs_for n ev ++ L')) by (intros g Hg; apply in_or_app; right; exact Hg).
  assert (Ch' : chan_ok (prank (wph w)) L').
  { unfold ev_sigs_for in Ch. destruct (ev_sig ev) as [[m g]|]; [|exact Ch].
    destruct (Nat.eqb m n); [|exact Ch]. eapply chan_ok_tail. exact Ch. }
  constructor.
  - exact Ch'.
  - intros Hin. destruct (hx_nodes _ _ _ _ _ _ _ _ E n Hin) as [Hold|Hev].
    + destruct (Nd Hold) as (A & B). split; [|exact B]. intros Hi. apply A. apply Hsub. exact Hi.
    + unfold ev_sigs_for in Ch. rewrite Hev, Nat.eqb_refl in Ch. cbn [app] in Ch.
      destruct (chan_ok_ready_head _ _ Ch) as (A & B). split; [exact A|].
      intros Ep. rewrite Ep in B. cbn in B. lia.
  - intros Hin. destruct (hx_cf _ _ _ _ _ _ _ _ E n Hin) as [Hold|[Hold|Hev]].
    + destruct (Nc (or_introl Hold)) as (A & B & C). split; [|split; [|exact C]]; intros Hi; [apply A|apply B]; apply Hsub; exact Hi.
    + destruct (Nc (or_intror Hold)) as (A & B & C). split; [|split; [|exact C]]; intros Hi; [apply A|apply B]; apply Hsub; exact Hi.
    + unfold ev_sigs_for in Ch. rewrite Hev, Nat.eqb_refl in Ch. cbn [app] in Ch.
      exact (chan_ok_cf_head' _ _ Ch).
  - intros f' Ef' Hr. destruct (n_sdsent f') eqn:Es'; [|reflexivity]. exfalso.
    pose proof (hx_fx _ _ _ _ _ _ _ _ E n HnG) as R. rewrite Ef' in R.
    destruct (aget n (e_nt es)) as [f|] eqn:Ef; [|destruct R]. cbn [FXo] in R.
    assert (Hs0 : n_sdsent f = false).
    { apply (Rd f eq_refl). destruct Hr as [Hr|Hr]; [left; apply Hsub; exact Hr|right; exact Hr]. }
    destruct (hx_sdn _ _ _ _ _ _ _ _ E n f f' Ef Ef' Hs0 Es') as [Hin|Hev].
    + destruct (Nd Hin) as (A & B). destruct Hr as [Hr|Hr]; [apply A; apply Hsub; exact Hr|contradiction].
    + unfold ev_sigs_for in Ch. rewrite Hev, Nat.eqb_refl in Ch. cbn [app] in Ch.
      destruct (chan_ok_ready_head _ _ Ch) as (A & B). destruct Hr as [Hr|Hr]; [exact (A Hr)|].
      rewrite Hr in B. cbn in B. lia.
  - exact Hp.
  - exact Rn.
  - intros Hns. apply Ns. intros Hin. apply Hns. apply Hst. exact Hin.
Qed.

Lemma NDXcpl_ctl ev es es' n L' w x :
  bkE es' n = bookmid ev n (bkE es n) ++ x ->
  NDXcpl es n (ev_sigs_for n ev ++ L') w -> NDXcpl es' n L' w.
Proof.
  intros HBK (lost & Cp). exists (lost ++ x). rewrite HBK, Cp, bookmid_sigs, <- !app_assoc. reflexivity.
Qed.

Lemma NDX_ext es es' n L w :
  e_n2p es' = e_n2p es -> e_n2c es' = e_n2c es -> e_started es' = e_started es ->
  (forall f', aget n (e_nt es') = Some f' -> exists f, aget n (e_nt es) = Some f /\ n_sdsent f' = n_sdsent f) ->
  NDX es n L w -> NDX es' n L w.
Proof.
  intros Ep Ec Est Hf [Ch Nd Nc Rd Hp Rn Ns]. constructor; auto.
  - unfold e_nodes; rewrite Ep; exact Nd.
  - rewrite Ec, Est; exact Nc.
  - intros f' Ef' Hr. destruct (Hf f' Ef') as (f & Ef & ->). apply (Rd f Ef Hr).
  - rewrite Est. exact Ns.
Qed.

Lemma NDXcpl_ext es es' n L w : e_n2p es' = e_n2p es -> NDXcpl es n L w -> NDXcpl es' n L w.
Proof. intros Ep (lost & Cp). exists lost. unfold bkE in *. rewrite Ep. exact Cp. Qed.
End NodeX.

(* ====================================================================================== *)
(* D.2 the controller's receiver thread                                                    *)
(* ====================================================================================== *)
Definition upd_flagE (es : estate) (n : nat) (f' : nctl) : estate := e_set_nt es (aset n f' (e_nt es)).

Lemma d_set_nt_schedE d es n f' :
  d_sched d = StE es -> d_sched (d_set_nt d (aset n f' (d_nt d))) = StE (upd_flagE es n f').
Proof. intros E. unfold d_set_nt, d_nt. rewrite E. reflexivity. Qed.

Lemma aget_upd_flagE es n f' m :
  aget m (e_nt (upd_flagE es n f')) = if Nat.eqb m n then Some f' else aget m (e_nt es).
Proof. unfold upd_flagE. cbn [e_nt e_set_nt]. apply ea_get_set. Qed.

(* changing the down/closed flags of a node does not concern the controller's invariant *)
Lemma DXb_flag N collf d es n f f' :
  DXb N collf d es -> aget n (e_nt es) = Some f -> n_sdsent f' = n_sdsent f ->
  DXb N collf (d_set_nt d (aset n f' (d_nt d))) (upd_flagE es n f').
Proof.
  intros ([Els J Rq Act Fn K1 H1 H2 Jbb] & Jb) Ef Hs.
  assert (KEY : forall m, aget m (e_nt (upd_flagE es n f')) <> None <-> aget m (e_nt es) <> None).
  { intros m. rewrite aget_upd_flagE. destruct (Nat.eqb m n) eqn:E; [|reflexivity].
    apply Nat.eqb_eq in E. subst m. rewrite Ef. split; intros; discriminate. }
  assert (SD : forall m g', aget m (e_nt (upd_flagE es n f')) = Some g' ->
                 exists g, aget m (e_nt es) = Some g /\ n_sdsent g' = n_sdsent g).
  { intros m g'. rewrite aget_upd_flagE. destruct (Nat.eqb m n) eqn:E.
    - apply Nat.eqb_eq in E. subst m. intros X. inv X. eauto.
    - intros X. eauto. }
  assert (RE : reason (d_set_nt d (aset n f' (d_nt d))) (upd_flagE es n f') = reason d es) by reflexivity.
  unfold d_set_nt. split.
  - constructor; cbn [d_set_sched d_sched d_next_gw d_shouldstop d_shuttingdown d_active d_requeue d_failed_nodes].
    + unfold d_nt. rewrite Els. reflexivity.
    + destruct J. constructor; auto. intros m. rewrite KEY. auto.
    + exact Rq.
    + exact Act.
    + exact Fn.
    + intros Hr m g' Hm Eg' Hsd. destruct (SD m g' Eg') as (g & Eg & E). rewrite E in Hsd. apply (K1 Hr m g Hm Eg Hsd).
    + exact H1.
    + exact H2.
    + exact Jbb.
  - exact Jb.
Qed.

Definition down_flagE (f : nctl) : nctl :=
  {| n_spec := n_spec f; n_down := true; n_sdsent := n_sdsent f; n_closed := n_closed f |}.

(* process_from_remote for a known node: never raises; queues the signal it read (when the node is
   still heard); the end marker of a node that is not down yet queues its errordown *)
Lemma pfr_effX X0 G n m d es f d' o r :
  d_sched d = StE es -> aget n (e_nt es) = Some f -> ok_upx X0 n m -> n < G ->
  (n_down f = true -> up_sig m = [] /\ m <> UEnd) ->
  process_from_remote n m d = (d', o, r) ->
  o = [] /\ exists evs, r = Ok evs /\
    (d' = d \/ (d' = d_set_nt d (aset n (down_flagE f) (d_nt d)) /\ n_down f = false /\
                (m = UEnd \/ exists b, m = UEv (EFinished b)))) /\
    (forall k, evq_sigs k evs = if Nat.eqb n k then up_sig m else []) /\
    Forall (ok_evx X0 G) evs /\
    (m = UEnd -> n_down f = false -> evs = [QErrorDown n] /\ d' <> d) /\
    (m <> UEnd -> forall k, no_errd k evs).
Proof.
  intros Els Ef Hm HnG Hdn H.
  assert (Ent : d_nt d = e_nt es) by (unfold d_nt; rewrite Els; reflexivity).
  unfold process_from_remote in H. rewrite mbind_get, Ent, Ef in H. cbn [of_opt] in H. rewrite mbind_ret in H.
  assert (SG : forall (g : sig) k, (if Nat.eqb n k then [g] else []) ++ [] = if Nat.eqb n k then [g] else []).
  { intros g k. destruct (Nat.eqb n k); reflexivity. }
  assert (SN : forall k, @nil sig = if Nat.eqb n k then [] else []) by (intros k; destruct (Nat.eqb n k); reflexivity).
  assert (SAME : forall evs, (d, @nil out, Ok evs) = (d', o, r) -> m <> UEnd \/ n_down f = true ->
            (forall k, evq_sigs k evs = if Nat.eqb n k then up_sig m else []) -> Forall (ok_evx X0 G) evs ->
            (forall k, no_errd k evs) ->
            o = [] /\ exists evs, r = Ok evs /\
            (d' = d \/ (d' = d_set_nt d (aset n (down_flagE f) (d_nt d)) /\ n_down f = false /\
                        (m = UEnd \/ exists b, m = UEv (EFinished b)))) /\
            (forall k, evq_sigs k evs = if Nat.eqb n k then up_sig m else []) /\
            Forall (ok_evx X0 G) evs /\
            (m = UEnd -> n_down f = false -> evs = [QErrorDown n] /\ d' <> d) /\
            (m <> UEnd -> forall k, no_errd k evs)).
  { intros evs E Hne Hs Ho Hq. inv E. split; [reflexivity|]. exists evs.
    split; [reflexivity|]. split; [left; reflexivity|]. split; [exact Hs|]. split; [exact Ho|].
    split; [|intros _; exact Hq]. intros E1 E2. destruct Hne as [X|X]; [contradiction|congruence]. }
  destruct (n_down f) eqn:Edn.
  { assert (H' : (d, @nil out, Ok (@nil cevent)) = (d', o, r)).
    { destruct m as [e|ids|sk|i ms|dec| | |]; exact H. }
    eapply SAME; [exact H'|right; reflexivity| |constructor|intros k; apply no_errd_nil].
    intros k. destruct (Hdn eq_refl) as (E0 & _). rewrite E0. destruct (Nat.eqb n k); reflexivity. }
  assert (NEQ : d_set_nt d (aset n (down_flagE f) (d_nt d)) <> d).
  { intros F. assert (X : aget n (d_nt (d_set_nt d (aset n (down_flagE f) (d_nt d)))) = Some (down_flagE f)).
    { rewrite d_nt_set. apply ea_get_set_eq. }
    rewrite F, Ent, Ef in X. injection X as X. apply (f_equal n_down) in X. cbn in X. congruence. }
  assert (OK1 : forall ev, match ev with QUnscheduled _ _ | QInternalError _ | QFinished _ SKKbd => False
                                       | QCollFinish n0 ids0 => ids0 = X0 n0 | _ => True end ->
                match ev_node ev with Some m0 => m0 < G | None => True end -> Forall (ok_evx X0 G) [ev]).
  { intros ev A B. constructor; [split; assumption|constructor]. }
  assert (NE1 : forall ev, (forall k, is_errd k ev = false) -> forall k, no_errd k [ev]).
  { intros ev Hev k e [<-|[]]. apply Hev. }
  destruct m as [e|ids|sk|i ms|dec| | |]; cbn [ok_upx] in Hm; try contradiction.
  - destruct e as [| |ck cf| |li|ri rk roc|fi|ci|ux|stopreq]; cbn [ok_wev] in Hm; try contradiction; unfold ret in H.
    + eapply SAME; [exact H|left; discriminate| |apply OK1; cbn; auto|apply NE1; reflexivity]. intros k0. cbn. apply SG.
    + eapply SAME; [exact H|left; discriminate| |constructor|intros k; apply no_errd_nil]. intros k0. cbn. apply SN.
    + eapply SAME; [exact H|left; discriminate| |apply OK1; cbn; auto|apply NE1; reflexivity]. intros k0. cbn. apply SN.
    + eapply SAME; [exact H|left; discriminate| |constructor|intros k; apply no_errd_nil]. intros k0. cbn. apply SN.
    + eapply SAME; [exact H|left; discriminate| |apply OK1; cbn; auto|apply NE1; reflexivity]. intros k0. cbn. apply SN.
    + eapply SAME; [exact H|left; discriminate| |apply OK1; cbn; auto|apply NE1; reflexivity]. intros k0. cbn. apply SN.
    + eapply SAME; [exact H|left; discriminate| |apply OK1; cbn; auto|apply NE1; reflexivity]. intros k0. cbn. apply SN.
    + eapply SAME; [exact H|left; discriminate| |apply OK1; cbn; auto|apply NE1; reflexivity]. intros k0. cbn. apply SG.
    + rewrite mbind_put in H. unfold ret in H. inv H. split; [reflexivity|]. eexists. split; [reflexivity|].
      split. { right. rewrite Ent. split; [reflexivity|]. split; [reflexivity|]. right. eexists. reflexivity. }
      split. { intros k0. cbn. destruct stopreq; apply SG. }
      split. { apply OK1; [destruct stopreq; exact I|exact HnG]. }
      split; [intros F; discriminate|]. intros _. apply NE1. reflexivity.
  - unfold ret in H. eapply SAME; [exact H|left; discriminate| |apply OK1; cbn; auto|apply NE1; reflexivity]. intros k0. cbn. apply SG.
  - unfold ret in H. eapply SAME; [exact H|left; discriminate| |apply OK1; cbn; auto|apply NE1; reflexivity]. intros k0. cbn. apply SG.
  - rewrite mbind_put in H. unfold ret in H. inv H. split; [reflexivity|]. eexists. split; [reflexivity|].
    split. { right. rewrite Ent. split; [reflexivity|]. split; [reflexivity|]. left. reflexivity. }
    split. { intros k0. cbn. apply SN. }
    split. { apply OK1; [exact I|exact HnG]. }
    split; [|intros F; contradiction]. intros _ _. split; [reflexivity|]. rewrite <- Ent. exact NEQ.
Qed.

(* ====================================================================================== *)
(* D.3 the system invariant                                                                *)
(* ====================================================================================== *)
Section SysInvDefs.
Variable collf : nat -> list string.

(* how far the end marker of a dead worker has travelled *)
Inductive DeadStX (s : sys) (es : estate) (n : nat) (w : wst) : Prop :=
| DX_wire pre f :                       (* still on the wire: the worker is heard until it is read *)
    alist_get [] n (y_up s) = pre ++ [UEnd] -> no_end pre ->
    aget n (e_nt es) = Some f -> n_down f = false ->
    no_errd n (y_evq s) -> In n (d_active (y_d s)) ->
    NDXcpl collf es n (sigs s n) w -> DeadStX s es n w
| DX_queue q1 q2 :                      (* read: errordown is queued, behind every other event of the node *)
    alist_get [] n (y_up s) = [] ->
    y_evq s = q1 ++ QErrorDown n :: q2 -> evq_sigs n q2 = [] -> no_errd n q1 -> no_errd n q2 ->
    In n (d_active (y_d s)) ->
    NDXcpl collf es n (sigs s n) w -> DeadStX s es n w
| DX_done :                             (* errordown handled: the node is gone from the controller *)
    alist_get [] n (y_up s) = [] -> no_errd n (y_evq s) -> evq_sigs n (y_evq s) = [] ->
    ~ In n (d_active (y_d s)) -> ~ In n (e_nodes es) -> DeadStX s es n w.

Record ALX (s : sys) (es : estate) (n : nat) (w : wst) : Prop := {
  alx_ni : NEX collf es (d_active (y_d s)) (d_shouldstop (y_d s)) n (sigs s n) (alist_get [] n (y_down s)) w;
  alx_noend : no_end (alist_get [] n (y_up s));
  alx_noerr : no_errd n (y_evq s);
  alx_open : closedb (e_nt es) n = false;
  alx_down : forall f, aget n (e_nt es) = Some f -> n_down f = true ->
             flat_map up_sig (alist_get [] n (y_up s)) = [] /\ wph w = PExited;
}.

Record DDX (s : sys) (es : estate) (n : nat) (w : wst) : Prop := {
  ddx_c : NDX collf es n (sigs s n) w;
  ddx_st : DeadStX s es n w;
  ddx_dn : alist_get [] n (y_down s) = [];
}.

Definition NodeInvX (s : sys) (es : estate) (n : nat) (w : wst) : Prop :=
  WInv w /\ nogarb w /\
  (if mem_nat n (y_dead s) then DDX s es n w else ALX s es n w).

Lemma DeadStX_frame s s' es n w :
  y_d s' = y_d s -> y_evq s' = y_evq s ->
  alist_get [] n (y_up s') = alist_get [] n (y_up s) ->
  DeadStX s es n w -> DeadStX s' es n w.
Proof.
  intros Ed Eq Eu H. pose proof (sigs_ext s s' n Eq Eu) as Es.
  destruct H as [pre f A B C D E F G|q1 q2 A B C D E F G|A B C D E].
  - eapply DX_wire; rewrite ?Eu, ?Eq, ?Ed, ?Es; eauto.
  - eapply DX_queue; rewrite ?Eu, ?Eq, ?Ed, ?Es; eauto.
  - eapply DX_done; rewrite ?Eu, ?Eq, ?Ed; eauto.
Qed.

(* a step that does not concern node n *)
Lemma NodeInvX_other s s' es es' n w evs :
  e_n2p es' = e_n2p es -> e_n2c es' = e_n2c es -> e_started es' = e_started es ->
  aget n (e_nt es') = aget n (e_nt es) ->
  d_active (y_d s') = d_active (y_d s) -> d_shouldstop (y_d s') = d_shouldstop (y_d s) ->
  y_evq s' = y_evq s ++ evs -> evq_sigs n evs = [] -> no_errd n evs ->
  mem_nat n (y_dead s') = mem_nat n (y_dead s) ->
  alist_get [] n (y_up s') = alist_get [] n (y_up s) ->
  alist_get [] n (y_down s') = alist_get [] n (y_down s) ->
  NodeInvX s es n w -> NodeInvX s' es' n w.
Proof.
  intros Ep Ec Est Ef Ea Ess Eq Esg Hne Edd Eu Edn (A & C & D).
  assert (Es : sigs s' n = sigs s n).
  { unfold sigs. rewrite Eq, Eu, evq_sigs_app, Esg, app_nil_r. reflexivity. }
  split; [exact A|]. split; [exact C|]. rewrite Edd.
  destruct (mem_nat n (y_dead s)).
  - destruct D as [D1 D2 D3]. constructor; rewrite ?Es, ?Edn; auto.
    + eapply NDX_ext; eauto. intros f' Ef'. rewrite Ef in Ef'. eauto.
    + destruct D2 as [pre f X1 X2 X3 X4 X5 X6 X7|q1 q2 X1 X2 X3 X4 X5 X6 X7|X1 X2 X3 X4 X5].
      * eapply DX_wire; rewrite ?Eu, ?Eq, ?Ea, ?Es, ?Ef; eauto.
        -- apply no_errd_app. auto.
        -- eapply NDXcpl_ext; eauto.
      * eapply (DX_queue _ _ _ _ q1 (q2 ++ evs)); rewrite ?Eu, ?Eq, ?Ea, ?Es; eauto.
        -- rewrite X2, <- app_assoc. reflexivity.
        -- rewrite evq_sigs_app, X3, Esg. reflexivity.
        -- apply no_errd_app. auto.
        -- eapply NDXcpl_ext; eauto.
      * eapply DX_done; rewrite ?Eu, ?Eq, ?Ea; eauto.
        -- apply no_errd_app. auto.
        -- rewrite evq_sigs_app, X3, Esg. reflexivity.
        -- unfold e_nodes. rewrite Ep. exact X5.
  - destruct D as [D1 D3 D4 D5 D6]. constructor; rewrite ?Es, ?Edn, ?Eu, ?Ea, ?Ess; auto.
    + eapply NEX_flags_ext; [| | | |exact D1]; auto. intros f Hf. exists f. rewrite Ef. auto.
    + rewrite Eq. apply no_errd_app. auto.
    + unfold closedb in *. rewrite Ef. exact D5.
    + rewrite Ef. exact D6.
Qed.
End SysInvDefs.

Section SysX.
Variable c : config.
Notation N := (c_numnodes c).
Notation X0 := (c_coll c).
Hypothesis Hmode : c_mode c = MEach.
Hypothesis Hng : no_garbled c.
Hypothesis Hpos : 0 < N.
(* what `runtests_all` enumerates on a worker is the collection it reported (replacements included) *)
Hypothesis Hcoh : forall n, ncollected (c_oracle c n) = length (c_coll c n).
(* no plugin re-queues crash items (mark_test_pending is not implemented by EachScheduling) *)
Hypothesis Hrq : c_requeue c = 0.

Record XE (s : sys) : Prop := {
  xe_lo : forall m, m < d_next_gw (y_d s) -> aget m (y_w s) <> None;
  xe_hi : forall m, d_next_gw (y_d s) <= m ->
          aget m (y_w s) = None /\ alist_get [] m (y_up s) = [] /\ alist_get [] m (y_down s) = [];
  xe_dj : exists es, DXb N X0 (y_d s) es /\ forall n w, aget n (y_w s) = Some w -> NodeInvX X0 s es n w;
  xe_evq : Forall (ok_evx X0 (d_next_gw (y_d s))) (y_evq s);
  xe_up : forall n, Forall (ok_upx X0 n) (alist_get [] n (y_up s));
  xe_act : y_result s = None -> d_active (y_d s) <> [];
  xe_res : forall e, y_result s <> Some (RError e);
  xe_dead : forall n, In n (y_dead s) -> n < d_next_gw (y_d s);
  (* "finished" is only ever reported by a session that is shutting down without a stop request *)
  xe_fin : y_result s = Some RFinished ->
           d_session_finished (y_d s) = true /\ d_shouldstop (y_d s) = false;
}.

Lemma worker_ltX s n w : XE s -> aget n (y_w s) = Some w -> n < d_next_gw (y_d s).
Proof.
  intros X E. destruct (Nat.lt_ge_cases n (d_next_gw (y_d s))) as [H|H]; [exact H|].
  destruct (xe_hi _ X n H) as (F & _). congruence.
Qed.

Lemma aget_init_ntX n : aget n (init_nt c) <> None <-> n < N.
Proof.
  unfold init_nt. rewrite aget_In_keys, (akeys_map_seq (fun n => {| n_spec := c_spec c n; n_down := false; n_sdsent := false; n_closed := false |})).
  rewrite in_seq. lia.
Qed.

Lemma aget_init_nt_freshX n f : aget n (init_nt c) = Some f -> fresh_flags f.
Proof.
  unfold init_nt. induction (seq 0 N) as [|k l IH]; cbn; [discriminate|].
  destruct (Nat.eqb n k); [intros E; inv E; repeat split|exact IH].
Qed.

Lemma XE_init : XE (sys_init c).
Proof.
  assert (YW : forall n w, aget n (y_w (sys_init c)) = Some w -> n < N /\ w = w_init).
  { intros n w Ew. cbn [sys_init y_w] in Ew. pose proof (aget_some_in _ _ _ Ew) as Hk.
    rewrite (akeys_map_seq (fun _ => w_init)) in Hk. apply in_seq in Hk.
    apply aget_map_const in Ew. split; [lia|exact Ew]. }
  constructor.
  - cbn [sys_init y_d d_next_gw y_w]. intros m Hm. apply aget_In_keys.
    rewrite (akeys_map_seq (fun _ => w_init)). apply in_seq. lia.
  - cbn [sys_init y_d d_next_gw y_w y_up y_down]. intros m Hm. split; [|split; apply alist_get_map_nil].
    apply aget_none_keys. rewrite (akeys_map_seq (fun _ => w_init)). rewrite in_seq. lia.
  - cbn [sys_init y_d d_sched]. rewrite Hmode. cbn [s_init s_set_nt].
    eexists. split.
    + split.
      * constructor; cbn [d_sched d_next_gw d_shouldstop d_shuttingdown d_active d_requeue d_failed_nodes d_max_restart].
        -- reflexivity.
        -- constructor; cbn [e_set_nt e_init e_numnodes e_nt e_nodes e_n2p e_n2c e_started e_removed e_completed akeys map].
           ++ reflexivity.
           ++ apply aget_init_ntX.
           ++ intros n [].
           ++ constructor.
           ++ intros n [].
           ++ constructor.
           ++ intros k ids [].
           ++ intros _. cbn. exact Hpos.
           ++ intros _. split; [reflexivity|]. split; [reflexivity|]. intros n. reflexivity.
           ++ constructor.
           ++ intros d0 r0 F. discriminate.
           ++ discriminate.
           ++ intros m. apply nil_interval.
           ++ intros m F. exfalso. apply F. reflexivity.
           ++ intros m [].
        -- exact Hrq.
        -- intros n Hn. apply in_seq in Hn. lia.
        -- lia.
        -- intros _ n f [].
        -- discriminate.
        -- unfold exhausted. cbn [d_max_restart d_failed_nodes]. destruct (c_max_restart c); [|discriminate].
           rewrite andb_false_r. discriminate.
        -- intros _ n [].
      * unfold reason, exhausted. cbn [d_max_restart d_failed_nodes d_shouldstop d_shuttingdown e_tests_finished e_completed e_set_nt e_init].
        destruct (c_max_restart c); [rewrite andb_false_r|]; cbn; discriminate.
    + intros n w Ew. destruct (YW n w Ew) as (HnN & ->).
      assert (Esg : sigs (sys_init c) n = []).
      { unfold sigs. cbn [sys_init y_evq y_up]. rewrite alist_get_map_nil. reflexivity. }
      split; [apply winv_init|]. split; [exact Logic.I|].
      cbn [sys_init y_dead mem_nat existsb].
      constructor; rewrite ?Esg; cbn [sys_init y_down y_up y_evq y_d d_active d_shouldstop]; rewrite ?alist_get_map_nil.
      * constructor; cbn [e_set_nt e_init e_nt e_nodes e_n2p e_n2c e_started akeys map w_init wph prank winbox].
        -- destruct (aget n (init_nt c)) as [f|] eqn:Ef.
           ++ exists f. split; [reflexivity|]. destruct (aget_init_nt_freshX n f Ef) as (S1 & _). rewrite S1.
              split; [apply stream_x_nil|auto].
           ++ exfalso. apply (proj2 (aget_init_ntX n)); [lia|exact Ef].
        -- reflexivity.
        -- apply chan_ok_nil.
        -- intros [].
        -- intros [[]|[]].
        -- intros F. exfalso. apply F. apply in_seq. lia.
        -- intros [[]|F]; discriminate.
        -- apply WX_init.
        -- intros [F|(b & F)]; discriminate.
        -- split; constructor.
      * intros [].
      * apply no_errd_nil.
      * unfold closedb. cbn [e_set_nt e_init e_nt]. destruct (aget n (init_nt c)) as [f|] eqn:Ef; [|reflexivity].
        apply (aget_init_nt_freshX n f Ef).
      * cbn [e_set_nt e_init e_nt]. intros f Ef Hd. destruct (aget_init_nt_freshX n f Ef) as (_ & F & _). congruence.
  - constructor.
  - intros n. cbn [sys_init y_up]. rewrite alist_get_map_nil. constructor.
  - intros _. cbn [sys_init y_d d_active]. destruct N; [lia|]. cbn. discriminate.
  - intros e. cbn. discriminate.
  - intros n [].
  - cbn. discriminate.
Qed.

(* ---- LDeliver ---- *)
Lemma step_deliverX s n0 cmd rest w0 :
  XE s -> mem_nat n0 (y_dead s) = false ->
  aget n0 (y_down s) = Some (cmd :: rest) -> aget n0 (y_w s) = Some w0 ->
  XE {| y_d := y_d s; y_evq := y_evq s; y_down := aset n0 rest (y_down s); y_up := y_up s;
        y_w := aset n0 (deliver w0 cmd) (y_w s); y_dead := y_dead s; y_result := y_result s |}.
Proof.
  intros X Hd Ed Ew. pose proof X as [Lo Hi (es & DJd & NIs) Eq Eu Ea Er Edead Efin].
  pose proof (worker_ltX s n0 w0 X Ew) as HnG.
  set (s' := {| y_d := y_d s; y_evq := y_evq s; y_down := aset n0 rest (y_down s); y_up := y_up s;
          y_w := aset n0 (deliver w0 cmd) (y_w s); y_dead := y_dead s; y_result := y_result s |}).
  constructor; unfold s'; cbn [y_d y_evq y_down y_up y_w y_dead y_result].
  - intros m Hm. rewrite ea_get_set. destruct (Nat.eqb m n0); [discriminate|apply Lo; exact Hm].
  - intros m Hm. destruct (Hi m Hm) as (A & B & C). assert (m <> n0) by lia.
    rewrite ea_get_set_neq, ea_alist_get_set_neq by assumption. auto.
  - exists es. split; [exact DJd|]. intros n w Hw. destruct (Nat.eq_dec n n0) as [->|Hn].
    + rewrite ea_get_set_eq in Hw. inv Hw. destruct (NIs n0 w0 Ew) as (A & C & D). rewrite Hd in D.
      destruct D as [D1 D3 D4 D5 D6]. rewrite (ea_alist_get_some [] _ _ _ Ed) in D1.
      destruct (deliver_each 0 w0 cmd) as (_ & Ep & _).
      split; [apply upd_recv_inv; exact A|].
      split; [eapply nogarb_ph; [exact Ep|exact C]|]. cbn [y_dead]. rewrite Hd.
      constructor; cbn [y_d y_evq y_down y_up]; rewrite ?ea_alist_get_set_eq.
      * apply NEX_deliver. exact D1.
      * exact D3.
      * exact D4.
      * exact D5.
      * rewrite Ep. exact D6.
    + rewrite ea_get_set_neq in Hw by exact Hn.
      apply (NodeInvX_other X0 s s' es es n w []); auto.
      * cbn. rewrite app_nil_r. reflexivity.
      * apply no_errd_nil.
      * cbn [s' y_down]. apply ea_alist_get_set_neq. exact Hn.
  - exact Eq.
  - exact Eu.
  - exact Ea.
  - exact Er.
  - exact Edead.
  - exact Efin.
Qed.

(* ---- a worker step that pushes events onto its wire ---- *)
Lemma up_of_wevent_not_endX n e : up_of_wevent c n e <> UEnd.
Proof. destruct e; cbn; try discriminate. destruct oc; discriminate. Qed.

Lemma step_pushX s n0 w0 w' evs :
  XE s -> mem_nat n0 (y_dead s) = false -> aget n0 (y_w s) = Some w0 ->
  WInv w' -> nogarb w' ->
  Forall (fun e => is_garbled e = false) evs -> Forall ok_wev evs ->
  (forall es, NEX X0 es (d_active (y_d s)) (d_shouldstop (y_d s)) n0 (sigs s n0) (alist_get [] n0 (y_down s)) w0 ->
     NEX X0 es (d_active (y_d s)) (d_shouldstop (y_d s)) n0 (sigs s n0 ++ flat_map we_sig evs) (alist_get [] n0 (y_down s)) w') ->
  (wph w0 = PExited -> wph w' = PExited /\ flat_map we_sig evs = []) ->
  XE (push_up (set_w s n0 w') n0 (map (up_of_wevent c n0) evs)).
Proof.
  intros X Hd Ew Iw NGw NGe Hok Hni Hex. pose proof X as [Lo Hi (es & DJd & NIs) Eq Eu Ea Er Edead Efin].
  pose proof (worker_ltX s n0 w0 X Ew) as HnG.
  set (s' := push_up (set_w s n0 w') n0 (map (up_of_wevent c n0) evs)).
  assert (Sg : sigs s' n0 = sigs s n0 ++ flat_map we_sig evs).
  { unfold sigs, s'. cbn [push_up set_w y_evq y_up]. rewrite ea_alist_get_set_eq, flat_map_app, up_sigs_of_wevents, app_assoc. reflexivity. }
  constructor; unfold s'; cbn [push_up set_w y_d y_evq y_down y_up y_w y_dead y_result].
  - intros m Hm. rewrite ea_get_set. destruct (Nat.eqb m n0); [discriminate|apply Lo; exact Hm].
  - intros m Hm. destruct (Hi m Hm) as (A & B & C). assert (m <> n0) by lia.
    rewrite ea_get_set_neq, ea_alist_get_set_neq by assumption. auto.
  - exists es. split; [exact DJd|]. intros n w Hw. destruct (Nat.eq_dec n n0) as [->|Hn].
    + rewrite ea_get_set_eq in Hw. inv Hw. destruct (NIs n0 w0 Ew) as (A & C & D). rewrite Hd in D.
      destruct D as [D1 D3 D4 D5 D6].
      split; [exact Iw|]. split; [exact NGw|]. cbn [push_up set_w y_dead]. rewrite Hd.
      constructor; fold s'; rewrite ?Sg; cbn [s' push_up set_w y_d y_evq y_down y_up]; rewrite ?ea_alist_get_set_eq; auto.
      * intros Hin. apply in_app_or in Hin. destruct Hin as [Hin|Hin]; [exact (D3 Hin)|].
        apply in_map_iff in Hin. destruct Hin as (e & He & _). exact (up_of_wevent_not_endX n0 e He).
      * intros f Ef Hdn. destruct (D6 f Ef Hdn) as (X1 & X2). destruct (Hex X2) as (Y1 & Y2).
        split; [|exact Y1]. rewrite flat_map_app, up_sigs_of_wevents, X1, Y2. reflexivity.
    + rewrite ea_get_set_neq in Hw by exact Hn.
      apply (NodeInvX_other X0 s s' es es n w []); auto.
      * cbn. rewrite app_nil_r. reflexivity.
      * apply no_errd_nil.
      * cbn [s' push_up set_w y_up]. apply ea_alist_get_set_neq. exact Hn.
  - exact Eq.
  - intros n. destruct (Nat.eq_dec n n0) as [->|Hn].
    + rewrite ea_alist_get_set_eq. apply Forall_app. split; [apply Eu|].
      apply Forall_forall. intros m Hm. apply in_map_iff in Hm. destruct Hm as (e & <- & He).
      rewrite Forall_forall in Hok, NGe. specialize (Hok e He). specialize (NGe e He).
      destruct e; cbn; auto. destruct oc; cbn; auto. discriminate.
    + rewrite ea_alist_get_set_neq by exact Hn. apply Eu.
  - exact Ea.
  - exact Er.
  - exact Edead.
  - exact Efin.
Qed.

(* ---- a worker process dies (LCrash, or entering a test that kills it) ---- *)
Lemma step_crashX s n0 w0 :
  XE s -> mem_nat n0 (y_dead s) = false -> aget n0 (y_w s) = Some w0 -> wph w0 <> PExited ->
  XE (crash_worker c s n0).
Proof.
  intros X Hd Ew Hph. pose proof X as [Lo Hi (es & DJd & NIs) Eq Eu Ea Er Edead Efin].
  pose proof (worker_ltX s n0 w0 X Ew) as HnG.
  pose proof DJd as ([Els J _ _ _ _ _ _ _] & _).
  destruct (aget n0 (e_nt es)) as [f0|] eqn:Ef0; [|exfalso; apply (proj2 (ex_ntk _ _ _ _ J n0) HnG); exact Ef0].
  set (s' := crash_worker c s n0).
  assert (DX : exists es' f0', DXb N X0 (y_d s') es' /\ e_n2p es' = e_n2p es /\ e_n2c es' = e_n2c es /\
             e_started es' = e_started es /\
             (forall n, n <> n0 -> aget n (e_nt es') = aget n (e_nt es)) /\
             aget n0 (e_nt es') = Some f0' /\ n_down f0' = n_down f0 /\ n_sdsent f0' = n_sdsent f0 /\
             d_active (y_d s') = d_active (y_d s) /\ d_shouldstop (y_d s') = d_shouldstop (y_d s) /\
             d_next_gw (y_d s') = d_next_gw (y_d s) /\ d_shuttingdown (y_d s') = d_shuttingdown (y_d s)).
  { unfold s', crash_worker. cbn [y_d]. destruct (c_strict c).
    - assert (Ent : d_nt (y_d s) = e_nt es) by (unfold d_nt; rewrite Els; reflexivity).
      rewrite Ent, Ef0. exists (upd_flagE es n0 (closed_flag f0)), (closed_flag f0).
      split. { rewrite <- Ent. fold (closed_flag f0). apply (DXb_flag N X0 _ es n0 f0); auto. }
      split; [reflexivity|]. split; [reflexivity|]. split; [reflexivity|].
      split. { intros n Hn. rewrite aget_upd_flagE. apply Nat.eqb_neq in Hn. rewrite Hn. reflexivity. }
      split. { rewrite aget_upd_flagE, Nat.eqb_refl. reflexivity. }
      repeat (split; [reflexivity|]). reflexivity.
    - exists es, f0. split; [exact DJd|]. repeat (split; [reflexivity|]).
      split; [exact Ef0|]. repeat (split; [reflexivity|]). reflexivity. }
  destruct DX as (es' & f0' & DJ2 & Ep & Ec & Est & Eoth & Ef0' & Edn0 & Esd0 & Eact & Ess & Egw & Esdd).
  destruct (NIs n0 w0 Ew) as (A0 & C0 & D0). rewrite Hd in D0. destruct D0 as [D1 D3 D4 D5 D6].
  assert (Sg0 : sigs s' n0 = sigs s n0).
  { unfold sigs, s', crash_worker. cbn [y_evq y_up]. rewrite ea_alist_get_set_eq, flat_map_app. cbn. rewrite app_nil_r. reflexivity. }
  constructor; rewrite ?Egw.
  - intros m Hm. unfold s', crash_worker. cbn [y_w]. apply Lo. exact Hm.
  - intros m Hm. destruct (Hi m Hm) as (A & B & C). assert (m <> n0) by lia.
    unfold s', crash_worker. cbn [y_w y_up y_down]. rewrite !ea_alist_get_set_neq by assumption. auto.
  - exists es'. split; [exact DJ2|]. intros n w Hw. change (y_w s') with (y_w s) in Hw.
    destruct (Nat.eq_dec n n0) as [->|Hn].
    + assert (w = w0) by congruence. subst w.
      split; [exact A0|]. split; [exact C0|].
      change (y_dead s') with (n0 :: y_dead s). rewrite mem_nat_cons, Nat.eqb_refl. cbn [orb].
      constructor; rewrite ?Sg0.
      * eapply NDX_ext; [exact Ep|exact Ec|exact Est| |eapply NDX_of_NEX; eauto].
        intros f' Ef'. exists f0. split; [exact Ef0|]. congruence.
      * eapply (DX_wire _ _ _ _ _ (alist_get [] n0 (y_up s)) f0'); rewrite ?Sg0, ?Eact.
        -- unfold s', crash_worker. cbn [y_up]. apply ea_alist_get_set_eq.
        -- exact D3.
        -- exact Ef0'.
        -- rewrite Edn0. apply not_true_false. intros F. destruct (D6 f0 Ef0 F) as (_ & P). contradiction.
        -- exact D4.
        -- destruct (in_dec Nat.eq_dec n0 (d_active (y_d s))) as [Hin|Hni]; [exact Hin|].
           destruct (nx_act _ _ _ _ _ _ _ _ D1 Hni) as (_ & P). contradiction.
        -- eapply NDXcpl_ext; [exact Ep|]. eapply NDXcpl_of_NEX; eauto.
      * unfold s', crash_worker. cbn [y_down]. apply ea_alist_get_set_eq.
    + apply (NodeInvX_other X0 s s' es es' n w []); auto; try apply no_errd_nil.
      * unfold s', crash_worker. cbn [y_evq]. rewrite app_nil_r. reflexivity.
      * change (y_dead s') with (n0 :: y_dead s). rewrite mem_nat_cons. apply Nat.eqb_neq in Hn. rewrite Hn. reflexivity.
      * unfold s', crash_worker. cbn [y_up]. apply ea_alist_get_set_neq. exact Hn.
      * unfold s', crash_worker. cbn [y_down]. apply ea_alist_get_set_neq. exact Hn.
  - exact Eq.
  - intros n. unfold s', crash_worker. cbn [y_up]. destruct (Nat.eq_dec n n0) as [->|Hn].
    + rewrite ea_alist_get_set_eq. apply Forall_app. split; [apply Eu|]. repeat constructor.
    + rewrite ea_alist_get_set_neq by exact Hn. apply Eu.
  - rewrite Eact. exact Ea.
  - exact Er.
  - intros n [<-|Hn]; [exact HnG|apply Edead; exact Hn].
  - intros Hf. change (y_result s' = Some RFinished) in Hf. change (y_result s') with (y_result s) in Hf.
    destruct (Efin Hf) as (F1 & F2). unfold d_session_finished. rewrite Esdd, Eact, Ess. auto.
Qed.


(* ---- the channel of a dead worker is closed once its end marker has been read ---- *)
Lemma close_if_dead_XE s n : XE s -> XE (close_if_dead s n).
Proof.
  intros X. unfold close_if_dead. destruct (mem_nat n (y_dead s)) eqn:Hd; [|exact X].
  destruct (aget n (d_nt (y_d s))) as [f|] eqn:Ef; [|exact X].
  destruct (n_down f) eqn:Edn; [|exact X].
  pose proof X as [Lo Hi (es & DJd & NIs) Eq Eu Ea Er Edead Efin].
  pose proof DJd as ([Els J _ _ _ _ _ _ _] & _).
  assert (Ent : d_nt (y_d s) = e_nt es) by (unfold d_nt; rewrite Els; reflexivity).
  set (fc := {| n_spec := n_spec f; n_down := true; n_sdsent := n_sdsent f; n_closed := true |}).
  set (s' := set_d s (d_set_nt (y_d s) (aset n fc (d_nt (y_d s))))).
  assert (Ef' : aget n (e_nt es) = Some f) by (rewrite <- Ent; exact Ef).
  constructor.
  - exact Lo.
  - exact Hi.
  - exists (upd_flagE es n fc). split; [apply (DXb_flag N X0 _ es n f); auto|].
    intros k w Hw. change (y_w s') with (y_w s) in Hw. destruct (Nat.eq_dec k n) as [->|Hk].
    + destruct (NIs n w Hw) as (A & C & D). split; [exact A|]. split; [exact C|].
      change (y_dead s') with (y_dead s). rewrite Hd in *. destruct D as [D1 D2 D3].
      constructor.
      * change (sigs s' n) with (sigs s n). eapply NDX_ext; [| | | |exact D1]; try reflexivity.
        intros f' Ef1. rewrite aget_upd_flagE, Nat.eqb_refl in Ef1. injection Ef1 as <-. exists f. auto.
      * destruct D2 as [pre g X1 X2 X3 X4 X5 X6 X7|q1 q2 X1 X2 X3 X4 X5 X6 X7|X1 X2 X3 X4 X5].
        -- exfalso. congruence.
        -- eapply (DX_queue _ _ _ _ _ q1 q2); eauto.
        -- eapply DX_done; eauto.
      * exact D3.
    + apply (NodeInvX_other X0 s s' es (upd_flagE es n fc) k w []); auto; try apply no_errd_nil.
      * rewrite aget_upd_flagE. apply Nat.eqb_neq in Hk. rewrite Hk. reflexivity.
      * cbn. rewrite app_nil_r. reflexivity.
  - exact Eq.
  - exact Eu.
  - exact Ea.
  - exact Er.
  - exact Edead.
  - exact Efin.
Qed.

(* ---- LRecv: the controller's receiver thread reads one message ---- *)
Lemma step_recvX s n0 m rest d' outs r :
  XE s -> aget n0 (y_up s) = Some (m :: rest) ->
  process_from_remote n0 m (y_d s) = (d', outs, r) ->
  outs = [] /\ exists evs, r = Ok evs /\
  XE (set_evq (set_d {| y_d := y_d s; y_evq := y_evq s; y_down := y_down s; y_up := aset n0 rest (y_up s);
                        y_w := y_w s; y_dead := y_dead s; y_result := y_result s |} d') (y_evq s ++ evs)) /\
  d_active d' = d_active (y_d s) /\ d_shouldstop d' = d_shouldstop (y_d s) /\ d_next_gw d' = d_next_gw (y_d s) /\
  (forall es, d_sched (y_d s) = StE es -> exists es', d_sched d' = StE es' /\ e_n2p es' = e_n2p es /\
     e_n2c es' = e_n2c es /\ e_started es' = e_started es /\ e_removed es' = e_removed es) /\
  (forall k, evq_sigs k (y_evq s ++ evs) ++ flat_map up_sig (alist_get [] k (aset n0 rest (y_up s))) = sigs s k).
Proof.
  intros X Eup Ep. pose proof X as [Lo Hi (es & DJd & NIs) Eq Eu Ea Er Edead Efin].
  pose proof DJd as ([Els J _ _ _ _ _ _ _] & _).
  pose proof (ea_alist_get_some [] _ _ _ Eup) as Eup'.
  assert (HnG : n0 < d_next_gw (y_d s)).
  { destruct (Nat.lt_ge_cases n0 (d_next_gw (y_d s))) as [H|H]; [exact H|].
    destruct (Hi n0 H) as (_ & F & _). rewrite Eup' in F. discriminate. }
  destruct (aget n0 (y_w s)) as [w0|] eqn:Ew; [|exfalso; exact (Lo n0 HnG Ew)].
  destruct (aget n0 (e_nt es)) as [f|] eqn:Ef; [|exfalso; apply (proj2 (ex_ntk _ _ _ _ J n0) HnG); exact Ef].
  destruct (NIs n0 w0 Ew) as (A0 & C0 & D0).
  pose proof (Eu n0) as En. rewrite Eup' in En. inversion En as [|m1 r1 Gm Gr]; subst.
  assert (Hdn : n_down f = true -> up_sig m = [] /\ m <> UEnd).
  { intros Hd1. destruct (mem_nat n0 (y_dead s)).
    - destruct D0 as [_ D2 _]. destruct D2 as [pre g X1 X2 X3 X4 X5 X6 X7|q1 q2 X1 _ _ _ _ _ _|X1 _ _ _ _]; try congruence.
    - destruct D0 as [_ D3 _ _ D6]. destruct (D6 f Ef Hd1) as (Y1 & _). rewrite Eup' in Y1, D3.
      cbn [flat_map] in Y1. apply app_eq_nil in Y1. split; [tauto|]. intros ->. apply D3. left. reflexivity. }
  destruct (pfr_effX X0 _ _ _ _ _ _ _ _ _ Els Ef Gm HnG Hdn Ep) as (-> & evs & -> & Hd' & Hsig & Hok & Hend & Hnoend).
  split; [reflexivity|]. exists evs. split; [reflexivity|].
  set (s' := set_evq (set_d {| y_d := y_d s; y_evq := y_evq s; y_down := y_down s; y_up := aset n0 rest (y_up s);
                          y_w := y_w s; y_dead := y_dead s; y_result := y_result s |} d') (y_evq s ++ evs)).
  assert (Ent : d_nt (y_d s) = e_nt es) by (unfold d_nt; rewrite Els; reflexivity).
  assert (DX : exists esA fA, DXb N X0 d' esA /\ e_n2p esA = e_n2p es /\ e_n2c esA = e_n2c es /\ e_started esA = e_started es /\
             (forall k, k <> n0 -> aget k (e_nt esA) = aget k (e_nt es)) /\
             aget n0 (e_nt esA) = Some fA /\ n_sdsent fA = n_sdsent f /\ n_closed fA = n_closed f /\
             (n_down fA = true -> n_down f = true \/ m = UEnd \/ exists b, m = UEv (EFinished b)) /\
             (n_down f = true -> n_down fA = true) /\
             d_active d' = d_active (y_d s) /\ d_shouldstop d' = d_shouldstop (y_d s) /\
             d_next_gw d' = d_next_gw (y_d s) /\ d_shuttingdown d' = d_shuttingdown (y_d s) /\ (d' = y_d s -> fA = f)).
  { destruct Hd' as [->|(-> & Hf & Hm)].
    - exists es, f. split; [exact DJd|]. repeat (split; [reflexivity|]).
      split; [exact Ef|]. repeat (split; [reflexivity|]). split; [auto|]. split; [auto|]. repeat (split; [reflexivity|]). reflexivity.
    - exists (upd_flagE es n0 (down_flagE f)), (down_flagE f).
      split; [apply (DXb_flag N X0 _ es n0 f); auto|]. split; [reflexivity|]. split; [reflexivity|]. split; [reflexivity|].
      split. { intros k Hk. rewrite aget_upd_flagE. apply Nat.eqb_neq in Hk. rewrite Hk. reflexivity. }
      split. { rewrite aget_upd_flagE, Nat.eqb_refl. reflexivity. }
      split; [reflexivity|]. split; [reflexivity|]. split; [intros _; right; exact Hm|]. split; [reflexivity|].
      split; [reflexivity|]. split; [reflexivity|]. split; [reflexivity|]. split; [reflexivity|].
      intros F. exfalso.
      assert (Xq : aget n0 (d_nt (d_set_nt (y_d s) (aset n0 (down_flagE f) (d_nt (y_d s))))) = Some (down_flagE f)).
      { rewrite d_nt_set. apply ea_get_set_eq. }
      rewrite F, Ent, Ef in Xq. injection Xq as Xq. apply (f_equal n_down) in Xq. cbn in Xq. congruence. }
  destruct DX as (esA & fA & DJA & EpA & EcA & EstA & Eoth & EfA & EsdA & EclA & EdnA & EdnA' & Eact & Ess & Egw & Esdd & Esame).
  assert (Esg : sigs s' n0 = sigs s n0).
  { unfold sigs, s'. cbn [set_evq set_d y_evq y_up]. rewrite ea_alist_get_set_eq, evq_sigs_app, Hsig, Nat.eqb_refl, Eup'.
    cbn [flat_map]. rewrite <- app_assoc. reflexivity. }
  assert (NE : forall k, k <> n0 -> no_errd k evs).
  { intros k Hk. destruct m; try (apply Hnoend; discriminate).
    destruct (n_down f) eqn:Edn; [destruct (Hdn eq_refl) as (_ & F); exfalso; apply F; reflexivity|].
    destruct (Hend eq_refl eq_refl) as (-> & _). intros ev [<-|[]]. cbn. apply Nat.eqb_neq. congruence. }
  assert (SGS : forall k, evq_sigs k (y_evq s ++ evs) ++ flat_map up_sig (alist_get [] k (aset n0 rest (y_up s))) = sigs s k).
  { intros k. destruct (Nat.eq_dec k n0) as [->|Hk]; [exact Esg|].
    unfold sigs. rewrite evq_sigs_app, Hsig. apply Nat.eqb_neq in Hk. rewrite Nat.eqb_sym, Hk, app_nil_r.
    apply Nat.eqb_neq in Hk. rewrite ea_alist_get_set_neq by exact Hk. reflexivity. }
  split; [|split; [exact Eact|split; [exact Ess|split; [exact Egw|split; [|exact SGS]]]]].
  2:{ intros es0 E0. assert (es0 = es) by congruence. subst es0. exists esA.
      destruct DJA as ([ElsA _ _ _ _ _ _ _ _] & _). split; [exact ElsA|]. split; [exact EpA|]. split; [exact EcA|]. split; [exact EstA|].
      (* the receiver thread never touches _removed2pending *)
      destruct Hd' as [->|(-> & _)].
      - assert (esA = es) by congruence. subst esA. reflexivity.
      - rewrite (d_set_nt_schedE _ es n0 (down_flagE f) Els) in ElsA. injection ElsA as <-. reflexivity. }
  constructor; unfold s'; cbn [set_evq set_d y_d y_evq y_down y_up y_w y_dead y_result]; rewrite ?Egw.
  - exact Lo.
  - intros k Hk. destruct (Hi k Hk) as (A & B & C). assert (k <> n0) by lia.
    rewrite ea_alist_get_set_neq by assumption. auto.
  - exists esA. split; [exact DJA|]. intros k w Hw. destruct (Nat.eq_dec k n0) as [->|Hk].
    + assert (w = w0) by congruence. subst w.
      split; [exact A0|]. split; [exact C0|]. cbn [set_evq set_d y_dead].
      destruct (mem_nat n0 (y_dead s)) eqn:Hdd; rewrite ?Hdd in D0.
      * (* a dead worker: its last messages, then its end marker *)
        destruct D0 as [D1 D2 D3]. constructor; fold s'; rewrite ?Esg.
        -- eapply NDX_ext; [exact EpA|exact EcA|exact EstA| |exact D1].
           intros f' Ef1. exists f. split; [exact Ef|]. congruence.
        -- destruct D2 as [pre g X1 X2 X3 X4 X5 X6 X7|q1 q2 X1 _ _ _ _ _ _|X1 _ _ _ _]; try congruence.
           assert (g = f) by congruence. subst g. rewrite Eup' in X1.
           destruct pre as [|m' pre'].
           ++ cbn [app] in X1. inv X1. destruct (Hend eq_refl X4) as (-> & _).
              eapply (DX_queue _ _ _ _ _ (y_evq s) []); rewrite ?Esg.
              ** unfold s'. cbn [set_evq set_d y_up]. apply ea_alist_get_set_eq.
              ** reflexivity.
              ** reflexivity.
              ** exact X5.
              ** apply no_errd_nil.
              ** unfold s'. cbn [set_evq set_d y_d]. rewrite Eact. exact X6.
              ** eapply NDXcpl_ext; [exact EpA|exact X7].
           ++ cbn [app] in X1. inv X1.
              assert (Hne : m' <> UEnd) by (intros ->; apply X2; left; reflexivity).
              assert (Edd : d' = y_d s).
              { destruct Hd' as [E|(_ & _ & [E|(b & E)])]; [exact E|contradiction|]. subst m'. exfalso.
                apply (NDX_nofin _ _ _ _ _ b D1). unfold sigs. rewrite Eup'. apply in_or_app. right. cbn. left. reflexivity. }
              rewrite (Esame Edd) in EfA.
              eapply (DX_wire _ _ _ _ _ pre' f); rewrite ?Esg.
              ** unfold s'. cbn [set_evq set_d y_up]. apply ea_alist_get_set_eq.
              ** intros F. apply X2. right. exact F.
              ** exact EfA.
              ** exact X4.
              ** unfold s'. cbn [set_evq set_d y_evq]. apply no_errd_app. split; [exact X5|apply Hnoend; exact Hne].
              ** unfold s'. cbn [set_evq set_d y_d]. rewrite Eact. exact X6.
              ** eapply NDXcpl_ext; [exact EpA|exact X7].
        -- exact D3.
      * (* an alive worker *)
        destruct D0 as [D1 D3 D4 D5 D6]. rewrite Eup' in D3.
        assert (Hne : m <> UEnd) by (intros ->; apply D3; left; reflexivity).
        constructor; fold s'; rewrite ?Esg; unfold s'; cbn [set_evq set_d y_d y_evq y_down y_up]; rewrite ?Eact, ?Ess, ?ea_alist_get_set_eq.
        -- eapply NEX_flags_ext; [| | | |exact D1]; auto. intros g Eg. assert (g = f) by congruence. subst g. exists fA. auto.
        -- intros F. apply D3. right. exact F.
        -- apply no_errd_app. split; [exact D4|apply Hnoend; exact Hne].
        -- unfold closedb in *. rewrite EfA, EclA. rewrite Ef in D5. exact D5.
        -- intros g Eg Hg. assert (g = fA) by congruence. subst g.
           destruct (EdnA Hg) as [Hd0|[F|(b & ->)]]; [|contradiction|].
           ++ destruct (D6 f Ef Hd0) as (Y1 & Y2). rewrite Eup' in Y1. cbn [flat_map] in Y1. apply app_eq_nil in Y1. tauto.
           ++ pose proof (nx_chan _ _ _ _ _ _ _ _ D1) as Ch. unfold sigs in Ch.
              rewrite Eup' in Ch. cbn [flat_map up_sig we_sig app] in Ch.
              destruct (chan_ok_fin_mid _ _ _ _ Ch) as (Y1 & Y2). split; [exact Y1|apply prank_4; exact Y2].
    + apply (NodeInvX_other X0 s s' es esA k w evs); auto.
      * specialize (Hsig k). apply Nat.eqb_neq in Hk. rewrite Nat.eqb_sym, Hk in Hsig. exact Hsig.
      * unfold s'. cbn [set_evq set_d y_up]. apply ea_alist_get_set_neq. exact Hk.
  - apply Forall_app. split; [exact Eq|exact Hok].
  - intros k. destruct (Nat.eq_dec k n0) as [->|Hk].
    + rewrite ea_alist_get_set_eq. exact Gr.
    + rewrite ea_alist_get_set_neq by exact Hk. apply Eu.
  - rewrite Eact. exact Ea.
  - exact Er.
  - exact Edead.
  - intros Hf. destruct (Efin Hf) as (F1 & F2). unfold d_session_finished. rewrite Esdd, Eact, Ess. auto.
Qed.


(* ---- the preconditions of the handlers follow from the invariant ---- *)
Lemma bkE_consX es n i rest : bkE es n = i :: rest -> aget n (e_n2p es) = Some (i :: rest).
Proof. unfold bkE, alist_get. destruct (aget n (e_n2p es)); intros E; [congruence|discriminate]. Qed.

(* what the node whose signal heads the queue looks like *)
Lemma head_nodeX s es ev q n g :
  XE s -> (forall n w, aget n (y_w s) = Some w -> NodeInvX X0 s es n w) ->
  y_evq s = ev :: q -> ev_sig ev = Some (n, g) ->
  exists w L, aget n (y_w s) = Some w /\ sigs s n = g :: L /\ In n (d_active (y_d s)) /\
    ((mem_nat n (y_dead s) = false /\
      NEX X0 es (d_active (y_d s)) (d_shouldstop (y_d s)) n (g :: L) (alist_get [] n (y_down s)) w) \/
     (mem_nat n (y_dead s) = true /\ NDX X0 es n (g :: L) w /\ NDXcpl X0 es n (g :: L) w)).
Proof.
  intros X NIs Eq Eg. pose proof X as [Lo Hi _ Eok _ _ _ _ _].
  assert (HnG : n < d_next_gw (y_d s)).
  { rewrite Eq in Eok. inversion Eok as [|e1 q1 (_ & Hn) _]; subst. destruct ev; cbn in Eg; inv Eg; exact Hn. }
  destruct (aget n (y_w s)) as [w|] eqn:Ew; [|exfalso; exact (Lo n HnG Ew)].
  pose proof (sigs_head' s ev q n Eq) as Es. unfold ev_sigs_for in Es. rewrite Eg, Nat.eqb_refl in Es. cbn [app] in Es.
  exists w. eexists. split; [reflexivity|]. split; [exact Es|].
  destruct (NIs n w Ew) as (_ & _ & D). destruct (mem_nat n (y_dead s)).
  - destruct D as [D1 D2 D3]. rewrite Es in D1.
    destruct D2 as [pre f X1 X2 X3 X4 X5 X6 X7|q1 q2 X1 X2 X3 X4 X5 X6 X7|X1 X2 X3 X4 X5].
    + split; [exact X6|]. right. rewrite Es in X7. auto.
    + split; [exact X6|]. right. rewrite Es in X7. auto.
    + exfalso. rewrite Eq, evq_sigs_cons in X3. unfold ev_sigs_for in X3. rewrite Eg, Nat.eqb_refl in X3. discriminate.
  - destruct D as [D1 _ _ _ _]. rewrite Es in D1. split.
    + destruct (in_dec Nat.eq_dec n (d_active (y_d s))) as [Hin|Hni]; [exact Hin|].
      destruct (nx_act _ _ _ _ _ _ _ _ D1 Hni) as (F & _). discriminate.
    + left. auto.
Qed.

Lemma pre_from_invX s es ev q :
  XE s -> DXb N X0 (y_d s) es -> (forall n w, aget n (y_w s) = Some w -> NodeInvX X0 s es n w) ->
  y_evq s = ev :: q -> PREx X0 ev (y_d s) es.
Proof.
  intros X DJd NIs Eq. pose proof X as [Lo Hi _ Eok _ _ _ _ _].
  assert (Hok : ok_evx X0 (d_next_gw (y_d s)) ev) by (rewrite Eq in Eok; inversion Eok; assumption).
  destruct Hok as (Hok3 & Hnode).
  destruct ev as [n|n ids|n key fl|n i|n i|n i k oc|n i ms|n ixs| |n|n sk|n]; cbn [PREx]; cbn in Hok3, Hnode; try contradiction; auto.
  - (* ready *)
    destruct (head_nodeX s es _ q n SgReady X NIs Eq eq_refl) as (w & L & Ew & Es & Hact & HH). split; [exact Hnode|].
    destruct HH as [(_ & D1)|(_ & D1 & _)].
    + split. { intros Hin. destruct (nx_cf _ _ _ _ _ _ _ _ D1 (or_introl Hin)) as (F & _). apply F. left. reflexivity. }
      split. { intros Hin. destruct (nx_cf _ _ _ _ _ _ _ _ D1 (or_intror Hin)) as (F & _). apply F. left. reflexivity. }
      split. { intros f Ef. destruct (nx_flags _ _ _ _ _ _ _ _ D1) as (f1 & Ef1 & _ & Rd). assert (f1 = f) by congruence. subst f1.
               apply Rd. left. left. reflexivity. }
      split; [|exact Hact].
      intros _ Hin. destruct (nx_nodes _ _ _ _ _ _ _ _ D1 Hin) as (F & _). apply F. left. reflexivity.
    + split. { intros Hin. destruct (ndx_cf _ _ _ _ _ D1 (or_introl Hin)) as (F & _). apply F. left. reflexivity. }
      split. { intros Hin. destruct (ndx_cf _ _ _ _ _ D1 (or_intror Hin)) as (F & _). apply F. left. reflexivity. }
      split. { intros f Ef. apply (ndx_rdy _ _ _ _ _ D1 f Ef). left. left. reflexivity. }
      split; [|exact Hact].
      intros _ Hin. destruct (ndx_nodes _ _ _ _ _ D1 Hin) as (F & _). apply F. left. reflexivity.
  - (* collectionfinish *)
    destruct (head_nodeX s es _ q n SgCF X NIs Eq eq_refl) as (w & L & Ew & Es & Hact & HH). split; [exact Hnode|].
    split; [exact Hok3|].
    destruct HH as [(_ & D1)|(_ & D1 & _)].
    + split; intros Hin.
      * destruct (nx_cf _ _ _ _ _ _ _ _ D1 (or_introl Hin)) as (_ & F & _). apply F. left. reflexivity.
      * destruct (nx_cf _ _ _ _ _ _ _ _ D1 (or_intror Hin)) as (_ & F & _). apply F. left. reflexivity.
    + split; intros Hin.
      * destruct (ndx_cf _ _ _ _ _ D1 (or_introl Hin)) as (_ & F & _). apply F. left. reflexivity.
      * destruct (ndx_cf _ _ _ _ _ D1 (or_intror Hin)) as (_ & F & _). apply F. left. reflexivity.
  - (* complete *)
    destruct (head_nodeX s es _ q n (SgComp i) X NIs Eq eq_refl) as (w & L & Ew & Es & Hact & HH).
    destruct HH as [(_ & D1)|(_ & _ & (lost & Cp))].
    + pose proof (nx_coupled _ _ _ _ _ _ _ _ D1) as Cp. cbn [completes flat_map app] in Cp. eexists. apply bkE_consX. exact Cp.
    + cbn [completes flat_map app] in Cp. eexists. apply bkE_consX. exact Cp.
  - (* finished *)
    assert (FIN : forall b, ev_sig (QFinished n sk) = Some (n, SgFin b) ->
              In n (d_active (y_d s)) /\ exists w L, NEX X0 es (d_active (y_d s)) (d_shouldstop (y_d s)) n (SgFin b :: L) (alist_get [] n (y_down s)) w).
    { intros b Eg. destruct (head_nodeX s es _ q n (SgFin b) X NIs Eq Eg) as (w & L & Ew & Es & Hact & HH).
      split; [exact Hact|]. destruct HH as [(_ & D1)|(_ & D1 & _)]; [eauto|].
      exfalso. apply (NDX_nofin _ _ _ _ _ b D1). left. reflexivity. }
    destruct sk; try contradiction.
    + destruct (FIN false eq_refl) as (Hact & w & L & D1).
      pose proof (NEX_finished_empty _ _ _ _ _ _ _ _ D1) as Eb.
      split; [exact Hact|].
      intros Hin. rewrite (bkE_in _ _ Hin), Eb. reflexivity.
    + destruct (FIN true eq_refl) as (Hact & _). exact Hact.
  - (* errordown: the node is dead and its end marker has been read *)
    destruct (aget n (y_w s)) as [w|] eqn:Ew; [|exfalso; exact (Lo n Hnode Ew)].
    destruct (NIs n w Ew) as (_ & _ & D).
    assert (HIN : In (QErrorDown n) (y_evq s)) by (rewrite Eq; left; reflexivity).
    assert (ERR : is_errd n (QErrorDown n) = true) by (cbn; apply Nat.eqb_refl).
    destruct (mem_nat n (y_dead s)).
    + destruct D as [_ D2 _]. destruct D2 as [pre f X1 X2 X3 X4 X5 X6 X7|q1 q2 X1 X2 X3 X4 X5 X6 X7|X1 X2 X3 X4 X5].
      * rewrite (X5 _ HIN) in ERR. discriminate.
      * exact X6.
      * rewrite (X2 _ HIN) in ERR. discriminate.
    + destruct D as [_ _ D4 _ _]. rewrite (D4 _ HIN) in ERR. discriminate.
Qed.


(* ---- LCtl: one iteration of the controller's main loop ---- *)
Lemma evq_sigs_freshX G q : Forall (ok_evx X0 G) q -> evq_sigs G q = [].
Proof.
  induction 1 as [|e l (_ & He) _ IH]; [reflexivity|].
  rewrite evq_sigs_cons, IH, app_nil_r. unfold ev_sigs_for. destruct (ev_sig e) as [[m g]|] eqn:Eg; [|reflexivity].
  destruct (Nat.eqb m G) eqn:Em; [|reflexivity]. apply Nat.eqb_eq in Em. subst m. exfalso.
  destruct e; cbn in Eg; inv Eg; cbn in He; lia.
Qed.

Lemma ok_evx_monoX G G' ev : G <= G' -> ok_evx X0 G ev -> ok_evx X0 G' ev.
Proof. intros H (A & B). split; [exact A|]. destruct (ev_node ev); [lia|exact I]. Qed.

Lemma step_ctl_coreX s ev q d' outs r :
  XE s -> y_result s = None -> y_evq s = ev :: q ->
  d_loop_once ev (y_d s) = (d', outs, r) ->
  r = Ok tt /\
  (forall rr, (forall e, rr <> Some (RError e)) -> (rr = None -> d_active d' <> []) ->
     (rr = Some RFinished -> d_session_finished d' = true /\ d_shouldstop d' = false) ->
     XE (set_result (apply_outs (set_d (set_evq s q) d') outs) rr)).
Proof.
  intros X Eres Eevq El. pose proof X as [Lo Hi (es & DJd & NIs) Eq Eu Ea Er Edead Efin].
  specialize (Ea Eres).
  pose proof (pre_from_invX s es ev q X DJd NIs Eevq) as Hpre.
  destruct (loop_once_okX N X0 Hpos ev _ es d' outs r DJd Hpre El) as (-> & es' & vo & Eo & E & DJ2 & _).
  split; [reflexivity|]. intros rr Hrr Hact Hfin.
  pose proof DJd as ([Els J _ Act _ _ _ _ _] & _).
  set (G := d_next_gw (y_d s)) in *.
  assert (HOOK : forall h, In (OHook h) outs <-> In (OHook h) vo).
  { intros h. rewrite Eo. apply (In_vfilter_hook N X0). }
  assert (SPID : forall id sp, In (OHook (HSpawn id sp)) outs -> id = G /\ d_next_gw d' = S G).
  { intros id sp Hin. apply HOOK in Hin. exact (hx_sp _ _ _ _ _ _ _ _ E id sp Hin). }
  assert (GW : G <= d_next_gw d') by (destruct (hx_gw _ _ _ _ _ _ _ _ E) as [A|(A & _)]; fold G in A; lia).
  assert (OUTG : forall m, G <= m -> cmds_to m outs = []).
  { intros m Hm. rewrite Eo, cmds_to_vfilter, (hx_out _ _ _ _ _ _ _ _ E m Hm). destruct (closedb (e_nt es) m); reflexivity. }
  set (sA := set_d (set_evq s q) d').
  destruct (apply_outs_frame outs sA) as (F1 & F2 & F3). cbn [sA set_d set_evq y_evq y_d y_dead] in F1, F2, F3.
  assert (UP : forall k, alist_get [] k (y_up (apply_outs sA outs)) = alist_get [] k (y_up s)).
  { intros k. rewrite apply_outs_up; [reflexivity|]. intros id sp Hin. destruct (SPID _ _ Hin) as (-> & _).
    cbn [sA set_d set_evq y_up]. apply (Hi G). lia. }
  assert (DOWN : forall k, alist_get [] k (y_down (apply_outs sA outs)) =
            if mem_nat k (y_dead s) then alist_get [] k (y_down s) else alist_get [] k (y_down s) ++ cmds_to k outs).
  { intros k. rewrite apply_outs_down; [reflexivity|]. intros id sp Hin. destruct (SPID _ _ Hin) as (-> & _).
    split; [apply OUTG; lia|]. cbn [sA set_d set_evq y_down]. apply (Hi G). lia. }
  assert (WOLD : forall k, k < G -> aget k (y_w (apply_outs sA outs)) = aget k (y_w s)).
  { intros k Hk. rewrite apply_outs_w_none; [reflexivity|]. intros sp Hin. destruct (SPID _ _ Hin) as (-> & _). lia. }
  assert (SIGS : forall k, sigs s k = ev_sigs_for k ev ++ sigs (set_result (apply_outs sA outs) rr) k).
  { intros k. rewrite (sigs_head' s ev q k Eevq). unfold sigs. cbn [set_result y_evq y_up]. rewrite F1, UP. reflexivity. }
  constructor; cbn [set_result y_d y_evq y_down y_up y_w y_dead y_result]; rewrite ?F1, ?F2, ?F3.
  - (* every id below the counter has a process *)
    intros m Hm. destruct (Nat.lt_ge_cases m G) as [Hlt|Hge].
    + rewrite (WOLD m Hlt). apply Lo. exact Hlt.
    + destruct (hx_gw _ _ _ _ _ _ _ _ E) as [A|(A & _)]; fold G in A; [lia|]. assert (m = G) by lia. subst m.
      destruct (hx_spx _ _ _ _ _ _ _ _ E A) as (sp & Hin). apply HOOK in Hin.
      rewrite (apply_outs_spawned outs sA G); [discriminate|]. right. eauto.
  - intros m Hm. assert (HmG : G <= m) by lia. destruct (Hi m HmG) as (A & B & C). split; [|split].
    + rewrite apply_outs_w_none; [exact A|]. intros sp Hin. destruct (SPID _ _ Hin) as (-> & A'). lia.
    + rewrite UP. exact B.
    + rewrite DOWN, C, (OUTG m HmG). destruct (mem_nat m (y_dead s)); reflexivity.
  - exists es'. split; [exact DJ2|]. intros k w Hw.
    destruct (Nat.lt_ge_cases k G) as [Hlt|Hge].
    + (* a worker that existed before *)
      rewrite (WOLD k Hlt) in Hw. destruct (NIs k w Hw) as (A & C & D).
      split; [exact A|]. split; [exact C|].
      pose proof (hx_bk _ _ _ _ _ _ _ _ E k) as HBK.
      pose proof (hx_nodes _ _ _ _ _ _ _ _ E k) as HNODES.
      cbn [set_result y_dead]. rewrite F3.
      destruct (mem_nat k (y_dead s)) eqn:Hdd; rewrite ?Hdd in D.
      * (* dead *)
        destruct D as [D1 D2 D3]. rewrite (SIGS k) in D1.
        constructor.
        -- eapply NDX_ctl; eauto. intros Hin. apply mem_nat_In.
           pose proof (hx_fx _ _ _ _ _ _ _ _ E k Hlt) as R0.
           assert (Est0 : stb es k = true) by (apply mem_nat_In; exact Hin).
           destruct (aget k (e_nt es)) as [f0|] eqn:Ef0; [|exfalso; apply (proj2 (ex_ntk _ _ _ _ J k) Hlt); exact Ef0].
           destruct (aget k (e_nt es')) as [f0'|]; cbn [FXo] in R0; [|contradiction]. eapply FX_mono; eauto.
        -- destruct D2 as [pre f X1 X2 X3 X4 X5 X6 X7|q1 q2 X1 X2 X3 X4 X5 X6 X7|X1 X2 X3 X4 X5].
           ++ rewrite Eevq in X5. destruct (no_errd_cons_inv _ _ _ X5) as (Hev & Hq).
              pose proof (hx_fx _ _ _ _ _ _ _ _ E k Hlt) as HNT.
              rewrite X3 in HNT. destruct (aget k (e_nt es')) as [f'|] eqn:Ef'; [|destruct HNT]. cbn [FXo] in HNT.
              destruct (FX_fields _ _ _ _ _ _ HNT) as (_ & Bd & _).
              eapply (DX_wire _ _ _ _ _ pre f'); cbn [set_result y_up y_evq y_d]; rewrite ?UP, ?F1, ?F2; eauto.
              ** destruct (hx_act _ _ _ _ _ _ _ _ E k X6) as [Y|[(b & Y)|Y]]; [exact Y| |].
                 --- exfalso. apply (NDX_nofin _ _ _ _ _ b D1). apply in_or_app. left.
                     unfold ev_sigs_for. rewrite Y, Nat.eqb_refl. left. reflexivity.
                 --- exfalso. exact (is_errd_false _ _ Hev k Y eq_refl).
              ** rewrite (SIGS k) in X7. eapply NDXcpl_ctl; [|exact X7].
                 rewrite HBK, (bookmid'_eq ev k _ (is_errd_false _ _ Hev)). reflexivity.
           ++ rewrite Eevq in X2. destruct q1 as [|e1 q1'].
              ** (* its errordown has just been handled *)
                 cbn [app] in X2. injection X2 as E1 E2.
                 destruct (hx_err _ _ _ _ _ _ _ _ E k E1) as (Y1 & Y2).
                 eapply DX_done; cbn [set_result y_up y_evq y_d]; rewrite ?UP, ?F1, ?F2, ?E2; eauto.
              ** cbn [app] in X2. injection X2 as E1 E2. subst e1. destruct (no_errd_cons_inv _ _ _ X4) as (Hev & Hq1).
                 eapply (DX_queue _ _ _ _ _ q1' q2); cbn [set_result y_up y_evq y_d]; rewrite ?UP, ?F1, ?F2; eauto.
                 --- destruct (hx_act _ _ _ _ _ _ _ _ E k X6) as [Y|[(b & Y)|Y]]; [exact Y| |].
                     +++ exfalso. apply (NDX_nofin _ _ _ _ _ b D1). apply in_or_app. left.
                         unfold ev_sigs_for. rewrite Y, Nat.eqb_refl. left. reflexivity.
                     +++ exfalso. exact (is_errd_false _ _ Hev k Y eq_refl).
                 --- rewrite (SIGS k) in X7. eapply NDXcpl_ctl; [|exact X7].
                     rewrite HBK, (bookmid'_eq ev k _ (is_errd_false _ _ Hev)). reflexivity.
           ++ rewrite Eevq in X2, X3. destruct (no_errd_cons_inv _ _ _ X2) as (Hev & Hq).
              rewrite evq_sigs_cons in X3. apply app_eq_nil in X3. destruct X3 as (X3a & X3b).
              eapply DX_done; cbn [set_result y_up y_evq y_d]; rewrite ?UP, ?F1, ?F2; eauto.
              ** intros Hin. destruct (hx_actb _ _ _ _ _ _ _ _ E k Hin) as [Y|(Y & _)]; [contradiction|]. fold G in Y. lia.
              ** intros Hin. destruct (HNODES Hin) as [Y|Y]; [contradiction|].
                 unfold ev_sigs_for in X3a. rewrite Y, Nat.eqb_refl in X3a. discriminate.
        -- cbn [set_result y_down]. rewrite DOWN, Hdd. exact D3.
      * (* alive *)
        destruct D as [D1 D3 D4 D5 D6]. rewrite (SIGS k) in D1.
        rewrite Eevq in D4. destruct (no_errd_cons_inv _ _ _ D4) as (Hev & Hq).
        assert (CM : cmds_to k outs = cmds_to k vo) by (rewrite Eo, cmds_to_vfilter, D5; reflexivity).
        pose proof (hx_fx _ _ _ _ _ _ _ _ E k Hlt) as HNT.
        assert (CLk : closedb (e_nt es') k = closedb (e_nt es) k) by (eapply FXo_closed; exact HNT).
        constructor; cbn [set_result y_down y_up y_evq y_d]; rewrite ?DOWN, ?Hdd, ?UP, ?F1, ?F2, ?CM.
        -- eapply NEX_ctl; eauto. exact (is_errd_false _ _ Hev).
        -- exact D3.
        -- exact Hq.
        -- rewrite CLk. exact D5.
        -- intros g Eg Hg.
           destruct (aget k (e_nt es)) as [f|] eqn:Ef; [|rewrite Eg in HNT; destruct HNT].
           rewrite Eg in HNT. cbn [FXo] in HNT. destruct (FX_fields _ _ _ _ _ _ HNT) as (_ & Bd & _).
           apply (D6 f eq_refl). congruence.
    + (* the replacement worker that has just been started *)
      destruct (hx_gw _ _ _ _ _ _ _ _ E) as [A|(A & (f & Ef & (Hf1 & Hf2 & Hf3)) & Hina & Hnn & Hnc & Hnst)].
      { fold G in A. exfalso. rewrite apply_outs_w_none in Hw.
        - destruct (Hi k Hge) as (F & _). cbn [sA set_d set_evq y_w] in Hw. congruence.
        - intros sp Hin. destruct (SPID _ _ Hin) as (_ & Y). lia. }
      destruct (Nat.eq_dec k G) as [->|Hne].
      2:{ exfalso. rewrite apply_outs_w_none in Hw.
          - destruct (Hi k Hge) as (F & _). cbn [sA set_d set_evq y_w] in Hw. congruence.
          - intros sp' Hin'. destruct (SPID _ _ Hin') as (-> & _). contradiction. }
      fold G in A, Ef, Hina, Hnn, Hnc, Hnst.
      destruct (hx_spx _ _ _ _ _ _ _ _ E A) as (sp & Hin). apply HOOK in Hin.
      rewrite (apply_outs_spawned outs sA G) in Hw by (right; eauto). injection Hw as <-.
      assert (HdG : mem_nat G (y_dead s) = false).
      { apply mem_nat_false. intros Hin'. specialize (Edead _ Hin'). fold G in Edead. lia. }
      destruct (Hi G (le_n G)) as (_ & UG & DG).
      assert (ESG : sigs (set_result (apply_outs sA outs) rr) G = []).
      { assert (Z : sigs s G = []).
        { unfold sigs. rewrite UG. cbn. rewrite app_nil_r. apply evq_sigs_freshX. exact Eq. }
        pose proof (SIGS G) as Z2. rewrite Z in Z2. symmetry in Z2. apply app_eq_nil in Z2. tauto. }
      split; [apply winv_init|]. split; [exact Logic.I|].
      cbn [set_result y_dead]. rewrite F3, HdG.
      constructor; rewrite ?ESG; cbn [set_result y_down y_up y_evq y_d]; rewrite ?DOWN, ?HdG, ?DG, ?UP, ?UG, ?F1, ?F2, ?(OUTG G (le_n G)); cbn [app].
      * constructor; cbn [w_init wph prank winbox].
        -- exists f. split; [exact Ef|]. rewrite Hf1. split; [|auto].
           unfold wstr, wrest. cbn [w_init wpopped wq wrpend winbox map app flat_map]. apply stream_x_nil.
        -- cbn. apply bkE_notin. exact Hnn.
        -- apply chan_ok_nil.
        -- intros Hin'. contradiction.
        -- intros [Hin'|Hin']; contradiction.
        -- intros F. contradiction.
        -- intros [[]|F]; discriminate.
        -- apply WX_init.
        -- intros [F|(b & F)]; discriminate.
        -- split; constructor.
      * intros [].
      * intros e He. assert (He' : In e (y_evq s)) by (rewrite Eevq; right; exact He).
        rewrite Forall_forall in Eq. destruct (Eq e He') as (_ & Hn). destruct e; try reflexivity. cbn in Hn |- *.
        apply Nat.eqb_neq. fold G in Hn. lia.
      * unfold closedb. rewrite Ef. exact Hf3.
      * intros g Eg Hg. assert (g = f) by congruence. subst g. congruence.
  - rewrite Eevq in Eq. apply Forall_forall. intros e He. rewrite Forall_forall in Eq.
    apply (ok_evx_monoX G _ e GW). apply Eq. right. exact He.
  - intros k. rewrite UP. apply Eu.
  - exact Hact.
  - exact Hrr.
  - intros k Hk. specialize (Edead k Hk). fold G in Edead. lia.
  - exact Hfin.
Qed.


(* ---- every step ---- *)
(* the state in which the controller has raised RuntimeError("no active workers"): the workers are
   those of a state that satisfies the invariant *)
Definition ErrStX (s : sys) : Prop :=
  y_result s = Some (RError ERuntimeNoWorkers) /\
  exists s0, XE s0 /\ (forall n, aget n (y_w s) = aget n (y_w s0)) /\ y_dead s = y_dead s0.

Lemma no_active_outs d es d2 o2 r2 :
  d_sched d = StE es -> EX N X0 (d_next_gw d) es -> d_no_active d = (d2, o2, r2) ->
  forall id sp, ~ In (OHook (HSpawn id sp)) o2.
Proof.
  intros Els J H id sp Hin. unfold d_no_active in H. unfold mbind in H.
  destruct (d_triggershutdown d) as [[dx ox] rx] eqn:Et.
  destruct (trigger_effX N X0 _ _ _ _ _ _ Els J Et) as (-> & es1 & vo & -> & S & -> & _).
  unfold raise in H. injection H as <- <- <-. rewrite app_nil_r in Hin.
  apply (In_vfilter_hook N X0) in Hin. pose proof (sdx_outs _ _ _ S) as F. rewrite Forall_forall in F. exact (F _ Hin).
Qed.

Lemma step_xe s l s' o w : XE s -> sys_step c s l = Some (s', o, w) -> XE s' \/ ErrStX s'.
Proof.
  intros X H. pose proof X as [Lo Hi (es & DJd & NIs) Eq Eu Ea Er Edead Efin].
  unfold sys_step in H. destruct (y_result s) eqn:Eres; [discriminate|].
  destruct l as [n0|n0|n0|n0| |n0].
  - (* LDeliver *)
    destruct (mem_nat n0 (y_dead s)) eqn:Hd; [discriminate|].
    destruct (aget n0 (y_down s)) as [[|cmd rest]|] eqn:Ed; try discriminate.
    destruct (aget n0 (y_w s)) as [w0|] eqn:Ew; try discriminate.
    inv H. left. rewrite <- Eres. apply step_deliverX; assumption.
  - (* LRecvW *)
    destruct (mem_nat n0 (y_dead s)) eqn:Hd; [discriminate|].
    destruct (aget n0 (y_w s)) as [w0|] eqn:Ew; try discriminate.
    destruct (negb (wcb w0)); [discriminate|].
    destruct (recv_step (c_oracle c n0) w0) as [w' evs] eqn:Es. inv H. left.
    destruct (NIs n0 w0 Ew) as (Iw & NGw & D). rewrite Hd in D. destruct D as [D1 _ _ _ _].
    destruct (NEX_recv X0 (c_oracle c n0) _ _ _ _ _ _ _ (Hcoh n0) D1) as (Ev & Xn). rewrite Es in Ev, Xn. cbn [fst snd] in Ev, Xn. subst evs.
    destruct (recv_step_nogarb _ _ _ _ Es NGw) as (NG1 & NG2).
    apply step_pushX with (w0 := w0); auto.
    + pose proof (recv_step_inv (c_oracle c n0) w0 Iw) as I1. rewrite Es in I1. exact I1.
    + intros es1 Y. cbn [flat_map]. rewrite app_nil_r.
      destruct (NEX_recv X0 (c_oracle c n0) _ _ _ _ _ _ _ (Hcoh n0) Y) as (_ & Z). rewrite Es in Z. exact Z.
    + intros Hex. split; [|reflexivity]. rewrite (proj1 (recv_step_facts _ _ _ _ Es)). exact Hex.
  - (* LMain *)
    destruct (mem_nat n0 (y_dead s)) eqn:Hd; [discriminate|].
    destruct (aget n0 (y_w s)) as [w0|] eqn:Ew; try discriminate.
    destruct (dies_now c n0 w0) eqn:Edie.
    + inv H. left. apply step_crashX with (w0 := w0); auto. unfold dies_now in Edie. destruct (wph w0); discriminate.
    + destruct (main_step (c_oracle c n0) w0) as [[w' evs]|] eqn:Es; [|discriminate]. inv H. left.
      destruct (NIs n0 w0 Ew) as (Iw & NGw & D). rewrite Hd in D. destruct D as [D1 _ _ _ _].
      destruct (NEX_main X0 _ _ _ _ _ _ _ _ _ _ Iw D1 Es) as (_ & Hok).
      destruct (main_step_nogarb _ _ _ _ (Hng n0) Es NGw) as (NG1 & NG2).
      apply step_pushX with (w0 := w0); auto.
      * eapply main_step_inv; eauto.
      * intros es1 Y. exact (proj1 (NEX_main X0 _ _ _ _ _ _ _ _ _ _ Iw Y Es)).
      * intros Hex. exfalso. exact (main_step_not_exited _ _ _ _ Es Hex).
  - (* LRecv *)
    destruct (aget n0 (y_up s)) as [[|m rest]|] eqn:Eup; try discriminate.
    cbn [y_d] in H.
    destruct (process_from_remote n0 m (y_d s)) as [[d' outs] r] eqn:Ep.
    destruct (step_recvX s n0 m rest d' outs r X Eup Ep) as (-> & evs & -> & X' & _).
    cbn [apply_outs] in H. inv H. left. rewrite <- Eres. apply close_if_dead_XE. exact X'.
  - (* LCtl *)
    specialize (Ea eq_refl).
    destruct (d_active (y_d s)) as [|a0 ar] eqn:Eact; [contradiction|].
    destruct (y_evq s) as [|ev q] eqn:Eevq; [discriminate|].
    destruct (d_loop_once ev (y_d s)) as [[d' outs] r] eqn:El.
    destruct (step_ctl_coreX s ev q d' outs r X Eres Eevq El) as (-> & CORE).
    set (s1 := apply_outs (set_d (set_evq s q) d') outs) in *.
    destruct (d_session_finished d') eqn:Efin'.
    + inv H. left. apply CORE.
      * intros e. destruct (d_shouldstop d'); discriminate.
      * destruct (d_shouldstop d'); discriminate.
      * destruct (d_shouldstop d') eqn:Ess; [discriminate|]. intros _. split; reflexivity.
    + destruct (d_active d') as [|b0 br] eqn:Eact'.
      * (* nobody is left and the session is not shutting down: RuntimeError("no active workers") *)
        right.
        assert (XR : XE (set_result s1 (Some RInterrupted))) by (apply CORE; [intros e; discriminate|discriminate|discriminate]).
        pose proof XR as [_ _ (es' & DJ2 & _) _ _ _ _ _ _].
        destruct (apply_outs_frame outs (set_d (set_evq s q) d')) as (F1 & F2 & F3). cbn [set_d set_evq y_evq y_d y_dead] in F1, F2, F3.
        cbn [set_result y_d] in DJ2. fold s1 in F2. rewrite F2 in DJ2.
        destruct DJ2 as ([Els2 J2 _ _ _ _ _ _ _] & _).
        destruct (d_no_active d') as [[d2 outs2] r2] eqn:Ena. injection H as <- <- <-.
        pose proof (no_active_outs d' es' d2 outs2 r2 Els2 J2 Ena) as NSP.
        split; [reflexivity|]. exists (set_result s1 (Some RInterrupted)). split; [exact XR|]. split.
        -- intros n. cbn [set_result y_w]. rewrite apply_outs_w_none; [reflexivity|]. intros sp. apply NSP.
        -- cbn [set_result y_dead]. destruct (apply_outs_frame outs2 (set_d s1 d2)) as (_ & _ & G3). rewrite G3. reflexivity.
      * inv H. left.
        assert (Er1 : y_result s1 = None).
        { unfold s1. rewrite apply_outs_result. cbn. exact Eres. }
        rewrite <- (set_result_same' s1 None Er1). apply CORE.
        -- intros e. discriminate.
        -- intros _. discriminate.
        -- discriminate.
  - (* LCrash *)
    destruct (mem_nat n0 (y_dead s)) eqn:Hd; [discriminate|].
    destruct (aget n0 (y_w s)) as [w0|] eqn:Ew; try discriminate.
    destruct (wph w0) eqn:Eph; try discriminate; inv H; left; apply step_crashX with (w0 := w0); auto; rewrite Eph; discriminate.
Qed.

(* every reachable state satisfies the invariant, or is the state in which the controller has just
   raised "no active workers" *)
Theorem xe_run ls : XE (sys_run c ls) \/ ErrStX (sys_run c ls).
Proof.
  unfold sys_run.
  assert (G : forall s, XE s \/ ErrStX s ->
     let s' := fold_left (fun s l => match sys_step c s l with Some (s', _, _) => s' | None => s end) ls s in
     XE s' \/ ErrStX s').
  { induction ls as [|l ls IH]; intros s Hs; cbn [fold_left]; [exact Hs|].
    apply IH. destruct (sys_step c s l) as [[[s' o] w]|] eqn:E; [|exact Hs].
    destruct Hs as [Hs|(Hr & _)].
    - eapply step_xe; eauto.
    - unfold sys_step in E. rewrite Hr in E. discriminate. }
  apply G. left. apply XE_init.
Qed.

End SysX.

(* ====================================================================================== *)
(* D.4 the theorems                                                                        *)
(* ====================================================================================== *)
(* The crash coupling of --dist each.  For every worker process that was ever started:
   - alive: the controller's book (node2pending) equals, in order, what the worker side still owes;
   - dead, errordown not handled yet: the book is completions still in flight ++ what the dead worker
     held when it died ++ lost (what was on its wire down when it died or has been sent since);
   - dead, errordown handled: the node has no book any more (its remainder, if any, is in
     _removed2pending). *)
Definition each_bookX (s : sys) (n : nat) : list nat :=
  match d_sched (y_d s) with StE es => alist_get [] n (e_n2p es) | _ => [] end.
Definition each_owedX (c : config) (s : sys) (n : nat) (w : wst) : list nat :=
  completes (sigs s n) ++ owedE (length (c_coll c n)) w ++ flat_map (cinds (c_coll c) n) (alist_get [] n (y_down s)).

Definition CrashEachCoupled (c : config) (s : sys) : Prop :=
  forall n,
    match aget n (y_w s) with
    | None => each_bookX s n = []
    | Some w =>
        if mem_nat n (y_dead s) then
          (In n (d_active (y_d s)) ->
             exists lost, each_bookX s n = completes (sigs s n) ++ owedE (length (c_coll c n)) w ++ lost) /\
          (~ In n (d_active (y_d s)) -> each_bookX s n = [])
        else each_bookX s n = each_owedX c s n w
    end.

(* what the scheduler keeps of dead nodes: every entry of _removed2pending is a non-empty interval
   [b, K) of the collection of a known node that is no longer scheduled *)
Definition RemovedOK (c : config) (s : sys) : Prop :=
  forall es, d_sched (y_d s) = StE es ->
  NoDup (akeys (e_removed es)) /\
  forall d rest, aget d (e_removed es) = Some rest ->
    rest <> [] /\ d < d_next_gw (y_d s) /\ aget d (e_n2c es) = Some (c_coll c d) /\
    exists b, rest = seq b (length (c_coll c d) - b).

Section MainX.
  Variable c : config.
  Variable ls : list label.
  Hypothesis Hmode : c_mode c = MEach.
  Hypothesis Hnogarbled : no_garbled c.
  Hypothesis Hnodes : 0 < c_numnodes c.
  Hypothesis Hcoh : forall n, ncollected (c_oracle c n) = length (c_coll c n).
  Hypothesis Hrq : c_requeue c = 0.

  Let s := sys_run c ls.

  Lemma run_xe : XE c s \/ ErrStX c s.
  Proof. apply xe_run; assumption. Qed.

  (* C17: the only exception the controller can end with is RuntimeError("no active workers") *)
  Theorem crash_each_c17 : forall e, y_result s = Some (RError e) -> e = ERuntimeNoWorkers.
  Proof.
    intros e He. destruct run_xe as [X|(Hr & _)].
    - exfalso. exact (xe_res _ _ X e He).
    - rewrite Hr in He. congruence.
  Qed.

  (* ... in particular none of KeyError / ValueError / IndexError / AssertionError / NotImplementedError *)
  Corollary crash_each_no_other_exception : forall e,
    e <> ERuntimeNoWorkers -> y_result s <> Some (RError e).
  Proof. intros e Hne He. apply Hne. apply crash_each_c17. exact He. Qed.

  Lemma xe_coupled s0 : XE c s0 -> CrashEachCoupled c s0.
  Proof.
    intros [Lo Hi (es & DJd & NIs) Eq Eu Ea Er Edead Efin] n.
    pose proof DJd as ([Els J _ _ _ _ _ _ _] & _).
    assert (BK : each_bookX s0 n = bkE es n) by (unfold each_bookX; rewrite Els; reflexivity).
    destruct (aget n (y_w s0)) as [w|] eqn:Ew.
    - destruct (NIs n w Ew) as (_ & _ & D). destruct (mem_nat n (y_dead s0)).
      + destruct D as [_ D2 _]. destruct D2 as [pre f X1 X2 X3 X4 X5 X6 X7|q1 q2 X1 X2 X3 X4 X5 X6 X7|X1 X2 X3 X4 X5].
        * split; [intros _; rewrite BK; exact X7|intros F; contradiction].
        * split; [intros _; rewrite BK; exact X7|intros F; contradiction].
        * split; [intros F; contradiction|]. intros _. rewrite BK. apply bkE_notin. exact X5.
      + destruct D as [D1 _ _ _ _]. rewrite BK. unfold each_owedX. exact (nx_coupled _ _ _ _ _ _ _ _ D1).
    - rewrite BK. apply bkE_notin. intros Hin.
      pose proof (ex_nodes _ _ _ _ J n Hin) as Hlt. exact (Lo n Hlt Ew).
  Qed.

  (* item 1: the coupling invariant, in every reachable state in which the controller has not raised *)
  Theorem crash_each_coupling :
    (forall e, y_result s <> Some (RError e)) -> CrashEachCoupled c s.
  Proof.
    intros Hne. destruct run_xe as [X|(Hr & _)]; [apply xe_coupled; exact X|]. exfalso. exact (Hne _ Hr).
  Qed.

  Theorem crash_each_removed :
    (forall e, y_result s <> Some (RError e)) -> RemovedOK c s.
  Proof.
    intros Hne. destruct run_xe as [X|(Hr & _)]; [|exfalso; exact (Hne _ Hr)].
    destruct X as [_ _ (es & DJd & _) _ _ _ _ _ _]. destruct DJd as ([Els J _ _ _ _ _ _ _] & _).
    intros es0 E0. assert (es0 = es) by congruence. subst es0. split; [apply J|].
    intros d rest Ed. destruct (ex_rm _ _ _ _ J d rest Ed) as (A & B & C0 & D).
    split; [exact A|]. split; [exact B|]. split; [|exact D].
    destruct (aget d (e_n2c es)) as [coll|] eqn:Ec; [|congruence]. f_equal. eapply ex_n2c_coll; eauto.
  Qed.

  (* C08 (a): every worker -- initial or replacement, alive or dead -- has started an initial part of
     an interval [a, K) of its collection: increasing order, none twice, only collected tests *)
  Lemma xe_started s0 : XE c s0 -> forall n w, aget n (y_w s0) = Some w ->
    exists a rest, seq a (length (c_coll c n) - a) = ran_idx w ++ rest.
  Proof.
    intros [Lo Hi (es & DJd & NIs) Eq Eu Ea Er Edead Efin] n w Ew.
    destruct (NIs n w Ew) as (Iw & _ & D). destruct (mem_nat n (y_dead s0)).
    - destruct D as [D1 _ _]. exact (ndx_ran _ _ _ _ _ D1).
    - destruct D as [D1 _ _ _ _]. destruct (nx_flags _ _ _ _ _ _ _ _ D1) as (f & _ & Mk & _).
      eapply stream_x_safe; eauto.
  Qed.

  Theorem crash_each_started_interval : forall n w,
    aget n (y_w s) = Some w ->
    exists a rest, seq a (length (c_coll c n) - a) = ran_idx w ++ rest.
  Proof.
    intros n w Ew. destruct run_xe as [X|(_ & s0 & X & Hw & _)].
    - eapply xe_started; eauto.
    - rewrite Hw in Ew. eapply xe_started; eauto.
  Qed.

  Corollary crash_each_started_sorted : forall n w,
    aget n (y_w s) = Some w ->
    StronglySorted lt (ran_idx w) /\ NoDup (ran_idx w) /\ forall i, In i (ran_idx w) -> i < length (c_coll c n).
  Proof.
    intros n w Ew. destruct (crash_each_started_interval n w Ew) as (a & rest & E).
    assert (SS : forall b k, StronglySorted lt (seq b k)).
    { intros b k. revert b. induction k as [|k IH]; intros b; cbn; constructor; [apply IH|].
      apply Forall_forall. intros x Hx. apply in_seq in Hx. lia. }
    assert (SP : forall (l1 l2 : list nat), StronglySorted lt (l1 ++ l2) -> StronglySorted lt l1).
    { induction l1 as [|x l1 IH]; intros l2 H; [constructor|]. cbn in H. inversion H as [|x' l' H1 H2]; subst.
      constructor; [eapply IH; eauto|]. apply Forall_app in H2. tauto. }
    split; [apply (SP _ rest); rewrite <- E; apply SS|]. split.
    - apply (nodup_app_l _ rest). rewrite <- E. apply seq_NoDup.
    - intros i Hi. assert (X : In i (seq a (length (c_coll c n) - a))) by (rewrite E; apply in_or_app; left; exact Hi).
      apply in_seq in X. lia.
  Qed.
End MainX.

Print Assumptions crash_each_c17.
Print Assumptions crash_each_coupling.
Print Assumptions crash_each_started_interval.
Check crash_each_c17.
Check crash_each_coupling.
Check crash_each_removed.
Check crash_each_started_interval.
Check crash_each_started_sorted.

(* ====================================================================================== *)
(* D.5 the replacement chains: who has started which part of a collection                   *)
(* ====================================================================================== *)
(* one worker: the test it is running, and the tests it has taken but not started *)
Definition running (w : wst) : list nat := match wph w with PRun cur _ _ => [snd cur] | _ => [] end.
Definition unst (w : wst) : list nat :=
  match wph w with PRun _ nxt _ => item_inds [snd nxt] | _ => owed_main w end.

Lemma owed_main_split w : owed_main w = running w ++ unst w.
Proof. unfold running, unst, owed_main. destruct (wph w); reflexivity. Qed.

(* what the main thread has taken = what it has started ++ what it has not started yet *)
Lemma ran_unst w : WInv w -> ents_idx (wpopped w) = ran_idx w ++ unst w.
Proof.
  intros I. pose proof (inv_phase w I) as E. unfold phase_inv in E. unfold ran_idx.
  assert (PE : forall pre lst, no_mark pre -> map (fun r => snd (fst r)) (pairs (pre ++ [lst])) = ents_idx pre).
  { intros pre lst Hn. rewrite <- ents_idx_map_ent, pairs_ents by exact Hn. reflexivity. }
  unfold unst, owed_main.
  destruct (wph w) as [|rest| | |cur|cur nxt|cur nxt script|sfin|].
  - destruct E as (-> & ->). reflexivity.
  - destruct E as (-> & ->). reflexivity.
  - destruct E as (-> & ->). reflexivity.
  - destruct E as (-> & ->). reflexivity.
  - destruct E as (pre & Ep & Hn & ->). rewrite Ep, (PE pre (ent cur) Hn), ents_idx_app. destruct cur; reflexivity.
  - destruct E as (pre & Ep & Hn & ->). rewrite Ep, (PE pre (ent cur) Hn), ents_idx_app.
    destruct cur, nxt as [t' [j|]]; reflexivity.
  - destruct E as (pre & Ep & Hn & ->). rewrite Ep.
    change (pre ++ [ent cur; nxt]) with (pre ++ [ent cur] ++ [nxt]). rewrite app_assoc, (PE (pre ++ [ent cur]) nxt).
    + rewrite !ents_idx_app. destruct nxt as [t' [j|]]; reflexivity.
    + intros e He. apply in_app_or in He. destruct He as [He|[<-|[]]]; [apply Hn; exact He|destruct cur; reflexivity].
  - destruct E as (pre & lst & Ep & Hn & ->). rewrite Ep, last_last, (PE pre lst Hn), ents_idx_app.
    destruct lst as [t [j|]]; reflexivity.
  - destruct E as (pre & lst & Ep & Hn & ->). rewrite Ep, last_last, (PE pre lst Hn), ents_idx_app.
    destruct lst as [t [j|]]; reflexivity.
Qed.

(* the items of a worker's stream, in terms of what it has started *)
Lemma stream_inds K w X :
  WInv w -> item_inds (wstr K w ++ X) = ran_idx w ++ unst w ++ item_inds (wrest K w) ++ item_inds X.
Proof.
  intros I. unfold wstr. rewrite !item_inds_app, <- ents_idx_items, (ran_unst w I), <- !app_assoc. reflexivity.
Qed.

(* a worker that has exited on the shutdown marker has started everything it was sent *)
Lemma exited_ran_all K w X A :
  WInv w -> wph w = PExited -> markpopped w -> wstr K w ++ X = map Idx A ++ [Mark] ->
  ran_idx w = A.
Proof.
  intros I Hp (pre & t & Ep) Es.
  pose proof (inv_phase w I) as E. unfold phase_inv in E. rewrite Hp in E.
  destruct E as (pre0 & lst & Ep0 & Hn & Eran).
  rewrite Ep in Ep0. apply app_inj_tail in Ep0. destruct Ep0 as (<- & <-).
  unfold wstr in Es. rewrite Ep, map_app in Es. cbn [map snd] in Es. rewrite <- !app_assoc in Es. cbn [app] in Es.
  destruct (nomark_split _ _ _ (no_mark_nomark _ Hn) (nomark_map_idx _) Es) as (Epre & _).
  unfold ran_idx. rewrite Eran, Ep, <- ents_idx_map_ent, pairs_ents by exact Hn.
  rewrite ents_idx_items, Epre. apply item_inds_map_idx.
Qed.

Lemma label_eq_ctl l : l = LCtl \/ l <> LCtl.
Proof. destruct l; [right|right|right|right|left|right]; try discriminate; reflexivity. Qed.

Section ChainX.
Variable c : config.
Notation N := (c_numnodes c).
Notation X0 := (c_coll c).
Notation Kx n := (length (c_coll c n)).
Hypothesis Hmode : c_mode c = MEach.
Hypothesis Hng : no_garbled c.
Hypothesis Hpos : 0 < N.
Hypothesis Hcoh : forall n, ncollected (c_oracle c n) = length (c_coll c n).
Hypothesis Hrq : c_requeue c = 0.

(* what worker r has started, and what a chain of workers has consumed: the tests its members started,
   each followed by the crash item reported for it when that item had not been started *)
Definition ran_of (s : sys) (r : nat) : list nat :=
  match aget r (y_w s) with Some w => ran_idx w | None => [] end.
Definition cover (s : sys) (l : list (nat * list nat)) : list nat :=
  flat_map (fun p => ran_of s (fst p) ++ snd p) l.

(* a chain for the collection of node x: workers that are gone (finished, or dead with the errordown
   handled), pairwise distinct, with the same collection as x *)
Definition ChainOK (s : sys) (x : nat) (l : list (nat * list nat)) : Prop :=
  NoDup (map fst l) /\
  forall r g, In (r, g) l ->
    ~ In r (d_active (y_d s)) /\ r < d_next_gw (y_d s) /\ X0 r = X0 x /\ length g <= 1 /\
    (g <> [] -> In r (y_dead s)).

(* what an active node still contributes: the tests it has started ++ those it has not started yet *)
Definition part (s : sys) (es : estate) (m : nat) : list nat :=
  match aget m (y_w s) with
  | None => []
  | Some w =>
      if mem_nat m (y_dead s)
      then ran_idx w ++ skipn (length (completes (sigs s m)) + length (running w)) (bkE es m)
      else item_inds (wstr (Kx m) w ++ flat_map (citems (Kx m)) (alist_get [] m (y_down s)))
  end.

(* node x has been handed tests (all of its collection, or an inherited remainder) *)
Definition SchedN (es : estate) (x : nat) : Prop := In x (e_started es) /\ aget x (e_n2c es) <> None.

Definition Tracked (s : sys) (es : estate) (x : nat) (l : list (nat * list nat)) : Prop :=
  (In x (map fst l) /\ seq 0 (Kx x) = cover s l) \/
  (In x (map fst l) /\ exists d rest, aget d (e_removed es) = Some rest /\ X0 d = X0 x /\
                                      seq 0 (Kx x) = cover s l ++ rest) \/
  (exists m, In m (d_active (y_d s)) /\ (m = x \/ In x (map fst l)) /\ SchedN es m /\ X0 m = X0 x /\
             seq 0 (Kx x) = cover s l ++ part s es m).

Definition CH (s : sys) : Prop :=
  forall es, d_sched (y_d s) = StE es -> d_shouldstop (y_d s) = false ->
  (forall x, SchedN es x -> exists l, ChainOK s x l /\ Tracked s es x l) /\
  (forall d rest, aget d (e_removed es) = Some rest ->
     exists l, ChainOK s d l /\ In d (map fst l) /\ seq 0 (Kx d) = cover s l ++ rest).

Lemma cover_app s a b : cover s (a ++ b) = cover s a ++ cover s b.
Proof. apply flat_map_app. Qed.

Lemma cover_ext s s' l : (forall r, In r (map fst l) -> ran_of s' r = ran_of s r) -> cover s' l = cover s l.
Proof.
  induction l as [|[r g] l IH]; intros H; [reflexivity|]. cbn [cover flat_map fst snd].
  rewrite (H r (or_introl eq_refl)). f_equal. apply IH. intros k Hk. apply H. right. exact Hk.
Qed.

(* ---- steps that leave the scheduler's books alone ---- *)
Lemma CH_frame s s' :
  (forall es', d_sched (y_d s') = StE es' -> exists es, d_sched (y_d s) = StE es /\
     e_n2p es' = e_n2p es /\ e_n2c es' = e_n2c es /\ e_started es' = e_started es /\ e_removed es' = e_removed es /\
     forall m, In m (d_active (y_d s)) -> SchedN es m -> part s' es' m = part s es m) ->
  d_active (y_d s') = d_active (y_d s) -> d_next_gw (y_d s') = d_next_gw (y_d s) ->
  d_shouldstop (y_d s') = d_shouldstop (y_d s) ->
  (forall r, In r (y_dead s) -> In r (y_dead s')) ->
  (forall r, ~ In r (d_active (y_d s)) -> ran_of s' r = ran_of s r) ->
  CH s -> CH s'.
Proof.
  intros Hes Ea Eg Ess Hd Hr H es' Els' Hss'.
  destruct (Hes es' Els') as (es & Els & P1 & P2 & P3 & P4 & Hpart). rewrite Ess in Hss'.
  destruct (H es Els Hss') as (HA & HR).
  assert (OK : forall x l, ChainOK s x l -> ChainOK s' x l /\ cover s' l = cover s l).
  { intros x l (ND & Hl). split.
    - split; [exact ND|]. intros r g Hin. destruct (Hl r g Hin) as (A & B & C0 & D & E). rewrite Ea, Eg. auto 10.
    - apply cover_ext. intros r Hin. apply in_map_iff in Hin. destruct Hin as ([r' g] & <- & Hin).
      destruct (Hl r' g Hin) as (A & _). apply Hr. exact A. }
  assert (SN : forall x, SchedN es' x <-> SchedN es x) by (intros x; unfold SchedN; rewrite P2, P3; reflexivity).
  split.
  - intros x Hx. apply SN in Hx. destruct (HA x Hx) as (l & Ok & T). destruct (OK x l Ok) as (Ok' & Ec).
    exists l. split; [exact Ok'|]. unfold Tracked. rewrite Ec, P4, Ea.
    destruct T as [T|[T|(m & T1 & T2 & T3 & T4 & T5)]]; [left; exact T|right; left; exact T|right; right].
    exists m. split; [exact T1|]. split; [exact T2|]. split; [apply SN; exact T3|]. split; [exact T4|].
    rewrite (Hpart m T1 T3). exact T5.
  - intros d rest Ed. rewrite P4 in Ed. destruct (HR d rest Ed) as (l & Ok & Hin & E). destruct (OK d l Ok) as (Ok' & Ec).
    exists l. rewrite Ec. auto.
Qed.

Lemma sched_set_nt d es v : d_sched d = StE es -> d_sched (d_set_nt d v) = StE (e_set_nt es v).
Proof. intros E. unfold d_set_nt. cbn [d_set_sched d_sched]. rewrite E. reflexivity. Qed.

(* the controller's flags change (receiver thread, crash of a strict channel) *)
Lemma CH_flags s v : CH s -> CH (set_d s (d_set_nt (y_d s) v)).
Proof.
  apply CH_frame; try reflexivity; auto.
  intros es' Els'. cbn [set_d y_d] in Els'.
  destruct (d_sched (y_d s)) as [| | |es] eqn:Els; try (unfold d_set_nt in Els'; cbn [d_set_sched d_sched] in Els'; rewrite Els in Els'; discriminate).
  rewrite (sched_set_nt _ es v Els) in Els'. injection Els' as <-. exists es. split; [reflexivity|].
  repeat (split; [reflexivity|]). intros m _ _. reflexivity.
Qed.

Lemma ran_of_set s n w k : ran_of (set_w s n w) k = if Nat.eqb k n then ran_idx w else ran_of s k.
Proof. unfold ran_of, set_w. cbn [y_w]. rewrite ea_get_set. destruct (Nat.eqb k n); reflexivity. Qed.

(* a node that is not active any more does not start anything: it has exited, or it is dead *)
Lemma inactive_frozen s es n w :
  XE c s -> d_sched (y_d s) = StE es -> aget n (y_w s) = Some w -> ~ In n (d_active (y_d s)) ->
  mem_nat n (y_dead s) = true \/ wph w = PExited.
Proof.
  intros [_ _ (es0 & DJd & NIs) _ _ _ _ _ _] Els Ew Hna.
  destruct (NIs n w Ew) as (_ & _ & D). destruct (mem_nat n (y_dead s)); [left; reflexivity|right].
  destruct D as [D1 _ _ _ _]. exact (proj2 (nx_act _ _ _ _ _ _ _ _ D1 Hna)).
Qed.

Lemma part_alive_eq s es s' es' m w w' :
  aget m (y_w s) = Some w -> aget m (y_w s') = Some w' ->
  mem_nat m (y_dead s) = false -> mem_nat m (y_dead s') = false ->
  wstr (Kx m) w' ++ flat_map (citems (Kx m)) (alist_get [] m (y_down s')) =
  wstr (Kx m) w ++ flat_map (citems (Kx m)) (alist_get [] m (y_down s)) ->
  part s' es' m = part s es m.
Proof. intros E1 E2 D1 D2 H. unfold part. rewrite E1, E2, D1, D2, H. reflexivity. Qed.

Lemma part_other s es s' es' m :
  aget m (y_w s') = aget m (y_w s) -> mem_nat m (y_dead s') = mem_nat m (y_dead s) ->
  sigs s' m = sigs s m -> bkE es' m = bkE es m ->
  alist_get [] m (y_down s') = alist_get [] m (y_down s) ->
  part s' es' m = part s es m.
Proof. intros E1 E2 E3 E4 E5. unfold part. rewrite E1, E2, E3, E4, E5. reflexivity. Qed.

(* a worker dies: what it still contributes is frozen *)
Lemma part_crash s es m w :
  XE c s -> d_sched (y_d s) = StE es -> aget m (y_w s) = Some w -> mem_nat m (y_dead s) = false ->
  ran_idx w ++ skipn (length (completes (sigs s m)) + length (running w)) (bkE es m) = part s es m.
Proof.
  intros [_ _ (es0 & DJd & NIs) _ _ _ _ _ _] Els Ew Hd.
  assert (es0 = es) by (destruct DJd as ([E0 _ _ _ _ _ _ _ _] & _); congruence). subst es0.
  destruct (NIs m w Ew) as (Iw & _ & D). rewrite Hd in D. destruct D as [D1 _ _ _ _].
  unfold part. rewrite Ew, Hd. rewrite (nx_coupled _ _ _ _ _ _ _ _ D1).
  unfold owedE. rewrite owed_main_split, <- !app_assoc.
  rewrite (app_assoc (completes (sigs s m)) (running w)), skipn_app.
  rewrite app_length, Nat.sub_diag. cbn [skipn].
  rewrite skipn_all2 by (rewrite app_length; lia). cbn [app].
  rewrite (stream_inds _ w _ Iw), <- (cinds_itemsX X0). reflexivity.
Qed.

Lemma CH_step_nonctl s l s' o w :
  XE c s -> CH s -> l <> LCtl -> sys_step c s l = Some (s', o, w) -> CH s'.
Proof.
  intros X H Hl Hs. pose proof X as [Lo Hi (es & DJd & NIs) Eq Eu Ea Er Edead Efin].
  pose proof DJd as ([Els J _ _ _ _ _ _ _] & _).
  unfold sys_step in Hs. destruct (y_result s) eqn:Eres; [discriminate|].
  destruct l as [n0|n0|n0|n0| |n0]; [| | | |contradiction|].
  - (* LDeliver *)
    destruct (mem_nat n0 (y_dead s)) eqn:Hd; [discriminate|].
    destruct (aget n0 (y_down s)) as [[|cmd rest]|] eqn:Ed; try discriminate.
    destruct (aget n0 (y_w s)) as [w0|] eqn:Ew; try discriminate.
    inv Hs. revert H. apply CH_frame; try reflexivity; auto.
    + intros es' Els'. cbn [y_d] in Els'. exists es'. split; [exact Els'|]. repeat (split; [reflexivity|]).
      intros m _ _. destruct (Nat.eq_dec m n0) as [->|Hm].
      * eapply part_alive_eq; cbn [y_w y_dead y_down]; [exact Ew|apply ea_get_set_eq|exact Hd|exact Hd|].
        rewrite ea_alist_get_set_eq, (ea_alist_get_some [] _ _ _ Ed).
        destruct (deliver_each (Kx n0) w0 cmd) as (Er1 & _ & Epop & _). unfold wstr. rewrite Epop, Er1.
        cbn [flat_map]. rewrite <- !app_assoc. reflexivity.
      * apply part_other; cbn [y_w y_dead y_down]; try reflexivity.
        -- apply ea_get_set_neq. exact Hm.
        -- apply ea_alist_get_set_neq. exact Hm.
    + intros r _. unfold ran_of. cbn [y_w]. rewrite ea_get_set. destruct (Nat.eqb r n0) eqn:E; [|reflexivity].
      apply Nat.eqb_eq in E. subst r. rewrite Ew. unfold ran_idx.
      destruct (deliver_each 0 w0 cmd) as (_ & _ & _ & _ & Eran & _). rewrite Eran. reflexivity.
  - (* LRecvW *)
    destruct (mem_nat n0 (y_dead s)) eqn:Hd; [discriminate|].
    destruct (aget n0 (y_w s)) as [w0|] eqn:Ew; try discriminate.
    destruct (negb (wcb w0)); [discriminate|].
    destruct (recv_step (c_oracle c n0) w0) as [w' evs] eqn:Es. inv Hs.
    destruct (NIs n0 w0 Ew) as (Iw & NGw & D). rewrite Hd in D. destruct D as [D1 _ _ _ _].
    destruct (nx_cmds _ _ _ _ _ _ _ _ D1) as (G1 & _). destruct (nx_wx _ _ _ _ _ _ _ _ D1) as (X1 & _).
    destruct (recv_step_x (c_oracle c n0) w0 G1 X1) as (Ev & Er1 & _ & Epop & _ & Eran & _).
    rewrite Es in Ev, Er1, Epop, Eran. cbn [fst snd] in Ev, Er1, Epop, Eran. subst evs. rewrite Hcoh in Er1.
    revert H. apply CH_frame; try reflexivity; auto.
    + intros es' Els'. exists es'. split; [exact Els'|]. repeat (split; [reflexivity|]).
      intros m _ _. destruct (Nat.eq_dec m n0) as [->|Hm].
      * eapply part_alive_eq; cbn [push_up set_w y_w y_dead y_down]; [exact Ew|apply ea_get_set_eq|exact Hd|exact Hd|].
        unfold wstr. rewrite Epop, Er1. reflexivity.
      * apply part_other; cbn [push_up set_w y_w y_dead y_down]; try reflexivity.
        -- apply ea_get_set_neq. exact Hm.
        -- unfold sigs. cbn [push_up set_w y_evq y_up]. rewrite ea_alist_get_set_neq by exact Hm. reflexivity.
    + intros r _. unfold ran_of. cbn [push_up set_w y_w]. rewrite ea_get_set. destruct (Nat.eqb r n0) eqn:E; [|reflexivity].
      apply Nat.eqb_eq in E. subst r. rewrite Ew. unfold ran_idx. rewrite Eran. reflexivity.
  - (* LMain *)
    destruct (mem_nat n0 (y_dead s)) eqn:Hd; [discriminate|].
    destruct (aget n0 (y_w s)) as [w0|] eqn:Ew; try discriminate.
    destruct (dies_now c n0 w0) eqn:Edie.
    + (* the worker dies entering a test *)
      inv Hs. apply (CH_frame s); auto.
      * intros es' Els'. unfold crash_worker in Els'. cbn [y_d] in Els'.
        assert (EE : exists es1, d_sched (y_d s) = StE es1 /\ e_n2p es' = e_n2p es1 /\ e_n2c es' = e_n2c es1 /\
                       e_started es' = e_started es1 /\ e_removed es' = e_removed es1).
        { destruct (c_strict c); [|exists es'; auto 10].
          destruct (aget n0 (d_nt (y_d s))); [|exists es'; auto 10].
          rewrite (sched_set_nt _ es _ Els) in Els'. injection Els' as <-. exists es. auto 10. }
        destruct EE as (es1 & E1 & P1 & P2 & P3 & P4). exists es1. split; [exact E1|]. repeat (split; [assumption|]).
        assert (es1 = es) by congruence. subst es1.
        assert (BK : forall k, bkE es' k = bkE es k) by (intros k; unfold bkE; rewrite P1; reflexivity).
        intros m _ _. destruct (Nat.eq_dec m n0) as [->|Hm].
        -- rewrite <- (part_crash s es n0 w0 X Els Ew Hd). unfold part, crash_worker. cbn [y_w y_dead].
           rewrite Ew, mem_nat_cons, Nat.eqb_refl. cbn [orb]. rewrite BK.
           assert (Sg : sigs (crash_worker c s n0) n0 = sigs s n0).
           { unfold sigs, crash_worker. cbn [y_evq y_up]. rewrite ea_alist_get_set_eq, flat_map_app. cbn. rewrite app_nil_r. reflexivity. }
           unfold crash_worker in Sg. rewrite Sg. reflexivity.
        -- apply part_other; unfold crash_worker; cbn [y_w y_dead y_down]; try reflexivity.
           ++ rewrite mem_nat_cons. apply Nat.eqb_neq in Hm. rewrite Hm. reflexivity.
           ++ unfold sigs. cbn [y_evq y_up]. rewrite ea_alist_get_set_neq by exact Hm. reflexivity.
           ++ apply BK.
           ++ apply ea_alist_get_set_neq. exact Hm.
      * unfold crash_worker. cbn [y_d]. destruct (c_strict c); [|reflexivity]. destruct (aget n0 (d_nt (y_d s))); reflexivity.
      * unfold crash_worker. cbn [y_d]. destruct (c_strict c); [|reflexivity]. destruct (aget n0 (d_nt (y_d s))); reflexivity.
      * unfold crash_worker. cbn [y_d]. destruct (c_strict c); [|reflexivity]. destruct (aget n0 (d_nt (y_d s))); reflexivity.
      * intros r Hr. unfold crash_worker. cbn [y_dead]. right. exact Hr.
    + destruct (main_step (c_oracle c n0) w0) as [[w' evs]|] eqn:Es; [|discriminate]. inv Hs.
      destruct (main_step_frame_e (Kx n0) _ _ _ _ Es) as (_ & _ & _ & Estr).
      revert H. apply CH_frame; try reflexivity; auto.
      * intros es' Els'. exists es'. split; [exact Els'|]. repeat (split; [reflexivity|]).
        intros m _ _. destruct (Nat.eq_dec m n0) as [->|Hm].
        -- eapply part_alive_eq; cbn [push_up set_w y_w y_dead y_down]; [exact Ew|apply ea_get_set_eq|exact Hd|exact Hd|].
           rewrite Estr. reflexivity.
        -- apply part_other; cbn [push_up set_w y_w y_dead y_down]; try reflexivity.
           ++ apply ea_get_set_neq. exact Hm.
           ++ unfold sigs. cbn [push_up set_w y_evq y_up]. rewrite ea_alist_get_set_neq by exact Hm. reflexivity.
      * intros r Hr. unfold ran_of. cbn [push_up set_w y_w]. rewrite ea_get_set. destruct (Nat.eqb r n0) eqn:E; [|reflexivity].
        apply Nat.eqb_eq in E. subst r. exfalso.
        destruct (inactive_frozen s es n0 w0 X Els Ew Hr) as [F|F]; [congruence|].
        exact (main_step_not_exited _ _ _ _ Es F).
  - (* LRecv *)
    destruct (aget n0 (y_up s)) as [[|m rest]|] eqn:Eup; try discriminate.
    cbn [y_d] in Hs.
    destruct (process_from_remote n0 m (y_d s)) as [[d' outs] r] eqn:Ep.
    destruct (step_recvX c Hpos Hrq s n0 m rest d' outs r X Eup Ep) as (-> & evs & -> & _ & Eact & Ess & Egw & Hes & SGS).
    cbn [apply_outs] in Hs. inv Hs.
    match goal with |- CH (close_if_dead ?S n0) => set (s1 := S) end.
    assert (H1 : CH s1).
    { revert H. apply CH_frame; auto.
      intros es' Els'. cbn [s1 set_evq set_d y_d] in Els'. destruct (Hes es Els) as (es1 & E1 & P1 & P2 & P3 & P4).
      assert (es1 = es') by congruence. subst es1. exists es. split; [exact Els|]. repeat (split; [assumption|]).
      intros k _ _. apply part_other; try reflexivity.
      - unfold sigs. cbn [s1 set_evq set_d y_evq y_up]. apply SGS.
      - unfold bkE. rewrite P1. reflexivity. }
    unfold close_if_dead. fold s1. destruct (mem_nat n0 (y_dead s1)); [|exact H1].
    destruct (aget n0 (d_nt (y_d s1))) as [f|]; [|exact H1]. destruct (n_down f); [|exact H1].
    apply CH_flags. exact H1.
  - (* LCrash *)
    destruct (mem_nat n0 (y_dead s)) eqn:Hd; [discriminate|].
    destruct (aget n0 (y_w s)) as [w0|] eqn:Ew; try discriminate.
    assert (Hs' : s' = crash_worker c s n0) by (destruct (wph w0); try discriminate; inv Hs; reflexivity).
    subst s'. clear Hs. apply (CH_frame s); auto.
    * intros es' Els'. unfold crash_worker in Els'. cbn [y_d] in Els'.
      assert (EE : exists es1, d_sched (y_d s) = StE es1 /\ e_n2p es' = e_n2p es1 /\ e_n2c es' = e_n2c es1 /\
                     e_started es' = e_started es1 /\ e_removed es' = e_removed es1).
      { destruct (c_strict c); [|exists es'; auto 10].
        destruct (aget n0 (d_nt (y_d s))); [|exists es'; auto 10].
        rewrite (sched_set_nt _ es _ Els) in Els'. injection Els' as <-. exists es. auto 10. }
      destruct EE as (es1 & E1 & P1 & P2 & P3 & P4). exists es1. split; [exact E1|]. repeat (split; [assumption|]).
      assert (es1 = es) by congruence. subst es1.
      assert (BK : forall k, bkE es' k = bkE es k) by (intros k; unfold bkE; rewrite P1; reflexivity).
      intros m _ _. destruct (Nat.eq_dec m n0) as [->|Hm].
      -- rewrite <- (part_crash s es n0 w0 X Els Ew Hd). unfold part, crash_worker. cbn [y_w y_dead].
         rewrite Ew, mem_nat_cons, Nat.eqb_refl. cbn [orb]. rewrite BK.
         assert (Sg : sigs (crash_worker c s n0) n0 = sigs s n0).
         { unfold sigs, crash_worker. cbn [y_evq y_up]. rewrite ea_alist_get_set_eq, flat_map_app. cbn. rewrite app_nil_r. reflexivity. }
         unfold crash_worker in Sg. rewrite Sg. reflexivity.
      -- apply part_other; unfold crash_worker; cbn [y_w y_dead y_down]; try reflexivity.
         ++ rewrite mem_nat_cons. apply Nat.eqb_neq in Hm. rewrite Hm. reflexivity.
         ++ unfold sigs. cbn [y_evq y_up]. rewrite ea_alist_get_set_neq by exact Hm. reflexivity.
         ++ apply BK.
         ++ apply ea_alist_get_set_neq. exact Hm.
    * unfold crash_worker. cbn [y_d]. destruct (c_strict c); [|reflexivity]. destruct (aget n0 (d_nt (y_d s))); reflexivity.
    * unfold crash_worker. cbn [y_d]. destruct (c_strict c); [|reflexivity]. destruct (aget n0 (d_nt (y_d s))); reflexivity.
    * unfold crash_worker. cbn [y_d]. destruct (c_strict c); [|reflexivity]. destruct (aget n0 (d_nt (y_d s))); reflexivity.
    * intros r Hr. unfold crash_worker. cbn [y_dead]. right. exact Hr.
Qed.

(* ---- the shape of the state after one iteration of the controller loop ---- *)
Lemma ctl_shapeX s ev q d' outs :
  XE c s -> y_result s = None -> y_evq s = ev :: q ->
  d_loop_once ev (y_d s) = (d', outs, Ok tt) ->
  exists es es' vo, DXb N X0 (y_d s) es /\ (forall n w, aget n (y_w s) = Some w -> NodeInvX X0 s es n w) /\
    outs = vfilter (e_nt es) vo /\ HEFFx N X0 ev (y_d s) es d' es' vo /\ DXb N X0 d' es' /\
    (forall n, ev = QErrorDown n ->
       e_removed es' = match tl (bkE es n) with [] => e_removed es | rest => aset n rest (e_removed es) end) /\
    PREx X0 ev (y_d s) es /\
    forall rr, let s' := set_result (apply_outs (set_d (set_evq s q) d') outs) rr in
      y_d s' = d' /\ y_dead s' = y_dead s /\
      (forall k, alist_get [] k (y_down s') =
                 if mem_nat k (y_dead s) then alist_get [] k (y_down s) else alist_get [] k (y_down s) ++ cmds_to k outs) /\
      (forall k, k < d_next_gw (y_d s) -> aget k (y_w s') = aget k (y_w s)) /\
      (forall k, sigs s k = ev_sigs_for k ev ++ sigs s' k).
Proof.
  intros X Eres Eevq El. pose proof X as [Lo Hi (es & DJd & NIs) Eq Eu Ea Er Edead Efin].
  pose proof (pre_from_invX c s es ev q X DJd NIs Eevq) as Hpre.
  destruct (loop_once_okX N X0 Hpos ev _ es d' outs _ DJd Hpre El) as (_ & es' & vo & Eo & E & DJ2 & _ & CF2).
  exists es, es', vo. split; [exact DJd|]. split; [exact NIs|]. split; [exact Eo|]. split; [exact E|]. split; [exact DJ2|].
  split; [exact CF2|]. split; [exact Hpre|]. intros rr. cbv zeta.
  set (G := d_next_gw (y_d s)) in *.
  assert (HOOK : forall h, In (OHook h) outs <-> In (OHook h) vo).
  { intros h. rewrite Eo. apply (In_vfilter_hook N X0). }
  assert (SPID : forall id sp, In (OHook (HSpawn id sp)) outs -> id = G /\ d_next_gw d' = S G).
  { intros id sp Hin. apply HOOK in Hin. exact (hx_sp _ _ _ _ _ _ _ _ E id sp Hin). }
  assert (OUTG : forall m, G <= m -> cmds_to m outs = []).
  { intros m Hm. rewrite Eo, cmds_to_vfilter, (hx_out _ _ _ _ _ _ _ _ E m Hm). destruct (closedb (e_nt es) m); reflexivity. }
  set (sA := set_d (set_evq s q) d').
  destruct (apply_outs_frame outs sA) as (F1 & F2 & F3). cbn [sA set_d set_evq y_evq y_d y_dead] in F1, F2, F3.
  assert (UP : forall k, alist_get [] k (y_up (apply_outs sA outs)) = alist_get [] k (y_up s)).
  { intros k. rewrite apply_outs_up; [reflexivity|]. intros id sp Hin. destruct (SPID _ _ Hin) as (-> & _).
    cbn [sA set_d set_evq y_up]. apply (Hi G). lia. }
  split; [exact F2|]. split; [exact F3|]. split.
  { intros k. cbn [set_result y_down]. rewrite apply_outs_down; [reflexivity|]. intros id sp Hin. destruct (SPID _ _ Hin) as (-> & _).
    split; [apply OUTG; lia|]. cbn [sA set_d set_evq y_down]. apply (Hi G). lia. }
  split.
  { intros k Hk. cbn [set_result y_w]. rewrite apply_outs_w_none; [reflexivity|]. intros sp Hin. destruct (SPID _ _ Hin) as (-> & _). lia. }
  intros k. rewrite (sigs_head' s ev q k Eevq). unfold sigs. cbn [set_result y_evq y_up]. rewrite F1, UP. reflexivity.
Qed.

Lemma cmds_in_send m c0 vo : In c0 (cmds_to m vo) -> In (OSend m c0) vo.
Proof.
  induction vo as [|x vo IH]; intros H; [destruct H|]. unfold cmds_to in H. cbn [flat_map] in H.
  apply in_app_or in H. destruct H as [H|H]; [|right; apply IH; exact H].
  destruct x as [h|k c1| |]; cbn in H; try destruct H. destruct (Nat.eqb k m) eqn:E; [|destruct H].
  apply Nat.eqb_eq in E. subst k. destruct H as [->|[]]. left. reflexivity.
Qed.

Lemma skipn_cons_app {A} (a : list A) b : skipn (length a) (a ++ b) = b.
Proof. rewrite skipn_app, Nat.sub_diag, skipn_all. reflexivity. Qed.

(* a started node only gets the shutdown command any more *)
Lemma FX_started K f cs f' : FX K true true f cs f' -> cs = [] \/ cs = [CShutdown].
Proof. intros H. inversion H; auto. Qed.
Lemma FX_started' K st' f cs f' : FX K true st' f cs f' -> cs = [] \/ cs = [CShutdown].
Proof. intros H. inversion H; auto. Qed.

Section CtlStep.
Variables (s : sys) (ev : cevent) (q : list cevent) (d' : dstate) (outs : list out) (rr : option result_kind).
Variables (es es' : estate) (vo : list out).
Let s' := set_result (apply_outs (set_d (set_evq s q) d') outs) rr.
Hypothesis X : XE c s.
Hypothesis X' : XE c s'.
Hypothesis Eevq : y_evq s = ev :: q.
Hypothesis DJd : DXb N X0 (y_d s) es.
Hypothesis NIs : forall n w, aget n (y_w s) = Some w -> NodeInvX X0 s es n w.
Hypothesis Eo : outs = vfilter (e_nt es) vo.
Hypothesis E : HEFFx N X0 ev (y_d s) es d' es' vo.
Hypothesis DJ2 : DXb N X0 d' es'.
Hypothesis Sd : y_d s' = d'.
Hypothesis Sdead : y_dead s' = y_dead s.
Hypothesis Sdown : forall k, alist_get [] k (y_down s') =
     if mem_nat k (y_dead s) then alist_get [] k (y_down s) else alist_get [] k (y_down s) ++ cmds_to k outs.
Hypothesis Sw : forall k, k < d_next_gw (y_d s) -> aget k (y_w s') = aget k (y_w s).
Hypothesis Ssig : forall k, sigs s k = ev_sigs_for k ev ++ sigs s' k.
Hypothesis Hss' : d_shouldstop d' = false.
Hypothesis CF2 : forall n, ev = QErrorDown n ->
  e_removed es' = match tl (bkE es n) with [] => e_removed es | rest => aset n rest (e_removed es) end.
Hypothesis Hpre : PREx X0 ev (y_d s) es.

Let G := d_next_gw (y_d s).

Lemma cs_els : d_sched (y_d s) = StE es.
Proof. destruct DJd as ([Els _ _ _ _ _ _ _ _] & _). exact Els. Qed.
Lemma cs_J : EX N X0 G es.
Proof. destruct DJd as ([_ J _ _ _ _ _ _ _] & _). exact J. Qed.
Lemma cs_J' : EX N X0 (d_next_gw d') es'.
Proof. destruct DJ2 as ([_ J _ _ _ _ _ _ _] & _). exact J. Qed.
Lemma cs_ss : d_shouldstop (y_d s) = false.
Proof. destruct (d_shouldstop (y_d s)) eqn:Es; [|reflexivity]. rewrite (hx_ss _ _ _ _ _ _ _ _ E Es) in Hss'. discriminate. Qed.
Lemma cs_gw : G <= d_next_gw d'.
Proof. destruct (hx_gw _ _ _ _ _ _ _ _ E) as [A|(A & _)]; fold G in A; lia. Qed.
Lemma cs_act_lt m : In m (d_active (y_d s)) -> m < G.
Proof. destruct DJd as ([_ _ _ Act _ _ _ _ _] & _). apply Act. Qed.

Lemma cs_ran r : r < G -> ran_of s' r = ran_of s r.
Proof. intros H. unfold ran_of. rewrite (Sw r H). reflexivity. Qed.

(* chains are frozen *)
Lemma cs_chain x l : ChainOK s x l -> ChainOK s' x l /\ cover s' l = cover s l.
Proof.
  intros (ND & Hl). split.
  - split; [exact ND|]. intros r g Hin. destruct (Hl r g Hin) as (A & B & C0 & D & F). rewrite Sd, Sdead.
    split; [|split; [pose proof cs_gw; fold G in B; lia|auto]].
    intros Hr. destruct (hx_actb _ _ _ _ _ _ _ _ E r Hr) as [Y|(Y & _)]; [contradiction|]. fold G in B, Y. lia.
  - apply cover_ext. intros r Hin. apply in_map_iff in Hin. destruct Hin as ([r' g] & <- & Hin).
    destruct (Hl r' g Hin) as (_ & B & _). apply cs_ran. exact B.
Qed.

Lemma cs_schedn_mono x : SchedN es x -> SchedN es' x.
Proof.
  intros (A & B). pose proof cs_J as J.
  assert (C0 : e_completed es = true).
  { destruct (e_completed es) eqn:C0; [reflexivity|]. destruct (ex_pre _ _ _ _ J C0) as (S0 & _). rewrite S0 in A. destruct A. }
  split; [|apply (hx_keep _ _ _ _ _ _ _ _ E C0); exact B].
  assert (HxG : x < G) by (apply (ex_stk _ _ _ _ J); exact A).
  pose proof (hx_fx _ _ _ _ _ _ _ _ E x HxG) as R.
  assert (Est : stb es x = true) by (apply mem_nat_In; exact A).
  destruct (aget x (e_nt es)) as [f|] eqn:Ef; [|exfalso; apply (proj2 (ex_ntk _ _ _ _ J x) HxG); exact Ef].
  destruct (aget x (e_nt es')) as [f'|]; cbn [FXo] in R; [|contradiction]. apply mem_nat_In. eapply FX_mono; eauto.
Qed.

(* the commands a started node gets carry no test *)
Lemma cs_started_cmds m : In m (e_started es) -> cmds_to m vo = [] \/ cmds_to m vo = [CShutdown].
Proof.
  intros A. pose proof cs_J as J.
  assert (HxG : m < G) by (apply (ex_stk _ _ _ _ J); exact A).
  pose proof (hx_fx _ _ _ _ _ _ _ _ E m HxG) as R.
  assert (Est : stb es m = true) by (apply mem_nat_In; exact A). rewrite Est in R.
  destruct (aget m (e_nt es)) as [f|] eqn:Ef; [|exfalso; apply (proj2 (ex_ntk _ _ _ _ J m) HxG); exact Ef].
  destruct (aget m (e_nt es')) as [f'|]; cbn [FXo] in R; [|contradiction]. eapply FX_started'; eauto.
Qed.

(* what an active node that stays active contributes does not change *)
Lemma cs_part m : In m (d_active (y_d s)) -> SchedN es m -> In m (d_active d') -> part s' es' m = part s es m.
Proof.
  intros Hact (Hst & Hn2c) Hact'. pose proof (cs_act_lt m Hact) as HmG.
  destruct (aget m (y_w s)) as [w|] eqn:Ew; [|exfalso; exact (xe_lo _ _ X m HmG Ew)].
  unfold part. rewrite (Sw m HmG), Ew, Sdead.
  destruct (NIs m w Ew) as (Iw & _ & D).
  destruct (cs_started_cmds m Hst) as [Ecs|Ecs].
  - destruct (mem_nat m (y_dead s)) eqn:Hd.
    + (* dead, errordown pending *)
      destruct D as [D1 D2 _]. rewrite (hx_bk _ _ _ _ _ _ _ _ E m), Ecs. cbn [flat_map]. rewrite app_nil_r.
      f_equal. rewrite (Ssig m).
      assert (CPL : NDXcpl X0 es m (sigs s m) w).
      { destruct D2 as [pre f X1 X2 X3 X4 X5 X6 X7|q1 q2 X1 X2 X3 X4 X5 X6 X7|X1 X2 X3 X4 X5]; [exact X7|exact X7|contradiction]. }
      destruct CPL as (lost & Cp). rewrite (Ssig m) in Cp.
      unfold ev_sigs_for in *. destruct (ev_sig ev) as [[k g]|] eqn:Eg.
      * destruct (Nat.eqb k m) eqn:Ekm.
        -- apply Nat.eqb_eq in Ekm. subst k. destruct g as [| |i|b].
           ++ destruct ev; cbn in Eg; try discriminate. injection Eg as <-. reflexivity.
           ++ destruct ev; cbn in Eg; try discriminate. injection Eg as <-. reflexivity.
           ++ destruct ev; cbn in Eg; try discriminate. injection Eg as <- <-. cbn [bookmid' app completes flat_map].
              rewrite Nat.eqb_refl. cbn [app completes flat_map] in Cp. rewrite Cp. cbn [tl length plus skipn]. reflexivity.
           ++ exfalso. exact (hx_fin _ _ _ _ _ _ _ _ E m b Eg Hact').
        -- cbn [app]. destruct ev; cbn in Eg |- *; try reflexivity; try discriminate.
           injection Eg as <- _. rewrite (Nat.eqb_sym m n), Ekm. reflexivity.
      * cbn [app]. destruct ev; cbn in Eg |- *; try discriminate; try reflexivity.
        destruct (Nat.eqb m n) eqn:Emn; [|reflexivity]. apply Nat.eqb_eq in Emn. subst n.
        exfalso. destruct (hx_err _ _ _ _ _ _ _ _ E m eq_refl) as (_ & F). exact (F Hact').
    + rewrite Sdown, Hd. destruct D as [_ _ _ D5 _].
      assert (CM : cmds_to m outs = cmds_to m vo) by (rewrite Eo, cmds_to_vfilter, D5; reflexivity).
      rewrite CM, Ecs, app_nil_r. reflexivity.
  - destruct (mem_nat m (y_dead s)) eqn:Hd.
    + destruct D as [D1 D2 _]. rewrite (hx_bk _ _ _ _ _ _ _ _ E m), Ecs. cbn [flat_map]. rewrite cinds_shutdown, app_nil_r.
      f_equal. rewrite (Ssig m).
      assert (CPL : NDXcpl X0 es m (sigs s m) w).
      { destruct D2 as [pre f X1 X2 X3 X4 X5 X6 X7|q1 q2 X1 X2 X3 X4 X5 X6 X7|X1 X2 X3 X4 X5]; [exact X7|exact X7|contradiction]. }
      destruct CPL as (lost & Cp). rewrite (Ssig m) in Cp.
      unfold ev_sigs_for in *. destruct (ev_sig ev) as [[k g]|] eqn:Eg.
      * destruct (Nat.eqb k m) eqn:Ekm.
        -- apply Nat.eqb_eq in Ekm. subst k. destruct g as [| |i|b].
           ++ destruct ev; cbn in Eg; try discriminate. injection Eg as <-. reflexivity.
           ++ destruct ev; cbn in Eg; try discriminate. injection Eg as <-. reflexivity.
           ++ destruct ev; cbn in Eg; try discriminate. injection Eg as <- <-. cbn [bookmid' app completes flat_map].
              rewrite Nat.eqb_refl. cbn [app completes flat_map] in Cp. rewrite Cp. cbn [tl length plus skipn]. reflexivity.
           ++ exfalso. exact (hx_fin _ _ _ _ _ _ _ _ E m b Eg Hact').
        -- cbn [app]. destruct ev; cbn in Eg |- *; try reflexivity; try discriminate.
           injection Eg as <- _. rewrite (Nat.eqb_sym m n), Ekm. reflexivity.
      * cbn [app]. destruct ev; cbn in Eg |- *; try discriminate; try reflexivity.
        destruct (Nat.eqb m n) eqn:Emn; [|reflexivity]. apply Nat.eqb_eq in Emn. subst n.
        exfalso. destruct (hx_err _ _ _ _ _ _ _ _ E m eq_refl) as (_ & F). exact (F Hact').
    + rewrite Sdown, Hd. destruct D as [_ _ _ D5 _].
      assert (CM : cmds_to m outs = cmds_to m vo) by (rewrite Eo, cmds_to_vfilter, D5; reflexivity).
      rewrite CM, Ecs, flat_map_app, app_assoc, item_inds_app. cbn [flat_map citems item_inds app]. rewrite app_nil_r. reflexivity.
Qed.

(* a node that was not started and is handed tests by a run command contributes exactly these tests *)
Lemma cs_fresh x c0 :
  ~ In x (e_started es) -> bkE es x = [] -> In c0 (cmds_to x vo) -> is_run c0 -> In x (e_nodes es') ->
  In x (d_active d') /\ x < G /\ part s' es' x = cinds X0 x c0.
Proof.
  intros Hns Hbk Hc Hr Hn'. pose proof cs_J as J. pose proof cs_J' as J'.
  assert (Hact' : In x (d_active d')).
  { destruct DJ2 as ([_ _ _ _ _ _ _ _ Jbb'] & _). apply (Jbb' Hss'). exact Hn'. }
  assert (HxG : x < G).
  { destruct (Nat.lt_ge_cases x G) as [H|H]; [exact H|]. exfalso.
    rewrite (hx_out _ _ _ _ _ _ _ _ E x H) in Hc. destruct Hc. }
  split; [exact Hact'|]. split; [exact HxG|].
  destruct (aget x (y_w s)) as [w|] eqn:Ew; [|exfalso; exact (xe_lo _ _ X x HxG Ew)].
  unfold part. rewrite (Sw x HxG), Ew, Sdead.
  destruct (NIs x w Ew) as (Iw & _ & D).
  pose proof (hx_fx _ _ _ _ _ _ _ _ E x HxG) as R.
  assert (Est : stb es x = false) by (apply mem_nat_false; exact Hns). rewrite Est in R.
  destruct (aget x (e_nt es)) as [f|] eqn:Ef; [|exfalso; apply (proj2 (ex_ntk _ _ _ _ J x) HxG); exact Ef].
  destruct (aget x (e_nt es')) as [f'|]; cbn [FXo] in R; [|contradiction].
  assert (CS : n_sdsent f = false /\ (cmds_to x vo = [c0] \/ cmds_to x vo = [c0; CShutdown])).
  { clear Est. remember (cmds_to x vo) as cs eqn:Ecs0. remember false as st0 eqn:E0. remember (stb es' x) as st1 eqn:E1.
    clear Ecs0 E0 E1. destruct R as [st st1 f0 Hm|st st1 f0 Hm Hs|f0 c1 a Hs Hr1 Hc1|f0 c1 a Hs Hr1 Hc1].
    - destruct Hc.
    - destruct Hc as [<-|[]]. destruct Hr.
    - destruct Hc as [<-|[]]. auto.
    - destruct Hc as [<-|[<-|[]]]; [auto|destruct Hr]. }
  destruct CS as (Hs0 & Ecs).
  assert (IC : flat_map (cinds X0 x) (cmds_to x vo) = cinds X0 x c0).
  { destruct Ecs as [-> | ->]; cbn [flat_map]; rewrite ?cinds_shutdown, ?app_nil_r; reflexivity. }
  destruct (mem_nat x (y_dead s)) eqn:Hd.
  - destruct D as [D1 D2 _].
    assert (Hact : In x (d_active (y_d s))).
    { destruct (hx_actb _ _ _ _ _ _ _ _ E x Hact') as [Y|(Y & _)]; [exact Y|]. fold G in Y. lia. }
    assert (CPL : NDXcpl X0 es x (sigs s x) w).
    { destruct D2 as [pre f1 X1 X2 X3 X4 X5 X6 X7|q1 q2 X1 X2 X3 X4 X5 X6 X7|X1 X2 X3 X4 X5]; [exact X7|exact X7|contradiction]. }
    destruct CPL as (lost & Cp). rewrite Hbk in Cp. symmetry in Cp.
    apply app_eq_nil in Cp. destruct Cp as (C1 & C2). apply app_eq_nil in C2. destruct C2 as (C2 & _).
    unfold owedE in C2. apply app_eq_nil in C2. destruct C2 as (C2 & _).
    rewrite owed_main_split in C2. apply app_eq_nil in C2. destruct C2 as (C2 & _).
    rewrite (ndx_ns _ _ _ _ _ D1 Hns), C2. cbn [app length].
    rewrite (Ssig x), completes_app in C1. apply app_eq_nil in C1. destruct C1 as (_ & C1). rewrite C1. cbn [length plus skipn].
    rewrite (hx_bk _ _ _ _ _ _ _ _ E x), Hbk, IC.
    assert (B0 : bookmid' ev x [] = []) by (destruct ev; cbn; try reflexivity; destruct (Nat.eqb x n); reflexivity).
    rewrite B0. reflexivity.
  - rewrite Sdown, Hd. destruct D as [D1 _ _ D5 _].
    assert (CM : cmds_to x outs = cmds_to x vo) by (rewrite Eo, cmds_to_vfilter, D5; reflexivity).
    destruct (nx_flags _ _ _ _ _ _ _ _ D1) as (f1 & Ef1 & Mk & _). assert (f1 = f) by congruence. subst f1.
    rewrite Est, Hs0 in Mk. rewrite CM, flat_map_app, app_assoc, (stream_x_fresh _ _ Mk). cbn [app].
    rewrite <- (cinds_itemsX X0). exact IC.
Qed.

(* a worker that finishes without a stop request has started everything it was sent *)
Lemma cs_finish m :
  ev = QFinished m SKNone -> SchedN es m ->
  part s es m = ran_of s m /\ mem_nat m (y_dead s) = false.
Proof.
  intros -> _.
  destruct (head_nodeX c s es _ q m (SgFin false) X NIs Eevq eq_refl) as (w & L & Ew & Es & Hact & HH).
  destruct HH as [(Hd & D1)|(_ & D1 & _)]; [|exfalso; apply (NDX_nofin _ _ _ _ _ false D1); left; reflexivity].
  split; [|exact Hd]. unfold part, ran_of. rewrite Ew, Hd.
  destruct (NIs m w Ew) as (Iw & _ & _).
  destruct (nx_flags _ _ _ _ _ _ _ _ D1) as (f & Ef & Mk & _).
  pose proof (nx_chan _ _ _ _ _ _ _ _ D1) as Ch. destruct (chan_ok_fin_head _ _ _ Ch) as (_ & Hk). apply prank_4 in Hk.
  pose proof (nx_fm _ _ _ _ _ _ _ _ D1 (or_introl (or_introl eq_refl))) as MP.
  pose proof (exited_sdsent_x _ _ _ _ _ Iw Hk Mk MP) as Hs. rewrite Hs in Mk.
  destruct Mk as (A & EA & _). rewrite EA, item_inds_app, item_inds_map_idx. cbn. rewrite app_nil_r.
  symmetry. eapply exited_ran_all; eauto.
Qed.

(* the errordown of a dead worker: the crash item is the test it was running, or else the first test
   it had not started (which is then counted with it); the rest of its book is the remainder *)
Lemma cs_errd n :
  ev = QErrorDown n -> In n (d_active (y_d s)) ->
  exists w g, aget n (y_w s) = Some w /\ In n (y_dead s) /\ length g <= 1 /\
    part s es n = ran_idx w ++ g ++ tl (bkE es n).
Proof.
  intros -> Hact. pose proof (cs_act_lt n Hact) as HnG.
  destruct (aget n (y_w s)) as [w|] eqn:Ew; [|exfalso; exact (xe_lo _ _ X n HnG Ew)].
  destruct (NIs n w Ew) as (Iw & _ & D).
  assert (HIN : In (QErrorDown n) (y_evq s)) by (rewrite Eevq; left; reflexivity).
  assert (ERR : is_errd n (QErrorDown n) = true) by (cbn; apply Nat.eqb_refl).
  destruct (mem_nat n (y_dead s)) eqn:Hd.
  2:{ exfalso. destruct D as [_ _ D4 _ _]. rewrite (D4 _ HIN) in ERR. discriminate. }
  destruct D as [D1 D2 _].
  destruct D2 as [pre f X1 X2 X3 X4 X5 X6 X7|q1 q2 X1 X2 X3 X4 X5 X6 X7|X1 X2 X3 X4 X5].
  - exfalso. rewrite (X5 _ HIN) in ERR. discriminate.
  - (* the errordown heads the queue: no signal of the node is left *)
    assert (Eq1 : q1 = []).
    { destruct q1 as [|e1 q1']; [reflexivity|]. exfalso. rewrite Eevq in X2. cbn [app] in X2. injection X2 as E1 _.
      subst e1. specialize (X4 (QErrorDown n) (or_introl eq_refl)). rewrite ERR in X4. discriminate. }
    subst q1. cbn [app] in X2. rewrite Eevq in X2. injection X2 as <-.
    assert (Sg0 : sigs s n = []).
    { unfold sigs. rewrite Eevq, X1. cbn [evq_sigs flat_map ev_sigs_for ev_sig app]. rewrite app_nil_r. exact X3. }
    destruct X7 as (lost & Cp). rewrite Sg0 in Cp. cbn [completes flat_map app] in Cp.
    unfold owedE in Cp. rewrite owed_main_split, <- !app_assoc in Cp.
    exists w. unfold part. rewrite Ew, Hd, Sg0. cbn [completes flat_map length plus].
    apply mem_nat_In in Hd.
    unfold running in *. destruct (wph w) as [| | | | | |cur nxt sc| |] eqn:Ep;
      try (exists (firstn 1 (bkE es n)); split; [reflexivity|]; split; [exact Hd|]; split; [apply firstn_le_length|];
           cbn [length skipn]; destruct (bkE es n); reflexivity).
    exists []. split; [reflexivity|]. split; [exact Hd|]. split; [cbn; lia|].
    cbn [length app]. rewrite Cp. reflexivity.
  - exfalso. rewrite (X2 _ HIN) in ERR. discriminate.
Qed.

Lemma NoDup_app_single (l : list nat) m : NoDup l -> ~ In m l -> NoDup (l ++ [m]).
Proof.
  intros ND Hn. apply Permutation_NoDup with (l := m :: l); [apply Permutation_cons_append|constructor; assumption].
Qed.

Lemma ChainOK_coll s0 x y l : X0 x = X0 y -> ChainOK s0 x l -> ChainOK s0 y l.
Proof.
  intros Exy (ND & Hl). split; [exact ND|]. intros r g Hin. destruct (Hl r g Hin) as (A & B & C0 & D). rewrite <- Exy. auto.
Qed.

Lemma ChainOK_member s0 x l r : ChainOK s0 x l -> In r (map fst l) -> ~ In r (d_active (y_d s0)).
Proof.
  intros (_ & Hl) Hin. apply in_map_iff in Hin. destruct Hin as ([r' g] & <- & Hin). exact (proj1 (Hl r' g Hin)).
Qed.

(* a node leaves the active set: it is appended to the chains that ended in it *)
Lemma cs_extend x l m g :
  ChainOK s x l -> In m (d_active (y_d s)) -> ~ In m (d_active d') -> X0 m = X0 x ->
  length g <= 1 -> (g <> [] -> In m (y_dead s)) ->
  ChainOK s' x (l ++ [(m, g)]) /\ cover s' (l ++ [(m, g)]) = cover s l ++ ran_of s m ++ g.
Proof.
  intros Ok Hact Hout Exm Hg Hgd. destruct (cs_chain x l Ok) as ((ND & Hl) & Ec).
  pose proof (cs_act_lt m Hact) as HmG. split.
  - split.
    + rewrite map_app. cbn [map fst]. apply NoDup_app_single; [exact ND|]. intros F. exact (ChainOK_member s x l m Ok F Hact).
    + intros r g0 Hin. apply in_app_or in Hin. destruct Hin as [Hin|[Hin|[]]]; [apply Hl; exact Hin|].
      injection Hin as <- <-. rewrite Sd, Sdead. split; [exact Hout|]. split; [pose proof cs_gw; lia|]. auto.
  - rewrite cover_app, Ec. cbn [cover flat_map fst snd]. rewrite app_nil_r, (cs_ran m HmG). reflexivity.
Qed.

Lemma sched_book_nonempty x : bkE es x <> [] -> SchedN es x.
Proof.
  intros Hb. pose proof cs_J as J.
  assert (C0 : e_completed es = true).
  { destruct (e_completed es) eqn:C0; [reflexivity|]. destruct (ex_pre _ _ _ _ J C0) as (_ & _ & B). rewrite B in Hb. contradiction. }
  split; [|apply (ex_bkc _ _ _ _ J); exact Hb].
  destruct (in_dec Nat.eq_dec x (e_started es)) as [H|H]; [exact H|]. exfalso.
  assert (Hn : In x (e_nodes es)).
  { destruct (in_dec Nat.eq_dec x (e_nodes es)) as [Y|Y]; [exact Y|]. rewrite (bkE_notin _ _ Y) in Hb. contradiction. }
  destruct (ex_ns _ _ _ _ J C0 x Hn H) as (B & _). contradiction.
Qed.

Lemma cs_main : CH s -> CH s'.
Proof.
  intros Hch es0 Els0 Hss0. rewrite Sd in Els0.
  assert (es0 = es') by (destruct DJ2 as ([E0 _ _ _ _ _ _ _ _] & _); congruence). subst es0. clear Hss0.
  destruct (Hch es cs_els cs_ss) as (HA & HR).
  pose proof cs_J as J.
  assert (RNA : forall d rest, aget d (e_removed es) = Some rest -> ~ In d (d_active (y_d s))).
  { intros d rest Ed. destruct (HR d rest Ed) as (l & Ok & Hin & _). exact (ChainOK_member s d l d Ok Hin). }
  (* the errordown of an active node that has been handed tests *)
  assert (ERRD : forall k x l, ev = QErrorDown k -> In k (d_active (y_d s)) -> ChainOK s x l -> X0 k = X0 x ->
            seq 0 (Kx x) = cover s l ++ part s es k ->
            exists l', ChainOK s' x l' /\ In k (map fst l') /\ (forall y, In y (map fst l) -> In y (map fst l')) /\
              seq 0 (Kx x) = cover s' l' ++ tl (bkE es k)).
  { intros k x l Eev Hk Ok Ekx Eq0. destruct (cs_errd k Eev Hk) as (w & g & Ew & Hd & Hg & Ep).
    destruct (hx_err _ _ _ _ _ _ _ _ E k Eev) as (_ & Hout).
    destruct (cs_extend x l k g Ok Hk Hout Ekx Hg (fun _ => Hd)) as (Ok' & Ec).
    exists (l ++ [(k, g)]). split; [exact Ok'|]. split; [rewrite map_app; apply in_or_app; right; left; reflexivity|].
    split; [intros y Hy; rewrite map_app; apply in_or_app; left; exact Hy|].
    rewrite Ec, Eq0, Ep. unfold ran_of. rewrite Ew, <- !app_assoc. reflexivity. }
  (* nodes that had been handed tests before *)
  assert (OLD : forall x, SchedN es x -> exists l, ChainOK s' x l /\ Tracked s' es' x l).
  { intros x Hx. destruct (HA x Hx) as (l & Ok & T). destruct (cs_chain x l Ok) as (Ok' & Ec).
    destruct T as [(Hin & Eq0)|[(Hin & d & rest & Ed & Exd & Eq0)|(m & Hact & Hor & Hsm & Exm & Eq0)]].
    - exists l. split; [exact Ok'|]. left. rewrite Ec. auto.
    - destruct (hx_rmv _ _ _ _ _ _ _ _ E) as [(R1 & R2 & R3)|[(k & R1 & R2)|(n & d0 & pend & R1 & R2 & R3 & R4 & R5 & R6 & R7 & R8 & R9 & R10 & R11 & R12)]].
      + exists l. split; [exact Ok'|]. right. left. split; [exact Hin|]. exists d, rest. rewrite R1, Ec. auto.
      + exists l. split; [exact Ok'|]. right. left. split; [exact Hin|]. exists d, rest. rewrite Ec. split; [|auto].
        rewrite (CF2 k R1). assert (Hk : In k (d_active (y_d s))) by (rewrite R1 in Hpre; exact Hpre).
        assert (Hdk : d <> k) by (intros ->; exact (RNA k rest Ed Hk)).
        destruct (tl (bkE es k)); [exact Ed|]. rewrite ea_get_set_neq by exact Hdk. exact Ed.
      + destruct (Nat.eq_dec d d0) as [->|Hd0].
        * assert (rest = pend) by congruence. subst rest.
          assert (Hc0 : In (CRun pend) (cmds_to n vo)) by exact R10.
          destruct (cs_fresh n (CRun pend) R7 R8 Hc0 I R11) as (Hn' & HnG & Ep).
          exists l. split; [exact Ok'|]. right. right. exists n. split; [rewrite Sd; exact Hn'|].
          split; [right; exact Hin|]. split; [exact R12|]. split; [congruence|].
          rewrite Ec, Ep, cinds_run. exact Eq0.
        * exists l. split; [exact Ok'|]. right. left. split; [exact Hin|]. exists d, rest. rewrite Ec. split; [|auto].
          rewrite R5, ea_get_del_neq by exact Hd0. exact Ed.
    - destruct (in_dec Nat.eq_dec m (d_active d')) as [Hin'|Hout].
      + exists l. split; [exact Ok'|]. right. right. exists m. rewrite Sd. split; [exact Hin'|]. split; [exact Hor|].
        split; [apply cs_schedn_mono; exact Hsm|]. split; [exact Exm|]. rewrite Ec, (cs_part m Hact Hsm Hin'). exact Eq0.
      + destruct (hx_act _ _ _ _ _ _ _ _ E m Hact) as [Y|[(b & Y)|Y]]; [contradiction| |].
        * destruct b; [rewrite (hx_stop _ _ _ _ _ _ _ _ E m Y) in Hss'; discriminate|].
          assert (Eev : ev = QFinished m SKNone).
          { destruct ev; cbn in Y; try discriminate. injection Y as -> Y. destruct sk; try discriminate. reflexivity. }
          destruct (cs_finish m Eev Hsm) as (Ep & Hd).
          destruct (cs_extend x l m [] Ok Hact Hout Exm (Nat.le_0_l _) (fun F => False_ind _ (F eq_refl))) as (Ok2 & Ec2).
          exists (l ++ [(m, [])]). split; [exact Ok2|]. left. split.
          -- rewrite map_app. apply in_or_app. destruct Hor as [->|Hor]; [right; left; reflexivity|left; exact Hor].
          -- rewrite Ec2, app_nil_r, Eq0, Ep. reflexivity.
        * destruct (ERRD m x l Y Hact Ok Exm Eq0) as (l' & Ok2 & Hm' & Hsub & Eq2).
          exists l'. split; [exact Ok2|].
          assert (Hxl : In x (map fst l')) by (destruct Hor as [->|Hor]; [exact Hm'|apply Hsub; exact Hor]).
          destruct (tl (bkE es m)) as [|t0 tr] eqn:Etl.
          -- left. split; [exact Hxl|]. rewrite app_nil_r in Eq2. exact Eq2.
          -- right. left. split; [exact Hxl|]. exists m, (t0 :: tr). rewrite (CF2 m Y), Etl, ea_get_set_eq. auto. }
  split.
  - intros x Hx. destruct (hx_new _ _ _ _ _ _ _ _ E x Hx) as [Hold|(c0 & Hc & Hr & Hns & Hbk & Hn')]; [apply OLD; exact Hold|].
    destruct (cs_fresh x c0 Hns Hbk Hc Hr Hn') as (Hact' & HxG & Ep).
    assert (NOCR : no_crun vo -> c0 = CRunAll).
    { intros NC. destruct c0; try contradiction; [|reflexivity]. exfalso. apply (NC x ixs). apply cmds_in_send. exact Hc. }
    assert (ROOT : c0 = CRunAll -> exists l, ChainOK s' x l /\ Tracked s' es' x l).
    { intros ->. exists []. split; [split; [constructor|intros r g []]|]. right. right. exists x. rewrite Sd.
      split; [exact Hact'|]. split; [left; reflexivity|]. split; [exact Hx|]. split; [reflexivity|].
      rewrite Ep, cinds_runall. reflexivity. }
    destruct (hx_rmv _ _ _ _ _ _ _ _ E) as [(R1 & R2 & R3)|[(k & R1 & R2)|(n & d0 & pend & R1 & R2 & R3 & R4 & R5 & R6 & R7 & R8 & R9 & R10 & R11 & R12)]].
    + apply ROOT. apply NOCR. exact R2.
    + apply ROOT. apply NOCR. exact R2.
    + destruct (R9 x c0 (cmds_in_send _ _ _ Hc) Hr) as (-> & ->).
      destruct (HR d0 pend R2) as (l & Ok & Hin & Eq0). destruct (cs_chain d0 l Ok) as (Ok' & Ec).
      exists l. split; [apply (ChainOK_coll s' d0 n l R3 Ok')|]. right. right. exists n. rewrite Sd.
      split; [exact Hact'|]. split; [left; reflexivity|]. split; [exact Hx|]. split; [reflexivity|].
      rewrite Ec, Ep, cinds_run, <- R3. exact Eq0.
  - intros d rest Ed.
    assert (KEEP : aget d (e_removed es) = Some rest ->
              exists l, ChainOK s' d l /\ In d (map fst l) /\ seq 0 (Kx d) = cover s' l ++ rest).
    { intros Ed0. destruct (HR d rest Ed0) as (l & Ok & Hin & Eq0). destruct (cs_chain d l Ok) as (Ok' & Ec).
      exists l. rewrite Ec. auto. }
    destruct (hx_rmv _ _ _ _ _ _ _ _ E) as [(R1 & R2 & R3)|[(k & R1 & R2)|(n & d0 & pend & R1 & R2 & R3 & R4 & R5 & R6 & R7 & R8 & R9 & R10 & R11 & R12)]].
    + apply KEEP. rewrite <- R1. exact Ed.
    + rewrite (CF2 k R1) in Ed. destruct (tl (bkE es k)) as [|t0 tr] eqn:Etl; [apply KEEP; exact Ed|].
      destruct (Nat.eq_dec d k) as [->|Hdk]; [|rewrite ea_get_set_neq in Ed by exact Hdk; apply KEEP; exact Ed].
      rewrite ea_get_set_eq in Ed. injection Ed as <-.
      assert (Hk : In k (d_active (y_d s))) by (rewrite R1 in Hpre; exact Hpre).
      assert (Hbk : bkE es k <> []) by (intros F; rewrite F in Etl; discriminate).
      destruct (HA k (sched_book_nonempty k Hbk)) as (l & Ok & T).
      assert (EQK : seq 0 (Kx k) = cover s l ++ part s es k).
      { destruct T as [(Hin & _)|[(Hin & _)|(m & Hact & Hor & _ & _ & Eq0)]].
        - exfalso. exact (ChainOK_member s k l k Ok Hin Hk).
        - exfalso. exact (ChainOK_member s k l k Ok Hin Hk).
        - destruct Hor as [->|Hor]; [exact Eq0|]. exfalso. exact (ChainOK_member s k l k Ok Hor Hk). }
      destruct (ERRD k k l R1 Hk Ok eq_refl EQK) as (l' & Ok2 & Hm' & _ & Eq2).
      exists l'. rewrite Etl in Eq2. auto.
    + rewrite R5 in Ed. destruct (aget_adel_some _ _ _ _ (ex_rmnd _ _ _ _ J) Ed) as (_ & Ed0). apply KEEP. exact Ed0.
Qed.
End CtlStep.

(* ---- every step ---- *)
Lemma CH_step s l s' o w :
  XE c s -> CH s -> sys_step c s l = Some (s', o, w) -> XE c s' -> CH s'.
Proof.
  intros X Hch Hs X'. destruct (label_eq_ctl l) as [->|Hl]; [|exact (CH_step_nonctl s l s' o w X Hch Hl Hs)].
  pose proof X as [Lo Hi _ _ _ Ea _ _ _].
  unfold sys_step in Hs. destruct (y_result s) eqn:Eres; [discriminate|].
  specialize (Ea eq_refl).
  destruct (d_active (y_d s)) as [|a0 ar] eqn:Eact; [contradiction|].
  destruct (y_evq s) as [|ev q] eqn:Eevq; [discriminate|].
  destruct (d_loop_once ev (y_d s)) as [[d' outs] r] eqn:El.
  destruct (step_ctl_coreX c Hpos Hrq s ev q d' outs r X Eres Eevq El) as (-> & _).
  destruct (ctl_shapeX s ev q d' outs X Eres Eevq El) as (es & es' & vo & DJd & NIs & Eo & E & DJ2 & CF2 & Hpre & SH).
  assert (GEN : forall rr, XE c (set_result (apply_outs (set_d (set_evq s q) d') outs) rr) ->
                CH (set_result (apply_outs (set_d (set_evq s q) d') outs) rr)).
  { intros rr Xr. destruct (SH rr) as (S1 & S2 & S3 & S4 & S5).
    intros es0 Els0 Hss0. revert es0 Els0 Hss0.
    change (CH (set_result (apply_outs (set_d (set_evq s q) d') outs) rr)).
    destruct (d_shouldstop d') eqn:Hss'.
    - intros es0 Els0 Hss0. rewrite S1 in Hss0. congruence.
    - eapply (cs_main s ev q d' outs rr es es' vo); eauto. }
  destruct (d_session_finished d') eqn:Efin'.
  - injection Hs as <- <- <-. apply GEN. exact X'.
  - destruct (d_active d') as [|b0 br] eqn:Eact'.
    + (* the error state is not a state of the invariant *)
      exfalso. destruct (d_no_active d') as [[d2 outs2] r2]. injection Hs as <- <- <-.
      destruct X' as [_ _ _ _ _ _ Er' _ _]. apply (Er' ERuntimeNoWorkers). reflexivity.
    + injection Hs as <- <- <-. assert (Er1 : y_result (apply_outs (set_d (set_evq s q) d') outs) = None).
      { rewrite apply_outs_result. cbn. exact Eres. }
      rewrite <- (set_result_same' _ None Er1). apply GEN. rewrite (set_result_same' _ None Er1). exact X'.
Qed.

Lemma CH_init : CH (sys_init c).
Proof.
  intros es Els _. cbn [sys_init y_d d_sched] in Els. rewrite Hmode in Els. cbn [s_init s_set_nt] in Els. injection Els as <-.
  split.
  - intros x (F & _). cbn in F. destruct F.
  - intros d rest F. cbn in F. discriminate.
Qed.

Lemma xe_ch_run ls : (XE c (sys_run c ls) /\ CH (sys_run c ls)) \/ ErrStX c (sys_run c ls).
Proof.
  unfold sys_run.
  assert (GEN : forall s, (XE c s /\ CH s) \/ ErrStX c s ->
     let s' := fold_left (fun s l => match sys_step c s l with Some (s', _, _) => s' | None => s end) ls s in
     (XE c s' /\ CH s') \/ ErrStX c s').
  { induction ls as [|l ls IH]; intros s Hs; cbn [fold_left]; [exact Hs|].
    apply IH. destruct (sys_step c s l) as [[[s' o] w]|] eqn:Es; [|exact Hs].
    destruct Hs as [(Xs & Cs)|(Hr & _)].
    - destruct (step_xe c Hng Hpos Hcoh Hrq s l s' o w Xs Es) as [X'|Er]; [left|right; exact Er].
      split; [exact X'|]. exact (CH_step s l s' o w Xs Cs Es X').
    - unfold sys_step in Es. rewrite Hr in Es. discriminate. }
  apply GEN. left. split; [apply XE_init; assumption|apply CH_init].
Qed.

(* what an active node contributes begins with what it has started *)
Lemma part_ran s es x : XE c s -> exists post, part s es x = ran_of s x ++ post.
Proof.
  intros [_ _ (es0 & _ & NIs) _ _ _ _ _ _]. unfold part, ran_of.
  destruct (aget x (y_w s)) as [w|] eqn:Ew; [|exists []; reflexivity].
  destruct (NIs x w Ew) as (Iw & _ & _). destruct (mem_nat x (y_dead s)); [eexists; reflexivity|].
  rewrite (stream_inds _ w _ Iw). eexists. reflexivity.
Qed.

Lemma chain_split s x l :
  ChainOK s x l -> In x (map fst l) ->
  exists l1 g l2, l = l1 ++ (x, g) :: l2 /\ ChainOK s x l1 /\ ~ In x (map fst l1).
Proof.
  intros (ND & Hl) Hin. apply in_map_iff in Hin. destruct Hin as ([x' g] & Ex & Hin). cbn in Ex. subst x'.
  apply in_split in Hin. destruct Hin as (l1 & l2 & ->). exists l1, g, l2. split; [reflexivity|].
  rewrite map_app in ND. cbn [map fst] in ND. split.
  - split; [apply nodup_app_l in ND; exact ND|]. intros r g0 Hr. apply Hl. apply in_or_app. left. exact Hr.
  - apply NoDup_remove_2 in ND. intros F. apply ND. apply in_or_app. left. exact F.
Qed.
End ChainX.

Section ChainMain.
  Variable c : config.
  Variable ls : list label.
  Hypothesis Hmode : c_mode c = MEach.
  Hypothesis Hnogarbled : no_garbled c.
  Hypothesis Hnodes : 0 < c_numnodes c.
  Hypothesis Hcoh : forall n, ncollected (c_oracle c n) = length (c_coll c n).
  Hypothesis Hrq : c_requeue c = 0.

  Let s := sys_run c ls.

  (* the chain invariant, in every reachable state in which the controller has not raised *)
  Theorem crash_each_chains : (forall e, y_result s <> Some (RError e)) -> XE c s /\ CH c s.
  Proof.
    intros Hne. destruct (xe_ch_run c Hmode Hnogarbled Hnodes Hcoh Hrq ls) as [H|(Hr & _)]; [exact H|].
    exfalso. exact (Hne _ Hr).
  Qed.

  (* C08 (b): what a node has started lies in the part of the collection that its predecessors --
     workers that are gone, with the same collection -- have left over: the remainder it inherited *)
  Theorem crash_each_runs_only_remainder :
    (forall e, y_result s <> Some (RError e)) ->
    forall es, d_sched (y_d s) = StE es -> d_shouldstop (y_d s) = false ->
    forall x, SchedN es x ->
    exists l post, ChainOK c s x l /\ ~ In x (map fst l) /\
      seq 0 (length (c_coll c x)) = cover s l ++ ran_of s x ++ post.
  Proof.
    intros Hne es Els Hss x Hx. destruct (crash_each_chains Hne) as (X & Hch).
    destruct (Hch es Els Hss) as (HA & _). destruct (HA x Hx) as (l & Ok & T).
    assert (SPLIT : forall R, In x (map fst l) -> seq 0 (length (c_coll c x)) = cover s l ++ R ->
              exists l1 post, ChainOK c s x l1 /\ ~ In x (map fst l1) /\
                seq 0 (length (c_coll c x)) = cover s l1 ++ ran_of s x ++ post).
    { intros R Hin Eq0. destruct (chain_split c s x l Ok Hin) as (l1 & g & l2 & -> & Ok1 & Hn1).
      exists l1. eexists. split; [exact Ok1|]. split; [exact Hn1|].
      rewrite Eq0, cover_app. cbn [cover flat_map fst snd]. rewrite <- !app_assoc. reflexivity. }
    destruct T as [(Hin & Eq0)|[(Hin & d & rest & _ & _ & Eq0)|(m & Hact & Hor & _ & _ & Eq0)]].
    - apply (SPLIT []); [exact Hin|rewrite app_nil_r; exact Eq0].
    - apply (SPLIT rest); assumption.
    - destruct Hor as [->|Hin]; [|apply (SPLIT (part c s es m)); assumption].
      destruct (part_ran c s es x X) as (post & Ep). exists l, post. split; [exact Ok|]. split.
      + intros F. exact (ChainOK_member c s x l x Ok F Hact).
      + rewrite Eq0, Ep. reflexivity.
  Qed.

  (* C08 (c): "the run does not finish before the remainder has been run".  When the session ends
     as "finished" and nothing is left in _removed2pending (no stand-off, and the restart budget has
     lasted), then for every node x that was handed tests there is a chain of workers -- x among them,
     all with the collection of x, pairwise distinct -- such that the tests they started, each member
     followed by the crash item reported for it when that item had not been started, are EXACTLY
     0 .. len(collection) - 1, in order: every test was started exactly once in total, or is one of
     the (at most one per dead worker) reported crash items *)
  Theorem crash_each_finished_cover :
    y_result s = Some RFinished ->
    forall es, d_sched (y_d s) = StE es -> e_removed es = [] ->
    forall x, SchedN es x ->
    exists l, ChainOK c s x l /\ In x (map fst l) /\ seq 0 (length (c_coll c x)) = cover s l.
  Proof.
    intros Hfin es Els Hrm x Hx.
    assert (Hne : forall e, y_result s <> Some (RError e)) by (intros e; rewrite Hfin; discriminate).
    destruct (crash_each_chains Hne) as (X & Hch).
    destruct (xe_fin _ _ X Hfin) as (Hsf & Hss).
    unfold d_session_finished in Hsf. apply andb_true_iff in Hsf. destruct Hsf as (_ & Hact).
    assert (Eact : d_active (y_d s) = []) by (destruct (d_active (y_d s)); [reflexivity|discriminate]).
    destruct (Hch es Els Hss) as (HA & _). destruct (HA x Hx) as (l & Ok & T).
    exists l. split; [exact Ok|].
    destruct T as [T|[(_ & d & rest & Ed & _)|(m & Hm & _)]]; [exact T| |].
    - rewrite Hrm in Ed. discriminate.
    - rewrite Eact in Hm. destruct Hm.
  Qed.

  Corollary crash_each_finished_exactly_once :
    y_result s = Some RFinished ->
    forall es, d_sched (y_d s) = StE es -> e_removed es = [] ->
    forall x, SchedN es x ->
    exists l, ChainOK c s x l /\ In x (map fst l) /\ NoDup (cover s l) /\
              forall i, i < length (c_coll c x) <-> In i (cover s l).
  Proof.
    intros Hfin es Els Hrm x Hx. destruct (crash_each_finished_cover Hfin es Els Hrm x Hx) as (l & Ok & Hin & Eq0).
    exists l. split; [exact Ok|]. split; [exact Hin|]. rewrite <- Eq0. split; [apply seq_NoDup|].
    intros i. rewrite in_seq. lia.
  Qed.

  (* while the restart budget lasts, "finished" implies that _removed2pending is empty *)
  Theorem crash_each_finished_nothing_left :
    y_result s = Some RFinished -> exhausted (y_d s) = false ->
    forall es, d_sched (y_d s) = StE es -> e_removed es = [].
  Proof.
    intros Hfin Hex es Els.
    assert (Hne : forall e, y_result s <> Some (RError e)) by (intros e; rewrite Hfin; discriminate).
    destruct (crash_each_chains Hne) as (X & _).
    destruct (xe_fin _ _ X Hfin) as (Hsf & Hss).
    unfold d_session_finished in Hsf. apply andb_true_iff in Hsf. destruct Hsf as (Hsd & _).
    destruct X as [_ _ (es0 & DJd & _) _ _ _ _ _ _]. destruct DJd as ([E0 _ _ _ _ _ H1 _ _] & _).
    assert (es0 = es) by congruence. subst es0. specialize (H1 Hsd). unfold reason in H1. rewrite Hss, Hex in H1.
    rewrite !orb_false_r in H1. destruct (tf_inv _ H1) as (_ & R & _). exact R.
  Qed.
End ChainMain.

Print Assumptions crash_each_runs_only_remainder.
Print Assumptions crash_each_finished_cover.
Print Assumptions crash_each_finished_nothing_left.
Check crash_each_chains.
Check crash_each_runs_only_remainder.
Check crash_each_finished_cover.
Check crash_each_finished_exactly_once.
Check crash_each_finished_nothing_left.

(* ====================================================================================== *)
(* D.6 one iteration of the controller loop in a reachable state: inheritance and crash     *)
(*     reports                                                                              *)
(* ====================================================================================== *)
Section StepMain.
  Variable c : config.
  Variable ls : list label.
  Hypothesis Hmode : c_mode c = MEach.
  Hypothesis Hnogarbled : no_garbled c.
  Hypothesis Hnodes : 0 < c_numnodes c.
  Hypothesis Hcoh : forall n, ncollected (c_oracle c n) = length (c_coll c n).
  Hypothesis Hrq : c_requeue c = 0.

  Let s := sys_run c ls.

  (* item 1: CRun is sent only to a late replacement n whose collectionfinish is being handled, and
     its argument is EXACTLY the remainder kept for a dead node d of the same spec class whose
     collection equals that of n; the entry of d is deleted from _removed2pending.  (A replacement
     that does not agree with the FIRST entry of its spec class, or finds none, gets no CRun: it is
     marked started and shut down -- lemma e_add_coll_late of CrashEach.v.) *)
  Theorem crash_each_inherit_exact ev q d' outs r n pend :
    y_result s = None -> y_evq s = ev :: q -> d_loop_once ev (y_d s) = (d', outs, r) ->
    In (OSend n (CRun pend)) outs ->
    forall es, d_sched (y_d s) = StE es ->
    exists d es', ev = QCollFinish n (c_coll c n) /\ aget d (e_removed es) = Some pend /\
      c_coll c d = c_coll c n /\ spec_of es d = spec_of es n /\
      ~ In n (e_started es) /\ alist_get [] n (e_n2p es) = [] /\
      d_sched d' = StE es' /\ e_removed es' = adel d (e_removed es) /\ alist_get [] n (e_n2p es') = pend.
  Proof.
    intros Eres Eevq El Hin es Els.
    destruct (xe_run c Hmode Hnogarbled Hnodes Hcoh Hrq ls) as [X|(Hr & _)]; [|fold s in Hr; congruence].
    fold s in X. pose proof X as [_ _ (es0 & DJd & NIs) _ _ _ _ _ _].
    assert (es0 = es) by (destruct DJd as ([E0 _ _ _ _ _ _ _ _] & _); congruence). subst es0.
    pose proof (pre_from_invX c s es ev q X DJd NIs Eevq) as Hpre.
    destruct (loop_once_okX _ _ Hnodes ev _ es d' outs r DJd Hpre El) as (-> & es' & vo & Eo & E & DJ2 & _).
    assert (Hin' : In (OSend n (CRun pend)) vo).
    { rewrite Eo in Hin. unfold vfilter in Hin. apply filter_In in Hin. tauto. }
    destruct (hx_rmv _ _ _ _ _ _ _ _ E) as [(_ & R2 & _)|[(k & _ & R2)|(n0 & d0 & pend0 & R1 & R2 & R3 & R4 & R5 & R6 & R7 & R8 & R9 & R10 & R11 & R12)]];
      [exfalso; exact (R2 _ _ Hin')|exfalso; exact (R2 _ _ Hin')|].
    destruct (R9 n (CRun pend) Hin' I) as (-> & Ep). injection Ep as ->.
    exists d0, es'. split; [exact R1|]. split; [exact R2|]. split; [exact R3|]. split; [exact R4|].
    split; [exact R7|]. split; [exact R8|]. split; [destruct DJ2 as ([E2 _ _ _ _ _ _ _ _] & _); exact E2|].
    split; [exact R5|].
    change (bkE es' n0 = pend0). rewrite (hx_bk _ _ _ _ _ _ _ _ E n0), R1. cbn [bookmid']. rewrite R8. cbn [app].
    pose proof (hx_dj _ _ _ _ _ _ _ _ E) as [_ J' _ _ _ _ _ _ _].
    pose proof X as [_ _ _ Eq _ _ _ _ _]. rewrite Eevq in Eq. inversion Eq as [|e1 q1 (Hok & Hn) _]; subst. cbn in Hn.
    pose proof (hx_fx _ _ _ _ _ _ _ _ E n0 Hn) as R.
    assert (Est : stb es n0 = false) by (apply mem_nat_false; exact R7). rewrite Est in R.
    destruct (aget n0 (e_nt es)) as [f|], (aget n0 (e_nt es')) as [f'|]; cbn [FXo] in R; try contradiction.
    - remember (cmds_to n0 vo) as cs eqn:Ecs. remember false as st0. remember (stb es' n0) as st1.
      clear Heqst0 Heqst1.
      assert (ONE : forall c1, In c1 cs -> is_run c1 -> c1 = CRun pend0).
      { intros c1 H1 H2. rewrite Ecs in H1. exact (proj2 (R9 n0 c1 (cmds_in_send _ _ _ H1) H2)). }
      rewrite Ecs in R10.
      destruct R as [st st1 f0 Hm|st st1 f0 Hm Hs|f0 c1 a Hs Hr1 Hc1|f0 c1 a Hs Hr1 Hc1]; rewrite <- Ecs in R10.
      + destruct R10.
      + destruct R10 as [F|[]]. discriminate.
      + rewrite (ONE c1 (or_introl eq_refl) Hr1). cbn [flat_map]. rewrite cinds_run, app_nil_r. reflexivity.
      + rewrite (ONE c1 (or_introl eq_refl) Hr1). cbn [flat_map]. rewrite cinds_run, cinds_shutdown, !app_nil_r. reflexivity.
    - rewrite R in R10. destruct R10.
  Qed.

  (* the 'crashed while running' report of worker k names the head of k's book: the test k was
     running, or else the first test it had not started *)
  Theorem crash_each_report_names_head ev q d' outs r t k :
    y_result s = None -> y_evq s = ev :: q -> d_loop_once ev (y_d s) = (d', outs, r) ->
    In (OHook (HCrashReport t k)) outs ->
    forall es, d_sched (y_d s) = StE es ->
    ev = QErrorDown k /\ exists i rest, alist_get [] k (e_n2p es) = i :: rest /\ nth_error (c_coll c k) i = Some t.
  Proof.
    intros Eres Eevq El Hin es Els.
    destruct (xe_run c Hmode Hnogarbled Hnodes Hcoh Hrq ls) as [X|(Hr & _)]; [|fold s in Hr; congruence].
    fold s in X. pose proof X as [_ _ (es0 & DJd & NIs) _ _ _ _ _ _].
    assert (es0 = es) by (destruct DJd as ([E0 _ _ _ _ _ _ _ _] & _); congruence). subst es0.
    pose proof (pre_from_invX c s es ev q X DJd NIs Eevq) as Hpre.
    destruct (loop_once_okX _ _ Hnodes ev _ es d' outs r DJd Hpre El) as (-> & es' & vo & Eo & E & DJ2 & CF1 & _).
    apply CF1. rewrite Eo in Hin. apply (In_vfilter_hook (c_numnodes c) (c_coll c)) in Hin. exact Hin.
  Qed.

  (* item 1: when the errordown of worker k is handled, the tests of its book other than the crash item
     (the head) are kept in _removed2pending under k -- nothing is kept when there is none *)
  Theorem crash_each_remainder_kept q d' outs r k :
    y_result s = None -> y_evq s = QErrorDown k :: q -> d_loop_once (QErrorDown k) (y_d s) = (d', outs, r) ->
    forall es, d_sched (y_d s) = StE es ->
    r = Ok tt /\ exists es', d_sched d' = StE es' /\
      e_removed es' = match tl (alist_get [] k (e_n2p es)) with
                      | [] => e_removed es
                      | rest => aset k rest (e_removed es)
                      end /\
      ~ In k (e_nodes es') /\ ~ In k (d_active d').
  Proof.
    intros Eres Eevq El es Els.
    destruct (xe_run c Hmode Hnogarbled Hnodes Hcoh Hrq ls) as [X|(Hr & _)]; [|fold s in Hr; congruence].
    fold s in X. pose proof X as [_ _ (es0 & DJd & NIs) _ _ _ _ _ _].
    assert (es0 = es) by (destruct DJd as ([E0 _ _ _ _ _ _ _ _] & _); congruence). subst es0.
    pose proof (pre_from_invX c s es _ q X DJd NIs Eevq) as Hpre.
    destruct (loop_once_okX _ _ Hnodes _ _ es d' outs r DJd Hpre El) as (-> & es' & vo & Eo & E & DJ2 & _ & CF2).
    split; [reflexivity|]. exists es'. split; [destruct DJ2 as ([E2 _ _ _ _ _ _ _ _] & _); exact E2|].
    split; [exact (CF2 k eq_refl)|]. exact (hx_err _ _ _ _ _ _ _ _ E k eq_refl).
  Qed.
End StepMain.

Print Assumptions crash_each_remainder_kept.
Print Assumptions crash_each_inherit_exact.
Print Assumptions crash_each_report_names_head.
Check crash_each_remainder_kept.
Check crash_each_inherit_exact.
Check crash_each_report_names_head.

(* ====================================================================================== *)
(* Non-vacuity and the necessity of the side conditions: concrete sessions, evaluated      *)
(* ====================================================================================== *)
Open Scope string_scope.
Definition cex_oracle (k : nat) : oracle :=
  {| reports_of := fun _ => [Passed]; stops_after := fun _ => false; ncollected := k; coll_reports := [] |}.
Definition cex_cfg (nodes : nat) (coll : nat -> list string) (crash : nat -> nat -> bool) (mr : option Z)
    (rq : nat) (spec : nat -> nat) (strict : bool) : config :=
  {| c_mode := MEach; c_numnodes := nodes; c_chunk := None; c_maxfail := 0%Z; c_max_restart := mr;
     c_requeue := rq; c_coll := coll; c_oracle := fun n => cex_oracle (length (coll n));
     c_dur := fun _ => 0%Z; c_crash_in := crash; c_strict := strict; c_spec := spec |}.
Definition cex_round (k : nat) : list label :=
  flat_map (fun n => [LMain n; LRecvW n; LDeliver n; LRecv n; LCtl]) (seq 0 k).
Definition cex4 (n : nat) : list string := ["a"; "b"; "c"; "d"].
(* per worker: (id, indices started, phase); result; dead workers; node2pending, _removed2pending, _started *)
Definition cex_view (s : sys) :=
  (map (fun p => (fst p, ran_idx (snd p), wph (snd p))) (y_w s), y_result s, y_dead s,
   match d_sched (y_d s) with StE es => (e_n2p es, e_removed es, e_started es) | _ => ([],[],[]) end).

Lemma cex_hyps nodes coll crash mr spec strict :
  0 < nodes ->
  let c := cex_cfg nodes coll crash mr 0 spec strict in
  c_mode c = MEach /\ no_garbled c /\ 0 < c_numnodes c /\
  (forall n, ncollected (c_oracle c n) = length (c_coll c n)) /\ c_requeue c = 0.
Proof.
  intros Hn. cbv zeta. split; [reflexivity|]. split.
  - intros n i H. cbn in H. destruct H as [H|[]]. discriminate.
  - split; [exact Hn|]. split; [intros n; reflexivity|reflexivity].
Qed.

(* (a) two crashes in one chain.  Worker 1 dies entering test 1 (crash item 1, remainder [2;3]); its
   replacement 2 inherits CRun [2;3], runs 2 and dies entering test 3 (crash item 3, nothing left);
   replacement 3 has nothing to take over and is shut down at once.  The session ends "finished":
   0,1 were started by worker 1 (1 is the reported crash item), 2 by worker 2, 3 is reported as crashed
   without having been started. *)
Definition cex_crash2 (n i : nat) : bool := (Nat.eqb n 1 && Nat.eqb i 1) || (Nat.eqb n 2 && Nat.eqb i 3).
Definition cex_cfg2 : config := cex_cfg 2 cex4 cex_crash2 (Some 4%Z) 0 (fun _ => 0) true.
Definition cex_full : list label := c01_rep 80 (cex_round 5).
Example cex_two_crashes :
  cex_view (sys_run cex_cfg2 cex_full) =
  ([(0, [0; 1; 2; 3], PExited); (1, [0], PGot (1, 1) (2, Idx 2)); (2, [2], PGot (1, 3) (2, Mark)); (3, [], PExited)],
   Some RFinished, [2; 1], ([], [], [0; 1; 2])).
Proof. vm_compute. reflexivity. Qed.

(* (b) a mid-run state of a session in which worker 1 dies entering test 1: its errordown has been
   handled, the remainder [2;3] is kept in _removed2pending, the replacement 2 is collecting *)
Definition cex_crash11 (n i : nat) : bool := Nat.eqb n 1 && Nat.eqb i 1.
Definition cex_cfg1 : config := cex_cfg 2 cex4 cex_crash11 (Some 4%Z) 0 (fun _ => 0) false.
Example cex_mid :
  cex_view (sys_run cex_cfg1 (c01_rep 14 (cex_round 4))) =
  ([(0, [0; 1], PRun (1, 1) (2, Idx 2) [ELogFinish 1]); (1, [0], PGot (1, 1) (2, Idx 2)); (2, [], PColl [])],
   None, [1], ([(0, [1; 2; 3]); (2, [])], [(1, [2; 3])], [0; 1])).
Proof. vm_compute. reflexivity. Qed.
Example cex_finished :
  cex_view (sys_run cex_cfg1 (c01_rep 60 (cex_round 4))) =
  ([(0, [0; 1; 2; 3], PExited); (1, [0], PGot (1, 1) (2, Idx 2)); (2, [2; 3], PExited)],
   Some RFinished, [1], ([], [], [0; 1; 2])).
Proof. vm_compute. reflexivity. Qed.

(* the theorems apply to these sessions *)
Example cex_theorems_apply :
  let s := sys_run cex_cfg2 cex_full in
  (forall e, y_result s = Some (RError e) -> e = ERuntimeNoWorkers) /\
  CrashEachCoupled cex_cfg2 s /\ RemovedOK cex_cfg2 s /\
  (forall n w, aget n (y_w s) = Some w ->
     exists a rest, seq a (length (c_coll cex_cfg2 n) - a) = (ran_idx w ++ rest)%list).
Proof.
  cbv zeta. destruct (cex_hyps 2 cex4 cex_crash2 (Some 4%Z) (fun _ => 0) true) as (H1 & H2 & H3 & H4 & H5); [lia|].
  assert (NE : forall e, y_result (sys_run cex_cfg2 cex_full) <> Some (RError e)).
  { intros e. replace (y_result (sys_run cex_cfg2 cex_full)) with (Some RFinished) by (vm_compute; reflexivity). discriminate. }
  split; [apply crash_each_c17; assumption|].
  split; [apply crash_each_coupling; assumption|].
  split; [apply crash_each_removed; assumption|].
  apply crash_each_started_interval; assumption.
Qed.
Example cex_theorems_apply_mid :
  let s := sys_run cex_cfg1 (c01_rep 14 (cex_round 4)) in
  CrashEachCoupled cex_cfg1 s /\ RemovedOK cex_cfg1 s.
Proof.
  cbv zeta. destruct (cex_hyps 2 cex4 cex_crash11 (Some 4%Z) (fun _ => 0) false) as (H1 & H2 & H3 & H4 & H5); [lia|].
  assert (NE : forall e, y_result (sys_run cex_cfg1 (c01_rep 14 (cex_round 4))) <> Some (RError e)).
  { intros e. replace (y_result (sys_run cex_cfg1 (c01_rep 14 (cex_round 4)))) with (@None result_kind) by (vm_compute; reflexivity). discriminate. }
  split; [apply crash_each_coupling; assumption|apply crash_each_removed; assumption].
Qed.

(* (c) why c_requeue = 0 is there (FINDING): when a plugin re-queues the crash item
   (pytest_handlecrashitem calling mark_test_pending, as pytest-rerunfailures does), EachScheduling
   raises NotImplementedError inside worker_errordown: C17 is false for --dist each with re-queueing *)
Example cex_requeue_not_implemented :
  y_result (sys_run (cex_cfg 2 cex4 cex_crash11 (Some 4%Z) 1 (fun _ => 0) false) (c01_rep 60 (cex_round 4))) =
  Some (RError ENotImpl).
Proof. vm_compute. reflexivity. Qed.

(* (d) the documented exception is reachable: the replacement of worker 1 collects a different list,
   inherits nothing (the remainder [2;3] stays in _removed2pending for ever, tests_finished is never
   true) and is shut down; when the last worker has finished the loop raises "no active workers".
   This is the known stand-off of each.py; the safety statements hold all the same. *)
Definition cex_dis (n : nat) : list string := if Nat.eqb n 2 then ["a"; "b"; "c"] else ["a"; "b"; "c"; "d"].
Example cex_standoff :
  cex_view (sys_run (cex_cfg 2 cex_dis cex_crash11 (Some 4%Z) 0 (fun _ => 0) false) (c01_rep 60 (cex_round 4))) =
  ([(0, [0; 1; 2; 3], PExited); (1, [0], PGot (1, 1) (2, Idx 2)); (2, [], PExited)],
   Some (RError ERuntimeNoWorkers), [1], ([], [(1, [2; 3])], [0; 1; 2])).
Proof. vm_compute. reflexivity. Qed.

(* (e) restart budget 0: no replacement; the session ends as "finished" although tests 2 and 3 of
   worker 1 were never started -- "finished" implies that the remainder was run only while the budget lasts *)
Example cex_budget0 :
  cex_view (sys_run (cex_cfg 2 cex4 cex_crash11 (Some 0%Z) 0 (fun _ => 0) false) (c01_rep 60 (cex_round 4))) =
  ([(0, [0; 1; 2; 3], PExited); (1, [0], PGot (1, 1) (2, Idx 2))],
   Some RFinished, [1], ([], [(1, [2; 3])], [0; 1])).
Proof. vm_compute. reflexivity. Qed.

(* (f) a worker killed before it reports anything (LCrash at the very beginning): its replacement
   takes its place in the initial distribution and runs the whole collection *)
Example cex_early_crash :
  cex_view (sys_run (cex_cfg 2 cex4 (fun _ _ => false) (Some 4%Z) 0 (fun _ => 0) false) ([LCrash 1] ++ c01_rep 80 (cex_round 5))) =
  ([(0, [0; 1; 2; 3], PExited); (1, [], PBoot); (2, [0; 1; 2; 3], PExited)], Some RFinished, [1], ([], [], [0; 2])).
Proof. vm_compute. reflexivity. Qed.

(* (g) the chains of session (a): worker 1 started test 0 and died entering test 1 (crash item 1, not
   started); its replacement 2 inherited [2;3], started 2 and died entering 3 (crash item 3, not
   started).  The chain [(1,[1]); (2,[3])] covers the collection exactly *)
Example cex_chain_cover :
  cover (sys_run cex_cfg2 cex_full) [(1, [1]); (2, [3])] = seq 0 4.
Proof. vm_compute. reflexivity. Qed.

Example cex_chain_theorems_apply :
  let s := sys_run cex_cfg2 cex_full in
  exists l, ChainOK cex_cfg2 s 1 l /\ In 1 (map fst l) /\ seq 0 (length (c_coll cex_cfg2 1)) = cover s l.
Proof.
  cbv zeta. destruct (cex_hyps 2 cex4 cex_crash2 (Some 4%Z) (fun _ => 0) true) as (H1 & H2 & H3 & H4 & H5); [lia|].
  assert (Hfin : y_result (sys_run cex_cfg2 cex_full) = Some RFinished) by (vm_compute; reflexivity).
  assert (ES : exists es, d_sched (y_d (sys_run cex_cfg2 cex_full)) = StE es /\ e_removed es = [] /\ SchedN es 1).
  { eexists. split; [vm_compute; reflexivity|]. split; [reflexivity|]. split; [cbn; auto|cbn; discriminate]. }
  destruct ES as (es & Els & Hrm & Hs1).
  exact (crash_each_finished_cover cex_cfg2 cex_full H1 H2 H3 H4 H5 Hfin es Els Hrm 1 Hs1).
Qed.
Print Assumptions cex_chain_theorems_apply.

(* ... and in the mid-run state (b) worker 0 (still running) has started an initial part of its share *)
Example cex_chain_mid :
  let s := sys_run cex_cfg1 (c01_rep 14 (cex_round 4)) in
  forall es, d_sched (y_d s) = StE es -> forall x, SchedN es x ->
  exists l post, ChainOK cex_cfg1 s x l /\ ~ In x (map fst l) /\
    seq 0 (length (c_coll cex_cfg1 x)) = (cover s l ++ ran_of s x ++ post)%list.
Proof.
  cbv zeta. destruct (cex_hyps 2 cex4 cex_crash11 (Some 4%Z) (fun _ => 0) false) as (H1 & H2 & H3 & H4 & H5); [lia|].
  assert (NE : forall e, y_result (sys_run cex_cfg1 (c01_rep 14 (cex_round 4))) <> Some (RError e)).
  { intros e. replace (y_result (sys_run cex_cfg1 (c01_rep 14 (cex_round 4)))) with (@None result_kind) by (vm_compute; reflexivity). discriminate. }
  intros es Els x Hx. apply (crash_each_runs_only_remainder cex_cfg1 _ H1 H2 H3 H4 H5 NE es Els); [|exact Hx].
  vm_compute. reflexivity.
Qed.
Close Scope string_scope.
