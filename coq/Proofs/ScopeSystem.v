(* ScopeSystem.v -- C06 at system level: with --dist loadscope / loadfile / loadgroup and no
   worker failure, the tests of one group (one key of the scheduler's _split_scope) are run by
   ONE worker, TOGETHER (contiguously) and IN collection ORDER, and no test is started twice.
   System-level invariant over Model/System.v, for every configuration whose mode is
   [MScope kind] (any of the three kinds), every schedule without crashes.  See the comment
   before the main theorems for the exact hypotheses. *)
From XV Require Import Base Worker Ctl SchedLoad SchedSteal SchedScope SchedEach Sched DSession System
  NoHook DSessionProofs WorkerProofs LoadProofs FifoProofs ExactlyOnce ScopeProofs.
From Coq Require Import Permutation Sorted.
Open Scope nat_scope.

(* ====================================================================================== *)
(* Part 0: lists                                                                           *)
(* ====================================================================================== *)
(* sub-multisets, any element type (ExactlyOnce.sub is the instance for nat) *)
Definition subl {A} (a b : list A) : Prop := exists x, Permutation (a ++ x) b.

Lemma subl_refl {A} (a : list A) : subl a a.
Proof. exists []. rewrite app_nil_r. reflexivity. Qed.

Lemma subl_perm {A} (a b : list A) : Permutation a b -> subl a b.
Proof. intros H. exists []. rewrite app_nil_r. exact H. Qed.

Lemma subl_trans {A} (a b c : list A) : subl a b -> subl b c -> subl a c.
Proof.
  intros (x & Hx) (y & Hy). exists (x ++ y). rewrite app_assoc. rewrite Hx. exact Hy.
Qed.

Lemma subl_app {A} (a b c d : list A) : subl a b -> subl c d -> subl (a ++ c) (b ++ d).
Proof.
  intros (x & Hx) (y & Hy). exists (x ++ y). rewrite <- Hx, <- Hy.
  rewrite <- !app_assoc. apply Permutation_app_head.
  rewrite !app_assoc. apply Permutation_app_tail. apply Permutation_app_comm.
Qed.

Lemma subl_app_l {A} (a x : list A) : subl a (a ++ x).
Proof. exists x. reflexivity. Qed.

Lemma subl_app_r {A} (a x : list A) : subl a (x ++ a).
Proof. exists x. apply Permutation_app_comm. Qed.

Lemma subl_in {A} (a b : list A) i : subl a b -> In i a -> In i b.
Proof. intros (x & Hx) Hi. eapply Permutation_in; [exact Hx|]. apply in_or_app. left. exact Hi. Qed.

Lemma Permutation_concat {A} (a b : list (list A)) : Permutation a b -> Permutation (concat a) (concat b).
Proof.
  induction 1 as [|x l l' _ IH|x y l|l l' l'' _ IH1 _ IH2]; cbn.
  - constructor.
  - apply Permutation_app_head. exact IH.
  - apply Permutation_app_swap_app.
  - etransitivity; eauto.
Qed.

Lemma nodup_app_l' {A} (a b : list A) : NoDup (a ++ b) -> NoDup a.
Proof.
  induction a as [|x a IH]; cbn; intros H; [constructor|].
  inversion H as [|y l Hn Hd]; subst. constructor; [|apply IH; exact Hd].
  intros Hi. apply Hn. apply in_or_app. left. exact Hi.
Qed.

Lemma nodup_app_intro {A} (a b : list A) :
  NoDup a -> NoDup b -> (forall x, In x a -> In x b -> False) -> NoDup (a ++ b).
Proof.
  induction a as [|x a IH]; cbn; intros Ha Hb Hd; [exact Hb|].
  inversion Ha as [|y l Hn Ha']; subst. constructor.
  - intros Hi. apply in_app_or in Hi. destruct Hi as [Hi|Hi]; [exact (Hn Hi)|].
    apply (Hd x); [left; reflexivity|exact Hi].
  - apply IH; [exact Ha'|exact Hb|]. intros z Hz1 Hz2. apply (Hd z); [right; exact Hz1|exact Hz2].
Qed.

Lemma subl_concat_nodup {A} (a b : list (list A)) : subl a b -> NoDup (concat b) -> NoDup (concat a).
Proof.
  intros (x & Hx) ND. apply Permutation_concat, Permutation_sym in Hx.
  pose proof (Permutation_NoDup Hx ND) as H. rewrite concat_app in H. eapply nodup_app_l'. exact H.
Qed.

Lemma concat_flat_map {A B} (f : A -> list (list B)) l :
  concat (flat_map f l) = flat_map (fun n => concat (f n)) l.
Proof. induction l as [|x l IH]; cbn; [reflexivity|]. rewrite concat_app, IH. reflexivity. Qed.

Lemma in_concat_iff {A} (l : list (list A)) x : In x (concat l) <-> exists b, In b l /\ In x b.
Proof.
  induction l as [|a l IH]; cbn.
  - split; [contradiction|intros (b & [] & _)].
  - rewrite in_app_iff, IH. split.
    + intros [H|(b & Hb & Hx)]; [exists a; auto|exists b; auto].
    + intros (b & [->|Hb] & Hx); [left; exact Hx|right; exists b; auto].
Qed.

Lemma flat_map_app_perm {A B} (f g : A -> list B) l :
  Permutation (flat_map (fun n => f n ++ g n) l) (flat_map f l ++ flat_map g l).
Proof.
  induction l as [|x l IH]; cbn; [constructor|].
  rewrite IH. rewrite <- !app_assoc. apply Permutation_app_head.
  rewrite !app_assoc. apply Permutation_app_tail. apply Permutation_app_comm.
Qed.

Lemma nodup_flat_map_one {A} (F : nat -> list A) l n : NoDup (flat_map F l) -> In n l -> NoDup (F n).
Proof.
  induction l as [|a l IH]; cbn; intros ND Hin; [contradiction|].
  destruct Hin as [->|Hin]; [eapply nodup_app_l'; exact ND|].
  apply IH; [eapply WorkerProofs.nodup_app_r; exact ND|exact Hin].
Qed.

(* an element occurs under at most one key *)
Lemma nodup_flat_map_key {A} (F : nat -> list A) l n m x :
  NoDup (flat_map F l) -> In n l -> In m l -> In x (F n) -> In x (F m) -> n = m.
Proof.
  induction l as [|a l IH]; cbn; intros ND Hn Hm Xn Xm; [contradiction|].
  assert (IN : forall k, In k l -> In x (F k) -> In x (flat_map F l)).
  { intros k Hk Hx. apply in_flat_map. exists k. auto. }
  destruct Hn as [->|Hn], Hm as [->|Hm]; [reflexivity| | |].
  - exfalso. eapply WorkerProofs.nodup_app_disj; [exact ND|exact Xn|apply (IN m); assumption].
  - exfalso. eapply WorkerProofs.nodup_app_disj; [exact ND|exact Xm|apply (IN n); assumption].
  - apply IH; try assumption. eapply WorkerProofs.nodup_app_r; exact ND.
Qed.

(* strictly increasing lists *)
Lemma ssorted_map_S l : StronglySorted lt l -> StronglySorted lt (map S l).
Proof.
  induction 1 as [|a l Hs IH Hf]; cbn; constructor; [exact IH|].
  rewrite Forall_forall in *. intros y Hy. apply in_map_iff in Hy. destruct Hy as (z & <- & Hz).
  apply -> Nat.succ_lt_mono. apply Hf. exact Hz.
Qed.

Lemma ssorted_nth l : StronglySorted lt l -> forall p q i j,
  p < q -> nth_error l p = Some i -> nth_error l q = Some j -> i < j.
Proof.
  induction 1 as [|a l Hs IH Hf]; intros p q i j Hpq Hp Hq; [destruct p; discriminate|].
  destruct q as [|q]; [lia|]. cbn in Hq. destruct p as [|p]; cbn in Hp.
  - inversion Hp; subst. rewrite Forall_forall in Hf. apply Hf. eapply nth_error_In; eauto.
  - eapply IH; [|exact Hp|exact Hq]. lia.
Qed.

Lemma ssorted_nodup l : StronglySorted lt l -> NoDup l.
Proof.
  induction 1 as [|a l Hs IH Hf]; constructor; [|exact IH].
  intros Hi. rewrite Forall_forall in Hf. specialize (Hf a Hi). lia.
Qed.

Lemma nth_error_app_l {A} (l r : list A) p x : nth_error l p = Some x -> nth_error (l ++ r) p = Some x.
Proof.
  intros H. rewrite nth_error_app1; [exact H|]. apply nth_error_Some. congruence.
Qed.

Lemma in_removelast {A} (l : list A) x : In x (removelast l) -> In x l.
Proof.
  induction l as [|a l IH]; cbn; [auto|]. destruct l as [|b l]; [contradiction|].
  intros [H|H]; [left; exact H|right; apply IH; exact H].
Qed.

Lemma nodup_fst_inj' {A B} (l : list (A * B)) p q :
  NoDup (map fst l) -> In p l -> In q l -> fst p = fst q -> p = q.
Proof.
  induction l as [|a l IH]; cbn; intros H H1 H2 E; [contradiction|].
  inversion H as [|y ys Hn Hd]; subst.
  destruct H1 as [->|H1], H2 as [->|H2]; auto.
  - exfalso. apply Hn. rewrite E. apply in_map. exact H2.
  - exfalso. apply Hn. rewrite <- E. apply in_map. exact H1.
Qed.

(* ====================================================================================== *)
(* Part 1: the work units of a collection and the index blocks they are sent as            *)
(* ====================================================================================== *)
Lemma index_of_str_some x l : In x l -> exists i, index_of_str x l = Some i.
Proof.
  induction l as [|y l IH]; cbn; [contradiction|]. intros H.
  destruct (String.eqb x y) eqn:E; [eexists; reflexivity|].
  destruct H as [->|H]; [rewrite String.eqb_refl in E; discriminate|].
  destruct (IH H) as (i & ->). eexists; reflexivity.
Qed.

Definition pos_in (l : list string) (id : string) : nat :=
  match index_of_str id l with Some i => i | None => 0 end.

Lemma pos_in_cons a r y : y <> a -> In y r -> pos_in (a :: r) y = S (pos_in r y).
Proof.
  intros Hne Hin. unfold pos_in. cbn. apply String.eqb_neq in Hne. rewrite Hne.
  destruct (index_of_str_some y r Hin) as (i & ->). reflexivity.
Qed.

Lemma dedup_str_in l : forall seen x, In x (dedup_str seen l) -> In x l.
Proof.
  induction l as [|y l IH]; intros seen x; cbn [dedup_str]; [auto|].
  destruct (mem_str y seen); [intros H; right; eapply IH; eauto|].
  intros [->|H]; [left; reflexivity|right; eapply IH; eauto].
Qed.

(* first occurrences, in list order, sit at increasing positions *)
Lemma sorted_pos (P : string -> bool) rest : forall seen,
  StronglySorted lt (map (pos_in rest) (dedup_str seen (filter P rest))).
Proof.
  induction rest as [|a r IH]; intros seen; [constructor|].
  assert (SH : forall seen', (forall y, In y (dedup_str seen' (filter P r)) -> y <> a) ->
     map (pos_in (a :: r)) (dedup_str seen' (filter P r)) = map S (map (pos_in r) (dedup_str seen' (filter P r)))).
  { intros seen' Hy. rewrite map_map. apply map_ext_in. intros y Hin. apply pos_in_cons; [apply Hy; exact Hin|].
    apply dedup_str_in in Hin. apply filter_In in Hin. tauto. }
  cbn [filter]. destruct (P a) eqn:Pa.
  - cbn [dedup_str]. destruct (mem_str a seen) eqn:Ms.
    + rewrite SH; [apply ssorted_map_S, IH|]. intros y Hy ->.
      apply dedup_str_nodup_out in Hy. congruence.
    + cbn [map]. rewrite SH.
      * constructor; [apply ssorted_map_S, IH|].
        unfold pos_in at 1. cbn. rewrite String.eqb_refl.
        apply Forall_forall. intros z Hz. apply in_map_iff in Hz. destruct Hz as (z' & <- & _). lia.
      * intros y Hy ->. apply dedup_str_nodup_out in Hy. unfold mem_str in Hy. cbn in Hy.
        rewrite String.eqb_refl in Hy. discriminate.
  - rewrite SH; [apply ssorted_map_S, IH|]. intros y Hy ->.
    apply dedup_str_in in Hy. apply filter_In in Hy. destruct Hy as (_ & Hy). congruence.
Qed.

Section Units.
  Variable kind : scope_kind.
  Variable coll0 : list string.

  (* the work queue built at the initial distribution *)
  Definition UL : workload := sort_units (build_units kind coll0).
  (* the indices a unit is sent as: positions of its test ids in the collection *)
  Definition ixs_of (p : string * unit_t) : list nat := map (pos_in coll0) (map fst (snd p)).
  Definition blocks : list (list nat) := map ixs_of UL.
  (* the group of test index i *)
  Definition key (i : nat) : string := split_of kind (nth i coll0 ""%string).

  Lemma UL_in p : In p UL <-> In p (build_units kind coll0).
  Proof.
    unfold UL. split; intros H.
    - eapply Permutation_in; [apply Permutation_sym, sort_units_perm|exact H].
    - eapply Permutation_in; [apply sort_units_perm|exact H].
  Qed.

  Lemma UL_keys_nodup : NoDup (map fst UL).
  Proof.
    eapply Permutation_NoDup; [apply Permutation_map, sort_units_perm|]. apply build_units_scopes_nodup.
  Qed.

  Lemma UL_unit sc u :
    In (sc, u) UL ->
    map fst u = dedup_str [] (filter (fun nid => String.eqb (split_of kind nid) sc) coll0) /\ all_false u.
  Proof.
    intros H. apply UL_in in H. apply build_units_unit_ids.
    apply sget_in_nodup; [apply build_units_scopes_nodup|exact H].
  Qed.

  Lemma UL_ids sc u id : In (sc, u) UL -> In id (map fst u) -> In id coll0 /\ split_of kind id = sc.
  Proof.
    intros H Hid. destruct (UL_unit _ _ H) as (E & _). rewrite E in Hid.
    apply dedup_str_in in Hid. apply filter_In in Hid. destruct Hid as (H1 & H2).
    apply String.eqb_eq in H2. auto.
  Qed.

  Lemma block_key p i : In p UL -> In i (ixs_of p) -> i < length coll0 /\ key i = fst p.
  Proof.
    destruct p as [sc u]. intros H Hi. unfold ixs_of in Hi. cbn [snd] in Hi.
    apply in_map_iff in Hi. destruct Hi as (id & <- & Hid).
    destruct (UL_ids _ _ _ H Hid) as (Hc & Hk).
    destruct (index_of_str_some id coll0 Hc) as (i & Ei).
    unfold pos_in. rewrite Ei. pose proof (index_of_str_nth _ _ _ Ei) as En. split.
    - apply nth_error_Some. congruence.
    - unfold key. rewrite (nth_error_nth _ _ _ En). exact Hk.
  Qed.

  Lemma block_sorted p : In p UL -> StronglySorted lt (ixs_of p).
  Proof.
    destruct p as [sc u]. intros H. destruct (UL_unit _ _ H) as (E & _).
    unfold ixs_of. cbn [snd]. rewrite E. apply sorted_pos.
  Qed.

  Lemma blocks_in b : In b blocks -> exists p, In p UL /\ b = ixs_of p.
  Proof. unfold blocks. intros H. apply in_map_iff in H. destruct H as (p & <- & Hp). eauto. Qed.

  (* (K1) a block holds tests of one group only *)
  Lemma blocks_one_key b i j : In b blocks -> In i b -> In j b -> key i = key j.
  Proof.
    intros Hb Hi Hj. destruct (blocks_in b Hb) as (p & Hp & ->).
    destruct (block_key p i Hp Hi) as (_ & ->). destruct (block_key p j Hp Hj) as (_ & ->). reflexivity.
  Qed.

  (* (K2) a group is in one block only *)
  Lemma blocks_key_inj b1 b2 i j : In b1 blocks -> In b2 blocks -> In i b1 -> In j b2 -> key i = key j -> b1 = b2.
  Proof.
    intros H1 H2 Hi Hj E. destruct (blocks_in b1 H1) as (p & Hp & ->). destruct (blocks_in b2 H2) as (q & Hq & ->).
    destruct (block_key p i Hp Hi) as (_ & Ep). destruct (block_key q j Hq Hj) as (_ & Eq).
    f_equal. apply (nodup_fst_inj' UL); [apply UL_keys_nodup|assumption..|congruence].
  Qed.

  (* (K3) inside a block the indices increase *)
  Lemma blocks_sorted b : In b blocks -> StronglySorted lt b.
  Proof. intros Hb. destruct (blocks_in b Hb) as (p & Hp & ->). apply block_sorted, Hp. Qed.

  (* (K4) no index is in two blocks, or twice in one *)
  Lemma blocks_nodup_gen W :
    NoDup (map fst W) -> (forall p, In p W -> In p UL) -> NoDup (concat (map ixs_of W)).
  Proof.
    induction W as [|p W IH]; intros ND IN; cbn; [constructor|].
    cbn in ND. inversion ND as [|x l Hn ND']; subst.
    apply nodup_app_intro.
    - apply ssorted_nodup, block_sorted, IN. left. reflexivity.
    - apply IH; [exact ND'|]. intros q Hq. apply IN. right. exact Hq.
    - intros i Hi1 Hi2. apply in_concat_iff in Hi2. destruct Hi2 as (b & Hb & Hi2).
      apply in_map_iff in Hb. destruct Hb as (q & <- & Hq).
      destruct (block_key p i (IN p (or_introl eq_refl)) Hi1) as (_ & E1).
      destruct (block_key q i (IN q (or_intror Hq)) Hi2) as (_ & E2).
      apply Hn. rewrite <- E1, E2. apply in_map. exact Hq.
  Qed.

  Lemma blocks_nodup : NoDup (concat blocks).
  Proof. apply blocks_nodup_gen; [apply UL_keys_nodup|auto]. Qed.

  (* ---- statements about a sequence of blocks ---- *)
  (* blocks with pairwise distinct groups, written one after the other: tests of one group are
     contiguous, and in increasing order *)
  Lemma concat_together Bs :
    (forall b, In b Bs -> In b blocks) -> NoDup (concat Bs) ->
    forall p q r i j k, p < q -> q < r ->
      nth_error (concat Bs) p = Some i -> nth_error (concat Bs) q = Some j -> nth_error (concat Bs) r = Some k ->
      key i = key k -> key j = key i.
  Proof.
    induction Bs as [|b Bs IH]; intros Hin ND p q r i j k Hpq Hqr Hp Hq Hr E; [destruct p; discriminate|].
    cbn [concat] in *.
    assert (Hb : In b blocks) by (apply Hin; left; reflexivity).
    destruct (Nat.lt_ge_cases r (length b)) as [Hrb|Hrb].
    - rewrite nth_error_app1 in Hp, Hq, Hr by lia. symmetry.
      apply (blocks_one_key b); [exact Hb|eapply nth_error_In; eauto..].
    - destruct (Nat.lt_ge_cases p (length b)) as [Hpb|Hpb].
      + exfalso. rewrite nth_error_app1 in Hp by lia. rewrite nth_error_app2 in Hr by lia.
        apply nth_error_In in Hp, Hr. pose proof Hr as Hr'. apply in_concat_iff in Hr. destruct Hr as (b' & Hb' & Hk).
        assert (b = b') by (eapply blocks_key_inj; eauto; apply Hin; right; exact Hb'). subst b'.
        eapply WorkerProofs.nodup_app_disj; [exact ND|exact Hk|exact Hr'].
      + rewrite nth_error_app2 in Hp, Hq, Hr by lia.
        eapply (IH (fun b' Hb' => Hin b' (or_intror Hb')) (WorkerProofs.nodup_app_r _ _ ND)
                  (p - length b) (q - length b) (r - length b)); eauto; lia.
  Qed.

  Lemma concat_in_order Bs :
    (forall b, In b Bs -> In b blocks) -> NoDup (concat Bs) ->
    forall p q i j, p < q ->
      nth_error (concat Bs) p = Some i -> nth_error (concat Bs) q = Some j -> key i = key j -> i < j.
  Proof.
    induction Bs as [|b Bs IH]; intros Hin ND p q i j Hpq Hp Hq E; [destruct p; discriminate|].
    cbn [concat] in *.
    assert (Hb : In b blocks) by (apply Hin; left; reflexivity).
    destruct (Nat.lt_ge_cases q (length b)) as [Hqb|Hqb].
    - rewrite nth_error_app1 in Hp, Hq by lia. eapply ssorted_nth; [apply blocks_sorted; exact Hb|exact Hpq|eauto..].
    - destruct (Nat.lt_ge_cases p (length b)) as [Hpb|Hpb].
      + exfalso. rewrite nth_error_app1 in Hp by lia. rewrite nth_error_app2 in Hq by lia.
        apply nth_error_In in Hp, Hq. pose proof Hq as Hq'. apply in_concat_iff in Hq. destruct Hq as (b' & Hb' & Hk).
        assert (b = b') by (eapply blocks_key_inj; eauto; apply Hin; right; exact Hb'). subst b'.
        eapply WorkerProofs.nodup_app_disj; [exact ND|exact Hk|exact Hq'].
      + rewrite nth_error_app2 in Hp, Hq by lia.
        eapply (IH (fun b' Hb' => Hin b' (or_intror Hb')) (WorkerProofs.nodup_app_r _ _ ND)
                  (p - length b) (q - length b)); eauto; lia.
  Qed.
End Units.

(* ====================================================================================== *)
(* Part 2: one worker: the ORDERED stream of indices it holds is kept by each of its steps  *)
(* ====================================================================================== *)
(* taken by the main thread, then queued, then the rest of the command being unpacked, then the
   commands not yet looked at *)
Definition w_stream (w : wst) : list nat :=
  ents_idx (wpopped w) ++ ents_idx (wq w) ++ item_inds (wrpend w) ++ flat_map cmd_inds (winbox w).

Lemma deliver_stream w c : w_stream (deliver w c) = w_stream w ++ cmd_inds c.
Proof.
  unfold w_stream, deliver. cbn [upd_recv winbox wrpend wq wpopped].
  rewrite fm_cmd_app. cbn [flat_map]. rewrite app_nil_r, <- !app_assoc. reflexivity.
Qed.

Lemma recv_next_stream o inbox : forall w,
  Forall good_cmd inbox ->
  w_stream (recv_next o w inbox) = ents_idx (wpopped w) ++ ents_idx (wq w) ++ flat_map cmd_inds inbox /\
  Forall good_cmd (winbox (recv_next o w inbox)).
Proof.
  induction inbox as [|c r IH]; intros w G.
  - cbn. split; [reflexivity|constructor].
  - inversion G as [|c' r' Gc Gr]; subst. destruct c as [ixs| |s| |]; try contradiction.
    + destruct ixs as [|i ixs]; [exact (IH w Gr)|]. split; [|exact Gr].
      cbn [recv_next]. unfold w_stream. cbn [upd_recv w_put winbox wrpend wq wpopped flat_map cmd_inds].
      rewrite item_inds_map_idx, ents_idx_app. cbn [ents_idx ent_idx snd].
      rewrite <- !app_assoc. reflexivity.
    + split; [|exact Gr]. cbn [recv_next]. unfold w_stream.
      cbn [upd_recv w_put winbox wrpend wq wpopped flat_map cmd_inds item_inds app].
      rewrite ents_idx_app. cbn [ents_idx ent_idx snd]. rewrite app_nil_r. reflexivity.
    + split; [|exact Gr]. cbn [recv_next]. unfold w_stream.
      cbn [upd_recv w_put winbox wrpend wq wpopped flat_map cmd_inds item_inds app].
      rewrite ents_idx_app. cbn [ents_idx ent_idx snd]. rewrite app_nil_r. reflexivity.
Qed.

Lemma recv_step_stream o w :
  Forall good_cmd (winbox w) ->
  w_stream (fst (recv_step o w)) = w_stream w /\ Forall good_cmd (winbox (fst (recv_step o w))).
Proof.
  intros G. unfold recv_step. destruct (negb (wcb w)); [split; [reflexivity|exact G]|].
  cbn [upd_recv wrpend winbox].
  destruct (wrpend w) as [|it rest] eqn:Er; cbn [fst].
  - destruct (recv_next_stream o (winbox w) (upd_recv w (winbox w) [] None) G) as (P & G').
    split; [|exact G']. rewrite P. unfold w_stream. rewrite Er. reflexivity.
  - split; [|exact G]. unfold w_stream. cbn [upd_recv w_put winbox wrpend wq wpopped]. rewrite Er.
    rewrite ents_idx_app, ents_idx_one.
    rewrite (item_inds_cons it rest), <- !app_assoc. reflexivity.
Qed.

Lemma pop_stream w e q' : wq w = e :: q' -> w_stream (w_pop w e q') = w_stream w.
Proof.
  intros Eq. unfold w_stream. cbn [w_pop winbox wrpend wq wpopped]. rewrite Eq.
  rewrite ents_idx_app. change (e :: q') with ([e] ++ q'). rewrite ents_idx_app, <- !app_assoc. reflexivity.
Qed.

Lemma main_step_stream o w w' evs :
  main_step o w = Some (w', evs) -> w_stream w' = w_stream w /\ winbox w' = winbox w.
Proof.
  unfold main_step. destruct (wph w) as [|rest| | |cur|cur nxt|cur nxt script|s|].
  - intros H; inversion H; subst. split; reflexivity.
  - destruct rest as [|[k f] rest]; intros H; inversion H; subst; split; reflexivity.
  - intros H; inversion H; subst. split; reflexivity.
  - destruct (wq w) as [|[t it] q'] eqn:Q.
    + destruct (wcb w); intros H; inversion H; subst. split; reflexivity.
    + destruct it as [i|]; intros H; inversion H; subst; (split; [|reflexivity]).
      * apply (pop_stream (set_cb w) (t, Idx i) q'). exact Q.
      * apply (pop_stream (set_cb w) (t, Mark) q'). exact Q.
  - destruct (wq w) as [|nxt q'] eqn:Q; [discriminate|].
    intros H; inversion H; subst. split; [|reflexivity]. apply (pop_stream w nxt q'). exact Q.
  - intros H; inversion H; subst. split; reflexivity.
  - destruct script as [|e script]; intros H; inversion H; subst; split; reflexivity.
  - intros H; inversion H; subst. split; reflexivity.
  - discriminate.
Qed.

(* ====================================================================================== *)
(* Part 3: a small logic for successful runs of the state+output+exception monad           *)
(* ====================================================================================== *)
Section OkLogic.
  Context {St : Type}.
  Variable T : St -> St -> list out -> Prop.
  Hypothesis T_refl : forall s, T s s [].
  Hypothesis T_trans : forall a b c o1 o2, T a b o1 -> T b c o2 -> T a c (o1 ++ o2).

  Definition okf {A} (s0 : St) (m : M St A) : Prop :=
    forall s' o a, m s0 = (s', o, Ok a) -> T s0 s' o.

  Lemma okf_ret {A} s0 (a : A) : okf s0 (ret a).
  Proof. intros s' o x H. inversion H; subst. apply T_refl. Qed.
  Lemma okf_raise {A} s0 e : okf s0 (@raise St A e).
  Proof. intros s' o x H. inversion H. Qed.
  Lemma okf_massert s0 b : okf s0 (@massert St b).
  Proof. destruct b; [apply okf_ret|apply okf_raise]. Qed.
  Lemma okf_of_opt {A} s0 (x : option A) e : okf s0 (@of_opt St A x e).
  Proof. destruct x; [apply okf_ret|apply okf_raise]. Qed.
  Lemma okf_emit s0 o : T s0 s0 [o] -> okf s0 (@emit St o).
  Proof. intros Ho s' o' x H. inversion H; subst. exact Ho. Qed.
  Lemma okf_put s0 s1 : T s0 s1 [] -> okf s0 (put s1).
  Proof. intros Hs s' o x H. inversion H; subst. exact Hs. Qed.
  Lemma okf_bind {A B} s0 (m : M St A) (f : A -> M St B) :
    okf s0 m -> (forall a s1, okf s1 (f a)) -> okf s0 (mbind m f).
  Proof.
    intros Hm Hf s' o x H. unfold mbind in H.
    destruct (m s0) as [[s1 o1] r1] eqn:E1. destruct r1 as [a|e]; [|inversion H].
    destruct (f a s1) as [[s2 o2] r2] eqn:E2. inversion H; subst.
    eapply T_trans; [eapply Hm; eauto|eapply Hf; eauto].
  Qed.
  Lemma okf_get {B} s0 (k : St -> M St B) : okf s0 (k s0) -> okf s0 (mbind get k).
  Proof.
    intros Hk s' o x H. unfold mbind, get in H.
    destruct (k s0 s0) as [[s2 o2] r2] eqn:E2. inversion H; subst. apply (Hk _ _ _ E2).
  Qed.
  Lemma okf_bind_ret {A B} s0 (a : A) (f : A -> M St B) : okf s0 (f a) -> okf s0 (mbind (ret a) f).
  Proof.
    intros Hk s' o x H. unfold mbind, ret in H.
    destruct (f a s0) as [[s2 o2] r2] eqn:E2. inversion H; subst. apply (Hk _ _ _ E2).
  Qed.
  Lemma okf_bind_raise {A B} s0 e (f : A -> M St B) : okf s0 (mbind (raise e) f).
  Proof. intros s' o x H. unfold mbind, raise in H. inversion H. Qed.
  Lemma okf_mfor {A} (l : list A) (f : A -> M St unit) :
    (forall a s, okf s (f a)) -> forall s0, okf s0 (mfor l f).
  Proof.
    intros Hf. induction l as [|x l IH]; intros s0; cbn [mfor]; [apply okf_ret|].
    apply okf_bind; [apply Hf|intros _ s1; apply IH].
  Qed.
End OkLogic.

Ltac ok1 T Tr Tt :=
  first
    [ apply (okf_ret T Tr) | apply (okf_raise T) | apply (okf_massert T Tr) | apply (okf_of_opt T Tr)
    | match goal with |- okf _ _ (mbind get _) => apply (okf_get T) end
    | match goal with |- okf _ _ (mbind _ _) => apply (okf_bind T Tt); [|intros ? ?] end
    | progress cbv beta zeta
    | match goal with
      | |- okf _ _ (match ?x with _ => _ end) => destruct x
      | |- okf _ _ (if ?x then _ else _) => destruct x
      end ].

(* stepping a computation whose first part is known *)
Lemma mbind_step {St A B} (m : M St A) (k : A -> M St B) s s1 a :
  m s = (s1, [], Ok a) -> mbind m k s = k a s1.
Proof. intros E. unfold mbind. rewrite E. destruct (k a s1) as [[s2 o2] r2]. reflexivity. Qed.

Lemma mbind_fail {St A B} (m : M St A) (k : A -> M St B) s s1 o1 e :
  m s = (s1, o1, Err e) -> mbind m k s = (s1, o1, Err e).
Proof. intros E. unfold mbind. rewrite E. reflexivity. Qed.

Lemma mbind_get_eq {St B} (k : St -> M St B) s : mbind get k s = k s s.
Proof. apply mbind_step. reflexivity. Qed.
Lemma mbind_put_eq {St B} x (k : unit -> M St B) s : mbind (put x) k s = k tt x.
Proof. apply mbind_step. reflexivity. Qed.
Lemma mbind_ret_eq {St A B} (a : A) (k : A -> M St B) s : mbind (ret a) k s = k a s.
Proof. apply mbind_step. reflexivity. Qed.

Lemma mbind_emit_eq {St B} x (k : unit -> M St B) s :
  mbind (emit x) k s = let '(s2, o2, r2) := k tt s in (s2, x :: o2, r2).
Proof. reflexivity. Qed.

(* WorkerController.shutdown over any state with a node table *)
Lemma node_shutdown_cases_gen {St} (nt_of : St -> ntable) (set_nt : St -> ntable -> St) n s s' o r :
  node_shutdown nt_of set_nt n s = (s', o, r) ->
  (s' = s /\ o = []) \/
  (exists f, aget n (nt_of s) = Some f /\ s' = set_nt s (aset n (sd_mark f) (nt_of s)) /\
             (o = [] \/ o = [OSend n CShutdown])).
Proof.
  intros H. unfold node_shutdown, node_send, node_flags, mbind, get, put, of_opt, ret, raise, emit in H.
  cbn -[aset aget] in H.
  destruct (aget n (nt_of s)) as [c|] eqn:En; cbn -[aset aget] in H; [|inversion H; auto].
  destruct (n_down c || n_sdsent c) eqn:Esd; cbn -[aset aget] in H; [inversion H; auto|].
  rewrite En in H. cbn -[aset aget] in H.
  destruct (n_closed c) eqn:Ecl; cbn -[aset aget] in H; inversion H; subst; right; exists c;
    (split; [reflexivity|]); (split; [unfold sd_mark; rewrite Ecl; reflexivity|]); auto.
Qed.

Lemma node_send_cases {St} (nt_of : St -> ntable) n c (s : St) s' o r :
  node_send nt_of n c s = (s', o, r) ->
  s' = s /\
  ((aget n (nt_of s) = None /\ o = [] /\ r = Err EKey) \/
   (exists f, aget n (nt_of s) = Some f /\ r = Ok tt /\ o = if n_closed f then [] else [OSend n c])).
Proof.
  unfold node_send, node_flags, mbind, get, of_opt, ret, raise, emit. cbn -[aget].
  destruct (aget n (nt_of s)) as [f|]; cbn -[aget].
  - destruct (n_closed f) eqn:Ecl; intros H; inversion H; subst; (split; [reflexivity|]); right; exists f;
      rewrite Ecl; auto.
  - intros H; inversion H; subst. auto.
Qed.

(* association lists *)
Lemma aget_in {V} n (m : amap V) v : aget n m = Some v -> In (n, v) m.
Proof.
  induction m as [|[k x] m IH]; cbn; [discriminate|].
  destruct (Nat.eqb n k) eqn:E; [|intros H; right; apply IH; exact H].
  apply Nat.eqb_eq in E. subst k. intros H. inversion H. left. reflexivity.
Qed.

Lemma in_sset {V} k (v : V) m k' x : In (k', x) (sset k v m) -> (k' = k /\ x = v) \/ In (k', x) m.
Proof.
  induction m as [|[k0 v0] m IH]; cbn.
  - intros [E|[]]. inversion E. auto.
  - destruct (String.eqb k k0) eqn:E.
    + apply String.eqb_eq in E. subst k0. intros [H|H]; [inversion H; auto|auto].
    + intros [H|H]; [auto|]. destruct (IH H); auto.
Qed.

Lemma sget_in {V} k (m : list (string * V)) v : sget k m = Some v -> In (k, v) m.
Proof.
  induction m as [|[k0 v0] m IH]; cbn; [discriminate|].
  destruct (String.eqb k k0) eqn:E; [|intros H; right; apply IH; exact H].
  apply String.eqb_eq in E. subst k0. intros H. inversion H. left. reflexivity.
Qed.

Lemma sset_fresh {V} k (v : V) m : ~ In k (map fst m) -> sset k v m = m ++ [(k, v)].
Proof.
  induction m as [|[k0 v0] m IH]; cbn; intros H; [reflexivity|].
  destruct (String.eqb k k0) eqn:E.
  - apply String.eqb_eq in E. subst k0. exfalso. apply H. left. reflexivity.
  - rewrite IH; [reflexivity|]. intros Hi. apply H. right. exact Hi.
Qed.

Lemma wq_update_fresh add : forall acc,
  NoDup (map fst add) -> (forall k, In k (map fst add) -> ~ In k (map fst acc)) ->
  wq_update acc add = acc ++ add.
Proof.
  unfold wq_update. induction add as [|[k v] add IH]; intros acc ND Hd; cbn [fold_left]; [rewrite app_nil_r; reflexivity|].
  cbn [map fst] in ND. inversion ND as [|x l Hn ND']; subst. cbn [fst snd].
  rewrite sset_fresh by (apply Hd; left; reflexivity).
  rewrite IH; [rewrite <- app_assoc; reflexivity|exact ND'|].
  intros k' Hk' Hi. rewrite map_app in Hi. apply in_app_or in Hi. destruct Hi as [Hi|Hi].
  - apply (Hd k'); [right; exact Hk'|exact Hi].
  - cbn in Hi. destruct Hi as [<-|[]]. contradiction.
Qed.

Lemma first_undone_in w c : first_undone w = Some c -> exists sc u, In (sc, u) w /\ In c (map fst u).
Proof.
  induction w as [|[sc u] w IH]; cbn; [discriminate|].
  destruct (filter (fun p => negb (snd p)) u) as [|[nid b] r] eqn:E.
  - intros H. destruct (IH H) as (sc' & u' & Hin & Hc). exists sc', u'. auto.
  - intros H. inversion H; subst. exists sc, u. split; [left; reflexivity|].
    assert (Hi : In (c, b) (filter (fun p => negb (snd p)) u)) by (rewrite E; left; reflexivity).
    apply filter_In in Hi. destruct Hi as (Hi & _). apply (in_map fst) in Hi. exact Hi.
Qed.

(* ====================================================================================== *)
(* Part 4: the scope scheduler: whole units leave the work queue, one CRun command each     *)
(* ====================================================================================== *)
(* the blocks of the CRun commands in a list of outputs, in order *)
Definition cruns (o : list out) : list (list nat) :=
  flat_map (fun x => match x with OSend _ (CRun ixs) => [ixs] | _ => [] end) o.

Lemma cruns_app a b : cruns (a ++ b) = cruns a ++ cruns b.
Proof. apply flat_map_app. Qed.

Section SchedInv.
  Variable kind : scope_kind.
  Variable coll0 : list string.
  Hypothesis Hne : ~ In ""%string coll0.

  Notation UL := (UL kind coll0).
  Notation ixs_of := (ixs_of coll0).

  (* the work queue, with "all units" standing for the queue before the initial distribution *)
  Definition vpool (cs : scstate) : workload :=
    match sc_coll cs with None => UL | Some _ => sc_wq cs end.

  Record CI (cs : scstate) : Prop := {
    ci_open : all_open (sc_nt cs);
    ci_kind : sc_kind cs = kind;
    ci_reg : forall n cl, In (n, cl) (sc_reg cs) -> cl = coll0;
    ci_wq0 : sc_coll cs = None -> sc_wq cs = [];
    ci_pool : incl (vpool cs) UL;
    ci_ids : forall n w sc u, In (n, w) (sc_assigned cs) -> In (sc, u) w -> ~ In ""%string (map fst u);
  }.

  (* what is sent is, command by command, the units taken from the head of the (virtual) queue *)
  Definition CTr (cs cs' : scstate) (o : list out) : Prop :=
    exists us, vpool cs = us ++ vpool cs' /\ cruns o = map ixs_of us /\ Forall good_out o.

  Definition ST (cs cs' : scstate) (o : list out) : Prop := CI cs -> CI cs' /\ CTr cs cs' o.

  Lemma CTr_refl cs : CTr cs cs [].
  Proof. exists []. split; [reflexivity|]. split; [reflexivity|constructor]. Qed.

  Lemma CTr_trans a b c o1 o2 : CTr a b o1 -> CTr b c o2 -> CTr a c (o1 ++ o2).
  Proof.
    intros (u1 & A1 & A2 & A3) (u2 & B1 & B2 & B3). exists (u1 ++ u2). split; [|split].
    - rewrite A1, B1, app_assoc. reflexivity.
    - rewrite cruns_app, map_app, A2, B2. reflexivity.
    - apply Forall_app. auto.
  Qed.

  Lemma ST_refl cs : ST cs cs [].
  Proof. intros I. split; [exact I|apply CTr_refl]. Qed.

  Lemma ST_trans a b c o1 o2 : ST a b o1 -> ST b c o2 -> ST a c (o1 ++ o2).
  Proof.
    intros H1 H2 I. destruct (H1 I) as (I1 & T1). destruct (H2 I1) as (I2 & T2).
    split; [exact I2|eapply CTr_trans; eauto].
  Qed.

  Lemma CTr_quiet cs cs' o : vpool cs' = vpool cs -> cruns o = [] -> Forall good_out o -> CTr cs cs' o.
  Proof. intros E Hc Hg. exists []. rewrite E. auto. Qed.

  (* a state change that leaves queue, collection, registrations and node table alone *)
  Lemma ST_frame cs cs' :
    sc_nt cs' = sc_nt cs -> sc_kind cs' = sc_kind cs -> sc_reg cs' = sc_reg cs -> sc_coll cs' = sc_coll cs ->
    sc_wq cs' = sc_wq cs ->
    (CI cs -> forall n w sc u, In (n, w) (sc_assigned cs') -> In (sc, u) w -> ~ In ""%string (map fst u)) ->
    ST cs cs' [].
  Proof.
    intros E1 E2 E3 E4 E5 Hid I. pose proof I as [A B C D E F].
    assert (Ev : vpool cs' = vpool cs) by (unfold vpool; rewrite E4, E5; reflexivity).
    split; [|apply CTr_quiet; [exact Ev|reflexivity|constructor]].
    constructor.
    - rewrite E1. exact A.
    - rewrite E2. exact B.
    - rewrite E3. exact C.
    - rewrite E4, E5. exact D.
    - rewrite Ev. exact E.
    - apply Hid. exact I.
  Qed.

  Ltac so := repeat (ok1 ST ST_refl ST_trans).

  (* ---- node.shutdown() ---- *)
  Lemma ok_sc_node_shutdown n s0 : okf ST s0 (node_shutdown sc_nt sc_set_nt n).
  Proof.
    intros s' o a H I. apply node_shutdown_cases_gen in H.
    destruct H as [(-> & ->)|(f & Ef & -> & Ho)]; [split; [exact I|apply CTr_refl]|].
    pose proof I as [A B C D E F]. split.
    - constructor; cbn [sc_set_nt sc_nt sc_kind sc_reg sc_coll sc_wq sc_assigned]; try assumption.
      apply all_open_aset; [exact A|]. cbn. exact (A _ _ Ef).
    - apply CTr_quiet; [reflexivity| |]; destruct Ho as [->| ->]; try reflexivity; repeat constructor.
  Qed.

  Lemma ok_sc_shutting_down n s0 : okf ST s0 (node_shutting_down sc_nt n).
  Proof. unfold node_shutting_down, node_flags. so. Qed.

  (* ---- _assign_work_unit: the head unit leaves the queue whole and is sent as one command ---- *)
  Lemma opt_map_ixs (u : unit_t) ixs :
    all_false u ->
    opt_map (fun p => index_of_str (fst p) coll0) (filter (fun p => negb (snd p)) u) = Some ixs ->
    ixs = map (pos_in coll0) (map fst u).
  Proof.
    intros Hf. rewrite filter_all.
    2:{ intros x Hx. unfold all_false in Hf. rewrite Forall_forall in Hf. rewrite (Hf x Hx). reflexivity. }
    clear Hf. revert ixs. induction u as [|p u IH]; intros ixs H; cbn in H.
    - inversion H. reflexivity.
    - destruct (index_of_str (fst p) coll0) as [i|] eqn:E; [|discriminate].
      destruct (opt_map _ u) as [ys|]; [|discriminate]. inversion H; subst.
      cbn. unfold pos_in at 1. rewrite E. f_equal. apply IH. reflexivity.
  Qed.

  Lemma ok_sc_assign n s0 : okf ST s0 (sc_assign_work_unit n).
  Proof.
    intros s' o a H I. pose proof I as [A B C D E F].
    unfold sc_assign_work_unit in H. rewrite mbind_get_eq in H.
    destruct (sc_wq s0) as [|[scope u] wq'] eqn:Ewq; [discriminate|].
    rewrite mbind_put_eq, mbind_get_eq in H.
    cbn [sc_reg sc_set_assigned sc_set_wq] in H.
    destruct (aget n (sc_reg s0)) as [wcoll|] eqn:Ereg; [|discriminate].
    cbn [of_opt] in H. rewrite mbind_ret_eq in H.
    pose proof (C _ _ (aget_in _ _ _ Ereg)) as ->.
    destruct (opt_map (fun p => index_of_str (fst p) coll0) (filter (fun p => negb (snd p)) u)) as [ixs|] eqn:Eix;
      [|discriminate].
    cbn [of_opt] in H. rewrite mbind_ret_eq in H.
    apply node_send_cases in H. cbn [sc_nt sc_set_assigned sc_set_wq] in H.
    destruct H as (-> & [(_ & _ & F0)|(f & Ef & _ & ->)]); [discriminate|].
    rewrite (A _ _ Ef).
    assert (Ec : exists cl, sc_coll s0 = Some cl).
    { destruct (sc_coll s0) eqn:Ec; [eauto|]. specialize (D eq_refl). discriminate. }
    destruct Ec as (cl & Ec).
    assert (Hu : In (scope, u) UL).
    { apply E. unfold vpool. rewrite Ec, Ewq. left. reflexivity. }
    destruct (UL_unit _ _ _ _ Hu) as (Eu & Hf).
    pose proof (opt_map_ixs u ixs Hf Eix) as ->.
    split.
    - constructor; cbn [sc_set_assigned sc_set_wq sc_nt sc_kind sc_reg sc_coll sc_wq sc_assigned]; try assumption.
      + rewrite Ec. discriminate.
      + unfold vpool. cbn [sc_set_assigned sc_set_wq sc_coll sc_wq]. rewrite Ec.
        intros x Hx. apply E. unfold vpool. rewrite Ec, Ewq. right. exact Hx.
      + intros k w sc' u' Hin Hu'. apply in_aset in Hin. destruct Hin as [(-> & ->)|Hin]; [|eapply F; eauto].
        apply in_sset in Hu'. destruct Hu' as [(-> & ->)|Hu'].
        * intros Hi. destruct (UL_ids _ _ _ _ _ Hu Hi) as (Hc & _). contradiction.
        * destruct (aget n (sc_assigned s0)) as [cur|] eqn:Ecur; [|destruct Hu'].
          apply aget_in in Ecur. eapply F; eauto.
    - exists [(scope, u)]. split; [|split].
      + unfold vpool. cbn [sc_set_assigned sc_set_wq sc_coll sc_wq]. rewrite Ec, Ewq. reflexivity.
      + reflexivity.
      + repeat constructor.
  Qed.
  Lemma ok_sc_top_up fuel n : forall s0, okf ST s0 (sc_top_up fuel n).
  Proof.
    induction fuel as [|f IH]; intros s0; cbn [sc_top_up]; [apply (okf_ret ST ST_refl)|].
    apply (okf_get ST). cbv beta. destruct (sc_wq s0) as [|hd0 tl0]; [apply (okf_ret ST ST_refl)|].
    apply (okf_bind ST ST_trans); [apply (okf_of_opt ST ST_refl)|intros w s1].
    destruct (pending_of w <? 2); [|apply (okf_ret ST ST_refl)].
    apply (okf_bind ST ST_trans); [apply ok_sc_assign|intros _ s2; apply IH].
  Qed.

  Lemma ok_sc_reschedule n s0 : okf ST s0 (sc_reschedule n).
  Proof.
    unfold sc_reschedule. apply (okf_bind ST ST_trans); [apply ok_sc_shutting_down|intros sd s1].
    destruct sd; [apply (okf_ret ST ST_refl)|]. apply (okf_get ST). cbv beta.
    destruct (sc_wq s1) as [|hd0 tl0]; [apply ok_sc_node_shutdown|].
    destruct (negb (ahas n (sc_reg s1))); [apply (okf_ret ST ST_refl)|].
    apply (okf_bind ST ST_trans); [apply (okf_of_opt ST ST_refl)|intros w s2].
    destruct (2 <? pending_of w); [apply (okf_ret ST ST_refl)|].
    apply (okf_bind ST ST_trans); [apply ok_sc_assign|intros _ s3].
    apply (okf_get ST). apply ok_sc_top_up.
  Qed.

  Lemma ok_sc_add_node n s0 : okf ST s0 (sc_add_node n).
  Proof.
    unfold sc_add_node. apply (okf_get ST). cbv beta. unfold massert.
    destruct (negb (ahas n (sc_assigned s0))); [apply (okf_bind_ret ST)|apply (okf_bind_raise ST)].
    apply (okf_put ST). apply ST_frame; try reflexivity.
    intros I k w sc u Hin Hu. cbn [sc_set_assigned sc_assigned] in Hin. apply in_aset in Hin.
    destruct Hin as [(-> & ->)|Hin]; [destruct Hu|]. eapply (ci_ids _ I); eauto.
  Qed.
  Lemma ST_emit_quiet o s : cruns [o] = [] -> good_out o -> ST s s [o].
  Proof. intros Hc Hg I. split; [exact I|]. apply CTr_quiet; [reflexivity|exact Hc|repeat constructor; exact Hg]. Qed.

  (* add_node_collection, for a worker that reports the common collection *)
  Lemma ok_sc_add_coll n s0 : okf ST s0 (sc_add_node_collection n coll0).
  Proof.
    assert (PUT : ST s0 (sc_set_reg s0 (aset n coll0 (sc_reg s0))) []).
    { intros I. pose proof I as [A B C D E F].
      split; [|apply CTr_quiet; [reflexivity|reflexivity|constructor]].
      constructor; cbn [sc_set_reg sc_nt sc_kind sc_reg sc_coll sc_wq sc_assigned]; try assumption.
      intros k cl Hin. apply in_aset in Hin. destruct Hin as [(_ & ->)|Hin]; [reflexivity|eapply C; eauto]. }
    unfold sc_add_node_collection. apply (okf_get ST). cbv beta. unfold massert.
    destruct (ahas n (sc_assigned s0)); [apply (okf_bind_ret ST)|apply (okf_bind_raise ST)].
    destruct (sc_collection_is_completed s0); [|apply (okf_put ST); exact PUT].
    destruct (sc_coll s0) as [[|c0 cr]|]; try apply (okf_raise ST).
    destruct (coll_eqb coll0 (c0 :: cr)); [apply (okf_put ST); exact PUT|].
    apply (okf_bind ST ST_trans); [apply (okf_of_opt ST ST_refl)|intros other s1].
    apply (okf_bind ST ST_trans); [apply (okf_emit ST); apply ST_emit_quiet; [reflexivity|exact I]|intros _ s2].
    apply ok_sc_node_shutdown.
  Qed.

  (* mark_test_complete *)
  Lemma ok_sc_complete n idx s0 : okf ST s0 (sc_mark_test_complete n idx).
  Proof.
    unfold sc_mark_test_complete. apply (okf_get ST). cbv beta.
    destruct (aget n (sc_reg s0)) as [wcoll|] eqn:Ereg; cbn [of_opt]; [apply (okf_bind_ret ST)|apply (okf_bind_raise ST)].
    destruct (nth_error wcoll idx) as [nodeid|] eqn:Enth; cbn [of_opt]; [apply (okf_bind_ret ST)|apply (okf_bind_raise ST)].
    cbv zeta.
    destruct (aget n (sc_assigned s0)) as [w|] eqn:Ew; cbn [of_opt]; [apply (okf_bind_ret ST)|apply (okf_bind_raise ST)].
    destruct (sget (split_of (sc_kind s0) nodeid) w) as [u|] eqn:Eu; cbn [of_opt];
      [apply (okf_bind_ret ST)|apply (okf_bind_raise ST)].
    apply (okf_bind ST ST_trans); [|intros _ s1; apply ok_sc_reschedule].
    apply (okf_put ST). apply ST_frame; try reflexivity.
    intros I k w' sc u' Hin Hu. cbn [sc_set_assigned sc_assigned] in Hin. apply in_aset in Hin.
    destruct Hin as [(-> & ->)|Hin]; [|eapply (ci_ids _ I); eauto].
    apply in_sset in Hu. destruct Hu as [(-> & ->)|Hu].
    - rewrite map_fst_sset. apply aget_in in Ew. apply sget_in in Eu.
      pose proof (ci_ids _ I _ _ _ _ Ew Eu) as Hno.
      destruct (mem_str nodeid (map fst u)); [exact Hno|].
      intros Hi. apply in_app_or in Hi. destruct Hi as [Hi|[Ei|[]]]; [exact (Hno Hi)|]. subst nodeid.
      pose proof (ci_reg _ I _ _ (aget_in _ _ _ Ereg)) as ->. apply Hne. eapply nth_error_In; eauto.
    - apply aget_in in Ew. eapply (ci_ids _ I); eauto.
  Qed.

  Lemma ok_sc_pop_extra k : forall s0, okf ST s0 (sc_pop_extra k).
  Proof.
    induction k as [|k IH]; intros s0; cbn [sc_pop_extra]; [apply (okf_ret ST ST_refl)|].
    apply (okf_get ST). cbv beta. destruct (rev (sc_assigned s0)) as [|[m wm] r]; [apply (okf_raise ST)|].
    apply (okf_bind ST ST_trans).
    - apply (okf_put ST). apply ST_frame; try reflexivity.
      intros I n w sc u Hin Hu. cbn [sc_set_assigned sc_assigned] in Hin. apply in_removelast in Hin.
      eapply (ci_ids _ I); eauto.
    - intros _ s1. apply (okf_bind ST ST_trans); [apply ok_sc_node_shutdown|intros _ s2; apply IH].
  Qed.

  (* _check_nodes_have_same_collection reads only *)
  Lemma sc_same_collection_pure s s1 o1 r :
    sc_same_collection s = (s1, o1, r) -> s1 = s /\ cruns o1 = [] /\ Forall good_out o1.
  Proof.
    unfold sc_same_collection. rewrite mbind_get_eq.
    destruct (sc_reg s) as [|[first col] others]; [intros H; inversion H; subst; repeat split; constructor|].
    assert (MF : forall l, exists o, mfor l (fun p : nat * list string =>
                   if coll_eqb col (snd p) then ret tt else emit (OCollDiff first (fst p))) s = (s, o, Ok tt) /\
                   cruns o = [] /\ Forall good_out o).
    { induction l as [|p l (o & E & Hc & Hg)]; cbn [mfor]; [exists []; repeat split; constructor|].
      destruct (coll_eqb col (snd p)).
      - exists o. rewrite mbind_ret_eq. auto.
      - exists (OCollDiff first (fst p) :: o). rewrite mbind_emit_eq, E. cbn. repeat split; auto.
        constructor; [exact I|exact Hg]. }
    destruct (MF others) as (o & E & Hc & Hg). unfold mbind. rewrite E. unfold ret.
    intros H; inversion H; subst. rewrite app_nil_r. auto.
  Qed.
  (* schedule(): after the collection has been fixed and the queue built *)
  Definition sched_rest : C unit :=
    s3 <- get ;;
    sc_pop_extra (length (sc_nodes s3) - length (sc_wq s3)) ;;;
    s4 <- get ;;
    mfor (sc_nodes s4) sc_assign_work_unit ;;;
    s5 <- get ;;
    mfor (sc_nodes s5) sc_reschedule ;;;
    s6 <- get ;;
    match sc_wq s6 with
    | [] => mfor (sc_nodes s6) (fun n => node_shutdown sc_nt sc_set_nt n)
    | _ => ret tt
    end.

  Lemma ok_sched_rest s0 : okf ST s0 sched_rest.
  Proof.
    unfold sched_rest. apply (okf_get ST). cbv beta.
    apply (okf_bind ST ST_trans); [apply ok_sc_pop_extra|intros _ s1]. apply (okf_get ST). cbv beta.
    apply (okf_bind ST ST_trans); [apply (okf_mfor ST ST_refl ST_trans); intros; apply ok_sc_assign|intros _ s2].
    apply (okf_get ST). cbv beta.
    apply (okf_bind ST ST_trans); [apply (okf_mfor ST ST_refl ST_trans); intros; apply ok_sc_reschedule|intros _ s3].
    apply (okf_get ST). cbv beta. destruct (sc_wq s3); [|apply (okf_ret ST ST_refl)].
    apply (okf_mfor ST ST_refl ST_trans). intros; apply ok_sc_node_shutdown.
  Qed.

  Lemma CTr_quiet_l a b o1 o2 : cruns o1 = [] -> Forall good_out o1 -> CTr a b o2 -> CTr a b (o1 ++ o2).
  Proof.
    intros Hc Hg (us & E1 & E2 & G). exists us. split; [exact E1|]. split; [rewrite cruns_app, Hc; exact E2|].
    apply Forall_app. auto.
  Qed.

  Lemma ok_sc_schedule s0 : okf ST s0 sc_schedule.
  Proof.
    intros s' o a H I. pose proof I as [A B C D E F].
    unfold sc_schedule in H. rewrite mbind_get_eq in H. unfold massert in H.
    destruct (sc_collection_is_completed s0); [rewrite mbind_ret_eq in H|unfold mbind, raise in H; discriminate].
    destruct (sc_coll s0) as [cl|] eqn:Ec.
    { apply (okf_mfor ST ST_refl ST_trans _ _ (fun n s => ok_sc_reschedule n s) s0 _ _ _ H I). }
    apply DSessionProofs.mbind_inv in H. destruct H as [(s1 & o1 & same & o2 & H1 & H2 & ->)|(e & _ & F0)]; [|discriminate].
    apply sc_same_collection_pure in H1. destruct H1 as (-> & Hc1 & Hg1).
    assert (G : CI s' /\ CTr s0 s' o2); [|destruct G as (G1 & G2); split; [exact G1|apply CTr_quiet_l; assumption]].
    destruct same; cbn [negb] in H2.
    2:{ inversion H2; subst. split; [exact I|apply CTr_refl]. }
    rewrite mbind_get_eq in H2.
    destruct (sc_reg s0) as [|[k0 c] others] eqn:Er; cbn [of_opt] in H2; [unfold mbind, raise in H2; discriminate|].
    rewrite mbind_ret_eq in H2.
    assert (Ec0 : c = coll0) by (apply (C k0); left; reflexivity).
    destruct c as [|c0 cr].
    - rewrite mbind_put_eq in H2. inversion H2; subst s' o2. split.
      + constructor; cbn [sc_set_coll sc_nt sc_kind sc_reg sc_coll sc_wq sc_assigned]; try assumption.
        * rewrite Er. exact C.
        * intros X; discriminate X.
        * unfold vpool. cbn [sc_set_coll sc_coll sc_wq]. rewrite (D eq_refl). intros x [].
      + exists []. split; [|split; [reflexivity|constructor]].
        unfold vpool. cbn [sc_set_coll sc_coll sc_wq]. rewrite Ec, (D eq_refl). unfold UL. rewrite <- Ec0. reflexivity.
    - rewrite mbind_put_eq, mbind_get_eq, mbind_put_eq in H2.
      cbn [sc_set_coll sc_wq sc_kind] in H2. rewrite (D eq_refl), B, Ec0 in H2.
      rewrite wq_update_fresh in H2; [|apply (UL_keys_nodup kind coll0)|intros k _ []]. cbn [app] in H2.
      match type of H2 with _ ?st = _ => set (s3 := st) in * end.
      assert (I3 : CI s3).
      { subst s3. constructor; cbn [sc_set_wq sc_set_coll sc_nt sc_kind sc_reg sc_coll sc_wq sc_assigned]; try assumption.
        - rewrite Er. exact C.
        - intros X; discriminate X.
        - unfold vpool. cbn [sc_set_wq sc_set_coll sc_coll sc_wq]. apply incl_refl. }
      destruct (ok_sched_rest s3 _ _ _ H2 I3) as (I' & T'). split; [exact I'|].
      eapply (CTr_trans s0 s3 s' [] o2); [|exact T'].
      apply CTr_quiet; [|reflexivity|constructor].
      subst s3. unfold vpool. cbn [sc_set_wq sc_set_coll sc_coll sc_wq]. rewrite Ec. reflexivity.
  Qed.

  (* remove_node: a node without pending tests just leaves; otherwise a non-empty test id comes back *)
  Lemma sc_remove_ok n s0 s' o v :
    sc_remove_node n s0 = (s', o, Ok v) -> CI s0 ->
    (v = None /\ CI s' /\ CTr s0 s' o) \/ (exists item, v = Some item /\ item <> ""%string).
  Proof.
    intros H I. pose proof H as H0. pose proof I as [A B C D E F].
    unfold sc_remove_node in H. rewrite mbind_get_eq in H.
    destruct (aget n (sc_assigned s0)) as [w|] eqn:Ew; cbn [of_opt] in H; [|unfold mbind, raise in H; discriminate].
    rewrite mbind_ret_eq, mbind_put_eq in H.
    destruct (pending_of w =? 0) eqn:Ep.
    - left.
      set (sA := sc_set_assigned s0 (adel n (sc_assigned s0))) in *.
      set (sB := if sc_collection_is_completed sA then sA else sc_set_reg sA (adel n (sc_reg sA))).
      rewrite mbind_step with (s1 := sB) (a := tt) in H.
      2:{ rewrite mbind_get_eq. subst sB. destruct (sc_collection_is_completed sA); reflexivity. }
      inversion H; subst s' o v. split; [reflexivity|].
      assert (IB : CI sB).
      { subst sB sA. destruct (sc_collection_is_completed _);
          constructor; cbn [sc_set_reg sc_set_assigned sc_nt sc_kind sc_reg sc_coll sc_wq sc_assigned]; try assumption.
        - intros k wk sc u Hin. apply in_adel in Hin. eapply F; eauto.
        - intros k cl Hin. apply in_adel in Hin. eapply C; eauto.
        - intros k wk sc u Hin. apply in_adel in Hin. eapply F; eauto. }
      split; [exact IB|]. apply CTr_quiet; [|reflexivity|constructor].
      subst sB sA. destruct (sc_collection_is_completed _); reflexivity.
    - right. apply Nat.eqb_neq in Ep.
      destruct (remove_node_returns_first_undone _ _ _ _ _ _ Ew Ep H0) as (-> & Hn).
      destruct (first_undone w) as [c|] eqn:Ef; [|contradiction]. exists c. split; [reflexivity|].
      intros ->. destruct (first_undone_in _ _ Ef) as (sc & u & Hin & Hc).
      apply aget_in in Ew. exact (F _ _ _ _ Ew Hin Hc).
  Qed.
End SchedInv.

(* ====================================================================================== *)
(* Part 5: the controller (DSession) in a scope mode                                       *)
(* ====================================================================================== *)
Section DInv.
  Variable kind : scope_kind.
  Variable coll0 : list string.
  Hypothesis Hne : ~ In ""%string coll0.

  Notation CI := (CI kind coll0).
  Notation CTr := (CTr kind coll0).
  Notation vpool := (vpool kind coll0).

  Definition DT (d d' : dstate) (o : list out) : Prop :=
    forall cs, d_sched d = StC cs -> CI cs -> exists cs', d_sched d' = StC cs' /\ CI cs' /\ CTr cs cs' o.

  Lemma DT_refl d : DT d d [].
  Proof. intros cs E I. exists cs. split; [exact E|]. split; [exact I|apply CTr_refl]. Qed.

  Lemma DT_trans a b c o1 o2 : DT a b o1 -> DT b c o2 -> DT a c (o1 ++ o2).
  Proof.
    intros H1 H2 cs E I. destruct (H1 cs E I) as (cs1 & E1 & I1 & T1).
    destruct (H2 cs1 E1 I1) as (cs2 & E2 & I2 & T2).
    exists cs2. split; [exact E2|]. split; [exact I2|eapply CTr_trans; eauto].
  Qed.

  Lemma DT_same d d' : d_sched d' = d_sched d -> DT d d' [].
  Proof. intros Es cs E I. exists cs. rewrite Es. split; [exact E|]. split; [exact I|apply CTr_refl]. Qed.

  Lemma dok_put d0 d1 : d_sched d1 = d_sched d0 -> okf DT d0 (put d1).
  Proof. intros Hs. apply (okf_put DT). apply DT_same. exact Hs. Qed.

  Lemma dok_hook h d0 : good_out (OHook h) -> okf DT d0 (hook h).
  Proof.
    intros Hg. unfold hook. apply (okf_emit DT). intros cs E I. exists cs. split; [exact E|]. split; [exact I|].
    apply CTr_quiet; [reflexivity|reflexivity|repeat constructor; exact Hg].
  Qed.

  (* ---- scheduler calls ---- *)
  Definition good_op' (op : sop) : Prop :=
    match op with
    | SAddNode _ | SSchedule | SComplete _ _ _ | SUnsched _ _ => True
    | SAddColl _ ids => ids = coll0
    | _ => False
    end.

  Lemma dok_sched_op op d0 : good_op' op -> okf DT d0 (d_sched_op op).
  Proof.
    intros Hop d' o v H cs Ecs I. unfold d_sched_op in H. rewrite Ecs in H.
    destruct (s_step (StC cs) op) as [[st' o1] r1] eqn:E. inversion H; subst. clear H.
    destruct op; cbn [good_op'] in Hop; try contradiction; cbn [s_step] in E.
    - apply lift_ok in E. destruct E as (s1 & [] & E & -> & _). exists s1. split; [reflexivity|].
      exact (ok_sc_add_node kind coll0 _ _ _ _ _ E I).
    - subst coll. apply lift_ok in E. destruct E as (s1 & [] & E & -> & _). exists s1. split; [reflexivity|].
      exact (ok_sc_add_coll kind coll0 _ _ _ _ _ E I).
    - apply lift_ok in E. destruct E as (s1 & [] & E & -> & _). exists s1. split; [reflexivity|].
      exact (ok_sc_schedule kind coll0 Hne _ _ _ _ E I).
    - apply lift_ok in E. destruct E as (s1 & [] & E & -> & _). exists s1. split; [reflexivity|].
      exact (ok_sc_complete kind coll0 Hne _ _ _ _ _ _ E I).
    - discriminate.
  Qed.

  Lemma dok_remove_assert n d0 :
    okf DT d0 (r <- d_sched_op (SRemove n) ;;
               massert (match r with None => true | Some s => String.eqb s "" end)).
  Proof.
    intros d' o v H cs Ecs I. unfold mbind in H.
    destruct (d_sched_op (SRemove n) d0) as [[d1 o1] r1] eqn:E1.
    destruct r1 as [r|e]; [|discriminate].
    unfold d_sched_op in E1. rewrite Ecs in E1.
    destruct (s_step (StC cs) (SRemove n)) as [[st' o2] r2] eqn:E. inversion E1; subst. clear E1.
    cbn [s_step] in E. apply lift_ok in E. destruct E as (s1 & a & E & -> & ->).
    destruct (sc_remove_ok kind coll0 _ _ _ _ _ E I) as [(-> & I' & T)|(item & -> & Hni)].
    - cbn in H. inversion H; subst. exists s1. split; [reflexivity|]. split; [exact I'|].
      rewrite app_nil_r. exact T.
    - assert (Eq : String.eqb item "" = false) by (apply String.eqb_neq; exact Hni).
      rewrite Eq in H. cbn in H. discriminate.
  Qed.

  (* ---- node.shutdown() ---- *)
  Lemma CI_set_nt cs v : CI cs -> all_open v -> CI (sc_set_nt cs v).
  Proof. intros [A B C D E F] Hv. constructor; assumption. Qed.

  Lemma dok_node_shutdown n d0 : okf DT d0 (d_node_shutdown n).
  Proof.
    intros d' o v H. apply d_node_shutdown_cases in H.
    destruct H as [(-> & ->)|(f & Ef & -> & Ho)]; [apply DT_refl|].
    intros cs Ecs I. rewrite d_sched_set_nt, Ecs. cbn [s_set_nt].
    eexists. split; [reflexivity|].
    assert (Hnt : d_nt d0 = sc_nt cs) by (unfold d_nt; rewrite Ecs; reflexivity).
    split.
    - apply CI_set_nt; [exact I|]. rewrite Hnt. apply all_open_aset; [apply I|].
      cbn. rewrite Hnt in Ef. exact (ci_open _ _ _ I _ _ Ef).
    - apply CTr_quiet; [reflexivity| |]; destruct Ho as [->| ->]; try reflexivity; repeat constructor.
  Qed.

  Lemma dok_triggershutdown d0 : okf DT d0 d_triggershutdown.
  Proof.
    unfold d_triggershutdown. apply (okf_get DT). cbv beta. destruct (d_shuttingdown d0); [apply (okf_ret DT DT_refl)|].
    apply (okf_bind DT DT_trans); [apply dok_put; reflexivity|intros _ d1].
    apply (okf_mfor DT DT_refl DT_trans). intros n d. apply dok_node_shutdown.
  Qed.

  Lemma dok_active_remove n d0 : okf DT d0 (d_active_remove n).
  Proof.
    unfold d_active_remove. apply (okf_get DT). cbv beta. destruct (mem_nat n (d_active d0)); [|apply (okf_raise DT)].
    apply dok_put. reflexivity.
  Qed.

  Lemma dok_handlefailures f d0 : okf DT d0 (d_handlefailures f).
  Proof.
    unfold d_handlefailures. destruct (negb f); [apply (okf_ret DT DT_refl)|].
    apply (okf_get DT). cbv beta. apply (okf_bind DT DT_trans); [apply dok_put; reflexivity|intros _ d1].
    apply (okf_get DT). cbv beta. destruct (_ && _); [apply dok_put; reflexivity|apply (okf_ret DT DT_refl)].
  Qed.

  (* events that occur in a run without worker failure in which every worker collects coll0 *)
  Definition ok_ev' (ev : cevent) : Prop :=
    match ev with
    | QErrorDown _ => False
    | QFinished _ SKKbd => False
    | QCollFinish _ ids => ids = coll0
    | _ => True
    end.

  Lemma dok_handle ev d0 : ok_ev' ev -> okf DT d0 (d_handle ev).
  Proof.
    destruct ev as [n|n ids|n key fl|n i|n i|n i k oc|n i ms|n ixs| |n|n sk|n]; cbn [ok_ev' d_handle]; intros Hev;
      try contradiction.
    - apply (okf_bind DT DT_trans); [apply dok_hook; exact I|intros _ d1]. apply (okf_get DT). cbv beta.
      destruct (d_shuttingdown d1); [apply dok_node_shutdown|].
      apply (okf_bind DT DT_trans); [apply dok_sched_op; exact I|intros _ d2; apply (okf_ret DT DT_refl)].
    - apply (okf_get DT). cbv beta. destruct (d_shuttingdown d0); [apply (okf_ret DT DT_refl)|].
      destruct (negb (mem_nat n (s_nodes (d_sched d0)))); [apply (okf_ret DT DT_refl)|].
      apply (okf_bind DT DT_trans); [apply dok_hook; exact I|intros _ d1].
      apply (okf_bind DT DT_trans); [apply dok_sched_op; exact Hev|intros _ d2].
      apply (okf_get DT). cbv beta. destruct (s_collection_is_completed (d_sched d2)); [|apply (okf_ret DT DT_refl)].
      apply (okf_bind DT DT_trans); [apply dok_sched_op; exact I|intros _ d3; apply (okf_ret DT DT_refl)].
    - apply (okf_get DT). cbv beta. destruct (mem_nat key (d_collect_seen d0)); [apply (okf_ret DT DT_refl)|].
      apply (okf_bind DT DT_trans); [apply dok_put; reflexivity|intros _ d1].
      apply (okf_bind DT DT_trans); [apply dok_hook; exact I|intros _ d2]. apply dok_handlefailures.
    - apply dok_hook. exact I.
    - apply dok_hook. exact I.
    - apply (okf_bind DT DT_trans); [apply dok_hook; exact I|intros _ d1]. apply dok_handlefailures.
    - apply (okf_bind DT DT_trans); [apply dok_sched_op; exact I|intros _ d2; apply (okf_ret DT DT_refl)].
    - apply (okf_bind DT DT_trans); [apply dok_sched_op; exact I|intros _ d2; apply (okf_ret DT DT_refl)].
    - apply dok_hook. exact I.
    - apply (okf_bind DT DT_trans); [apply dok_active_remove|intros _ d1]. apply dok_hook. exact I.
    - unfold d_worker_workerfinished. apply (okf_bind DT DT_trans); [apply dok_hook; exact I|intros _ d1].
      destruct sk; try contradiction.
      + apply (okf_get DT). cbv beta. apply (okf_bind DT DT_trans); [|intros _ d2; apply dok_active_remove].
        destruct (mem_nat n (s_nodes (d_sched d1))); [apply dok_remove_assert|apply (okf_ret DT DT_refl)].
      + apply (okf_bind DT DT_trans); [|intros _ d2; apply dok_active_remove].
        apply (okf_get DT). cbv beta. destruct (d_shouldstop d1); [apply (okf_ret DT DT_refl)|apply dok_put; reflexivity].
  Qed.

  Lemma dok_loop_once ev d0 : ok_ev' ev -> okf DT d0 (d_loop_once ev).
  Proof.
    intros Hev. unfold d_loop_once.
    apply (okf_bind DT DT_trans); [apply dok_handle; exact Hev|intros _ d1].
    apply (okf_bind DT DT_trans); [|intros _ d2].
    - apply (okf_get DT). cbv beta. destruct (s_tests_finished (d_sched d1)); [apply dok_triggershutdown|apply (okf_ret DT DT_refl)].
    - apply (okf_get DT). cbv beta. destruct (d_shouldstop d2); [apply dok_triggershutdown|apply (okf_ret DT DT_refl)].
  Qed.

  Lemma ok_ev'_not_death ev : ok_ev' ev -> death_event ev = false.
  Proof. destruct ev as [| | | | | | | | | |n sk|]; cbn; try tauto. destruct sk; tauto. Qed.

  Lemma loop_once_nospawn' ev d d' o r :
    ok_ev' ev -> d_loop_once ev d = (d', o, r) -> Forall (fun x => is_spawn x = false) o.
  Proof.
    intros Hev H. apply ok_ev'_not_death in Hev. unfold d_loop_once in H.
    assert (Q : DSessionProofs.quiet (d_handle ev ;;;
                       (d0 <- get ;; if s_tests_finished (d_sched d0) then d_triggershutdown else ret tt) ;;;
                       (d0 <- get ;; if d_shouldstop d0 then d_triggershutdown else ret tt))).
    { apply (dspec_bind _ _ same_budget_trans); [apply quiet_handle; exact Hev|intros _].
      apply (dspec_bind _ _ same_budget_trans); [intros d0; qs; apply quiet_triggershutdown|].
      intros _ d0. qs. apply quiet_triggershutdown. }
    destruct (Q _ _ _ _ H) as (_ & F). eapply Forall_impl; [|exact F]. intros x (X & _). exact X.
  Qed.

  (* ---- the controller's receiver thread ---- *)
  Definition ok_up' (m : upmsg) : Prop :=
    match m with
    | UEv _ | UComplete _ _ => True
    | UCollFinish ids => ids = coll0
    | _ => False
    end.

  Lemma pfr_scope n m d d' o r :
    ok_up' m -> process_from_remote n m d = (d', o, r) ->
    o = [] /\
    (forall cs, d_sched d = StC cs -> CI cs ->
       exists cs', d_sched d' = StC cs' /\ CI cs' /\ vpool cs' = vpool cs) /\
    (forall evs, r = Ok evs -> Forall ok_ev' evs).
  Proof.
    intros Hm H.
    assert (SAME : forall (x : result (list cevent)), (d, @nil out, x) = (d', o, r) ->
       (forall evs, x = Ok evs -> Forall ok_ev' evs) ->
       o = [] /\
       (forall cs, d_sched d = StC cs -> CI cs ->
          exists cs', d_sched d' = StC cs' /\ CI cs' /\ vpool cs' = vpool cs) /\
       (forall evs, r = Ok evs -> Forall ok_ev' evs)).
    { intros x E Hx. inversion E; subst. split; [reflexivity|]. split; [|exact Hx].
      intros cs Ecs I. exists cs. auto. }
    unfold process_from_remote, mbind, get, of_opt, ret, raise in H. cbn beta iota zeta in H.
    destruct (aget n (d_nt d)) as [f|] eqn:Ef; cbn beta iota zeta in H.
    2:{ eapply SAME; [exact H|]. discriminate. }
    assert (DOWN : forall (evs0 : list cevent),
       (d_set_nt d (aset n {| n_spec := n_spec f; n_down := true; n_sdsent := n_sdsent f; n_closed := n_closed f |} (d_nt d)),
        @nil out, Ok evs0) = (d', o, r) -> Forall ok_ev' evs0 ->
       o = [] /\
       (forall cs, d_sched d = StC cs -> CI cs ->
          exists cs', d_sched d' = StC cs' /\ CI cs' /\ vpool cs' = vpool cs) /\
       (forall evs, r = Ok evs -> Forall ok_ev' evs)).
    { intros evs0 E Hx. inversion E; subst. split; [reflexivity|]. split.
      - intros cs Ecs I. rewrite d_sched_set_nt, Ecs. cbn [s_set_nt]. eexists. split; [reflexivity|].
        assert (Hnt : d_nt d = sc_nt cs) by (unfold d_nt; rewrite Ecs; reflexivity).
        split; [|reflexivity].
        apply CI_set_nt; [exact I|]. rewrite Hnt. apply all_open_aset; [apply I|].
        cbn. rewrite Hnt in Ef. exact (ci_open _ _ _ I _ _ Ef).
      - intros evs E'. inversion E'; subst. exact Hx. }
    destruct (n_down f) eqn:Edn.
    { assert (H' : (d, @nil out, Ok (@nil cevent)) = (d', o, r)).
      { destruct m as [e|ids|sk|i ms|dec| | |]; exact H. }
      eapply SAME; [exact H'|]. intros evs E. inversion E; subst. constructor. }
    destruct m as [e|ids|sk|i ms|dec| | |]; cbn [ok_up'] in Hm; try contradiction.
    - destruct e; unfold put in H; cbn beta iota zeta in H;
        try (eapply SAME; [exact H|]; intros evs E; inversion E; subst; repeat constructor; fail).
      eapply DOWN; [exact H|]. destruct stopreq; repeat constructor.
    - eapply SAME; [exact H|]. intros evs E. inversion E; subst. repeat constructor; try exact Hm.
    - eapply SAME; [exact H|]. intros evs E. inversion E; subst. repeat constructor.
  Qed.
End DInv.

(* ====================================================================================== *)
(* Part 6: the system                                                                      *)
(* ====================================================================================== *)
(* everything worker n holds or is about to receive, in the order in which it will run it *)
Definition stream (s : sys) (n : nat) : list nat :=
  match aget n (y_w s) with Some w => w_stream w | None => [] end ++
  flat_map cmd_inds (alist_get [] n (y_down s)).

(* the blocks sent to node n in a list of outputs *)
Definition block_to (n : nat) (x : out) : list (list nat) :=
  match x with OSend m (CRun ixs) => if Nat.eqb m n then [ixs] else [] | _ => [] end.
Definition blocks_to (n : nat) (outs : list out) : list (list nat) := flat_map (block_to n) outs.

Lemma flat_map_nil_in {A B} (f : A -> list B) l : (forall k, In k l -> f k = []) -> flat_map f l = [].
Proof.
  intros H. induction l as [|k l IH]; cbn; [reflexivity|].
  rewrite (H k (or_introl eq_refl)), IH; [reflexivity|]. intros j Hj. apply H. right. exact Hj.
Qed.

Lemma flat_map_one_key {B} (b : B) m l :
  NoDup l -> subl (flat_map (fun n => if Nat.eqb m n then [b] else []) l) [b].
Proof.
  induction l as [|a l IH]; intros ND; cbn; [exists [b]; reflexivity|].
  inversion ND as [|x xs Hn ND']; subst. destruct (Nat.eqb m a) eqn:E.
  - apply Nat.eqb_eq in E. subst a. rewrite flat_map_nil_in; [apply subl_refl|].
    intros k Hk. destruct (Nat.eqb m k) eqn:Ek; [|reflexivity]. apply Nat.eqb_eq in Ek. subst k. contradiction.
  - apply IH. exact ND'.
Qed.

(* every block sent goes to one node *)
Lemma blocks_to_sub outs l : NoDup l -> subl (flat_map (fun n => blocks_to n outs) l) (cruns outs).
Proof.
  intros ND. induction outs as [|x outs IH].
  - cbn. rewrite flat_map_nil_in; [apply subl_refl|reflexivity].
  - unfold blocks_to, cruns. cbn [flat_map]. fold (cruns outs).
    eapply subl_trans; [apply subl_perm, flat_map_app_perm|]. apply subl_app; [|exact IH].
    destruct x as [h|m cm| |]; try (rewrite flat_map_nil_in; [apply subl_refl|reflexivity]).
    destruct cm; try (rewrite flat_map_nil_in; [apply subl_refl|reflexivity]).
    cbn [block_to]. apply flat_map_one_key. exact ND.
Qed.

Lemma apply_outs_scope outs : forall s,
  y_dead s = [] -> Forall good_out outs ->
  y_d (apply_outs s outs) = y_d s /\ y_evq (apply_outs s outs) = y_evq s /\
  y_up (apply_outs s outs) = y_up s /\ y_w (apply_outs s outs) = y_w s /\
  y_dead (apply_outs s outs) = y_dead s /\
  ((forall n, Forall good_cmd (alist_get [] n (y_down s))) ->
   forall n, Forall good_cmd (alist_get [] n (y_down (apply_outs s outs)))) /\
  (forall n, stream (apply_outs s outs) n = stream s n ++ concat (blocks_to n outs)).
Proof.
  induction outs as [|x outs IH]; intros s Hd Hg.
  - cbn. repeat split; auto. intros n. rewrite app_nil_r. reflexivity.
  - inversion Hg as [|x' r' Gx Gr]; subst.
    assert (SKIP : (forall n, block_to n x = []) -> apply_outs s (x :: outs) = apply_outs s outs ->
       y_d (apply_outs s (x :: outs)) = y_d s /\ y_evq (apply_outs s (x :: outs)) = y_evq s /\
       y_up (apply_outs s (x :: outs)) = y_up s /\ y_w (apply_outs s (x :: outs)) = y_w s /\
       y_dead (apply_outs s (x :: outs)) = y_dead s /\
       ((forall n, Forall good_cmd (alist_get [] n (y_down s))) ->
        forall n, Forall good_cmd (alist_get [] n (y_down (apply_outs s (x :: outs))))) /\
       (forall n, stream (apply_outs s (x :: outs)) n = stream s n ++ concat (blocks_to n (x :: outs)))).
    { intros Hr ->. unfold blocks_to. cbn [flat_map]. fold (blocks_to).
      destruct (IH s Hd Gr) as (A1 & A2 & A3 & A4 & A5 & A6 & A7).
      repeat split; auto. intros n. rewrite Hr. cbn [app]. apply A7. }
    destruct x as [h|n cm| |]; try (apply SKIP; reflexivity).
    + destruct h; try (apply SKIP; reflexivity). cbn in Gx. contradiction.
    + destruct (run_inds_good _ _ Gx) as (Er & Gc).
      cbn [apply_outs]. replace (mem_nat n (y_dead s)) with false by (rewrite Hd; reflexivity).
      set (s1 := {| y_d := y_d s; y_evq := y_evq s;
                    y_down := aset n (alist_get [] n (y_down s) ++ [cm]) (y_down s);
                    y_up := y_up s; y_w := y_w s; y_dead := y_dead s; y_result := y_result s |}).
      destruct (IH s1 Hd Gr) as (A1 & A2 & A3 & A4 & A5 & A6 & A7).
      split; [exact A1|]. split; [exact A2|]. split; [exact A3|]. split; [exact A4|]. split; [exact A5|].
      split.
      * intros Hdn. apply A6. intros k. subst s1. cbn [y_down].
        destruct (Nat.eq_dec k n) as [->|Hkn].
        -- rewrite alist_get_aset_eq. apply Forall_app. split; [apply Hdn|repeat constructor; exact Gc].
        -- rewrite alist_get_aset_neq by exact Hkn. apply Hdn.
      * intros k. rewrite A7. unfold blocks_to. cbn [flat_map]. fold (blocks_to k outs).
        rewrite concat_app, app_assoc. f_equal.
        unfold stream. subst s1. cbn [y_down y_w].
        destruct (Nat.eq_dec k n) as [->|Hkn].
        -- rewrite alist_get_aset_eq, fm_cmd_app. cbn [flat_map block_to]. rewrite Nat.eqb_refl, app_nil_r.
           rewrite <- app_assoc. f_equal. f_equal.
           destruct cm; cbn in Gc; try contradiction; cbn; rewrite ?app_nil_r; reflexivity.
        -- rewrite alist_get_aset_neq by exact Hkn.
           assert (Eb : block_to k (OSend n cm) = []).
           { cbn. destruct cm; try reflexivity. apply Nat.eqb_neq in Hkn. rewrite Nat.eqb_sym, Hkn. reflexivity. }
           rewrite Eb. cbn. rewrite app_nil_r. reflexivity.
Qed.

Section SysInv.
  Variable kind : scope_kind.
  Variable coll0 : list string.
  Hypothesis Hne : ~ In ""%string coll0.

  Notation CI := (CI kind coll0).
  Notation CTr := (CTr kind coll0).
  Notation vpool := (vpool kind coll0).
  Notation ixs_of := (ixs_of coll0).
  Notation blocks := (blocks kind coll0).
  Notation ok_ev' := (ok_ev' coll0).
  Notation ok_up' := (ok_up' coll0).

  (* B n: the blocks handed to node n so far.  Every node's stream is the concatenation of whole
     blocks; queue and nodes together hold every block of the collection at most once *)
  Definition TOKC (cs : scstate) (B : nat -> list (list nat)) (keys : list nat) : Prop :=
    subl (map ixs_of (vpool cs) ++ flat_map B keys) blocks.

  Record CInv (s : sys) : Prop := {
    cv_dead : y_dead s = [];
    cv_keys : NoDup (akeys (y_w s));
    cv_tok : exists cs B, d_sched (y_d s) = StC cs /\ CI cs /\
               (forall n, stream s n = concat (B n)) /\ TOKC cs B (akeys (y_w s));
    cv_evq : Forall ok_ev' (y_evq s);
    cv_up : forall n, Forall ok_up' (alist_get [] n (y_up s));
    cv_down : forall n, Forall good_cmd (alist_get [] n (y_down s));
    cv_w : forall n w, aget n (y_w s) = Some w -> WInv w /\ Forall good_cmd (winbox w);
    cv_ng : forall n w, aget n (y_w s) = Some w -> nogarb w;
  }.

  Lemma CInv_set_result s r : CInv s -> CInv (set_result s r).
  Proof. intros [A B C D E F G NG]. constructor; assumption. Qed.

  Lemma tokc_step cs cs' o B keys :
    NoDup keys -> CTr cs cs' o -> TOKC cs B keys ->
    TOKC cs' (fun n => B n ++ blocks_to n o) keys.
  Proof.
    intros ND (us & E1 & E2 & _) T. unfold TOKC in *. rewrite E1, map_app in T.
    eapply subl_trans; [|exact T].
    eapply subl_trans.
    { apply subl_app; [apply subl_refl|].
      eapply subl_trans; [apply subl_perm, flat_map_app_perm|].
      apply subl_app; [apply subl_refl|apply blocks_to_sub; exact ND]. }
    rewrite E2. apply subl_perm.
    rewrite (app_assoc (map ixs_of (vpool cs'))). rewrite <- (app_assoc (map ixs_of us)).
    apply Permutation_app_comm.
  Qed.

  (* ---- a worker step: its stream is unchanged, its events go onto its wire ---- *)
  Lemma worker_step_cinv c s n w w' evs :
    (forall k, c_coll c k = coll0) ->
    CInv s -> aget n (y_w s) = Some w -> WInv w' -> Forall good_cmd (winbox w') ->
    nogarb w' -> Forall (fun e => is_garbled e = false) evs ->
    w_stream w' = w_stream w ->
    CInv (push_up (set_w s n w') n (map (up_of_wevent c n) evs)).
  Proof.
    intros Hsame [A B (cs & Bk & Ecs & I & St & T) D E F G NG] Ew Iw Gw NGw NGe Pw.
    assert (Ek : akeys (aset n w' (y_w s)) = akeys (y_w s)).
    { apply akeys_aset_in. eapply aget_some_in; eauto. }
    constructor; cbn [push_up set_w y_dead y_w y_d y_evq y_up y_down].
    - exact A.
    - rewrite Ek. exact B.
    - exists cs, Bk. split; [exact Ecs|]. split; [exact I|]. split; [|rewrite Ek; exact T].
      intros k. rewrite <- St. unfold stream. cbn [push_up set_w y_w y_down].
      destruct (Nat.eq_dec k n) as [->|Hk].
      + rewrite aget_aset_eq, Ew, Pw. reflexivity.
      + rewrite aget_aset_neq by exact Hk. reflexivity.
    - exact D.
    - intros k. destruct (Nat.eq_dec k n) as [->|Hk].
      + rewrite alist_get_aset_eq. apply Forall_app. split; [apply E|].
        apply Forall_forall. intros m Hm. apply in_map_iff in Hm. destruct Hm as (e & <- & He).
        rewrite Forall_forall in NGe. specialize (NGe e He).
        destruct e; cbn; auto. destruct oc; cbn; auto. discriminate.
      + rewrite alist_get_aset_neq by exact Hk. apply E.
    - exact F.
    - intros k wk. destruct (Nat.eq_dec k n) as [->|Hk].
      + rewrite aget_aset_eq. intros X. inversion X; subst. auto.
      + rewrite aget_aset_neq by exact Hk. apply G.
    - intros k wk. destruct (Nat.eq_dec k n) as [->|Hk].
      + rewrite aget_aset_eq. intros X. inversion X; subst. exact NGw.
      + rewrite aget_aset_neq by exact Hk. apply NG.
  Qed.

  (* ---- the one-step lemma ---- *)
  Lemma step_cinv c s l s' o w :
    (forall n i, c_crash_in c n i = false) -> no_garbled c -> (forall k, c_coll c k = coll0) ->
    no_crash_label l -> CInv s -> sys_step c s l = Some (s', o, w) ->
    CInv s' \/ (y_w s' = y_w s /\ Errd s').
  Proof.
    intros Hnc Hng Hsame Hl Inv H. pose proof Inv as [A B (cs & Bk & Ecs & I & St & T) D E F G NG].
    unfold sys_step in H. destruct (y_result s) eqn:Er; [discriminate|].
    destruct l as [n0|n0|n0|n0| |n0]; [| | | | |contradiction].
    - (* LDeliver *)
      replace (mem_nat n0 (y_dead s)) with false in H by (rewrite A; reflexivity).
      destruct (aget n0 (y_down s)) as [[|cmd rest]|] eqn:Ed; try discriminate.
      destruct (aget n0 (y_w s)) as [w0|] eqn:Ew; try discriminate.
      fin3 H s' o w. left.
      assert (Ek : akeys (aset n0 (deliver w0 cmd) (y_w s)) = akeys (y_w s)).
      { apply akeys_aset_in. eapply aget_some_in; eauto. }
      pose proof (F n0) as Fn. rewrite (alist_get_some [] _ _ _ Ed) in Fn.
      inversion Fn as [|c1 r1 Gc Gr]; subst.
      destruct (G _ _ Ew) as (Iw & Gw).
      constructor; cbn [y_dead y_w y_d y_evq y_up y_down].
      + exact A.
      + rewrite Ek. exact B.
      + exists cs, Bk. split; [exact Ecs|]. split; [exact I|]. split; [|rewrite Ek; exact T].
        intros k. rewrite <- St. unfold stream. cbn [y_w y_down].
        destruct (Nat.eq_dec k n0) as [->|Hk].
        * rewrite aget_aset_eq, Ew, alist_get_aset_eq, (alist_get_some [] _ _ _ Ed), deliver_stream.
          cbn [flat_map]. rewrite <- app_assoc. reflexivity.
        * rewrite aget_aset_neq, alist_get_aset_neq by exact Hk. reflexivity.
      + exact D.
      + exact E.
      + intros k. destruct (Nat.eq_dec k n0) as [->|Hk].
        * rewrite alist_get_aset_eq. exact Gr.
        * rewrite alist_get_aset_neq by exact Hk. apply F.
      + intros k wk. destruct (Nat.eq_dec k n0) as [->|Hk].
        * rewrite aget_aset_eq. intros X. inversion X; subst. split; [apply upd_recv_inv; exact Iw|].
          apply deliver_good; assumption.
        * rewrite aget_aset_neq by exact Hk. apply G.
      + intros k wk. destruct (Nat.eq_dec k n0) as [->|Hk].
        * rewrite aget_aset_eq. intros X. inversion X; subst. apply (nogarb_ph _ w0); [reflexivity|]. exact (NG _ _ Ew).
        * rewrite aget_aset_neq by exact Hk. apply NG.
    - (* LRecvW *)
      replace (mem_nat n0 (y_dead s)) with false in H by (rewrite A; reflexivity).
      destruct (aget n0 (y_w s)) as [w0|] eqn:Ew; try discriminate.
      destruct (negb (wcb w0)); [discriminate|].
      destruct (recv_step (c_oracle c n0) w0) as [w' evs] eqn:Es. fin3 H s' o w. left.
      destruct (G _ _ Ew) as (Iw & Gw).
      pose proof (recv_step_stream (c_oracle c n0) w0 Gw) as (P & Gw').
      pose proof (recv_step_inv (c_oracle c n0) w0 Iw) as Iw'. rewrite Es in P, Gw', Iw'. cbn [fst] in *.
      destruct (recv_step_nogarb _ _ _ _ Es (NG _ _ Ew)) as (NGw & NGe).
      eapply worker_step_cinv; eauto.
    - (* LMain *)
      replace (mem_nat n0 (y_dead s)) with false in H by (rewrite A; reflexivity).
      destruct (aget n0 (y_w s)) as [w0|] eqn:Ew; try discriminate.
      assert (Hd : dies_now c n0 w0 = false).
      { unfold dies_now. destruct (wph w0); auto. }
      rewrite Hd in H.
      destruct (main_step (c_oracle c n0) w0) as [[w' evs]|] eqn:Es; [|discriminate]. fin3 H s' o w. left.
      destruct (G _ _ Ew) as (Iw & Gw).
      destruct (main_step_stream _ _ _ _ Es) as (P & Ei).
      destruct (main_step_nogarb _ _ _ _ (Hng n0) Es (NG _ _ Ew)) as (NGw & NGe).
      eapply worker_step_cinv; eauto.
      + eapply main_step_inv; eauto.
      + rewrite Ei. exact Gw.
    - (* LRecv *)
      destruct (aget n0 (y_up s)) as [[|m rest]|] eqn:Eu; try discriminate.
      cbn [y_d] in H.
      destruct (process_from_remote n0 m (y_d s)) as [[d' outs] r] eqn:Ep.
      pose proof (E n0) as En. rewrite (alist_get_some [] _ _ _ Eu) in En.
      inversion En as [|m1 r1 Gm Gr]; subst.
      destruct (pfr_scope kind coll0 _ _ _ _ _ _ Gm Ep) as (-> & Hd' & Hev).
      cbn [apply_outs] in H.
      destruct r as [evs|e].
      + unfold close_if_dead in H. cbn [set_evq set_d y_dead] in H.
        replace (mem_nat n0 (y_dead s)) with false in H by (rewrite A; reflexivity).
        fin3 H s' o w. left.
        destruct (Hd' cs Ecs I) as (cs' & Ecs' & I' & Ep').
        constructor; cbn [set_evq set_d y_dead y_w y_d y_evq y_up y_down].
        * exact A.
        * exact B.
        * exists cs', Bk. split; [exact Ecs'|]. split; [exact I'|]. split; [exact St|].
          unfold TOKC in *. rewrite Ep'. exact T.
        * apply Forall_app. split; [exact D|apply Hev; reflexivity].
        * intros k. destruct (Nat.eq_dec k n0) as [->|Hk].
          -- rewrite alist_get_aset_eq. exact Gr.
          -- rewrite alist_get_aset_neq by exact Hk. apply E.
        * exact F.
        * exact G.
        * exact NG.
      + fin3 H s' o w. right. split; [reflexivity|]. exists e. reflexivity.
    - (* LCtl *)
      destruct (d_active (y_d s)) as [|a0 ar] eqn:Ea.
      + destruct (d_no_active (y_d s)) as [[d' outs] r0] eqn:En. fin3 H s' o w. right.
        split; [|eexists; reflexivity]. cbn [set_result y_w].
        rewrite apply_outs_yw; [reflexivity|]. eapply no_active_nospawn; eauto.
      + destruct (y_evq s) as [|ev q] eqn:Eq; [discriminate|].
        inversion D as [|ev1 q1 Gev Gq]; subst.
        destruct (d_loop_once ev (y_d s)) as [[d' outs] r] eqn:El.
        pose proof (loop_once_nospawn' coll0 _ _ _ _ _ Gev El) as NS.
        set (s0 := set_d (set_evq s q) d') in *.
        assert (YW : y_w (apply_outs s0 outs) = y_w s).
        { rewrite apply_outs_yw by exact NS. reflexivity. }
        destruct r as [[]|e].
        2:{ fin3 H s' o w. right. split; [exact YW|eexists; reflexivity]. }
        destruct (dok_loop_once kind coll0 Hne ev (y_d s) Gev _ _ _ El cs Ecs I) as (cs' & Ecs' & I' & CTr').
        pose proof CTr' as (us & _ & _ & Go).
        destruct (apply_outs_scope outs s0 A Go) as (A1 & A2 & A3 & A4 & A5 & A6 & A7).
        assert (S1 : CInv (apply_outs s0 outs)).
        { constructor.
          - rewrite A5. exact A.
          - rewrite A4. exact B.
          - exists cs', (fun n => Bk n ++ blocks_to n outs). rewrite A1. split; [exact Ecs'|]. split; [exact I'|].
            split.
            + intros k. rewrite A7, concat_app. f_equal. rewrite <- St. reflexivity.
            + rewrite A4. eapply tokc_step; eauto.
          - rewrite A2. exact Gq.
          - intros k. rewrite A3. apply E.
          - apply A6. exact F.
          - intros k wk. rewrite A4. apply G.
          - intros k wk. rewrite A4. apply NG. }
        destruct (d_session_finished d'); [fin3 H s' o w; left; apply CInv_set_result; exact S1|].
        destruct (d_active d') as [|b0 br] eqn:Ea'.
        * destruct (d_no_active d') as [[d2 outs2] r2] eqn:En. fin3 H s' o w. right.
          split; [|eexists; reflexivity]. cbn [set_result y_w].
          rewrite apply_outs_yw; [exact YW|]. eapply no_active_nospawn; eauto.
        * fin3 H s' o w. left. exact S1.
  Qed.
End SysInv.

(* ====================================================================================== *)
(* Part 7: every schedule                                                                  *)
(* ====================================================================================== *)
(* indices worker n has passed to pytest_runtest_protocol, in order *)
Definition ranW (W : amap wst) (n : nat) : list nat :=
  match aget n W with Some w => map (fun r => snd (fst r)) (wran w) | None => [] end.
Definition ran (s : sys) (n : nat) : list nat := ranW (y_w s) n.

Section Run.
  Variable kind : scope_kind.
  Variable coll0 : list string.
  Hypothesis Hne : ~ In ""%string coll0.

  Notation CInv := (CInv kind coll0).
  Notation blocks := (blocks kind coll0).
  Notation key := (key kind coll0).

  Lemma stream_init c n : stream (sys_init c) n = [].
  Proof.
    unfold stream. cbn [sys_init y_down y_w]. rewrite alist_get_map_nil. cbn [flat_map]. rewrite app_nil_r.
    destruct (aget n (map (fun n => (n, w_init)) (seq 0 (c_numnodes c)))) as [w|] eqn:E; [|reflexivity].
    apply aget_map_const in E. subst w. reflexivity.
  Qed.

  Lemma CInv_init c : c_mode c = MScope kind -> CInv (sys_init c).
  Proof.
    intros Hm. constructor.
    - reflexivity.
    - cbn [sys_init y_w]. rewrite (akeys_map_seq (fun _ => w_init)). apply seq_NoDup.
    - cbn [sys_init y_d d_sched]. rewrite Hm. cbn [s_init s_set_nt].
      eexists. exists (fun _ => []). split; [reflexivity|]. split; [|split].
      + constructor; cbn [sc_set_nt sc_init sc_nt sc_kind sc_reg sc_coll sc_wq sc_assigned].
        * apply init_nt_open.
        * reflexivity.
        * intros n cl [].
        * reflexivity.
        * unfold vpool. cbn [sc_set_nt sc_init sc_coll]. apply incl_refl.
        * intros n w sc u [].
      + intros n. apply stream_init.
      + unfold TOKC, vpool. cbn [sc_set_nt sc_init sc_coll].
        rewrite flat_map_nil_in by reflexivity. rewrite app_nil_r. apply subl_refl.
    - constructor.
    - intros n. cbn [sys_init y_up]. rewrite alist_get_map_nil. constructor.
    - intros n. cbn [sys_init y_down]. rewrite alist_get_map_nil. constructor.
    - intros n w E. cbn [sys_init y_w] in E. apply aget_map_const in E. subst w.
      split; [apply winv_init|constructor].
    - intros n w E. cbn [sys_init y_w] in E. apply aget_map_const in E. subst w. exact I.
  Qed.

  (* either the invariant holds, or a controller exception ended the session and the workers
     are those of a state in which the invariant held *)
  Definition CGood (s : sys) : Prop :=
    CInv s \/ (exists s0, CInv s0 /\ y_w s = y_w s0 /\ Errd s).

  Lemma cgood_step c s l :
    (forall n i, c_crash_in c n i = false) -> no_garbled c -> (forall k, c_coll c k = coll0) ->
    no_crash_label l -> CGood s -> CGood (step_of c s l).
  Proof.
    intros Hnc Hng Hsame Hl Hg. unfold step_of.
    destruct (sys_step c s l) as [[[s' o] w]|] eqn:E; [|exact Hg].
    destruct Hg as [Inv|(s0 & _ & _ & (e & Er))].
    - destruct (step_cinv kind coll0 Hne _ _ _ _ _ _ Hnc Hng Hsame Hl Inv E) as [Inv'|(Ew & Ee)]; [left; exact Inv'|].
      right. exists s. auto.
    - unfold sys_step in E. rewrite Er in E. discriminate.
  Qed.

  Lemma cgood_run c ls :
    c_mode c = MScope kind -> (forall n i, c_crash_in c n i = false) -> no_garbled c ->
    (forall k, c_coll c k = coll0) ->
    Forall no_crash_label ls -> CGood (sys_run c ls).
  Proof.
    intros Hm Hnc Hng Hsame Hls. unfold sys_run.
    assert (G : forall s, CGood s -> CGood (fold_left (step_of c) ls s)).
    { induction Hls as [|l ls Hl Hls IH]; intros s Hg; cbn [fold_left]; [exact Hg|].
      apply IH. apply cgood_step; assumption. }
    apply (G (sys_init c)). left. apply CInv_init. exact Hm.
  Qed.

  (* ---- what the invariant says about the workers alone ---- *)
  (* every worker has run an initial part of a sequence of whole blocks; all these blocks
     together are blocks of the collection, each used at most once *)
  Definition Master (W : amap wst) : Prop :=
    NoDup (akeys W) /\
    exists B : nat -> list (list nat),
      (forall n, exists rest, concat (B n) = ranW W n ++ rest) /\ subl (flat_map B (akeys W)) blocks.

  Lemma cinv_master s : CInv s -> Master (y_w s).
  Proof.
    intros [A B (cs & Bk & Ecs & I & St & T) D E F G NG]. split; [exact B|]. exists Bk. split.
    - intros n. rewrite <- St. unfold stream, ranW. destruct (aget n (y_w s)) as [w|] eqn:Ew.
      + destruct (G _ _ Ew) as (Iw & _). destruct (started_prefix_popped w Iw) as (more & Em).
        unfold w_stream. rewrite Em. rewrite <- !app_assoc. eexists. reflexivity.
      + eexists. reflexivity.
    - eapply subl_trans; [apply subl_app_r|exact T].
  Qed.

  Lemma cgood_master s : CGood s -> Master (y_w s).
  Proof. intros [Inv|(s0 & Inv & -> & _)]; apply cinv_master; exact Inv. Qed.

  Section FromMaster.
    Variable W : amap wst.
    Hypothesis HM : Master W.

    Lemma ran_in_keys n i : In i (ranW W n) -> In n (akeys W).
    Proof.
      unfold ranW. destruct (aget n W) as [w|] eqn:E; [|contradiction]. intros _. eapply aget_some_in; eauto.
    Qed.

    Lemma m_one_worker n m i j : In i (ranW W n) -> In j (ranW W m) -> key i = key j -> n = m.
    Proof.
      destruct HM as (ND & B & Hpre & Hsub). intros Hi Hj Ek.
      pose proof (ran_in_keys _ _ Hi) as Kn. pose proof (ran_in_keys _ _ Hj) as Km.
      assert (NDall : NoDup (flat_map (fun n => concat (B n)) (akeys W))).
      { rewrite <- concat_flat_map. eapply subl_concat_nodup; [exact Hsub|apply blocks_nodup]. }
      destruct (Hpre n) as (rn & En). destruct (Hpre m) as (rm & Em).
      assert (Ci : In i (concat (B n))) by (rewrite En; apply in_or_app; left; exact Hi).
      assert (Cj : In j (concat (B m))) by (rewrite Em; apply in_or_app; left; exact Hj).
      pose proof Ci as Ci'. pose proof Cj as Cj'.
      apply in_concat_iff in Ci'. destruct Ci' as (b1 & Hb1 & Hi1).
      apply in_concat_iff in Cj'. destruct Cj' as (b2 & Hb2 & Hj2).
      assert (G1 : In b1 blocks).
      { eapply subl_in; [exact Hsub|]. apply in_flat_map. exists n. auto. }
      assert (G2 : In b2 blocks).
      { eapply subl_in; [exact Hsub|]. apply in_flat_map. exists m. auto. }
      assert (b1 = b2) by (eapply blocks_key_inj; eauto). subst b2.
      assert (Cj2 : In j (concat (B n))) by (apply in_concat_iff; exists b1; auto).
      eapply (nodup_flat_map_key (fun n => concat (B n)) (akeys W) n m j); eauto.
    Qed.

    Lemma m_blocks_of n :
      In n (akeys W) ->
      exists Bs rest, concat Bs = ranW W n ++ rest /\ (forall b, In b Bs -> In b blocks) /\ NoDup (concat Bs).
    Proof.
      destruct HM as (ND & B & Hpre & Hsub). intros Kn. destruct (Hpre n) as (rest & En).
      exists (B n), rest. split; [exact En|]. split.
      - intros b Hb. eapply subl_in; [exact Hsub|]. apply in_flat_map. exists n. auto.
      - apply (nodup_flat_map_one (fun n => concat (B n)) (akeys W) n); [|exact Kn].
        rewrite <- concat_flat_map. eapply subl_concat_nodup; [exact Hsub|apply blocks_nodup].
    Qed.

    Lemma m_together n p q r i j k :
      p < q -> q < r ->
      nth_error (ranW W n) p = Some i -> nth_error (ranW W n) q = Some j -> nth_error (ranW W n) r = Some k ->
      key i = key k -> key j = key i.
    Proof.
      intros Hpq Hqr Hp Hq Hr Ek.
      assert (Kn : In n (akeys W)) by (eapply ran_in_keys, nth_error_In; eauto).
      destruct (m_blocks_of n Kn) as (Bs & rest & En & Hin & NDb).
      eapply (concat_together kind coll0 Bs Hin NDb p q r); eauto; rewrite En; apply nth_error_app_l; assumption.
    Qed.

    Lemma m_in_order n p q i j :
      p < q -> nth_error (ranW W n) p = Some i -> nth_error (ranW W n) q = Some j -> key i = key j -> i < j.
    Proof.
      intros Hpq Hp Hq Ek.
      assert (Kn : In n (akeys W)) by (eapply ran_in_keys, nth_error_In; eauto).
      destruct (m_blocks_of n Kn) as (Bs & rest & En & Hin & NDb).
      eapply (concat_in_order kind coll0 Bs Hin NDb p q); eauto; rewrite En; apply nth_error_app_l; assumption.
    Qed.

    Lemma m_started_nodup : NoDup (flat_map (ranW W) (akeys W)).
    Proof.
      destruct HM as (ND & B & Hpre & Hsub).
      apply (sub_nodup _ (flat_map (fun n => concat (B n)) (akeys W))).
      - apply sub_flat_map. intros k _. destruct (Hpre k) as (rest & ->). exists rest. reflexivity.
      - rewrite <- concat_flat_map. eapply subl_concat_nodup; [exact Hsub|apply blocks_nodup].
    Qed.

    (* every started index is a position in the collection *)
    Lemma m_started_valid n i : In i (ranW W n) -> i < length coll0.
    Proof.
      intros Hi. pose proof (ran_in_keys _ _ Hi) as Kn.
      destruct (m_blocks_of n Kn) as (Bs & rest & En & Hin & _).
      assert (Ci : In i (concat Bs)) by (rewrite En; apply in_or_app; left; exact Hi).
      apply in_concat_iff in Ci. destruct Ci as (b & Hb & Hib).
      destruct (blocks_in kind coll0 b (Hin b Hb)) as (p & Hp & ->).
      apply (block_key kind coll0 p i Hp Hib).
    Qed.
  End FromMaster.
End Run.

(* ====================================================================================== *)
(* C06 at system level: the theorems                                                       *)
(*                                                                                          *)
(* For EVERY scope kind (loadscope = KScope, loadfile = KFile, loadgroup = KGroup: the mode  *)
(* carries the kind, the proof never looks at the key function), every configuration and     *)
(* every schedule such that                                                                  *)
(*  (H-mode)    c_mode c = MScope kind;                                                      *)
(*  (H-nocrash) no worker dies: c_crash_in constantly false, no LCrash label;                *)
(*  (H-garbled) no worker sends an undecodable report (no_garbled c) -- the controller       *)
(*              writes such a worker off and hands its units to other workers although the   *)
(*              worker lives on (see ExactlyOnce.v);                                         *)
(*  (H-ids)     no worker collects a test with the EMPTY node id -- `assert not crashitem`   *)
(*              in worker_workerfinished lets an empty id through (see ExactlyOnce.v);       *)
(*  (H-same)    all workers collect the same list.                                          *)
(* NO further hypothesis is needed; in particular the collection may contain the same id     *)
(* twice (the later occurrences are never run: the work units are dicts keyed by node id).   *)
(* The statements are about what the WORKERS started, in EVERY reachable state, including     *)
(* states in which a controller exception has ended the session.                             *)
(* ====================================================================================== *)
Section C06.
  Variable c : config.
  Variable ls : list label.
  Variable kind : scope_kind.
  Hypothesis Hmode : c_mode c = MScope kind.
  Hypothesis Hnocrash : forall n i, c_crash_in c n i = false.
  Hypothesis Hnogarbled : no_garbled c.
  Hypothesis Hids : forall n, ~ In ""%string (c_coll c n).
  Hypothesis Hsame : forall n, c_coll c n = c_coll c 0.
  Hypothesis Hsched : Forall no_crash_label ls.

  (* the group of the test at position i of the collection *)
  Definition c06_key (i : nat) : string := split_of kind (nth i (c_coll c 0) ""%string).

  Lemma c06_master : Master kind (c_coll c 0) (y_w (sys_run c ls)).
  Proof. apply cgood_master. apply cgood_run; auto. Qed.

  (* 1. one worker per group *)
  Theorem c06_one_worker_per_group : forall n m i j,
    In i (ran (sys_run c ls) n) -> In j (ran (sys_run c ls) m) -> c06_key i = c06_key j -> n = m.
  Proof. intros n m i j. apply (m_one_worker kind (c_coll c 0) _ c06_master). Qed.

  (* 2. together: between two tests of one group a worker runs no test of another group *)
  Theorem c06_group_contiguous : forall n p q r i j k,
    p < q -> q < r ->
    nth_error (ran (sys_run c ls) n) p = Some i ->
    nth_error (ran (sys_run c ls) n) q = Some j ->
    nth_error (ran (sys_run c ls) n) r = Some k ->
    c06_key i = c06_key k -> c06_key j = c06_key i.
  Proof. intros n p q r i j k. apply (m_together kind (c_coll c 0) _ c06_master). Qed.

  (* 3. in order: the tests of one group are run in collection order *)
  Theorem c06_group_in_collection_order : forall n p q i j,
    p < q ->
    nth_error (ran (sys_run c ls) n) p = Some i ->
    nth_error (ran (sys_run c ls) n) q = Some j ->
    c06_key i = c06_key j -> i < j.
  Proof. intros n p q i j. apply (m_in_order kind (c_coll c 0) _ c06_master). Qed.

  (* 4. at most once: no test is started twice, by the same or by different workers *)
  Theorem c06_started_at_most_once : NoDup (started (sys_run c ls)).
  Proof.
    pose proof c06_master as HM. rewrite (started_keys _ (proj1 HM)).
    apply (m_started_nodup kind (c_coll c 0) _ HM).
  Qed.

  (* only collected tests are started *)
  Theorem c06_started_are_collected : forall n i,
    In i (ran (sys_run c ls) n) -> i < length (c_coll c 0).
  Proof. intros n i. apply (m_started_valid kind (c_coll c 0) _ c06_master). Qed.

  (* the structure behind 1-3: what a worker has run is an initial part of a sequence of WHOLE
     work units (index lists of units of the sorted work queue), no unit used twice *)
  Theorem c06_runs_whole_units : forall n,
    In n (akeys (y_w (sys_run c ls))) ->
    exists Bs rest,
      concat Bs = ran (sys_run c ls) n ++ rest /\
      (forall b, In b Bs -> In b (map (ixs_of (c_coll c 0)) (sort_units (build_units kind (c_coll c 0))))) /\
      NoDup (concat Bs).
  Proof. intros n. apply (m_blocks_of kind (c_coll c 0) _ c06_master). Qed.
End C06.

Print Assumptions c06_one_worker_per_group.
Print Assumptions c06_group_contiguous.
Print Assumptions c06_group_in_collection_order.
Print Assumptions c06_started_at_most_once.
Print Assumptions c06_started_are_collected.
Print Assumptions c06_runs_whole_units.

Check c06_one_worker_per_group.
Check c06_group_contiguous.
Check c06_group_in_collection_order.
Check c06_started_at_most_once.
Check c06_started_are_collected.
Check c06_runs_whole_units.

(* ====================================================================================== *)
(* Non-vacuity: concrete sessions, evaluated                                               *)
(* ====================================================================================== *)
Open Scope string_scope.
Definition c06_oracle : oracle :=
  {| reports_of := fun _ => [Passed]; stops_after := fun _ => false; ncollected := 5; coll_reports := [] |}.
(* scope m.py = {0,3} surrounds scope m.py::TestD = {1,2} *)
Definition c06_coll : list string :=
  ["m.py::test_a"; "m.py::TestD::t1"; "m.py::TestD::t2"; "m.py::test_b"; "n.py::u0"].
Definition c06_cfg_of (k : scope_kind) (coll : list string) : config :=
  {| c_mode := MScope k; c_numnodes := 2; c_chunk := None; c_maxfail := 0%Z; c_max_restart := Some 4%Z;
     c_requeue := 0; c_coll := fun _ => coll; c_oracle := fun _ => c06_oracle;
     c_dur := fun _ => 0%Z; c_crash_in := fun _ _ => false; c_strict := false; c_spec := fun _ => 0 |}.
Definition c06_cfg : config := c06_cfg_of KScope c06_coll.

Example c06_ex_units :
  sort_units (build_units KScope c06_coll) =
  [("m.py", [("m.py::test_a", false); ("m.py::test_b", false)]);
   ("m.py::TestD", [("m.py::TestD::t1", false); ("m.py::TestD::t2", false)]);
   ("n.py", [("n.py::u0", false)])] /\
  blocks KScope c06_coll = [[0; 3]; [1; 2]; [4]] /\
  map (c06_key c06_cfg KScope) [0; 1; 2; 3; 4] = ["m.py"; "m.py::TestD"; "m.py::TestD"; "m.py"; "n.py"].
Proof. vm_compute. repeat split. Qed.

(* both workers boot and collect, the controller handles workerready / collectionfinish of both
   and makes the initial distribution; then all components take turns *)
Definition c06_dist : list label :=
  c01_rep 4 [LMain 0] ++ c01_rep 4 [LMain 1] ++ c01_rep 3 [LRecv 0] ++ c01_rep 3 [LRecv 1] ++ c01_rep 4 [LCtl].
Definition c06_round : list label :=
  [LDeliver 0; LDeliver 1; LRecvW 0; LRecvW 1; LMain 0; LMain 1; LRecv 0; LRecv 1; LCtl].

(* work queue; per node: (id, commands on its wire, stream, run so far); session result *)
Definition c06_view (s : sys) :=
  (match d_sched (y_d s) with StC cs => map fst (sc_wq cs) | _ => [] end,
   map (fun n => (n, alist_get [] n (y_down s), stream s n, ran s n)) (akeys (y_w s)),
   y_result s).

(* after the initial distribution: unit m.py and then n.py to node 0, unit m.py::TestD to node 1,
   each unit one CRun command *)
Example c06_ex_distributed :
  c06_view (sys_run c06_cfg c06_dist) =
  ([], [(0, [CRun [0; 3]; CRun [4]; CShutdown], [0; 3; 4], []);
        (1, [CRun [1; 2]; CShutdown], [1; 2], [])], None).
Proof. vm_compute. reflexivity. Qed.

(* in the middle of the run *)
Example c06_ex_running :
  c06_view (sys_run c06_cfg (c06_dist ++ c01_rep 10 c06_round)) =
  ([], [(0, [], [0; 3; 4], [0; 3]); (1, [], [1; 2], [1; 2])], None).
Proof. vm_compute. reflexivity. Qed.

(* the session ends normally; worker 0 ran 0 3 4, worker 1 ran 1 2 *)
Definition c06_sched_full : list label := c06_dist ++ c01_rep 40 c06_round.
Example c06_ex_finished :
  c06_view (sys_run c06_cfg c06_sched_full) =
  ([], [(0, [], [0; 3; 4], [0; 3; 4]); (1, [], [1; 2], [1; 2])], Some RFinished).
Proof. vm_compute. reflexivity. Qed.

Lemma c06_hyps k coll ls0 :
  ~ In "" coll -> Forall no_crash_label ls0 ->
  c_mode (c06_cfg_of k coll) = MScope k /\
  (forall n i, c_crash_in (c06_cfg_of k coll) n i = false) /\
  no_garbled (c06_cfg_of k coll) /\
  (forall n, ~ In "" (c_coll (c06_cfg_of k coll) n)) /\
  (forall n, c_coll (c06_cfg_of k coll) n = c_coll (c06_cfg_of k coll) 0) /\
  Forall no_crash_label ls0.
Proof.
  intros H1 H2. repeat split; auto.
  intros n i H. cbn in H. destruct H as [H|[]]. discriminate.
Qed.

(* the hypotheses of the theorems hold of this session, so the theorems are not vacuous *)
Example c06_ex_theorems_apply :
  let s := sys_run c06_cfg c06_sched_full in
  y_result s = Some RFinished /\
  (forall n m i j, In i (ran s n) -> In j (ran s m) -> c06_key c06_cfg KScope i = c06_key c06_cfg KScope j -> n = m) /\
  (forall n p q r i j k, p < q -> q < r -> nth_error (ran s n) p = Some i -> nth_error (ran s n) q = Some j ->
     nth_error (ran s n) r = Some k -> c06_key c06_cfg KScope i = c06_key c06_cfg KScope k ->
     c06_key c06_cfg KScope j = c06_key c06_cfg KScope i) /\
  (forall n p q i j, p < q -> nth_error (ran s n) p = Some i -> nth_error (ran s n) q = Some j ->
     c06_key c06_cfg KScope i = c06_key c06_cfg KScope j -> i < j) /\
  NoDup (started s) /\ started s = [0; 3; 4; 1; 2].
Proof.
  assert (H : ~ In "" c06_coll).
  { intros H. cbn in H. repeat (destruct H as [H|H]; [discriminate|]). exact H. }
  assert (Hl : Forall no_crash_label c06_sched_full) by (vm_compute; repeat constructor).
  destruct (c06_hyps KScope c06_coll c06_sched_full H Hl) as (H1 & H2 & H3 & H4 & H5 & H6).
  cbv zeta. split; [vm_compute; reflexivity|].
  split; [apply (c06_one_worker_per_group c06_cfg c06_sched_full KScope); assumption|].
  split; [apply (c06_group_contiguous c06_cfg c06_sched_full KScope); assumption|].
  split; [apply (c06_group_in_collection_order c06_cfg c06_sched_full KScope); assumption|].
  split; [apply (c06_started_at_most_once c06_cfg c06_sched_full KScope); assumption|].
  vm_compute. reflexivity.
Qed.
Print Assumptions c06_ex_theorems_apply.

(* loadgroup: groups g1 = {0,2,4} and g2 = {1,3} are interleaved in the collection *)
Definition c06_gcoll : list string := ["m.py::a@g1"; "m.py::b@g2"; "m.py::c@g1"; "n.py::d@g2"; "n.py::e@g1"].
Example c06_ex_loadgroup :
  let s := sys_run (c06_cfg_of KGroup c06_gcoll) c06_sched_full in
  y_result s = Some RFinished /\ ran s 0 = [0; 2; 4] /\ ran s 1 = [1; 3] /\
  map (c06_key (c06_cfg_of KGroup c06_gcoll) KGroup) [0; 1; 2; 3; 4] = ["g1"; "g2"; "g1"; "g2"; "g1"].
Proof. vm_compute. repeat split. Qed.

(* loadfile: the class scope does not matter, files m.py = {0,1,2,3} and n.py = {4} *)
Example c06_ex_loadfile :
  let s := sys_run (c06_cfg_of KFile c06_coll) c06_sched_full in
  y_result s = Some RFinished /\ ran s 0 = [0; 1; 2; 3] /\ ran s 1 = [4].
Proof. vm_compute. repeat split. Qed.

(* a collection with the same id twice: no NoDup hypothesis is needed; the second occurrence
   (index 2) is simply never run, the unit is a dict keyed by node id *)
Definition c06_dcoll : list string := ["m.py::a"; "n.py::b"; "m.py::a"; "m.py::c"].
Example c06_ex_duplicate_id :
  let s := sys_run (c06_cfg_of KScope c06_dcoll) c06_sched_full in
  y_result s = Some RFinished /\ ran s 0 = [0; 3] /\ ran s 1 = [1] /\
  blocks KScope c06_dcoll = [[0; 3]; [1]].
Proof. vm_compute. repeat split. Qed.
Close Scope string_scope.

Print Assumptions step_cinv.
Print Assumptions cgood_run.
