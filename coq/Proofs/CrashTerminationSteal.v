(* CrashTerminationSteal.v -- property C02 ("the distributed session always terminates"), the termination half,
   for --dist worksteal WITH worker failures and a FINITE restart budget (c_max_restart c = Some b).

   Hypotheses of the theorems: c_mode c = MSteal, no_garbled c, 0 < c_numnodes c, rq_ok c (the hypothesis of the
   crash invariant XW of CrashStealTheorems.v: no plugin re-queues crash items, or the collections are
   duplicate-free), c_max_restart c = Some b.  Nothing else: ANY schedule, crash labels LCrash at any moment, any
   c_crash_in, c_requeue, c_strict, --maxfail, stop requests of the workers' own sessions (stops_after), workers
   (replacements included) collecting different lists.

   Measure.  measure c ls = meas3 c s h = (Kx (y_d s), Psix c s h, muxw c (Wd (y_d s)) s) for s = sys_run c ls,
   ordered lexicographically (lex3):
     Kx    = number of active nodes + remaining restart budget (CrashTermination.Kx): the number of worker deaths
             the controller can still see; it goes down when the controller handles an errordown -- the only step
             at which the other two components may go up (the dead node's tests return to the pool, a crash item
             may be re-queued, an outstanding withdrawal request is cancelled, a replacement boots);
     Psix  = the potential Psi of TerminationSteal2.v on the controller's books (U = tests in pool and books,
             F = depth of the books beyond two tests + pool, [no request outstanding]) with a ghost bit h:
             Psix = 2 * (3 * U + F + 3 * h) + [no request outstanding]; it never goes up and goes down by at least
             the number of withdrawal requests issued (step_psix_g);
             h = 0 means: while the request is outstanding the pool is empty (J2) and the round trip of the request
             is clean (cleanL of TerminationSteal2.v: the request names the tail of the victim's book and leaves it
             two tests, no test follows it on the way to the worker, and the reply is good or a completion of the
             victim will be handled before it); a DEAD victim only keeps the part about the signals still in
             flight from it.  With crashes J2 is not an invariant (an errordown can fill the pool while a request is
             outstanding): after an errordown iteration the ghost bit is 1 ("nothing is claimed"), and the weight of
             h is 3 instead of 2 so that a reply handled with h = 1 is paid for even when the pool was not empty.
             The ghost bit of a schedule is computed by ghost_next / ghost_run (1 after an errordown iteration and
             after the completion of a test of the victim, 0 once the reply has been handled);
     muxw  = the potential muw of TerminationSteal.v adapted to crashes as CrashTermination.mux: pool entries,
             withdrawal requests, replies are priced for ANY worker id that can ever exist (W = Wd d = group
             counter + remaining budget; prices pcostx c W), a dead worker's share is only what is left on its wire
             up, the sum ranges over all worker processes ever started; every useful move and every crash makes it
             smaller, except a controller iteration that issues a withdrawal request, which may raise it by at
             most the price of the request (step_muxw) -- Psix goes down at that step.

   Main results (part E):
     steal_crash_c02_measure_run  extending a schedule by an enabled move that is USEFUL (Progress.useful) or a
                                  CRASH ends the session or makes measure c strictly smaller (lex3);
     steal_crash_c02_measure      the same for any ghost bit allowed by the invariant TIx (TIx s 1 always holds);
     steal_crash_c02_terminates   from a reachable state there is no infinite schedule of useful moves and crashes;
     steal_crash_c02_bounded      from a reachable state the runs of useful moves and crashes have bounded length
                                  (from the well-founded order and finite branching; re-queueing allowed);
     steal_crash_c02_bound        (part F, extra hypothesis c_requeue c = 0: no plugin re-queues crash items) an
                                  EXPLICIT bound: PhiW c s h = muxw + PRx * Psix + Kx * (weight of all tokens + PRx *
                                  (largest value of Psix + 1)) + boot costs of the workers that may still be started
                                  goes down with every useful move and every crash (step_phiw), errordown iterations
                                  included, so a run of useful moves and crashes from a reachable state s is at most
                                  PhiW c s 1 + 1 long.  (With re-queueing the crash item goes back to the pool and the
                                  token weight does not shrink at an errordown; steal_crash_c02_bounded still holds.);
     steal_crash_c02_maximal_run_ends (from CrashProgressSteal) a run that cannot be extended by a useful non-crash
                                  move has ended the session.
   For c_max_restart c = None the statements are FALSE (every dead worker is replaced, for ever: example
   cts_ex_unbounded_restarts), the finding already recorded for --dist load.

   Organisation:
     part A  the scheduler and one controller iteration (any event but errordown) with channels closed or not, in
             terms of the books and of the REAL outputs: check_Zx, record ZX, loop_zx;
     part B  the potential of the books for node ids below the group counter: pot_ctlx;
     part C  the potential muxw: step_muxw;
     part D  the invariants SHx (a stopped worker whose main thread has not said "finished": TerminationSteal2 5b)
             and TIx (ghost bit), step_shx, step_psix_g: every step of the system, crashes included;
     part E  errordown (errordown_Kx), the lexicographic measure (step_lex3_g), the theorems;
     part F  (c_requeue c = 0) the explicit bound: the potential PhiW and its monotonicity in W, the errordown
             iteration without re-queueing (record EZ, muxw_ctl_err), the invariant CBD (the fixed collection is
             some worker's), step_phiw, steal_crash_c02_bound;
     part G  examples evaluated by vm_compute. *)
From XV Require Import Base Worker Ctl SchedLoad SchedSteal SchedScope SchedEach Sched DSession System
  NoHook DSessionProofs WorkerProofs StealProofs LoadProofs FifoProofs ExactlyOnce Coupling ExactlyOnceSteal
  CouplingSteal CompletenessSteal Completeness Progress Termination ProgressSteal TerminationSteal TerminationSteal2
  CrashCoupling CrashTheorems CrashSteal CrashStealTheorems CrashProgress CrashProgressSteal CrashTermination.
From XV Require LivenessLaws.
From Coq Require Import Permutation.
Open Scope nat_scope.

(* ###################################### part A ###################################### *)
(* A.1 the scheduler: check_schedule with any channels, in terms of the books and of the REAL outputs *)

Definition ZCKx (s s' : wsstate) (o : list out) : Prop :=
  (s' = s /\ o = []) \/
  (ws_pending s' = [] /\
   (forall n, exists X, bkw s' n = bkw s n ++ X /\ (X <> [] -> ws_len s n < 2) /\ (ws_pending s = [] -> X = [])) /\
   exists o1 o2, o = o1 ++ o2 /\ Forall (run_to_idle s) o1 /\ (ws_pending s = [] -> o1 = []) /\
     (forall n, flat_map cmd_inds (cmds_to n o2) = [])).

Lemma send_Zx n num s s' o r :
  ws_send_tests n num s = (s', o, r) -> forall m, exists X, bkw s' m = bkw s m ++ X /\ (X <> [] -> m = n).
Proof.
  rewrite send_tests_eq. intros H m.
  destruct (py_take num (ws_pending s)) as [|t0 tl] eqn:Et.
  { inv H. exists []. split; [rewrite app_nil_r; reflexivity|intros F; congruence]. }
  destruct (aget n (ws_n2p s)) as [cur|] eqn:Ec.
  2:{ inv H. exists []. split; [unfold bkw; wsproj; rewrite app_nil_r; reflexivity|intros F; congruence]. }
  assert (G : exists X, bkw (StealProofs.st_after n num s cur) m = bkw s m ++ X /\ (X <> [] -> m = n)).
  { unfold StealProofs.st_after, bkw. wsproj. rewrite Et. destruct (Nat.eq_dec m n) as [->|Hm].
    - rewrite FifoProofs.alist_get_aset_eq. exists (t0 :: tl). unfold alist_get. rewrite Ec. auto.
    - rewrite FifoProofs.alist_get_aset_neq by exact Hm. exists []. split; [rewrite app_nil_r; reflexivity|intros F; congruence]. }
  destruct (aget n (ws_nt s)) as [f|]; inv H; exact G.
Qed.

Lemma distribute_Zx idle : forall s s' o r,
  ws_distribute idle s = (s', o, r) -> forall m, exists X, bkw s' m = bkw s m ++ X /\ (X <> [] -> In m idle).
Proof.
  induction idle as [|n rest IH]; intros s s' o r H m.
  - cbn in H. unfold ret in H. inv H. exists []. split; [rewrite app_nil_r; reflexivity|intros F; congruence].
  - rewrite distribute_cons in H.
    destruct (ws_send_tests n _ s) as [[s1 o1] r1] eqn:E1.
    destruct (send_Zx _ _ _ _ _ _ E1 m) as (X1 & B1 & H1).
    destruct r1 as [[]|e].
    + destruct (ws_distribute rest s1) as [[s2 o2] r2] eqn:E2. inv H.
      destruct (IH _ _ _ _ E2 m) as (X2 & B2 & H2).
      exists (X1 ++ X2). split; [rewrite B2, B1, app_assoc; reflexivity|].
      intros Hne. destruct X1 as [|a l]; [right; apply H2; exact Hne|left; symmetry; apply H1; discriminate].
    + inv H. exists X1. split; [exact B1|]. intros Hne. left. symmetry. apply H1. exact Hne.
Qed.

Theorem check_Zx s s' o r : ws_check_schedule s = (s', o, r) -> ZCKx s s' o.
Proof.
  intros H. pose proof (W10_check_schedule_never_raises _ _ _ _ H) as ->.
  rewrite check_schedule_eq in H.
  destruct (ws_coll s) as [coll|] eqn:Ec; [|inv H; left; auto].
  destruct (ws_idle s (ws_up s)) as [|i0 il] eqn:Ei; [inv H; left; auto|].
  assert (Hidle : forall n, In n (i0 :: il) -> In n (ws_up s) /\ ws_len s n < 2).
  { intros n Hn. rewrite <- Ei in Hn. apply ws_idle_spec in Hn. exact Hn. }
  destruct (match ws_pending s with [] => (s, [], Ok tt) | _ :: _ => ws_distribute (i0 :: il) s end)
    as [[s1 o1] r1] eqn:E1.
  assert (D : r1 = Ok tt /\ ws_pending s1 = [] /\ Forall (run_to_idle s) o1 /\ (ws_pending s = [] -> o1 = []) /\
              (forall n, exists X, bkw s1 n = bkw s n ++ X /\ (X <> [] -> ws_len s n < 2) /\ (ws_pending s = [] -> X = []))).
  { destruct (ws_pending s) as [|p0 pl] eqn:Ep.
    - inv E1. split; [reflexivity|]. split; [exact Ep|]. split; [constructor|]. split; [reflexivity|].
      intros n. exists []. split; [rewrite app_nil_r; reflexivity|]. split; [intros F; congruence|reflexivity].
    - destruct (distribute_TWv (i0 :: il) s s1 o1 r1) as (A & _ & _ & _ & F); [|exact E1|].
      + intros n Hn. apply up_ready. apply Hidle. exact Hn.
      + split; [exact A|]. split; [apply F; discriminate|]. split; [|split; [discriminate|]].
        * pose proof (distribute_post _ _ _ _ _ E1) as (_ & _ & Q & _).
          eapply Forall_impl; [|exact Q]. cbn beta. intros x (n & ixs & Hn & ->). exists n, ixs.
          split; [apply Hidle; exact Hn|reflexivity].
        * intros n. destruct (distribute_Zx _ _ _ _ _ E1 n) as (X & B & HX). exists X. split; [exact B|].
          split; [intros Hne; apply Hidle; apply HX; exact Hne|discriminate]. }
  destruct D as (-> & P1 & Q1 & Z1 & B1).
  destruct (ws_phase2 (ws_up s) s1) as [[s2 o2] r2] eqn:E2. injection H as Hs' Ho' Hr2. subst s2 r2 o.
  right. apply phase2_inv in E2.
  destruct E2 as [(-> & -> & _)|[(Hs & _ & v & k & vp & f & _ & _ & _ & _ & -> & _ & ->)
                 |[(Hs & _ & Hl)|(_ & _ & F & _)]]]; [| | |discriminate].
  - split; [exact P1|]. split; [exact B1|]. exists o1, []. repeat split; auto.
  - split; [exact P1|]. split; [exact B1|].
    exists o1, (if n_closed f then [] else [OSend v (CSteal (py_lastn (S k) vp))]).
    repeat split; auto. intros n. destruct (n_closed f); [reflexivity|]. cbn. destruct (Nat.eqb v n); reflexivity.
  - destruct (shut_loop_frame _ _ _ _ _ Hl) as (F & Q).
    split. { destruct F as (_ & F2 & _). rewrite F2. exact P1. }
    split. { intros n. destruct F as (F1 & _). unfold bkw. rewrite F1. apply B1. }
    exists o1, o2. repeat split; auto.
    apply (cmds_to_nil_forall _ _ Q). intros x n (m & _ & ->). cbn. destruct (Nat.eqb m n); reflexivity.
Qed.

(* ====================================================================================== *)
(* A.2 one iteration of the controller's loop (any event but errordown), channels closed or not *)
(* ====================================================================================== *)
Definition complv (ev : cevent) : list nat := match ev with QComplete _ i _ => [i] | _ => [] end.
(* commands that carry neither a test nor a withdrawal request *)
Definition calmo (o : list out) : Prop :=
  forall m, nstc (cmds_to m o) = 0 /\ flat_map cmd_inds (cmds_to m o) = [].

Lemma calmo_nil : calmo [].
Proof. intros m. split; reflexivity. Qed.
Lemma calmo_nocmd o : (forall m, cmds_to m o = []) -> calmo o.
Proof. intros H m. rewrite H. split; reflexivity. Qed.
Lemma calmo_app a b : calmo a -> calmo b -> calmo (a ++ b).
Proof.
  intros A B m. destruct (A m) as (A1 & A2). destruct (B m) as (B1 & B2).
  rewrite cmds_to_app, nstc_app, flat_map_app, A1, A2, B1, B2. split; reflexivity.
Qed.
Lemma calmo_nosteal o v ixs : calmo o -> ~ In (OSend v (CSteal ixs)) o.
Proof. intros C Hin. apply in_cmds_to in Hin. exact (nstc_zero_no_steal _ ixs (proj1 (C v)) Hin). Qed.

Section CtlZX.
Variable N : nat.
Variable collf : nat -> list string.
Hypothesis HN : 0 < N.
Notation DJXc := (DJX N collf).
Notation DJX0c := (DJX0 N collf).
Notation LJXc := (LJX N collf).
Notation PREXc := (PREX collf).

Record ZX (ev : cevent) (d : dstate) (ws : wsstate) (d1 : dstate) (ws1 : wsstate) (o : list out) : Prop := {
  zx_pend : ws_coll ws <> None ->
            ws_pending ws1 = [] \/
            (ws_pending ws1 = ws_pending ws ++ ev_inds ev /\ forall n, bkw ws1 n = bookmidw ev n (bkw ws n));
  zx_idle : forall n X, bkw ws1 n = bookmidw ev n (bkw ws n) ++ X -> X <> [] -> length (bookmidw ev n (bkw ws n)) < 2;
  zx_none : ws_pending ws = [] -> ev_inds ev = [] -> ws_coll ws <> None -> forall n, bkw ws1 n = bookmidw ev n (bkw ws n);
  zx_j2 : J2 ws \/ isuns ev = 1 -> J2 ws1;
  zx_tok : ws_coll ws <> None -> Permutation (wtokens ws1 ++ complv ev) (wtokens ws);
  zx_coll : forall X, ws_coll ws1 = Some X ->
            ws_coll ws = Some X \/
            (ws_coll ws = None /\ Permutation (wtokens ws1) (seq 0 (length X)) /\
             exists k others, ws_n2c ws1 = (k, X) :: others);
  zx_ord : forall n, exists a b, cmds_to n o = a ++ b /\ nstc a = 0 /\ flat_map cmd_inds b = [];
  zx_tail : STAIL ws1 o;
  zx_ne : Forall Q_ne o;
  zx_fr : same_budget d d1 /\ length (d_active d1) <= length (d_active d);
  zx_keep : ws_coll ws <> None -> ws_coll ws1 = ws_coll ws;
  zx_bk : forall n, exists X, bkw ws1 n = bookmidw ev n (bkw ws n) ++ X;
}.

(* nothing happens to the scheduler's books *)
Lemma ZX_same ev d ws d1 o :
  calmo o -> Forall Q_ne o -> isuns ev = 0 -> complv ev = [] -> (forall m b, bookmidw ev m b = b) ->
  same_budget d d1 -> length (d_active d1) <= length (d_active d) ->
  ZX ev d ws d1 ws o.
Proof.
  intros Ho Hne Eu Ec Hb SB LA.
  assert (Ei : ev_inds ev = []) by (destruct ev; try reflexivity; discriminate).
  constructor.
  - intros _. right. rewrite Ei, app_nil_r. split; [reflexivity|]. intros n. rewrite Hb. reflexivity.
  - intros n X E Hx. exfalso. rewrite Hb in E. apply Hx.
    apply (f_equal (@length nat)) in E. rewrite app_length in E. destruct X; [reflexivity|cbn in E; lia].
  - intros _ _ _ n. rewrite Hb. reflexivity.
  - intros [A|A]; [exact A|congruence].
  - intros _. rewrite Ec, app_nil_r. reflexivity.
  - intros X E. left. exact E.
  - intros n. exists (cmds_to n o), []. rewrite app_nil_r. split; [reflexivity|]. split; [apply Ho|reflexivity].
  - intros v ixs Hin. exfalso. exact (calmo_nosteal _ _ _ Ho Hin).
  - exact Hne.
  - split; assumption.
  - reflexivity.
  - intros n. exists []. rewrite Hb, app_nil_r. reflexivity.
Qed.

(* only node flags change *)
Lemma ZX_flags ev d ws d1 ws1 o :
  nt_only ws ws1 ->
  calmo o -> Forall Q_ne o -> isuns ev = 0 -> complv ev = [] -> (forall m b, bookmidw ev m b = b) ->
  same_budget d d1 -> length (d_active d1) <= length (d_active d) ->
  ZX ev d ws d1 ws1 o.
Proof.
  intros (F1 & F2 & F3 & F4 & F5 & F6 & F7) Ho Hne Eu Ec Hb SB LA.
  assert (Ei : ev_inds ev = []) by (destruct ev; try reflexivity; discriminate).
  assert (Eb : forall n, bkw ws1 n = bkw ws n) by (intros n; unfold bkw; rewrite F1; reflexivity).
  constructor.
  - intros _. right. rewrite Ei, app_nil_r. split; [exact F2|]. intros n. rewrite Hb. apply Eb.
  - intros n X E Hx. exfalso. rewrite Hb, Eb in E. apply Hx.
    apply (f_equal (@length nat)) in E. rewrite app_length in E. destruct X; [reflexivity|cbn in E; lia].
  - intros _ _ _ n. rewrite Hb. apply Eb.
  - intros [A|A]; [|congruence]. unfold J2 in *. rewrite F2, F4. exact A.
  - intros _. rewrite Ec, app_nil_r. unfold StealProofs.tokens, StealProofs.books. rewrite F1, F2. reflexivity.
  - intros X E. left. congruence.
  - intros n. exists (cmds_to n o), []. rewrite app_nil_r. split; [reflexivity|]. split; [apply Ho|reflexivity].
  - intros v ixs Hin. exfalso. exact (calmo_nosteal _ _ _ Ho Hin).
  - exact Hne.
  - split; assumption.
  - intros _. exact F3.
  - intros n. exists []. rewrite Hb, app_nil_r. apply Eb.
Qed.

(* a silent update [mid] of the scheduler followed by check_schedule; [pre]: what was emitted before *)
Lemma ZX_check ev d ws mid ws1 oc d1 pre :
  ws_check_schedule mid = (ws1, oc, Ok tt) ->
  calmo pre -> Forall Q_ne pre ->
  (forall m, bkw mid m = bookmidw ev m (bkw ws m)) ->
  (ws_coll ws <> None -> ws_pending mid = ws_pending ws ++ ev_inds ev) ->
  (J2 ws \/ isuns ev = 1 -> J2 mid) -> ws_coll mid = ws_coll ws ->
  (ws_coll ws <> None -> Permutation (wtokens mid ++ complv ev) (wtokens ws)) ->
  same_budget d d1 -> length (d_active d1) <= length (d_active d) ->
  ZX ev d ws d1 ws1 (pre ++ oc).
Proof.
  intros Hck Hpre Npre Ebm Epm Hj Ecm Ptm SB LA.
  pose proof (check_Zx _ _ _ _ Hck) as Z.
  destruct (check_TWv _ _ _ _ Hck) as (_ & _ & _ & _ & Ptok & _).
  pose proof (check_tail _ _ _ _ Hck) as TL.
  pose proof (ne_ws_check_schedule _ _ _ _ Hck) as NE.
  destruct (StealProofs.check_frame _ _ _ _ Hck) as (_ & Kc & _).
  assert (COMMON : Permutation (wtokens ws1) (wtokens mid) -> ws_coll ws1 = ws_coll mid ->
            (ws_coll ws <> None -> Permutation (wtokens ws1 ++ complv ev) (wtokens ws)) /\
            (forall X, ws_coll ws1 = Some X -> ws_coll ws = Some X \/
               (ws_coll ws = None /\ Permutation (wtokens ws1) (seq 0 (length X)) /\ exists k others, ws_n2c ws1 = (k, X) :: others)) /\
            STAIL ws1 (pre ++ oc) /\ Forall Q_ne (pre ++ oc)).
  { intros P1 K1. split; [|split; [|split]].
    - intros Hc. rewrite P1. apply Ptm. exact Hc.
    - intros X E. left. congruence.
    - intros v ixs Hin. apply in_app_or in Hin. destruct Hin as [Hin|Hin]; [exfalso; exact (calmo_nosteal _ _ _ Hpre Hin)|].
      exact (TL v ixs Hin).
    - apply Forall_app. split; assumption. }
  destruct (COMMON Ptok Kc) as (C1 & C2 & C3 & C4).
  destruct Z as [(-> & ->)|(P1 & B1 & o1 & o2 & -> & Q1 & Z1 & Z2)].
  - constructor; [| | |exact Hj|exact C1|exact C2| |exact C3|exact C4|split; assumption|intros _; exact Ecm
                  |intros n; exists []; rewrite app_nil_r; apply Ebm].
    + intros Hc. right. split; [apply Epm; exact Hc|exact Ebm].
    + intros n X E Hx. exfalso. rewrite <- Ebm in E. apply Hx.
      apply (f_equal (@length nat)) in E. rewrite app_length in E. destruct X; [reflexivity|cbn in E; lia].
    + intros _ _ _. exact Ebm.
    + intros n. exists (cmds_to n pre), []. rewrite !app_nil_r. split; [reflexivity|]. split; [apply Hpre|reflexivity].
  - constructor; [| | | |exact C1|exact C2| |exact C3|exact C4|split; assumption|intros _; congruence
                  |intros n; destruct (B1 n) as (X' & E' & _); exists X'; rewrite E', Ebm; reflexivity].
    + intros _. left. exact P1.
    + intros n X E Hx. destruct (B1 n) as (X' & E' & H1 & H2). rewrite Ebm in E'. rewrite E' in E.
      apply app_inv_head in E. subst X'. specialize (H1 Hx). rewrite ws_len_bkw, Ebm in H1. exact H1.
    + intros Ep Ei Hc n. destruct (B1 n) as (X' & E' & H1 & H2). rewrite E', H2, app_nil_r; [apply Ebm|].
      rewrite (Epm Hc), Ep, Ei. reflexivity.
    + intros _ _. exact P1.
    + intros n. exists (cmds_to n pre ++ cmds_to n o1), (cmds_to n o2). rewrite !cmds_to_app, app_assoc.
      split; [reflexivity|]. split; [rewrite nstc_app, (proj1 (Hpre n)), (proj1 (run_to_idle_cmds mid o1 n Q1)); reflexivity|apply Z2].
Qed.

(* what follows the handler in the same iteration: triggershutdown *)
Lemma ZX_post ev d ws d1 ws1 o1 d2 ws2 o2 :
  ZX ev d ws d1 ws1 o1 -> nt_only ws1 ws2 -> calmo o2 -> Forall Q_ne o2 ->
  same_budget d1 d2 -> length (d_active d2) <= length (d_active d1) ->
  ZX ev d ws d2 ws2 (o1 ++ o2).
Proof.
  intros [Z1 Z2 Z3 Z4 Z5 Z6 Z7 Z8 Z9 (ZA & ZB) ZK ZBK] (F1 & F2 & F3 & F4 & F5 & F6 & F7) Ho Hne SB LA.
  assert (Eb : forall n, bkw ws2 n = bkw ws1 n) by (intros n; unfold bkw; rewrite F1; reflexivity).
  assert (Et : wtokens ws2 = wtokens ws1) by (unfold StealProofs.tokens, StealProofs.books; rewrite F1, F2; reflexivity).
  constructor.
  - intros Hc. rewrite F2. destruct (Z1 Hc) as [X|(X & Y)]; [left; exact X|right]. split; [exact X|]. intros n. rewrite Eb. apply Y.
  - intros n X. rewrite Eb. apply Z2.
  - intros A B C n. rewrite Eb. apply Z3; assumption.
  - intros Hj. specialize (Z4 Hj). unfold J2 in *. rewrite F2, F4. exact Z4.
  - rewrite Et. exact Z5.
  - intros X. rewrite F3, Et, F5. apply Z6.
  - intros n. destruct (Z7 n) as (a & b & E & A & B). exists a, (b ++ cmds_to n o2).
    rewrite cmds_to_app, E, <- app_assoc. split; [reflexivity|]. split; [exact A|].
    rewrite flat_map_app, B, (proj2 (Ho n)). reflexivity.
  - intros v ixs Hin. apply in_app_or in Hin. destruct Hin as [Hin|Hin]; [rewrite Eb; exact (Z8 v ixs Hin)|].
    exfalso. exact (calmo_nosteal _ _ _ Ho Hin).
  - apply Forall_app. split; assumption.
  - split; [eapply same_budget_trans; eauto|lia].
  - intros Hc. rewrite F3. apply ZK. exact Hc.
  - intros n. rewrite Eb. apply ZBK.
Qed.

Lemma ne_no_cmdsx o : (forall m, cmds_to m o = []) -> Forall Q_ne o.
Proof.
  induction o as [|x o IH]; intros H; [constructor|].
  assert (H' : forall m, cmds_to m o = []).
  { intros m. specialize (H m). cbn [cmds_to flat_map] in H. apply app_eq_nil in H. tauto. }
  constructor; [|exact (IH H')]. destruct x as [h|m cm| |]; try exact I.
  exfalso. specialize (H m). cbn [cmds_to flat_map cmd_to] in H. rewrite Nat.eqb_refl in H. discriminate.
Qed.

(* the real outputs of a step that only touches node flags *)
Lemma calmo_TW_ntonly ws ws1 vo : TW ws ws1 vo -> nt_only ws ws1 -> calmo (vfilter (ws_nt ws) vo).
Proof.
  intros T F m. rewrite cmds_to_vfilter. destruct (closedb (ws_nt ws) m); [split; reflexivity|].
  destruct F as (F1 & _ & _ & F4 & _). split.
  - pose proof (tw_steal _ _ _ T m) as X. rewrite F4 in X. lia.
  - exact (TW_same_books _ _ _ T F1 m).
Qed.

(* the books stay as they are *)
Lemma ZX_quiet ev d ws d1 ws1 o :
  (forall n, bkw ws1 n = bkw ws n) -> ws_pending ws1 = ws_pending ws -> ws_steal ws1 = ws_steal ws ->
  ws_coll ws1 = ws_coll ws -> wtokens ws1 = wtokens ws ->
  calmo o -> Forall Q_ne o -> isuns ev = 0 -> complv ev = [] -> (forall m b, bookmidw ev m b = b) ->
  same_budget d d1 -> length (d_active d1) <= length (d_active d) ->
  ZX ev d ws d1 ws1 o.
Proof.
  intros Eb F2 F4 F3 Et Ho Hne Eu Ec Hb SB LA.
  assert (Ei : ev_inds ev = []) by (destruct ev; try reflexivity; discriminate).
  constructor.
  - intros _. right. rewrite Ei, app_nil_r. split; [exact F2|]. intros n. rewrite Hb. apply Eb.
  - intros n X E Hx. exfalso. rewrite Hb, Eb in E. apply Hx.
    apply (f_equal (@length nat)) in E. rewrite app_length in E. destruct X; [reflexivity|cbn in E; lia].
  - intros _ _ _ n. rewrite Hb. apply Eb.
  - intros [A|A]; [|congruence]. unfold J2 in *. rewrite F2, F4. exact A.
  - intros _. rewrite Ec, app_nil_r, Et. reflexivity.
  - intros X E. left. congruence.
  - intros n. exists (cmds_to n o), []. rewrite app_nil_r. split; [reflexivity|]. split; [apply Ho|reflexivity].
  - intros v ixs Hin. exfalso. exact (calmo_nosteal _ _ _ Ho Hin).
  - exact Hne.
  - split; assumption.
  - intros _. exact F3.
  - intros n. exists []. rewrite Hb, app_nil_r. apply Eb.
Qed.

Lemma same_budget_sched d st : same_budget d (d_set_sched d st).
Proof. repeat split. Qed.

(* ---- workerready ---- *)
Lemma zx_ready n d ws d1 o1 ws1 :
  DJXc d ws -> PREXc (QReady n) d ws ->
  d_handle (QReady n) d = (d1, o1, Ok tt) -> d_sched d1 = StW ws1 -> ZX (QReady n) d ws d1 ws1 o1.
Proof.
  intros (J0 & _) (HnG & Hact & Hpre) H E1. pose proof J0 as [Els J AL RQ JB K2].
  cbn [d_handle] in H. unfold hook in H. rewrite mbind_emit, mbind_get in H.
  destruct (d_shuttingdown d) eqn:Esd.
  - rewrite (d_node_shutdown_liftw n d ws Els) in H.
    destruct (node_shutdown ws_nt ws_set_nt n ws) as [[ws2 o2] r2] eqn:En.
    assert (Hk : aget n (ws_nt ws) <> None) by (apply (xj_ntk _ _ _ _ J); exact HnG).
    pose proof (ne_node_shutdown ws_nt ws_set_nt n _ _ _ _ En) as NE2.
    destruct (node_shutdown_TWv _ _ _ _ _ Hk En) as (-> & (vo & T & Eo & _) & F & Ssd & _).
    cbn [liftW] in H. inv H. cbn in E1. inv E1.
    apply ZX_flags; auto.
    + apply (calmo_app [OHook (HNodeReady n)]); [apply calmo_nocmd; reflexivity|]. eapply calmo_TW_ntonly; eassumption.
    + constructor; [exact I|exact NE2].
    + apply same_budget_sched.
  - specialize (Hpre eq_refl).
    assert (Ea : aget n (ws_n2p ws) = None) by (apply LoadProofs.aget_none_keys; exact Hpre).
    unfold mbind at 1 in H. rewrite (sched_op_runx _ d ws Els) in H. cbn [s_step] in H.
    unfold ws_add_node, massert, ahas in H. rewrite mbind_get in H. rewrite Ea in H. cbn [negb] in H.
    rewrite mbind_ret in H. unfold put, lift, no_str, ret in H. inv H. cbn in E1. inv E1.
    apply ZX_quiet; auto.
    + intros m. unfold bkw. wsproj. destruct (Nat.eq_dec m n) as [->|Hm].
      * rewrite FifoProofs.alist_get_aset_eq. symmetry. apply alist_get_none. exact Ea.
      * apply FifoProofs.alist_get_aset_neq. exact Hm.
    + unfold StealProofs.tokens, StealProofs.books. wsproj. rewrite (books_add_empty n _ Ea). reflexivity.
    + apply calmo_nocmd. reflexivity.
    + repeat constructor.
    + apply same_budget_sched.
Qed.

Lemma filter_length_lex {A} (g : A -> bool) l : length (filter g l) <= length l.
Proof. induction l as [|x l IH]; cbn; [lia|]. destruct (g x); cbn; lia. Qed.

(* ---- runtest_protocol_complete ---- *)
Lemma zx_complete n i ms d ws d1 o1 ws1 :
  DJXc d ws -> PREXc (QComplete n i ms) d ws ->
  d_handle (QComplete n i ms) d = (d1, o1, Ok tt) -> d_sched d1 = StW ws1 -> ZX (QComplete n i ms) d ws d1 ws1 o1.
Proof.
  intros (J0 & _) Hin H E1. pose proof J0 as [Els J AL RQ JB K2]. cbn [PREX] in Hin.
  assert (Hcur : exists cur, aget n (ws_n2p ws) = Some cur /\ In i cur).
  { unfold bkw, alist_get in Hin. destruct (aget n (ws_n2p ws)) as [cur|]; [eauto|destruct Hin]. }
  destruct Hcur as (cur & Ecur & Hic). destruct (remove_first_in i cur Hic) as (cur' & Erf).
  cbn [d_handle] in H. unfold mbind at 1 in H. rewrite (sched_op_runx _ d ws Els) in H. cbn [s_step] in H.
  destruct (ws_mark_test_complete n i ws) as [[ws2 o2] r2] eqn:Em. cbn [lift] in H.
  unfold ws_mark_test_complete in Em. rewrite mbind_get in Em. rewrite Ecur in Em. cbn [of_opt] in Em.
  rewrite mbind_ret in Em. rewrite Erf in Em. cbn [of_opt] in Em. rewrite mbind_ret, mbind_put in Em.
  set (mid := ws_set_n2p ws (aset n cur' (ws_n2p ws))) in *.
  pose proof (W10_check_schedule_never_raises _ _ _ _ Em) as ->.
  unfold no_str, ret in H. inv H. cbn in E1. inv E1. rewrite app_nil_r.
  assert (Ptm : Permutation (i :: wtokens mid) (wtokens ws)).
  { unfold StealProofs.tokens, StealProofs.books, mid. wsproj.
    pose proof (books_aset n cur cur' _ Ecur) as P1. pose proof (books_adel n cur _ Ecur) as P2.
    pose proof (remove_first_perm _ _ _ Erf) as P3. perm_count. }
  apply (ZX_check _ d ws mid ws1 _ _ [] Em).
  - apply calmo_nil.
  - constructor.
  - intros m. unfold bkw, mid. wsproj. cbn [bookmidw]. destruct (Nat.eqb m n) eqn:E.
    + apply Nat.eqb_eq in E. subst m. rewrite FifoProofs.alist_get_aset_eq. unfold alist_get. rewrite Ecur, Erf. reflexivity.
    + apply Nat.eqb_neq in E. apply FifoProofs.alist_get_aset_neq. exact E.
  - intros _. cbn. rewrite app_nil_r. reflexivity.
  - intros [A|A]; [exact A|discriminate].
  - reflexivity.
  - intros _. cbn [complv]. rewrite <- Ptm. apply Permutation_sym, Permutation_cons_append.
  - apply same_budget_sched.
  - cbn. lia.
Qed.

(* ---- the worker's `unscheduled` reply ---- *)
Lemma zx_unsched n ixs d ws d1 o1 ws1 :
  DJXc d ws -> PREXc (QUnscheduled n ixs) d ws ->
  d_handle (QUnscheduled n ixs) d = (d1, o1, Ok tt) -> d_sched d1 = StW ws1 -> ZX (QUnscheduled n ixs) d ws d1 ws1 o1.
Proof.
  intros (J0 & _) (Hst & rest & Prest) H E1. pose proof J0 as [Els J AL RQ JB K2].
  assert (Hnode : In n (ws_nodes ws)) by (apply (xj_st _ _ _ _ J); exact Hst).
  assert (Hcur : exists cur, aget n (ws_n2p ws) = Some cur).
  { apply LoadProofs.aget_In_keys in Hnode. destruct (aget n (ws_n2p ws)) as [cur|]; [eauto|congruence]. }
  destruct Hcur as (cur & Ecur). rewrite (bkw_some ws n cur Ecur) in Prest.
  cbn [d_handle] in H. unfold mbind at 1 in H. rewrite (sched_op_runx _ d ws Els) in H. cbn [s_step] in H.
  rewrite (W6_eq n ixs ws cur Hst Ecur) in H.
  set (mid := rp_mid n ixs ws cur) in *.
  destruct (ws_check_schedule mid) as [[ws2 o2] r2] eqn:Em. cbn [lift] in H.
  pose proof (W10_check_schedule_never_raises _ _ _ _ Em) as ->.
  unfold no_str, ret in H. inv H. cbn in E1. inv E1. rewrite app_nil_r.
  assert (NDcur : NoDup cur) by (rewrite <- (bkw_some ws n cur Ecur); apply bkw_nodup; apply J).
  destruct (nodup_perm_disj ixs rest cur NDcur Prest) as (Hdisj & NDix & Hincl).
  assert (Ptm : Permutation (wtokens mid) (wtokens ws)).
  { pose proof (filter_withdraw ixs rest cur Prest Hdisj) as Pfil.
    unfold StealProofs.tokens, StealProofs.books, mid, rp_mid. wsproj.
    pose proof (books_aset n cur (filter (fun i => negb (mem_nat i ixs)) cur) _ Ecur) as P1.
    pose proof (books_adel n cur _ Ecur) as P2. perm_count. }
  apply (ZX_check _ d ws mid ws1 _ _ [] Em).
  - apply calmo_nil.
  - constructor.
  - intros m. unfold bkw, mid, rp_mid. wsproj. cbn [bookmidw]. destruct (Nat.eqb m n) eqn:E.
    + apply Nat.eqb_eq in E. subst m. rewrite FifoProofs.alist_get_aset_eq. unfold alist_get. rewrite Ecur. reflexivity.
    + apply Nat.eqb_neq in E. apply FifoProofs.alist_get_aset_neq. exact E.
  - intros _. reflexivity.
  - intros _ F. exfalso. apply F. reflexivity.
  - reflexivity.
  - intros _. cbn [complv]. rewrite app_nil_r. exact Ptm.
  - apply same_budget_sched.
  - cbn. lia.
Qed.

(* ---- workerfinished ---- *)
Lemma zx_finished n sk d ws d1 o1 ws1 :
  DJXc d ws -> PREXc (QFinished n sk) d ws ->
  d_handle (QFinished n sk) d = (d1, o1, Ok tt) -> d_sched d1 = StW ws1 -> ZX (QFinished n sk) d ws d1 ws1 o1.
Proof.
  intros (J0 & _) Hpre H E1. pose proof J0 as [Els J AL RQ JB K2].
  cbn [d_handle] in H. unfold d_worker_workerfinished, hook in H. rewrite mbind_emit in H.
  destruct sk; cbn [PREX] in Hpre; [| |contradiction].
  - destruct Hpre as (Hina & Hbook & Hstn & (fn & Efn & Hsdn)).
    rewrite mbind_get in H. rewrite Els in H. cbn [s_nodes] in H.
    assert (STEP : exists ws2 o2,
      ((if mem_nat n (ws_nodes ws)
        then r0 <- d_sched_op (SRemove n);; massert match r0 with Some s0 => (s0 =? "")%string | None => true end
        else ret tt) d) = (d_set_sched d (StW ws2), o2, Ok tt) /\
      ZX (QFinished n SKNone) d ws (d_set_sched d (StW ws2)) ws2 ([OHook (HNodeDown n false)] ++ o2)).
    { destruct (mem_nat n (ws_nodes ws)) eqn:Emem.
      - apply StealProofs.mem_nat_In in Emem. specialize (Hbook Emem).
        set (mid := rn_mid n ws []).
        destruct (ws_check_schedule mid) as [[ws2 o2] r2] eqn:Em.
        pose proof (W10_check_schedule_never_raises _ _ _ _ Em) as ->.
        exists ws2, o2. split.
        { unfold mbind. rewrite (sched_op_runx _ d ws Els). cbn [s_step]. rewrite (W7_eq_idle n ws Hbook).
          fold mid. rewrite Em. cbn [lift]. unfold massert, ret. rewrite app_nil_r. reflexivity. }
        apply (ZX_check _ d ws mid ws2 o2 _ _ Em).
        + apply calmo_nocmd. reflexivity.
        + repeat constructor.
        + intros m. cbn [bookmidw]. unfold bkw, mid, rn_mid. wsproj. destruct (Nat.eq_dec m n) as [->|Hm].
          * rewrite (alist_get_none [] n _ (aget_adel_eq n _ (xj_wf _ _ _ _ J))).
            unfold alist_get. rewrite Hbook. reflexivity.
          * unfold alist_get. rewrite aget_adel_neq by exact Hm. reflexivity.
        + intros _. unfold mid, rn_mid. wsproj. reflexivity.
        + intros [A|A]; [|discriminate]. unfold J2 in *.
          assert (Est : ws_steal mid = ws_steal ws) by (apply rn_mid_steal; exact Hstn).
          assert (Ep : ws_pending mid = ws_pending ws) by (unfold mid, rn_mid; wsproj; apply app_nil_r).
          rewrite Est, Ep. exact A.
        + reflexivity.
        + intros _. cbn [complv]. rewrite app_nil_r. unfold StealProofs.tokens, StealProofs.books, mid, rn_mid. wsproj.
          rewrite app_nil_r. apply Permutation_app_head.
          pose proof (books_adel n [] _ Hbook) as P2. cbn [app] in P2. symmetry. exact P2.
        + apply same_budget_sched.
        + cbn. lia.
      - exists ws, []. split; [rewrite d_set_sched_same by exact Els; reflexivity|].
        apply ZX_same; try reflexivity; try apply same_budget_sched; [apply calmo_nocmd; reflexivity|repeat constructor]. }
    destruct STEP as (ws2 & o2 & Erun & Z).
    unfold mbind at 1 in H. rewrite Erun in H.
    rewrite (active_remove_run n (d_set_sched d (StW ws2)) Hina) in H. inv H.
    cbn in E1. inv E1. rewrite app_nil_r.
    destruct Z as [Z1 Z2 Z3 Z4 Z5 Z6 Z7 Z8 Z9 (ZA & ZB) ZK ZBK]. constructor; auto.
    split; [exact ZA|]. cbn. apply filter_length_lex.
  - assert (STEP : exists d2, (d0 <- get;; (if d_shouldstop d0 then ret tt else put (d_set_shouldstop d0 true))) d = (d2, [], Ok tt) /\
              d_sched d2 = d_sched d /\ d_active d2 = d_active d /\ same_budget d d2).
    { rewrite mbind_get. destruct (d_shouldstop d) eqn:Ess.
      - exists d. repeat split; reflexivity.
      - eexists. split; [reflexivity|]. repeat split; reflexivity. }
    destruct STEP as (d2 & Erun & S1 & S3 & SB).
    unfold mbind at 1 in H. rewrite Erun in H.
    assert (Hina : In n (d_active d2)) by (rewrite S3; exact Hpre).
    rewrite (active_remove_run n d2 Hina) in H. inv H.
    cbn [d_sched d_set_active] in E1. assert (ws1 = ws) by congruence. subst ws1.
    apply ZX_same; try reflexivity; [apply calmo_nocmd; reflexivity|repeat constructor| |].
    + destruct SB as (A & B & C). repeat split; cbn; assumption.
    + cbn. rewrite S3. apply filter_length_lex.
Qed.

(* ---- collectionfinish / schedule() ---- *)
(* the first distribution: the collection gets fixed *)
Lemma ZX_first ev d ws mid ws1 oc d1 pre X k others :
  ws_check_schedule mid = (ws1, oc, Ok tt) ->
  calmo pre -> Forall Q_ne pre ->
  ws_coll ws = None -> (forall m, bkw ws m = []) -> ws_steal mid = None ->
  ws_coll mid = Some X -> wtokens mid = seq 0 (length X) -> ws_n2c mid = (k, X) :: others ->
  same_budget d d1 -> length (d_active d1) <= length (d_active d) ->
  ZX ev d ws d1 ws1 (pre ++ oc).
Proof.
  intros Hck Hpre Npre Ec0 B0 Est Ecm Etm En2c SB LA.
  pose proof (check_Zx _ _ _ _ Hck) as Z.
  destruct (check_TWv _ _ _ _ Hck) as (_ & _ & _ & _ & Ptok & _).
  pose proof (check_tail _ _ _ _ Hck) as TL.
  pose proof (ne_ws_check_schedule _ _ _ _ Hck) as NE.
  destruct (StealProofs.check_frame _ _ _ _ Hck) as (_ & Kc & Kn & _).
  constructor.
  - intros F. congruence.
  - intros n Y _ _. rewrite B0, bookmidw_nil. cbn. lia.
  - intros _ _ F. congruence.
  - intros _. destruct Z as [(-> & ->)|(P1 & _)]; [intros F; congruence|intros _; exact P1].
  - intros F. congruence.
  - intros Y E. right. assert (Y = X) by congruence. subst Y.
    split; [exact Ec0|]. split; [rewrite Ptok, Etm; reflexivity|]. exists k, others. rewrite Kn. exact En2c.
  - intros n. destruct Z as [(-> & ->)|(P1 & B1 & o1 & o2 & -> & Q1 & Z1 & Z2)].
    + exists (cmds_to n pre), []. rewrite !app_nil_r. split; [reflexivity|]. split; [apply Hpre|reflexivity].
    + exists (cmds_to n pre ++ cmds_to n o1), (cmds_to n o2). rewrite !cmds_to_app, app_assoc.
      split; [reflexivity|]. split; [rewrite nstc_app, (proj1 (Hpre n)), (proj1 (run_to_idle_cmds mid o1 n Q1)); reflexivity|apply Z2].
  - intros v ixs Hin. apply in_app_or in Hin. destruct Hin as [Hin|Hin]; [exfalso; exact (calmo_nosteal _ _ _ Hpre Hin)|].
    exact (TL v ixs Hin).
  - apply Forall_app. split; assumption.
  - split; assumption.
  - intros F. congruence.
  - intros n. exists (bkw ws1 n). rewrite B0, bookmidw_nil. reflexivity.
Qed.

Lemma collfinish_zx G n ids d d1 ws wsA oA wsB oB rB :
  LJXc G ws -> n < G -> In n (ws_nodes ws) -> ~ degenerate ws ->
  ws_add_node_collection n ids ws = (wsA, oA, Ok tt) ->
  (if ws_collection_is_completed wsA then ws_schedule wsA else (wsA, [], Ok tt)) = (wsB, oB, rB) ->
  same_budget d d1 -> length (d_active d1) <= length (d_active d) ->
  ZX (QCollFinish n ids) d ws d1 wsB ([OHook (HCollFinished n)] ++ oA ++ oB).
Proof.
  intros J HnG Hnode Hnd H HB SB LA.
  assert (Hp : aget n (ws_n2p ws) <> None) by (apply LoadProofs.aget_In_keys; exact Hnode).
  set (lsa := ws_set_n2c ws (aset n ids (ws_n2c ws))).
  assert (CH : calmo [OHook (HCollFinished n)]) by (apply calmo_nocmd; reflexivity).
  assert (NH : Forall Q_ne [OHook (HCollFinished n)]) by (repeat constructor).
  destruct (ws_collection_is_completed ws) eqn:Hc.
  - (* a late node: the collection is fixed *)
    assert (Ecoll : exists c0 cr, ws_coll ws = Some (c0 :: cr)).
    { destruct (ws_coll ws) as [[|c0 cr]|] eqn:E; [exfalso; apply Hnd; split; auto| eauto |exfalso; apply Hnd; split; auto]. }
    destruct Ecoll as (c0 & cr & Ecoll).
    rewrite (add_coll_late_runx n ids ws c0 cr Hp Hc Ecoll) in H.
    destruct (coll_eqb ids (c0 :: cr)) eqn:Eeq.
    + inv H. fold lsa in HB.
      assert (Eca : ws_collection_is_completed lsa = true) by (apply (completed_aset N HN); exact Hc).
      rewrite Eca in HB. rewrite (schedule_again_runx lsa (c0 :: cr) Eca Ecoll) in HB.
      pose proof (W10_check_schedule_never_raises _ _ _ _ HB) as ->.
      apply (ZX_check _ d ws lsa wsB oB d1 _ HB); auto.
      * intros _. cbn. rewrite app_nil_r. reflexivity.
      * intros [A|A]; [exact A|discriminate].
      * intros _. cbn [complv]. rewrite app_nil_r. reflexivity.
    + destruct (first_key (ws_n2c ws)) as [other|] eqn:Efk; [|discriminate].
      destruct (node_shutdown ws_nt ws_set_nt n ws) as [[ws_sd o_sd] r_sd] eqn:Esd. inv H.
      assert (Hk : aget n (ws_nt ws) <> None) by (apply (xj_ntk _ _ _ _ J); exact HnG).
      pose proof (ne_node_shutdown ws_nt ws_set_nt n _ _ _ _ Esd) as NE2.
      destruct (node_shutdown_TWv _ _ _ _ _ Hk Esd) as (_ & (vo1 & T1 & Eo1 & _) & F & Ssd & _).
      pose proof F as (F1 & F2 & F3 & F4 & F5 & F6 & F7).
      assert (Hc' : ws_collection_is_completed wsA = true) by (rewrite (completed_keepsw ws wsA F5 F6); exact Hc).
      rewrite Hc' in HB. rewrite (schedule_again_runx wsA (c0 :: cr) Hc' (eq_trans F3 Ecoll)) in HB.
      pose proof (W10_check_schedule_never_raises _ _ _ _ HB) as ->.
      rewrite app_assoc.
      apply (ZX_check _ d ws wsA wsB oB d1 _ HB); auto.
      * apply calmo_app; [exact CH|]. apply (calmo_app [OLogDiff other n]); [apply calmo_nocmd; reflexivity|].
        rewrite Eo1. eapply calmo_TW_ntonly; eassumption.
      * apply Forall_app. split; [exact NH|]. constructor; [exact I|exact NE2].
      * intros m. unfold bkw. rewrite F1. reflexivity.
      * intros _. cbn. rewrite app_nil_r. exact F2.
      * intros [A|A]; [|discriminate]. unfold J2 in *. rewrite F2, F4. exact A.
      * intros _. cbn [complv]. rewrite app_nil_r. unfold StealProofs.tokens, StealProofs.books. rewrite F1, F2. reflexivity.
  - (* one of the first N collections *)
    assert (Ecoll : ws_coll ws = None).
    { destruct (ws_coll ws) eqn:E; [|reflexivity]. rewrite (xj_cc _ _ _ _ J) in Hc; [discriminate|]. rewrite E. discriminate. }
    rewrite (add_coll_runw n ids ws Hp Hc) in H. inv H. fold lsa in HB.
    assert (B0 : forall m, bkw ws m = []).
    { intros m. destruct (bkw ws m) as [|i l] eqn:E; [reflexivity|exfalso].
      assert (Hi : In i (bkw ws m)) by (rewrite E; left; reflexivity).
      apply in_bkw_books in Hi. pose proof (xj_b0 _ _ _ _ J Ecoll) as T0. unfold StealProofs.tokens in T0.
      apply app_eq_nil in T0. destruct T0 as (_ & T0). rewrite T0 in Hi. destruct Hi. }
    assert (St0 : ws_steal ws = None).
    { destruct (ws_steal ws) as [v|] eqn:E; [|reflexivity]. destruct (xj_s0 _ _ _ _ J v E) as (X & EX & _). congruence. }
    assert (QUIET : forall o2, calmo o2 -> Forall Q_ne o2 ->
              ZX (QCollFinish n ids) d ws d1 lsa ([OHook (HCollFinished n)] ++ [] ++ o2)).
    { intros o2 Co Ne.
      apply ZX_quiet; [intros m; reflexivity|reflexivity|reflexivity|reflexivity|reflexivity| | |reflexivity|reflexivity
                      |intros; reflexivity|exact SB|exact LA].
      - apply calmo_app; [exact CH|exact Co].
      - apply Forall_app. split; [exact NH|exact Ne]. }
    destruct (ws_collection_is_completed lsa) eqn:Eca.
    2:{ inv HB. apply QUIET; [apply calmo_nil|constructor]. }
    assert (Hn2c : ws_n2c lsa <> []) by (apply (n2c_nonempty N HN lsa Eca); apply J).
    unfold ws_schedule in HB. rewrite mbind_get in HB. rewrite Eca in HB. unfold massert in HB. rewrite mbind_ret in HB.
    change (ws_coll lsa) with (ws_coll ws) in HB. rewrite Ecoll in HB.
    unfold mbind at 1 in HB. destruct (ws_same_collection lsa) as [[t2 p2] r2] eqn:Es.
    apply (same_collection_quietw _ _ _ _ Hn2c) in Es. destruct Es as (-> & C2 & (f0 & c0 & ot0 & En0 & ->)).
    destruct (forallb (fun p => coll_eqb c0 (snd p)) ot0) eqn:Esame; cbn [negb] in HB.
    2:{ unfold ret in HB. inv HB. rewrite app_nil_r. apply QUIET; [apply calmo_nocmd; exact C2|apply ne_no_cmdsx; exact C2]. }
    rewrite mbind_get in HB. rewrite En0 in HB. cbn [of_opt] in HB. rewrite mbind_ret, mbind_put in HB.
    set (mid := ws_set_pending (ws_set_coll lsa (Some c0)) (seq 0 (length c0))) in *.
    assert (Etm : wtokens mid = seq 0 (length c0)).
    { unfold StealProofs.tokens, StealProofs.books, mid, lsa. wsproj.
      pose proof (xj_b0 _ _ _ _ J Ecoll) as T0. unfold StealProofs.tokens, StealProofs.books in T0.
      apply app_eq_nil in T0. destruct T0 as (_ & T0). rewrite T0, app_nil_r. reflexivity. }
    assert (PRE : calmo ([OHook (HCollFinished n)] ++ p2) /\ Forall Q_ne ([OHook (HCollFinished n)] ++ p2)).
    { split; [apply calmo_app; [exact CH|apply calmo_nocmd; exact C2]|apply Forall_app; split; [exact NH|apply ne_no_cmdsx; exact C2]]. }
    destruct PRE as (PC & PN).
    destruct c0 as [|x c].
    + unfold ret in HB. inv HB. rewrite app_nil_r. cbn [app]. cbn [app] in PC, PN.
      constructor.
      * intros F. congruence.
      * intros m Y _ _. rewrite B0, bookmidw_nil. cbn. lia.
      * intros _ _ F. congruence.
      * intros _ _. reflexivity.
      * intros F. congruence.
      * intros Y E. right. cbn in E. inv E. split; [exact Ecoll|]. split; [rewrite Etm; reflexivity|].
        exists f0, ot0. exact En0.
      * intros m. exists (cmds_to m (OHook (HCollFinished n) :: p2)), []. rewrite !app_nil_r.
        split; [reflexivity|]. split; [apply PC|reflexivity].
      * intros v ixs Hin. exfalso. exact (calmo_nosteal _ _ _ PC Hin).
      * exact PN.
      * split; assumption.
      * intros F. congruence.
      * intros m. exists (bkw mid m). rewrite B0, bookmidw_nil. reflexivity.
    + destruct (ws_check_schedule mid) as [[ws2 o2] r2] eqn:Ech. inv HB.
      pose proof (W10_check_schedule_never_raises _ _ _ _ Ech) as ->.
      cbn [app]. rewrite app_comm_cons. change (OHook (HCollFinished n) :: p2) with ([OHook (HCollFinished n)] ++ p2).
      eapply (ZX_first _ d ws mid _ _ d1 _ (x :: c) f0 ot0); eauto.
Qed.

Lemma zx_collfinish n ids d ws d1 o1 ws1 :
  DJXc d ws -> PREXc (QCollFinish n ids) d ws ->
  d_handle (QCollFinish n ids) d = (d1, o1, Ok tt) -> d_sched d1 = StW ws1 -> ZX (QCollFinish n ids) d ws d1 ws1 o1.
Proof.
  intros (J0 & K & _) (HnG & Hids) H E1. pose proof J0 as [Els J AL RQ JB K2].
  assert (SAMEST : forall x, (d, @nil out, x) = (d1, o1, Ok tt) -> ZX (QCollFinish n ids) d ws d1 ws1 o1).
  { intros x E. inv E. assert (ws1 = ws) by congruence. subst ws1.
    apply ZX_same; try reflexivity; [apply calmo_nil|constructor|apply same_budget_refl]. }
  cbn [d_handle] in H. rewrite mbind_get in H.
  destruct (d_shuttingdown d) eqn:Esd; [eapply SAMEST; exact H|].
  rewrite Els in H. cbn [s_nodes] in H.
  destruct (mem_nat n (ws_nodes ws)) eqn:Em; cbn [negb] in H; [|eapply SAMEST; exact H].
  clear SAMEST. apply StealProofs.mem_nat_In in Em.
  assert (Hnd : ~ degenerate ws) by (intros F; discriminate (K F)).
  unfold hook in H. rewrite mbind_emit in H. unfold mbind at 1 in H.
  rewrite (sched_op_runx _ d ws Els) in H. cbn [s_step] in H.
  destruct (ws_add_node_collection n ids ws) as [[wsA oA] rA] eqn:EA. cbn [lift] in H.
  destruct (collfinish_sched _ _ HN _ _ _ _ _ _ _ J HnG Hids Em Hnd EA) as (-> & _).
  rewrite mbind_get in H. cbn [d_sched d_set_sched s_collection_is_completed] in H.
  destruct (ws_collection_is_completed wsA) eqn:EcA.
  - unfold mbind at 1 in H. rewrite (sched_op_runx _ (d_set_sched d (StW wsA)) wsA eq_refl) in H. cbn [s_step] in H.
    destruct (ws_schedule wsA) as [[wsB oB] rB] eqn:Es. cbn [lift] in H.
    destruct rB as [[]|e]; [|discriminate]. unfold no_str, ret in H. inv H. cbn in E1. inv E1.
    rewrite app_nil_r.
    apply (collfinish_zx (d_next_gw d) n _ d _ ws wsA oA ws1 oB (Ok tt) J HnG Em Hnd EA); [rewrite EcA; exact Es| |cbn; lia].
    repeat split.
  - unfold ret in H. inv H. cbn in E1. inv E1.
    pose proof (collfinish_zx (d_next_gw d) n _ d (d_set_sched d (StW ws1)) ws ws1 oA ws1 [] (Ok tt) J HnG Em Hnd EA) as Z.
    rewrite EcA in Z. specialize (Z eq_refl (same_budget_sched _ _) (le_n _)). rewrite !app_nil_r in *. exact Z.
Qed.

Lemma handle_zx ev d ws d1 o1 ws1 :
  DJXc d ws -> PREXc ev d ws -> (forall n, ev <> QErrorDown n) ->
  d_handle ev d = (d1, o1, Ok tt) -> d_sched d1 = StW ws1 -> ZX ev d ws d1 ws1 o1.
Proof.
  intros DJd Hpre Hne H Els1. pose proof DJd as ([Els _ _ _ _ _] & _).
  assert (QUIET : match ev with
                  | QLogStart _ _ | QLogFinish _ _ | QWarning | QReport _ _ _ _ | QCollectReport _ _ _ => True
                  | _ => False end -> ZX ev d ws d1 ws1 o1).
  { intros Hq. destruct (handle_quiet' ev d d1 o1 _ Hq H) as (_ & S & C).
    pose proof S as (S1 & S2 & S3 & S4 & S5 & S6 & S7 & S8).
    assert (ws1 = ws) by congruence. subst ws1.
    apply ZX_same; [apply calmo_nocmd; exact C|apply ne_no_cmdsx; exact C| | | |repeat split; assumption|rewrite S3; apply le_n];
      destruct ev; try contradiction; try reflexivity; intros; reflexivity. }
  destruct ev; try (apply QUIET; exact Logic.I); try (cbn in Hpre; contradiction).
  - eapply zx_ready; eauto.
  - eapply zx_collfinish; eauto.
  - eapply zx_complete; eauto.
  - eapply zx_unsched; eauto.
  - eapply zx_finished; eauto.
  - exfalso. exact (Hne n eq_refl).
Qed.

(* ---- one iteration of the controller loop (any event but errordown) ---- *)
Theorem loop_zx ev d ws d' o ws' :
  DJXc d ws -> PREXc ev d ws -> (forall n, ev <> QErrorDown n) ->
  d_loop_once ev d = (d', o, Ok tt) -> d_sched d' = StW ws' -> ZX ev d ws d' ws' o.
Proof.
  intros DJd Hpre Hne H Els'. rewrite loop_once_unfold in H.
  apply LoadProofs.mbind_inv in H. destruct H as [(e & _ & F)|(d1 & o1 & [] & o2 & H1 & H2 & ->)]; [discriminate|].
  destruct (handle_heffx _ _ HN _ _ _ _ _ _ DJd Hpre H1) as (_ & ws1 & vo1 & E1).
  pose proof (hx_dj _ _ _ _ _ _ _ _ E1) as J1. pose proof J1 as [Els1 JJ1 AL1 RQ1 JB1 K21].
  pose proof (handle_zx _ _ _ _ _ _ DJd Hpre Hne H1 Els1) as Z1.
  pose proof (ne_loop_rest _ _ _ _ H2) as NE2.
  destruct (loop_rest_effx _ _ _ _ _ _ _ _ Els1 JJ1 H2) as (_ & ws2 & vo2 & Ed' & T & Eo2 & F & _ & _).
  assert (ws' = ws2) by (rewrite Ed' in Els'; cbn in Els'; congruence). subst ws2.
  apply (ZX_post _ _ _ d1 ws1 o1 d' ws' o2 Z1 F).
  - rewrite Eo2. eapply calmo_TW_ntonly; eassumption.
  - exact NE2.
  - rewrite Ed'. repeat split.
  - rewrite Ed'. apply le_n.
Qed.

End CtlZX.

(* ###################################### part B ###################################### *)
(* the potential of the controller's books (TerminationSteal2, part 3) for node ids below the group counter *)

Lemma books_sum_gen (f : nat -> nat) G (m : amap (list nat)) :
  NoDup (akeys m) -> (forall k, In k (akeys m) -> k < G) ->
  sumf (fun n => sumf f (alist_get [] n m)) (seq 0 G) = sumf f (flat_map snd m).
Proof.
  induction m as [|[k l] m IH]; intros ND Hk.
  - cbn [flat_map]. rewrite sumf_nil. rewrite (sumf_ext_in _ (fun _ => 0)); [apply sumf_zero|]. intros n _. reflexivity.
  - cbn [akeys map fst] in ND, Hk. inversion ND as [|k' m' Hnk ND']; subst.
    cbn [flat_map snd]. rewrite sumf_app, <- IH; [|exact ND'|intros j Hj; apply Hk; right; exact Hj].
    assert (HkG : k < G) by (apply Hk; left; reflexivity).
    assert (Ek : alist_get [] k m = []).
    { apply alist_get_none. destruct (aget k m) eqn:E; [|reflexivity]. exfalso. apply Hnk.
      eapply FifoProofs.aget_some_in. exact E. }
    pose proof (sumf_change_one (fun n => sumf f (alist_get [] n m)) (fun n => sumf f (alist_get [] n ((k, l) :: m)))
                  (seq 0 G) k (seq_NoDup G 0)) as X.
    assert (Hin : In k (seq 0 G)) by (apply in_seq; lia).
    specialize (X Hin). cbv beta in X.
    assert (Ho : forall n, In n (seq 0 G) -> n <> k ->
               sumf f (alist_get [] n ((k, l) :: m)) = sumf f (alist_get [] n m)).
    { intros n _ Hn. unfold alist_get. cbn [aget]. apply Nat.eqb_neq in Hn. rewrite Hn. reflexivity. }
    specialize (X Ho). rewrite Ek, sumf_nil in X.
    assert (Ekk : alist_get [] k ((k, l) :: m) = l) by (unfold alist_get; cbn [aget]; rewrite Nat.eqb_refl; reflexivity).
    rewrite Ekk in X. lia.
Qed.

Lemma length_sumf1 {A} (l : list A) : length l = sumf (fun _ => 1) l.
Proof. induction l as [|a l IH]; [reflexivity|]. rewrite sumf_cons. cbn [length]. lia. Qed.

Section PotX.
Variable c : config.
Notation N := (c_numnodes c).
Notation collf := (c_coll c).
Notation LJXc := (LJX N collf).
Notation PREXc := (PREX collf).

Definition Tsumx (W : nat) : nat := sumf (fun n => length (c_coll c n)) (seq 0 W).
Definition booksumx (G : nat) (ws : wsstate) : nat := sumf (fun n => length (bkw ws n)) (seq 0 G).
Definition deepx (G : nat) (ws : wsstate) : nat := sumf (fun n => length (bkw ws n) - 2) (seq 0 G).
Definition Ux (W : nat) (ws : wsstate) : nat :=
  match ws_coll ws with None => Tsumx W | Some _ => length (wtokens ws) end.
Definition Fx (W G : nat) (ws : wsstate) : nat :=
  match ws_coll ws with None => Tsumx W | Some _ => deepx G ws + (length (ws_pending ws) - 1) end.

Lemma books_sum f G ws : LJXc G ws -> sumf (fun n => sumf f (bkw ws n)) (seq 0 G) = sumf f (wbooks ws).
Proof. intros J. apply books_sum_gen; [apply (xj_wf _ _ _ _ J)|apply (xj_nodes _ _ _ _ J)]. Qed.

Lemma booksum_len G ws : LJXc G ws -> booksumx G ws = length (wbooks ws).
Proof.
  intros J. unfold booksumx. rewrite length_sumf1, <- (books_sum (fun _ => 1) G ws J).
  apply sumf_ext_in. intros n _. apply length_sumf1.
Qed.

Lemma tokens_len G ws : LJXc G ws -> length (wtokens ws) = length (ws_pending ws) + booksumx G ws.
Proof. intros J. unfold StealProofs.tokens. rewrite app_length, (booksum_len G ws J). reflexivity. Qed.

Definition bmx (ev : cevent) (ws : wsstate) (n : nat) : list nat := bookmidw ev n (bkw ws n).

Lemma bmx_le ev ws n : length (bmx ev ws n) <= length (bkw ws n).
Proof.
  unfold bmx. destruct ev; cbn [bookmidw]; try lia.
  - destruct (Nat.eqb n n0); [|lia]. destruct (remove_first i (bkw ws n)) as [b'|] eqn:E; [|lia].
    apply remove_first_perm in E. apply Permutation_length in E. cbn in E. lia.
  - destruct (Nat.eqb n n0); [|lia]. apply filter_len_le.
Qed.

Lemma bkw_lt G ws n i : LJXc G ws -> In i (bkw ws n) -> n < G.
Proof.
  intros J Hi. apply (xj_nodes _ _ _ _ J). apply LoadProofs.aget_In_keys. unfold bkw, alist_get in Hi.
  destruct (aget n (ws_n2p ws)); [discriminate|destruct Hi].
Qed.

(* the books lose exactly what the event takes out of them *)
Lemma bmx_sum G ev d ws :
  LJXc G ws -> PREXc ev d ws -> (forall n, ev <> QErrorDown n) ->
  sumf (fun n => length (bmx ev ws n)) (seq 0 G) + length (ev_inds ev) + compl ev = booksumx G ws.
Proof.
  intros J Hpre Hne. unfold booksumx.
  assert (SAME : (forall n, bmx ev ws n = bkw ws n) -> ev_inds ev = [] -> compl ev = 0 ->
                 sumf (fun n => length (bmx ev ws n)) (seq 0 G) + length (ev_inds ev) + compl ev =
                 sumf (fun n => length (bkw ws n)) (seq 0 G)).
  { intros E -> ->. cbn. rewrite (sumf_ext_in _ (fun n => length (bkw ws n))); [lia|]. intros n _. rewrite E. reflexivity. }
  destruct ev as [n|n ids|n key fl|n i|n i|n i k oc|n i ms|n ixs| |n|n sk|n]; try (apply SAME; reflexivity).
  - (* complete *)
    cbn [PREX] in Hpre. pose proof (bkw_lt G ws n i J Hpre) as HnN.
    pose proof (sumf_change_one (fun m => length (bkw ws m)) (fun m => length (bmx (QComplete n i ms) ws m))
                  (seq 0 G) n (seq_NoDup G 0)) as X.
    assert (Hin : In n (seq 0 G)) by (apply in_seq; lia).
    specialize (X Hin). cbv beta in X.
    assert (Ho : forall m, In m (seq 0 G) -> m <> n -> length (bmx (QComplete n i ms) ws m) = length (bkw ws m)).
    { intros m _ Hm. unfold bmx. cbn [bookmidw]. apply Nat.eqb_neq in Hm. rewrite Hm. reflexivity. }
    specialize (X Ho).
    assert (El : length (bmx (QComplete n i ms) ws n) + 1 = length (bkw ws n)).
    { unfold bmx. cbn [bookmidw]. rewrite Nat.eqb_refl. destruct (remove_first_in i _ Hpre) as (l' & E). rewrite E.
      apply remove_first_perm in E. apply Permutation_length in E. cbn in E. lia. }
    cbn [ev_inds compl length]. lia.
  - (* unscheduled *)
    cbn [PREX] in Hpre. destruct Hpre as (Hst & rest & Prest).
    assert (HnN : n < G) by (apply (xj_nodes _ _ _ _ J); apply (xj_st _ _ _ _ J); exact Hst).
    pose proof (sumf_change_one (fun m => length (bkw ws m)) (fun m => length (bmx (QUnscheduled n ixs) ws m))
                  (seq 0 G) n (seq_NoDup G 0)) as X.
    assert (Hin : In n (seq 0 G)) by (apply in_seq; lia).
    specialize (X Hin). cbv beta in X.
    assert (Ho : forall m, In m (seq 0 G) -> m <> n -> length (bmx (QUnscheduled n ixs) ws m) = length (bkw ws m)).
    { intros m _ Hm. unfold bmx. cbn [bookmidw]. apply Nat.eqb_neq in Hm. rewrite Hm. reflexivity. }
    specialize (X Ho).
    assert (El : length (bmx (QUnscheduled n ixs) ws n) + length ixs = length (bkw ws n)).
    { unfold bmx. cbn [bookmidw]. rewrite Nat.eqb_refl. apply (withdraw_length ixs rest); [|exact Prest].
      apply bkw_nodup. apply J. }
    cbn [ev_inds compl]. lia.
Qed.

(* the potential after the silent part of the handler (before check_schedule) *)
Definition Fmidx (G : nat) (ev : cevent) (ws : wsstate) : nat :=
  sumf (fun n => length (bmx ev ws n) - 2) (seq 0 G) + (length (ws_pending ws) + length (ev_inds ev) - 1).

Lemma Fmidx_le W G ev d ws :
  LJXc G ws -> PREXc ev d ws -> ws_coll ws <> None ->
  Fmidx G ev ws <= Fx W G ws + 2 * isuns ev /\
  (ws_pending ws = [] -> forall v r, ev = QUnscheduled v r -> goodrep ws v r -> Fmidx G ev ws + 1 <= Fx W G ws).
Proof.
  intros J Hpre Hc. unfold Fmidx, Fx, deepx. destruct (ws_coll ws) as [coll|]; [clear Hc|contradiction].
  assert (LE : sumf (fun n => length (bmx ev ws n) - 2) (seq 0 G) <= sumf (fun n => length (bkw ws n) - 2) (seq 0 G)).
  { apply sumf_le_in. intros n _. pose proof (bmx_le ev ws n). lia. }
  destruct ev as [n|n ids|n key fl|n i|n i|n i k oc|n i ms|n ixs| |n|n sk|n];
    try (cbn [ev_inds isuns length]; split; [lia|intros _ v r F; discriminate]).
  cbn [PREX] in Hpre. destruct Hpre as (Hst & rest & Prest).
  assert (HnN : n < G) by (apply (xj_nodes _ _ _ _ J); apply (xj_st _ _ _ _ J); exact Hst).
  pose proof (sumf_change_one (fun m => length (bkw ws m) - 2) (fun m => length (bmx (QUnscheduled n ixs) ws m) - 2)
                (seq 0 G) n (seq_NoDup G 0)) as X.
  assert (Hin : In n (seq 0 G)) by (apply in_seq; lia).
  specialize (X Hin). cbv beta in X.
  assert (Ho : forall m, In m (seq 0 G) -> m <> n ->
               length (bmx (QUnscheduled n ixs) ws m) - 2 = length (bkw ws m) - 2).
  { intros m _ Hm. unfold bmx. cbn [bookmidw]. apply Nat.eqb_neq in Hm. rewrite Hm. reflexivity. }
  specialize (X Ho).
  assert (El : length (bmx (QUnscheduled n ixs) ws n) + length ixs = length (bkw ws n)).
  { unfold bmx. cbn [bookmidw]. rewrite Nat.eqb_refl. apply (withdraw_length ixs rest); [|exact Prest].
    apply bkw_nodup. apply J. }
  cbn [ev_inds isuns length]. split; [lia|].
  intros Ep v r E (G1 & G2). inv E. rewrite Ep. destruct r; [congruence|]. cbn [length] in *. lia.
Qed.

Lemma complv_len ev : length (complv ev) = compl ev.
Proof. destruct ev; reflexivity. Qed.

Theorem pot_ctlx W G ev d ws d' ws' o :
  LJXc G ws -> LJXc G ws' -> PREXc ev d ws -> (forall n, ev <> QErrorDown n) -> G <= W ->
  ZX ev d ws d' ws' o ->
  Ux W ws' + compl ev <= Ux W ws /\ Fx W G ws' <= Fx W G ws + 2 * isuns ev /\
  (ws_pending ws = [] -> forall v r, ev = QUnscheduled v r -> goodrep ws v r -> Fx W G ws' + 1 <= Fx W G ws).
Proof.
  intros J J' Hpre Hne HGW Z. pose proof (zx_bk _ _ _ _ _ _ Z) as HB.
  destruct (ws_coll ws) as [coll0|] eqn:Ec.
  - (* the collection is known *)
    assert (Hc : ws_coll ws <> None) by (rewrite Ec; discriminate).
    pose proof (zx_keep _ _ _ _ _ _ Z Hc) as Ec'. rewrite Ec in Ec'.
    pose proof (zx_tok _ _ _ _ _ _ Z Hc) as PT. apply Permutation_length in PT. rewrite app_length, complv_len in PT.
    pose proof (bmx_sum G ev d ws J Hpre Hne) as BS.
    destruct (Fmidx_le W G ev d ws J Hpre Hc) as (FM1 & FM2).
    (* what each node gets *)
    set (b := fun n => length (bmx ev ws n)).
    assert (XS : exists x : nat -> nat, forall n, length (bkw ws' n) = b n + x n /\
                   (x n <> 0 -> b n < 2) /\ (bkw ws' n = bmx ev ws n -> x n = 0)).
    { exists (fun n => length (bkw ws' n) - b n). intros n. destruct (HB n) as (X & E). unfold b, bmx.
      rewrite E, app_length. split; [lia|]. split.
      - intros Hx. apply (zx_idle _ _ _ _ _ _ Z n X E). intros ->. cbn in Hx. lia.
      - intros H0. apply (f_equal (@length nat)) in H0. rewrite app_length in H0. lia. }
    destruct XS as (x & Hx).
    assert (Ebs : booksumx G ws' = sumf b (seq 0 G) + sumf x (seq 0 G)).
    { unfold booksumx. rewrite <- sumf_add. apply sumf_ext_in. intros n _. apply Hx. }
    assert (Edp : deepx G ws' = sumf (fun n => b n + x n - 2) (seq 0 G)).
    { unfold deepx. apply sumf_ext_in. intros n _. rewrite (proj1 (Hx n)). reflexivity. }
    pose proof (tokens_len G ws J) as TL. pose proof (tokens_len G ws' J') as TL'.
    assert (FF : Fx W G ws' <= Fmidx G ev ws).
    { unfold Fx, Fmidx. rewrite Ec', Edp. fold b. destruct (zx_pend _ _ _ _ _ _ Z Hc) as [Ep|(Ep & Hs)].
      - rewrite Ep in *. cbn [length] in *.
        pose proof (sum_idle b x (seq 0 G)) as SI.
        assert (Hi : forall n, In n (seq 0 G) -> x n <> 0 -> b n < 2) by (intros n _; apply Hx).
        specialize (SI Hi). fold b in BS. unfold b in *. lia.
      - rewrite Ep, app_length.
        rewrite (sumf_ext_in _ (fun n => b n - 2)); [unfold b; lia|].
        intros n _. rewrite (proj2 (proj2 (Hx n))); [f_equal; lia|]. apply Hs. }
    unfold Ux. rewrite Ec, Ec'. split; [lia|]. split; [lia|].
    intros Ep v r E Gd. specialize (FM2 Ep v r E Gd). lia.
  - (* before the initial distribution *)
    pose proof (xj_b0 _ _ _ _ J Ec) as T0.
    assert (B0 : forall n, bkw ws n = []).
    { intros n. destruct (bkw ws n) as [|i l] eqn:E; [reflexivity|exfalso].
      assert (Hi : In i (bkw ws n)) by (rewrite E; left; reflexivity).
      apply in_bkw_books in Hi. unfold StealProofs.tokens in T0. apply app_eq_nil in T0. destruct T0 as (_ & T0).
      rewrite T0 in Hi. destruct Hi. }
    assert (Hcompl : compl ev = 0).
    { destruct ev; try reflexivity. cbn [PREX] in Hpre. rewrite B0 in Hpre. destruct Hpre. }
    assert (G0 : forall v r, goodrep ws v r -> False).
    { intros v r (_ & Gd). rewrite B0 in Gd. cbn in Gd. lia. }
    unfold Ux at 2, Fx at 2, Fx at 3. rewrite Ec, Hcompl.
    destruct (ws_coll ws') as [X|] eqn:Ec'.
    2:{ unfold Ux, Fx. rewrite Ec'. split; [lia|]. split; [lia|]. intros _ v r _ Gd. destruct (G0 v r Gd). }
    destruct (zx_coll _ _ _ _ _ _ Z X Ec') as [F|(_ & PX & k & others & En2c)]; [congruence|].
    assert (Hk : In (k, X) (ws_n2c ws')) by (rewrite En2c; left; reflexivity).
    pose proof (xj_ids _ _ _ _ J' k X Hk) as Eck.
    assert (HkG : k < G).
    { apply (xj_n2c _ _ _ _ J'). unfold akeys. change k with (fst (k, X)). apply in_map. exact Hk. }
    assert (Hle : length X <= Tsumx W).
    { unfold Tsumx. rewrite Eck. apply (sumf_in_le (fun n => length (c_coll c n))). apply in_seq. lia. }
    apply Permutation_length in PX. rewrite seq_length in PX.
    assert (HU : Ux W ws' <= Tsumx W) by (unfold Ux; rewrite Ec'; lia).
    assert (HF : Fx W G ws' <= Ux W ws').
    { unfold Fx, Ux. rewrite Ec'. rewrite (tokens_len G ws' J').
      pose proof (sumf_le_total (fun n => length (bkw ws' n)) (seq 0 G)) as Y. unfold deepx, booksumx. lia. }
    split; [lia|]. split; [lia|]. intros _ v r _ Gd. destruct (G0 v r Gd).
Qed.
End PotX.

(* ###################################### part C ###################################### *)
(* the potential of everything that can still move: the measure muw of TerminationSteal.v (no crashes) merged with
   the architecture of CrashTermination.v (mode load, crashes).
   muxw W s: pool entries are priced for every worker id below W (W >= the group counter), a dead worker's share is
   only what is left on its wire up, the sums range over all worker processes ever started.
   step_muxw: every useful move and every crash, EXCEPT the controller iteration that handles an errordown, makes
   muxw smaller -- but for the price (stealcost) of the withdrawal requests among the outputs of the step -- and
   leaves the restart budget and the group counter alone. *)
(* the configuration c with W initial workers: Termination.pcost (cW c W) = CrashTermination.pcostx c W, so that
   the worker lemmas of TerminationSteal.v can be reused at the price list of W worker ids *)
Definition cW (c : config) (W : nat) : config :=
  {| c_mode := c_mode c; c_numnodes := W; c_chunk := c_chunk c; c_maxfail := c_maxfail c;
     c_max_restart := c_max_restart c; c_requeue := c_requeue c; c_coll := c_coll c; c_oracle := c_oracle c;
     c_dur := c_dur c; c_crash_in := c_crash_in c; c_strict := c_strict c; c_spec := c_spec c |}.

Lemma pcost_cW c W i : pcost (cW c W) i = pcostx c W i.
Proof. reflexivity. Qed.

(* ====================================================================================== *)
(* sums                                                                                    *)
(* ====================================================================================== *)
Lemma sumf_zero_in {A} (f : A -> nat) l : (forall x, In x l -> f x = 0) -> sumf f l = 0.
Proof.
  induction l as [|a l IH]; intros H; [reflexivity|]. rewrite sumf_cons, (H a (or_introl eq_refl)), IH; [reflexivity|].
  intros x Hx. apply H. right. exact Hx.
Qed.

(* the controller's receiver thread queues at most one event per message; an `unscheduled` message becomes
   an `unscheduled` event with the same indices, the end marker becomes an errordown *)
Lemma pfr_costxw c X0 n m d d' o evs :
  ok_upw X0 n m -> process_from_remote n m d = (d', o, Ok evs) -> length evs + sumf (evx c) evs <= 1 + upx c m.
Proof.
  intros Hm H.
  unfold process_from_remote, mbind, get, of_opt, ret, raise in H. cbn beta iota zeta in H.
  destruct (aget n (d_nt d)) as [f|] eqn:Ef; cbn beta iota zeta in H; [|discriminate].
  destruct (n_down f) eqn:Edn.
  { assert (H' : (d, @nil out, Ok (@nil cevent)) = (d', o, Ok evs)).
    { destruct m as [e|ids|sk|i ms|dec| | |]; exact H. }
    inv H'. cbn. lia. }
  destruct m as [e|ids|sk|i ms|dec| | |]; cbn [ok_upw] in Hm; try contradiction.
  - destruct e; unfold put in H; cbn beta iota zeta in H; inv H; cbn; lia.
  - inv H. cbn. lia.
  - inv H. cbn. lia.
  - unfold put in H. cbn beta iota zeta in H. inv H. cbn. lia.
Qed.

(* a worker that has not exited can still make at least three moves' worth *)
Lemma wpot_alivew c n w : wph w <> PExited -> 3 <= wpot c n w.
Proof. intros H. unfold wpot, phpot. destruct (wph w); try lia; try contradiction. Qed.

Section MuXW.
Variable c : config.
Hypothesis Hmode : c_mode c = MSteal.
Hypothesis Hng : no_garbled c.
Hypothesis Hpos : 0 < c_numnodes c.
Hypothesis Hrq : rq_ok c.
Notation N := (c_numnodes c).
Notation X0 := (c_coll c).
Notation OR := (c_oracle c).

(* a dead worker never moves again and nothing reaches it: only its wire up counts *)
Definition nodepotxw (W : nat) (s : sys) (n : nat) : nat :=
  2 * length (alist_get [] n (y_up s)) + sumf (upx (cW c W)) (alist_get [] n (y_up s)) +
  (if mem_nat n (y_dead s) then 0
   else dcostw (cW c W) n (alist_get [] n (y_down s)) +
        match aget n (y_w s) with Some w => wpotw (cW c W) n w | None => 0 end).
Definition poolpotxw (W : nat) (ws : wsstate) : nat :=
  match ws_coll ws with None => prepoolx c W | Some _ => sumf (pcostx c W) (ws_pending ws) end.
Definition ctlpotxw (W : nat) (d : dstate) : nat :=
  match d_sched d with StW ws => poolpotxw W ws + sumf (sdnw ws) (seq 0 (d_next_gw d)) | _ => 0 end.
Definition muxw (W : nat) (s : sys) : nat :=
  ctlpotxw W (y_d s) + length (y_evq s) + sumf (evx (cW c W)) (y_evq s) +
  sumf (nodepotxw W s) (seq 0 (d_next_gw (y_d s))).

(* the frame of a step that does not handle an errordown *)
Definition FRW (d d1 : dstate) : Prop :=
  d_next_gw d1 = d_next_gw d /\ d_failed_nodes d1 = d_failed_nodes d /\ d_max_restart d1 = d_max_restart d /\
  length (d_active d1) <= length (d_active d).
Lemma FRW_refl d : FRW d d.
Proof. unfold FRW. auto. Qed.

(* ---- the invariant: what the worker lemmas need ---- *)
Lemma nodup_queuex P s ws n w :
  NodeInvW OR P s ws n w -> mem_nat n (y_dead s) = false -> NoDup (ents_idx (wq w)).
Proof.
  intros (_ & _ & _ & D) Hd. rewrite Hd in D.
  assert (ND : NoDup (owed_w w)).
  { destruct (P n).
    - destruct D as [D1 _ _ _ _ _ _].
      pose proof (sub_nodup _ _ (sw_sub _ _ _ _ _ _ _ D1) (sw_nd _ _ _ _ _ _ _ D1)) as H.
      apply WorkerProofs.nodup_app_r in H. apply nodup_app_l in H. exact H.
    - destruct D as [D1 _ _ _ _ _].
      exact (proj2 (coupled_nodup _ _ _ _ _ _ (nw_nd _ _ _ _ _ _ D1) (nw_coupled _ _ _ _ _ _ D1))). }
  unfold owed_w in ND. apply WorkerProofs.nodup_app_r in ND. apply nodup_app_l in ND. exact ND.
Qed.

Lemma wx2_x P s ws n w : NodeInvW OR P s ws n w -> mem_nat n (y_dead s) = false -> WX2 w.
Proof.
  intros (_ & _ & _ & D) Hd. rewrite Hd in D. destruct (P n).
  - destruct D as [D1 _ _ _ _ _ _]. unfold WX2. destruct (sw_ph _ _ _ _ _ _ _ D1) as [Z|Z]; rewrite Z; exact I.
  - destruct D as [D1 _ _ _ _ _]. exact (nw_wx _ _ _ _ _ _ D1).
Qed.

(* ---- only node n0's share changes ---- *)
Lemma muxw_node_step W s s' n0 k :
  y_d s' = y_d s -> y_evq s' = y_evq s -> n0 < d_next_gw (y_d s) ->
  (forall n, n <> n0 -> nodepotxw W s' n = nodepotxw W s n) ->
  nodepotxw W s' n0 + k <= nodepotxw W s n0 -> muxw W s' + k <= muxw W s.
Proof.
  intros Ed Eq HnN Hoth Hn0. unfold muxw. rewrite Ed, Eq.
  set (G := d_next_gw (y_d s)) in *.
  pose proof (sumf_change_one (nodepotxw W s) (nodepotxw W s') (seq 0 G) n0 (seq_NoDup G 0)) as X.
  assert (Hin : In n0 (seq 0 G)) by (apply in_seq; lia).
  specialize (X Hin (fun n _ Hn => Hoth n Hn)). lia.
Qed.

Lemma nodepotxw_push W s n0 w' evs :
  mem_nat n0 (y_dead s) = false ->
  nodepotxw W (push_up (set_w s n0 w') n0 (map (up_of_wevent c n0) evs)) n0 =
  2 * length (alist_get [] n0 (y_up s)) + sumf (upx (cW c W)) (alist_get [] n0 (y_up s)) + upcost (cW c W) n0 evs +
  dcostw (cW c W) n0 (alist_get [] n0 (y_down s)) + wpotw (cW c W) n0 w'.
Proof.
  intros Hd. unfold nodepotxw, upcost. cbn [push_up set_w y_up y_down y_w y_dead]. rewrite Hd.
  rewrite FifoProofs.alist_get_aset_eq, FifoProofs.aget_aset_eq, app_length, map_length, sumf_app.
  change (up_of_wevent (cW c W) n0) with (up_of_wevent c n0). lia.
Qed.

Lemma nodepotxw_push_other W s n0 w' ms n :
  n <> n0 -> nodepotxw W (push_up (set_w s n0 w') n0 ms) n = nodepotxw W s n.
Proof.
  intros Hn. unfold nodepotxw. cbn [push_up set_w y_up y_down y_w y_dead].
  rewrite FifoProofs.alist_get_aset_neq, FifoProofs.aget_aset_neq by exact Hn. reflexivity.
Qed.

(* a change of the flags of a node that leaves "told to shut down" alone does not touch the measure *)
Lemma ctlpotxw_set_nt W d ws n f f' :
  d_sched d = StW ws -> aget n (ws_nt ws) = Some f -> n_sdsent f' = n_sdsent f ->
  ctlpotxw W (d_set_nt d (aset n f' (d_nt d))) = ctlpotxw W d.
Proof.
  intros Els Ef Hs. unfold ctlpotxw. rewrite (d_set_nt_schedw d ws n f' Els), Els.
  change (d_next_gw (d_set_nt d (aset n f' (d_nt d)))) with (d_next_gw d).
  f_equal. apply sumf_ext_in. intros k _. unfold sdnw. rewrite aget_upd_flagw.
  destruct (Nat.eqb k n) eqn:E; [|reflexivity]. apply Nat.eqb_eq in E. subst k. rewrite Ef. cbn. rewrite Hs. reflexivity.
Qed.

Lemma FRW_set_nt d nt : FRW d (d_set_nt d nt).
Proof. unfold FRW, d_set_nt. cbn. auto. Qed.

(* ---- a worker process dies ---- *)
Lemma muxw_crash W s n0 w0 :
  XW c s -> mem_nat n0 (y_dead s) = false -> aget n0 (y_w s) = Some w0 -> wph w0 <> PExited ->
  muxw W (crash_worker c s n0) + 1 <= muxw W s /\ FRW (y_d s) (y_d (crash_worker c s n0)).
Proof.
  intros X Hd Ew Hph. pose proof X as [Lo Hi (ws & P & DJd & NIs & Pout) Eq Eu Ea Er Edead].
  pose proof DJd as ([Els J _ _ _ _] & _).
  pose proof (worker_ltx c s n0 w0 X Ew) as HnG.
  destruct (aget n0 (ws_nt ws)) as [f0|] eqn:Ef0; [|exfalso; apply (proj2 (xj_ntk _ _ _ _ J n0) HnG); exact Ef0].
  set (s' := crash_worker c s n0).
  assert (CT : ctlpotxw W (y_d s') = ctlpotxw W (y_d s) /\ FRW (y_d s) (y_d s')).
  { unfold s', crash_worker. cbn [y_d]. destruct (c_strict c); [|split; [reflexivity|apply FRW_refl]].
    assert (Ent : d_nt (y_d s) = ws_nt ws) by (unfold d_nt; rewrite Els; reflexivity).
    rewrite Ent, Ef0. rewrite <- Ent. split; [|apply FRW_set_nt].
    apply (ctlpotxw_set_nt W _ ws n0 f0); auto. }
  destruct CT as (CT & FR). split; [|exact FR]. pose proof FR as (EG & _).
  unfold muxw. rewrite CT, EG. change (y_evq s') with (y_evq s).
  set (G := d_next_gw (y_d s)) in *.
  pose proof (sumf_change_one (nodepotxw W s) (nodepotxw W s') (seq 0 G) n0 (seq_NoDup G 0)) as Z.
  assert (Hin : In n0 (seq 0 G)) by (apply in_seq; lia).
  assert (Hoth : forall n, In n (seq 0 G) -> n <> n0 -> nodepotxw W s' n = nodepotxw W s n).
  { intros n _ Hn. unfold nodepotxw, s', crash_worker. cbn [y_up y_down y_w y_dead].
    rewrite mem_nat_cons. apply Nat.eqb_neq in Hn. rewrite Hn. cbn [orb]. apply Nat.eqb_neq in Hn.
    rewrite !FifoProofs.alist_get_aset_neq by exact Hn. reflexivity. }
  specialize (Z Hin Hoth).
  assert (Hn0 : nodepotxw W s' n0 + 1 <= nodepotxw W s n0).
  { unfold nodepotxw, s', crash_worker. cbn [y_up y_down y_w y_dead].
    rewrite mem_nat_cons, Nat.eqb_refl, Hd, Ew. cbn [orb]. rewrite FifoProofs.alist_get_aset_eq, app_length, sumf_app.
    cbn [length]. rewrite sumf_cons, sumf_nil. cbn [upx].
    pose proof (wpot_alivew (cW c W) n0 w0 Hph). unfold wpotw. lia. }
  lia.
Qed.

(* ---- closing the channel of a dead worker changes nothing ---- *)
Lemma muxw_close W s n ws :
  d_sched (y_d s) = StW ws ->
  muxw W (close_if_dead s n) = muxw W s /\ FRW (y_d s) (y_d (close_if_dead s n)).
Proof.
  intros Els. unfold close_if_dead. destruct (mem_nat n (y_dead s)) eqn:Hd; [|split; [reflexivity|apply FRW_refl]].
  destruct (aget n (d_nt (y_d s))) as [f|] eqn:Ef; [|split; [reflexivity|apply FRW_refl]].
  destruct (n_down f) eqn:Edn; [|split; [reflexivity|apply FRW_refl]].
  assert (Ent : d_nt (y_d s) = ws_nt ws) by (unfold d_nt; rewrite Els; reflexivity).
  rewrite Ent in Ef. split; [|cbn [set_d y_d]; apply FRW_set_nt].
  unfold muxw. cbn [set_d y_d y_evq].
  rewrite (ctlpotxw_set_nt W (y_d s) ws n f
             {| n_spec := n_spec f; n_down := true; n_sdsent := n_sdsent f; n_closed := true |} Els Ef eq_refl). reflexivity.
Qed.


(* ---- LCtl, any event but errordown ---- *)
(* what the event takes out of the books is the completed test resp. the indices of the reply *)
Lemma bookmid_price (p : nat -> nat) ev d ws l :
  NoDup (wtokens ws) -> PREX X0 ev d ws -> NoDup l ->
  sumf (fun k => sumf p (bkw ws k)) l <=
  sumf (fun k => sumf p (bookmidw ev k (bkw ws k))) l + sumf p (complv ev) + sumf p (ev_inds ev).
Proof.
  intros NDt Hpre ND.
  assert (IND : forall n x, (forall k, sumf p (bkw ws k) <= sumf p (bookmidw ev k (bkw ws k)) + (if Nat.eqb n k then x else 0)) ->
            sumf (fun k => sumf p (bkw ws k)) l <= sumf (fun k => sumf p (bookmidw ev k (bkw ws k))) l + x).
  { intros n x H.
    assert (Y : sumf (fun k => sumf p (bkw ws k)) l <=
                sumf (fun k => sumf p (bookmidw ev k (bkw ws k)) + (if Nat.eqb n k then x else 0)) l)
      by (apply sumf_le_in; intros k _; apply H).
    rewrite sumf_add in Y. pose proof (sumf_indicator n x l ND). lia. }
  destruct ev as [n|n ids|n key fl|n i|n i|n i k0 oc|n i ms|n ixs| |n|n sk|n];
    try (cbn [bookmidw complv ev_inds]; rewrite !sumf_nil; lia).
  - (* complete *)
    cbn [PREX] in Hpre. cbn [complv ev_inds]. rewrite sumf_cons, !sumf_nil.
    pose proof (IND n (p i)) as Y. cbv beta in Y. rewrite Nat.add_0_r. rewrite Nat.add_0_r. apply Y. intros k. cbn [bookmidw].
    rewrite (Nat.eqb_sym n k). destruct (Nat.eqb k n) eqn:E; [|lia]. apply Nat.eqb_eq in E. subst k.
    destruct (remove_first_in i _ Hpre) as (l' & El). rewrite El.
    rewrite <- (sumf_perm p _ _ (remove_first_perm _ _ _ El)), sumf_cons. lia.
  - (* unscheduled *)
    cbn [PREX] in Hpre. destruct Hpre as (_ & rest & Prest). cbn [complv ev_inds]. rewrite sumf_nil, Nat.add_0_r.
    apply (IND n (sumf p ixs)). intros k. cbn [bookmidw].
    rewrite (Nat.eqb_sym n k). destruct (Nat.eqb k n) eqn:E; [|lia]. apply Nat.eqb_eq in E. subst k.
    destruct (nodup_perm_disj ixs rest (bkw ws n) (bkw_nodup ws n NDt) Prest) as (Hdisj & _ & _).
    rewrite (sumf_perm p _ _ (filter_withdraw ixs rest (bkw ws n) Prest Hdisj)).
    rewrite (sumf_perm p _ _ Prest), sumf_app. lia.
Qed.

Lemma evx_inds W ev : evx (cW c W) ev = sumf (pcostx c W) (ev_inds ev).
Proof. destruct ev; reflexivity. Qed.

Lemma muxw_ctl W s ev q d' outs rr :
  XW c s -> d_next_gw (y_d s) <= W -> y_result s = None -> y_evq s = ev :: q -> (forall n, ev <> QErrorDown n) ->
  d_loop_once ev (y_d s) = (d', outs, Ok tt) ->
  let s' := set_result (apply_outs (set_d (set_evq s q) d') outs) rr in
  muxw W s' + 1 <= muxw W s + stealcost (cW c W) outs /\ FRW (y_d s) (y_d s').
Proof.
  intros X HW Eres Eevq Hne El. cbv zeta. pose proof X as [Lo Hi (ws & P & DJd & NIs & Pout) Eq Eu Ea Er Edead].
  specialize (Ea Eres).
  pose proof (pre_from_invx c Hpos P s ws ev q X DJd NIs Eevq) as Hpre.
  destruct (loop_once_okx N X0 Hpos ev _ ws d' outs _ DJd Hpre El) as (_ & ws' & vo & Eo & E & DJ2 & _ & _).
  pose proof DJ2 as ([Els' J' _ _ _ _] & _).
  pose proof DJd as ([Els J AL _ _ _] & _).
  pose proof (loop_zx N X0 Hpos ev _ ws d' outs ws' DJd Hpre Hne El Els') as Z.
  destruct (zx_fr _ _ _ _ _ _ Z) as ((Ffl & Fm & Fg) & Fa).
  rewrite Fg in J'.
  set (G := d_next_gw (y_d s)) in *.
  set (p := pcostx c W).
  assert (NOSP : forall id sp, ~ In (OHook (HSpawn id sp)) outs).
  { pose proof (loop_once_step _ _ _ _ _ El) as (_ & _ & _ & SP).
    destruct SP as [(C0 & _)|(_ & G1 & _)]; [|fold G in G1; lia].
    intros id sp Hin. pose proof (count_zero_notin _ _ _ C0 Hin) as F. discriminate. }
  set (sA := set_d (set_evq s q) d').
  destruct (apply_outs_frame outs sA) as (F1 & F2 & F3). cbn [sA set_d set_evq y_evq y_d y_dead] in F1, F2, F3.
  assert (UP : forall k, alist_get [] k (y_up (apply_outs sA outs)) = alist_get [] k (y_up s)).
  { intros k. rewrite apply_outs_up; [reflexivity|]. intros id sp Hin. exfalso. exact (NOSP _ _ Hin). }
  assert (DOWN : forall k, alist_get [] k (y_down (apply_outs sA outs)) =
            if mem_nat k (y_dead s) then alist_get [] k (y_down s) else alist_get [] k (y_down s) ++ cmds_to k outs).
  { intros k. rewrite apply_outs_down; [reflexivity|]. intros id sp Hin. exfalso. exact (NOSP _ _ Hin). }
  assert (WOLD : forall k, aget k (y_w (apply_outs sA outs)) = aget k (y_w s)).
  { intros k. rewrite apply_outs_w_none; [reflexivity|]. intros sp Hin. exact (NOSP _ _ Hin). }
  set (s1 := apply_outs sA outs) in *.
  split.
  2:{ cbn [set_result y_d]. rewrite F2. unfold FRW. auto. }
  (* the nodes' shares *)
  set (extra := fun k => if mem_nat k (y_dead s) then 0 else dcostw (cW c W) k (cmds_to k outs)).
  assert (Enode : forall k, nodepotxw W (set_result s1 rr) k = nodepotxw W s k + extra k).
  { intros k. unfold nodepotxw, extra. cbn [set_result y_up y_down y_w y_dead]. rewrite F3, UP, DOWN, WOLD.
    destruct (mem_nat k (y_dead s)); [lia|]. unfold dcostw, dcost. rewrite !sumf_app. lia. }
  (* per node: commands, the shutdown budget, the price of a request *)
  assert (Hnode : forall k, In k (seq 0 G) ->
            extra k + sdnw ws' k <=
            sdnw ws k + sumf p (flat_map cmd_inds (cmds_to k vo)) + sumf (stcmd (cW c W)) (cmds_to k outs)).
  { intros k Hk. apply in_seq in Hk. assert (HkG : k < G) by lia.
    destruct (aget k (ws_nt ws)) as [f|] eqn:Ef; [|exfalso; apply (proj2 (xj_ntk _ _ _ _ J k) HkG); exact Ef].
    pose proof (hx_nt _ _ _ _ _ _ _ _ E k HkG) as R. rewrite Ef in R.
    destruct (aget k (ws_nt ws')) as [f'|] eqn:Ef'; [|destruct R]. cbn in R.
    rewrite (sdnw_some ws k f Ef), (sdnw_some ws' k f' Ef').
    assert (CM : cmds_to k outs = if closedb (ws_nt ws) k then [] else cmds_to k vo) by (rewrite Eo; apply cmds_to_vfilter).
    destruct (closedb (ws_nt ws) k) eqn:Ecl.
    - unfold extra. rewrite CM. unfold dcostw, dcost. rewrite !sumf_nil.
      destruct (NRW_fields _ _ _ R) as (_ & _ & _ & Dsd & _).
      assert (Z0 : sdterm f' <= sdterm f).
      { unfold sdterm. destruct (n_sdsent f) eqn:Es; [|destruct (n_sdsent f'); unfold SDC; lia].
        rewrite (proj2 Dsd (or_introl eq_refl)). lia. }
      destruct (mem_nat k (y_dead s)); lia.
    - assert (NEk : Forall ne_cmd (cmds_to k outs)) by (apply ne_cmds_to; exact (zx_ne _ _ _ _ _ _ Z)).
      rewrite CM in NEk |- *.
      assert (HkW : k < c_numnodes (cW c W)) by (cbn; lia).
      pose proof (NRW_costw (cW c W) k f _ f' HkW R NEk) as Z0.
      change (pcost (cW c W)) with p in Z0.
      unfold extra. rewrite CM. destruct (mem_nat k (y_dead s)); lia. }
  assert (Hsum : sumf extra (seq 0 G) + sumf (sdnw ws') (seq 0 G) <=
                 sumf (sdnw ws) (seq 0 G) + sumf (fun k => sumf p (flat_map cmd_inds (cmds_to k vo))) (seq 0 G) +
                 stealcost (cW c W) outs).
  { pose proof (stcmd_sum (cW c W) (seq 0 G) outs (seq_NoDup G 0)) as St.
    assert (Y : sumf (fun k => extra k + sdnw ws' k) (seq 0 G) <=
                sumf (fun k => sdnw ws k + sumf p (flat_map cmd_inds (cmds_to k vo)) +
                               sumf (stcmd (cW c W)) (cmds_to k outs)) (seq 0 G))
      by (apply sumf_le_in; exact Hnode).
    rewrite !sumf_add in Y. lia. }
  (* the pool *)
  assert (BK : forall k, bkw ws' k = bookmidw ev k (bkw ws k) ++ flat_map cmd_inds (cmds_to k vo)).
  { intros k. rewrite (hx_bk _ _ _ _ _ _ _ _ E k), bookmidx_eq; [reflexivity|].
    intros j F. exfalso. exact (Hne j F). }
  assert (SB' : sumf p (wbooks ws') =
                sumf (fun k => sumf p (bookmidw ev k (bkw ws k))) (seq 0 G) +
                sumf (fun k => sumf p (flat_map cmd_inds (cmds_to k vo))) (seq 0 G)).
  { rewrite <- (books_sum c p G ws' J'), <- sumf_add. apply sumf_ext_in. intros k _. rewrite BK, sumf_app. reflexivity. }
  pose proof (books_sum c p G ws J) as SB.
  assert (Hpool : sumf (fun k => sumf p (flat_map cmd_inds (cmds_to k vo))) (seq 0 G) + poolpotxw W ws' <=
                  poolpotxw W ws + evx (cW c W) ev).
  { rewrite evx_inds. fold p. unfold poolpotxw. fold p.
    destruct (ws_coll ws) as [coll0|] eqn:Ec.
    - assert (Hc : ws_coll ws <> None) by (rewrite Ec; discriminate).
      rewrite (zx_keep _ _ _ _ _ _ Z Hc), Ec.
      pose proof (sumf_perm p _ _ (zx_tok _ _ _ _ _ _ Z Hc)) as PT.
      unfold StealProofs.tokens in PT. rewrite !sumf_app in PT.
      pose proof (bookmid_price p ev (y_d s) ws (seq 0 G) (xj_nd _ _ _ _ J) Hpre (seq_NoDup G 0)) as BP.
      lia.
    - pose proof (xj_b0 _ _ _ _ J Ec) as T0. unfold StealProofs.tokens in T0. apply app_eq_nil in T0.
      destruct T0 as (P0 & B0).
      destruct (ws_coll ws') as [XC|] eqn:Ec'.
      + destruct (zx_coll _ _ _ _ _ _ Z XC Ec') as [F|(_ & PX & k & others & En2c)]; [congruence|].
        assert (Hk : In (k, XC) (ws_n2c ws')) by (rewrite En2c; left; reflexivity).
        pose proof (xj_ids _ _ _ _ J' k XC Hk) as Eck.
        assert (HkG : k < G).
        { apply (xj_n2c _ _ _ _ J'). unfold akeys. change k with (fst (k, XC)). apply in_map. exact Hk. }
        assert (Hle : sumf p (seq 0 (length XC)) <= prepoolx c W).
        { unfold prepoolx. rewrite Eck.
          apply (sumf_in_le (fun n0 => sumf (pcostx c W) (seq 0 (length (X0 n0))))). apply in_seq. lia. }
        pose proof (sumf_perm p _ _ PX) as PT. unfold StealProofs.tokens in PT. rewrite sumf_app in PT. lia.
      + pose proof (xj_b0 _ _ _ _ J' Ec') as T1. unfold StealProofs.tokens in T1. apply app_eq_nil in T1.
        destruct T1 as (_ & B1). rewrite B1, sumf_nil in SB'. lia. }
  unfold muxw. cbn [set_result y_d y_evq]. rewrite F1, F2, Fg. fold G.
  rewrite (sumf_ext_in (nodepotxw W (set_result s1 rr)) (fun k => nodepotxw W s k + extra k) _ (fun k _ => Enode k)).
  rewrite sumf_add. unfold ctlpotxw. rewrite Els', Els, Eevq, Fg. fold G. cbn [length]. rewrite sumf_cons. lia.
Qed.


Lemma FRW_trans a b d : FRW a b -> FRW b d -> FRW a d.
Proof. intros (A1 & A2 & A3 & A4) (B1 & B2 & B3 & B4). unfold FRW. repeat split; try congruence. lia. Qed.

(* ---- every useful move and every crash, but for the iteration that handles an errordown ---- *)
Theorem step_muxw_frw W s l s' o w :
  XW c s -> d_next_gw (y_d s) <= W ->
  (Progress.useful s l = true \/ exists n, l = LCrash n) ->
  (l = LCtl -> forall n q, y_evq s <> QErrorDown n :: q) ->
  sys_step c s l = Some (s', o, w) ->
  muxw W s' + 1 <= muxw W s + stealcost (cW c W) o /\ FRW (y_d s) (y_d s').
Proof.
  intros X HW Hu Hnoerr H. pose proof X as [Lo Hi (ws & P & DJd & NIs & Pout) Eq Eu Ea Er Edead].
  pose proof DJd as ([Els J _ _ _ _] & _).
  assert (SAME_D : forall s2, y_d s2 = y_d s -> muxw W s2 + 1 <= muxw W s ->
            muxw W s2 + 1 <= muxw W s + stealcost (cW c W) [] /\ FRW (y_d s) (y_d s2)).
  { intros s2 Ed Hm. rewrite Ed. split; [unfold stealcost; rewrite sumf_nil; lia|apply FRW_refl]. }
  unfold sys_step in H. destruct (y_result s) eqn:Eres; [discriminate|].
  destruct l as [n0|n0|n0|n0| |n0].
  - (* LDeliver *)
    destruct (mem_nat n0 (y_dead s)) eqn:Hd; [discriminate|].
    destruct (aget n0 (y_down s)) as [[|cmd rest]|] eqn:Ed; try discriminate.
    destruct (aget n0 (y_w s)) as [w0|] eqn:Ew; try discriminate.
    inv H. pose proof (worker_ltx c s n0 w0 X Ew) as HnG.
    apply SAME_D; [reflexivity|].
    apply (muxw_node_step W _ _ n0); auto.
    + intros n Hn. unfold nodepotxw. cbn [y_up y_down y_w y_dead].
      rewrite FifoProofs.alist_get_aset_neq, FifoProofs.aget_aset_neq by exact Hn. reflexivity.
    + unfold nodepotxw. cbn [y_up y_down y_w y_dead].
      rewrite Hd, FifoProofs.alist_get_aset_eq, FifoProofs.aget_aset_eq, Ew, (alist_get_some [] _ _ _ Ed).
      rewrite deliver_potw. unfold dcostw, dcost. rewrite !sumf_cons. cbv beta. lia.
  - (* LRecvW *)
    destruct (mem_nat n0 (y_dead s)) eqn:Hd; [discriminate|].
    destruct (aget n0 (y_w s)) as [w0|] eqn:Ew; try discriminate.
    destruct Hu as [Hu|(k & F)]; [|discriminate]. cbn [useful] in Hu. rewrite Ew in Hu.
    destruct (negb (wcb w0)); [discriminate|].
    destruct (recv_step (c_oracle c n0) w0) as [w' evs] eqn:Es. inv H.
    pose proof (worker_ltx c s n0 w0 X Ew) as HnG.
    pose proof (NIs n0 w0 Ew) as NI. pose proof NI as (Iw & Gw & _).
    pose proof (recv_step_potw (cW c W) (c_oracle c n0) n0 w0 Gw (nodup_queuex P s ws n0 w0 NI Hd) Hu) as Z.
    rewrite Es in Z. cbn [fst snd] in Z.
    apply SAME_D; [reflexivity|]. apply (muxw_node_step W _ _ n0); auto.
    + intros n Hn. apply nodepotxw_push_other. exact Hn.
    + rewrite nodepotxw_push by exact Hd. unfold nodepotxw. rewrite Hd, Ew. lia.
  - (* LMain *)
    destruct (mem_nat n0 (y_dead s)) eqn:Hd; [discriminate|].
    destruct (aget n0 (y_w s)) as [w0|] eqn:Ew; try discriminate.
    destruct (dies_now c n0 w0) eqn:Edie.
    + inv H.
      assert (Hph : wph w0 <> PExited) by (unfold dies_now in Edie; destruct (wph w0); discriminate).
      destruct (muxw_crash W s n0 w0 X Hd Ew Hph) as (A & B).
      split; [unfold stealcost; rewrite sumf_nil; lia|exact B].
    + destruct (main_step (c_oracle c n0) w0) as [[w' evs]|] eqn:Es; [|discriminate]. inv H.
      pose proof (worker_ltx c s n0 w0 X Ew) as HnG.
      pose proof (main_step_potw (cW c W) n0 w0 w' evs (wx2_x P s ws n0 w0 (NIs n0 w0 Ew) Hd) Es) as Z.
      apply SAME_D; [reflexivity|]. apply (muxw_node_step W _ _ n0); auto.
      * intros n Hn. apply nodepotxw_push_other. exact Hn.
      * rewrite nodepotxw_push by exact Hd. unfold nodepotxw. rewrite Hd, Ew. lia.
  - (* LRecv *)
    destruct (aget n0 (y_up s)) as [[|m rest]|] eqn:Eup; try discriminate.
    cbn [y_d] in H.
    destruct (process_from_remote n0 m (y_d s)) as [[d' outs] r] eqn:Ep.
    pose proof (alist_get_some [] _ _ _ Eup) as Eup'.
    assert (HnG : n0 < d_next_gw (y_d s)).
    { destruct (Nat.lt_ge_cases n0 (d_next_gw (y_d s))) as [Hl|Hl]; [exact Hl|].
      destruct (Hi n0 Hl) as (_ & F & _). rewrite Eup' in F. discriminate. }
    destruct (aget n0 (ws_nt ws)) as [f|] eqn:Ef; [|exfalso; apply (proj2 (xj_ntk _ _ _ _ J n0) HnG); exact Ef].
    pose proof (Eu n0) as En. rewrite Eup' in En. inversion En as [|m1 r1 Gm Gr]; subst.
    destruct (pfr_effx X0 _ _ _ _ _ _ _ _ _ Els Ef Gm HnG Ep) as (-> & evs & -> & Hd' & _).
    pose proof (pfr_costxw (cW c W) X0 _ _ _ _ _ _ Gm Ep) as Hlen.
    cbn [apply_outs] in H. inv H.
    match goal with |- context [close_if_dead ?S2 n0] => set (s2 := S2) end.
    assert (E2 : exists ws2, d_sched d' = StW ws2 /\ ctlpotxw W d' = ctlpotxw W (y_d s) /\ FRW (y_d s) d').
    { destruct Hd' as [->|(-> & _ & _)].
      - exists ws. split; [exact Els|]. split; [reflexivity|apply FRW_refl].
      - exists (upd_flagw ws n0 (down_flag' f)). split; [apply d_set_nt_schedw; exact Els|].
        split; [apply (ctlpotxw_set_nt W _ ws n0 f); auto|apply FRW_set_nt]. }
    destruct E2 as (ws2 & Els2 & CT & FRd).
    destruct (muxw_close W s2 n0 ws2 Els2) as (M1 & M2).
    rewrite M1. split; [|exact (FRW_trans _ _ _ FRd M2)].
    pose proof FRd as (EG & _).
    unfold stealcost. rewrite sumf_nil.
    unfold muxw. cbn [s2 set_evq set_d y_d y_evq]. rewrite CT, EG, app_length, sumf_app.
    set (G := d_next_gw (y_d s)) in *.
    pose proof (sumf_change_one (nodepotxw W s) (nodepotxw W s2) (seq 0 G) n0 (seq_NoDup G 0)) as Z.
    assert (Hin : In n0 (seq 0 G)) by (apply in_seq; lia).
    assert (Hoth : forall n, In n (seq 0 G) -> n <> n0 -> nodepotxw W s2 n = nodepotxw W s n).
    { intros n _ Hn. unfold nodepotxw, s2. cbn [set_evq set_d y_up y_down y_w y_dead].
      rewrite FifoProofs.alist_get_aset_neq by exact Hn. reflexivity. }
    specialize (Z Hin Hoth).
    assert (Hn0 : nodepotxw W s2 n0 + 2 + upx (cW c W) m = nodepotxw W s n0).
    { unfold nodepotxw, s2. cbn [set_evq set_d y_up y_down y_w y_dead].
      rewrite FifoProofs.alist_get_aset_eq, Eup'. cbn [length]. rewrite sumf_cons. lia. }
    lia.
  - (* LCtl *)
    specialize (Ea eq_refl).
    destruct (d_active (y_d s)) as [|a0 ar] eqn:Eact; [contradiction|].
    destruct (y_evq s) as [|ev q] eqn:Eevq; [discriminate|].
    destruct (d_loop_once ev (y_d s)) as [[d' outs] r] eqn:El.
    destruct (step_ctl_corex c Hpos s ev q d' outs r X Eres Eevq El) as (-> & _ & _).
    assert (Hne : forall n, ev <> QErrorDown n).
    { intros n F. subst ev. exact (Hnoerr eq_refl n q eq_refl). }
    pose proof (fun rr => muxw_ctl W s ev q d' outs rr X HW Eres Eevq Hne El) as CORE. cbv zeta in CORE.
    destruct (d_session_finished d') eqn:Efin.
    + inv H. apply CORE.
    + destruct (d_active d') as [|b0 br] eqn:Eact'.
      * (* no active node is left: the session ends with "no active workers"; nothing is sent any more *)
        assert (Hact : d_active (y_d s) <> []) by (rewrite Eact; discriminate).
        pose proof (pre_from_invx c Hpos P s ws ev q X DJd NIs Eevq) as Hpre.
        destruct (loop_once_okx N X0 Hpos ev _ ws d' outs _ DJd Hpre El) as (_ & ws' & vo & _ & _ & DJ2 & _ & _).
        destruct DJ2 as ([Els' _ _ _ JB' _] & _ & Hss).
        assert (Hsd : d_shuttingdown d' = false).
        { unfold d_session_finished in Efin. rewrite Eact' in Efin. destruct (d_shuttingdown d'); [discriminate|reflexivity]. }
        assert (Hstop : d_shouldstop d' = false).
        { destruct (d_shouldstop d') eqn:E0; [|reflexivity]. rewrite (Hss eq_refl) in Hsd. discriminate. }
        assert (Hn : s_nodes (d_sched d') = []).
        { rewrite Els'. cbn [s_nodes]. specialize (JB' Hstop). rewrite Eact' in JB'.
          destruct (ws_nodes ws') as [|x l0]; [reflexivity|]. exfalso. exact (JB' x (or_introl eq_refl)). }
        rewrite (trigger_no_nodes d' Hsd Hn) in H. inv H. cbn [apply_outs]. rewrite app_nil_r.
        destruct (CORE None) as (A & B).
        set (s1 := apply_outs (set_d (set_evq s q) d') outs) in *.
        destruct (apply_outs_frame outs (set_d (set_evq s q) d')) as (_ & F2 & _). cbn [set_d y_d] in F2. fold s1 in F2.
        split.
        -- assert (EQ : muxw W (set_result (set_d s1 (d_set_shuttingdown d' true)) (Some (RError ERuntimeNoWorkers))) =
                        muxw W (set_result s1 None)).
           { unfold muxw. cbn [set_result set_d y_d y_evq]. rewrite F2. reflexivity. }
           rewrite EQ. exact A.
        -- cbn [set_result set_d y_d]. cbn [set_result y_d] in B. rewrite F2 in B. exact B.
      * assert (Er1 : y_result (apply_outs (set_d (set_evq s q) d') outs) = None).
        { rewrite apply_outs_result. cbn. exact Eres. }
        rewrite <- (set_result_same' _ None Er1) in H. inv H. apply CORE.
  - (* LCrash *)
    destruct (mem_nat n0 (y_dead s)) eqn:Hd; [discriminate|].
    destruct (aget n0 (y_w s)) as [w0|] eqn:Ew; try discriminate.
    assert (Hph : wph w0 <> PExited) by (intros F; rewrite F in H; discriminate).
    assert (E : (s', o, w) = (crash_worker c s n0, [], [])) by (destruct (wph w0); try discriminate; inv H; reflexivity).
    inv E. destruct (muxw_crash W s n0 w0 X Hd Ew Hph) as (A & B).
    split; [unfold stealcost; rewrite sumf_nil; lia|exact B].
Qed.

Theorem step_muxw W s l s' o w :
  XW c s -> d_next_gw (y_d s) <= W ->
  (Progress.useful s l = true \/ exists n, l = LCrash n) ->
  (l = LCtl -> forall n q, y_evq s <> QErrorDown n :: q) ->        (* not the iteration that handles an errordown *)
  sys_step c s l = Some (s', o, w) ->
  muxw W s' + 1 <= muxw W s + stealcost (cW c W) o /\
  d_next_gw (y_d s') = d_next_gw (y_d s) /\ d_failed_nodes (y_d s') = d_failed_nodes (y_d s) /\
  d_max_restart (y_d s') = d_max_restart (y_d s) /\ length (d_active (y_d s')) <= length (d_active (y_d s)).
Proof. exact (step_muxw_frw W s l s' o w). Qed.

End MuXW.

(* ====================================================================================== *)
(* Non-vacuity: the measure along evaluated runs with crashes                               *)
(* ====================================================================================== *)
(* along a schedule: (number of steps at which the inequality of step_muxw holds, number of controller
   iterations that handle an errordown -- excluded by the theorem --, number of other steps at which it fails) *)
Definition errd_head (s : sys) (l : label) : bool :=
  match l, y_evq s with LCtl, QErrorDown _ :: _ => true | _, _ => false end.
Fixpoint muxw_check (c : config) (W : nat) (s : sys) (ls : list label) : nat * nat * nat :=
  match ls with
  | [] => (0, 0, 0)
  | l :: r =>
      match sys_step c s l with
      | Some (s', o, _) =>
          let '(a, b, d) := muxw_check c W s' r in
          if errd_head s l then (a, S b, d)
          else if muxw c W s' + 1 <=? muxw c W s + stealcost (cW c W) o then (S a, b, d) else (a, b, S d)
      | None => (0, 0, 0)
      end
  end.

(* the session of CrashProgressSteal.cps_ex_greedy_three_crashes (3 workers, 12 tests, three workers killed,
   three replacements): 226 steps (223 moves and the 3 kills), the measure at W = 8 goes down -- but for the
   price of the requests -- at each of them except the three errordown iterations *)
Example ctsc_ex_three_crashes :
  let c := c01w_cfg in
  let ls := CrashProgress.crp_greedy c (sys_init c) 4000 0 [(60, 1); (90, 0); (130, 3)] in
  muxw_check c 8 (sys_init c) ls = (length ls - 3, 3, 0) /\ y_result (sys_run c ls) = Some RFinished.
Proof. vm_compute. split; reflexivity. Qed.

(* the session that ends with RuntimeError("no active workers") (the d_no_active branch of the controller step) *)
Example ctsc_ex_no_active :
  let c := xs_cfg_diff in
  let ls := CrashProgress.crp_greedy c (sys_init c) 4000 0 [] in
  muxw_check c 6 (sys_init c) ls = (length ls - 1, 1, 0) /\ y_result (sys_run c ls) = Some (RError ERuntimeNoWorkers).
Proof. vm_compute. split; reflexivity. Qed.

Check muxw_crash.
Check muxw_close.
Check muxw_ctl.
Check step_muxw.
Print Assumptions step_muxw.

(* ###################################### part D ###################################### *)
(* the round trip of the outstanding withdrawal request, with crashes (TerminationSteal2, parts 5b and 6) *)

Lemma cleanL_weaken ws v (opn opn' : Prop) inc rep L :
  (opn' -> opn) -> cleanL ws v opn inc rep L -> cleanL ws v opn' inc rep L.
Proof. intros H [A B C]. constructor; [intros Ho; exact (A (H Ho))|intros Ho; exact (B (H Ho))|exact C]. Qed.

Lemma cleanL_nouns ws v (opn : Prop) inc rep L : ~ opn -> nuns L = 0 -> cleanL ws v opn inc rep L.
Proof.
  intros Hn Hu. constructor; [intros F; contradiction|intros F; contradiction|].
  intros A r B E. pose proof (nuns_mid A r B) as X. rewrite <- E in X. lia.
Qed.

Lemma nuns_hup dn l : nuns (hup dn l) <= nuns (flat_map up_xsig l).
Proof. unfold hup. destruct dn; [unfold nuns at 1; cbn; lia|apply nuns_cutfin]. Qed.

Lemma nuns_hsigs_le ws s n : nuns (hsigs ws s n) <= nuns (xsigs s n).
Proof. unfold hsigs, xsigs. rewrite !nuns_app. pose proof (nuns_hup (ndown ws n) (alist_get [] n (y_up s))). lia. Qed.

(* the steal requests among the outputs, counted node by node *)
Lemma reqs_sumx G o :
  (forall k, G <= k -> cmds_to k o = []) ->
  length (steal_reqs o) = sumf (fun m => nstc (cmds_to m o)) (seq 0 G).
Proof.
  induction o as [|x o IH]; intros Hk.
  - cbn. rewrite sumf_zero. reflexivity.
  - assert (Hk' : forall k, G <= k -> cmds_to k o = []).
    { intros k Hn. specialize (Hk k Hn). cbn [cmds_to flat_map] in Hk. apply app_eq_nil in Hk. tauto. }
    specialize (IH Hk').
    assert (E : forall m, nstc (cmds_to m (x :: o)) = nstc (cmd_to m x) + nstc (cmds_to m o)).
    { intros m. cbn [cmds_to flat_map]. apply nstc_app. }
    rewrite (sumf_ext_in _ _ _ (fun m _ => E m)), sumf_add, <- IH. unfold steal_reqs. cbn [flat_map]. rewrite app_length.
    fold (steal_reqs o). f_equal.
    destruct x as [h|m cm| |]; try (cbn; rewrite sumf_zero; reflexivity).
    assert (E2 : forall k, nstc (cmd_to k (OSend m cm)) = if Nat.eqb m k then nstc [cm] else 0).
    { intros k. cbn [cmd_to]. destruct (Nat.eqb m k); reflexivity. }
    rewrite (sumf_ext_in _ _ _ (fun k _ => E2 k)).
    destruct (Nat.lt_ge_cases m G) as [Hin|Hni].
    + rewrite (sumf_ind_eq m _ _ (seq_NoDup G 0)); [destruct cm; reflexivity|apply in_seq; lia].
    + exfalso. specialize (Hk m Hni). cbn [cmds_to flat_map cmd_to] in Hk. rewrite Nat.eqb_refl in Hk. discriminate.
Qed.

(* the ghost bit along a schedule: 1 after the iteration that handles an errordown and after the completion of a
   test of the victim of the outstanding request, 0 once its reply has been handled (TerminationSteal2.hnext) *)
Definition ghost_next (s : sys) (l : label) (h : nat) : nat :=
  match l with
  | LCtl => match y_evq s with
            | QErrorDown _ :: _ => 1
            | ev :: _ => hnext ev (steal_of s) h
            | [] => h
            end
  | _ => h
  end.

Lemma ghost_next_le1 s l h : h <= 1 -> ghost_next s l h <= 1.
Proof.
  intros H. destruct l; cbn [ghost_next]; try exact H. destruct (y_evq s) as [|ev q]; [exact H|].
  destruct ev; cbn [hnext]; try exact H; try lia.
  destruct (steal_of s) as [v|]; [destruct (Nat.eqb v n)|]; lia.
Qed.

Section StepPsiX.
Variable c : config.
Notation N := (c_numnodes c).
Notation X0 := (c_coll c).
Notation OR := (c_oracle c).
Hypothesis Hmode : c_mode c = MSteal.
Hypothesis Hng : no_garbled c.
Hypothesis Hpos : 0 < N.
Hypothesis Hrq : rq_ok c.

(* what worker v sends is heard: it is alive and its main thread has not exited *)
Definition opnx (s : sys) (v : nat) (w : wst) : Prop := mem_nat v (y_dead s) = false /\ wph w <> PExited.

Definition cleanSx (s : sys) (ws : wsstate) : Prop :=
  forall v w, ws_steal ws = Some v -> aget v (y_w s) = Some w ->
  cleanL ws v (opnx s v w) (incoming s v w) (wreply w) (hsigs ws s v).

(* h = 0: while a request is outstanding the pool is empty, and its round trip is clean *)
Definition TIx (s : sys) (h : nat) : Prop :=
  exists ws, d_sched (y_d s) = StW ws /\ (h = 0 -> J2 ws /\ cleanSx s ws).

(* an alive worker whose own session has stopped and whose main thread has not yet said "finished" *)
Definition SHx (s : sys) : Prop :=
  forall ws n w, d_sched (y_d s) = StW ws -> aget n (y_w s) = Some w -> mem_nat n (y_dead s) = false ->
  wph w = PFinishing true ->
  exists p, NIW ws (d_active (y_d s)) n (xsigs s n) (alist_get [] n (y_down s)) (upd_ph w p).

Definition psix (W G : nat) (ws : wsstate) (h : nat) : nat :=
  2 * (3 * Ux c W ws + Fx c W G ws + 3 * h) + match ws_steal ws with None => 1 | Some _ => 0 end.
Definition Psix (s : sys) (h : nat) : nat :=
  match d_sched (y_d s) with StW ws => psix (Wd (y_d s)) (d_next_gw (y_d s)) ws h | _ => 0 end.

Lemma TIx_one s ws : d_sched (y_d s) = StW ws -> TIx s 1.
Proof. intros E. exists ws. split; [exact E|discriminate]. Qed.

(* ---- facts about alive nodes ---- *)
Lemma alive_open P s ws n w :
  NodeInvW OR P s ws n w -> mem_nat n (y_dead s) = false -> wph w <> PExited ->
  ndown ws n = false /\ hasfin (flat_map up_xsig (alist_get [] n (y_up s))) = false.
Proof.
  intros (_ & _ & _ & D) Hd Hne. rewrite Hd in D.
  assert (Hk : prank (wph w) <= 3).
  { destruct (Nat.le_gt_cases (prank (wph w)) 3) as [X|X]; [exact X|]. exfalso. apply Hne. apply prank_4. lia. }
  destruct (P n).
  - destruct D as [D1 D2 D3 D4 D5 D6 D7].
    exact (open_hsigs ws s n _ w (sw_chan _ _ _ _ _ _ _ D1) eq_refl Hk D6 Hne).
  - destruct D as [D1 D2 D3 D4 D5 D6].
    assert (Hdn : ndown ws n = false).
    { unfold ndown. destruct (aget n (ws_nt ws)) as [f|] eqn:Ef; [|reflexivity]. destruct (n_down f) eqn:Ed; [|reflexivity].
      exfalso. destruct (D6 f eq_refl Ed) as (_ & Pe). contradiction. }
    split; [exact Hdn|]. apply nofin_hasfin. intros b Hb.
    refine (xchan_nofin _ _ (nw_chan _ _ _ _ _ _ D1) Hk b _). unfold xsigs. apply in_or_app. right. exact Hb.
Qed.

Lemma alive_niw P s ws n w :
  SHx s -> d_sched (y_d s) = StW ws ->
  NodeInvW OR P s ws n w -> aget n (y_w s) = Some w -> mem_nat n (y_dead s) = false -> wph w <> PExited ->
  exists p, NIW ws (d_active (y_d s)) n (xsigs s n) (alist_get [] n (y_down s)) (upd_ph w p).
Proof.
  intros HS Els (_ & _ & _ & D) Ew Hd Hne. rewrite Hd in D. destruct (P n).
  - destruct D as [D1 _ _ _ _ _ _]. destruct (sw_ph _ _ _ _ _ _ _ D1) as [Hp|Hp]; [|contradiction].
    exact (HS ws n w Els Ew Hd Hp).
  - destruct D as [D1 _ _ _ _ _]. exists (wph w). rewrite upd_ph_id. exact D1.
Qed.

Lemma alive_wx2 P s ws n w : NodeInvW OR P s ws n w -> mem_nat n (y_dead s) = false -> WX2 w.
Proof.
  intros (_ & _ & _ & D) Hd. rewrite Hd in D. destruct (P n).
  - destruct D as [D1 _ _ _ _ _ _]. unfold WX2. destruct (sw_ph _ _ _ _ _ _ _ D1) as [Z|Z]; rewrite Z; exact I.
  - destruct D as [D1 _ _ _ _ _]. exact (nw_wx _ _ _ _ _ _ D1).
Qed.


(* ---- SHx is an invariant ---- *)
Lemma SHx_frame s s' ws ws' :
  d_sched (y_d s) = StW ws -> d_sched (y_d s') = StW ws' ->
  ws_n2p ws' = ws_n2p ws -> ws_n2c ws' = ws_n2c ws -> ws_steal ws' = ws_steal ws ->
  (forall n f, aget n (ws_nt ws) = Some f -> exists f', aget n (ws_nt ws') = Some f' /\ n_sdsent f' = n_sdsent f) ->
  d_active (y_d s') = d_active (y_d s) ->
  (forall n w, aget n (y_w s') = Some w -> mem_nat n (y_dead s') = false -> wph w = PFinishing true ->
     aget n (y_w s) = Some w /\ mem_nat n (y_dead s) = false /\ xsigs s' n = xsigs s n /\
     alist_get [] n (y_down s') = alist_get [] n (y_down s)) ->
  SHx s -> SHx s'.
Proof.
  intros Els Els' E1 E2 E3 FL Ea Hn HS ws1 n w Els1 Hw Hd Hp.
  assert (ws1 = ws') by congruence. subst ws1.
  destruct (Hn n w Hw Hd Hp) as (A & B & C & D).
  destruct (HS ws n w Els A B Hp) as (p & X). exists p. rewrite C, D, Ea.
  apply (NIW_flags_ext ws ws'); auto.
Qed.

Lemma mem_nat_consx a n l : mem_nat a (n :: l) = Nat.eqb a n || mem_nat a l.
Proof. reflexivity. Qed.

Lemma SHx_crash s n0 w0 :
  XW c s -> SHx s -> mem_nat n0 (y_dead s) = false -> aget n0 (y_w s) = Some w0 -> SHx (crash_worker c s n0).
Proof.
  intros X HS Hd Ew. pose proof X as [Lo Hi (ws & P & DJd & NIs & Pout) Eq Eu Ea Er Edead].
  pose proof (worker_ltx c s n0 w0 X Ew) as HnG.
  pose proof DJd as ([Els J _ _ _ _] & _).
  destruct (aget n0 (ws_nt ws)) as [f0|] eqn:Ef0; [|exfalso; apply (proj2 (xj_ntk _ _ _ _ J n0) HnG); exact Ef0].
  set (s' := crash_worker c s n0).
  assert (DX : exists ws', d_sched (y_d s') = StW ws' /\ ws_n2p ws' = ws_n2p ws /\ ws_n2c ws' = ws_n2c ws /\
             ws_steal ws' = ws_steal ws /\
             (forall n f, aget n (ws_nt ws) = Some f -> exists f', aget n (ws_nt ws') = Some f' /\ n_sdsent f' = n_sdsent f) /\
             d_active (y_d s') = d_active (y_d s)).
  { unfold s', crash_worker. cbn [y_d]. destruct (c_strict c).
    - assert (Ent : d_nt (y_d s) = ws_nt ws) by (unfold d_nt; rewrite Els; reflexivity).
      rewrite Ent, Ef0. exists (upd_flagw ws n0 (closed_flag f0)).
      split. { rewrite <- Ent. apply d_set_nt_schedw. exact Els. }
      split; [reflexivity|]. split; [reflexivity|]. split; [reflexivity|]. split; [|reflexivity].
      intros n f Ef. rewrite aget_upd_flagw. destruct (Nat.eqb n n0) eqn:E.
      + apply Nat.eqb_eq in E. subst n. assert (f = f0) by congruence. subst f. eexists. split; reflexivity.
      + exists f. auto.
    - exists ws. split; [exact Els|]. repeat (split; [reflexivity|]). split; [|reflexivity]. intros n f Ef. exists f. auto. }
  destruct DX as (ws' & Els' & E1 & E2 & E3 & FL & Eact).
  apply (SHx_frame s s' ws ws' Els Els' E1 E2 E3 FL Eact); [|exact HS].
  intros n w Hw Hdn Hp. unfold s', crash_worker in Hw, Hdn |- *. cbn [y_w y_dead y_up y_down y_evq] in *.
  rewrite mem_nat_consx in Hdn. apply orb_false_iff in Hdn. destruct Hdn as (Hne & Hdn). apply Nat.eqb_neq in Hne.
  split; [exact Hw|]. split; [exact Hdn|]. unfold xsigs. cbn [y_evq y_up].
  rewrite !FifoProofs.alist_get_aset_neq by exact Hne. split; reflexivity.
Qed.

Lemma SHx_close s n : XW c s -> SHx s -> SHx (close_if_dead s n).
Proof.
  intros X HS. pose proof X as [Lo Hi (ws & P & DJd & NIs & Pout) Eq Eu Ea Er Edead].
  pose proof DJd as ([Els J _ _ _ _] & _).
  unfold close_if_dead. destruct (mem_nat n (y_dead s)) eqn:Hd; [|exact HS].
  destruct (aget n (d_nt (y_d s))) as [f|] eqn:Ef; [|exact HS].
  destruct (n_down f) eqn:Edn; [|exact HS].
  assert (Ent : d_nt (y_d s) = ws_nt ws) by (unfold d_nt; rewrite Els; reflexivity).
  set (fc := {| n_spec := n_spec f; n_down := true; n_sdsent := n_sdsent f; n_closed := true |}).
  apply (SHx_frame s _ ws (upd_flagw ws n fc) Els); try reflexivity; [| | |exact HS].
  - cbn [set_d y_d]. apply d_set_nt_schedw. exact Els.
  - intros k g Eg. rewrite aget_upd_flagw. destruct (Nat.eqb k n) eqn:E.
    + apply Nat.eqb_eq in E. subst k. rewrite Ent in Ef. assert (g = f) by congruence. subst g. eexists. split; reflexivity.
    + exists g. auto.
  - intros k w Hw Hdk _. cbn [set_d y_w y_dead y_up y_down y_evq] in *. auto.
Qed.

(* ---- what one controller iteration does to the rest of the system (as in CrashStealTheorems.step_ctl_corex) ---- *)
Lemma ctl_frames s ev q d' outs ws ws' vo :
  XW c s -> y_evq s = ev :: q -> d_loop_once ev (y_d s) = (d', outs, Ok tt) ->
  DJX N X0 (y_d s) ws -> HEFFX N X0 ev (y_d s) ws d' ws' vo -> outs = vfilter (ws_nt ws) vo ->
  let G := d_next_gw (y_d s) in
  let s1 := apply_outs (set_d (set_evq s q) d') outs in
  y_evq s1 = q /\ y_d s1 = d' /\ y_dead s1 = y_dead s /\
  (forall k, alist_get [] k (y_up s1) = alist_get [] k (y_up s)) /\
  (forall k, alist_get [] k (y_down s1) =
             if mem_nat k (y_dead s) then alist_get [] k (y_down s) else alist_get [] k (y_down s) ++ cmds_to k outs) /\
  (forall k, k < G -> aget k (y_w s1) = aget k (y_w s)) /\
  (forall k w, aget k (y_w s1) = Some w -> k < G \/ w = w_init) /\
  (forall k, G <= k -> cmds_to k outs = []) /\
  (forall k, k < G -> ndown ws' k = ndown ws k) /\
  G <= d_next_gw d'.
Proof.
  intros X Eevq El DJd E Eo. cbv zeta. pose proof X as [Lo Hi _ Eq Eu Ea Er Edead].
  pose proof (loop_once_step _ _ _ _ _ El) as (_ & _ & _ & SP).
  set (G := d_next_gw (y_d s)) in *.
  assert (SPW : (d_next_gw d' = G /\ forall id sp, ~ In (OHook (HSpawn id sp)) outs) \/
                (d_next_gw d' = S G /\ (exists sp, In (OHook (HSpawn G sp)) outs) /\
                 forall id sp, In (OHook (HSpawn id sp)) outs -> id = G)).
  { destruct SP as [(C0 & G0)|(C1 & G1 & _ & _ & sp & SPx)].
    - left. split; [exact G0|]. intros id sp Hin. pose proof (count_zero_notin _ _ _ C0 Hin) as F. discriminate.
    - right. split; [exact G1|]. split.
      + destruct (count_pos_in _ _ C1) as (x & Hx & Fx). exists sp. rewrite <- (SPx x Hx Fx). exact Hx.
      + intros id sp' Hin. specialize (SPx _ Hin eq_refl). inv SPx. reflexivity. }
  assert (GW : G <= d_next_gw d') by (destruct SPW as [(A & _)|(A & _)]; lia).
  assert (SPID : forall id sp, In (OHook (HSpawn id sp)) outs -> id = G /\ d_next_gw d' = S G).
  { intros id sp Hin. destruct SPW as [(_ & F)|(A & _ & B)]; [exfalso; exact (F _ _ Hin)|]. split; [eapply B; eauto|exact A]. }
  assert (OUTG : forall m, G <= m -> cmds_to m outs = []).
  { intros m Hm. rewrite Eo, cmds_to_vfilter, (CrashSteal.hx_out _ _ _ _ _ _ _ _ E m Hm). destruct (closedb (ws_nt ws) m); reflexivity. }
  set (sA := set_d (set_evq s q) d').
  destruct (apply_outs_frame outs sA) as (F1 & F2 & F3). cbn [sA set_d set_evq y_evq y_d y_dead] in F1, F2, F3.
  split; [exact F1|]. split; [exact F2|]. split; [exact F3|].
  split.
  { intros k. rewrite apply_outs_up; [reflexivity|]. intros id sp Hin. destruct (SPID _ _ Hin) as (-> & _).
    cbn [sA set_d set_evq y_up]. apply (Hi G). lia. }
  split.
  { intros k. rewrite apply_outs_down; [reflexivity|]. intros id sp Hin. destruct (SPID _ _ Hin) as (-> & _).
    split; [apply OUTG; lia|]. cbn [sA set_d set_evq y_down]. apply (Hi G). lia. }
  split.
  { intros k Hk. rewrite apply_outs_w_none; [reflexivity|]. intros sp Hin. destruct (SPID _ _ Hin) as (-> & _). lia. }
  split.
  { intros k w Hw. destruct (Nat.lt_ge_cases k G) as [Hlt|Hge]; [left; exact Hlt|right].
    destruct SPW as [(A & Fno)|(A & (sp & Hin) & _)].
    { exfalso. rewrite apply_outs_w_none in Hw by (intros sp Hin; exact (Fno _ _ Hin)).
      destruct (Hi k Hge) as (F & _). cbn [sA set_d set_evq y_w] in Hw. congruence. }
    destruct (Nat.eq_dec k G) as [->|Hne].
    2:{ exfalso. rewrite apply_outs_w_none in Hw.
        - destruct (Hi k Hge) as (F & _). cbn [sA set_d set_evq y_w] in Hw. congruence.
        - intros sp' Hin'. destruct (SPID _ _ Hin') as (-> & _). contradiction. }
    rewrite (apply_outs_spawned outs sA G) in Hw by (right; eauto). injection Hw as <-. reflexivity. }
  split; [exact OUTG|]. split; [|exact GW].
  intros k Hk. pose proof (CrashSteal.hx_nt _ _ _ _ _ _ _ _ E k Hk) as R0. unfold ndown.
  destruct (aget k (ws_nt ws)) as [f|], (aget k (ws_nt ws')) as [f'|]; cbn in R0; try contradiction; [|reflexivity].
  destruct (NRW_fields _ _ _ R0) as (_ & B & _). exact B.
Qed.

Lemma up_xsigs_of_wevx n evs : flat_map up_xsig (map (up_of_wevent c n) evs) = flat_map we_xsig evs.
Proof. apply up_xsigs_of_wevents. Qed.

Theorem step_shx s l s' o wv :
  XW c s -> SHx s -> sys_step c s l = Some (s', o, wv) -> y_result s' = None -> SHx s'.
Proof.
  intros X HS H Hres'. pose proof X as [Lo Hi (ws & P & DJd & NIs & Pout) Eq Eu Ea Er Edead].
  pose proof DJd as ([Els J AL RQ JB K2] & K).
  unfold sys_step in H. destruct (y_result s) eqn:Eres; [discriminate|].
  destruct l as [n0|n0|n0|n0| |n0].
  - (* LDeliver *)
    destruct (mem_nat n0 (y_dead s)) eqn:Hd; [discriminate|].
    destruct (aget n0 (y_down s)) as [[|cmd rest]|] eqn:Ed; try discriminate.
    destruct (aget n0 (y_w s)) as [w0|] eqn:Ew; try discriminate.
    inv H. intros ws1 n w Els1 Hw Hdn Hp. cbn [y_d y_w y_dead] in Els1, Hw, Hdn. assert (ws1 = ws) by congruence. subst ws1.
    unfold xsigs. cbn [y_d y_down y_evq y_up]. fold (xsigs s n).
    destruct (Nat.eq_dec n n0) as [->|Hn].
    + rewrite FifoProofs.aget_aset_eq in Hw. inv Hw. rewrite FifoProofs.alist_get_aset_eq.
      destruct (HS ws n0 w0 Els Ew Hd Hp) as (p & Y). rewrite (alist_get_some [] _ _ _ Ed) in Y.
      exists p. exact (NIW_deliver _ _ _ _ _ _ _ Y).
    + rewrite FifoProofs.aget_aset_neq in Hw by exact Hn. rewrite FifoProofs.alist_get_aset_neq by exact Hn.
      exact (HS ws n w Els Hw Hdn Hp).
  - (* LRecvW *)
    destruct (mem_nat n0 (y_dead s)) eqn:Hd; [discriminate|].
    destruct (aget n0 (y_w s)) as [w0|] eqn:Ew; try discriminate.
    destruct (negb (wcb w0)); [discriminate|].
    destruct (recv_step (c_oracle c n0) w0) as [w' evs] eqn:Es. inv H.
    destruct (NIs n0 w0 Ew) as (Iw0 & Gw & _).
    intros ws1 n w Els1 Hw Hdn Hp. cbn [push_up set_w y_d y_w y_dead] in Els1, Hw, Hdn. assert (ws1 = ws) by congruence. subst ws1.
    unfold xsigs. cbn [push_up set_w y_d y_down y_evq y_up].
    destruct (Nat.eq_dec n n0) as [->|Hn].
    + rewrite FifoProofs.aget_aset_eq in Hw. inv Hw. rewrite FifoProofs.alist_get_aset_eq.
      rewrite flat_map_app, up_xsigs_of_wevx, app_assoc. fold (xsigs s n0).
      pose proof (recv_step_keeps (c_oracle c n0) w0) as (_ & _ & Eph). rewrite Es in Eph. cbn [fst] in Eph.
      rewrite Eph in Hp. destruct (HS ws n0 w0 Els Ew Hd Hp) as (p & Y).
      destruct (NIW_recv (c_oracle c n0) _ _ _ _ _ (upd_ph w0 p) Gw Y) as (Y' & _).
      rewrite recv_step_upd_ph, Es in Y'. cbn [fst snd] in Y'. exists p. exact Y'.
    + rewrite FifoProofs.aget_aset_neq in Hw by exact Hn. rewrite FifoProofs.alist_get_aset_neq by exact Hn.
      exact (HS ws n w Els Hw Hdn Hp).
  - (* LMain *)
    destruct (mem_nat n0 (y_dead s)) eqn:Hd; [discriminate|].
    destruct (aget n0 (y_w s)) as [w0|] eqn:Ew; try discriminate.
    destruct (dies_now c n0 w0) eqn:Edie.
    { inv H. apply (SHx_crash s n0 w0 X HS Hd Ew). }
    destruct (main_step (c_oracle c n0) w0) as [[w' evs]|] eqn:Es; [|discriminate]. inv H.
    destruct (NIs n0 w0 Ew) as (Iw0 & Gw & _ & D0). rewrite Hd in D0.
    intros ws1 n w Els1 Hw Hdn Hp. cbn [push_up set_w y_d y_w y_dead] in Els1, Hw, Hdn. assert (ws1 = ws) by congruence. subst ws1.
    unfold xsigs. cbn [push_up set_w y_d y_down y_evq y_up].
    destruct (Nat.eq_dec n n0) as [->|Hn].
    + rewrite FifoProofs.aget_aset_eq in Hw. inv Hw. rewrite FifoProofs.alist_get_aset_eq.
      rewrite flat_map_app, up_xsigs_of_wevx, app_assoc. fold (xsigs s n0).
      destruct (main_step_stop_shadow _ _ _ _ Es Hp) as (p & Hpn & Es').
      destruct (main_step_enter_stop _ _ _ _ Es Hp) as (cur & nxt & Ep0 & _).
      destruct (P n0).
      { destruct D0 as [D1 _ _ _ _ _ _]. destruct (sw_ph _ _ _ _ _ _ _ D1) as [Y|Y]; rewrite Ep0 in Y; discriminate. }
      destruct D0 as [D1 _ _ _ _ _].
      destruct (NIW_main (nostop (c_oracle c n0)) _ _ _ _ _ w0 (upd_ph w p) evs Hpn Iw0 D1 Es') as (Y & _).
      exists p. exact Y.
    + rewrite FifoProofs.aget_aset_neq in Hw by exact Hn. rewrite FifoProofs.alist_get_aset_neq by exact Hn.
      exact (HS ws n w Els Hw Hdn Hp).
  - (* LRecv *)
    destruct (aget n0 (y_up s)) as [[|m rest]|] eqn:Eup; try discriminate.
    cbn [y_d] in H.
    destruct (process_from_remote n0 m (y_d s)) as [[d' outs] r] eqn:Ep.
    destruct (step_recvx c Hpos s n0 m rest d' outs r X Eup Ep) as (-> & evs & -> & X').
    cbn [apply_outs] in H. inv H. rewrite <- Eres. apply SHx_close; [exact X'|].
    pose proof (alist_get_some [] _ _ _ Eup) as Eup'.
    assert (HnG : n0 < d_next_gw (y_d s)).
    { destruct (Nat.lt_ge_cases n0 (d_next_gw (y_d s))) as [H|H]; [exact H|].
      destruct (Hi n0 H) as (_ & F & _). rewrite Eup' in F. discriminate. }
    destruct (aget n0 (ws_nt ws)) as [f|] eqn:Ef; [|exfalso; apply (proj2 (xj_ntk _ _ _ _ J n0) HnG); exact Ef].
    pose proof (Eu n0) as En. rewrite Eup' in En. inversion En as [|m1 r1 Gm Gr]; subst.
    destruct (pfr_effx X0 _ _ _ _ _ _ _ _ _ Els Ef Gm HnG Ep) as (_ & evs' & Eevs & Hd' & Hdrop & Hsig & Hok & Hend & Hnoend).
    assert (evs' = evs) by congruence. subst evs'. clear Eevs.
    assert (Ent : d_nt (y_d s) = ws_nt ws) by (unfold d_nt; rewrite Els; reflexivity).
    assert (DX : exists wsA, d_sched d' = StW wsA /\ ws_n2p wsA = ws_n2p ws /\ ws_n2c wsA = ws_n2c ws /\ ws_steal wsA = ws_steal ws /\
               (forall n g, aget n (ws_nt ws) = Some g -> exists g', aget n (ws_nt wsA) = Some g' /\ n_sdsent g' = n_sdsent g) /\
               d_active d' = d_active (y_d s)).
    { destruct Hd' as [->|(-> & Hf & Hm)].
      - exists ws. split; [exact Els|]. repeat (split; [reflexivity|]). split; [|reflexivity]. intros n g Eg. exists g. auto.
      - exists (upd_flagw ws n0 (down_flag' f)). split; [apply d_set_nt_schedw; exact Els|].
        repeat (split; [reflexivity|]). split; [|reflexivity].
        intros n g Eg. rewrite aget_upd_flagw. destruct (Nat.eqb n n0) eqn:E.
        + apply Nat.eqb_eq in E. subst n. assert (g = f) by congruence. subst g. eexists. split; reflexivity.
        + exists g. auto. }
    destruct DX as (wsA & ElsA & E1 & E2 & E3 & FL & Eact).
    match goal with |- SHx ?S1 => apply (SHx_frame s S1 ws wsA Els ElsA E1 E2 E3 FL Eact); [|exact HS] end.
    intros n w Hw Hdn Hp. cbn [set_evq set_d y_w y_dead y_down] in *. split; [exact Hw|]. split; [exact Hdn|]. split; [|reflexivity].
    unfold xsigs. cbn [set_evq set_d y_evq y_up]. rewrite evq_xsigs_app.
    destruct (Nat.eq_dec n n0) as [->|Hn].
    + rewrite FifoProofs.alist_get_aset_eq, Eup'. cbn [flat_map].
      assert (Hdf : n_down f = false).
      { destruct (n_down f) eqn:Edf; [exfalso|reflexivity].
        destruct (NIs n0 w Hw) as (_ & _ & _ & D0). rewrite Hdn in D0. destruct (P n0).
        - destruct D0 as [_ _ _ _ _ D6 _]. rewrite (D6 f Ef Edf) in Hp. discriminate.
        - destruct D0 as [_ _ _ _ _ D6]. destruct (D6 f Ef Edf) as (_ & Y). rewrite Y in Hp. discriminate. }
      rewrite (Hsig Hdf), Nat.eqb_refl, <- app_assoc. reflexivity.
    + rewrite FifoProofs.alist_get_aset_neq by exact Hn.
      assert (E0 : evq_xsigs n evs = []).
      { destruct (n_down f) eqn:Edn.
        - destruct (Hdrop eq_refl) as (-> & _). reflexivity.
        - rewrite (Hsig eq_refl n). apply Nat.eqb_neq in Hn. rewrite Nat.eqb_sym, Hn. reflexivity. }
      rewrite E0, app_nil_r. reflexivity.
  - (* LCtl *)
    specialize (Ea eq_refl).
    destruct (d_active (y_d s)) as [|a0 ar] eqn:Eact.
    { destruct (d_no_active (y_d s)) as [[d2 o2] r2]. inv H. cbn in Hres'. discriminate. }
    destruct (y_evq s) as [|ev q] eqn:Eevq; [discriminate|].
    destruct (d_loop_once ev (y_d s)) as [[d' outs] r] eqn:El.
    pose proof (pre_from_invx c Hpos P s ws ev q X DJd NIs Eevq) as Hpre.
    destruct (loop_once_okx N X0 Hpos ev _ ws d' outs r DJd Hpre El) as (-> & ws' & vo & Eo & E & DJ2 & _ & _).
    pose proof DJ2 as ([Els2 J2' _ _ _ _] & _).
    destruct (ctl_frames s ev q d' outs ws ws' vo X Eevq El DJd E Eo) as (F1 & F2 & F3 & UP & DOWN & WOLD & WNEW & OUTG & NDW & GW).
    assert (S' : s' = apply_outs (set_d (set_evq s q) d') outs).
    { destruct (d_session_finished d').
      - inv H. cbn in Hres'. destruct (d_shouldstop d'); discriminate.
      - destruct (d_active d') as [|b0 br].
        + destruct (d_no_active d') as [[d2 o2] r2]. inv H. cbn in Hres'. discriminate.
        + inv H. reflexivity. }
    subst s'.
    assert (NDB : forall k, NoDup (bkw ws k)) by (intros k; apply bkw_nodup; apply (xj_nd _ _ _ _ J)).
    assert (NDB' : forall k, NoDup (bkw ws' k)) by (intros k; apply bkw_nodup; apply (xj_nd _ _ _ _ J2')).
    intros ws1 n w Els1 Hw Hdn Hp. rewrite F2 in Els1. assert (ws1 = ws') by congruence. subst ws1.
    rewrite F3 in Hdn.
    destruct (WNEW n w Hw) as [Hlt|Ewi]; [|subst w; discriminate].
    rewrite (WOLD n Hlt) in Hw.
    destruct (HS ws n w Els Hw Hdn Hp) as (p & Y). exists p.
    destruct (NIs n w Hw) as (_ & _ & _ & D). rewrite Hdn in D.
    assert (FACTS : no_errd n (y_evq s) /\ closedb (ws_nt ws) n = false).
    { destruct (P n); [destruct D as [_ _ _ D4 D5 _ _]|destruct D as [_ _ _ D4 D5 _]]; auto. }
    destruct FACTS as (D4 & D5).
    rewrite Eevq in D4. destruct (no_errd_cons_inv _ _ _ D4) as (Hev & Hq).
    assert (HNE : forall j, ev = QErrorDown j -> j <> n) by (apply is_errd_false; exact Hev).
    assert (CM : cmds_to n outs = cmds_to n vo) by (rewrite Eo, cmds_to_vfilter, D5; reflexivity).
    rewrite (xsigs_headx s ev q n Eevq) in Y.
    unfold xsigs. rewrite F1, F2, UP, DOWN, Hdn, CM.
    apply (NIW_ctlx ev ws ws' (d_active (y_d s)) (d_active d') n _ _ _ vo (CrashSteal.hx_nt _ _ _ _ _ _ _ _ E n Hlt)).
    + rewrite (CrashSteal.hx_bk _ _ _ _ _ _ _ _ E n), (bookmidx_eq ev n _ HNE). reflexivity.
    + apply (CrashSteal.hx_steal _ _ _ _ _ _ _ _ E n). intros F. exact (HNE n F eq_refl).
    + exact (CrashSteal.hx_nodes _ _ _ _ _ _ _ _ E n).
    + exact (CrashSteal.hx_n2c _ _ _ _ _ _ _ _ E n).
    + intros Hin. destruct (CrashSteal.hx_act _ _ _ _ _ _ _ _ E n Hin) as [Z|[Z|Z]]; [left; exact Z|right; exact Z|].
      exfalso. exact (HNE n Z eq_refl).
    + apply NDB.
    + apply NDB'.
    + exact Y.
  - (* LCrash *)
    destruct (mem_nat n0 (y_dead s)) eqn:Hd; [discriminate|].
    destruct (aget n0 (y_w s)) as [w0|] eqn:Ew; try discriminate.
    assert (E : s' = crash_worker c s n0) by (destruct (wph w0); try discriminate; inv H; reflexivity).
    subst s'. apply (SHx_crash s n0 w0 X HS Hd Ew).
Qed.

(* ---- TIx and Psix over steps that leave the books alone ---- *)
Lemma cleanL_change ws v (opn opn' : Prop) inc inc' rep L :
  (opn' -> opn /\ inc' = inc) -> cleanL ws v opn inc rep L -> cleanL ws v opn' inc' rep L.
Proof.
  intros H [A B C]. constructor.
  - intros Ho. destruct (H Ho) as (Ho' & ->). exact (A Ho').
  - intros Ho. destruct (H Ho) as (Ho' & _). exact (B Ho').
  - exact C.
Qed.

Lemma TIx_frame s s' ws ws' h :
  d_sched (y_d s) = StW ws -> d_sched (y_d s') = StW ws' ->
  ws_n2p ws' = ws_n2p ws -> ws_pending ws' = ws_pending ws -> ws_steal ws' = ws_steal ws ->
  (forall v w, ws_steal ws = Some v -> aget v (y_w s') = Some w ->
     aget v (y_w s) = Some w /\ hsigs ws' s' v = hsigs ws s v /\
     (opnx s' v w -> opnx s v w /\ incoming s' v w = incoming s v w)) ->
  TIx s h -> TIx s' h.
Proof.
  intros Els Els' E1 E2 E3 Hv (ws0 & E0 & HT). assert (ws0 = ws) by congruence. subst ws0.
  exists ws'. split; [exact Els'|]. intros Hh. destruct (HT Hh) as (Hj & Hcl). split.
  - unfold J2 in *. rewrite E2, E3. exact Hj.
  - intros v w Hst Hw. rewrite E3 in Hst. destruct (Hv v w Hst Hw) as (Hw0 & Eh & Ho).
    rewrite Eh. apply (cleanL_ext ws ws'); [unfold bkw; rewrite E1; reflexivity|].
    eapply cleanL_change; [exact Ho|]. exact (Hcl v w Hst Hw0).
Qed.

Lemma pot_extx W G ws ws' :
  ws_n2p ws' = ws_n2p ws -> ws_pending ws' = ws_pending ws -> ws_coll ws' = ws_coll ws ->
  Ux c W ws' = Ux c W ws /\ Fx c W G ws' = Fx c W G ws.
Proof.
  intros A B C0. unfold Ux, Fx, deepx, bkw, StealProofs.tokens, StealProofs.books. rewrite A, B, C0. auto.
Qed.

Lemma Psix_frame s s' ws ws' h :
  d_sched (y_d s) = StW ws -> d_sched (y_d s') = StW ws' ->
  ws_n2p ws' = ws_n2p ws -> ws_pending ws' = ws_pending ws -> ws_steal ws' = ws_steal ws -> ws_coll ws' = ws_coll ws ->
  Wd (y_d s') = Wd (y_d s) -> d_next_gw (y_d s') = d_next_gw (y_d s) ->
  Psix s' h = Psix s h.
Proof.
  intros Els Els' E1 E2 E3 E4 EW EG. unfold Psix. rewrite Els, Els', EW, EG. unfold psix.
  destruct (pot_extx (Wd (y_d s)) (d_next_gw (y_d s)) ws ws' E1 E2 E4) as (-> & ->). rewrite E3. reflexivity.
Qed.

Lemma hup_end dn l : hup dn (l ++ [UEnd]) = hup dn l.
Proof. unfold hup. destruct dn; [reflexivity|]. rewrite flat_map_app. cbn. rewrite app_nil_r. reflexivity. Qed.

(* a worker dies *)
Lemma TIx_crash s n0 w0 h :
  XW c s -> TIx s h -> mem_nat n0 (y_dead s) = false -> aget n0 (y_w s) = Some w0 ->
  TIx (crash_worker c s n0) h /\ Psix (crash_worker c s n0) h = Psix s h.
Proof.
  intros X HT Hd Ew. pose proof X as [Lo Hi (ws & P & DJd & NIs & Pout) Eq Eu Ea Er Edead].
  pose proof (worker_ltx c s n0 w0 X Ew) as HnG.
  pose proof DJd as ([Els J _ _ _ _] & _).
  destruct (aget n0 (ws_nt ws)) as [f0|] eqn:Ef0; [|exfalso; apply (proj2 (xj_ntk _ _ _ _ J n0) HnG); exact Ef0].
  set (s' := crash_worker c s n0).
  assert (DX : exists ws', d_sched (y_d s') = StW ws' /\ ws_n2p ws' = ws_n2p ws /\ ws_pending ws' = ws_pending ws /\
             ws_steal ws' = ws_steal ws /\ ws_coll ws' = ws_coll ws /\ (forall k, ndown ws' k = ndown ws k) /\
             Wd (y_d s') = Wd (y_d s) /\ d_next_gw (y_d s') = d_next_gw (y_d s)).
  { unfold s', crash_worker. cbn [y_d]. destruct (c_strict c).
    - assert (Ent : d_nt (y_d s) = ws_nt ws) by (unfold d_nt; rewrite Els; reflexivity).
      rewrite Ent, Ef0. exists (upd_flagw ws n0 (closed_flag f0)).
      split. { rewrite <- Ent. apply d_set_nt_schedw. exact Els. }
      repeat (split; [reflexivity|]). split; [|split; reflexivity].
      intros k. unfold ndown. rewrite aget_upd_flagw. destruct (Nat.eqb k n0) eqn:E; [|reflexivity].
      apply Nat.eqb_eq in E. subst k. rewrite Ef0. reflexivity.
    - exists ws. split; [exact Els|]. repeat (split; [reflexivity|]). split; reflexivity. }
  destruct DX as (ws' & Els' & E1 & E2 & E3 & E4 & ND & EW & EG).
  split; [|exact (Psix_frame s s' ws ws' h Els Els' E1 E2 E3 E4 EW EG)].
  apply (TIx_frame s s' ws ws' h Els Els' E1 E2 E3); [|exact HT].
  intros v w Hst Hw. change (y_w s') with (y_w s) in Hw. split; [exact Hw|]. split.
  - unfold hsigs, s', crash_worker. cbn [y_evq y_up]. rewrite ND. destruct (Nat.eq_dec v n0) as [->|Hv].
    + rewrite FifoProofs.alist_get_aset_eq, hup_end. reflexivity.
    + rewrite FifoProofs.alist_get_aset_neq by exact Hv. reflexivity.
  - intros (Ho1 & Ho2). unfold s', crash_worker in Ho1. cbn [y_dead] in Ho1. rewrite mem_nat_consx in Ho1.
    apply orb_false_iff in Ho1. destruct Ho1 as (Hne & Ho1). apply Nat.eqb_neq in Hne.
    split; [split; assumption|]. unfold incoming, s', crash_worker. cbn [y_down].
    rewrite FifoProofs.alist_get_aset_neq by exact Hne. reflexivity.
Qed.

(* the channel of a dead worker is closed *)
Lemma TIx_close s n h :
  XW c s -> TIx s h -> TIx (close_if_dead s n) h /\ Psix (close_if_dead s n) h = Psix s h.
Proof.
  intros X HT. pose proof X as [Lo Hi (ws & P & DJd & NIs & Pout) Eq Eu Ea Er Edead].
  pose proof DJd as ([Els J _ _ _ _] & _).
  unfold close_if_dead. destruct (mem_nat n (y_dead s)) eqn:Hd; [|auto].
  destruct (aget n (d_nt (y_d s))) as [f|] eqn:Ef; [|auto].
  destruct (n_down f) eqn:Edn; [|auto].
  assert (Ent : d_nt (y_d s) = ws_nt ws) by (unfold d_nt; rewrite Els; reflexivity).
  set (fc := {| n_spec := n_spec f; n_down := true; n_sdsent := n_sdsent f; n_closed := true |}).
  assert (Els' : d_sched (y_d (set_d s (d_set_nt (y_d s) (aset n fc (d_nt (y_d s)))))) = StW (upd_flagw ws n fc)).
  { cbn [set_d y_d]. apply d_set_nt_schedw. exact Els. }
  assert (ND : forall k, ndown (upd_flagw ws n fc) k = ndown ws k).
  { intros k. unfold ndown. rewrite aget_upd_flagw. destruct (Nat.eqb k n) eqn:E; [|reflexivity].
    apply Nat.eqb_eq in E. subst k. rewrite Ent in Ef. rewrite Ef. cbn. symmetry. exact Edn. }
  split; [|apply (Psix_frame s _ ws (upd_flagw ws n fc) h Els Els'); reflexivity].
  apply (TIx_frame s _ ws (upd_flagw ws n fc) h Els Els'); try reflexivity; [|exact HT].
  intros v w Hst Hw. cbn [set_d y_w] in Hw. split; [exact Hw|]. split.
  - unfold hsigs. cbn [set_d y_evq y_up]. rewrite ND. reflexivity.
  - intros Ho. split; [exact Ho|reflexivity].
Qed.

Lemma TIx_steady s s' h ws :
  d_sched (y_d s) = StW ws -> d_sched (y_d s') = StW ws ->
  (cleanSx s ws -> cleanSx s' ws) -> TIx s h -> TIx s' h.
Proof.
  intros E E' Hc (ws0 & E0 & HT). assert (ws0 = ws) by congruence. subst ws0.
  exists ws. split; [exact E'|]. intros Hh. destruct (HT Hh) as (A & B). split; [exact A|apply Hc; exact B].
Qed.

Lemma Psix_same_d s s' h : y_d s' = y_d s -> Psix s' h = Psix s h.
Proof. intros E. unfold Psix. rewrite E. reflexivity. Qed.

Lemma TIx_of_xw s : XW c s -> TIx s 1.
Proof.
  intros [_ _ (ws & P & DJd & _) _ _ _ _ _]. destruct DJd as ([Els _ _ _ _ _] & _). exact (TIx_one s ws Els).
Qed.

Theorem step_psix_g s l s' o wv h :
  XW c s -> SHx s -> TIx s h -> sys_step c s l = Some (s', o, wv) -> y_result s' = None ->
  (l = LCtl -> forall n q, y_evq s <> QErrorDown n :: q) ->
  TIx s' (ghost_next s l h) /\ Psix s' (ghost_next s l h) + length (steal_reqs o) <= Psix s h.
Proof.
  intros X HS HT H Hres' Hnerr. pose proof X as [Lo Hi (ws & P & DJd & NIs & Pout) Eq Eu Ea Er Edead].
  pose proof DJd as ([Els J AL RQ JB K2] & K).
  unfold sys_step in H. destruct (y_result s) eqn:Eres; [discriminate|].
  destruct l as [n0|n0|n0|n0| |n0].
  - (* LDeliver *)
    destruct (mem_nat n0 (y_dead s)) eqn:Hd; [discriminate|].
    destruct (aget n0 (y_down s)) as [[|cmd rest]|] eqn:Ed; try discriminate.
    destruct (aget n0 (y_w s)) as [w0|] eqn:Ew; try discriminate.
    inv H. cbn [ghost_next]. split; [|match goal with |- Psix ?S1 h + _ <= _ => rewrite (Psix_same_d s S1 h eq_refl) end; cbn; lia].
    eapply (TIx_steady s); [exact Els|exact Els| |exact HT].
    intros Hcl v w Hv Hw. cbn [y_w] in Hw. specialize (Hcl v).
    unfold incoming, hsigs, opnx in *. cbn [y_down y_evq y_up y_dead].
    destruct (Nat.eq_dec v n0) as [->|Hn].
    + rewrite FifoProofs.aget_aset_eq in Hw. inv Hw. rewrite FifoProofs.alist_get_aset_eq.
      specialize (Hcl w0 Hv Ew). rewrite (alist_get_some [] _ _ _ Ed) in Hcl.
      unfold deliver. cbn [upd_recv winbox wreply wph]. rewrite <- app_assoc. exact Hcl.
    + rewrite FifoProofs.aget_aset_neq in Hw by exact Hn. rewrite FifoProofs.alist_get_aset_neq by exact Hn.
      exact (Hcl w Hv Hw).
  - (* LRecvW *)
    destruct (mem_nat n0 (y_dead s)) eqn:Hd; [discriminate|].
    destruct (aget n0 (y_w s)) as [w0|] eqn:Ew; try discriminate.
    destruct (negb (wcb w0)) eqn:Ecb; [discriminate|]. apply negb_false_iff in Ecb.
    destruct (recv_step (c_oracle c n0) w0) as [w' evs] eqn:Es. inv H.
    pose proof (NIs n0 w0 Ew) as NI0. destruct NI0 as (Iw0 & Gw & NGw & D0).
    pose proof (recv_step_keeps (c_oracle c n0) w0) as (_ & _ & Eph). rewrite Es in Eph. cbn [fst] in Eph.
    destruct (recv_step_inbox (c_oracle c n0) w0 Gw Ecb) as (Eev & _). rewrite Es in Eev. cbn [snd] in Eev.
    cbn [ghost_next]. split; [|match goal with |- Psix ?S1 h + _ <= _ => rewrite (Psix_same_d s S1 h eq_refl) end; cbn; lia].
    eapply (TIx_steady s); [exact Els|exact Els| |exact HT].
    intros Hcl v w Hv Hw. cbn [push_up set_w y_w] in Hw. specialize (Hcl v).
    destruct (Nat.eq_dec v n0) as [->|Hn].
    2:{ rewrite FifoProofs.aget_aset_neq in Hw by exact Hn. rewrite (hsigs_push_other ws s n0 w' _ v Hn).
        unfold incoming, opnx. cbn [push_up set_w y_down y_dead]. exact (Hcl w Hv Hw). }
    rewrite FifoProofs.aget_aset_eq in Hw. injection Hw as Hw. subst w. specialize (Hcl w0 Hv Ew).
    unfold incoming, opnx in *. cbn [push_up set_w y_down y_dead]. rewrite Eph.
    destruct (phase_exit_dec (wph w0)) as [Hex|Hop].
    + (* the main thread has exited: nothing is heard any more *)
      assert (Eh : hsigs ws (push_up (set_w s n0 w') n0 (map (up_of_wevent c n0) evs)) n0 = hsigs ws s n0).
      { rewrite Hd in D0. destruct (P n0) eqn:EP.
        - destruct D0 as [D1 D2 D3 D4 D5 D6 D7]. apply hsigs_push_closed. exact (D7 Hex).
        - destruct D0 as [D1 D2 D3 D4 D5 D6].
          destruct (NIW_recv (c_oracle c n0) _ _ _ _ _ _ Gw D1) as (_ & _ & Hnone). rewrite Es in Hnone. cbn [snd] in Hnone.
          rewrite (Hnone Hex). apply hsigs_push_nil. }
      rewrite Eh. eapply cleanL_notopen; [|exact Hcl]. intros (_ & F0). contradiction.
    + destruct (alive_open P s ws n0 w0 (NIs n0 w0 Ew) Hd Hop) as (Hdn & Hfin).
      destruct (alive_niw P s ws n0 w0 HS Els (NIs n0 w0 Ew) Ew Hd Hop) as (p & Y).
      rewrite (hsigs_open ws s n0 Hdn Hfin) in Hcl.
      rewrite (hsigs_push_open c ws s n0 w' evs Hdn Hfin).
      2:{ right. rewrite Eev. destruct (wreply w0); cbn; lia. }
      rewrite app_assoc. fold (xsigs s n0).
      pose proof (clean_recv (c_oracle c n0) ws _ n0 _ _ (upd_ph w0 p) (mem_nat n0 (y_dead s) = false /\ wph w0 <> PExited)
                    Gw Ecb Y (conj Hd Hop) Hcl) as Z.
      rewrite recv_step_upd_ph, Es in Z. cbn [fst snd upd_ph winbox wreply] in Z. exact Z.
  - (* LMain *)
    destruct (mem_nat n0 (y_dead s)) eqn:Hd; [discriminate|].
    destruct (aget n0 (y_w s)) as [w0|] eqn:Ew; try discriminate.
    destruct (dies_now c n0 w0) eqn:Edie.
    { inv H. destruct (TIx_crash s n0 w0 h X HT Hd Ew) as (A & B). cbn [ghost_next]. split; [exact A|]. rewrite B. cbn. lia. }
    destruct (main_step (c_oracle c n0) w0) as [[w' evs]|] eqn:Es; [|discriminate]. inv H.
    pose proof (main_step_not_exited _ _ _ _ Es) as Hop.
    pose proof (alive_wx2 P s ws n0 w0 (NIs n0 w0 Ew) Hd) as WX0.
    cbn [ghost_next]. split; [|match goal with |- Psix ?S1 h + _ <= _ => rewrite (Psix_same_d s S1 h eq_refl) end; cbn; lia].
    eapply (TIx_steady s); [exact Els|exact Els| |exact HT].
    intros Hcl v w Hv Hw. cbn [push_up set_w y_w] in Hw. specialize (Hcl v).
    destruct (Nat.eq_dec v n0) as [->|Hn].
    2:{ rewrite FifoProofs.aget_aset_neq in Hw by exact Hn. rewrite (hsigs_push_other ws s n0 w' _ v Hn).
        unfold incoming, opnx. cbn [push_up set_w y_down y_dead]. exact (Hcl w Hv Hw). }
    rewrite FifoProofs.aget_aset_eq in Hw. injection Hw as Hw. subst w. specialize (Hcl w0 Hv Ew).
    unfold incoming, opnx in *. cbn [push_up set_w y_down y_dead].
    destruct (alive_open P s ws n0 w0 (NIs n0 w0 Ew) Hd Hop) as (Hdn & Hfin).
    rewrite (hsigs_open ws s n0 Hdn Hfin) in Hcl.
    rewrite (hsigs_push_open c ws s n0 w' evs Hdn Hfin).
    2:{ right. exact (main_step_one_sig _ _ _ _ WX0 Es). }
    rewrite app_assoc. fold (xsigs s n0).
    apply (clean_main (c_oracle c n0) ws n0 _ _ w0 w' evs (mem_nat n0 (y_dead s) = false /\ wph w0 <> PExited) _ WX0 Es);
      [intros _; split; assumption|exact Hcl].
  - (* LRecv *)
    destruct (aget n0 (y_up s)) as [[|m rest]|] eqn:Eup; try discriminate.
    cbn [y_d] in H.
    destruct (process_from_remote n0 m (y_d s)) as [[d' outs] r] eqn:Ep.
    destruct (step_recvx c Hpos s n0 m rest d' outs r X Eup Ep) as (-> & evs & -> & X').
    cbn [apply_outs] in H. inv H.
    pose proof (alist_get_some [] _ _ _ Eup) as Eup'.
    assert (HnG : n0 < d_next_gw (y_d s)).
    { destruct (Nat.lt_ge_cases n0 (d_next_gw (y_d s))) as [H|H]; [exact H|].
      destruct (Hi n0 H) as (_ & F & _). rewrite Eup' in F. discriminate. }
    destruct (aget n0 (y_w s)) as [w0|] eqn:Ew; [|exfalso; exact (Lo n0 HnG Ew)].
    destruct (aget n0 (ws_nt ws)) as [f|] eqn:Ef; [|exfalso; apply (proj2 (xj_ntk _ _ _ _ J n0) HnG); exact Ef].
    pose proof (Eu n0) as En. rewrite Eup' in En. inversion En as [|m1 r1 Gm Gr]; subst.
    destruct (pfr_effx X0 _ _ _ _ _ _ _ _ _ Els Ef Gm HnG Ep) as (_ & evs' & Eevs & Hd' & Hdrop & Hsig & Hok & Hend & Hnoend).
    assert (evs' = evs) by congruence. subst evs'. clear Eevs.
    assert (Ent : d_nt (y_d s) = ws_nt ws) by (unfold d_nt; rewrite Els; reflexivity).
    assert (DX : exists wsA fA, d_sched d' = StW wsA /\ ws_n2p wsA = ws_n2p ws /\ ws_pending wsA = ws_pending ws /\
               ws_steal wsA = ws_steal ws /\ ws_coll wsA = ws_coll ws /\
               (forall k, k <> n0 -> aget k (ws_nt wsA) = aget k (ws_nt ws)) /\
               aget n0 (ws_nt wsA) = Some fA /\
               (n_down fA = true -> n_down f = true \/ m = UEnd \/ exists b, m = UEv (EFinished b)) /\
               (n_down f = true -> n_down fA = true) /\
               ((m = UEnd \/ exists b, m = UEv (EFinished b)) -> n_down fA = true) /\
               Wd d' = Wd (y_d s) /\ d_next_gw d' = d_next_gw (y_d s)).
    { destruct Hd' as [->|(-> & Hf & Hm)].
      - exists ws, f. split; [exact Els|]. repeat (split; [reflexivity|]).
        split; [exact Ef|]. split; [auto|]. split; [auto|]. split; [|split; reflexivity].
        intros Hm. destruct (n_down f) eqn:Edn; [reflexivity|]. exfalso.
        destruct Hm as [->|(b & ->)].
        + destruct (Hend eq_refl eq_refl) as (_ & F). apply F. reflexivity.
        + unfold process_from_remote in Ep. rewrite mbind_get, Ent, Ef in Ep. cbn [of_opt] in Ep. rewrite mbind_ret, Edn in Ep.
          rewrite mbind_put in Ep. unfold ret in Ep. injection Ep as Ed _.
          assert (Xq : aget n0 (d_nt (d_set_nt (y_d s) (aset n0 (down_flag' f) (ws_nt ws)))) = Some (down_flag' f)).
          { rewrite d_nt_set. apply FifoProofs.aget_aset_eq. }
          unfold down_flag' in Xq. rewrite Ed, Ent, Ef in Xq. injection Xq as Xq. apply (f_equal n_down) in Xq. cbn in Xq. congruence.
      - exists (upd_flagw ws n0 (down_flag' f)), (down_flag' f).
        split; [apply d_set_nt_schedw; exact Els|]. repeat (split; [reflexivity|]).
        split. { intros k Hk. rewrite aget_upd_flagw. apply Nat.eqb_neq in Hk. rewrite Hk. reflexivity. }
        split. { rewrite aget_upd_flagw, Nat.eqb_refl. reflexivity. }
        split; [intros _; right; exact Hm|]. split; [reflexivity|]. split; [reflexivity|]. split; reflexivity. }
    destruct DX as (wsA & fA & ElsA & E1 & E2 & E3 & E4 & Eoth & EfA & EdnA & EdnA' & EdnF & EW & EG).
    cbn [ghost_next]. match goal with |- TIx (close_if_dead ?S2 n0) h /\ _ => set (s2 := S2) in * end.
    assert (Els2 : d_sched (y_d s2) = StW wsA) by exact ElsA.
    assert (T2 : TIx s2 h).
    { apply (TIx_frame s s2 ws wsA h Els Els2 E1 E2 E3); [|exact HT].
      intros v w Hst Hw. change (y_w s2) with (y_w s) in Hw. split; [exact Hw|]. split; [|intros Ho; split; [exact Ho|reflexivity]].
      unfold hsigs, s2. cbn [set_evq set_d y_evq y_up]. rewrite evq_xsigs_app.
      destruct (Nat.eq_dec v n0) as [->|Hv].
      2:{ rewrite FifoProofs.alist_get_aset_neq by exact Hv.
          assert (E0 : evq_xsigs v evs = []).
          { destruct (n_down f) eqn:Edn.
            - destruct (Hdrop eq_refl) as (-> & _). reflexivity.
            - rewrite (Hsig eq_refl v). apply Nat.eqb_neq in Hv. rewrite Nat.eqb_sym, Hv. reflexivity. }
          rewrite E0, app_nil_r. unfold ndown. rewrite (Eoth v Hv). reflexivity. }
      assert (w = w0) by congruence. subst w.
      rewrite FifoProofs.alist_get_aset_eq, Eup'.
      assert (ND0 : ndown ws n0 = n_down f) by (unfold ndown; rewrite Ef; reflexivity).
      assert (ND0' : ndown wsA n0 = n_down fA) by (unfold ndown; rewrite EfA; reflexivity).
      rewrite ND0, ND0'.
      assert (FINM : forall b, In (XFin b) (up_xsig m) -> exists b', m = UEv (EFinished b')).
      { intros b Hb. destruct m as [e|ids|sk|i ms|dec| | |]; cbn in Hb; try contradiction; try (destruct Hb as [F|[]]; discriminate).
        destruct e; cbn in Hb; try contradiction; try (destruct Hb as [F|[]]; discriminate). eauto. }
      assert (UEND : m = UEnd -> rest = []).
      { intros ->. destruct (NIs n0 w0 Ew) as (_ & _ & _ & D0). destruct (mem_nat n0 (y_dead s)).
        - destruct D0 as [_ D2 _ _]. destruct D2 as [pre g X1 X2 _ _ _ _ _|q1 q2 X1 _ _ _ _ _ _|X1 _ _ _ _]; try congruence.
          rewrite Eup' in X1. destruct pre as [|m' pre']; cbn [app] in X1; [inv X1; reflexivity|].
          inv X1. exfalso. apply X2. left. reflexivity.
        - exfalso. destruct (P n0); [destruct D0 as [_ _ D3 _ _ _ _]|destruct D0 as [_ _ D3 _ _ _]];
            apply D3; rewrite Eup'; left; reflexivity. }
      unfold hup at 2. cbn [flat_map].
      destruct (n_down f) eqn:Edf.
      - destruct (Hdrop eq_refl) as (-> & _). rewrite (EdnA' eq_refl). cbn. rewrite app_nil_r. reflexivity.
      - rewrite (Hsig eq_refl), Nat.eqb_refl.
        destruct (n_down fA) eqn:Edf'.
        + destruct (EdnA eq_refl) as [Y|[Y|(b & ->)]]; [discriminate| |].
          * subst m. rewrite (UEND eq_refl). cbn. rewrite !app_nil_r. reflexivity.
          * cbn. rewrite <- app_assoc. reflexivity.
        + assert (Hnf : hasfin (up_xsig m) = false).
          { apply nofin_hasfin. intros b Hb. destruct (FINM b Hb) as (b' & E'). discriminate (EdnF (or_intror (ex_intro _ b' E'))). }
          unfold hup. rewrite cutfin_app, Hnf, <- app_assoc. reflexivity. }
    assert (P2 : Psix s2 h = Psix s h) by (apply (Psix_frame s s2 ws wsA h Els Els2 E1 E2 E3 E4); [exact EW|exact EG]).
    assert (X2 : XW c s2) by (unfold s2; rewrite <- Eres; exact X').
    destruct (TIx_close s2 n0 h X2 T2) as (A & B).
    split; [exact A|]. rewrite B, P2. cbn. lia.
  - (* LCtl *)
    specialize (Ea eq_refl).
    destruct (d_active (y_d s)) as [|a0 ar] eqn:Eact.
    { destruct (d_no_active (y_d s)) as [[d2 o2] r2]. inv H. cbn in Hres'. discriminate. }
    destruct (y_evq s) as [|ev q] eqn:Eevq; [discriminate|].
    assert (Hne : forall n, ev <> QErrorDown n) by (intros n ->; exact (Hnerr eq_refl n q eq_refl)).
    destruct (d_loop_once ev (y_d s)) as [[d' outs] r] eqn:El.
    pose proof (pre_from_invx c Hpos P s ws ev q X DJd NIs Eevq) as Hpre.
    destruct (loop_once_okx N X0 Hpos ev _ ws d' outs r DJd Hpre El) as (-> & ws' & vo & Eo & E & DJ2 & _ & _).
    pose proof DJ2 as ([Els2 J2' _ _ _ _] & _).
    pose proof (loop_zx N X0 Hpos ev _ ws d' outs ws' DJd Hpre Hne El Els2) as Z.
    destruct (ctl_frames s ev q d' outs ws ws' vo X Eevq El DJd E Eo) as (F1 & F2 & F3 & UP & DOWN & WOLD & WNEW & OUTG & NDW & GW).
    assert (S' : s' = apply_outs (set_d (set_evq s q) d') outs /\ o = outs).
    { destruct (d_session_finished d').
      - inv H. cbn in Hres'. destruct (d_shouldstop d'); discriminate.
      - destruct (d_active d') as [|b0 br].
        + destruct (d_no_active d') as [[d2 o2] r2]. inv H. cbn in Hres'. discriminate.
        + inv H. split; reflexivity. }
    destruct S' as (-> & ->).
    set (s1 := apply_outs (set_d (set_evq s q) d') outs) in *.
    destruct (zx_fr _ _ _ _ _ _ Z) as ((SB1 & SB2 & SB3) & LA).
    set (G := d_next_gw (y_d s)) in *. set (W := Wd (y_d s)) in *.
    assert (EW' : Wd d' = W) by (unfold W, Wd, Rem; rewrite SB1, SB2, SB3; reflexivity).
    rewrite SB3 in J2'. fold G in J2'.
    assert (HGW : G <= W) by (unfold W, Wd; fold G; lia).
    destruct (pot_ctlx c W G ev (y_d s) ws d' ws' outs J J2' Hpre Hne HGW Z) as (PU & PF & PG).
    assert (STLT : forall x v, LJX N X0 G x -> ws_steal x = Some v -> v < G).
    { intros x v Jx Hv. apply (xj_nodes _ _ _ _ Jx). apply (xj_st _ _ _ _ Jx). exact Hv. }
    (* the steal marker and the requests *)
    assert (ACC : match ws_steal ws with Some _ => 1 | None => 0 end + length (steal_reqs outs) <=
                  match ws_steal ws' with Some _ => 1 | None => 0 end + isuns ev).
    { rewrite (reqs_sumx G outs OUTG).
      rewrite <- (cnt_sum G (ws_steal ws)) by (intros v Hv; exact (STLT ws v J Hv)).
      rewrite <- (cnt_sum G (ws_steal ws')) by (intros v Hv; exact (STLT ws' v J2' Hv)).
      rewrite <- (unsev_sum G ev).
      2:{ intros n r0 ->. cbn [PREX] in Hpre. destruct Hpre as (Hst & _). exact (STLT ws n J Hst). }
      rewrite <- !sumf_add. apply sumf_le_in. intros m _.
      pose proof (CrashSteal.hx_steal _ _ _ _ _ _ _ _ E m (Hne m)) as Hm.
      assert (Hle : nstc (cmds_to m outs) <= nstc (cmds_to m vo)).
      { rewrite Eo, cmds_to_vfilter. destruct (closedb (ws_nt ws) m); [unfold nstc at 1; cbn; lia|lia]. }
      lia. }
    assert (XS1 : forall n, n < G -> hsigs ws s n = ev_xsigs_for n ev ++ hsigs ws' s1 n).
    { intros n Hn. rewrite (hsigs_head ws s ev q n Eevq). unfold hsigs. rewrite F1, UP, (NDW n Hn). reflexivity. }
    assert (STOF : steal_of s = ws_steal ws) by (unfold steal_of; rewrite Els; reflexivity).
    assert (HSOF : forall n, hsigs_of s n = hsigs ws s n) by (intros n; unfold hsigs_of; rewrite Els; reflexivity).
    assert (CNT : forall v w, aget v (y_w s) = Some w ->
              (if mem_nat v (y_dead s) then 0 else nstc (alist_get [] v (y_down s)) + nstc (winbox w) + nrep (wreply w)) +
              nuns (hsigs ws s v) <= cnt (ws_steal ws) v).
    { intros v w Hw. pose proof (xw_stealone c Hpos s X v) as SO. rewrite Hw, STOF in SO. destruct SO as (SO & _).
      unfold stealreqx in SO. rewrite Hw, HSOF in SO. destruct (mem_nat v (y_dead s)); [|lia].
      pose proof (nuns_hsigs_le ws s v). lia. }
    assert (HH : hnext ev (ws_steal ws) h = 0 -> h = 0 \/ isuns ev = 1).
    { destruct ev; cbn [hnext isuns]; auto. destruct (ws_steal ws) as [u|]; auto. destruct (Nat.eqb u n); [discriminate|auto]. }
    assert (GN : ghost_next s LCtl h = hnext ev (ws_steal ws) h).
    { unfold ghost_next. rewrite Eevq, STOF. destruct ev; try reflexivity. exfalso. exact (Hne _ eq_refl). }
    rewrite GN. split.
    + (* the invariant *)
      exists ws'. split; [rewrite F2; exact Els2|]. intros Hh'.
      assert (HJ : h = 0 -> J2 ws /\ cleanSx s ws).
      { destruct HT as (ws0 & E0 & HT0). assert (ws0 = ws) by congruence. subst ws0. exact HT0. }
      split.
      { apply (zx_j2 _ _ _ _ _ _ Z). destruct (HH Hh') as [A|A]; [left; exact (proj1 (HJ A))|right; exact A]. }
      intros v w Hv Hw.
      pose proof (STLT ws' v J2' Hv) as HvG. rewrite (WOLD v HvG) in Hw.
      pose proof (CNT v w Hw) as St. rewrite (XS1 v HvG), nuns_app in St.
      assert (OPN : opnx s1 v w <-> opnx s v w) by (unfold opnx; rewrite F3; reflexivity).
      assert (INC1 : mem_nat v (y_dead s) = false -> incoming s1 v w = incoming s v w ++ cmds_to v outs).
      { intros Hdv. unfold incoming. rewrite DOWN, Hdv, app_assoc. reflexivity. }
      assert (FRESH : ws_steal ws = None \/ (exists n r0, ev = QUnscheduled n r0) ->
                cleanL ws' v (opnx s1 v w) (incoming s1 v w) (wreply w) (hsigs ws' s1 v)).
      { intros Hf.
        assert (Z0 : (if mem_nat v (y_dead s) then 0 else nstc (alist_get [] v (y_down s)) + nstc (winbox w) + nrep (wreply w)) = 0 /\
                     nuns (hsigs ws' s1 v) = 0).
        { destruct Hf as [Hf|(n & r0 & ->)].
          - rewrite Hf in St. cbn [cnt] in St. split; lia.
          - cbn [PREX] in Hpre. destruct Hpre as (Hst & _). rewrite Hst in St.
            destruct (Nat.eq_dec n v) as [->|Hn].
            + rewrite cnt_some_eq in St. unfold ev_xsigs_for in St. cbn [ev_xsig] in St. rewrite Nat.eqb_refl in St.
              change (nuns [XUns r0]) with 1 in St. split; lia.
            + rewrite (cnt_some_neq n v Hn) in St. split; lia. }
        destruct Z0 as (Z1 & Z4).
        destruct (mem_nat v (y_dead s)) eqn:Hdv.
        - apply cleanL_nouns; [|exact Z4]. intros (F0 & _). rewrite F3, Hdv in F0. discriminate.
        - rewrite (INC1 eq_refl).
          assert (Hr : wreply w = None) by (destruct (wreply w); [cbn in Z1; lia|reflexivity]).
          apply (cleanL_fresh ws' v _ (incoming s v w) (cmds_to v outs) (wreply w) _).
          + unfold incoming. rewrite nstc_app. lia.
          + exact Hr.
          + exact Z4.
          + exact (zx_ord _ _ _ _ _ _ Z v).
          + intros ixs Hin. apply in_cmds_to_inv in Hin. exact (zx_tail _ _ _ _ _ _ Z v ixs Hin). }
      destruct (ws_steal ws) as [u|] eqn:Eus; [|apply FRESH; left; reflexivity].
      destruct (ev_cases ev u) as [Hun|[(i & ms & ->)|(Hn1 & Hn2)]].
      * apply FRESH. right. exact Hun.
      * exfalso. cbn [hnext] in Hh'. rewrite Nat.eqb_refl in Hh'. discriminate.
      * destruct (ev_keep ev u (bkw ws u) h Hn1 Hn2) as (K1 & K2u & K3 & K4 & K5).
        rewrite K5 in Hh'. destruct (HJ Hh') as (Hj & Hcl).
        pose proof (CrashSteal.hx_steal _ _ _ _ _ _ _ _ E u (Hne u)) as Lu. rewrite ?Eus, cnt_some_eq, K2u in Lu.
        pose proof (cnt_le1 (ws_steal ws') u) as Lc.
        assert (Ev : v = u).
        { assert (X1 : cnt (ws_steal ws') u = 1) by lia. apply cnt_pos in X1. congruence. }
        subst v.
        assert (Ecn : ws_coll ws <> None).
        { destruct (xj_s0 _ _ _ _ J u Eus) as (Xc & Ec & _). rewrite Ec. discriminate. }
        assert (Ep0 : ws_pending ws = []) by (apply Hj; rewrite Eus; discriminate).
        assert (Eb : bkw ws' u = bkw ws u).
        { rewrite (zx_none _ _ _ _ _ _ Z Ep0 K1 Ecn u). exact K3. }
        assert (Hs0 : flat_map cmd_inds (cmds_to u vo) = []).
        { pose proof (CrashSteal.hx_bk _ _ _ _ _ _ _ _ E u) as Hb.
          rewrite (bookmidx_eq ev u _ (fun k Ek _ => Hne k Ek)), K3, Eb in Hb.
          rewrite <- (app_nil_r (bkw ws u)) in Hb at 1. apply app_inv_head in Hb. symmetry. exact Hb. }
        assert (CMu : cmds_to u outs = [] \/ cmds_to u outs = cmds_to u vo).
        { rewrite Eo, cmds_to_vfilter. destruct (closedb (ws_nt ws) u); auto. }
        pose proof (Hcl u w Eus Hw) as CL.
        apply (cleanL_ext ws ws'); [exact Eb|].
        rewrite (XS1 u HvG) in CL.
        assert (CL2 : cleanL ws u (opnx s u w) (incoming s u w) (wreply w) (hsigs ws' s1 u)).
        { destruct (ev_xsigs_for u ev) as [|g [|g' l']] eqn:Eg.
          - exact CL.
          - eapply cleanL_pop; [exact CL|exact K4].
          - exfalso. pose proof (ev_xsigs_for_small u ev) as X0'. rewrite Eg in X0'. cbn in X0'. lia. }
        destruct (mem_nat u (y_dead s)) eqn:Hdu.
        -- eapply cleanL_change; [|exact CL2]. intros (F0 & _). rewrite F3, Hdu in F0. discriminate.
        -- rewrite (INC1 eq_refl). eapply cleanL_weaken; [apply OPN|].
           apply cleanL_append; [exact CL2| |].
           ++ destruct CMu as [->| ->]; [reflexivity|lia].
           ++ destruct CMu as [->| ->]; [reflexivity|exact Hs0].
    + (* the potential *)
      unfold Psix. rewrite F2, Els2, Els, EW', SB3. fold G W. unfold psix.
      assert (UNS : forall n r0, ev = QUnscheduled n r0 -> h = 0 -> Fx c W G ws' + 1 <= Fx c W G ws).
      { intros n r0 -> Hh. destruct HT as (ws0 & E0 & HT0). assert (ws0 = ws) by congruence. subst ws0.
        destruct (HT0 Hh) as (Hj & Hcl).
        cbn [PREX] in Hpre. destruct Hpre as (Hst & _).
        assert (HnG : n < G) by exact (STLT ws n J Hst).
        destruct (aget n (y_w s)) as [w|] eqn:Hw; [|exfalso; exact (Lo n HnG Hw)].
        apply (PG (Hj ltac:(rewrite Hst; discriminate)) n r0 eq_refl).
        pose proof (Hcl n w Hst Hw) as CL.
        destruct (cl_sig _ _ _ _ _ _ CL [] r0 (hsigs ws' s1 n)) as [F0|G0]; [|exfalso; apply F0; reflexivity|exact G0].
        rewrite (XS1 n HnG). unfold ev_xsigs_for. cbn [ev_xsig]. rewrite Nat.eqb_refl. reflexivity. }
      assert (UM : forall n r0, ev = QUnscheduled n r0 -> ws_steal ws = Some n).
      { intros n r0 ->. cbn [PREX] in Hpre. tauto. }
      destruct (ws_steal ws) as [u|] eqn:Eus, (ws_steal ws') as [u'|] eqn:Eus';
        destruct ev; cbn [compl isuns hnext] in *;
        try (specialize (UNS _ _ eq_refl)); try (specialize (UM _ _ eq_refl)); try discriminate;
        try (destruct (Nat.eqb u n)); try lia; destruct h; lia.
  - (* LCrash *)
    destruct (mem_nat n0 (y_dead s)) eqn:Hd; [discriminate|].
    destruct (aget n0 (y_w s)) as [w0|] eqn:Ew; try discriminate.
    assert (E : s' = crash_worker c s n0 /\ o = []) by (destruct (wph w0); try discriminate; inv H; auto).
    destruct E as (-> & ->). destruct (TIx_crash s n0 w0 h X HT Hd Ew) as (A & B).
    cbn [ghost_next]. split; [exact A|]. rewrite B. cbn. lia.
Qed.

Corollary step_psix s l s' o wv h :
  XW c s -> SHx s -> TIx s h -> sys_step c s l = Some (s', o, wv) -> y_result s' = None ->
  (l = LCtl -> forall n q, y_evq s <> QErrorDown n :: q) ->
  exists h', TIx s' h' /\ Psix s' h' + length (steal_reqs o) <= Psix s h.
Proof. intros X HS HT H Hr Hn. exists (ghost_next s l h). exact (step_psix_g s l s' o wv h X HS HT H Hr Hn). Qed.
End StepPsiX.

(* ###################################### part E ###################################### *)
(* E.1 errordown: the number of deaths the session can still see goes down (any scheduler) *)

Lemma sched_op_fields op d d' o r :
  d_sched_op op d = (d', o, r) ->
  d_active d' = d_active d /\ d_failed_nodes d' = d_failed_nodes d /\ d_max_restart d' = d_max_restart d /\
  d_next_gw d' = d_next_gw d /\ d_requeue d' = d_requeue d.
Proof. intros H. destruct (d_sched_op_frame _ _ _ _ _ H) as ((st & ->) & _). repeat split. Qed.

Lemma try_block_active n d d' o r : try_block n d = (d', o, r) -> d_active d' = d_active d.
Proof.
  unfold try_block. destruct (d_sched_op (SRemove n) d) as [[d1 o1] r1] eqn:E1.
  destruct (sched_op_fields _ _ _ _ _ E1) as (A1 & _).
  destruct r1 as [[item|]|e].
  - destruct (d_handle_crashitem item n d1) as [[d2 o2] r2] eqn:E2. intros H. inv H.
    unfold d_handle_crashitem, hook, emit, mbind, get, ret, put in E2.
    destruct (d_requeue d1) as [|k].
    + inv E2. exact A1.
    + destruct (d_sched_op (SPending item) (d_set_requeue d1 k)) as [[dx ox] rx] eqn:E3.
      destruct (sched_op_fields _ _ _ _ _ E3) as (A3 & _). cbn in A3.
      destruct rx; inv E2; congruence.
  - intros H. inv H. exact A1.
  - destruct e; intros H; inv H; exact A1.
Qed.

Lemma filter_neq_ltx n (l : list nat) : In n l -> length (filter (fun m => negb (Nat.eqb m n)) l) < length l.
Proof.
  induction l as [|x l IH]; [intros []|]. intros [->|Hin]; cbn.
  - rewrite Nat.eqb_refl. cbn. pose proof (filter_len_le (fun m => negb (Nat.eqb m n)) l). lia.
  - specialize (IH Hin). destruct (Nat.eqb x n); cbn; lia.
Qed.

Lemma errordown_Kx n d d1 o1 :
  In n (d_active d) -> d_max_restart d <> None ->
  d_handle (QErrorDown n) d = (d1, o1, Ok tt) ->
  Kx d1 < Kx d /\ d_max_restart d1 = d_max_restart d.
Proof.
  intros Hina Hmr H. cbn [d_handle] in H. rewrite errordown_unfold in H.
  apply DSessionProofs.mbind_inv in H. destruct H as [(d0 & o0 & [] & oR & H0 & H & ->)|(e & H0 & F)]; [|discriminate].
  unfold hook, emit in H0. injection H0 as Ed Eo. subst d0 o0.
  apply DSessionProofs.mbind_inv in H. destruct H as [(da & oa & [] & oR2 & Ht & H & ->)|(e & Ht & F)]; [|discriminate].
  destruct (try_block_spec _ _ _ _ _ Ht) as ((B1 & B2 & B3) & _).
  pose proof (try_block_active _ _ _ _ _ Ht) as BA.
  apply DSessionProofs.mbind_inv in H. destruct H as [(dg & og & dd & oR3 & Hg & H & ->)|(e & Hg & _)]; [|inversion Hg].
  unfold get in Hg. injection Hg as Eg1 Eg2 Eg3. subst dg og dd. cbv zeta in H.
  apply DSessionProofs.mbind_inv in H. destruct H as [(dp & op & [] & oR4 & Hp & H & ->)|(e & Hp & _)]; [|inversion Hp].
  unfold put in Hp. injection Hp as Ep1 Ep2. subst dp op.
  set (db := d_set_failed_nodes da (d_failed_nodes da + 1)%Z) in *.
  apply DSessionProofs.mbind_inv in H. destruct H as [(dc & oc & [] & od & Hc & Hr & ->)|(e & Hc & F)]; [|discriminate].
  destruct (d_max_restart d) as [m0|] eqn:Emr; [|contradiction]. rewrite B2 in Hc.
  pose proof (filter_neq_ltx n (d_active d) Hina) as Hlt.
  destruct (m0 <? d_failed_nodes da + 1)%Z eqn:Elt.
  - (* the budget is used up *)
    apply DSessionProofs.mbind_inv in Hc. destruct Hc as [(dh & oh & [] & ot & Hh & Hg & ->)|(e & Hh & F)]; [|discriminate].
    unfold hook, emit in Hh. injection Hh as Eh1 Eh2. subst dh oh.
    destruct (LivenessLaws.d_triggershutdown_spec _ _ _ Hg) as (_ & _ & _ & _ & _ & _ & _ & _ & Ea2).
    destruct (quiet_counts _ _ _ _ _ quiet_triggershutdown Hg) as ((T1 & T2 & T3) & _).
    assert (Hin2 : In n (d_active dc)) by (rewrite Ea2; cbn; rewrite BA; exact Hina).
    rewrite (active_remove_run n _ Hin2) in Hr. inv Hr.
    unfold Kx, Rem. cbn [d_active d_set_active d_max_restart d_failed_nodes]. rewrite T2, T1, Ea2. cbn [db d_max_restart d_failed_nodes d_set_failed_nodes d_active].
    rewrite B2, Emr, BA, B1. apply Z.ltb_lt in Elt. rewrite B1 in Elt. split; [lia|reflexivity].
  - (* a replacement worker is started *)
    apply Z.ltb_ge in Elt. rewrite B1 in Elt.
    apply DSessionProofs.mbind_inv in Hc. destruct Hc as [(dh & oh & [] & ot & Hh & Hg & ->)|(e & Hh & F)]; [|discriminate].
    unfold mbind, get, put in Hh. injection Hh as Eh1 Eh2. subst dh oh.
    set (de := d_set_shuttingdown db false) in *.
    unfold d_clone_node in Hg.
    apply DSessionProofs.mbind_inv in Hg. destruct Hg as [(dg & og & dd & oR5 & Hg1 & Hg & ->)|(e & Hg1 & _)]; [|inversion Hg1].
    unfold get in Hg1. injection Hg1 as Eq1 Eq2 Eq3. subst dg og dd.
    apply DSessionProofs.mbind_inv in Hg. destruct Hg as [(df & of' & f & oR6 & Hf & Hg & ->)|(e & Hf & F)]; [|discriminate].
    destruct (aget n (d_nt de)) as [f0|]; [|unfold of_opt, raise in Hf; discriminate].
    unfold of_opt, ret in Hf. injection Hf as Ef1 Ef2 Ef3. subst df of' f0.
    apply DSessionProofs.mbind_inv in Hg. destruct Hg as [(ds & os & a & oR7 & Hs & Hg & ->)|(e & Hs & F)]; [|discriminate].
    destruct (sched_op_fields _ _ _ _ _ Hs) as (S1 & S2 & S3 & S4 & _).
    apply DSessionProofs.mbind_inv in Hg. destruct Hg as [(dg & og & dd & oR8 & Hg1 & Hg & ->)|(e & Hg1 & _)]; [|inversion Hg1].
    unfold get in Hg1. injection Hg1 as Eq1 Eq2 Eq3. subst dg og dd.
    apply DSessionProofs.mbind_inv in Hg. destruct Hg as [(dq & oq & [] & oR9 & Hq & Hg & ->)|(e & Hq & _)]; [|inversion Hq].
    unfold put in Hq. injection Hq as Eq1 Eq2. subst dq oq.
    unfold hook, emit in Hg. inv Hg.
    match type of Hr with d_active_remove n ?D = _ => set (dz := D) in * end.
    assert (Hin2 : In n (d_active dz)).
    { unfold dz. cbn [d_active d_set_active d_set_next_gw]. rewrite S1. apply in_or_app. left. cbn. rewrite BA. exact Hina. }
    rewrite (active_remove_run n _ Hin2) in Hr. inv Hr.
    unfold Kx, Rem, dz. cbn [d_active d_set_active d_set_next_gw d_max_restart d_failed_nodes].
    rewrite S1, S2, S3. cbn [de db d_active d_max_restart d_failed_nodes d_set_shuttingdown d_set_failed_nodes].
    rewrite B2, Emr, BA, B1, filter_app, app_length. cbn [filter].
    match goal with |- context [if ?b then _ else _] => destruct b end; cbn [length]; split; try reflexivity; lia.
Qed.

(* ====================================================================================== *)
(* E.2 the lexicographic measure                                                            *)
(* ====================================================================================== *)
Definition lex3 (a b : nat * nat * nat) : Prop :=
  fst (fst a) < fst (fst b) \/
  (fst (fst a) <= fst (fst b) /\
   (snd (fst a) < snd (fst b) \/ (snd (fst a) <= snd (fst b) /\ snd a < snd b))).

Lemma lex3_wf : well_founded lex3.
Proof.
  intros [[a b] c0]. revert b c0. induction a as [a IHa] using lt_wf_ind. intros b.
  induction b as [b IHb] using lt_wf_ind. intros c0.
  induction c0 as [c0 IHc] using lt_wf_ind. constructor. intros [[a' b'] c'] H. unfold lex3 in H. cbn [fst snd] in H.
  destruct H as [H|(H1 & [H2|(H2 & H3)])].
  - apply IHa. exact H.
  - destruct (Nat.eq_dec a' a) as [->|Hne]; [apply IHb; exact H2|apply IHa; lia].
  - destruct (Nat.eq_dec a' a) as [->|Hne]; [|apply IHa; lia].
    destruct (Nat.eq_dec b' b) as [->|Hne2]; [apply IHc; exact H3|apply IHb; lia].
Qed.

Section MainCTS.
Variable c : config.
Notation N := (c_numnodes c).
Notation X0 := (c_coll c).
Hypothesis Hmode : c_mode c = MSteal.
Hypothesis Hng : no_garbled c.
Hypothesis Hpos : 0 < N.
Hypothesis Hrq : rq_ok c.

(* (deaths the session can still see, the potential of the books and of the outstanding request, the potential
   of everything that can still move) *)
Definition meas3 (s : sys) (h : nat) : nat * nat * nat :=
  (Kx (y_d s), Psix c s h, muxw c (Wd (y_d s)) s).

Lemma loop_rest_fields d1 ws1 d' o2 :
  d_sched d1 = StW ws1 -> LJX N X0 (d_next_gw d1) ws1 -> loop_rest d1 = (d', o2, Ok tt) ->
  Kx d' = Kx d1 /\ d_max_restart d' = d_max_restart d1.
Proof.
  intros Els1 J1 H. destruct (loop_rest_effx _ _ _ _ _ _ _ _ Els1 J1 H) as (_ & ws2 & vo2 & -> & _).
  split; reflexivity.
Qed.

Theorem step_lex3_g s l s' o w h :
  XW c s -> SHx s -> TIx s h -> d_max_restart (y_d s) <> None -> ulabel s l ->
  sys_step c s l = Some (s', o, w) ->
  y_result s' <> None \/
  (XW c s' /\ SHx s' /\ TIx s' (ghost_next s l h) /\ d_max_restart (y_d s') = d_max_restart (y_d s) /\
   lex3 (meas3 s' (ghost_next s l h)) (meas3 s h)).
Proof.
  intros X HS HT Hmr Hu H.
  destruct (y_result s') as [rk|] eqn:Hres'; [left; discriminate|right].
  assert (X' : XW c s').
  { destruct (step_xw c Hng Hpos s l s' o w X H) as [A|(A & _)]; [exact A|congruence]. }
  pose proof (step_shx c Hpos s l s' o w X HS H Hres') as HS'.
  pose proof (step_max_restart c s l s' o w H) as EM.
  assert (DEC : (exists n q, l = LCtl /\ y_evq s = QErrorDown n :: q) \/
                (l = LCtl -> forall n q, y_evq s <> QErrorDown n :: q)).
  { destruct l; try (right; intros F; discriminate).
    destruct (y_evq s) as [|ev q]; [right; intros _ n q F; discriminate|].
    destruct ev; try (right; intros _ n' q' F; discriminate). left. eauto. }
  destruct DEC as [(n & q & -> & Eevq)|Hnerr].
  - (* the controller handles an errordown *)
    assert (GN : ghost_next s LCtl h = 1) by (unfold ghost_next; rewrite Eevq; reflexivity). rewrite GN.
    split; [exact X'|]. split; [exact HS'|]. split; [apply (TIx_of_xw c); exact X'|]. split; [exact EM|].
    left. cbn [meas3 fst snd].
    pose proof X as [Lo Hi (ws & P & DJd & NIs & Pout) Eq Eu Ea Er Edead].
    unfold sys_step in H. destruct (y_result s) eqn:Eres; [discriminate|]. specialize (Ea eq_refl).
    destruct (d_active (y_d s)) as [|a0 ar] eqn:Eact; [contradiction|]. rewrite Eevq in H.
    destruct (d_loop_once (QErrorDown n) (y_d s)) as [[d' outs] r] eqn:El.
    pose proof (pre_from_invx c Hpos P s ws _ q X DJd NIs Eevq) as Hpre.
    destruct (loop_once_okx N X0 Hpos _ _ ws d' outs r DJd Hpre El) as (-> & _).
    assert (Ed : y_d s' = d').
    { destruct (apply_outs_frame outs (set_d (set_evq s q) d')) as (_ & F2 & _). cbn [set_d y_d] in F2.
      destruct (d_session_finished d').
      - inv H. cbn in Hres'. destruct (d_shouldstop d'); discriminate.
      - destruct (d_active d') as [|b0 br].
        + destruct (d_no_active d') as [[d2 o2] r2]. inv H. cbn in Hres'. discriminate.
        + inv H. exact F2. }
    rewrite Ed. rewrite loop_once_unfold in El.
    apply LoadProofs.mbind_inv in El. destruct El as [(e & _ & F)|(d1 & o1 & [] & o2 & H1 & H2 & ->)]; [discriminate|].
    destruct (handle_heffx _ _ Hpos _ _ _ _ _ _ DJd Hpre H1) as (_ & ws1 & vo1 & E1).
    pose proof (CrashSteal.hx_dj _ _ _ _ _ _ _ _ E1) as [Els1 JJ1 _ _ _ _].
    destruct (loop_rest_fields d1 ws1 d' o2 Els1 JJ1 H2) as (K1 & _).
    cbn [PREX] in Hpre.
    destruct (errordown_Kx n (y_d s) d1 o1 Hpre Hmr H1) as (K2 & _). lia.
  - (* any other move *)
    destruct (step_psix_g c Hpos s l s' o w h X HS HT H Hres' Hnerr) as (HT' & HP).
    assert (HW : d_next_gw (y_d s) <= Wd (y_d s)) by (unfold Wd; lia).
    destruct (step_muxw c Hpos (Wd (y_d s)) s l s' o w X HW Hu Hnerr H) as (HM & G1 & G2 & G3 & G4).
    split; [exact X'|]. split; [exact HS'|]. split; [exact HT'|]. split; [exact EM|].
    assert (EW : Wd (y_d s') = Wd (y_d s)) by (unfold Wd, Rem; rewrite G1, G2, G3; reflexivity).
    assert (EK : Kx (y_d s') <= Kx (y_d s)) by (unfold Kx, Rem; rewrite G2, G3; lia).
    right. cbn [meas3 fst snd]. split; [exact EK|]. rewrite EW.
    destruct (steal_reqs o) as [|rq rqs] eqn:Er.
    + right. rewrite (stealcost_no_request _ o Er) in HM. cbn [length] in HP. split; lia.
    + left. cbn [length] in HP. lia.
Qed.

Corollary step_lex3 s l s' o w h :
  XW c s -> SHx s -> TIx s h -> d_max_restart (y_d s) <> None -> ulabel s l ->
  sys_step c s l = Some (s', o, w) ->
  y_result s' <> None \/
  (exists h', XW c s' /\ SHx s' /\ TIx s' h' /\ d_max_restart (y_d s') = d_max_restart (y_d s) /\
              lex3 (meas3 s' h') (meas3 s h)).
Proof.
  intros X HS HT Hm Hu E. destruct (step_lex3_g s l s' o w h X HS HT Hm Hu E) as [A|A]; [left; exact A|right].
  exists (ghost_next s l h). exact A.
Qed.

(* the ghost bit is an invariant along every step (useful or not) *)
Lemma step_ghost s l s' o w h :
  XW c s -> SHx s -> TIx s h -> sys_step c s l = Some (s', o, w) -> y_result s' = None ->
  TIx s' (ghost_next s l h).
Proof.
  intros X HS HT H Hres'.
  assert (X' : XW c s').
  { destruct (step_xw c Hng Hpos s l s' o w X H) as [A|(A & _)]; [exact A|congruence]. }
  assert (DEC : (exists n q, l = LCtl /\ y_evq s = QErrorDown n :: q) \/
                (l = LCtl -> forall n q, y_evq s <> QErrorDown n :: q)).
  { destruct l; try (right; intros F; discriminate).
    destruct (y_evq s) as [|ev q]; [right; intros _ n q F; discriminate|].
    destruct ev; try (right; intros _ n' q' F; discriminate). left. eauto. }
  destruct DEC as [(n & q & -> & Eevq)|Hnerr].
  - unfold ghost_next. rewrite Eevq. apply (TIx_of_xw c). exact X'.
  - exact (proj1 (step_psix_g c Hpos s l s' o w h X HS HT H Hres' Hnerr)).
Qed.


(* ====================================================================================== *)
(* E.3 the theorems                                                                         *)
(* ====================================================================================== *)
Lemma SHx_init : SHx (sys_init c).
Proof.
  intros ws n w _ Hw _ Hp. exfalso. cbn [sys_init y_w] in Hw.
  induction (seq 0 N) as [|k l IH]; cbn in Hw; [discriminate|].
  destruct (Nat.eqb n k); [inv Hw; discriminate|exact (IH Hw)].
Qed.

(* every reachable state satisfies the invariants, or the session has ended *)
Lemma ginv_run ls : (XW c (sys_run c ls) /\ SHx (sys_run c ls)) \/ y_result (sys_run c ls) <> None.
Proof.
  unfold sys_run.
  assert (G : forall s, (XW c s /\ SHx s) \/ y_result s <> None ->
     let s' := fold_left (fun s l => match sys_step c s l with Some (s', _, _) => s' | None => s end) ls s in
     (XW c s' /\ SHx s') \/ y_result s' <> None).
  { induction ls as [|l ls0 IH]; intros s Hs; cbn [fold_left]; [exact Hs|].
    apply IH. destruct (sys_step c s l) as [[[s' o] w]|] eqn:E; [|exact Hs].
    destruct Hs as [(X & HS)|Hr].
    - destruct (y_result s') as [rk|] eqn:Hres'; [right; discriminate|left].
      split.
      + destruct (step_xw c Hng Hpos s l s' o w X E) as [A|(A & _)]; [exact A|congruence].
      + exact (step_shx c Hpos s l s' o w X HS E Hres').
    - exfalso. unfold sys_step in E. destruct (y_result s); [discriminate|contradiction]. }
  apply G. left. split; [apply XW_init; assumption|apply SHx_init].
Qed.

(* the ghost bit of a schedule, and the measure of a schedule *)
Fixpoint ghost_from (s : sys) (h : nat) (ls : list label) : nat :=
  match ls with
  | [] => h
  | l :: r => match sys_step c s l with
              | Some (s', _, _) => ghost_from s' (ghost_next s l h) r
              | None => ghost_from s h r
              end
  end.
Definition ghost_run (ls : list label) : nat := ghost_from (sys_init c) 1 ls.
Definition measure (ls : list label) : nat * nat * nat := meas3 (sys_run c ls) (ghost_run ls).

Lemma ghost_from_app s h a b0 :
  ghost_from s h (a ++ b0) =
  ghost_from (fold_left (fun s l => match sys_step c s l with Some (s', _, _) => s' | None => s end) a s) (ghost_from s h a) b0.
Proof.
  revert s h. induction a as [|l a IH]; intros s h; [reflexivity|]. cbn [app ghost_from fold_left].
  destruct (sys_step c s l) as [[[s' o] w]|]; apply IH.
Qed.

Lemma ghost_run_snoc ls l s' o w :
  sys_step c (sys_run c ls) l = Some (s', o, w) -> ghost_run (ls ++ [l]) = ghost_next (sys_run c ls) l (ghost_run ls).
Proof.
  intros E. unfold ghost_run. rewrite ghost_from_app. fold (sys_run c ls). cbn [ghost_from]. rewrite E. reflexivity.
Qed.

Lemma sys_run_snoc ls l s' o w : sys_step c (sys_run c ls) l = Some (s', o, w) -> sys_run c (ls ++ [l]) = s'.
Proof. intros E. unfold sys_run. rewrite fold_left_app. cbn [fold_left]. fold (sys_run c ls). rewrite E. reflexivity. Qed.

Lemma ghost_le1 ls : ghost_run ls <= 1.
Proof.
  unfold ghost_run. assert (G : forall s h, h <= 1 -> ghost_from s h ls <= 1).
  { induction ls as [|l r IH]; intros s h Hh; [exact Hh|]. cbn [ghost_from].
    destruct (sys_step c s l) as [[[s' o] w]|]; apply IH; [apply ghost_next_le1|]; exact Hh. }
  apply G. lia.
Qed.

Lemma ginv_ghost_run ls :
  (XW c (sys_run c ls) /\ SHx (sys_run c ls) /\ TIx (sys_run c ls) (ghost_run ls)) \/ y_result (sys_run c ls) <> None.
Proof.
  unfold sys_run, ghost_run.
  assert (G : forall s h, (XW c s /\ SHx s /\ TIx s h) \/ y_result s <> None ->
     let s' := fold_left (fun s l => match sys_step c s l with Some (s', _, _) => s' | None => s end) ls s in
     (XW c s' /\ SHx s' /\ TIx s' (ghost_from s h ls)) \/ y_result s' <> None).
  { induction ls as [|l ls0 IH]; intros s h Hs; cbn [fold_left ghost_from]; [exact Hs|].
    destruct (sys_step c s l) as [[[s' o] w]|] eqn:E; [|apply IH; exact Hs].
    apply IH. destruct Hs as [(X & HS & HT)|Hr].
    - destruct (y_result s') as [rk|] eqn:Hres'; [right; discriminate|left].
      split; [|split].
      + destruct (step_xw c Hng Hpos s l s' o w X E) as [A|(A & _)]; [exact A|congruence].
      + exact (step_shx c Hpos s l s' o w X HS E Hres').
      + exact (step_ghost s l s' o w h X HS HT E Hres').
    - exfalso. unfold sys_step in E. destruct (y_result s); [discriminate|contradiction]. }
  apply G. left. split; [apply XW_init; assumption|]. split; [apply SHx_init|].
  apply (TIx_of_xw c). apply XW_init; assumption.
Qed.

Variable b : Z.
Hypothesis Hbudget : c_max_restart c = Some b.

(* C02 with worker failures, worksteal, the measure of a schedule: extending a schedule by a useful move or a
   crash ends the session or makes the measure lexicographically smaller *)
Theorem steal_crash_c02_measure_run : forall ls l s' o w,
  ulabel (sys_run c ls) l -> sys_step c (sys_run c ls) l = Some (s', o, w) ->
  y_result (sys_run c (ls ++ [l])) <> None \/ lex3 (measure (ls ++ [l])) (measure ls).
Proof.
  intros ls l s' o w Hu E. unfold measure. rewrite (sys_run_snoc ls l s' o w E), (ghost_run_snoc ls l s' o w E).
  set (s := sys_run c ls) in *.
  assert (Hr : y_result s = None) by (unfold sys_step in E; destruct (y_result s); [discriminate|reflexivity]).
  destruct (ginv_ghost_run ls) as [(X & HS & HT)|R]; [|contradiction]. fold s in X, HS, HT.
  assert (Hm : d_max_restart (y_d s) <> None).
  { pose proof (restart_frame c ls) as F. fold s in F. rewrite F, Hbudget. discriminate. }
  destruct (step_lex3_g s l s' o w _ X HS HT Hm Hu E) as [A|(_ & _ & _ & _ & B)]; [left; exact A|right; exact B].
Qed.

(* C02 with worker failures, worksteal: the measure decreases along every useful move and every crash of a
   reachable state.  h is a ghost bit (1: nothing is claimed about the outstanding withdrawal request; TIx s 1
   holds in every reachable state) *)
Theorem steal_crash_c02_measure : forall ls l s' o w h,
  TIx (sys_run c ls) h -> ulabel (sys_run c ls) l -> sys_step c (sys_run c ls) l = Some (s', o, w) ->
  y_result s' <> None \/ exists h', TIx s' h' /\ lex3 (meas3 s' h') (meas3 (sys_run c ls) h).
Proof.
  intros ls l s' o w h HT Hu E. set (s := sys_run c ls) in *.
  assert (Hr : y_result s = None) by (unfold sys_step in E; destruct (y_result s); [discriminate|reflexivity]).
  destruct (ginv_run ls) as [(X & HS)|R]; [|contradiction]. fold s in X, HS.
  assert (Hm : d_max_restart (y_d s) <> None).
  { pose proof (restart_frame c ls) as F. fold s in F. rewrite F, Hbudget. discriminate. }
  destruct (step_lex3 s l s' o w h X HS HT Hm Hu E) as [A|(h' & _ & _ & A & _ & B)]; [left; exact A|right; eauto].
Qed.

Theorem steal_crash_c02_ghost : forall ls, y_result (sys_run c ls) = None -> TIx (sys_run c ls) 1.
Proof.
  intros ls Hr. destruct (ginv_run ls) as [(X & _)|R]; [|contradiction]. apply (TIx_of_xw c). exact X.
Qed.

(* ---- no infinite run of useful moves and crashes ---- *)
Lemma no_inf_run_from3 s h :
  XW c s -> SHx s -> TIx s h -> d_max_restart (y_d s) <> None -> forall f, ~ inf_run c s f.
Proof.
  intros X HS HT Hm. pose proof (lex3_wf (meas3 s h)) as A. remember (meas3 s h) as m eqn:Em.
  revert s h X HS HT Hm Em. induction A as [m _ IH]. intros s h X HS HT Hm -> f Hf.
  destruct (Hf 0) as (Hu & He). cbn [st_after] in Hu, He.
  destruct (sys_step c s (f 0)) as [[[s' o] w]|] eqn:E; [|congruence].
  pose proof (inf_run_tail c s f s' o w E Hf) as Hf'.
  assert (DEAD : y_result s' <> None -> False).
  { intros Hr. destruct (Hf' 0) as (_ & He'). cbn [st_after] in He'. apply He'.
    unfold sys_step. destruct (y_result s'); [reflexivity|contradiction]. }
  destruct (step_lex3 s (f 0) s' o w h X HS HT Hm Hu E) as [Hr|(h' & X' & HS' & HT' & Hm' & Hlt)]; [exact (DEAD Hr)|].
  apply (IH (meas3 s' h') Hlt s' h' X' HS' HT' ltac:(congruence) eq_refl _ Hf').
Qed.

Theorem steal_crash_c02_terminates : forall ls f, ~ inf_run c (sys_run c ls) f.
Proof.
  intros ls f. destruct (ginv_run ls) as [(X & HS)|R].
  - apply (no_inf_run_from3 _ 1 X HS (TIx_of_xw c _ X)). rewrite (restart_frame c ls), Hbudget. discriminate.
  - intros Hf. destruct (Hf 0) as (_ & He). cbn [st_after] in He. apply He.
    unfold sys_step. destruct (y_result (sys_run c ls)); [reflexivity|contradiction].
Qed.

(* ---- a bound on the length of every run of useful moves and crashes ---- *)
Lemma enabled_in_cands3 s l : XW c s -> sys_step c s l <> None -> In l (cands s).
Proof.
  intros X H. pose proof X as [_ Hi _ _ _ _ _ _].
  assert (W : forall n w0, aget n (y_w s) = Some w0 -> In n (seq 0 (d_next_gw (y_d s)))).
  { intros n w0 Ew. apply in_seq. pose proof (worker_ltx c s n w0 X Ew). lia. }
  assert (IN : forall n (l0 : label), In n (seq 0 (d_next_gw (y_d s))) ->
             In l0 [LDeliver n; LRecvW n; LMain n; LRecv n; LCrash n] -> In l0 (cands s)).
  { intros n l0 Hn Hl. right. apply in_flat_map. exists n. split; assumption. }
  unfold sys_step in H. destruct (y_result s); [congruence|].
  destruct l as [n|n|n|n| |n].
  - destruct (mem_nat n (y_dead s)); [congruence|].
    destruct (aget n (y_down s)) as [[|cm rest]|]; try congruence.
    destruct (aget n (y_w s)) as [w0|] eqn:Ew; [|congruence]. eapply IN; [eapply W; eauto|cbn; auto].
  - destruct (mem_nat n (y_dead s)); [congruence|].
    destruct (aget n (y_w s)) as [w0|] eqn:Ew; [|congruence]. eapply IN; [eapply W; eauto|cbn; auto].
  - destruct (mem_nat n (y_dead s)); [congruence|].
    destruct (aget n (y_w s)) as [w0|] eqn:Ew; [|congruence]. eapply IN; [eapply W; eauto|cbn; auto].
  - destruct (aget n (y_up s)) as [[|m rest]|] eqn:Eu; try congruence.
    eapply IN; [|cbn; auto 10]. apply in_seq.
    destruct (Nat.lt_ge_cases n (d_next_gw (y_d s))) as [Hl|Hl]; [lia|].
    destruct (Hi n Hl) as (_ & F & _). rewrite (alist_get_some [] _ _ _ Eu) in F. discriminate.
  - left. reflexivity.
  - destruct (mem_nat n (y_dead s)); [congruence|].
    destruct (aget n (y_w s)) as [w0|] eqn:Ew; [|congruence]. eapply IN; [eapply W; eauto|cbn; auto 10].
Qed.

Lemma bounded_from3 s h :
  XW c s -> SHx s -> TIx s h -> d_max_restart (y_d s) <> None ->
  exists B, forall ls, urun c s ls -> length ls <= B.
Proof.
  intros X HS HT Hm. pose proof (lex3_wf (meas3 s h)) as A. remember (meas3 s h) as m eqn:Em.
  revert s h X HS HT Hm Em. induction A as [m _ IH]. intros s h X HS HT Hm ->.
  assert (SUCC : forall l s' o w, sys_step c s l = Some (s', o, w) -> ulabel s l ->
             exists B, forall r, urun c s' r -> length r <= B).
  { intros l s' o w E Hu.
    destruct (step_lex3 s l s' o w h X HS HT Hm Hu E) as [Hr|(h' & X' & HS' & HT' & Hm' & Hlt)].
    - exists 0. intros r. apply (urun_ended c Hpos). exact Hr.
    - apply (IH (meas3 s' h') Hlt s' h' X' HS' HT' ltac:(congruence) eq_refl). }
  assert (ALL : forall cs, exists B, forall l, In l cs -> forall s' o w r,
             sys_step c s l = Some (s', o, w) -> ulabel s l -> urun c s' r -> length r <= B).
  { induction cs as [|l cs IHcs]; [exists 0; intros l []|].
    destruct IHcs as (B1 & HB1).
    destruct (sys_step c s l) as [[[s' o] w]|] eqn:E.
    - destruct (ulabel_dec s l) as [Hu|Hnu].
      + destruct (SUCC l s' o w E Hu) as (B2 & HB2). exists (Nat.max B1 B2).
        intros l0 [<-|Hin] s0 o0 w0 r E0 Hu0 Hr.
        * rewrite E in E0. inv E0. specialize (HB2 r Hr). lia.
        * specialize (HB1 l0 Hin s0 o0 w0 r E0 Hu0 Hr). lia.
      + exists B1. intros l0 [<-|Hin] s0 o0 w0 r E0 Hu0 Hr; [contradiction|eapply HB1; eauto].
    - exists B1. intros l0 [<-|Hin] s0 o0 w0 r E0 Hu0 Hr; [congruence|eapply HB1; eauto]. }
  destruct (ALL (cands s)) as (B & HB). exists (S B). intros [|l r] H; [cbn; lia|].
  cbn [urun] in H. destruct H as (Hu & H).
  destruct (sys_step c s l) as [[[s' o] w]|] eqn:E; [|destruct H].
  assert (Hin : In l (cands s)) by (apply enabled_in_cands3; [exact X|congruence]).
  specialize (HB l Hin s' o w r E Hu H). cbn [length]. lia.
Qed.

Theorem steal_crash_c02_bounded : forall ls0, exists B, forall ls, urun c (sys_run c ls0) ls -> length ls <= B.
Proof.
  intros ls0. destruct (ginv_run ls0) as [(X & HS)|R].
  - apply (bounded_from3 _ 1 X HS (TIx_of_xw c _ X)). rewrite (restart_frame c ls0), Hbudget. discriminate.
  - exists 0. intros ls. apply (urun_ended c Hpos). exact R.
Qed.

End MainCTS.

Check steal_crash_c02_measure_run.
Print Assumptions steal_crash_c02_measure_run.
Check steal_crash_c02_measure.
Print Assumptions steal_crash_c02_measure.
Check steal_crash_c02_terminates.
Print Assumptions steal_crash_c02_terminates.
Check steal_crash_c02_bounded.
Print Assumptions steal_crash_c02_bounded.

(* ###################################### part F ###################################### *)
(* F.1 the potential, and its monotonicity in the bound W on the worker ids *)
Section PhiDefs.
Variable c : config.
Notation N := (c_numnodes c).
Notation X0 := (c_coll c).
Hypothesis Hpos : 0 < N.

(* all tokens: pool and books *)
Definition tokpotw (W : nat) (ws : wsstate) : nat :=
  match ws_coll ws with None => prepoolx c W | Some _ => sumf (pcostx c W) (wtokens ws) end.
(* the largest price of a withdrawal request *)
Definition PRx (W : nat) : nat := 5 + sumf (pcostx c W) (seq 0 (Tsumx c W)).
(* the largest value of Psix (ghost bit <= 1) *)
Definition PsiMaxx (W : nat) : nat := 8 * Tsumx c W + 7.
(* what a replacement worker adds to muxw: its shutdown budget and its boot potential *)
Definition bootcw (W n : nat) : nat := SDC + wpotw (cW c W) n w_init.
Definition Cx (W : nat) : nat := PRx W * (PsiMaxx W + 1).

Definition PhiW (s : sys) (h : nat) : nat :=
  muxw c (Wd (y_d s)) s + PRx (Wd (y_d s)) * Psix c s h +
  match d_sched (y_d s) with
  | StW ws => Kx (y_d s) * (tokpotw (Wd (y_d s)) ws + Cx (Wd (y_d s)))
  | _ => 0
  end +
  sumf (bootcw (Wd (y_d s))) (seq (d_next_gw (y_d s)) (Rem (y_d s))).

(* ---- monotonicity ---- *)
Lemma Tsumx_mono W' W : W' <= W -> Tsumx c W' <= Tsumx c W.
Proof. intros H. unfold Tsumx. rewrite (seq_split0 c Hpos W' W H), sumf_app. lia. Qed.

Lemma pcw_mono W' W i : W' <= W -> pcost (cW c W') i <= pcost (cW c W) i.
Proof. intros H. exact (pcostx_mono c Hpos W' W i H). Qed.

Lemma Pcw_mono W' W l : W' <= W -> sumf (pcost (cW c W')) l <= sumf (pcost (cW c W)) l.
Proof. intros H. apply sumf_le_in. intros x _. apply pcw_mono. exact H. Qed.

Lemma Pxw_mono W' W l : W' <= W -> sumf (pcostx c W') l <= sumf (pcostx c W) l.
Proof. intros H. apply sumf_le_in. intros x _. apply (pcostx_mono c Hpos). exact H. Qed.

Lemma stx_mono W' W cm : W' <= W -> stx (cW c W') cm <= stx (cW c W) cm.
Proof. intros H. destruct cm; cbn [stx]; try lia. pose proof (Pcw_mono W' W ixs H). lia. Qed.

Lemma rplcost_mono W' W r : W' <= W -> rplcost (cW c W') r <= rplcost (cW c W) r.
Proof. intros H. destruct r as [l|]; cbn [rplcost]; [|lia]. pose proof (Pcw_mono W' W l H). lia. Qed.

Lemma upx_mono W' W m : W' <= W -> upx (cW c W') m <= upx (cW c W) m.
Proof. intros H. destruct m as [e| | | | | | |]; cbn [upx]; try lia. destruct e; try lia. apply Pcw_mono. exact H. Qed.

Lemma evx_mono W' W ev : W' <= W -> evx (cW c W') ev <= evx (cW c W) ev.
Proof. intros H. destruct ev; cbn [evx]; try lia. apply Pcw_mono. exact H. Qed.

Lemma wpotw_mono W' W n w : W' <= W -> wpotw (cW c W') n w <= wpotw (cW c W) n w.
Proof.
  intros H. unfold wpotw. change (wpot (cW c W') n w) with (wpot (cW c W) n w).
  pose proof (rplcost_mono W' W (wreply w) H).
  assert (sumf (stx (cW c W')) (winbox w) <= sumf (stx (cW c W)) (winbox w)) by (apply sumf_le_in; intros x _; apply stx_mono; exact H).
  lia.
Qed.

Lemma dcostw_mono W' W n cs : W' <= W -> dcostw (cW c W') n cs <= dcostw (cW c W) n cs.
Proof.
  intros H. unfold dcostw. change (dcost (cW c W') n cs) with (dcost (cW c W) n cs).
  assert (sumf (stx (cW c W')) cs <= sumf (stx (cW c W)) cs) by (apply sumf_le_in; intros x _; apply stx_mono; exact H).
  lia.
Qed.

Lemma nodepotxw_mono W' W s n : W' <= W -> nodepotxw c W' s n <= nodepotxw c W s n.
Proof.
  intros H. unfold nodepotxw.
  assert (A : sumf (upx (cW c W')) (alist_get [] n (y_up s)) <= sumf (upx (cW c W)) (alist_get [] n (y_up s)))
    by (apply sumf_le_in; intros x _; apply upx_mono; exact H).
  destruct (mem_nat n (y_dead s)); [lia|].
  pose proof (dcostw_mono W' W n (alist_get [] n (y_down s)) H).
  destruct (aget n (y_w s)) as [w|]; [pose proof (wpotw_mono W' W n w H)|]; lia.
Qed.

Lemma poolpotxw_mono W' W ws : W' <= W -> poolpotxw c W' ws <= poolpotxw c W ws.
Proof. intros H. unfold poolpotxw. destruct (ws_coll ws); [apply Pxw_mono|apply (prepoolx_mono c Hpos)]; exact H. Qed.

Lemma muxw_mono W' W s : W' <= W -> muxw c W' s <= muxw c W s.
Proof.
  intros H. unfold muxw, ctlpotxw.
  assert (A : sumf (evx (cW c W')) (y_evq s) <= sumf (evx (cW c W)) (y_evq s))
    by (apply sumf_le_in; intros x _; apply evx_mono; exact H).
  assert (B : sumf (nodepotxw c W' s) (seq 0 (d_next_gw (y_d s))) <= sumf (nodepotxw c W s) (seq 0 (d_next_gw (y_d s))))
    by (apply sumf_le_in; intros x _; apply nodepotxw_mono; exact H).
  destruct (d_sched (y_d s)) as [ls|ws|sc|es]; try lia.
  pose proof (poolpotxw_mono W' W ws H). lia.
Qed.

Lemma psix_mono W' W G ws h : W' <= W -> psix c W' G ws h <= psix c W G ws h.
Proof.
  intros H. unfold psix, Ux, Fx. pose proof (Tsumx_mono W' W H). destruct (ws_coll ws); lia.
Qed.

Lemma PRx_mono W' W : W' <= W -> PRx W' <= PRx W.
Proof.
  intros H. unfold PRx.
  pose proof (Pxw_mono W' W (seq 0 (Tsumx c W')) H).
  pose proof (sumf_seq_prefix c Hpos (pcostx c W) 0 (Tsumx c W) (Tsumx c W') (Tsumx_mono W' W H)). lia.
Qed.

Lemma PsiMaxx_mono W' W : W' <= W -> PsiMaxx W' <= PsiMaxx W.
Proof. intros H. unfold PsiMaxx. pose proof (Tsumx_mono W' W H). lia. Qed.

Lemma Cx_mono W' W : W' <= W -> Cx W' <= Cx W.
Proof. intros H. unfold Cx. apply Nat.mul_le_mono; [apply PRx_mono; exact H|pose proof (PsiMaxx_mono W' W H); lia]. Qed.

Lemma tokpotw_mono W' W ws : W' <= W -> tokpotw W' ws <= tokpotw W ws.
Proof. intros H. unfold tokpotw. destruct (ws_coll ws); [apply Pxw_mono|apply (prepoolx_mono c Hpos)]; exact H. Qed.

Lemma bootcw_mono W' W n : W' <= W -> bootcw W' n <= bootcw W n.
Proof. intros H. unfold bootcw. pose proof (wpotw_mono W' W n w_init H). lia. Qed.

Lemma boots_mono W' W l : W' <= W -> sumf (bootcw W') l <= sumf (bootcw W) l.
Proof. intros H. apply sumf_le_in. intros x _. apply bootcw_mono. exact H. Qed.

(* ---- the tokens are test indices of THE collection ---- *)
Lemma tokens_len_le G ws X : LJX N X0 G ws -> ws_coll ws = Some X -> length (wtokens ws) <= length X.
Proof.
  intros J Ec. rewrite <- (seq_length (length X) 0). apply NoDup_incl_length; [apply (xj_nd _ _ _ _ J)|].
  intros i Hi. apply in_seq. pose proof (xj_valid _ _ _ _ J X Ec i Hi). lia.
Qed.

(* ---- the largest value of the potential of the books ---- *)
Lemma psix_le W G ws h :
  LJX N X0 G ws -> (forall X, ws_coll ws = Some X -> length X <= Tsumx c W) -> h <= 1 ->
  psix c W G ws h <= PsiMaxx W.
Proof.
  intros J HX Hh. unfold psix, PsiMaxx, Ux, Fx.
  assert (S1 : match ws_steal ws with Some _ => 0 | None => 1 end <= 1) by (destruct (ws_steal ws); lia).
  destruct (ws_coll ws) as [X|] eqn:Ec; [|lia].
  pose proof (tokens_len_le G ws X J Ec) as L1. specialize (HX X eq_refl).
  pose proof (tokens_len c G ws J) as TL.
  pose proof (sumf_le_total (fun n => length (bkw ws n)) (seq 0 G)) as Y. unfold deepx. unfold booksumx in TL. lia.
Qed.

(* ---- the price of the withdrawal requests among the outputs of a controller iteration ---- *)
Lemma stealcost_le W G ws' o :
  LJX N X0 G ws' -> STAIL ws' o -> (forall X, ws_coll ws' = Some X -> length X <= Tsumx c W) ->
  stealcost (cW c W) o <= PRx W * length (steal_reqs o).
Proof.
  intros J TL HX. change (PRx W) with (PRmax (cW c W)). apply stealcost_bound.
  intros v ixs Hin. destruct (TL v ixs Hin) as (keep & Eb & _ & _).
  assert (ND : NoDup (bkw ws' v)) by (apply bkw_nodup; apply (xj_nd _ _ _ _ J)).
  rewrite Eb in ND. split; [apply WorkerProofs.nodup_app_r in ND; exact ND|].
  intros i Hi.
  assert (Hit : In i (wtokens ws')).
  { unfold StealProofs.tokens. apply in_or_app. right. apply (in_bkw_books ws' v i). rewrite Eb. apply in_or_app. right. exact Hi. }
  destruct (ws_coll ws') as [X|] eqn:Ec.
  - pose proof (xj_valid _ _ _ _ J X Ec i Hit). specialize (HX X eq_refl).
    change (Tsum (cW c W)) with (Tsumx c W). lia.
  - rewrite (xj_b0 _ _ _ _ J Ec) in Hit. destruct Hit.
Qed.

End PhiDefs.

(* ====================================================================================== *)
(* F.2 the iteration that handles an errordown, without re-queueing: pool and books         *)
(* ====================================================================================== *)
Lemma steal_reqs_app a b : steal_reqs (a ++ b) = steal_reqs a ++ steal_reqs b.
Proof. unfold steal_reqs. apply flat_map_app. Qed.

Lemma no_steal_noreqs o : (forall v ixs, ~ In (OSend v (CSteal ixs)) o) -> steal_reqs o = [].
Proof.
  induction o as [|x o IH]; intros H; [reflexivity|].
  unfold steal_reqs. cbn [flat_map]. fold (steal_reqs o). rewrite IH by (intros v ixs Hin; apply (H v ixs); right; exact Hin).
  rewrite app_nil_r. destruct x as [hk|m cm| |]; try reflexivity. destruct cm as [ixs| |ixs| |]; try reflexivity.
  exfalso. apply (H m ixs). left. reflexivity.
Qed.

Lemma calmo_noreqs o : calmo o -> steal_reqs o = [].
Proof. intros C. apply no_steal_noreqs. intros v ixs. apply calmo_nosteal. exact C. Qed.

(* the collection stays, no empty run command, requests name the tail of a book, at most one request, and the
   tokens (pool and books) lose the crash item at most *)
Definition EZ (ws ws' : wsstate) (o : list out) : Prop :=
  ws_coll ws' = ws_coll ws /\ Forall Q_ne o /\ STAIL ws' o /\ length (steal_reqs o) <= 1 /\
  exists cr, Permutation (cr ++ wtokens ws') (wtokens ws).

Lemma EZ_post ws ws1 ws2 o1 o2 :
  EZ ws ws1 o1 -> ws_n2p ws2 = ws_n2p ws1 -> ws_pending ws2 = ws_pending ws1 -> ws_coll ws2 = ws_coll ws1 ->
  calmo o2 -> Forall Q_ne o2 -> EZ ws ws2 (o1 ++ o2).
Proof.
  intros (A & B & C0 & D & (cr & E)) F1 F2 F3 Ho Hne.
  assert (Et : wtokens ws2 = wtokens ws1) by (unfold StealProofs.tokens, StealProofs.books; rewrite F1, F2; reflexivity).
  split; [congruence|]. split; [apply Forall_app; split; assumption|]. split; [|split].
  - intros v ixs Hin. apply in_app_or in Hin. destruct Hin as [Hin|Hin].
    + unfold bkw. rewrite F1. exact (C0 v ixs Hin).
    + exfalso. exact (calmo_nosteal _ _ _ Ho Hin).
  - rewrite steal_reqs_app, (calmo_noreqs o2 Ho), app_nil_r. exact D.
  - exists cr. rewrite Et. exact E.
Qed.

Lemma EZ_hook ws ws1 h o : EZ ws ws1 o -> EZ ws ws1 (OHook h :: o).
Proof.
  intros (A & B & C0 & D & E). split; [exact A|]. split; [constructor; [exact I|exact B]|].
  split; [apply STAIL_hook; exact C0|]. split; [exact D|exact E].
Qed.

Section ErrZ.
Variable N : nat.
Variable collf : nat -> list string.
Hypothesis HN : 0 < N.

Lemma try_block_ez n d ws da oa wsa :
  DJX0 N collf d ws -> d_requeue d = 0 -> try_block n d = (da, oa, Ok tt) -> d_sched da = StW wsa -> EZ ws wsa oa.
Proof.
  intros [Els J AL RQ JB K2] Hrq H Hsa. unfold try_block in H.
  rewrite (sched_op_runx _ d ws Els) in H. cbn [s_step] in H.
  destruct (ws_remove_node n ws) as [[ws2 o2] r2] eqn:Er. cbn [lift] in H.
  assert (CK : forall mid ws1 o3 r3, ws_check_schedule mid = (ws1, o3, r3) ->
             ws_coll ws1 = ws_coll mid /\ Forall Q_ne o3 /\ STAIL ws1 o3 /\ length (steal_reqs o3) <= 1 /\
             Permutation (wtokens ws1) (wtokens mid)).
  { intros mid ws1 o3 r3 Em.
    destruct (StealProofs.check_frame _ _ _ _ Em) as (_ & Kc & _).
    destruct (check_TWv _ _ _ _ Em) as (_ & _ & _ & _ & P & _).
    split; [exact Kc|]. split; [exact (ne_ws_check_schedule _ _ _ _ Em)|]. split; [exact (check_tail _ _ _ _ Em)|].
    split; [exact (proj1 (W2_single_steal _ _ _ _ Em))|exact P]. }
  destruct (aget n (ws_n2p ws)) as [[|i rest]|] eqn:Eb.
  - (* empty book *)
    rewrite (W7_eq_idle n ws Eb) in Er. set (mid := rn_mid n ws []) in *.
    destruct (ws_check_schedule mid) as [[ws1 o3] r3] eqn:Em.
    destruct (CK _ _ _ _ Em) as (Kc & NE & TL & L1 & P).
    pose proof (W10_check_schedule_never_raises _ _ _ _ Em) as ->. inv Er. inv H. cbn in Hsa. inv Hsa.
    split; [rewrite Kc; reflexivity|]. split; [exact NE|]. split; [exact TL|]. split; [exact L1|].
    exists []. cbn [app]. rewrite P.
    unfold StealProofs.tokens, StealProofs.books, mid, rn_mid. wsproj. rewrite app_nil_r. apply Permutation_app_head.
    pose proof (books_adel n [] _ Eb) as P2. cbn [app] in P2. symmetry. exact P2.
  - (* the head of the book is the crash item *)
    assert (Hit : In i (wtokens ws)).
    { unfold StealProofs.tokens. apply in_or_app. right. apply (in_bkw_books ws n i). rewrite (bkw_some ws n _ Eb). left. reflexivity. }
    assert (EXc : exists X, ws_coll ws = Some X).
    { destruct (ws_coll ws) as [X|] eqn:E; [eauto|]. rewrite (xj_b0 _ _ _ _ J E) in Hit. destruct Hit. }
    destruct EXc as (X & Ecoll).
    assert (Hi : i < length X) by (apply (xj_valid _ _ _ _ J X Ecoll); exact Hit).
    destruct (nth_error X i) as [item|] eqn:Enth; [|apply nth_error_None in Enth; lia].
    rewrite (W7_eq n ws i rest X item Eb Ecoll Enth) in Er. set (mid := rn_mid n ws rest) in *.
    destruct (ws_check_schedule mid) as [[ws1 o3] r3] eqn:Em.
    destruct (CK _ _ _ _ Em) as (Kc & NE & TL & L1 & P).
    pose proof (W10_check_schedule_never_raises _ _ _ _ Em) as ->. inv Er. cbn [lift] in H.
    unfold d_handle_crashitem, hook in H. rewrite mbind_emit, mbind_get in H. cbn [d_requeue d_set_sched] in H.
    rewrite Hrq in H. rewrite mbind_ret in H. unfold emit in H. inv H. cbn in Hsa. inv Hsa.
    apply (EZ_post ws wsa wsa); try reflexivity; [|apply calmo_nocmd; reflexivity|repeat constructor].
    split; [rewrite Kc; reflexivity|]. split; [exact NE|]. split; [exact TL|]. split; [exact L1|].
    exists [i]. cbn [app]. rewrite P.
    unfold StealProofs.tokens, StealProofs.books, mid, rn_mid. wsproj. pose proof (books_adel n _ _ Eb) as P2. perm_count.
  - (* not scheduled: KeyError, swallowed *)
    rewrite (ws_remove_node_unknownx n ws Eb) in Er. injection Er as <- <- <-. cbn [lift] in H. inv H.
    cbn in Hsa. inv Hsa.
    split; [reflexivity|]. split; [constructor|]. split; [apply STAIL_nil|]. split; [cbn; lia|]. exists []. reflexivity.
Qed.


(* ---- errordown, the whole handler ---- *)
Lemma errordown_ez n d ws d1 o1 ws1 :
  DJX N collf d ws -> PREX collf (QErrorDown n) d ws -> d_requeue d = 0 ->
  d_handle (QErrorDown n) d = (d1, o1, Ok tt) -> d_sched d1 = StW ws1 ->
  d_requeue d1 = 0 /\ EZ ws ws1 o1.
Proof.
  intros (J0 & _) Hina Hrq H Els1. cbn [PREX] in Hina. pose proof J0 as [Els J AL RQ JB K2].
  cbn [d_handle] in H. rewrite errordown_unfold in H.
  apply LoadProofs.mbind_inv in H. destruct H as [(e & Hh & F)|(d0 & o0 & [] & oR & Hh & E & ->)]; [discriminate|].
  rewrite hook_run in Hh. injection Hh as <- <-. rename d1 into dx.
  apply LoadProofs.mbind_inv in E. destruct E as [(e & Ht & F)|(da & oa & [] & ob & Ht & E & ->)]; [discriminate|].
  destruct (try_block_effx _ _ HN _ _ _ _ _ _ J0 Ht) as (_ & wsa & voa & rqa & Eda & _ & Ja & Trq & _).
  assert (Hsa : d_sched da = StW wsa) by (rewrite Eda; reflexivity).
  pose proof (try_block_ez n d ws da oa wsa J0 Hrq Ht Hsa) as EZa.
  rewrite (Trq Hrq) in Eda. subst da. clear Hsa.
  assert (HnG : n < d_next_gw d) by (apply AL; exact Hina).
  assert (Efn : exists fn, aget n (ws_nt wsa) = Some fn).
  { destruct (aget n (ws_nt wsa)) as [fn|] eqn:Ef; [eauto|]. exfalso. apply (proj2 (xj_ntk _ _ _ _ Ja n) HnG). exact Ef. }
  destruct Efn as (fn & Efn).
  rewrite mbind_get in E. cbv zeta in E. rewrite mbind_put in E.
  set (da := d_set_requeue (d_set_sched d (StW wsa)) 0) in *.
  set (db := d_set_failed_nodes da (d_failed_nodes da + 1)%Z) in *.
  assert (FIN : forall ob2 ws2, ws_n2p ws2 = ws_n2p wsa -> ws_pending ws2 = ws_pending wsa -> ws_coll ws2 = ws_coll wsa ->
            calmo ob2 -> Forall Q_ne ob2 -> EZ ws ws2 (OHook (HNodeDown n true) :: oa ++ ob2)).
  { intros ob2 ws2 F1 F2 F3 Co Ne. apply EZ_hook. apply (EZ_post ws wsa ws2); assumption. }
  change (d_max_restart da) with (d_max_restart d) in E. change (d_failed_nodes da) with (d_failed_nodes d) in E.
  assert (TRIG : forall m0, ((hook (HSummary (m0 =? 0)%Z) ;;; d_triggershutdown) ;;; d_active_remove n) db = (dx, ob, Ok tt) ->
            d_requeue dx = 0 /\ EZ ws ws1 (OHook (HNodeDown n true) :: oa ++ ob)).
  { intros m0 E0.
    apply LoadProofs.mbind_inv in E0. destruct E0 as [(e & Hg & F)|(dc & oc & [] & od & Hg & E2 & ->)]; [discriminate|].
    apply LoadProofs.mbind_inv in Hg. destruct Hg as [(e & Hh & F)|(d0 & o0 & [] & oR & Hh & Hg & ->)]; [discriminate|].
    rewrite hook_run in Hh. injection Hh as <- <-.
    pose proof (ne_triggershutdown _ _ _ _ Hg) as NE2.
    destruct (trigger_effx _ _ _ db wsa _ _ _ eq_refl Ja Hg) as (_ & ws2 & vo2 & -> & T2 & -> & F2 & _).
    assert (Hin2 : In n (d_active (d_withw db true ws2))) by exact Hina.
    rewrite (active_remove_run n _ Hin2) in E2. inv E2. cbn in Els1. inv Els1.
    split; [reflexivity|]. rewrite app_nil_r.
    destruct F2 as (F1 & F2 & F3 & F4 & F5 & F6 & F7).
    apply FIN; auto.
    - apply (calmo_app [OHook (HSummary (m0 =? 0)%Z)]); [apply calmo_nocmd; reflexivity|].
      eapply (calmo_TW_ntonly N HN); [exact T2|]. repeat split; assumption.
    - constructor; [exact I|exact NE2]. }
  assert (CLONE : (((d2 <- get ;; put (d_set_shuttingdown d2 false)) ;;; d_clone_node n) ;;; d_active_remove n) db = (dx, ob, Ok tt) ->
            d_requeue dx = 0 /\ EZ ws ws1 (OHook (HNodeDown n true) :: oa ++ ob)).
  { intros E0.
    assert (CL : ((d2 <- get ;; put (d_set_shuttingdown d2 false)) ;;; d_clone_node n) db =
                 (d_set_active (d_set_next_gw (d_set_sched (d_set_shuttingdown db false)
                     (StW (ws_set_nt wsa (aset (d_next_gw d) (mkfresh (n_spec fn)) (ws_nt wsa))))) (S (d_next_gw d)))
                    (d_active d ++ [d_next_gw d]),
                  [OHook (HSpawn (d_next_gw d) (n_spec fn))], Ok tt)).
    { unfold mbind at 1. rewrite mbind_get. unfold put.
      rewrite (clone_runx n (d_set_shuttingdown db false) wsa fn eq_refl Efn). reflexivity. }
    apply LoadProofs.mbind_inv in E0. destruct E0 as [(e & Hg & F)|(dc & oc & [] & od & Hg & E2 & ->)]; [discriminate|].
    rewrite CL in Hg. injection Hg as <- <-. clear CL.
    match type of E2 with d_active_remove n ?D = _ => set (dc := D) in * end.
    assert (Hin2 : In n (d_active dc)) by (unfold dc; cbn; apply in_or_app; left; exact Hina).
    rewrite (active_remove_run n _ Hin2) in E2. inv E2. cbn in Els1. inv Els1.
    split; [reflexivity|]. rewrite app_nil_r.
    apply FIN; try reflexivity; [apply calmo_nocmd; reflexivity|repeat constructor]. }
  destruct (d_max_restart d) as [m0|] eqn:Emr.
  - destruct (m0 <? d_failed_nodes d + 1)%Z.
    + exact (TRIG m0 E).
    + exact (CLONE E).
  - exact (CLONE E).
Qed.

(* ---- the whole iteration ---- *)
Theorem loop_ez n d ws d' o ws' :
  DJX N collf d ws -> PREX collf (QErrorDown n) d ws -> d_requeue d = 0 ->
  d_loop_once (QErrorDown n) d = (d', o, Ok tt) -> d_sched d' = StW ws' ->
  d_requeue d' = 0 /\ EZ ws ws' o.
Proof.
  intros DJd Hpre Hrq H Els'. rewrite loop_once_unfold in H.
  apply LoadProofs.mbind_inv in H. destruct H as [(e & _ & F)|(d1 & o1 & [] & o2 & H1 & H2 & ->)]; [discriminate|].
  destruct (handle_heffx _ _ HN _ _ _ _ _ _ DJd Hpre H1) as (_ & ws1 & vo1 & E1).
  pose proof (hx_dj _ _ _ _ _ _ _ _ E1) as J1. pose proof J1 as [Els1 JJ1 _ _ _ _].
  destruct (errordown_ez _ _ _ _ _ _ DJd Hpre Hrq H1 Els1) as (Hrq1 & EZ1).
  pose proof (ne_loop_rest _ _ _ _ H2) as NE2.
  destruct (loop_rest_effx _ _ _ _ _ _ _ _ Els1 JJ1 H2) as (_ & ws2 & vo2 & Ed' & T & Eo2 & F & _ & _).
  assert (ws' = ws2) by (rewrite Ed' in Els'; cbn in Els'; congruence). subst ws2.
  split; [rewrite Ed'; exact Hrq1|].
  pose proof F as (F1 & F2 & F3 & _).
  apply (EZ_post ws ws1 ws'); auto. rewrite Eo2. eapply (calmo_TW_ntonly N HN); eassumption.
Qed.

End ErrZ.

(* ====================================================================================== *)
(* F.3 the re-queue counter is only touched by the handler of errordown                     *)
(* ====================================================================================== *)
Definition rqR (d d' : dstate) : Prop := d_requeue d' = d_requeue d.
Definition anyout (o : out) : Prop := True.
Lemma rqR_refl d : rqR d d. Proof. reflexivity. Qed.
Lemma rqR_trans a b c : rqR a b -> rqR b c -> rqR a c.
Proof. unfold rqR. congruence. Qed.
Definition rqs {A} (m : D A) : Prop := dspec rqR anyout m.

Ltac u1 :=
  first
    [ apply (f_ret _ _ rqR_refl) | apply (f_raise _ _ rqR_refl)
    | apply (f_massert _ _ rqR_refl) | apply (f_of_opt _ _ rqR_refl)
    | apply (f_emit _ _ rqR_refl); exact I
    | apply f_put; reflexivity
    | match goal with |- from _ _ _ (mbind get _) => apply f_get end
    | match goal with |- from _ _ _ (mbind _ _) => apply (f_bind _ _ rqR_trans); [|intros ? ? ?] end
    | progress cbv zeta
    | match goal with
      | |- from _ _ _ (match ?x with _ => _ end) => destruct x
      | |- from _ _ _ (if ?x then _ else _) => destruct x
      | H : rqs ?m |- from _ _ _ ?m => apply H
      end ].
Ltac us := repeat u1.

Lemma anyout_all (o : list out) : Forall anyout o.
Proof. induction o; constructor; [exact I|assumption]. Qed.

Lemma rqs_sched_op op : rqs (d_sched_op op).
Proof.
  intros d d' o r H. destruct (d_sched_op_frame _ _ _ _ _ H) as ((st & ->) & _). split; [reflexivity|apply anyout_all].
Qed.
Lemma rqs_node_flags n : rqs (node_flags d_nt n).
Proof. intros d0. unfold node_flags. us. Qed.
Lemma rqs_node_send n cm : rqs (node_send d_nt n cm).
Proof. intros d0. unfold node_send. us; apply rqs_node_flags. Qed.
Lemma rqs_node_shutdown n : rqs (d_node_shutdown n).
Proof. intros d0. unfold d_node_shutdown, node_shutdown. us; try apply rqs_node_flags; try apply rqs_node_send. Qed.
Lemma rqs_triggershutdown : rqs d_triggershutdown.
Proof.
  intros d0. unfold d_triggershutdown. us.
  apply (f_mfor _ _ rqR_refl rqR_trans). intros n. apply rqs_node_shutdown.
Qed.
Lemma rqs_active_remove n : rqs (d_active_remove n).
Proof. intros d0. unfold d_active_remove. us. Qed.
Lemma rqs_handlefailures f : rqs (d_handlefailures f).
Proof. intros d0. unfold d_handlefailures. us. Qed.
Lemma rqs_hook h : rqs (hook h).
Proof. intros d0. unfold hook. apply (f_emit _ _ rqR_refl). exact I. Qed.

Ltac uh := us; try apply rqs_sched_op; try apply rqs_node_shutdown; try apply rqs_active_remove;
           try apply rqs_handlefailures; try apply rqs_hook.

Lemma rqs_handle ev : death_event ev = false -> rqs (d_handle ev).
Proof.
  destruct ev as [n|n ids|n key fl|n i|n i|n i k oc|n i ms|n ixs| |n|n sk|n]; cbn [death_event d_handle]; intros Hd d0;
    try discriminate; unfold hook; try (uh; fail).
  unfold d_worker_workerfinished, hook. destruct sk; try discriminate; uh.
Qed.

Lemma rqs_loop_rest : rqs loop_rest.
Proof. intros d0. unfold loop_rest. us; apply rqs_triggershutdown. Qed.

Lemma loop_once_requeue ev d d' o r :
  (forall n, ev <> QErrorDown n) -> (forall n, ev <> QFinished n SKKbd) ->
  d_loop_once ev d = (d', o, r) -> d_requeue d' = d_requeue d.
Proof.
  intros H1 H2 H. rewrite loop_once_unfold in H.
  assert (Hd : death_event ev = false).
  { destruct ev; try reflexivity; [destruct sk; try reflexivity; exfalso; exact (H2 _ eq_refl)|exfalso; exact (H1 _ eq_refl)]. }
  assert (S : rqs (d_handle ev ;;; loop_rest)).
  { apply (dspec_bind _ _ rqR_trans); [apply rqs_handle; exact Hd|intros _; apply rqs_loop_rest]. }
  exact (proj1 (S _ _ _ _ H)).
Qed.

(* ====================================================================================== *)
(* F.4 the steps of the system                                                              *)
(* ====================================================================================== *)
(* a step of the controller's state that leaves pool, books, collection and all counters alone *)
Definition SBK (d d' : dstate) : Prop :=
  d_requeue d' = d_requeue d /\ d_next_gw d' = d_next_gw d /\ d_failed_nodes d' = d_failed_nodes d /\
  d_max_restart d' = d_max_restart d /\ d_active d' = d_active d /\
  forall ws, d_sched d = StW ws ->
    exists ws', d_sched d' = StW ws' /\ ws_coll ws' = ws_coll ws /\ ws_pending ws' = ws_pending ws /\ ws_n2p ws' = ws_n2p ws.

Lemma SBK_refl d : SBK d d.
Proof. repeat split. intros ws E. exists ws. auto. Qed.

Lemma SBK_trans a b d : SBK a b -> SBK b d -> SBK a d.
Proof.
  intros (A1 & A2 & A3 & A4 & A5 & A6) (B1 & B2 & B3 & B4 & B5 & B6). repeat split; try congruence.
  intros ws E. destruct (A6 ws E) as (ws1 & E1 & X1 & X2 & X3). destruct (B6 ws1 E1) as (ws2 & E2 & Y1 & Y2 & Y3).
  exists ws2. split; [exact E2|]. split; [congruence|]. split; congruence.
Qed.

Lemma SBK_set_nt d nt : SBK d (d_set_nt d nt).
Proof.
  unfold d_set_nt. repeat split. intros ws E. cbn [d_sched d_set_sched]. rewrite E. cbn [s_set_nt].
  eexists. split; [reflexivity|]. auto.
Qed.

Section PhiStep.
Variable c : config.
Notation N := (c_numnodes c).
Notation X0 := (c_coll c).
Notation OR := (c_oracle c).
Hypothesis Hmode : c_mode c = MSteal.
Hypothesis Hng : no_garbled c.
Hypothesis Hpos : 0 < N.
Hypothesis Hrq : rq_ok c.

(* THE collection is some worker's: its length is bounded by the total length of the collections *)
Definition CBD (s : sys) : Prop :=
  forall ws X, d_sched (y_d s) = StW ws -> ws_coll ws = Some X -> length X <= Tsumx c (d_next_gw (y_d s)).

Lemma SBK_crash s n : SBK (y_d s) (y_d (crash_worker c s n)).
Proof.
  unfold crash_worker. cbn [y_d]. destruct (c_strict c); [|apply SBK_refl].
  destruct (aget n (d_nt (y_d s))); [apply SBK_set_nt|apply SBK_refl].
Qed.

Lemma SBK_close s n : SBK (y_d s) (y_d (close_if_dead s n)).
Proof.
  unfold close_if_dead. destruct (mem_nat n (y_dead s)); [|apply SBK_refl].
  destruct (aget n (d_nt (y_d s))) as [f|]; [|apply SBK_refl]. destruct (n_down f); [|apply SBK_refl].
  cbn [set_d y_d]. apply SBK_set_nt.
Qed.

(* every label but LCtl *)
Lemma nonctl_sbk s l s' o w :
  XW c s -> l <> LCtl -> sys_step c s l = Some (s', o, w) -> SBK (y_d s) (y_d s') /\ o = [].
Proof.
  intros X Hl H. pose proof X as [_ _ _ _ Eu _ _ _].
  unfold sys_step in H. destruct (y_result s); [discriminate|].
  destruct l as [n0|n0|n0|n0| |n0]; [| | | |contradiction|].
  - destruct (mem_nat n0 (y_dead s)); [discriminate|].
    destruct (aget n0 (y_down s)) as [[|cmd rest]|]; try discriminate.
    destruct (aget n0 (y_w s)); try discriminate. injection H as <- <- <-. split; [apply SBK_refl|reflexivity].
  - destruct (mem_nat n0 (y_dead s)); [discriminate|].
    destruct (aget n0 (y_w s)) as [w0|]; try discriminate.
    destruct (negb (wcb w0)); [discriminate|].
    destruct (recv_step (c_oracle c n0) w0). injection H as <- <- <-. split; [apply SBK_refl|reflexivity].
  - destruct (mem_nat n0 (y_dead s)); [discriminate|].
    destruct (aget n0 (y_w s)) as [w0|]; try discriminate.
    destruct (dies_now c n0 w0); [injection H as <- <- <-; split; [apply SBK_crash|reflexivity]|].
    destruct (main_step (c_oracle c n0) w0) as [[w' evs]|]; [|discriminate]. injection H as <- <- <-.
    split; [apply SBK_refl|reflexivity].
  - destruct (aget n0 (y_up s)) as [[|m rest]|] eqn:Eup; try discriminate. cbn [y_d] in H.
    destruct (process_from_remote n0 m (y_d s)) as [[d' outs] r] eqn:Ep.
    destruct (step_recvx c Hpos s n0 m rest d' outs r X Eup Ep) as (-> & evs & -> & X2).
    cbn [apply_outs] in H. injection H as <- <- <-. split; [|reflexivity].
    pose proof (Eu n0) as En. rewrite (alist_get_some [] _ _ _ Eup) in En. inversion En as [|m1 r1 Gm Gr]; subst.
    assert (Hm : m <> UBad) by (intros ->; exact Gm).
    eapply SBK_trans; [|apply SBK_close]. cbn [set_evq set_d y_d].
    destruct (pfr_shape' _ _ _ _ _ _ Hm Ep) as [->|(f & Ef & ->)]; [apply SBK_refl|apply SBK_set_nt].
  - destruct (mem_nat n0 (y_dead s)); [discriminate|].
    destruct (aget n0 (y_w s)) as [w0|]; try discriminate.
    destruct (wph w0); try discriminate; injection H as <- <- <-; (split; [apply SBK_crash|reflexivity]).
Qed.

(* the shape of a controller iteration after which the session goes on *)
Lemma ctl_shape s s' o w :
  XW c s -> sys_step c s LCtl = Some (s', o, w) -> y_result s' = None ->
  y_result s = None /\
  exists ev q d', y_evq s = ev :: q /\ d_loop_once ev (y_d s) = (d', o, Ok tt) /\
    s' = apply_outs (set_d (set_evq s q) d') o /\ y_d s' = d'.
Proof.
  intros X H Hres'. pose proof X as [_ _ _ _ _ Ea _ _].
  unfold sys_step in H. destruct (y_result s) eqn:Eres; [discriminate|]. split; [reflexivity|]. specialize (Ea eq_refl).
  destruct (d_active (y_d s)) as [|a0 ar] eqn:Eact; [contradiction|].
  destruct (y_evq s) as [|ev q] eqn:Eevq; [discriminate|].
  destruct (d_loop_once ev (y_d s)) as [[d' outs] r] eqn:El.
  destruct (step_ctl_corex c Hpos s ev q d' outs r X Eres Eevq El) as (-> & _ & _).
  destruct (apply_outs_frame outs (set_d (set_evq s q) d')) as (_ & F2 & _). cbn [set_d y_d] in F2.
  exists ev, q, d'.
  destruct (d_session_finished d').
  - inv H. cbn in Hres'. destruct (d_shouldstop d'); discriminate.
  - destruct (d_active d') as [|b0 br].
    + destruct (d_no_active d') as [[d2 o2] r2]. inv H. cbn in Hres'. discriminate.
    + inv H. auto.
Qed.


(* ---- LCtl, any event but errordown: the controller's side ---- *)
Lemma ctl_tok W s ev q d' outs ws :
  XW c s -> CBD s -> d_sched (y_d s) = StW ws -> d_next_gw (y_d s) <= W ->
  y_evq s = ev :: q -> (forall n, ev <> QErrorDown n) ->
  d_loop_once ev (y_d s) = (d', outs, Ok tt) ->
  exists ws', d_sched d' = StW ws' /\ LJX N X0 (d_next_gw (y_d s)) ws' /\
    tokpotw c W ws' <= tokpotw c W ws /\
    (forall X, ws_coll ws' = Some X -> length X <= Tsumx c (d_next_gw (y_d s))) /\
    STAIL ws' outs /\ d_requeue d' = d_requeue (y_d s).
Proof.
  intros X HC Els HW Eevq Hne El. pose proof X as [Lo Hi (ws0 & P & DJd & NIs & Pout) Eq Eu Ea Er Edead].
  pose proof DJd as ([Els0 J _ _ _ _] & _). assert (ws0 = ws) by congruence. subst ws0.
  pose proof (pre_from_invx c Hpos P s ws ev q X DJd NIs Eevq) as Hpre.
  destruct (loop_once_okx N X0 Hpos ev _ ws d' outs _ DJd Hpre El) as (_ & ws' & vo & Eo & E & DJ2 & _ & _).
  pose proof DJ2 as ([Els' J' _ _ _ _] & _).
  pose proof (loop_zx N X0 Hpos ev _ ws d' outs ws' DJd Hpre Hne El Els') as Z.
  destruct (zx_fr _ _ _ _ _ _ Z) as ((Ffl & Fm & Fg) & Fa). rewrite Fg in J'.
  set (G := d_next_gw (y_d s)) in *. set (p := pcostx c W).
  assert (NEW : forall XC, ws_coll ws = None -> ws_coll ws' = Some XC ->
            Permutation (wtokens ws') (seq 0 (length XC)) /\ exists k, k < G /\ XC = X0 k).
  { intros XC Ec Ec'. destruct (zx_coll _ _ _ _ _ _ Z XC Ec') as [F|(_ & PX & k & others & En2c)]; [congruence|].
    split; [exact PX|]. exists k.
    assert (Hk : In (k, XC) (ws_n2c ws')) by (rewrite En2c; left; reflexivity).
    split; [|exact (xj_ids _ _ _ _ J' k XC Hk)].
    apply (xj_n2c _ _ _ _ J'). unfold akeys. change k with (fst (k, XC)). apply in_map. exact Hk. }
  exists ws'. split; [exact Els'|]. split; [exact J'|]. split; [|split; [|split]].
  - unfold tokpotw. fold p. destruct (ws_coll ws) as [coll0|] eqn:Ec.
    + assert (Hc : ws_coll ws <> None) by (rewrite Ec; discriminate).
      rewrite (zx_keep _ _ _ _ _ _ Z Hc), Ec.
      pose proof (sumf_perm p _ _ (zx_tok _ _ _ _ _ _ Z Hc)) as PT. rewrite sumf_app in PT. lia.
    + destruct (ws_coll ws') as [XC|] eqn:Ec'; [|lia].
      destruct (NEW XC eq_refl eq_refl) as (PX & k & HkG & ->).
      rewrite (sumf_perm p _ _ PX). unfold prepoolx.
      apply (sumf_in_le (fun n0 => sumf (pcostx c W) (seq 0 (length (X0 n0))))). apply in_seq. lia.
  - intros XC Ec'. destruct (ws_coll ws) as [coll0|] eqn:Ec.
    + assert (Hc : ws_coll ws <> None) by (rewrite Ec; discriminate).
      rewrite (zx_keep _ _ _ _ _ _ Z Hc), Ec in Ec'. inv Ec'. exact (HC ws XC Els Ec).
    + destruct (NEW XC eq_refl Ec') as (_ & k & HkG & ->).
      unfold Tsumx. apply (sumf_in_le (fun n0 => length (X0 n0))). apply in_seq. lia.
  - exact (zx_tail _ _ _ _ _ _ Z).
  - apply (loop_once_requeue ev (y_d s) d' outs (Ok tt) Hne); [|exact El].
    intros n ->. cbn in Hpre. exact Hpre.
Qed.

(* ---- LCtl handling an errordown ---- *)
Lemma EZ_tok W ws ws' o : EZ ws ws' o -> tokpotw c W ws' <= tokpotw c W ws.
Proof.
  intros (A & _ & _ & _ & (cr & Pm)). unfold tokpotw. rewrite A. destruct (ws_coll ws); [|lia].
  rewrite <- (sumf_perm _ _ _ Pm), sumf_app. lia.
Qed.

Lemma muxw_ctl_err W s n q d' outs rr ws :
  XW c s -> d_sched (y_d s) = StW ws -> d_next_gw d' <= W -> y_result s = None -> y_evq s = QErrorDown n :: q ->
  d_requeue (y_d s) = 0 -> d_loop_once (QErrorDown n) (y_d s) = (d', outs, Ok tt) ->
  let s' := set_result (apply_outs (set_d (set_evq s q) d') outs) rr in
  muxw c W s' + 1 <= muxw c W s + tokpotw c W ws +
    (if Nat.eqb (d_next_gw d') (d_next_gw (y_d s)) then 0 else bootcw c W (d_next_gw (y_d s))) +
    stealcost (cW c W) outs.
Proof.
  intros X Els HW Eres Eevq Hrq0 El. cbv zeta. pose proof X as [Lo Hi (ws0 & P & DJd & NIs & Pout) Eq Eu Ea Er Edead].
  pose proof DJd as ([Els0 J AL _ _ _] & _). assert (ws0 = ws) by congruence. subst ws0.
  pose proof (pre_from_invx c Hpos P s ws _ q X DJd NIs Eevq) as Hpre.
  destruct (loop_once_okx N X0 Hpos _ _ ws d' outs _ DJd Hpre El) as (_ & ws' & vo & Eo & E & DJ2 & _ & _).
  pose proof DJ2 as ([Els' J' _ _ _ _] & _).
  destruct (loop_ez N X0 Hpos n _ ws d' outs ws' DJd Hpre Hrq0 El Els') as (_ & EZ1).
  pose proof EZ1 as (Ecoll & NE & _ & _ & (cr & Ptok)).
  destruct (ctl_frames c Hpos s _ q d' outs ws ws' vo X Eevq El DJd E Eo) as (F1 & F2 & F3 & UP & DOWN & WOLD & WNEW & OUTG & NDW & GW).
  set (G := d_next_gw (y_d s)) in *. set (p := pcostx c W).
  assert (HGW : G <= W) by lia.
  set (s1 := apply_outs (set_d (set_evq s q) d') outs) in *.
  (* the old nodes' shares *)
  set (extra := fun k => if mem_nat k (y_dead s) then 0 else dcostw (cW c W) k (cmds_to k outs)).
  assert (Enode : forall k, k < G -> nodepotxw c W (set_result s1 rr) k = nodepotxw c W s k + extra k).
  { intros k Hk. unfold nodepotxw, extra. cbn [set_result y_up y_down y_w y_dead]. rewrite F3, UP, DOWN, (WOLD k Hk).
    destruct (mem_nat k (y_dead s)); [lia|]. unfold dcostw, dcost. rewrite !sumf_app. lia. }
  assert (Hnode : forall k, In k (seq 0 G) ->
            extra k + sdnw ws' k <=
            sdnw ws k + sumf p (flat_map cmd_inds (cmds_to k vo)) + sumf (stcmd (cW c W)) (cmds_to k outs)).
  { intros k Hk. apply in_seq in Hk. assert (HkG : k < G) by lia.
    destruct (aget k (ws_nt ws)) as [f|] eqn:Ef; [|exfalso; apply (proj2 (xj_ntk _ _ _ _ J k) HkG); exact Ef].
    pose proof (hx_nt _ _ _ _ _ _ _ _ E k HkG) as R. rewrite Ef in R.
    destruct (aget k (ws_nt ws')) as [f'|] eqn:Ef'; [|destruct R]. cbn in R.
    rewrite (sdnw_some ws k f Ef), (sdnw_some ws' k f' Ef').
    assert (CM : cmds_to k outs = if closedb (ws_nt ws) k then [] else cmds_to k vo) by (rewrite Eo; apply cmds_to_vfilter).
    destruct (closedb (ws_nt ws) k) eqn:Ecl.
    - unfold extra. rewrite CM. unfold dcostw, dcost. rewrite !sumf_nil.
      destruct (NRW_fields _ _ _ R) as (_ & _ & _ & Dsd & _).
      assert (Z0 : sdterm f' <= sdterm f).
      { unfold sdterm. destruct (n_sdsent f) eqn:Es; [|destruct (n_sdsent f'); unfold SDC; lia].
        rewrite (proj2 Dsd (or_introl eq_refl)). lia. }
      destruct (mem_nat k (y_dead s)); lia.
    - assert (NEk : Forall ne_cmd (cmds_to k outs)) by (apply ne_cmds_to; exact NE).
      rewrite CM in NEk |- *.
      assert (HkW : k < c_numnodes (cW c W)) by (cbn; lia).
      pose proof (NRW_costw (cW c W) k f _ f' HkW R NEk) as Z0.
      change (pcost (cW c W)) with p in Z0.
      unfold extra. rewrite CM. destruct (mem_nat k (y_dead s)); lia. }
  assert (Hsum : sumf extra (seq 0 G) + sumf (sdnw ws') (seq 0 G) <=
                 sumf (sdnw ws) (seq 0 G) + sumf (fun k => sumf p (flat_map cmd_inds (cmds_to k vo))) (seq 0 G) +
                 stealcost (cW c W) outs).
  { pose proof (stcmd_sum (cW c W) (seq 0 G) outs (seq_NoDup G 0)) as St.
    assert (Y : sumf (fun k => extra k + sdnw ws' k) (seq 0 G) <=
                sumf (fun k => sdnw ws k + sumf p (flat_map cmd_inds (cmds_to k vo)) +
                               sumf (stcmd (cW c W)) (cmds_to k outs)) (seq 0 G))
      by (apply sumf_le_in; exact Hnode).
    rewrite !sumf_add in Y. lia. }
  assert (ESUM : sumf (nodepotxw c W (set_result s1 rr)) (seq 0 G) = sumf (nodepotxw c W s) (seq 0 G) + sumf extra (seq 0 G)).
  { rewrite <- sumf_add. apply sumf_ext_in. intros k Hk. apply in_seq in Hk. apply Enode. lia. }
  (* the pool: everything that is sent was a token *)
  assert (Hpool : sumf (fun k => sumf p (flat_map cmd_inds (cmds_to k vo))) (seq 0 G) + poolpotxw c W ws' <= tokpotw c W ws).
  { assert (LE1 : sumf (fun k => sumf p (flat_map cmd_inds (cmds_to k vo))) (seq 0 G) <= sumf p (wbooks ws')).
    { rewrite <- (books_sum c p (d_next_gw d') ws' J').
      eapply Nat.le_trans; [|apply (sumf_seq_prefix c Hpos _ 0 (d_next_gw d') G GW)].
      apply sumf_le_in. intros k _. rewrite (hx_bk _ _ _ _ _ _ _ _ E k), sumf_app. lia. }
    unfold poolpotxw, tokpotw. fold p. rewrite Ecoll. destruct (ws_coll ws) as [coll0|] eqn:Ec.
    - pose proof (sumf_perm p _ _ Ptok) as PT. unfold StealProofs.tokens in PT at 1. rewrite !sumf_app in PT. lia.
    - assert (Ec' : ws_coll ws' = None) by congruence.
      pose proof (xj_b0 _ _ _ _ J' Ec') as T1. unfold StealProofs.tokens in T1. apply app_eq_nil in T1.
      destruct T1 as (_ & B1). rewrite B1, sumf_nil in LE1. lia. }
  unfold muxw. cbn [set_result y_d y_evq]. rewrite F1, F2. fold G. unfold ctlpotxw. rewrite Els', Els, Eevq. fold G.
  cbn [length]. rewrite sumf_cons.
  destruct (hx_gw _ _ _ _ _ _ _ _ E) as [EG|(EG & (f & Ef & (Hf1 & Hf2 & Hf3)) & Hina & Hnn & Hnc)]; fold G in EG; rewrite EG.
  - rewrite Nat.eqb_refl, ESUM. lia.
  - fold G in Ef. assert (Enb : Nat.eqb (S G) G = false) by (apply Nat.eqb_neq; lia). rewrite Enb.
    rewrite !seq_S, !sumf_app, !sumf_cons, !sumf_nil. cbn [plus].
    assert (HdG : mem_nat G (y_dead s) = false).
    { apply mem_nat_false. intros Hin'. specialize (Edead _ Hin'). fold G in Edead. lia. }
    destruct (Hi G (le_n G)) as (_ & UG & DG).
    assert (EGn : nodepotxw c W (set_result s1 rr) G <= wpotw (cW c W) G w_init).
    { unfold nodepotxw. cbn [set_result y_up y_down y_w y_dead]. rewrite F3, UP, DOWN, HdG, UG, DG, (OUTG G (le_n G)).
      unfold dcostw, dcost. cbn [app length]. rewrite !sumf_nil.
      destruct (aget G (y_w s1)) as [wg|] eqn:Ewg; [|lia].
      destruct (WNEW G wg Ewg) as [F| ->]; [lia|lia]. }
    assert (ESG : sdnw ws' G = SDC) by (rewrite (sdnw_some ws' G f Ef); unfold sdterm; rewrite Hf1; reflexivity).
    rewrite ESG, ESUM. unfold bootcw. lia.
Qed.


(* the restart bookkeeping over one iteration: either no worker is started and the budget does not grow, or
   one replacement is started and uses one unit of the budget *)
Lemma loop_budget ev d d' o r :
  d_max_restart d <> None -> d_loop_once ev d = (d', o, r) ->
  (d_next_gw d' = d_next_gw d /\ Rem d' <= Rem d) \/ (d_next_gw d' = S (d_next_gw d) /\ S (Rem d') = Rem d).
Proof.
  intros Hm H. destruct (loop_once_step _ _ _ _ _ H) as (M & Fl & _ & SP). unfold Rem. rewrite M.
  destruct (d_max_restart d) as [m0|] eqn:Em; [|contradiction].
  destruct SP as [(_ & G0)|(_ & G1 & BA & F1 & _)].
  - left. split; [exact G0|lia].
  - right. split; [exact G1|]. unfold budget_allows in BA. rewrite Em in BA. apply negb_true_iff in BA. apply Z.ltb_ge in BA. lia.
Qed.

Lemma loop_Kx n d ws d' o :
  DJX N X0 d ws -> PREX X0 (QErrorDown n) d ws -> d_max_restart d <> None ->
  d_loop_once (QErrorDown n) d = (d', o, Ok tt) -> Kx d' < Kx d.
Proof.
  intros DJd Hpre Hmr El. rewrite loop_once_unfold in El.
  apply LoadProofs.mbind_inv in El. destruct El as [(e & _ & F)|(d1 & o1 & [] & o2 & H1 & H2 & ->)]; [discriminate|].
  destruct (handle_heffx _ _ Hpos _ _ _ _ _ _ DJd Hpre H1) as (_ & ws1 & vo1 & E1).
  pose proof (CrashSteal.hx_dj _ _ _ _ _ _ _ _ E1) as [Els1 JJ1 _ _ _ _].
  destruct (loop_rest_fields c d1 ws1 d' o2 Els1 JJ1 H2) as (K1 & _).
  cbn [PREX] in Hpre. destruct (errordown_Kx n d d1 o1 Hpre Hmr H1) as (K2 & _). lia.
Qed.

(* ---- every useful move and every crash makes PhiW smaller ---- *)
Theorem step_phiw s l s' o w h :
  XW c s -> SHx s -> TIx s h -> CBD s -> d_requeue (y_d s) = 0 -> d_max_restart (y_d s) <> None ->
  ulabel s l -> sys_step c s l = Some (s', o, w) ->
  y_result s' <> None \/
  (exists h', XW c s' /\ SHx s' /\ TIx s' h' /\ CBD s' /\ d_requeue (y_d s') = 0 /\
              d_max_restart (y_d s') <> None /\ PhiW c s' h' < PhiW c s h).
Proof.
  intros X HS HT HC Hrq0 Hmr Hu H.
  destruct (y_result s') as [rk|] eqn:Hres'; [left; discriminate|right].
  assert (X' : XW c s').
  { destruct (step_xw c Hng Hpos s l s' o w X H) as [A|(A & _)]; [exact A|congruence]. }
  pose proof (step_shx c Hpos s l s' o w X HS H Hres') as HS'.
  pose proof (step_max_restart c s l s' o w H) as EM.
  assert (Hmr' : d_max_restart (y_d s') <> None) by congruence.
  pose proof X as [Lo Hi (ws & P & DJd & NIs & Pout) Eq Eu Ea Er Edead].
  pose proof DJd as ([Els J AL _ _ _] & _).
  set (W := Wd (y_d s)). set (G := d_next_gw (y_d s)).
  assert (HGW : G <= W) by (unfold W, Wd; fold G; lia).
  destruct (label_eq_ctl l) as [->|Hl].
  2:{ (* every label but LCtl *)
    destruct (nonctl_sbk s l s' o w X Hl H) as ((B1 & B2 & B3 & B4 & B5 & B6) & ->).
    assert (Hnerr : l = LCtl -> forall n q, y_evq s <> QErrorDown n :: q) by (intros F; contradiction).
    destruct (step_psix c Hpos s l s' [] w h X HS HT H Hres' Hnerr) as (h' & HT' & HP). cbn [steal_reqs flat_map length] in HP.
    destruct (step_muxw c Hpos W s l s' [] w X HGW Hu Hnerr H) as (HM & _). unfold stealcost in HM. rewrite sumf_nil in HM.
    destruct (B6 ws Els) as (ws' & Els' & C1 & C2 & C3).
    exists h'. split; [exact X'|]. split; [exact HS'|]. split; [exact HT'|].
    split. { intros ws1 XC E1 Ec. assert (ws1 = ws') by congruence. subst ws1. rewrite B2. apply (HC ws XC Els). congruence. }
    split; [congruence|]. split; [exact Hmr'|].
    assert (EW : Wd (y_d s') = W) by (unfold W, Wd, Rem; rewrite B2, B3, B4; reflexivity).
    assert (EK : Kx (y_d s') = Kx (y_d s)) by (unfold Kx, Rem; rewrite B3, B4, B5; reflexivity).
    assert (ER : Rem (y_d s') = Rem (y_d s)) by (unfold Rem; rewrite B3, B4; reflexivity).
    assert (ET : tokpotw c W ws' = tokpotw c W ws).
    { unfold tokpotw, StealProofs.tokens, StealProofs.books. rewrite C1, C2, C3. reflexivity. }
    unfold PhiW. rewrite Els', Els, EW, EK, ER, B2, ET. fold W G.
    pose proof (Nat.mul_le_mono_l _ _ (PRx c W) (Nat.le_trans _ _ _ (Nat.le_add_r _ 0) HP)) as MP. lia. }
  (* the controller *)
  destruct (ctl_shape s s' o w X H Hres') as (Eres & ev & q & d' & Eevq & El & Es' & Ed').
  pose proof (pre_from_invx c Hpos P s ws ev q X DJd NIs Eevq) as Hpre.
  assert (DEC : (exists n, ev = QErrorDown n) \/ (forall n, ev <> QErrorDown n)).
  { destruct ev; try (right; intros ? F; discriminate). left. eexists. reflexivity. }
  destruct DEC as [(n & ->)|Hne].
  - (* the iteration that handles an errordown *)
    destruct (loop_once_okx N X0 Hpos _ _ ws d' o _ DJd Hpre El) as (_ & ws' & vo & _ & _ & DJ2 & _ & _).
    pose proof DJ2 as ([Els' J' _ _ _ _] & _).
    destruct (loop_ez N X0 Hpos n _ ws d' o ws' DJd Hpre Hrq0 El Els') as (Hrq' & EZ1).
    pose proof EZ1 as (Ecoll & _ & TL & L1 & _).
    pose proof (loop_Kx n _ ws d' o DJd Hpre Hmr El) as HK.
    pose proof (loop_budget _ _ _ _ _ Hmr El) as HB. fold G in HB.
    set (G' := d_next_gw d') in *. set (W' := Wd d').
    assert (HW' : W' <= W) by (unfold W', W, Wd; fold G G'; destruct HB as [(A & B)|(A & B)]; lia).
    assert (HGW' : G' <= W') by (unfold W', Wd; fold G'; lia).
    assert (HGG : G <= G') by (destruct HB as [(A & B)|(A & B)]; lia).
    assert (HC' : forall XC, ws_coll ws' = Some XC -> length XC <= Tsumx c G).
    { intros XC Ec'. apply (HC ws XC Els). congruence. }
    exists 1. split; [exact X'|]. split; [exact HS'|]. split; [apply (TIx_of_xw c); exact X'|].
    split. { intros ws1 XC E1 Ec. rewrite Ed' in E1. assert (ws1 = ws') by congruence. subst ws1. rewrite Ed'. fold G'.
             eapply Nat.le_trans; [apply (HC' XC Ec)|apply (Tsumx_mono c Hpos); exact HGG]. }
    split; [rewrite Ed'; exact Hrq'|]. split; [exact Hmr'|].
    (* the pieces *)
    pose proof (muxw_ctl_err W s n q d' o None ws X Els ltac:(fold G'; lia) Eres Eevq Hrq0 El) as A2. cbv zeta in A2.
    change (muxw c W (set_result (apply_outs (set_d (set_evq s q) d') o) None))
      with (muxw c W (apply_outs (set_d (set_evq s q) d') o)) in A2. rewrite <- Es' in A2. fold G G' in A2.
    pose proof (muxw_mono c Hpos W' W s' HW') as A1.
    assert (SC : stealcost (cW c W) o <= PRx c W).
    { pose proof (stealcost_le c Hpos W G' ws' o J' TL) as Z0.
      assert (Z1 : forall XC, ws_coll ws' = Some XC -> length XC <= Tsumx c W).
      { intros XC Ec'. eapply Nat.le_trans; [apply (HC' XC Ec')|apply (Tsumx_mono c Hpos); exact HGW]. }
      specialize (Z0 Z1). pose proof (Nat.mul_le_mono_l _ _ (PRx c W) L1). lia. }
    assert (PS : Psix c s' 1 <= PsiMaxx c W).
    { unfold Psix. rewrite Ed', Els'. fold W' G'.
      eapply Nat.le_trans; [|apply (PsiMaxx_mono c Hpos W' W HW')].
      apply (psix_le c Hpos W' G' ws' 1 J'); [|lia].
      intros XC Ec'. eapply Nat.le_trans; [apply (HC' XC Ec')|apply (Tsumx_mono c Hpos); lia]. }
    assert (A3 : PRx c W' * Psix c s' 1 <= PRx c W * PsiMaxx c W).
    { apply Nat.mul_le_mono; [apply (PRx_mono c Hpos); exact HW'|exact PS]. }
    pose proof (EZ_tok W ws ws' o EZ1) as TT.
    pose proof (tokpotw_mono c Hpos W' W ws' HW') as TM.
    pose proof (Cx_mono c Hpos W' W HW') as CM.
    set (T := tokpotw c W ws) in *. set (C0 := Cx c W) in *.
    assert (A4 : Kx d' * (tokpotw c W' ws' + Cx c W') + (T + C0) <= Kx (y_d s) * (T + C0)).
    { assert (M1 : Kx d' * (tokpotw c W' ws' + Cx c W') <= (Kx (y_d s) - 1) * (T + C0)) by (apply Nat.mul_le_mono; lia).
      assert (M2 : (Kx (y_d s) - 1) * (T + C0) + (T + C0) = Kx (y_d s) * (T + C0)).
      { destruct (Kx (y_d s)) as [|k0]; [lia|]. cbn. rewrite Nat.sub_0_r. lia. }
      lia. }
    assert (EC : C0 = PRx c W * PsiMaxx c W + PRx c W).
    { unfold C0, Cx. rewrite Nat.mul_add_distr_l, Nat.mul_1_r. reflexivity. }
    assert (A5 : (if Nat.eqb G' G then 0 else bootcw c W G) + sumf (bootcw c W') (seq G' (Rem d')) <=
                 sumf (bootcw c W) (seq G (Rem (y_d s)))).
    { pose proof (boots_mono c Hpos W' W (seq G' (Rem d')) HW') as BM.
      destruct HB as [(A & B)|(A & B)].
      - rewrite A, Nat.eqb_refl in *. pose proof (sumf_seq_prefix c Hpos (bootcw c W) G _ _ B). lia.
      - rewrite A in *. assert (Enb : Nat.eqb (S G) G = false) by (apply Nat.eqb_neq; lia). rewrite Enb.
        rewrite <- B. cbn [seq]. rewrite sumf_cons. lia. }
    unfold PhiW. rewrite Ed', Els', Els. fold W W' G G' T C0. lia.
  - (* any other event *)
    assert (Hnerr : LCtl = LCtl -> forall n q0, y_evq s <> QErrorDown n :: q0).
    { intros _ n q0 F. rewrite Eevq in F. inv F. exact (Hne n eq_refl). }
    destruct (step_psix c Hpos s LCtl s' o w h X HS HT H Hres' Hnerr) as (h' & HT' & HP).
    destruct (step_muxw c Hpos W s LCtl s' o w X HGW Hu Hnerr H) as (HM & G1 & G2 & G3 & G4).
    destruct (ctl_tok W s ev q d' o ws X HC Els HGW Eevq Hne El) as (ws' & Els' & J' & TT & HC' & TL & Hrq').
    fold G in J', HC'.
    exists h'. split; [exact X'|]. split; [exact HS'|]. split; [exact HT'|].
    split. { intros ws1 XC E1 Ec. rewrite Ed' in E1. assert (ws1 = ws') by congruence. subst ws1. rewrite G1. exact (HC' XC Ec). }
    split; [rewrite Ed', Hrq'; exact Hrq0|]. split; [exact Hmr'|].
    assert (SC : stealcost (cW c W) o <= PRx c W * length (steal_reqs o)).
    { apply (stealcost_le c Hpos W G ws' o J' TL). intros XC Ec'.
      eapply Nat.le_trans; [apply (HC' XC Ec')|apply (Tsumx_mono c Hpos); exact HGW]. }
    assert (EW : Wd (y_d s') = W) by (unfold W, Wd, Rem; rewrite G1, G2, G3; reflexivity).
    assert (EK : Kx (y_d s') <= Kx (y_d s)) by (unfold Kx, Rem; rewrite G2, G3; lia).
    assert (ER : Rem (y_d s') = Rem (y_d s)) by (unfold Rem; rewrite G2, G3; reflexivity).
    unfold PhiW. rewrite EW, ER, G1. rewrite Ed' at 1. rewrite Els', Els. fold W G.
    pose proof (Nat.mul_le_mono_l _ _ (PRx c W) HP) as MP. rewrite Nat.mul_add_distr_l in MP.
    assert (MK : Kx (y_d s') * (tokpotw c W ws' + Cx c W) <= Kx (y_d s) * (tokpotw c W ws + Cx c W))
      by (apply Nat.mul_le_mono; lia).
    lia.
Qed.


(* ---- the invariants, for every label ---- *)
Lemma step_finv s l s' o w :
  XW c s -> SHx s -> CBD s -> d_requeue (y_d s) = 0 -> sys_step c s l = Some (s', o, w) -> y_result s' = None ->
  XW c s' /\ SHx s' /\ CBD s' /\ d_requeue (y_d s') = 0.
Proof.
  intros X HS HC Hrq0 H Hres'.
  assert (X' : XW c s').
  { destruct (step_xw c Hng Hpos s l s' o w X H) as [A|(A & _)]; [exact A|congruence]. }
  pose proof (step_shx c Hpos s l s' o w X HS H Hres') as HS'.
  split; [exact X'|]. split; [exact HS'|].
  pose proof X as [Lo Hi (ws & P & DJd & NIs & Pout) Eq Eu Ea Er Edead].
  pose proof DJd as ([Els J AL _ _ _] & _).
  destruct (label_eq_ctl l) as [->|Hl].
  2:{ destruct (nonctl_sbk s l s' o w X Hl H) as ((B1 & B2 & B3 & B4 & B5 & B6) & _).
      destruct (B6 ws Els) as (ws' & Els' & C1 & C2 & C3). split; [|congruence].
      intros ws1 XC E1 Ec. assert (ws1 = ws') by congruence. subst ws1. rewrite B2. apply (HC ws XC Els). congruence. }
  destruct (ctl_shape s s' o w X H Hres') as (Eres & ev & q & d' & Eevq & El & Es' & Ed').
  pose proof (pre_from_invx c Hpos P s ws ev q X DJd NIs Eevq) as Hpre.
  assert (DEC : (exists n, ev = QErrorDown n) \/ (forall n, ev <> QErrorDown n)).
  { destruct ev; try (right; intros ? F; discriminate). left. eexists. reflexivity. }
  destruct DEC as [(n & ->)|Hne].
  - destruct (loop_once_okx N X0 Hpos _ _ ws d' o _ DJd Hpre El) as (_ & ws' & vo & _ & _ & DJ2 & _ & _).
    pose proof DJ2 as ([Els' J' _ _ _ _] & _).
    destruct (loop_ez N X0 Hpos n _ ws d' o ws' DJd Hpre Hrq0 El Els') as (Hrq' & (Ecoll & _)).
    assert (HGG : d_next_gw (y_d s) <= d_next_gw d').
    { destruct (loop_once_step _ _ _ _ _ El) as (_ & _ & _ & [(_ & A)|(_ & A & _)]); lia. }
    split; [|rewrite Ed'; exact Hrq'].
    intros ws1 XC E1 Ec. rewrite Ed' in E1. assert (ws1 = ws') by congruence. subst ws1. rewrite Ed'.
    eapply Nat.le_trans; [apply (HC ws XC Els); congruence|apply (Tsumx_mono c Hpos); exact HGG].
  - destruct (ctl_tok _ s ev q d' o ws X HC Els (le_n _) Eevq Hne El) as (ws' & Els' & J' & _ & HC' & _ & Hrq').
    assert (EG : d_next_gw d' = d_next_gw (y_d s)).
    { destruct (loop_zx N X0 Hpos ev _ ws d' o ws' DJd Hpre Hne El Els') as [_ _ _ _ _ _ _ _ _ ((_ & _ & A) & _) _ _]. exact A. }
    split; [|rewrite Ed', Hrq'; exact Hrq0].
    intros ws1 XC E1 Ec. rewrite Ed' in E1. assert (ws1 = ws') by congruence. subst ws1. rewrite Ed', EG. exact (HC' XC Ec).
Qed.

End PhiStep.

(* ====================================================================================== *)
(* F.5 the theorems                                                                         *)
(* ====================================================================================== *)
Section MainF.
Variable c : config.
Hypothesis Hmode : c_mode c = MSteal.
Hypothesis Hng : no_garbled c.
Hypothesis Hpos : 0 < c_numnodes c.
Variable b : Z.
Hypothesis Hbudget : c_max_restart c = Some b.
Hypothesis Hrequeue : c_requeue c = 0.

Lemma rq_ok0 : rq_ok c.
Proof. left. exact Hrequeue. Qed.

Lemma urun_boundw : forall ls s h,
  XW c s -> SHx s -> TIx s h -> CBD c s -> d_requeue (y_d s) = 0 -> d_max_restart (y_d s) <> None ->
  urun c s ls -> length ls <= S (PhiW c s h).
Proof.
  induction ls as [|l r IH]; intros s h X HS HT HC Hr Hm H; [cbn; lia|].
  cbn [urun] in H. destruct H as (Hu & H).
  destruct (sys_step c s l) as [[[s' o] w]|] eqn:E; [|destruct H].
  destruct (step_phiw c Hng Hpos s l s' o w h X HS HT HC Hr Hm Hu E) as [Hres|(h' & X' & HS' & HT' & HC' & Hr' & Hm' & Hlt)].
  - pose proof (urun_ended c Hpos s' r Hres H). cbn [length]. lia.
  - specialize (IH s' h' X' HS' HT' HC' Hr' Hm' H). cbn [length]. lia.
Qed.

Lemma CBD_init : CBD c (sys_init c).
Proof.
  intros ws X E Ec. exfalso. cbn [sys_init y_d d_sched] in E. rewrite Hmode in E. cbn in E. inv E. cbn in Ec. discriminate.
Qed.

(* the invariants hold in every reachable state in which the session has not ended *)
Lemma finv_run ls0 :
  y_result (sys_run c ls0) <> None \/
  (XW c (sys_run c ls0) /\ SHx (sys_run c ls0) /\ CBD c (sys_run c ls0) /\ d_requeue (y_d (sys_run c ls0)) = 0).
Proof.
  unfold sys_run.
  assert (G : forall s, y_result s <> None \/ (XW c s /\ SHx s /\ CBD c s /\ d_requeue (y_d s) = 0) ->
     let s' := fold_left (fun s l => match sys_step c s l with Some (s', _, _) => s' | None => s end) ls0 s in
     y_result s' <> None \/ (XW c s' /\ SHx s' /\ CBD c s' /\ d_requeue (y_d s') = 0)).
  { induction ls0 as [|l ls IH]; intros s Hs; cbn [fold_left]; [exact Hs|].
    apply IH. destruct (sys_step c s l) as [[[s' o] w]|] eqn:E; [|exact Hs].
    destruct Hs as [Hr|(X & HS & HC & Hr)].
    { exfalso. unfold sys_step in E. destruct (y_result s); [discriminate|]. apply Hr. reflexivity. }
    destruct (y_result s') as [rk|] eqn:Hres'; [left; discriminate|right].
    exact (step_finv c Hng Hpos s l s' o w X HS HC Hr E Hres'). }
  apply G. right. split; [apply XW_init; [exact Hmode|exact Hpos|exact rq_ok0]|].
  split; [apply SHx_init|]. split; [exact CBD_init|exact Hrequeue].
Qed.

(* C02 with worker failures, worksteal, termination with an explicit bound (no re-queued crash items, finite
   restart budget): from a reachable state s a run of useful moves and crashes is at most PhiW c s 1 + 1 long *)
Theorem steal_crash_c02_bound : forall ls0 ls,
  urun c (sys_run c ls0) ls -> length ls <= PhiW c (sys_run c ls0) 1 + 1.
Proof.
  intros ls0 ls H. destruct (finv_run ls0) as [R|(X & HS & HC & Hr)].
  - pose proof (urun_ended c Hpos _ ls R H). lia.
  - rewrite Nat.add_1_r. apply urun_boundw; auto.
    + apply (TIx_of_xw c). exact X.
    + rewrite (restart_frame c ls0), Hbudget. discriminate.
Qed.

Corollary steal_crash_c02_bound_init : forall ls, urun c (sys_init c) ls -> length ls <= PhiW c (sys_init c) 1 + 1.
Proof. intros ls H. exact (steal_crash_c02_bound [] ls H). Qed.

(* the measure: every useful move and every crash of a reachable state ends the session or makes PhiW smaller
   (h: the ghost bit of CTSd.v; TIx s 1 holds in every reachable state) *)
Theorem steal_crash_c02_phi : forall ls l s' o w h,
  TIx (sys_run c ls) h -> ulabel (sys_run c ls) l -> sys_step c (sys_run c ls) l = Some (s', o, w) ->
  y_result s' <> None \/ exists h', TIx s' h' /\ PhiW c s' h' < PhiW c (sys_run c ls) h.
Proof.
  intros ls l s' o w h HT Hu E. set (s := sys_run c ls) in *.
  assert (Hr0 : y_result s = None) by (unfold sys_step in E; destruct (y_result s); [discriminate|reflexivity]).
  destruct (finv_run ls) as [R|(X & HS & HC & Hr)]; [contradiction|]. fold s in X, HS, HC, Hr.
  assert (Hm : d_max_restart (y_d s) <> None).
  { pose proof (restart_frame c ls) as F. fold s in F. rewrite F, Hbudget. discriminate. }
  destruct (step_phiw c Hng Hpos s l s' o w h X HS HT HC Hr Hm Hu E) as [A|(h' & _ & _ & A & _ & _ & _ & B)];
    [left; exact A|right; eauto].
Qed.

End MainF.

Check step_phiw.
Print Assumptions step_phiw.
Check steal_crash_c02_phi.
Print Assumptions steal_crash_c02_phi.
Check steal_crash_c02_bound.
Print Assumptions steal_crash_c02_bound.
Check steal_crash_c02_bound_init.

(* ====================================================================================== *)
(* Non-vacuity                                                                             *)
(* ====================================================================================== *)
(* the ghost bit along a run, as chosen in the proofs (CTSd.step_psix, step_phiw) *)
Definition hstep (s : sys) (l : label) (h : nat) : nat :=
  match l, y_evq s with
  | LCtl, QErrorDown _ :: _ => 1
  | LCtl, ev :: _ => hnext ev (steal_of s) h
  | _, _ => h
  end.
(* PhiW with the products evaluated in binary *)
Definition PhiZ (c : config) (s : sys) (h : nat) : Z :=
  let W := Wd (y_d s) in
  (Z.of_nat (muxw c W s) + Z.of_nat (PRx c W) * Z.of_nat (Psix c s h) +
   match d_sched (y_d s) with
   | StW ws => Z.of_nat (Kx (y_d s)) * (Z.of_nat (tokpotw c W ws) + Z.of_nat (PRx c W) * (Z.of_nat (PsiMaxx c W) + 1))
   | _ => 0
   end +
   Z.of_nat (sumf (bootcw c W) (seq (d_next_gw (y_d s)) (Rem (y_d s)))))%Z.

Lemma PhiZ_eq c s h : PhiZ c s h = Z.of_nat (PhiW c s h).
Proof.
  unfold PhiZ, PhiW, Cx. cbv zeta. rewrite !Nat2Z.inj_add, Nat2Z.inj_mul.
  destruct (d_sched (y_d s)); try reflexivity.
  rewrite !Nat2Z.inj_mul, !Nat2Z.inj_add, Nat2Z.inj_mul, Nat2Z.inj_add. reflexivity.
Qed.

(* (steps at which PhiW goes down, steps at which it does not) *)
Fixpoint phiw_check (c : config) (s : sys) (h : nat) (ls : list label) : nat * nat :=
  match ls with
  | [] => (0, 0)
  | l :: r =>
      match sys_step c s l with
      | Some (s', _, _) =>
          let h' := hstep s l h in
          let '(a, b) := phiw_check c s' h' r in
          if (PhiZ c s' h' <? PhiZ c s h)%Z then (S a, b) else (a, S b)
      | None => (0, 0)
      end
  end.

(* the session of CrashProgressSteal.cps_ex_greedy_three_crashes (3 workers, 12 tests, budget 4; three workers
   killed, three replacements): PhiW goes down at each of the 223 steps (the three kills included) -- the three controller iterations that
   handle an errordown and the steps that issue a withdrawal request included -- and the theorem bounds every run
   of useful moves and crashes from the initial state by PhiW + 1 (= 40 291 539 for this session) *)
Example ctsf_ex_three_crashes :
  let c := c01w_cfg in
  let ls := CrashProgress.crp_greedy c (sys_init c) 4000 0 [(60, 1); (90, 0); (130, 3)] in
  phiw_check c (sys_init c) 1 ls = (length ls, 0) /\ length ls = 223 /\
  (forall ls', urun c (sys_init c) ls' -> length ls' <= PhiW c (sys_init c) 1 + 1).
Proof.
  cbv zeta. split; [vm_compute; reflexivity|]. split; [vm_compute; reflexivity|].
  intros ls' H. destruct c01w_hyps as (H1 & H2 & H3 & _).
  exact (steal_crash_c02_bound_init c01w_cfg H1 H2 H3 4%Z eq_refl eq_refl ls' H).
Qed.
Print Assumptions ctsf_ex_three_crashes.
Example ctsf_ex_phi_value : PhiZ c01w_cfg (sys_init c01w_cfg) 1 = 40291538%Z.
Proof. vm_compute. reflexivity. Qed.

(* ###################################### part G ###################################### *)
(* a run that cannot be extended by a useful non-crash move has ended the session *)
Theorem steal_crash_c02_maximal_run_ends c :
  c_mode c = MSteal -> no_garbled c -> 0 < c_numnodes c -> rq_ok c -> forall ls,
  (forall l, no_crash_label l -> useful (sys_run c ls) l = true -> sys_step c (sys_run c ls) l = None) ->
  y_result (sys_run c ls) <> None.
Proof.
  intros Hmode Hng Hpos Hrq ls Hmax Hres.
  destruct (steal_crash_c02_no_deadlock_useful c ls Hmode Hng Hpos Hrq Hres) as (l & A & B0 & C0).
  apply C0. apply Hmax; assumption.
Qed.
Check steal_crash_c02_maximal_run_ends.
Print Assumptions steal_crash_c02_maximal_run_ends.

(* ====================================================================================== *)
(* Non-vacuity: the measure along evaluated runs with crashes                               *)
(* ====================================================================================== *)
Definition lex3b (a b : nat * nat * nat) : bool :=
  (fst (fst a) <? fst (fst b)) ||
  ((fst (fst a) <=? fst (fst b)) &&
   ((snd (fst a) <? snd (fst b)) || ((snd (fst a) <=? snd (fst b)) && (snd a <? snd b)))).
Lemma lex3b_ok a b : lex3b a b = true -> lex3 a b.
Proof.
  unfold lex3b, lex3. intros H. apply orb_true_iff in H. destruct H as [H|H]; [left; apply Nat.ltb_lt; exact H|right].
  apply andb_true_iff in H. destruct H as (H1 & H). apply Nat.leb_le in H1. split; [exact H1|].
  apply orb_true_iff in H. destruct H as [H|H]; [left; apply Nat.ltb_lt; exact H|right].
  apply andb_true_iff in H. destruct H as (H2 & H3). apply Nat.leb_le in H2. apply Nat.ltb_lt in H3. auto.
Qed.

(* (steps at which the measure goes down lexicographically, steps at which it does not), and the list of the
   measures at the steps at which the first component (deaths still possible) goes down *)
Fixpoint lex3_check (c : config) (s : sys) (h : nat) (ls : list label) : nat * nat * list (nat * nat * nat) :=
  match ls with
  | [] => (0, 0, [])
  | l :: r =>
      match sys_step c s l with
      | Some (s', o, _) =>
          let h' := ghost_next s l h in
          let '(a, b, k) := lex3_check c s' h' r in
          match y_result s' with
          | Some _ => (S a, b, k)
          | None =>
              let k' := if Kx (y_d s') <? Kx (y_d s) then meas3 c s h :: k else k in
              if lex3b (meas3 c s' h') (meas3 c s h) then (S a, b, k') else (a, S b, k')
          end
      | None => (0, 0, [])
      end
  end.

(* (a) the session of CrashProgressSteal.cps_ex_greedy_three_crashes (3 workers, 12 tests, budget 4; workers 1, 0
   and the replacement 3 are killed): the measure goes down at every one of the 223 steps; it starts at
   (7, 679, 7443); the first component goes down five times (three errordown iterations, then the first two
   "finished" of the shutdown) *)
Example cts_ex_three_crashes :
  let c := c01w_cfg in
  let ls := CrashProgress.crp_greedy c (sys_init c) 4000 0 [(60, 1); (90, 0); (130, 3)] in
  length ls = 223 /\ fst (lex3_check c (sys_init c) 1 ls) = (223, 0) /\
  measure c [] = (7, 679, 7 * 1000 + 443) /\
  snd (lex3_check c (sys_init c) 1 ls) = [(7, 68, 89); (6, 47, 91); (5, 7, 32); (4, 7, 30); (3, 7, 30)] /\
  y_result (sys_run c ls) = Some RFinished.
Proof. vm_compute. repeat split. Qed.

(* (b) re-queueing (c_requeue = 2), c_strict, a test that kills its worker (test 9 on worker 2), two more kills,
   budget 3: 249 steps, the measure goes down at every one of them; all three initial workers die *)
Definition cts_cfg_rq : config :=
  {| c_mode := MSteal; c_numnodes := 3; c_chunk := None; c_maxfail := 0%Z; c_max_restart := Some 3%Z;
     c_requeue := 2; c_coll := c_coll c01w_cfg; c_oracle := c_oracle c01w_cfg;
     c_dur := fun _ => 0%Z; c_crash_in := fun n i => Nat.eqb n 2 && Nat.eqb i 9; c_strict := true; c_spec := fun _ => 0 |}.
Example cts_ex_requeue :
  let c := cts_cfg_rq in
  let ls := CrashProgress.crp_greedy c (sys_init c) 4000 0 [(50, 1); (120, 0)] in
  length ls = 249 /\ fst (lex3_check c (sys_init c) 1 ls) = (249, 0) /\
  measure c [] = (6, 583, 5 * 1000 + 523) /\
  map (fun m => fst (fst m)) (snd (lex3_check c (sys_init c) 1 ls)) = [6; 5; 4; 3; 2] /\
  y_result (sys_run c ls) = Some RFinished /\ y_dead (sys_run c ls) = [2; 0; 1].
Proof. vm_compute. repeat split. Qed.


(* (b') stop requests and a crash together (the configuration of CompletenessSteal.cst_ex_stop: worker 1's own
   session stops after its first test), worker 0 killed before move 70: 111 steps, the measure goes down at every
   one of them, the session ends as "interrupted" *)
Example cts_ex_stop_and_crash :
  let c := cst_stop_cfg in
  let ls := CrashProgress.crp_greedy c (sys_init c) 4000 0 [(70, 0); (140, 2)] in
  length ls = 111 /\ fst (lex3_check c (sys_init c) 1 ls) = (111, 0) /\
  y_result (sys_run c ls) = Some RInterrupted /\ y_dead (sys_run c ls) = [0].
Proof. vm_compute. repeat split. Qed.

(* (c) WITHOUT a restart budget (c_max_restart = None) every dead worker is replaced: one worker, and ten times
   in a row the (replacement) worker is killed before it boots, its end marker is read and its errordown
   handled.  The session has not ended, the group counter is at 11, the first component of the measure never
   moved: this can go on for ever -- termination needs the finite budget (the hypothesis c_max_restart c = Some b
   cannot be dropped; the same finding as CrashTermination.crt_ex_unbounded_restarts for --dist load) *)
Definition cts_cfg_none : config :=
  {| c_mode := MSteal; c_numnodes := 1; c_chunk := None; c_maxfail := 0%Z; c_max_restart := None;
     c_requeue := 0; c_coll := fun _ => crx_names 4; c_oracle := fun _ => crx_oracle 4;
     c_dur := fun _ => 0%Z; c_crash_in := fun _ _ => false; c_strict := false; c_spec := fun _ => 0 |}.
Example cts_ex_unbounded_restarts :
  let s := sys_run cts_cfg_none (flat_map crt_kill_round (seq 0 10)) in
  y_result s = None /\ d_next_gw (y_d s) = 11 /\ length (y_dead s) = 10 /\ d_active (y_d s) = [10] /\
  Kx (y_d s) = Kx (y_d (sys_init cts_cfg_none)).
Proof. vm_compute. repeat split. Qed.

(* (d) the theorems apply to (a) and (b) *)
Lemma cts_cfg_rq_hyps :
  c_mode cts_cfg_rq = MSteal /\ no_garbled cts_cfg_rq /\ 0 < c_numnodes cts_cfg_rq /\ rq_ok cts_cfg_rq /\
  c_max_restart cts_cfg_rq = Some 3%Z.
Proof.
  split; [reflexivity|]. split; [|split; [cbn; lia|split; [|reflexivity]]].
  - intros n i H. cbn in H. destruct H as [H|[]]. discriminate.
  - right. intros k. cbn. repeat constructor; cbn; intuition discriminate.
Qed.

Example cts_ex_theorems_apply :
  (forall f, ~ inf_run c01w_cfg (sys_run c01w_cfg (CrashProgress.crp_greedy c01w_cfg (sys_init c01w_cfg) 100 0 [(60, 1)])) f) /\
  (exists B, forall ls, urun cts_cfg_rq (sys_run cts_cfg_rq (CrashProgress.crp_greedy cts_cfg_rq (sys_init cts_cfg_rq) 60 0 [(50, 1)])) ls ->
             length ls <= B).
Proof.
  destruct c01w_hyps as (H1 & H2 & H3 & _ & H5 & _). destruct cts_cfg_rq_hyps as (K1 & K2 & K3 & K4 & K5).
  split.
  - intros f. exact (steal_crash_c02_terminates c01w_cfg H1 H2 H3 H5 4%Z eq_refl _ f).
  - exact (steal_crash_c02_bounded cts_cfg_rq K1 K2 K3 K4 3%Z K5 _).
Qed.
Print Assumptions cts_ex_theorems_apply.

(* (e) why the ghost bit is needed with crashes: "while a withdrawal request is outstanding the pool is empty" (J2 of
   TerminationSteal2.v) is NOT an invariant any more.  The session of ExactlyOnceSteal.v (3 workers, 12 tests) at
   the moment the controller has asked worker 1 for its tests 6 7: the idle worker 0 is killed and its errordown
   handled (its replacement 3 has not booted), then worker 2 (book 8 9 10 11) is killed and its errordown handled:
   its tests 9 10 11 are back in the pool, the only registered node (worker 1, four tests) is not idle, and the
   request to worker 1 is still outstanding.  (Not a stand-off: workers 1, 3, 4 can move.) *)
Definition cts_rep {A} (k : nat) (l : list A) : list A := flat_map (fun _ => l) (seq 0 k).
Definition cts_sched_j2 : list label :=
  c01w_sched_request ++ [LCrash 0] ++ cts_rep 8 [LRecv 0; LCtl] ++ [LCrash 2] ++ cts_rep 8 [LRecv 2; LCtl].
Example cts_ex_pool_not_empty_with_request :
  let s := sys_run c01w_cfg cts_sched_j2 in
  y_result s = None /\ y_dead s = [2; 0] /\ steal_of s = Some 1 /\ pool_ws s = [9; 10; 11] /\
  map (fun n => (n, bookw s n)) (seq 0 (d_next_gw (y_d s))) = [(0, []); (1, [4; 5; 6; 7]); (2, []); (3, []); (4, [])] /\
  CrashProgress.crp_moves c01w_cfg s = [LDeliver 1; LMain 1; LMain 3; LMain 4].
Proof. vm_compute. repeat split. Qed.

