(* TerminationEach.v -- property C02 for --dist each, the termination half: a measure that strictly
   decreases along every useful move of a --dist each session without worker failure.

   muE c s adds up, for everything that still has to happen, the number of moves it can still cause:
   every command on a wire or in an inbox (a "run everything" command counts for the whole collection
   of the worker it is addressed to), every queued item, the rest of the protocol of the running test,
   every message on a wire up, every event on the controller's queue, and for each node that has not
   been told to shut down the two commands ("run everything", "shutdown") the controller may still
   send it.  Every useful enabled non-crash move (Progress.useful: not an idle turn of a worker's
   receiver thread) makes muE strictly smaller (step_muE); hence a schedule of useful moves from the
   initial state is at most muE c (sys_init c) long (c02_each_terminates), and one that cannot be
   extended by a useful move has ended the session (c02_each_maximal_run_ends, with ProgressEach.v). *)
From XV Require Import Base Worker Ctl SchedLoad SchedSteal SchedScope SchedEach Sched DSession System
  NoHook DSessionProofs WorkerProofs LoadProofs FifoProofs ExactlyOnce Coupling Completeness Progress Termination
  EachSystem ProgressEach.
From XV Require LivenessLaws.
From Coq Require Import Permutation.
Open Scope nat_scope.

(* ====================================================================================== *)
(* the measure                                                                             *)
(* ====================================================================================== *)
Section MuE.
Variable c : config.
Notation N := (c_numnodes c).

(* what `runtests_all` enumerates on worker n *)
Definition KE (n : nat) : nat := ncollected (c_oracle c n).
(* Tst, icost, qcost, rcost, phpot are those of Termination.v *)
Definition cmdcostE (n : nat) (cm : cmd) : nat := 1 + sumf (rcost c n) (citems (KE n) cm).
Definition wpotE (n : nat) (w : wst) : nat :=
  phpot c n w + sumf (qcost c n) (wq w) + sumf (rcost c n) (wrpend w) + sumf (cmdcostE n) (winbox w).
Definition dcostE (n : nat) (cs : list cmd) : nat := sumf (fun cm => 1 + cmdcostE n cm) cs.
Definition nodepotE (s : sys) (n : nat) : nat :=
  2 * length (alist_get [] n (y_up s)) + dcostE n (alist_get [] n (y_down s)) +
  match aget n (y_w s) with Some w => wpotE n w | None => 0 end.

(* what the controller may still send to a node that has not been told to shut down *)
Definition budgetE (n : nat) : nat := dcostE n [CRunAll; CShutdown].
Definition sdtermE (n : nat) (f : nctl) : nat := if n_sdsent f then 0 else budgetE n.
Definition sdnE (es : estate) (n : nat) : nat :=
  match aget n (e_nt es) with Some f => sdtermE n f | None => 0 end.
Definition ctlpotE (d : dstate) : nat :=
  match d_sched d with StE es => sumf (sdnE es) (seq 0 N) | _ => 0 end.

Definition muE (s : sys) : nat :=
  ctlpotE (y_d s) + length (y_evq s) + sumf (nodepotE s) (seq 0 N).

(* ---- the worker ---- *)
Lemma main_step_potE n w w' evs :
  main_step (c_oracle c n) w = Some (w', evs) -> wpotE n w' + 2 * length evs + 1 <= wpotE n w.
Proof.
  intros H. pose proof (main_step_pot c n w w' evs H) as X.
  destruct (main_step_frame_e 0 _ _ _ _ H) as (E1 & E2 & _ & _).
  unfold wpotE, wpot in *. rewrite E1, E2 in *. lia.
Qed.

Lemma recv_next_potE n inbox : forall w,
  Forall each_cmd inbox ->
  let w' := recv_next (c_oracle c n) w inbox in
  sumf (qcost c n) (wq w') + sumf (rcost c n) (wrpend w') + sumf (cmdcostE n) (winbox w') +
    (match inbox with [] => 0 | _ => 1 end) <= sumf (qcost c n) (wq w) + sumf (cmdcostE n) inbox.
Proof.
  induction inbox as [|cm r IH]; intros w G; cbv zeta.
  - cbn [recv_next upd_recv wq wrpend winbox]. rewrite !sumf_nil. lia.
  - inversion G as [|c' r' Gc Gr]; subst. destruct cm as [ixs| |s| |]; try contradiction.
    + cbn [recv_next]. rewrite sumf_cons. unfold cmdcostE at 2. cbn [citems]. fold (KE n).
      destruct (seq 0 (KE n)) as [|i ixs] eqn:Es.
      * specialize (IH w Gr). cbv zeta in IH. cbn [map]. rewrite sumf_nil. destruct r; lia.
      * cbn [upd_recv w_put wq wrpend winbox map]. rewrite sumf_app, !sumf_cons, sumf_nil.
        unfold qcost at 2, rcost at 2. cbn [snd icost]. lia.
    + cbn [recv_next upd_recv w_put wq wrpend winbox]. rewrite sumf_app, !sumf_cons, !sumf_nil.
      unfold cmdcostE at 2. cbn [citems]. rewrite sumf_cons, sumf_nil. unfold qcost at 2, rcost. cbn [snd icost]. lia.
Qed.

Lemma recv_step_potE n w :
  Forall each_cmd (winbox w) -> wreply w = None -> recv_busy w = true ->
  wpotE n (fst (recv_step (c_oracle c n) w)) + 1 <= wpotE n w.
Proof.
  intros G Hr Hb. unfold recv_busy in Hb. apply andb_true_iff in Hb. destruct Hb as (Ecb & Hb).
  apply negb_true_iff in Hb.
  destruct (recv_step_cb (c_oracle c n) w) as (Ep & Ec). unfold wpotE. rewrite (phpot_ext c n _ _ Ep Ec).
  unfold recv_step. rewrite Ecb. cbn [negb]. rewrite Hr. cbn [upd_recv wrpend winbox].
  destruct (wrpend w) as [|it rest] eqn:Erp; cbn [fst].
  - pose proof (recv_next_potE n (winbox w) (upd_recv w (winbox w) [] None) G) as X. cbv zeta in X.
    cbn [upd_recv wq] in X. rewrite Hr in Hb. destruct (winbox w) as [|cm r]; [discriminate|].
    rewrite sumf_nil. lia.
  - cbn [upd_recv w_put wq wrpend winbox]. rewrite sumf_app, !sumf_cons, sumf_nil. unfold qcost at 2, rcost at 2.
    cbn [snd]. lia.
Qed.

Lemma deliver_potE n w cm : wpotE n (deliver w cm) = wpotE n w + cmdcostE n cm.
Proof.
  unfold wpotE, deliver. cbn [upd_recv wq wrpend winbox]. rewrite sumf_app, sumf_cons, sumf_nil.
  rewrite (phpot_ext c n (upd_recv w (winbox w ++ [cm]) (wrpend w) (wreply w)) w eq_refl eq_refl). lia.
Qed.

(* ---- what the controller sends to a node is covered by the node's budget ---- *)
Lemma FR_costE n f cs f' : FR f cs f' -> dcostE n cs + sdtermE n f' <= sdtermE n f.
Proof.
  intros R. destruct R as [f|f Hs Hd|f Hs Hd]; unfold sdtermE, sdm; cbn [n_sdsent]; rewrite ?Hs.
  - unfold dcostE. rewrite sumf_nil. lia.
  - unfold budgetE, dcostE. rewrite !sumf_cons, sumf_nil. lia.
  - unfold budgetE. lia.
Qed.
End MuE.

(* ====================================================================================== *)
(* every useful move makes the measure smaller                                             *)
(* ====================================================================================== *)
Section StepMuE.
Variable c : config.
Notation N := (c_numnodes c).
Hypothesis Hnc : forall n i, c_crash_in c n i = false.
Hypothesis Hng : no_garbled c.
Hypothesis Hcoh : forall n, n < N -> ncollected (c_oracle c n) = length (c_coll c n).

(* only node n0's share changes *)
Lemma muE_node_step s s' n0 k :
  y_d s' = y_d s -> y_evq s' = y_evq s -> n0 < N ->
  (forall n, n <> n0 -> nodepotE c s' n = nodepotE c s n) ->
  nodepotE c s' n0 + k <= nodepotE c s n0 -> muE c s' + k <= muE c s.
Proof.
  intros Ed Eq HnN Hoth Hn0. unfold muE. rewrite Ed, Eq.
  pose proof (sumf_change_one (nodepotE c s) (nodepotE c s') (seq 0 N) n0 (seq_NoDup N 0)) as X.
  assert (Hin : In n0 (seq 0 N)) by (apply in_seq; lia).
  specialize (X Hin (fun n _ Hn => Hoth n Hn)). lia.
Qed.

Lemma nodepotE_push s n0 w' ms :
  nodepotE c (push_up (set_w s n0 w') n0 ms) n0 =
  2 * (length (alist_get [] n0 (y_up s)) + length ms) + dcostE c n0 (alist_get [] n0 (y_down s)) + wpotE c n0 w'.
Proof.
  unfold nodepotE. cbn [push_up set_w y_up y_down y_w]. rewrite ea_alist_get_set_eq, ea_get_set_eq, app_length. reflexivity.
Qed.

Lemma nodepotE_push_other s n0 w' ms n :
  n <> n0 -> nodepotE c (push_up (set_w s n0 w') n0 ms) n = nodepotE c s n.
Proof.
  intros Hn. unfold nodepotE. cbn [push_up set_w y_up y_down y_w].
  rewrite ea_alist_get_set_neq, ea_get_set_neq by exact Hn. reflexivity.
Qed.

(* the controller's receiver thread queues at most one event per message *)
Lemma pfr_lenE n m d d' o evs :
  ok_upE c n m -> process_from_remote n m d = (d', o, Ok evs) -> length evs <= 1.
Proof.
  intros Hm H.
  unfold process_from_remote, mbind, get, of_opt, ret, raise in H. cbn beta iota zeta in H.
  destruct (aget n (d_nt d)) as [f|] eqn:Ef; cbn beta iota zeta in H; [|discriminate].
  destruct (n_down f) eqn:Edn.
  { assert (H' : (d, @nil out, Ok (@nil cevent)) = (d', o, Ok evs)).
    { destruct m as [e|ids|sk|i ms|dec| | |]; exact H. }
    inv H'. cbn. lia. }
  destruct m as [e|ids|sk|i ms|dec| | |]; cbn [ok_upE] in Hm; try contradiction.
  - destruct e; unfold put in H; cbn beta iota zeta in H; inv H; cbn; lia.
  - inv H. cbn. lia.
  - inv H. cbn. lia.
Qed.

Theorem step_muE s l s' o w :
  no_crash_label l -> useful s l = true -> EInv c s -> sys_step c s l = Some (s', o, w) ->
  muE c s' + 1 <= muE c s.
Proof.
  intros Hl Hu EI H.
  pose proof EI as [Ed Ek (es & DJd & NIs) Ew Eq Eu Edn Ea Er Efn Edw].
  pose proof DJd as (J0 & Jss). pose proof J0 as [Els J Jb Jp Jg].
  unfold sys_step in H. destruct (y_result s) eqn:Eres; [discriminate|].
  destruct l as [n0|n0|n0|n0| |n0]; [| | | | |contradiction].
  - (* LDeliver *)
    replace (mem_nat n0 (y_dead s)) with false in H by (rewrite Ed; reflexivity).
    destruct (aget n0 (y_down s)) as [[|cmd rest]|] eqn:Edw0; try discriminate.
    destruct (aget n0 (y_w s)) as [w0|] eqn:Ew0; try discriminate.
    fin3 H s' o w. pose proof (worker_ltE c s n0 w0 Ek Ew0) as HnN.
    apply (muE_node_step _ _ n0); auto.
    + intros n Hn. unfold nodepotE. cbn [y_up y_down y_w]. rewrite ea_alist_get_set_neq, ea_get_set_neq by exact Hn. reflexivity.
    + unfold nodepotE. cbn [y_up y_down y_w]. rewrite ea_alist_get_set_eq, ea_get_set_eq, Ew0, (ea_alist_get_some [] _ _ _ Edw0).
      rewrite deliver_potE. unfold dcostE. rewrite sumf_cons. lia.
  - (* LRecvW *)
    replace (mem_nat n0 (y_dead s)) with false in H by (rewrite Ed; reflexivity).
    destruct (aget n0 (y_w s)) as [w0|] eqn:Ew0; try discriminate.
    cbn [useful] in Hu. rewrite Ew0 in Hu.
    destruct (negb (wcb w0)); [discriminate|].
    destruct (recv_step (c_oracle c n0) w0) as [w' evs] eqn:Es. fin3 H s' o w.
    pose proof (worker_ltE c s n0 w0 Ek Ew0) as HnN.
    pose proof (NIs n0 w0 Ew0) as X0.
    pose proof (proj1 (ne_wx _ _ _ _ _ _ _ _ X0)) as Hrep.
    pose proof (proj1 (ne_cmds _ _ _ _ _ _ _ _ X0)) as Gw.
    destruct (NEI_recv (c_coll c) (c_oracle c n0) _ _ _ _ _ _ _ (Hcoh n0 HnN) X0) as (Ev & _).
    rewrite Es in Ev. cbn [snd] in Ev. subst evs.
    pose proof (recv_step_potE c n0 w0 Gw Hrep Hu) as X. rewrite Es in X. cbn [fst] in X.
    apply (muE_node_step _ _ n0); auto.
    + intros n Hn. apply nodepotE_push_other. exact Hn.
    + rewrite nodepotE_push. unfold nodepotE. rewrite Ew0. cbn [map length]. lia.
  - (* LMain *)
    replace (mem_nat n0 (y_dead s)) with false in H by (rewrite Ed; reflexivity).
    destruct (aget n0 (y_w s)) as [w0|] eqn:Ew0; try discriminate.
    assert (Hd : dies_now c n0 w0 = false).
    { unfold dies_now. destruct (wph w0); auto. }
    rewrite Hd in H.
    destruct (main_step (c_oracle c n0) w0) as [[w' evs]|] eqn:Es; [|discriminate]. fin3 H s' o w.
    pose proof (worker_ltE c s n0 w0 Ek Ew0) as HnN.
    pose proof (main_step_potE c n0 w0 w' evs Es) as X.
    apply (muE_node_step _ _ n0); auto.
    + intros n Hn. apply nodepotE_push_other. exact Hn.
    + rewrite nodepotE_push. unfold nodepotE. rewrite Ew0, map_length. lia.
  - (* LRecv *)
    destruct (aget n0 (y_up s)) as [[|m rest]|] eqn:Eup; try discriminate.
    cbn [y_d] in H.
    destruct (process_from_remote n0 m (y_d s)) as [[d' outs] r] eqn:Ep.
    destruct (Eu n0) as (Eu1 & Eu2). rewrite (ea_alist_get_some [] _ _ _ Eup) in Eu1, Eu2.
    inversion Eu1 as [|m2 r2 Gm3 Gr3]; subst.
    assert (HnN : n0 < N).
    { destruct (Nat.lt_ge_cases n0 N) as [X|X]; [exact X|]. specialize (Eu2 X). discriminate. }
    destruct (aget n0 (e_nt es)) as [f|] eqn:Ef.
    2:{ exfalso. apply (proj2 (ej_ntk _ _ _ J n0)); [exact HnN|exact Ef]. }
    destruct (worker_knownE c s n0 Ek HnN) as (wn & Ewn).
    assert (Hdn : n_down f = true -> up_sig m = []).
    { intros Hd. destruct (Edw es n0 f wn Els Ef Hd Ewn) as (X & _).
      rewrite (ea_alist_get_some [] _ _ _ Eup) in X. cbn [flat_map] in X. apply app_eq_nil in X. tauto. }
    destruct (pfr_effE c _ _ _ _ _ _ _ _ Els Ef Gm3 HnN Hdn Ep)
      as (-> & evs & es' & -> & Els' & Hsig & Hok3 & S1 & S2 & S3 & Hes).
    pose proof (pfr_lenE _ _ _ _ _ _ Gm3 Ep) as Hlen.
    cbn [apply_outs] in H. unfold close_if_dead in H. cbn [set_evq set_d y_dead] in H.
    replace (mem_nat n0 (y_dead s)) with false in H by (rewrite Ed; reflexivity).
    fin3 H s' o w.
    match goal with |- muE c ?x + 1 <= _ => set (s2 := x) end.
    assert (E1 : y_d s2 = d') by reflexivity. assert (E2 : y_evq s2 = y_evq s ++ evs) by reflexivity.
    unfold muE. rewrite E1, E2, app_length.
    assert (Ec : ctlpotE c d' = ctlpotE c (y_d s)).
    { unfold ctlpotE. rewrite Els', Els. apply sumf_ext_in. intros k _. unfold sdnE.
      destruct Hes as [->|(_ & _ & ->)]; [reflexivity|]. cbn [e_set_nt e_nt]. rewrite ea_get_set.
      destruct (Nat.eqb k n0) eqn:E; [|reflexivity]. apply Nat.eqb_eq in E. subst k. rewrite Ef. reflexivity. }
    rewrite Ec.
    pose proof (sumf_change_one (nodepotE c s) (nodepotE c s2) (seq 0 N) n0 (seq_NoDup N 0)) as X.
    assert (Hin : In n0 (seq 0 N)) by (apply in_seq; lia).
    assert (Hoth : forall n, In n (seq 0 N) -> n <> n0 -> nodepotE c s2 n = nodepotE c s n).
    { intros n _ Hn. unfold nodepotE, s2. cbn [set_evq set_d y_up y_down y_w]. rewrite ea_alist_get_set_neq by exact Hn. reflexivity. }
    specialize (X Hin Hoth).
    assert (Hn0 : nodepotE c s2 n0 + 2 = nodepotE c s n0).
    { unfold nodepotE, s2. cbn [set_evq set_d y_up y_down y_w]. rewrite ea_alist_get_set_eq, (ea_alist_get_some [] _ _ _ Eup). cbn [length]. lia. }
    lia.
  - (* LCtl *)
    specialize (Ea eq_refl).
    destruct (d_active (y_d s)) as [|a0 ar] eqn:Eact; [contradiction|].
    destruct (y_evq s) as [|ev q] eqn:Eevq; [discriminate|].
    inversion Eq as [|ev2 q2 Gev3 Gq3]; subst.
    destruct (d_loop_once ev (y_d s)) as [[d' outs] r] eqn:El.
    assert (Hpre : PREe N (c_coll c) ev (y_d s) es).
    { eapply pre_from_invE; eauto. }
    assert (Hact : d_active (y_d s) <> []) by (rewrite Eact; discriminate).
    destruct (loop_once_okE N (c_coll c) ev (y_d s) es d' outs r DJd Hact Hpre El) as (-> & es' & LE).
    pose proof (loop_once_nospawnE _ _ _ _ _ (ok_evE_not_death c _ Gev3) El) as Go.
    assert (Els' : d_sched d' = StE es').
    { destruct (le_dj _ _ _ _ _ _ _ _ LE) as ([E1 _ _ _ _] & _). exact E1. }
    set (s1 := apply_outs (set_d (set_evq s q) d') outs) in *.
    assert (Hd1 : y_dead (set_d (set_evq s q) d') = []) by (cbn; exact Ed).
    destruct (apply_outs_each outs _ Hd1 Go) as (A1 & A2 & A3 & A4 & A5 & A6 & A7).
    cbn [set_d set_evq y_d y_evq y_up y_w y_dead y_result y_down] in A1, A2, A3, A4, A5, A6, A7.
    fold s1 in A1, A2, A3, A4, A5, A6, A7.
    assert (S' : exists rr, s' = set_result s1 rr).
    { destruct (d_session_finished d') eqn:Efin.
      - fin3 H s' o w. eexists. reflexivity.
      - destruct (d_active d') as [|b0 br] eqn:Eact'.
        + exfalso. pose proof (le_fin _ _ _ _ _ _ _ _ LE) as Hf. rewrite Eact' in Hf. specialize (Hf eq_refl).
          unfold d_session_finished in Efin. rewrite Hf, Eact' in Efin. discriminate.
        + fin3 H s' o w. exists (y_result s1). symmetry. apply set_result_same. reflexivity. }
    destruct S' as (rr & ->).
    assert (Emu : muE c (set_result s1 rr) = muE c s1) by reflexivity. rewrite Emu. clear Emu.
    (* the nodes' shares: what was sent is added to the wires down *)
    assert (Enode : forall n, nodepotE c s1 n = nodepotE c s n + dcostE c n (cmds_to n outs)).
    { intros n. unfold nodepotE. rewrite A3, A4, A7. unfold dcostE. rewrite sumf_app. lia. }
    (* per node: the commands sent are paid for by the node's budget *)
    assert (Hnode : forall n, In n (seq 0 N) -> dcostE c n (cmds_to n outs) + sdnE c es' n <= sdnE c es n).
    { intros n Hn. apply in_seq in Hn. assert (HnN : n < N) by lia.
      destruct (aget n (e_nt es)) as [f|] eqn:Ef.
      2:{ exfalso. apply (proj2 (ej_ntk _ _ _ J n)); [exact HnN|exact Ef]. }
      pose proof (le_nt _ _ _ _ _ _ _ _ LE n) as R.
      destruct (FRo_fwd _ _ _ _ R Ef) as (f' & Ef' & R').
      unfold sdnE. rewrite Ef, Ef'. exact (FR_costE c n f _ f' R'). }
    assert (Hsum : sumf (fun n => dcostE c n (cmds_to n outs)) (seq 0 N) + sumf (sdnE c es') (seq 0 N) <=
                   sumf (sdnE c es) (seq 0 N)).
    { rewrite <- sumf_add. apply sumf_le_in. exact Hnode. }
    unfold muE. rewrite A1, A2. cbn [length].
    rewrite (sumf_ext_in (nodepotE c s1) (fun n => nodepotE c s n + dcostE c n (cmds_to n outs)) _ (fun n _ => Enode n)).
    rewrite sumf_add. unfold ctlpotE. rewrite Els', Els, Eevq. cbn [length]. lia.
Qed.

End StepMuE.

(* ====================================================================================== *)
(* the theorems                                                                            *)
(* ====================================================================================== *)
(* useful_run, run_from, useful_run_snoc, useful_run_nocrash are those of Termination.v *)
Section MainTE.
  Variable c : config.
  Hypothesis Hmode : c_mode c = MEach.
  Hypothesis Hnocrash : forall n i, c_crash_in c n i = false.
  Hypothesis Hnogarbled : no_garbled c.
  Hypothesis Hcoh : forall n, n < c_numnodes c -> ncollected (c_oracle c n) = length (c_coll c n).
  Hypothesis Hnodes : 0 < c_numnodes c.

  Lemma useful_run_boundE ls : forall s, EInv c s -> useful_run c s ls -> length ls <= muE c s.
  Proof.
    induction ls as [|l r IH]; intros s EI H; [cbn; lia|]. cbn [useful_run] in H. destruct H as (A & B & H).
    destruct (sys_step c s l) as [[[s' o] w]|] eqn:E; [|destruct H].
    pose proof (step_muE c Hnocrash Hcoh s l s' o w A B EI E) as X.
    pose proof (step_einv c Hnocrash Hnogarbled Hcoh s l s' o w A EI E) as EI'.
    specialize (IH s' EI' H). cbn [length]. lia.
  Qed.

  (* C02 for --dist each, termination: a schedule of useful moves is at most muE c (sys_init c) long *)
  Theorem c02_each_terminates : forall ls, useful_run c (sys_init c) ls -> length ls <= muE c (sys_init c).
  Proof. intros ls H. apply useful_run_boundE; [apply EInv_init; assumption|exact H]. Qed.

  Corollary c02_each_terminates_bound : exists B, forall ls, useful_run c (sys_init c) ls -> length ls <= B.
  Proof. exists (muE c (sys_init c)). exact c02_each_terminates. Qed.

  (* ... and a schedule of useful moves that cannot be extended by a useful move has ended the session *)
  Theorem c02_each_maximal_run_ends : forall ls,
    useful_run c (sys_init c) ls -> (forall l, ~ useful_run c (sys_init c) (ls ++ [l])) ->
    y_result (sys_run c ls) <> None.
  Proof.
    intros ls H Hmax Hres.
    pose proof (useful_run_nocrash c ls _ H) as Hncl.
    destruct (c02_each_no_deadlock_useful c ls Hmode Hnocrash Hnogarbled Hcoh Hncl Hnodes Hres) as (l & A & B & C).
    apply (Hmax l). apply useful_run_snoc; auto.
  Qed.

  (* ... and it has ended as "finished" or "interrupted": no exception escapes the controller *)
  Corollary c02_each_maximal_run_result : forall ls,
    useful_run c (sys_init c) ls -> (forall l, ~ useful_run c (sys_init c) (ls ++ [l])) ->
    y_result (sys_run c ls) = Some RFinished \/ y_result (sys_run c ls) = Some RInterrupted.
  Proof.
    intros ls H Hmax. pose proof (c02_each_maximal_run_ends ls H Hmax) as Hne.
    pose proof (useful_run_nocrash c ls _ H) as Hncl.
    pose proof (each_controller_never_raises c ls Hmode Hnocrash Hnogarbled Hcoh Hncl Hnodes) as Hnr.
    destruct (y_result (sys_run c ls)) as [[| |e]|]; auto; [exfalso; exact (Hnr e eq_refl)|contradiction].
  Qed.
End MainTE.

Print Assumptions step_muE.
Print Assumptions c02_each_terminates.
Print Assumptions c02_each_maximal_run_ends.
Check step_muE.
Check c02_each_terminates.
Check c02_each_terminates_bound.
Check c02_each_maximal_run_ends.
Check c02_each_maximal_run_result.
Print Assumptions c02_each_maximal_run_result.

(* ====================================================================================== *)
(* Non-vacuity                                                                             *)
(* ====================================================================================== *)
(* (useful_runb, useful_runb_ok and greedy -- the scheduler that always takes the first useful move --
   are those of Termination.v.)
   The bound for the 2-worker configuration EachSystem.each_cfg (worker 0 collects 3 tests, worker 1
   collects 4) is 136; the schedule that always takes the first useful move ends the session as
   "finished" after 130 moves, every one of them useful *)
Example each_term_ex :
  let ls := greedy each_cfg (sys_init each_cfg) 1000 in
  muE each_cfg (sys_init each_cfg) = 136 /\ length ls = 130 /\
  useful_run each_cfg (sys_init each_cfg) ls /\ y_result (sys_run each_cfg ls) = Some RFinished.
Proof.
  cbv zeta. split; [vm_compute; reflexivity|]. split; [vm_compute; reflexivity|].
  split; [apply useful_runb_ok; vm_compute; reflexivity|vm_compute; reflexivity].
Qed.

(* the measure along that schedule: it starts at the bound, goes down with every move (sometimes by
   more than one) and is 0 when the session has ended *)
Fixpoint muE_trace (c : config) (s : sys) (ls : list label) : list nat :=
  match ls with
  | [] => [muE c s]
  | l :: r => muE c s :: match sys_step c s l with Some (s', _, _) => muE_trace c s' r | None => [] end
  end.
Example each_term_ex_trace :
  let tr := muE_trace each_cfg (sys_init each_cfg) (greedy each_cfg (sys_init each_cfg) 1000) in
  firstn 12 tr = [136; 135; 134; 133; 132; 131; 130; 128; 127; 126; 125; 124] /\ last tr 1 = 0.
Proof. vm_compute. split; reflexivity. Qed.

(* a session with a stop request (3 workers; worker 1's own session asks to stop after its test 1):
   bound 197, the greedy schedule ends the session as "interrupted" after 162 useful moves *)
Definition each_cfg_stop : config :=
  each_cfg_gen 3 coll34 (fun n => each_oracle (length (coll34 n)) (if Nat.eqb n 1 then [1] else [])).
Example each_term_ex_stop :
  let ls := greedy each_cfg_stop (sys_init each_cfg_stop) 1000 in
  muE each_cfg_stop (sys_init each_cfg_stop) = 197 /\ length ls = 162 /\
  useful_run each_cfg_stop (sys_init each_cfg_stop) ls /\ y_result (sys_run each_cfg_stop ls) = Some RInterrupted.
Proof.
  cbv zeta. split; [vm_compute; reflexivity|]. split; [vm_compute; reflexivity|].
  split; [apply useful_runb_ok; vm_compute; reflexivity|vm_compute; reflexivity].
Qed.

(* the theorems apply to these sessions *)
Example each_term_ex_theorems_apply :
  let ls := greedy each_cfg (sys_init each_cfg) 1000 in
  length ls <= muE each_cfg (sys_init each_cfg) /\
  ((forall l, ~ useful_run each_cfg (sys_init each_cfg) (ls ++ [l])) -> y_result (sys_run each_cfg ls) <> None).
Proof.
  cbv zeta. destruct each_cfg_hyps as (H1 & H2 & H3 & H4 & H5).
  assert (HU : useful_run each_cfg (sys_init each_cfg) (greedy each_cfg (sys_init each_cfg) 1000))
    by (apply useful_runb_ok; vm_compute; reflexivity).
  split.
  - exact (c02_each_terminates each_cfg H1 H2 H3 H4 H5 _ HU).
  - exact (c02_each_maximal_run_ends each_cfg H1 H2 H3 H4 H5 _ HU).
Qed.
Print Assumptions each_term_ex_theorems_apply.
