(* Completeness.v: conservation (no index is ever lost) and exactly-once at the end of a finished
   session; non-vacuity examples. *)
From XV Require Import Base Worker Ctl SchedLoad SchedSteal SchedScope SchedEach Sched DSession System
  NoHook DSessionProofs WorkerProofs LoadProofs FifoProofs ExactlyOnce Coupling.
From Coq Require Import Permutation.
Open Scope nat_scope.

(* a worker that has exited on the shutdown marker holds exactly the tests it started *)
Lemma NI_exited_tokens ls act n dn w :
  NI ls act false n [] dn w -> WInv w -> wph w = PExited ->
  flat_map cmd_inds dn ++ w_tokens w = map (fun r => snd (fst r)) (wran w).
Proof.
  intros [(f & Ef & (M1 & M2)) Cp Ch Nd Nc Ac Fm Wx Fx] I Hp.
  assert (MP : markpopped w).
  { destruct (Fx (or_introl Hp)) as [X|[X|[X|X]]]; [exact X|congruence|destruct X|discriminate]. }
  destruct MP as (pre & t & Ep).
  unfold wstream in M1. rewrite Ep, map_app in M1. cbn [map snd] in M1.
  rewrite <- !app_assoc in M1. cbn [app] in M1.
  apply mlast_mark_inv in M1. apply app_eq_nil in M1. destruct M1 as (Eq & M1).
  apply app_eq_nil in M1. destruct M1 as (Er & M1). apply app_eq_nil in M1. destruct M1 as (Ei & Ed).
  pose proof (inv_phase w I) as E. unfold phase_inv in E. rewrite Hp in E.
  destruct E as (pre0 & lst & Ep0 & Hn & Eran).
  rewrite Ep in Ep0. apply app_inj_tail in Ep0. destruct Ep0 as (<- & <-).
  unfold w_tokens. rewrite !fm_cmd_inds_items, Ed, Ei, Er, ents_idx_items, Eq. cbn [item_inds flat_map app].
  rewrite Eran, Ep, <- ents_idx_map_ent, pairs_ents by exact Hn.
  rewrite ents_idx_app. cbn. apply app_nil_r.
Qed.

Section Completeness.
  Variable c : config.
  Variable ls : list label.
  Hypothesis Hmode : c_mode c = MLoad.
  Hypothesis Hnocrash : forall n i, c_crash_in c n i = false.
  Hypothesis Hnogarbled : no_garbled c.
  Hypothesis Hids : forall n, ~ In ""%string (c_coll c n).
  Hypothesis Hsched : Forall no_crash_label ls.
  Hypothesis Hnodes : 0 < c_numnodes c.

  Let s := sys_run c ls.

  (* conservation: from the initial distribution on, pool + wires + workers (including what the
     workers have taken and run) hold every index of the collection exactly once: tokens are
     neither duplicated nor lost *)
  Theorem conservation : forall lst coll,
    d_sched (y_d s) = StL lst -> l_coll lst = Some coll ->
    Permutation (places s) (seq 0 (length coll)).
  Proof.
    intros lst coll Els Ec. pose proof (run_cinv c ls Hmode Hnocrash Hnogarbled Hids Hsched Hnodes) as CI.
    rewrite places_eq. unfold pool. fold s in CI. rewrite Els. exact (ci_perm _ _ CI lst coll Els Ec).
  Qed.

  (* exactly once at the end: when the workers agree on the collection and the session ends as
     "finished", every collected test was started exactly once *)
  Hypothesis Hagree : forall n, n < c_numnodes c -> c_coll c n = c_coll c 0.

  Theorem finished_all_started :
    y_result s = Some RFinished ->
    Permutation (started s) (seq 0 (length (c_coll c 0))).
  Proof.
    intros Hfin. pose proof (run_cinv c ls Hmode Hnocrash Hnogarbled Hids Hsched Hnodes) as CI. fold s in CI.
    destruct CI as [Inv Ek (lst & (J0 & Jss) & NIs) Eq Eu Edn Ea Er Epm Efn Edw].
    destruct (Efn Hfin) as (Hsf & Hss).
    unfold d_session_finished in Hsf. apply andb_true_iff in Hsf. destruct Hsf as (Hsd & Hact).
    assert (Eact : d_active (y_d s) = []) by (destruct (d_active (y_d s)); [reflexivity|discriminate]).
    destruct J0 as [Els J Jb Jp Jg].
    destruct (Jg Hsd) as [F|(Hc & Hp)]; [congruence|].
    destruct (lj_lg _ _ _ J) as (G1 & G3).
    assert (Ecoll : l_coll lst = Some (c_coll c 0)).
    { apply G3; [|exact Hc]. intros k ids Hin. rewrite (G1 k ids Hin). apply Hagree.
      apply (lj_n2c _ _ _ J). unfold akeys. change k with (fst (k, ids)). apply in_map. exact Hin. }
    pose proof (Epm lst _ Els Ecoll) as P. rewrite Hp in P. cbn [app] in P.
    rewrite <- P. destruct Inv as [A B C0 D E F G NG].
    rewrite (started_keys s B). unfold wires.
    rewrite (flat_map_ext_in _ (node_tokens s) (akeys (y_w s))); [reflexivity|].
    intros k Hk. unfold node_tokens. destruct (aget k (y_w s)) as [w|] eqn:Ew.
    - pose proof (NIs k w Ew) as X. unfold NInv in X. rewrite Eact, Hss in X.
      assert (Hni : ~ In k (@nil nat)) by (intros []).
      destruct (ni_act _ _ _ _ _ _ _ X Hni) as (Es & Ep). rewrite Es in X.
      destruct (G k w Ew) as (Iw & _). symmetry. eapply NI_exited_tokens; eauto.
    - exfalso. apply aget_none_notin in Ew. contradiction.
  Qed.
End Completeness.

Print Assumptions conservation.
Print Assumptions finished_all_started.
Check conservation.
Check finished_all_started.

(* ====================================================================================== *)
(* Non-vacuity and the necessity of the side conditions: concrete sessions, evaluated      *)
(* ====================================================================================== *)
Definition cpl_oracle (k : nat) : oracle :=
  {| reports_of := fun _ => [Passed]; stops_after := fun _ => false; ncollected := k; coll_reports := [] |}.
Definition cpl_names (k : nat) : list string :=
  map (fun i => String (Ascii.ascii_of_nat (48 + i)) EmptyString) (seq 0 k).
(* two workers; worker 1 collects [coll1], every other worker the k tests "0", "1", ... *)
Definition cpl_cfg (nodes k : nat) (coll1 : list string) : config :=
  {| c_mode := MLoad; c_numnodes := nodes; c_chunk := None; c_maxfail := 0%Z; c_max_restart := Some 4%Z;
     c_requeue := 0; c_coll := fun n => if Nat.eqb n 1 then coll1 else cpl_names k;
     c_oracle := fun _ => cpl_oracle k;
     c_dur := fun _ => 0%Z; c_crash_in := fun _ _ => false; c_strict := false; c_spec := fun _ => 0 |}.

Lemma cpl_names_nonempty k : ~ In ""%string (cpl_names k).
Proof. unfold cpl_names. intros H. apply in_map_iff in H. destruct H as (i & E & _). discriminate. Qed.

Lemma cpl_cfg_ids nodes k k1 : forall n, ~ In ""%string (c_coll (cpl_cfg nodes k (cpl_names k1)) n).
Proof. intros n. cbn. destruct (Nat.eqb n 1); apply cpl_names_nonempty. Qed.

(* the parts of the coupling for node n: book; completes on the controller's queue, on the wire up;
   taken by the main thread and not completed, queued, rest of the command being unpacked, inbox;
   commands on the wire down *)
Definition cpl_parts (s : sys) (n : nat) :=
  (book s n,
   (completes (evq_sigs n (y_evq s)), completes (flat_map up_sig (alist_get [] n (y_up s)))),
   match aget n (y_w s) with
   | Some w => (owed_main w, ents_idx (wq w), item_inds (wrpend w), flat_map cmd_inds (winbox w))
   | None => ([], [], [], []) end,
   flat_map cmd_inds (alist_get [] n (y_down s))).

(* (a) a mid-run state, 2 workers and 40 tests: worker 0 was sent tests 0..4; the completion of 0 is
   on the controller's queue, that of 1 still on the wire, 2 is held by the main thread (it needs
   its successor), 3 is queued, 4 is still being unpacked by the receiver thread; worker 1's command
   0f 5..9 is still on the wire down.  In both cases the book is the concatenation of the parts. *)
Definition cpl_mid : list label :=
  c01_dist ++ [LDeliver 0] ++ c01_rep 4 [LRecvW 0] ++ c01_rep 6 [LMain 0] ++ c01_rep 4 [LRecv 0] ++
  c01_rep 5 [LMain 0].
Example cpl_ex_mid :
  let s := sys_run (cpl_cfg 2 40 (cpl_names 40)) cpl_mid in
  cpl_parts s 0 = ([0; 1; 2; 3; 4], ([0], [1]), ([2], [3], [4], []), []) /\
  cpl_parts s 1 = ([5; 6; 7; 8; 9], ([], []), ([], [], [], []), [5; 6; 7; 8; 9]) /\
  y_result s = None.
Proof. vm_compute. repeat split. Qed.

(* (b) a complete session, 2 workers and 6 tests, ending as "finished" with every test started once *)
Definition cpl_round : list label :=
  [LMain 0; LMain 0; LMain 1; LRecvW 0; LDeliver 0; LRecv 0; LCtl; LMain 0; LRecv 1; LRecvW 1; LDeliver 1;
   LRecv 0; LCtl].
Definition cpl_full : list label := c01_rep 40 cpl_round.
Example cpl_ex_finished :
  let s := sys_run (cpl_cfg 2 6 (cpl_names 6)) cpl_full in
  y_result s = Some RFinished /\ started s = [0; 1; 4; 2; 3; 5].
Proof. vm_compute. split; reflexivity. Qed.

(* the hypotheses of all the theorems hold of that session *)
Example cpl_ex_theorems_apply :
  let c := cpl_cfg 2 6 (cpl_names 6) in
  let s := sys_run c cpl_full in
  Coupled s /\ (forall e, y_result s <> Some (RError e)) /\ NoDup (places s) /\
  Permutation (started s) (seq 0 6).
Proof.
  cbv zeta.
  assert (H1 : c_mode (cpl_cfg 2 6 (cpl_names 6)) = MLoad) by reflexivity.
  assert (H2 : forall n i, c_crash_in (cpl_cfg 2 6 (cpl_names 6)) n i = false) by reflexivity.
  assert (H2g : no_garbled (cpl_cfg 2 6 (cpl_names 6))).
  { intros n i H. cbn in H. destruct H as [H|[]]. discriminate. }
  pose proof (cpl_cfg_ids 2 6 6) as H3.
  assert (H4 : Forall no_crash_label cpl_full) by (vm_compute; repeat constructor).
  assert (H5 : 0 < c_numnodes (cpl_cfg 2 6 (cpl_names 6))) by (cbn; lia).
  assert (H6 : forall n, n < c_numnodes (cpl_cfg 2 6 (cpl_names 6)) ->
                 c_coll (cpl_cfg 2 6 (cpl_names 6)) n = c_coll (cpl_cfg 2 6 (cpl_names 6)) 0).
  { intros n _. cbn. destruct (Nat.eqb n 1); reflexivity. }
  split; [apply coupling_invariant; assumption|].
  split; [apply controller_never_raises; assumption|].
  split; [apply c01_places_nodup_always; assumption|].
  apply (finished_all_started _ _ H1 H2 H2g H3 H4 H5 H6). exact (proj1 cpl_ex_finished).
Qed.
Print Assumptions cpl_ex_theorems_apply.

(* (c) the side condition of "the controller never raises": with no worker at all the very first
   turn of the controller loop ends the session with RuntimeError("no active workers") *)
Example cpl_ex_no_workers :
  y_result (sys_run (cpl_cfg 0 6 (cpl_names 6)) [LCtl]) = Some (RError ERuntimeNoWorkers).
Proof. vm_compute. reflexivity. Qed.

(* (d) the side condition of completeness: when the workers DISAGREE on the collection (worker 1
   collects 5 of the 6 tests) the controller does not raise; the session ends as "finished" --
   and not a single test was started *)
Example cpl_ex_disagree :
  let s := sys_run (cpl_cfg 2 6 (cpl_names 5)) cpl_full in
  y_result s = Some RFinished /\ started s = [] /\ Coupled s.
Proof.
  cbv zeta. split; [vm_compute; reflexivity|]. split; [vm_compute; reflexivity|].
  apply coupling_invariant; try reflexivity.
  - intros n i H. cbn in H. destruct H as [H|[]]. discriminate.
  - apply (cpl_cfg_ids 2 6 5).
  - vm_compute. repeat constructor.
  - cbn. lia.
Qed.

(* (e) an empty collection (agreed on by all workers) is no error either *)
Example cpl_ex_empty_collection :
  y_result (sys_run (cpl_cfg 2 0 []) cpl_full) = Some RFinished.
Proof. vm_compute. reflexivity. Qed.

(* (f) a stop request (worker 0's session asks to stop after test 1): "interrupted", no exception,
   and the coupling holds in the final state although worker 0 still owes a test it took *)
Definition cpl_cfg_stop : config :=
  {| c_mode := MLoad; c_numnodes := 2; c_chunk := None; c_maxfail := 0%Z; c_max_restart := Some 4%Z;
     c_requeue := 0; c_coll := fun _ => cpl_names 6;
     c_oracle := fun _ => {| reports_of := fun _ => [Passed]; stops_after := fun i => Nat.eqb i 1;
                             ncollected := 6; coll_reports := [] |};
     c_dur := fun _ => 0%Z; c_crash_in := fun _ _ => false; c_strict := false; c_spec := fun _ => 0 |}.
Example cpl_ex_stop :
  let s := sys_run cpl_cfg_stop cpl_full in
  y_result s = Some RInterrupted /\ cpl_parts s 0 = ([4], ([], []), ([4], [], [], []), []).
Proof. vm_compute. split; reflexivity. Qed.
